(* C02 — soundness: executable model of (a) the reference validity predicate of a trace w.r.t. an
   abstract AIR, (b) the enforcement objects (numerators / divisors, as polynomials and as the
   evaluation code of the verifier), (c) the verifier's deterministic decision as a function of an
   already parsed proof and of the coin outputs.

   Sources (winterfell /repo):
     verifier/src/lib.rs        verify, perform_verification (order of checks, error of each)
     verifier/src/evaluator.rs  evaluate_constraints (main and auxiliary segment, Lagrange kernel constraints)
     verifier/src/composer.rs   DeepComposer::{compose_trace_columns, compose_constraint_evaluations,
                                combine_compositions} (main and auxiliary segment, Lagrange kernel column)
     air/src/air/lagrange/*     through C16's Model/EnforceLagrange.v (lag_new, lag_evaluate_and_combine, lag_boundary_evaluate_at)
     air/src/air/divisor.rs     ConstraintDivisor::{from_transition, from_assertion, evaluate_at}
     air/src/air/boundary/{constraint.rs,constraint_group.rs}  evaluate_at
     air/src/air/transition/mod.rs  combine_evaluations
     prover/src/trace/mod.rs    Trace::validate (the executable definition of validity)
     air/src/proof/context.rs, air/src/air/trace_info.rs, air/src/options.rs   to_elements (coin seed)

   Polynomials are coefficient lists, lowest degree first.  Everything is over an arbitrary [FOps F];
   the transition function of the AIR is a Section variable.  Merkle authentication of the openings,
   the proof-of-work check and the FRI verdict are PARAMETERS of the decision function (they belong
   to C10 / C04 / C05).  No proofs here. *)
From Coq Require Import List Arith Bool ZArith.
From VBase Require Import FieldOps.
(* round 5: the Lagrange kernel constraints are C16's model of air/src/air/lagrange/* (qualified names only) *)
From VModel Require EnforceLagrange.
Import ListNotations.

Section Poly.
  Context {F : Type} (O : FOps F).
  Local Notation zero := (fzero O).
  Local Notation one := (fone O).
  Local Infix "+f" := (fadd O) (at level 50, left associativity).
  Local Infix "-f" := (fsub O) (at level 50, left associativity).
  Local Infix "*f" := (fmul O) (at level 40, left associativity).

  Fixpoint fpow (x : F) (n : nat) : F := match n with 0 => one | S m => x *f fpow x m end.

  (* Horner evaluation *)
  Fixpoint peval (p : list F) (x : F) : F :=
    match p with [] => zero | c :: q => c +f x *f peval q x end.

  Definition coeff (p : list F) (i : nat) : F := nth i p zero.

  Fixpoint padd (a b : list F) : list F :=
    match a, b with
    | [], _ => b
    | _, [] => a
    | x :: a', y :: b' => (x +f y) :: padd a' b'
    end.
  Definition pscale (c : F) (a : list F) : list F := map (fun x => c *f x) a.
  (* (X - r) * q *)
  Definition plin (r : F) (q : list F) : list F := padd (zero :: q) (pscale (fneg O r) q).
  Fixpoint pmul (a b : list F) : list F :=
    match a with [] => [] | x :: a' => padd (pscale x b) (zero :: pmul a' b) end.
  (* prod_{r in rs} (X - r) *)
  Fixpoint zpoly (rs : list F) : list F := match rs with [] => [one] | r :: rs' => plin r (zpoly rs') end.

  (* trailing (high-degree) zero coefficients removed *)
  Fixpoint pstrip (p : list F) : list F :=
    match p with
    | [] => []
    | c :: q => match pstrip q with
                | [] => if feqb O c zero then [] else [c]
                | q' => c :: q'
                end
    end.
  Definition pdegree (p : list F) : nat := pred (length (pstrip p)).
  Definition pis_zero (p : list F) : bool := match pstrip p with [] => true | _ => false end.

  (* [g^0; g^1; ...; g^(n-1)] *)
  Definition domain (g : F) (n : nat) : list F := map (fpow g) (seq 0 n).
  Definition fsum (l : list F) : F := fold_right (fun a acc => a +f acc) zero l.
  Definition fprod (l : list F) : F := fold_right (fun a acc => a *f acc) one l.
  (* sum_i c_i * v_i over the shorter of the two lists (Iterator::zip) *)
  Fixpoint dot (cs vs : list F) : F :=
    match cs, vs with c :: cs', v :: vs' => c *f v +f dot cs' vs' | _, _ => zero end.
  (* sum_i alpha_i * p_i  (random linear combination of polynomials) *)
  Fixpoint lincomb (alphas : list F) (ps : list (list F)) : list F :=
    match alphas, ps with a :: al', p :: ps' => padd (pscale a p) (lincomb al' ps') | _, _ => [] end.
End Poly.

(* ------------------------------------------------------------------ (a) validity of a trace *)
Section Validity.
  Context {F : Type} (O : FOps F).
  Local Notation zero := (fzero O).

  (* a trace is a list of rows; [trans step cur next] are the transition-constraint evaluations of the
     AIR on the frame (cur, next) at that step (the step selects the periodic values) *)
  Variable trans : nat -> list F -> list F -> list F.

  Definition row_at (t : list (list F)) (i : nat) : list F := nth i t [].
  Definition cell (t : list (list F)) (c i : nat) : F := nth c (row_at t i) zero.

  (* assertion kinds of air/src/air/assertions: the asserted cells (step, value) of one column *)
  Inductive AKind := ASingle | APeriodic | ASequence.
  Record Assertion := mkAsrt { as_kind : AKind; as_col : nat; as_first : nat; as_stride : nat; as_vals : list F }.

  Definition asserted_cells (n : nat) (a : Assertion) : list (nat * F) :=
    match as_kind a with
    | ASingle => [(as_first a, hd zero (as_vals a))]
    | APeriodic => map (fun j => (as_first a + j * as_stride a, hd zero (as_vals a))) (seq 0 (n / as_stride a))
    | ASequence => map (fun j => (as_first a + j * as_stride a, nth j (as_vals a) zero)) (seq 0 (n / as_stride a))
    end.

  (* Trace::validate: transitions on steps 0 .. n-k-1 (n-k of them), every assertion on every named step *)
  Definition trans_ok_b (t : list (list F)) (n k : nat) : bool :=
    forallb (fun i => forallb (fun e => feqb O e zero) (trans i (row_at t i) (row_at t (S i)))) (seq 0 (n - k)).
  Definition assertion_ok_b (t : list (list F)) (n : nat) (a : Assertion) : bool :=
    forallb (fun sv => feqb O (cell t (as_col a) (fst sv)) (snd sv)) (asserted_cells n a).
  Definition valid_b (t : list (list F)) (n k : nat) (asserts : list Assertion) : bool :=
    trans_ok_b t n k && forallb (assertion_ok_b t n) asserts.

  (* the corruption of one cell *)
  Fixpoint upd_nth {A} (l : list A) (i : nat) (v : A) : list A :=
    match l, i with
    | [], _ => []
    | _ :: l', 0 => v :: l'
    | x :: l', S j => x :: upd_nth l' j v
    end.
  Definition upd_cell (t : list (list F)) (c i : nat) (v : F) : list (list F) :=
    upd_nth t i (upd_nth (row_at t i) c v).
  Definition is_asserted (n : nat) (asserts : list Assertion) (c i : nat) : bool :=
    existsb (fun a => (as_col a =? c) && existsb (fun sv => fst sv =? i) (asserted_cells n a)) asserts.
  (* the cell (c, i) takes part only in exempt transitions: as `current` of step i and as `next` of step i-1 *)
  Definition only_exempt (n k i : nat) : bool := (n - k <? i) && (i <? n).
End Validity.
Arguments mkAsrt {F}. Arguments as_kind {F}. Arguments as_col {F}. Arguments as_first {F}.
Arguments as_stride {F}. Arguments as_vals {F}.

(* ------------------------------------------------------------------ (b) enforcement objects *)
Section Enforcement.
  Context {F : Type} (O : FOps F).
  Local Notation zero := (fzero O).
  Local Notation one := (fone O).
  Local Infix "+f" := (fadd O) (at level 50, left associativity).
  Local Infix "-f" := (fsub O) (at level 50, left associativity).
  Local Infix "*f" := (fmul O) (at level 40, left associativity).

  (* transition divisor: roots = the non-exempt steps g^0 .. g^(n-k-1); exemption points g^(n-k) .. g^(n-1) *)
  Definition trans_roots (g : F) (n k : nat) : list F := firstn (n - k) (domain O g n).
  Definition trans_exempt (g : F) (n k : nat) : list F := skipn (n - k) (domain O g n).
  Definition trans_divisor_poly (g : F) (n k : nat) : list F := zpoly O (trans_roots g n k).
  (* ConstraintDivisor::evaluate_at for from_transition(n, k): (x^n - 1) / prod (x - e) *)
  Definition trans_divisor_eval (g : F) (n k : nat) (x : F) : F :=
    fdiv O (fpow O x n -f one) (fprod O (map (fun e => x -f e) (trans_exempt g n k))).

  (* boundary divisor of an assertion with [m] asserted steps first, first+stride, ...:
     from_assertion gives x^m - g^(first*m) (x^m - 1 when first = 0) *)
  Definition bnd_roots (g : F) (first stride m : nat) : list F := map (fun j => fpow O g (first + j * stride)) (seq 0 m).
  Definition bnd_divisor_poly (g : F) (first stride m : nat) : list F := zpoly O (bnd_roots g first stride m).
  Definition bnd_divisor_eval (g : F) (first m : nat) (x : F) : F :=
    fpow O x m -f (if first =? 0 then one else fpow O g (m * first)).

  (* boundary numerator T_col - V : [tcol] the column polynomial, [vpoly] the value polynomial evaluated at x*xoff *)
  Definition bnd_numerator_eval (vpoly : list F) (xoff : F) (x tv : F) : F :=
    tv -f (match vpoly with [v] => v | p => peval O p (x *f xoff) end).
End Enforcement.

(* ------------------------------------------------------------------ (c) the verifier's decision
   Round 4: main AND auxiliary trace segment, over any carrier [FOps F] (the base field or its quadratic / cubic
   extension E: every value below is an element of E; values the Rust code holds in the base field — opened main-segment
   rows, periodic polynomials, main assertion polynomials, the domain generator — enter through E::from, which the
   driver applies when it builds the inputs).  This version of verifier/src/composer.rs has no conjugate handling for
   extension fields: one DEEP value per query position, all arithmetic in E. *)
Section Verifier.
  Context {F : Type} (O : FOps F).
  Local Notation zero := (fzero O).
  Local Notation one := (fone O).
  Local Infix "+f" := (fadd O) (at level 50, left associativity).
  Local Infix "-f" := (fsub O) (at level 50, left associativity).
  Local Infix "*f" := (fmul O) (at level 40, left associativity).

  (* Air::evaluate_transition(frame, periodic_values, result) *)
  Variable eval_trans : list F -> list F -> list F -> list F.
  (* Air::evaluate_aux_transition(main_frame, aux_frame, periodic_values, aux_rand_elements, result):
     main current, main next, aux current, aux next, periodic values, random elements *)
  Variable eval_aux_trans : list F -> list F -> list F -> list F -> list F -> list F -> list F.

  (* one boundary constraint of a group / one group (common divisor) *)
  Record BCons := mkBCons { bc_col : nat; bc_vpoly : list F; bc_xoff : F }.
  Record BGroup := mkBGroup { bg_first : nat; bg_steps : nat; bg_cons : list BCons }.

  Record AirDesc := mkAir {
    air_n : nat;                      (* trace length *)
    air_k : nat;                      (* transition exemptions *)
    air_g : F;                        (* trace domain generator *)
    air_periodic : list (list F);     (* get_periodic_column_polys *)
    air_groups : list BGroup;         (* main boundary constraint groups, in the order of get_boundary_constraints *)
    air_nt_main : nat;                (* context.main_transition_constraint_degrees.len() *)
    air_aux_groups : list BGroup;     (* auxiliary boundary constraint groups, same order *)
    air_lagrange : option nat         (* context.lagrange_kernel_aux_column_idx() *)
  }.

  (* Lagrange kernel column (round 5).  The random elements come out of the user's GkrVerifier::verify (outside the
     library: its verdict is the parameter e_gkr_ok below, its output is recorded here); the coefficients are drawn AFTER
     the ordinary transition / boundary coefficients (get_constraint_composition_coefficients: log2(n) transition
     coefficients, then one boundary coefficient) resp. after the DEEP coefficients of the trace and constraint columns *)
  Record LagCoins := mkLagCoins {
    lg_rands : list F;                       (* LagrangeKernelRandElements *)
    lg_cc_trans : list F;                    (* LagrangeConstraintsCompositionCoefficients.transition *)
    lg_cc_bnd : F;                           (* .boundary *)
    lg_cc_deep : F                           (* DeepCompositionCoefficients.lagrange *)
  }.

  (* coin outputs, each list in the order in which the coin produced it *)
  Record Coins := mkCoins {
    c_aux_rands : list F;                    (* get_aux_rand_elements (empty without auxiliary segment) *)
    cc_trans : list F;                       (* transition coefficients: main constraints first, then auxiliary *)
    cc_bnd : list F;                         (* boundary coefficients: main assertions first, then auxiliary *)
    c_z : F;                                 (* out-of-domain point *)
    cc_deep_trace : list F;                  (* DEEP coefficients of the trace columns: main first, then auxiliary *)
    cc_deep_cons : list F;                   (* DEEP coefficients of the constraint composition columns *)
    c_xs : list F;                           (* x coordinates of the (sorted, deduplicated) query positions *)
    c_lagrange : option LagCoins             (* Some iff the AIR declares a Lagrange kernel column *)
  }.

  (* the auxiliary segment of a parsed proof: OOD frame of the auxiliary columns and the opened auxiliary rows *)
  Record AuxOpen := mkAuxOpen { ax_cur : list F; ax_next : list F; ax_rows : list (list F) }.

  (* the parsed proof *)
  Record ProofObj := mkProof {
    p_modulus : Z;                           (* context.field_modulus *)
    p_options : list Z;                      (* [queries; blowup; grinding; extension; folding; remainder max degree] *)
    p_ood_cur : list F; p_ood_next : list F; (* out-of-domain frame of the main columns (TraceOodFrame::main_frame) *)
    p_ood_evals : list F;                    (* H_i(z) *)
    p_q_trace : list (list F);               (* opened main trace rows, one per query position *)
    p_q_cons : list (list F);                (* opened composition-column rows *)
    p_aux : option AuxOpen;                  (* Some iff the trace is multi-segment (aux_frame / queried_aux_trace_states);
                                                with a Lagrange kernel column the OOD frame ax_cur / ax_next holds the auxiliary
                                                columns WITHOUT it (OodFrame::parse), the opened rows ax_rows hold all of them *)
    p_lagrange : option (list F)             (* TraceOodFrame::lagrange_kernel_frame: c(z), c(g z), c(g^2 z), c(g^4 z), .. *)
  }.

  (* evaluator.rs *)
  Definition periodic_at (A : AirDesc) (z : F) : list F :=
    map (fun poly => peval O poly (fpow O z (air_n A / length poly))) (air_periodic A).

  (* TransitionConstraints::combine_evaluations: main evaluations with the first air_nt_main coefficients, auxiliary
     evaluations with the remaining ones (split_at), the sum divided by the transition divisor.  Without auxiliary
     frame the auxiliary evaluations are all zero. *)
  Definition eval_transition_part (A : AirDesc) (C : Coins) (P : ProofObj) : F :=
    let pers := periodic_at A (c_z C) in
    let ev1 := eval_trans (p_ood_cur P) (p_ood_next P) pers in
    let main := dot O (firstn (air_nt_main A) (cc_trans C)) ev1 in
    let num :=
      match p_aux P with
      | None => main
      | Some ax =>
          main +f dot O (skipn (air_nt_main A) (cc_trans C))
                        (eval_aux_trans (p_ood_cur P) (p_ood_next P) (ax_cur ax) (ax_next ax) pers (c_aux_rands C))
      end in
    fdiv O num (trans_divisor_eval O (air_g A) (air_n A) (air_k A) (c_z C)).

  (* BoundaryConstraintGroup::evaluate_at; the coefficients are consumed in order *)
  Fixpoint group_numer (cs : list BCons) (ccs : list F) (state : list F) (x : F) : F :=
    match cs, ccs with
    | c :: cs', cc :: ccs' =>
        bnd_numerator_eval O (bc_vpoly c) (bc_xoff c) x (nth (bc_col c) state zero) *f cc +f group_numer cs' ccs' state x
    | _, _ => zero
    end.
  Fixpoint eval_groups (g : F) (gs : list BGroup) (ccs : list F) (state : list F) (x : F) : F :=
    match gs with
    | [] => zero
    | G :: gs' =>
        let m := length (bg_cons G) in
        fdiv O (group_numer (bg_cons G) (firstn m ccs) state x) (bnd_divisor_eval O g (bg_first G) (bg_steps G) x)
        +f eval_groups g gs' (skipn m ccs) state x
    end.
  (* number of assertions in a list of groups (BoundaryConstraints::new: split_at(main_assertions.len())) *)
  Definition groups_size (gs : list BGroup) : nat := fold_right (fun G acc => length (bg_cons G) + acc) 0 gs.

  (* main groups on the main current row, auxiliary groups (their coefficients follow those of ALL main assertions) on
     the auxiliary current row *)
  Definition eval_boundary_part (A : AirDesc) (C : Coins) (P : ProofObj) : F :=
    let main := eval_groups (air_g A) (air_groups A) (cc_bnd C) (p_ood_cur P) (c_z C) in
    match p_aux P with
    | None => main
    | Some ax =>
        main +f eval_groups (air_g A) (air_aux_groups A) (skipn (groups_size (air_groups A)) (cc_bnd C)) (ax_cur ax) (c_z C)
    end.

  (* 3 ----- Lagrange kernel constraints (evaluator.rs): only when the proof carries a Lagrange frame;
     lagrange_constraints.transition.evaluate_and_combine(frame, rands, x) + lagrange_constraints.boundary.evaluate_at(x, frame).
     [mk] builds the transition constraints from their coefficients: LagrangeKernelTransitionConstraints::new = C16's lag_new.
     A None of C16's model is a Rust panic (frame / random elements / coefficients of inconsistent lengths, > 64 coefficients):
     no verdict of verify(); the value is then zero here and the theorems about it assume consistent lengths. *)
  Definition eval_lagrange_part_gen (mk : list F -> option (EnforceLagrange.LagTC (F := F)))
                                    (A : AirDesc) (C : Coins) (P : ProofObj) : F :=
    match p_lagrange P, c_lagrange C with
    | Some fr, Some lc =>
        match mk (lg_cc_trans lc) with
        | Some t =>
            match EnforceLagrange.lag_evaluate_and_combine O t fr (lg_rands lc) (c_z C),
                  EnforceLagrange.lag_boundary_evaluate_at O (lg_rands lc) fr (lg_cc_bnd lc) (c_z C) with
            | Some a, Some b => a +f b
            | _, _ => zero
            end
        | None => zero
        end
    | _, _ => zero
    end.

  Definition evaluate_constraints_gen (mk : list F -> option (EnforceLagrange.LagTC (F := F)))
                                      (A : AirDesc) (C : Coins) (P : ProofObj) : F :=
    eval_transition_part A C P +f eval_boundary_part A C P +f eval_lagrange_part_gen mk A C P.
  Definition eval_lagrange_part : AirDesc -> Coins -> ProofObj -> F := eval_lagrange_part_gen (EnforceLagrange.lag_new O).
  Definition evaluate_constraints : AirDesc -> Coins -> ProofObj -> F := evaluate_constraints_gen (EnforceLagrange.lag_new O).

  (* sum_i z^(i*n) * H_i(z) *)
  Fixpoint ood_reduce (n : nat) (z : F) (i : nat) (evals : list F) : F :=
    match evals with [] => zero | v :: r => fpow O z (i * n) *f v +f ood_reduce n z (S i) r end.

  Definition ood_equation_b (A : AirDesc) (C : Coins) (P : ProofObj) : bool :=
    feqb O (evaluate_constraints A C P) (ood_reduce (air_n A) (c_z C) 0 (p_ood_evals P)).

  (* composer.rs.  `for (i, &value) in row.iter().enumerate() { num += (value - ood[i]) * cc.trace[idx i] }`:
     the running sum of one segment's columns, each with the coefficient whose index the map [idx] names *)
  Fixpoint col_terms (cc : list F) (idx : nat -> nat) (i : nat) (row ood : list F) : F :=
    match row, ood with
    | v :: row', o :: ood' => (v -f o) *f nth (idx i) cc zero +f col_terms cc idx (S i) row' ood'
    | _, _ => zero
    end.

  (* which DEEP coefficient a trace column gets.  Main column i: cc.trace[i].  Auxiliary column j:
     cc.trace[cc_offset + j] with cc_offset = queried_main_trace_states.num_columns() — the index keeps running over
     the segments.  compose_trace_columns is written over the map of the auxiliary segment so that the property of
     the map that matters (Props/C02.v: injectivity over all columns) and what is lost without it can both be stated *)
  Inductive TraceCol := MainCol (i : nat) | AuxCol (j : nat).
  Definition deep_coeff_index_aux (main_width j : nat) : nat := main_width + j.
  Definition deep_coeff_index (main_width : nat) (c : TraceCol) : nat :=
    match c with MainCol i => i | AuxCol j => deep_coeff_index_aux main_width j end.

  (* one query position with x coordinate [x]: [row] the opened main row, [arow] the opened auxiliary row (if any) *)
  Definition deep_trace_at_gen (aux_idx : nat -> nat -> nat) (C : Coins) (P : ProofObj) (zg : F)
                               (row : list F) (arow : option (list F)) (x : F) : F :=
    let cc := cc_deep_trace C in
    let d1 := x -f c_z C in
    let d2 := x -f zg in
    let t1 := col_terms cc (fun i => i) 0 row (p_ood_cur P) in
    let t2 := col_terms cc (fun i => i) 0 row (p_ood_next P) in
    let num := t1 *f d2 +f t2 *f d1 in
    let num :=
      match p_aux P, arow with
      | Some ax, Some ar =>
          let idx := aux_idx (length row) in
          num +f (col_terms cc idx 0 ar (ax_cur ax) *f d2 +f col_terms cc idx 0 ar (ax_next ax) *f d1)
      | _, _ => num
      end in
    num *f finv O (d1 *f d2).
  Definition deep_trace_at : Coins -> ProofObj -> F -> list F -> option (list F) -> F -> F :=
    deep_trace_at_gen deep_coeff_index_aux.

  Definition deep_cons_at (C : Coins) (P : ProofObj) (row : list F) (x : F) : F :=
    dot O (cc_deep_cons C) (map (fun vo => fst vo -f snd vo) (combine row (p_ood_evals P))) *f finv O (x -f c_z C).

  (* the opened auxiliary row of query q: `(0..n).zip(queried_aux_trace_states.rows())` *)
  Definition aux_row_at (P : ProofObj) (q : nat) : option (list F) :=
    match p_aux P with Some ax => nth_error (ax_rows ax) q | None => None end.

  (* Lagrange kernel column in compose_trace_columns.  The ordinary loop runs over `row[..lagrange_ker_col_idx]`; the
     kernel column contributes  (T_l(x) - p_S(x)) * cc.lagrange / Z_S'(x)  to the common numerator, S = the points
     z, z g, z g^2, z g^4, .. of the Lagrange frame, p_S the interpolant of the frame values on S (evaluated here by
     Lagrange's formula: the value of polynom::eval(&polynom::interpolate(xs, ys), x)), Z_S' = prod over S without its
     first two points (those are the common denominator (x - z)(x - z g)). *)
  Fixpoint lag_points_go (z gexp : F) (fuel : nat) : list F :=
    match fuel with 0 => [] | S f => z *f gexp :: lag_points_go z (gexp *f gexp) f end.
  Definition lag_points (g z : F) (rows : nat) : list F := z :: lag_points_go z g (pred rows).
  Fixpoint remove_at {A} (i : nat) (l : list A) : list A :=
    match l, i with [], _ => [] | _ :: r, 0 => r | a :: r, S j => a :: remove_at j r end.
  Definition interp_at (xs ys : list F) (x : F) : F :=
    fsum O (map (fun iy =>
                   let i := fst iy in
                   let xi := nth i xs zero in
                   snd iy *f fprod O (map (fun xj => (x -f xj) *f finv O (xi -f xj)) (remove_at i xs)))
                (combine (seq 0 (length ys)) ys)).
  Definition cut_aux_row (A : AirDesc) (arow : option (list F)) : option (list F) :=
    match arow, air_lagrange A with Some ar, Some idx => Some (firstn idx ar) | _, _ => arow end.
  Definition deep_lagrange_at (A : AirDesc) (C : Coins) (P : ProofObj) (zg : F) (arow : option (list F)) (x : F) : F :=
    match p_aux P, arow, p_lagrange P, c_lagrange C, air_lagrange A with
    | Some _, Some ar, Some fr, Some lc, Some idx =>
        let xs := lag_points (air_g A) (c_z C) (length fr) in
        (nth idx ar zero -f interp_at xs fr x) *f lg_cc_deep lc
        *f finv O (fprod O (map (fun xj => x -f xj) (skipn 2 xs)))
        *f finv O ((x -f c_z C) *f (x -f zg))
    | _, _, _, _, _ => zero
    end.

  Definition deep_evaluations (A : AirDesc) (C : Coins) (P : ProofObj) : list F :=
    let zg := c_z C *f air_g A in
    map (fun qrx =>
           let rx := snd qrx in
           let arow := aux_row_at P (fst qrx) in
           deep_trace_at C P zg (fst (fst rx)) (cut_aux_row A arow) (snd rx) +f deep_lagrange_at A C P zg arow (snd rx)
           +f deep_cons_at C P (snd (fst rx)) (snd rx))
        (combine (seq 0 (length (p_q_trace P))) (combine (combine (p_q_trace P) (p_q_cons P)) (c_xs C))).

  (* errors of verify(), in the order in which they can be raised *)
  Inductive Verdict :=
  | Accept
  | RejField          (* InconsistentBaseField *)
  | RejOptions        (* UnacceptableProofOptions *)
  | RejGkr            (* GkrProofVerificationFailed (raised while the auxiliary random elements are built) *)
  | RejOod            (* InconsistentOodConstraintEvaluations *)
  | RejFriCommit      (* FriVerificationFailed raised by FriVerifier::new *)
  | RejPow            (* QuerySeedProofOfWorkVerificationFailed *)
  | RejTraceQuery     (* TraceQueryDoesNotMatchCommitment (main or auxiliary segment) *)
  | RejConsQuery      (* ConstraintQueryDoesNotMatchCommitment *)
  | RejFri.           (* FriVerificationFailed raised by FriVerifier::verify on the DEEP evaluations *)

  Fixpoint zlist_eqb (a b : list Z) : bool :=
    match a, b with
    | [], [] => true
    | x :: a', y :: b' => Z.eqb x y && zlist_eqb a' b'
    | _, _ => false
    end.

  (* parameters: the verifier's field modulus and acceptable option sets; the verdicts of the parts that
     belong to other properties *)
  Record Env := mkEnv {
    e_modulus : Z;
    e_acceptable : list (list Z);
    e_gkr_ok : bool;                         (* the user's GkrVerifier::verify on the GKR proof attached to the proof (the proof
                                                deserialises exactly — no bytes left over — and verifies); only consulted when
                                                the AIR declares a Lagrange kernel column *)
    e_fri_commit_ok : bool;
    e_pow_ok : bool;
    e_trace_auth : bool;                     (* MerkleTree::verify_batch of the trace openings, every segment *)
    e_cons_auth : bool;                      (* MerkleTree::verify_batch of the constraint openings *)
    e_fri : list F -> bool                   (* FriVerifier::verify on the DEEP evaluations *)
  }.

  Definition verify_model (E : Env) (A : AirDesc) (C : Coins) (P : ProofObj) : Verdict :=
    if negb (Z.eqb (e_modulus E) (p_modulus P)) then RejField
    else if negb (existsb (zlist_eqb (p_options P)) (e_acceptable E)) then RejOptions
    else if match air_lagrange A with Some _ => negb (e_gkr_ok E) | None => false end then RejGkr
    else if negb (ood_equation_b A C P) then RejOod
    else if negb (e_fri_commit_ok E) then RejFriCommit
    else if negb (e_pow_ok E) then RejPow
    else if negb (e_trace_auth E) then RejTraceQuery
    else if negb (e_cons_auth E) then RejConsQuery
    else if negb (e_fri E (deep_evaluations A C P)) then RejFri
    else Accept.
End Verifier.

(* ------------------------------------------------------------------ the harness' AIR family:
   Gallina twin of harness/src/airfam.rs FamAir::evaluate_transition.  Column c obeys
   next[c] = cur[c]^d_c * (1 + per_c) + k_c * cur[(c+1) mod w]   (hold columns: next = cur). *)
Section Family.
  Context {F : Type} (O : FOps F).
  Local Infix "+f" := (fadd O) (at level 50, left associativity).
  Local Infix "-f" := (fsub O) (at level 50, left associativity).
  Local Infix "*f" := (fmul O) (at level 40, left associativity).

  Record FamCol := mkFamCol { fc_hold : bool; fc_deg : nat; fc_per : option nat; fc_k : F }.

  Definition fam_trans (cols : list FamCol) (cur next pers : list F) : list F :=
    let w := length cols in
    map (fun ic =>
           let c := fst ic in let d := snd ic in
           let cu := nth c cur (fzero O) in let nx := nth c next (fzero O) in
           if fc_hold d then nx -f cu
           else
             let per := match fc_per d with Some i => fone O +f nth i pers (fzero O) | None => fone O end in
             nx -f (fpow O cu (fc_deg d) *f per +f fc_k d *f nth (Nat.modulo (S c) w) cur (fzero O)))
        (combine (seq 0 w) cols).

  (* auxiliary segment of the family (FamAir::evaluate_aux_transition): a running product and running sums,
       aux_next[0] = aux_cur[0] * (main_cur[0] + r_0),   aux_next[j] = aux_cur[j] + r_j * main_cur[j mod w],
     r_i = rands[i mod #rands] (ONE when no random element is drawn) *)
  Definition fam_aux_trans (w aw : nat) (mcur mnext acur anext pers rands : list F) : list F :=
    let r := fun i => match rands with [] => fone O | _ => nth (Nat.modulo i (length rands)) rands (fzero O) end in
    map (fun j =>
           match j with
           | 0 => nth 0 anext (fzero O) -f nth 0 acur (fzero O) *f (nth 0 mcur (fzero O) +f r 0)
           | _ => nth j anext (fzero O) -f (nth j acur (fzero O) +f r j *f nth (Nat.modulo j w) mcur (fzero O))
           end)
        (seq 0 aw).

  (* the Lagrange family of harness/src/lagfam.rs (LagAir): one main column next = cur + 1, one declared auxiliary
     transition constraint that is never written (stays zero) *)
  Definition lagfam_trans (cur next pers : list F) : list F :=
    [nth 0 next (fzero O) -f nth 0 cur (fzero O) -f fone O].
  Definition lagfam_aux_trans (mcur mnext acur anext pers rands : list F) : list F := [fzero O].
End Family.

(* query x coordinates (DeepComposer::new) and the family's transition with periodic VALUES at a step
   (used by the reference validity predicate) *)
Section Extras.
  Context {F : Type} (O : FOps F).
  (* square-and-multiply (FieldElement::exp_vartime); only used for the query coordinates, whose exponents
     range over the whole LDE domain *)
  Fixpoint fpow_pos (x : F) (p : positive) : F :=
    match p with
    | xH => x
    | xO q => let r := fpow_pos x q in fmul O r r
    | xI q => let r := fpow_pos x q in fmul O x (fmul O r r)
    end.
  Definition fpow_N (x : F) (e : N) : F := match e with N0 => fone O | Npos p => fpow_pos x p end.
  Definition query_xs (off glde : F) (positions : list N) : list F :=
    map (fun p => fmul O (fpow_N glde p) off) positions.
  Definition fam_step_trans (cols : list (FamCol (F:=F))) (cycles : list (list F)) (step : nat) (cur next : list F) : list F :=
    fam_trans O cols cur next (map (fun cyc => nth (Nat.modulo step (length cyc)) cyc (fzero O)) cycles).
End Extras.

(* ------------------------------------------------------------------ the statement in the coin seed
   Context::to_elements ++ pub_inputs.to_elements (verifier/src/lib.rs), for a trace without metadata:
   [tinfo_buf; trace_length; m1; m2; opt_buf; grinding; blowup; queries] ++ pub *)
Section Seed.
  Open Scope Z_scope.
  Record Shape := mkShape { sh_width : Z; sh_aux : option (Z * Z); sh_len : Z }.           (* aux = (width, rands) *)
  Record Opts := mkOpts { o_queries : Z; o_blowup : Z; o_grinding : Z; o_ext : Z; o_fold : Z; o_rem : Z }.

  Definition tinfo_buf (s : Shape) : Z :=
    match sh_aux s with
    | None => sh_width s * 256
    | Some (aw, ar) => ((sh_width s * 256 + 1) * 256 + aw) * 256 + ar
    end.
  Definition opt_buf (o : Opts) : Z := (o_ext o * 256 + o_fold o) * 256 + o_rem o.

  (* the integers that are turned into field elements with E::from(u32) (m1, m2 are the modulus halves) *)
  Definition ctx_words (s : Shape) (m1 m2 : Z) (o : Opts) : list Z :=
    [tinfo_buf s; sh_len s; m1; m2; opt_buf o; o_grinding o; o_blowup o; o_queries o].

  Definition seed_of {F} (O : FOps F) (s : Shape) (m1 m2 : F) (o : Opts) (pub : list F) : list F :=
    [fofz O (tinfo_buf s); fofz O (sh_len s); m1; m2; fofz O (opt_buf o); fofz O (o_grinding o);
     fofz O (o_blowup o); fofz O (o_queries o)] ++ pub.

  (* the family's PubInputs::to_elements: assertion values, each list prefixed by its length *)
  Fixpoint flat_avals {F} (O : FOps F) (avals : list (list F)) : list F :=
    match avals with [] => [] | a :: r => fofz O (Z.of_nat (length a)) :: a ++ flat_avals O r end.
End Seed.
