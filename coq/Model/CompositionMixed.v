(* C17 — the MIXED operations of the composition pipeline: base-field values (main trace segment, periodic values,
   divisor inverses, assertion polynomials of main assertions) combined with extension-field values (composition
   coefficients, auxiliary segment, results), exactly where the Rust code uses `mul_base`, `E::from` and
   `polynom::eval::<B, E>`.  B and E are two carriers with their own FOps; `emb` is `E::from`, `mul_base` is
   `ExtensionOf::mul_base`.  NO proofs here.  Sources:
     prover/src/constraints/evaluator/default.rs    evaluate_main_transition  (acc + coef.mul_base(const_eval))
     prover/src/constraints/evaluator/boundary.rs   Single/Small/LargePolyConstraint<B, E>::evaluate
     prover/src/constraints/evaluation_table.rs     acc_column  (value.mul_base(z), column[i].mul_base(z * e))
     air/src/air/boundary/constraint.rs             BoundaryConstraint<B, E>::evaluate_at  (E::from, polynom::eval::<B, E>)
     verifier/src/evaluator.rs                      periodic values polynom::eval(poly, x^(n/len)) with poly in B, x in E *)
From Coq Require Import List Arith Bool ZArith.
From VBase Require Import FieldOps.
From VModel Require Import Composition.
Import ListNotations.

Section Mixed.
Context {B E : Type} (OB : FOps B) (OE : FOps E).
Variable emb : B -> E.                       (* E::from(b) *)
Variable mul_base : E -> B -> E.             (* e.mul_base(b) *)

(* evals.iter().zip(coefs).fold(E::ZERO, |acc, (&const_eval, &coef)| acc + coef.mul_base(const_eval)) *)
Definition lincomb_mixed (evals : list B) (coefs : list E) : E :=
  fold_left (fun acc ec => fadd OE acc (mul_base (snd ec) (fst ec))) (combine evals coefs) (fzero OE).

(* SingleValueConstraint<B, E>::evaluate(state) *)
Definition single_eval_mixed (col : nat) (value : B) (cc : E) (state : list B) : option E :=
  match nth_error state col with Some s => Some (mul_base cc (fsub OB s value)) | None => None end.

(* SmallPolyConstraint<B, E>::evaluate(state, x): everything but the coefficient is in B *)
Definition small_eval_mixed (col : nat) (poly : list B) (xoff : B) (cc : E) (state : list B) (x : B) : option E :=
  let x' := fmul OB x xoff in
  let assertion_value := horner OB poly x' in
  match nth_error state col with Some s => Some (mul_base cc (fsub OB s assertion_value)) | None => None end.

(* LargePolyConstraint<B, E>::evaluate(state, ce_step): pre-computed values in B *)
Definition large_eval_mixed (col : nat) (values : list B) (step_offset : nat) (cc : E) (state : list B) (ce_step : nat) : option E :=
  match nth_error state col, nth_error values (large_value_index (mkLC col values step_offset (fzero OB)) ce_step) with
  | Some s, Some v => Some (mul_base cc (fsub OB s v))
  | _, _ => None
  end.

(* acc_column: boundary columns `*acc += value.mul_base(z)`, the transition column `*acc += column[i].mul_base(z * e)` *)
Definition acc_boundary_mixed (acc value : E) (z : B) : E := fadd OE acc (mul_base value z).
Definition acc_transition_mixed (acc value : E) (z e : B) : E := fadd OE acc (mul_base value (fmul OB z e)).

(* polynom::eval::<B, E>(p, x) = p.iter().rev().fold(E::ZERO, |acc, &coeff| acc * x + E::from(coeff)) *)
Definition horner_mixed (p : list B) (x : E) : E :=
  fold_left (fun acc c => fadd OE (fmul OE acc x) (emb c)) (rev p) (fzero OE).

(* BoundaryConstraint<B, E>::evaluate_at(x, trace_value) *)
Definition bc_evaluate_at_mixed (poly : list B) (xoff : B) (x tv : E) : E :=
  fsub OE tv (if length poly =? 1 then emb (nth 0 poly (fzero OB)) else horner_mixed poly (fmul OE x (emb xoff))).

(* verifier: periodic value of a column polynomial (coefficients in B) at x in E *)
Definition periodic_at_mixed (n : nat) (ppolys : list (list B)) (x : E) : list E :=
  map (fun p => horner_mixed p (cpow OE x (n / length p))) ppolys.
End Mixed.
