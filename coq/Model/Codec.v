(* Model/Codec.v — executable Gallina model of winterfell's (de)serialization layer (property C12).

   Sources modelled (working tree of /repo, i.e. including the C12 repairs under /verif/fixes):
     utils/core/src/serde/{mod.rs,byte_writer.rs,byte_reader.rs}   ByteWriter / ByteReader (SliceReader and
                                                                   Cursor semantics: identical), impls for ints,
                                                                   bool, usize (vint64), Option, Vec, String,
                                                                   arrays, tuples, BTreeMap, BTreeSet
     math/src/field/{f64,f62,f128}/mod.rs, extensions/*            field and extension elements
     crypto/src/hash/mod.rs (ByteDigest<N>), rescue/rp64_256/digest.rs (ElementDigest)
     air/src/options.rs, air/src/air/trace_info.rs, air/src/proof/{context,commitments,queries,ood_frame,mod}.rs
     fri/src/proof.rs

   Conventions.
   * A byte string is a [list Z]; a Rust [u8]/[u16]/.../[usize] value is a [Z] in its range (64-bit target:
     usize = u64).  Every narrowing cast [x as uN] is written [wrap N x] (= x mod 2^N).
   * Writers are total functions [A -> bytes]; a writer containing [assert!]s has a companion [write_T_ok]
     that is [true] iff no assertion fires.  Readers are [bytes -> Result (A * bytes)] (value and unread rest)
     with outcomes Ok / Err Eof / Err Invalid / Panic; every validation and every [assert!] reachable through
     a constructor called by the reader is explicit.
   * No proofs in this file. *)
From VBase Require Import MachInt.
Open Scope Z_scope.

(* ------------------------------------------------------------------------------------------ results *)
Inductive derr : Type := Eof | Invalid.
Inductive Result (A : Type) : Type := Ok (a : A) | Err (e : derr) | Panic.
Arguments Ok {A} a.
Arguments Err {A} e.
Arguments Panic {A}.

Definition bytes := list Z.
Definition Rd (A : Type) := bytes -> Result (A * bytes).

Definition ret {A} (a : A) : Rd A := fun bs => Ok (a, bs).
Definition bind {A B} (r : Rd A) (f : A -> Rd B) : Rd B :=
  fun bs => match r bs with Ok (a, bs') => f a bs' | Err e => Err e | Panic => Panic end.
Definition fail {A} (e : derr) : Rd A := fun _ => Err e.
Definition lift {A} (x : Result A) : Rd A :=
  fun bs => match x with Ok a => Ok (a, bs) | Err e => Err e | Panic => Panic end.
Notation "x <- r ;; k" := (bind r (fun x => k)) (at level 61, r at next level, right associativity).

(* assert!(c) inside a constructor *)
Definition assert_ {A} (c : bool) (k : Result A) : Result A := if c then k else Panic.

Definition len (bs : bytes) : Z := Z.of_nat (length bs).

(* ------------------------------------------------------------------------- byte source (SliceReader) *)
(* read_u8 / peek_u8 / read_array::<N> / read_slice(len) / read_vec(len): check_eor, copy, advance. *)
Definition read_u8 : Rd Z := fun bs => match bs with [] => Err Eof | b :: r => Ok (b, r) end.
Definition peek_u8 : Rd Z := fun bs => match bs with [] => Err Eof | b :: _ => Ok (b, bs) end.

Fixpoint take (n : nat) (bs : bytes) : option (bytes * bytes) :=
  match n with
  | O => Some ([], bs)
  | S n' => match bs with
            | [] => None
            | b :: r => match take n' r with Some (h, t) => Some (b :: h, t) | None => None end
            end
  end.
Definition read_array (n : nat) : Rd bytes :=
  fun bs => match take n bs with Some p => Ok p | None => Err Eof end.
(* the length is compared first so that a hostile 2^32 length never becomes a unary number *)
Definition read_slice (n : Z) : Rd bytes :=
  fun bs => if n <=? len bs then read_array (Z.to_nat n) bs else Err Eof.
Definition read_vec (n : Z) : Rd bytes := read_slice n.

(* ------------------------------------------------------------------------------- fixed-width integers *)
Definition write_u8 (x : Z) : bytes := [x].
Definition write_bytes (bs : bytes) : bytes := bs.
Definition write_uint (k : nat) (x : Z) : bytes := to_le_bytes k x.     (* value.to_le_bytes() *)
Definition read_uint (k : nat) : Rd Z := b <- read_array k ;; ret (of_le_bytes b).
Definition write_u16 := write_uint 2.
Definition write_u32 := write_uint 4.
Definition write_u64 := write_uint 8.
Definition write_u128 := write_uint 16.
Definition read_u16 := read_uint 2.
Definition read_u32 := read_uint 4.
Definition read_u64 := read_uint 8.
Definition read_u128 := read_uint 16.

Definition write_bool (b : bool) : bytes := write_u8 (b2z b).
Definition read_bool : Rd bool :=
  b <- read_u8 ;;
  if b =? 0 then ret false else if b =? 1 then ret true else fail Invalid.

(* ------------------------------------------------------------------------------------ usize = vint64 *)
Definition usize_max : Z := 2 ^ 64 - 1.
Definition sat_sub (a b : Z) : Z := Z.max 0 (a - b).

(* byte_writer.rs: fn encoded_len(value: u64) -> usize *)
Definition encoded_len (value : Z) : Z :=
  let zeros := clz 64 value in
  let l := sat_sub zeros 1 / 7 in
  9 - Z.min l 8.

(* byte_writer.rs: fn write_usize *)
Definition write_usize (value : Z) : bytes :=
  let length := encoded_len value in
  if length =? 9 then write_u8 0 ++ write_uint 8 value
  else firstn (Z.to_nat length) (to_le_bytes 8 (shl 64 (Z.lor (shl 64 value 1) 1) (length - 1))).

(* byte_reader.rs: fn read_usize.  [encoded[..length].copy_from_slice(value); u64::from_le_bytes(encoded)]
   is the little-endian value of the slice (zero padding adds nothing). *)
Definition read_usize : Rd Z :=
  first_byte <- peek_u8 ;;
  let length := ctz 8 first_byte + 1 in
  result <- (if length =? 9
             then _ <- read_u8 ;; read_uint 8
             else v <- read_slice length ;; ret (shr (of_le_bytes v) length)) ;;
  if result >? usize_max then fail Invalid else ret result.

(* ------------------------------------------------------------------------------ sequences: write_many *)
Definition write_many {A} (w : A -> bytes) (l : list A) : bytes := flat_map w l.

(* [for _ in 0..n { result.push(D::read_from(self)?) }]: exactly n iterations, stopping at the first error.
   Structural recursion on the binary count: the number of steps executed is (successful reads + log n), so a
   hostile count is answered as fast as by the implementation.  (After the repair the pre-allocation is
   bounded, hence no capacity-overflow Panic.) *)
Fixpoint pos_loop {S} (p : positive) (step : S -> Result S) (s : S) : Result S :=
  match p with
  | xH => step s
  | xO q => match pos_loop q step s with Ok s' => pos_loop q step s' | e => e end
  | xI q => match step s with
            | Ok s1 => match pos_loop q step s1 with Ok s2 => pos_loop q step s2 | e => e end
            | e => e
            end
  end.

Definition rm_step {A} (r : Rd A) (st : list A * bytes) : Result (list A * bytes) :=
  match r (snd st) with Ok (a, bs') => Ok (a :: fst st, bs') | Err e => Err e | Panic => Panic end.

Definition read_many {A} (r : Rd A) (n : Z) : Rd (list A) :=
  fun bs => match n with
            | Zpos p => match pos_loop p (rm_step r) ([], bs) with
                        | Ok (acc, bs') => Ok (rev acc, bs')
                        | Err e => Err e
                        | Panic => Panic
                        end
            | _ => Ok ([], bs)
            end.

(* ----------------------------------------------------------------- Option, Vec, arrays, tuples, String *)
Definition write_option {A} (w : A -> bytes) (o : option A) : bytes :=
  match o with Some v => write_bool true ++ w v | None => write_bool false end.
Definition read_option {A} (r : Rd A) : Rd (option A) :=
  c <- read_bool ;; if c then v <- r ;; ret (Some v) else ret None.

Definition write_vec {A} (w : A -> bytes) (l : list A) : bytes := write_usize (Z.of_nat (length l)) ++ write_many w l.
Definition read_vec_of {A} (r : Rd A) : Rd (list A) := n <- read_usize ;; read_many r n.

(* [T; C]: no length prefix *)
Definition write_arr {A} (w : A -> bytes) (l : list A) : bytes := write_many w l.
Definition read_arr {A} (r : Rd A) (c : Z) : Rd (list A) := read_many r c.

Definition write_pair {A B} (wa : A -> bytes) (wb : B -> bytes) (p : A * B) : bytes := wa (fst p) ++ wb (snd p).
Definition read_pair {A B} (ra : Rd A) (rb : Rd B) : Rd (A * B) := a <- ra ;; b <- rb ;; ret (a, b).
Definition write_triple {A B C} (wa : A -> bytes) (wb : B -> bytes) (wc : C -> bytes) (t : A * B * C) : bytes :=
  wa (fst (fst t)) ++ wb (snd (fst t)) ++ wc (snd t).
Definition read_triple {A B C} (ra : Rd A) (rb : Rd B) (rc : Rd C) : Rd (A * B * C) :=
  a <- ra ;; b <- rb ;; c <- rc ;; ret (a, b, c).

(* (): nothing is written, nothing is read *)
Definition write_unit (_ : unit) : bytes := [].
Definition read_unit : Rd unit := ret tt.

(* (T1,) and the tuples of arity 4, 5, 6 (serde/mod.rs has one impl per arity 1..6): the fields in order *)
Definition write_tup1 {A} (wa : A -> bytes) (t : A) : bytes := wa t.
Definition read_tup1 {A} (ra : Rd A) : Rd A := v1 <- ra ;; ret v1.
Definition write_tup4 {A B C D} (wa : A -> bytes) (wb : B -> bytes) (wc : C -> bytes) (wd : D -> bytes)
    (t : A * B * C * D) : bytes :=
  let '(a, b, c, d) := t in wa a ++ wb b ++ wc c ++ wd d.
Definition read_tup4 {A B C D} (ra : Rd A) (rb : Rd B) (rc : Rd C) (rd : Rd D) : Rd (A * B * C * D) :=
  v1 <- ra ;; v2 <- rb ;; v3 <- rc ;; v4 <- rd ;; ret (v1, v2, v3, v4).
Definition write_tup5 {A B C D E} (wa : A -> bytes) (wb : B -> bytes) (wc : C -> bytes) (wd : D -> bytes)
    (we : E -> bytes) (t : A * B * C * D * E) : bytes :=
  let '(a, b, c, d, e) := t in wa a ++ wb b ++ wc c ++ wd d ++ we e.
Definition read_tup5 {A B C D E} (ra : Rd A) (rb : Rd B) (rc : Rd C) (rd : Rd D) (re : Rd E)
    : Rd (A * B * C * D * E) :=
  v1 <- ra ;; v2 <- rb ;; v3 <- rc ;; v4 <- rd ;; v5 <- re ;; ret (v1, v2, v3, v4, v5).
Definition write_tup6 {A B C D E F} (wa : A -> bytes) (wb : B -> bytes) (wc : C -> bytes) (wd : D -> bytes)
    (we : E -> bytes) (wf : F -> bytes) (t : A * B * C * D * E * F) : bytes :=
  let '(a, b, c, d, e, f) := t in wa a ++ wb b ++ wc c ++ wd d ++ we e ++ wf f.
Definition read_tup6 {A B C D E F} (ra : Rd A) (rb : Rd B) (rc : Rd C) (rd : Rd D) (re : Rd E) (rf : Rd F)
    : Rd (A * B * C * D * E * F) :=
  v1 <- ra ;; v2 <- rb ;; v3 <- rc ;; v4 <- rd ;; v5 <- re ;; v6 <- rf ;; ret (v1, v2, v3, v4, v5, v6).

(* [T] (slice; Serializable only): write_usize(len); for element in self.iter() { element.write_into(target) } —
   the loop appends to the target one element at a time.  There is no reader for [T]; the bytes are read back as Vec<T>. *)
Definition write_slice {A} (w : A -> bytes) (l : list A) : bytes :=
  fold_left (fun target e => target ++ w e) l (write_usize (Z.of_nat (length l))).

(* String: length (vint64) + bytes, written/read one u8 at a time; UTF-8 validity is an oracle *)
Definition write_string (s : bytes) : bytes := write_usize (len s) ++ write_many write_u8 s.
(* str (Serializable only): the same two statements as String; read back as String *)
Definition write_str (s : bytes) : bytes := write_usize (len s) ++ write_many write_u8 s.
Definition read_string (utf8_valid : bytes -> bool) : Rd bytes :=
  n <- read_usize ;; data <- read_many read_u8 n ;;
  if utf8_valid data then ret data else fail Invalid.

(* ------------------------------------------------------------------------------- BTreeMap / BTreeSet *)
(* values: association lists in strictly increasing key order (iteration order of the tree);
   [from_iter] = successive insertion, a later entry replaces an earlier one with an equal key. *)
Section Ordered.
  Context {K V : Type} (ltb : K -> K -> bool).

  Fixpoint map_insert (k : K) (v : V) (m : list (K * V)) : list (K * V) :=
    match m with
    | [] => [(k, v)]
    | (k', v') :: r => if ltb k k' then (k, v) :: m
                       else if ltb k' k then (k', v') :: map_insert k v r
                       else (k, v) :: r
    end.
  Definition map_from_iter (l : list (K * V)) : list (K * V) :=
    fold_left (fun m kv => map_insert (fst kv) (snd kv) m) l [].

  Fixpoint set_insert (k : K) (m : list K) : list K :=
    match m with
    | [] => [k]
    | k' :: r => if ltb k k' then k :: m else if ltb k' k then k' :: set_insert k r else k :: r
    end.
  Definition set_from_iter (l : list K) : list K := fold_left (fun m k => set_insert k m) l [].

  Definition write_map (wk : K -> bytes) (wv : V -> bytes) (m : list (K * V)) : bytes :=
    write_usize (Z.of_nat (length m)) ++ write_many (write_pair wk wv) m.
  Definition read_map (rk : Rd K) (rv : Rd V) : Rd (list (K * V)) :=
    n <- read_usize ;; data <- read_many (read_pair rk rv) n ;; ret (map_from_iter data).

  Definition write_set (wk : K -> bytes) (m : list K) : bytes :=
    write_usize (Z.of_nat (length m)) ++ write_many wk m.
  Definition read_set (rk : Rd K) : Rd (list K) :=
    n <- read_usize ;; data <- read_many rk n ;; ret (set_from_iter data).
End Ordered.

(* ------------------------------------------------------------------ field elements, extensions, digests *)
(* An element is represented by its canonical residue [as_int()] in [0, M). *)
Definition M64 : Z := 2 ^ 64 - 2 ^ 32 + 1.
Definition M62 : Z := 4611624995532046337.
Definition M128 : Z := 340282366920938463463374557953744961537.

Definition write_felt (k : nat) (v : Z) : bytes := write_uint k v.           (* as_int().to_le_bytes() *)
Definition read_felt (k : nat) (M : Z) : Rd Z :=
  v <- read_uint k ;; if v >=? M then fail Invalid else ret v.
Definition write_f64 := write_felt 8.   Definition read_f64 := read_felt 8 M64.
Definition write_f62 := write_felt 8.   Definition read_f62 := read_felt 8 M62.
Definition write_f128 := write_felt 16. Definition read_f128 := read_felt 16 M128.

Definition write_quad (w : Z -> bytes) := write_pair w w.
Definition read_quad (r : Rd Z) := read_pair r r.
Definition write_cube (w : Z -> bytes) := write_triple w w w.
Definition read_cube (r : Rd Z) := read_triple r r r.

(* ByteDigest<N>: the N raw bytes *)
Definition write_digest (d : bytes) : bytes := write_bytes d.
Definition read_digest (n : nat) : Rd bytes := read_array n.

(* rp64_256::ElementDigest: four f64 limbs; the reader applies BaseElement::new (reduction mod M), it does not
   reject non-canonical limbs *)
Definition write_edigest (d : list Z) : bytes := write_many (write_uint 8) d.
Definition read_edigest : Rd (list Z) :=
  e1 <- read_u64 ;; e2 <- read_u64 ;; e3 <- read_u64 ;; e4 <- read_u64 ;;
  ret [e1 mod M64; e2 mod M64; e3 mod M64; e4 mod M64].

(* length-prefixed opaque blob with a k-byte little-endian length: write_uN(len as uN); write_bytes *)
Definition write_blob (k : nat) (b : bytes) : bytes := write_uint k (wrap (8 * Z.of_nat k) (len b)) ++ write_bytes b.
Definition read_blob (k : nat) : Rd bytes := n <- read_uint k ;; read_vec n.

(* ---------------------------------------------------------------------------------- air/src/options.rs *)
Inductive FieldExtension : Type := FE_None | FE_Quadratic | FE_Cubic.
Definition fe_to_u8 (fe : FieldExtension) : Z :=
  match fe with FE_None => 1 | FE_Quadratic => 2 | FE_Cubic => 3 end.
Definition write_FieldExtension (fe : FieldExtension) : bytes := write_u8 (fe_to_u8 fe).
Definition read_FieldExtension : Rd FieldExtension :=
  b <- read_u8 ;;
  if b =? 1 then ret FE_None else if b =? 2 then ret FE_Quadratic else if b =? 3 then ret FE_Cubic
  else fail Invalid.

(* usize::is_power_of_two *)
Definition is_pow2 (x : Z) : bool := (0 <? x) && (x =? 2 ^ Z.log2 x).

Record ProofOptions : Type := mkPO {
  po_num_queries : Z; po_blowup_factor : Z; po_grinding_factor : Z;
  po_field_extension : FieldExtension; po_fri_folding_factor : Z; po_fri_remainder_max_degree : Z }.

(* ProofOptions::new(num_queries: usize, blowup_factor: usize, grinding_factor: u32, field_extension,
                     fri_folding_factor: usize, fri_remainder_max_degree: usize) *)
Definition ProofOptions_new (nq bf gf : Z) (fe : FieldExtension) (ff rd : Z) : Result ProofOptions :=
  assert_ (nq >? 0) (assert_ (nq <=? 255) (
  assert_ (is_pow2 bf) (assert_ (bf >=? 2) (assert_ (bf <=? 128) (
  assert_ (gf <=? 32) (
  assert_ (is_pow2 ff) (assert_ (ff >=? 2) (assert_ (ff <=? 16) (
  (* fri_remainder_max_degree + 1: overflow panics (debug) or wraps to 0, which is not a power of two *)
  assert_ (rd + 1 <=? usize_max) (assert_ (is_pow2 (rd + 1)) (assert_ (rd <=? 255) (
  Ok (mkPO (wrap 8 nq) (wrap 8 bf) (wrap 8 gf) fe (wrap 8 ff) (wrap 8 rd)))))))))))))).

Definition write_ProofOptions (o : ProofOptions) : bytes :=
  write_u8 (po_num_queries o) ++ write_u8 (po_blowup_factor o) ++ write_u8 (po_grinding_factor o) ++
  write_FieldExtension (po_field_extension o) ++ write_u8 (po_fri_folding_factor o) ++
  write_u8 (po_fri_remainder_max_degree o).

Definition read_ProofOptions : Rd ProofOptions :=
  nq <- read_u8 ;; bf <- read_u8 ;; gf <- read_u8 ;; fe <- read_FieldExtension ;; ff <- read_u8 ;; rd <- read_u8 ;;
  if (nq =? 0) || (nq >? 255) then fail Invalid else
  if negb (is_pow2 bf) || (bf <? 2) || (bf >? 128) then fail Invalid else
  if gf >? 32 then fail Invalid else
  if negb (is_pow2 ff) || (ff <? 2) || (ff >? 16) then fail Invalid else
  if negb (is_pow2 (rd + 1)) || (rd >? 255) then fail Invalid else
  lift (ProofOptions_new nq bf gf fe ff rd).

(* --------------------------------------------------------------------------- air/src/air/trace_info.rs *)
Record TraceInfo : Type := mkTI {
  ti_main : Z; ti_aux : Z; ti_rands : Z; ti_length : Z; ti_meta : bytes }.

Definition TraceInfo_new_multi_segment (main aux rands length_ : Z) (meta : bytes) : Result TraceInfo :=
  assert_ (length_ >=? 8) (assert_ (is_pow2 length_) (assert_ (len meta <=? 65535) (
  assert_ (main >? 0) (
  (* main_segment_width.saturating_add(aux_segment_width) <= MAX_TRACE_WIDTH *)
  assert_ (Z.min (main + aux) usize_max <=? 255) (
  assert_ (if aux =? 0 then rands =? 0 else true) (assert_ (rands <=? 255) (
  Ok (mkTI main aux rands length_ meta)))))))).
Definition TraceInfo_with_meta (width length_ : Z) (meta : bytes) : Result TraceInfo :=
  assert_ (width >? 0) (TraceInfo_new_multi_segment width 0 0 length_ meta).
Definition TraceInfo_new (width length_ : Z) : Result TraceInfo := TraceInfo_with_meta width length_ [].

Definition write_TraceInfo (t : TraceInfo) : bytes :=
  write_u8 (wrap 8 (ti_main t)) ++ write_u8 (wrap 8 (ti_aux t)) ++ write_u8 (wrap 8 (ti_rands t)) ++
  write_u8 (wrap 8 (Z.log2 (ti_length t))) ++
  write_u16 (wrap 16 (len (ti_meta t))) ++ write_bytes (ti_meta t).
(* debug_assert!(aux <= 255), debug_assert!(rands <= 255), ilog2 of a non-zero length *)
Definition write_TraceInfo_ok (t : TraceInfo) : bool :=
  (ti_aux t <=? 255) && (ti_rands t <=? 255) && (0 <? ti_length t).

Definition read_TraceInfo : Rd TraceInfo :=
  main <- read_u8 ;;
  if main =? 0 then fail Invalid else
  aux <- read_u8 ;;
  if main + aux >? 255 then fail Invalid else
  rands <- read_u8 ;;
  if (aux =? 0) && negb (rands =? 0) then fail Invalid else
  if rands >? 255 then fail Invalid else
  e <- read_u8 ;;
  if e <? 3 then fail Invalid else
  if e >=? 64 then fail Invalid else
  let length_ := 2 ^ e in
  n <- read_u16 ;;
  meta <- (if negb (n =? 0) then read_vec n else ret []) ;;
  lift (TraceInfo_new_multi_segment main aux rands length_ meta).

Definition ti_num_segments (t : TraceInfo) : Z := if ti_aux t >? 0 then 2 else 1.

(* ---------------------------------------------------------------------------- air/src/proof/context.rs *)
Record Context : Type := mkCtx { ctx_trace_info : TraceInfo; ctx_modulus : bytes; ctx_options : ProofOptions }.

(* Context::new::<B>: [modulus] = B::get_modulus_le_bytes() *)
Definition Context_new (modulus : bytes) (t : TraceInfo) (o : ProofOptions) : Result Context :=
  assert_ (ti_length t <=? 2 ^ 32 - 1) (
  assert_ (ti_length t * po_blowup_factor o <=? usize_max) (   (* checked multiplication *)
  assert_ (ti_length t * po_blowup_factor o <=? 2 ^ 32 - 1) (
  Ok (mkCtx t modulus o)))).

Definition write_Context (c : Context) : bytes :=
  write_TraceInfo (ctx_trace_info c) ++ write_u8 (wrap 8 (len (ctx_modulus c))) ++ write_bytes (ctx_modulus c) ++
  write_ProofOptions (ctx_options c).
Definition write_Context_ok (c : Context) : bool :=
  write_TraceInfo_ok (ctx_trace_info c) && (len (ctx_modulus c) <? 255).

Definition read_Context : Rd Context :=
  t <- read_TraceInfo ;;
  n <- read_u8 ;;
  if n =? 0 then fail Invalid else
  m <- read_vec n ;;
  o <- read_ProofOptions ;;
  (* the two limits of Context::new, checked by the reader (trace_length.checked_mul(blowup_factor)) *)
  if ti_length t >? 2 ^ 32 - 1 then fail Invalid else
  if (ti_length t * po_blowup_factor o <=? usize_max) && (ti_length t * po_blowup_factor o <=? 2 ^ 32 - 1)
  then ret (mkCtx t m o) else fail Invalid.

(* ------------------------------------------------------- commitments.rs, queries.rs, ood_frame.rs (blobs) *)
Definition Commitments := bytes.
Definition write_Commitments (c : Commitments) : bytes := write_blob 2 c.
Definition write_Commitments_ok (c : Commitments) : bool := len c <? 65535.
Definition read_Commitments : Rd Commitments := read_blob 2.

Record Queries : Type := mkQ { q_paths : bytes; q_values : bytes }.
Definition write_Queries (q : Queries) : bytes := write_blob 4 (q_values q) ++ write_blob 4 (q_paths q).
Definition read_Queries : Rd Queries := v <- read_blob 4 ;; p <- read_blob 4 ;; ret (mkQ p v).

Record OodFrame : Type := mkOod { ood_trace_states : bytes; ood_lagrange : bytes; ood_evaluations : bytes }.
Definition write_OodFrame (f : OodFrame) : bytes :=
  write_blob 2 (ood_trace_states f) ++ write_blob 2 (ood_lagrange f) ++ write_blob 2 (ood_evaluations f).
Definition read_OodFrame : Rd OodFrame :=
  t <- read_blob 2 ;; l <- read_blob 2 ;; e <- read_blob 2 ;; ret (mkOod t l e).

(* ------------------------------------------------------------------------------------ fri/src/proof.rs *)
Record FriProofLayer : Type := mkFL { fl_values : bytes; fl_paths : bytes }.
Definition write_FriProofLayer (l : FriProofLayer) : bytes := write_blob 4 (fl_values l) ++ write_blob 4 (fl_paths l).
Definition read_FriProofLayer : Rd FriProofLayer :=
  n <- read_u32 ;;
  if n =? 0 then fail Invalid else
  v <- read_vec n ;;
  p <- read_blob 4 ;;
  ret (mkFL v p).

Record FriProof : Type := mkFri { fri_layers : list FriProofLayer; fri_remainder : bytes; fri_num_partitions : Z }.
Definition write_FriProof (p : FriProof) : bytes :=
  write_u8 (wrap 8 (Z.of_nat (length (fri_layers p)))) ++ write_many write_FriProofLayer (fri_layers p) ++
  write_blob 2 (fri_remainder p) ++ write_u8 (fri_num_partitions p).
Definition read_FriProof : Rd FriProof :=
  n <- read_u8 ;;
  layers <- read_many read_FriProofLayer n ;;
  r <- read_blob 2 ;;
  np <- read_u8 ;;
  (* num_partitions is stored as a log2: num_partitions as u32 >= usize::BITS is rejected *)
  if np >=? 64 then fail Invalid else
  ret (mkFri layers r np).

(* ---------------------------------------------------------------------------------- air/src/proof/mod.rs *)
Record Proof : Type := mkProof {
  pr_context : Context; pr_num_unique_queries : Z; pr_commitments : Commitments;
  pr_trace_queries : list Queries; pr_constraint_queries : Queries; pr_ood_frame : OodFrame;
  pr_fri_proof : FriProof; pr_pow_nonce : Z; pr_gkr_proof : option bytes }.

Definition write_Proof (p : Proof) : bytes :=
  write_Context (pr_context p) ++ write_u8 (pr_num_unique_queries p) ++ write_Commitments (pr_commitments p) ++
  write_many write_Queries (pr_trace_queries p) ++ write_Queries (pr_constraint_queries p) ++
  write_OodFrame (pr_ood_frame p) ++ write_FriProof (pr_fri_proof p) ++ write_u64 (pr_pow_nonce p) ++
  write_option (write_vec write_u8) (pr_gkr_proof p).
Definition write_Proof_ok (p : Proof) : bool :=
  write_Context_ok (pr_context p) && write_Commitments_ok (pr_commitments p).

Definition read_Proof : Rd Proof :=
  c <- read_Context ;;
  nuq <- read_u8 ;;
  com <- read_Commitments ;;
  tq <- read_many read_Queries (ti_num_segments (ctx_trace_info c)) ;;
  cq <- read_Queries ;;
  ood <- read_OodFrame ;;
  fri <- read_FriProof ;;
  nonce <- read_u64 ;;
  gkr <- read_option (read_vec_of read_u8) ;;
  ret (mkProof c nuq com tq cq ood fri nonce gkr).
