(* Model/Untrusted.v — what happens to untrusted bytes between Proof::from_bytes and the end of verify() (property C06).

   Sources modelled (working tree of /repo, i.e. including the repairs under fixes/c06-NAME.diff):
     air/src/proof/mod.rs          Proof::from_bytes  = Codec.read_Proof (stage 1, bytes -> Proof with opaque blobs)
     air/src/proof/commitments.rs  Commitments::parse                     \
     air/src/proof/queries.rs      Queries::parse, table.rs Table::from_bytes   |  stage 2: the typed parsers, applied to a blob
     crypto/src/merkle/proofs.rs   BatchMerkleProof::deserialize          |  and AIR-side parameters which do NOT come from
     air/src/proof/ood_frame.rs    OodFrame::parse, TraceOodFrame         |  the blob (widths, domain size, folding factor...)
     fri/src/proof.rs              FriProof::{num_partitions, parse_remainder, parse_layers}, FriProofLayer::parse  /
     fri/src/options.rs            FriOptions::num_fri_layers
     crypto/src/random/default.rs  DefaultRandomCoin::draw_integers (its assertions / error)
     verifier/src/lib.rs           verify, perform_verification           \   stage 3: control flow on SHAPES (counts, widths,
     verifier/src/channel.rs       VerifierChannel::new and the readers   |   lengths); every value-dependent check is an oracle
     verifier/src/composer.rs      DeepComposer (index arithmetic)        |   bit, the numbers of distinct (folded) positions are
     fri/src/verifier/mod.rs       FriVerifier::new / verify_generic      /   inputs
     air/src/air/context.rs        AirContext::new_multi_segment (the assertions reached through Air::new)

   Conventions (as in Codec.v): bytes = list Z, usize = Z in [0, 2^64).  Stage 2 uses Codec's [Result] (Ok / Err / Panic)
   and its readers, so an element which is not canonical or a blob which is too short is an [Err] exactly as in the code.
   Every [assert!], checked arithmetic operation (debug profile: overflow panics), [ilog2], index, [remove(0)], [expect]
   is an explicit Panic.  Requests for memory sized by untrusted data are summed by the [alloc_*] functions.
   No proofs in this file. *)
From VBase Require Import MachInt.
From VModel Require Import Codec.
Open Scope Z_scope.

(* ------------------------------------------------------------------------------------------ parameters *)
(* the base field of the AIR *)
Record FieldP : Type := mkFP {
  fp_bytes : nat;        (* ELEMENT_BYTES of the base field: 8 / 16 *)
  fp_mod : Z;            (* modulus *)
  fp_two_adicity : Z;    (* TWO_ADICITY *)
  fp_modbytes : bytes;   (* get_modulus_le_bytes() *)
  fp_quad : bool;        (* <QuadExtension<B>>::is_supported() *)
  fp_cubic : bool }.

Definition F64P : FieldP := mkFP 8 M64 32 (to_le_bytes 8 M64) true true.
Definition F128P : FieldP := mkFP 16 M128 40 (to_le_bytes 16 M128) true false.
Definition F62P : FieldP := mkFP 8 M62 39 (to_le_bytes 8 M62) true true.

(* one element of the degree-[deg] extension: [deg] base elements, each rejected when not canonical *)
Definition read_elem (F : FieldP) (deg : nat) : Rd (list Z) := read_arr (read_felt (fp_bytes F) (fp_mod F)) (Z.of_nat deg).
Definition elem_bytes (F : FieldP) (deg : nat) : Z := Z.of_nat (fp_bytes F) * Z.of_nat deg.

Definition llen {T} (l : list T) : Z := Z.of_nat (length l).

Definition has_more (bs : bytes) : bool := match bs with [] => false | _ => true end.
(* run a reader on a blob and insist that the blob is consumed (reader.has_more_bytes() -> UnconsumedBytes) *)
Definition parse_all {A} (r : Rd A) (blob : bytes) : Result A :=
  match r blob with
  | Ok (a, rest) => if has_more rest then Err Invalid else Ok a
  | Err e => Err e
  | Panic => Panic
  end.
(* ... or do not look at what is left *)
Definition parse_prefix {A} (r : Rd A) (blob : bytes) : Result A :=
  match r blob with Ok (a, _) => Ok a | Err e => Err e | Panic => Panic end.

Definition rbind {A B} (x : Result A) (f : A -> Result B) : Result B :=
  match x with Ok a => f a | Err e => Err e | Panic => Panic end.
Notation "x <-- r ;;; k" := (rbind r (fun x => k)) (at level 61, r at next level, right associativity).

(* ------------------------------------------------------------------------ fri/src/options.rs num_fri_layers *)
(* while domain_size > max_remainder_size { domain_size /= folding_factor; result += 1 }: at most 64 iterations for a
   64-bit domain size and a folding factor >= 2 (fuel) *)
Fixpoint nfl_loop (fuel : nat) (d ff maxrem : Z) : Z :=
  match fuel with
  | O => 0
  | S f => if d >? maxrem then 1 + nfl_loop f (d / ff) ff maxrem else 0
  end.
Definition num_fri_layers (lde ff rmd bf : Z) : Z := nfl_loop 64 lde ff ((rmd + 1) * bf).

(* --------------------------------------------------------------------- air/src/proof/commitments.rs parse *)
(* returns (number of trace roots, number of FRI roots) *)
Definition Commitments_parse (dl : nat) (c : Commitments) (nseg nlayers : Z) : Result (Z * Z) :=
  assert_ (nlayers + 1 <=? usize_max) (                                   (* num_fri_layers + 1 *)
  parse_all (t <- read_many (read_digest dl) nseg ;;
             _ <- read_digest dl ;;
             f <- read_many (read_digest dl) (nlayers + 1) ;;
             ret (llen t, llen f)) c).

(* ------------------------------------------------------------ crypto/src/merkle/proofs.rs deserialize *)
(* returns the lengths of the node vectors *)
Definition BatchMerkleProof_deserialize (dl : nat) (leaves depth : Z) : Rd (list Z) :=
  if depth =? 0 then fail Invalid else
  if leaves =? 0 then fail Invalid else
  if leaves >? 255 then fail Invalid else
  nv <- read_u8 ;;
  read_many (nd <- read_u8 ;; ds <- read_many (read_digest dl) nd ;; ret (llen ds)) nv.

(* ------------------------------------------------- air/src/proof/queries.rs parse + table.rs from_bytes *)
Record QShape : Type := mkQS { qs_rows : Z; qs_cols : Z; qs_depth : Z; qs_nodes : list Z }.

Definition Queries_parse (F : FieldP) (deg dl : nat) (q : Queries) (domain_size num_queries values_per_query : Z)
  : Result QShape :=
  assert_ (is_pow2 domain_size) (
  assert_ (values_per_query >? 0) (
  if num_queries =? 0 then Err Invalid else
  let num_query_bytes := elem_bytes F deg * values_per_query in
  assert_ (num_query_bytes <=? usize_max) (
  let expected_bytes := num_queries * num_query_bytes in
  assert_ (expected_bytes <=? usize_max) (
  if negb (len (q_values q) =? expected_bytes) then Err Invalid else
  (* Table::from_bytes *)
  assert_ (num_queries >? 0) (assert_ (num_queries <=? 255) (
  assert_ (values_per_query >? 0) (assert_ (values_per_query <=? 255) (
  data <-- parse_prefix (read_many (read_elem F deg) (num_queries * values_per_query)) (q_values q) ;;;
  (* query_values.rows(): num_rows = data.len() / row_width *)
  let rows := llen data / values_per_query in
  let tree_depth := wrap 8 (Z.log2 domain_size) in                       (* domain_size.ilog2() as u8 *)
  nodes <-- parse_all (BatchMerkleProof_deserialize dl rows tree_depth) (q_paths q) ;;;
  Ok (mkQS rows values_per_query tree_depth nodes))))))))).

(* ------------------------------------------------------------------- air/src/proof/ood_frame.rs parse *)
Record OodShape : Type := mkOS { os_cur : Z;              (* length of current_row (= next_row) *)
                                os_lagrange : option Z;   (* rows of the Lagrange kernel frame *)
                                os_evals : Z }.           (* number of constraint evaluations *)

Definition OodFrame_parse (F : FieldP) (deg : nat) (f : OodFrame) (main_w aux_w num_evals : Z) : Result OodShape :=
  assert_ (main_w >? 0) (
  assert_ (num_evals >? 0) (
  lag <-- parse_all (n <- read_u8 ;;
                     if n >? 0 then (l <- read_many (read_elem F deg) n ;; ret (Some (llen l))) else ret None)
                    (ood_lagrange f) ;;;
  (* aux_trace_width.checked_sub(lagrange_kernel_frame.is_some() as usize) *)
  let dec := match lag with Some _ => 1 | None => 0 end in
  if aux_w <? dec then Err Invalid else
  let aux_w := aux_w - dec in
  cur <-- parse_all (fs <- read_u8 ;;
                     if negb (fs =? 2) then fail Invalid else
                     _ <- lift (assert_ (main_w + aux_w <=? usize_max) (assert_ ((main_w + aux_w) * fs <=? usize_max) (Ok tt))) ;;
                     trace <- read_many (read_elem F deg) ((main_w + aux_w) * fs) ;;
                     (* chunks_exact(2): one entry of current_row / next_row per complete pair *)
                     ret (llen trace / 2))
                    (ood_trace_states f) ;;;
  evals <-- parse_all (read_many (read_elem F deg) num_evals) (ood_evaluations f) ;;;
  (* TraceOodFrame::new: assert_eq!(current_row.len(), next_row.len()): both are the number of complete pairs *)
  Ok (mkOS cur lag (llen evals)))).

(* ------------------------------------------------------------------------------------ fri/src/proof.rs *)
(* FriProof::num_partitions(): 2usize.pow(self.num_partitions as u32) *)
Definition Fri_num_partitions (p : FriProof) : Result Z :=
  assert_ (2 ^ fri_num_partitions p <=? usize_max) (Ok (2 ^ fri_num_partitions p)).

(* parse_remainder: number of remainder elements *)
Definition Fri_parse_remainder (F : FieldP) (deg : nat) (p : FriProof) : Result Z :=
  let num_elements := len (fri_remainder p) / elem_bytes F deg in
  if negb (is_pow2 num_elements) then Err Invalid else
  r <-- parse_all (read_many (read_elem F deg) num_elements) (fri_remainder p) ;;;
  Ok (llen r).

Record LShape : Type := mkLS { ls_queries : Z; ls_depth : Z; ls_nodes : list Z }.

(* FriProofLayer::parse *)
Definition FriLayer_parse (F : FieldP) (deg dl : nat) (l : FriProofLayer) (domain_size folding_factor : Z) : Result LShape :=
  let num_query_bytes := elem_bytes F deg * folding_factor in
  assert_ (num_query_bytes <=? usize_max) (
  assert_ (negb (num_query_bytes =? 0)) (                                  (* remainder by zero *)
  if negb (len (fl_values l) mod num_query_bytes =? 0) then Err Invalid else
  let num_queries := len (fl_values l) / num_query_bytes in
  if num_queries =? 0 then Err Invalid else
  qv <-- parse_all (read_many (read_many (read_elem F deg) folding_factor) num_queries) (fl_values l) ;;;
  assert_ (domain_size >? 0) (                                             (* ilog2 of zero panics *)
  let tree_depth := wrap 8 (Z.log2 domain_size) in
  nodes <-- parse_all (BatchMerkleProof_deserialize dl num_queries tree_depth) (fl_paths l) ;;;
  Ok (mkLS (llen qv) tree_depth nodes)))).

Fixpoint Fri_layers_loop (F : FieldP) (deg dl : nat) (ls : list FriProofLayer) (domain_size folding_factor : Z)
  : Result (list LShape) :=
  match ls with
  | [] => Ok []
  | l :: rest =>
      if domain_size <? folding_factor then Err Invalid else
      let domain_size := domain_size / folding_factor in
      s <-- FriLayer_parse F deg dl l domain_size folding_factor ;;;
      r <-- Fri_layers_loop F deg dl rest domain_size folding_factor ;;;
      Ok (s :: r)
  end.

Definition Fri_parse_layers (F : FieldP) (deg dl : nat) (p : FriProof) (domain_size folding_factor : Z) : Result (list LShape) :=
  assert_ (is_pow2 domain_size) (assert_ (is_pow2 folding_factor) (assert_ (folding_factor >? 1) (
  Fri_layers_loop F deg dl (fri_layers p) domain_size folding_factor))).

(* ------------------------------------------------------------- crypto/src/random/default.rs draw_integers *)
(* Ok n: n values, each < domain_size.  The loop pushes one value per iteration, at most 1000 times, and stops when
   values.len() == num_values: n = num_values for 1..1000 values, more than 1000 cannot be drawn (error), and for
   num_values = 0 the equality is never met, so all 1000 iterations run *)
Definition draw_integers_shape (num_values domain_size : Z) : Result Z :=
  assert_ (is_pow2 domain_size) (
  if num_values >=? domain_size then Err Invalid else
  assert_ (domain_size - 1 >=? 0) (
  if num_values >? 1000 then Err Invalid else Ok (if num_values =? 0 then 1000 else num_values))).

(* =========================================================================================== stage 3: verify *)
Inductive frierr : Type :=
  | F_LayerCommitmentMismatch | F_InvalidLayerFolding | F_RemainderCommitmentMismatch | F_RemainderDegreeMismatch
  | F_InvalidRemainderFolding | F_DegreeTruncation | F_UnsupportedFoldingFactor | F_NumPositionEvaluationMismatch.
Inductive verr : Type :=
  | E_InconsistentBaseField | E_UnacceptableProofOptions | E_UnsupportedFieldExtension | E_ProofDeserializationError
  | E_RandomCoinError | E_InconsistentOodConstraintEvaluations | E_TraceQueryDoesNotMatchCommitment
  | E_ConstraintQueryDoesNotMatchCommitment | E_QuerySeedProofOfWorkVerificationFailed | E_Fri (f : frierr).
(* every place where the verifier can panic on the way *)
Inductive why : Type :=
  | W_air_new_layout          (* the AIR's constructor refuses the trace layout claimed by the proof *)
  | W_air_new_blowup          (* AirContext::new: blowup factor too small for the AIR's constraint degrees *)
  | W_root_of_unity           (* AirContext::new / FriVerifier::new: get_root_of_unity(n) with n > TWO_ADICITY, or domain overflow *)
  | W_seed_padding            (* Context::to_elements: from_bytes_with_padding (length assert, `element deserialization failed`) *)
  | W_typed_parser            (* a Panic of a stage-2 parser *)
  | W_trace_queries_len       (* TraceQueries::new: assert_eq!(queries.len(), num_segments), queries.remove(0) *)
  | W_num_partitions          (* 2usize.pow(num_partitions) *)
  | W_commitment_index        (* trace_commitments[i], layer_commitments[depth] *)
  | W_main_frame_slice        (* current_row[0..main_trace_width] *)
  | W_aux_frame               (* evaluate_aux_transition on a frame narrower than the AIR's, .expect("missing auxiliary OOD frame"), row[..idx] *)
  | W_lagrange_expect         (* composition_coefficients.lagrange.expect(..) *)
  | W_ood_exponent            (* i * trace_length *)
  | W_draw_integers           (* assertions of draw_integers *)
  | W_composer_rows           (* assert_eq!(rows, x_coordinates.len()), ood_evaluations[i] *)
  | W_fold_zero               (* position % 0, division by zero partitions *)
  | W_layer_remove            (* fri_layer_proofs.remove(0) on an empty vector *)
  | W_degree_underflow.       (* max_degree_plus_1 - 1 *)

Inductive VRes (A : Type) : Type := VOk (a : A) | VErr (e : verr) | VPanic (w : why).
Arguments VOk {A} a.
Arguments VErr {A} e.
Arguments VPanic {A} w.
Definition vbind {A B} (x : VRes A) (f : A -> VRes B) : VRes B :=
  match x with VOk a => f a | VErr e => VErr e | VPanic w => VPanic w end.
Notation "x <== r ;;; k" := (vbind r (fun x => k)) (at level 61, r at next level, right associativity).
Definition vassert (c : bool) (w : why) : VRes unit := if c then VOk tt else VPanic w.
Definition vcheck (c : bool) (e : verr) : VRes unit := if c then VOk tt else VErr e.
(* a stage-2 result inside VerifierChannel::new: .map_err(|err| ProofDeserializationError(..)) *)
Definition vdeser {A} (x : Result A) : VRes A :=
  match x with Ok a => VOk a | Err _ => VErr E_ProofDeserializationError | Panic => VPanic W_typed_parser end.

(* what the AIR (the verifier's own code, not the proof) fixes *)
Record AirP : Type := mkAP {
  ap_field : FieldP;
  ap_dl : nat;            (* digest size of the hash function *)
  ap_main : Z; ap_aux : Z; ap_rands : Z; ap_length : Z;   (* the trace layout the AIR was written for *)
  ap_ceb : Z;             (* blowup factor needed by its constraint degrees *)
  ap_ncols : Z;           (* num_constraint_composition_columns() *)
  ap_lagrange : bool }.   (* has_lagrange_kernel_aux_column() *)

Inductive Policy : Type := Pol_All | Pol_Set (l : list ProofOptions).

Definition fe_eqb (a b : FieldExtension) : bool := fe_to_u8 a =? fe_to_u8 b.
Definition po_eqb (a b : ProofOptions) : bool :=
  (po_num_queries a =? po_num_queries b) && (po_blowup_factor a =? po_blowup_factor b) &&
  (po_grinding_factor a =? po_grinding_factor b) && fe_eqb (po_field_extension a) (po_field_extension b) &&
  (po_fri_folding_factor a =? po_fri_folding_factor b) && (po_fri_remainder_max_degree a =? po_fri_remainder_max_degree b).
Definition policy_ok (p : Policy) (o : ProofOptions) : bool :=
  match p with Pol_All => true | Pol_Set l => existsb (fun x => po_eqb x o) l end.

Fixpoint bytes_eqb (a b : bytes) : bool :=
  match a, b with
  | [], [] => true
  | x :: a', y :: b' => (x =? y) && bytes_eqb a' b'
  | _, _ => false
  end.

Definition ext_degree (fe : FieldExtension) : nat := match fe with FE_None => 1 | FE_Quadratic => 2 | FE_Cubic => 3 end.

(* StarkField::from_bytes_with_padding(bytes): assert!(bytes.len() < ELEMENT_BYTES); zero-pad; try_from must succeed
   (`panic!("element deserialization failed")` when the little-endian value is not below the modulus) *)
Definition from_bytes_with_padding_ok (F : FieldP) (chunk : bytes) : bool :=
  (len chunk <? Z.of_nat (fp_bytes F)) && (of_le_bytes chunk <? fp_mod F).

(* slice.chunks(n): consecutive pieces of n bytes, the last one possibly shorter (fuel: the slice length) *)
Fixpoint chunks_loop (fuel : nat) (n : nat) (bs : bytes) : list bytes :=
  match fuel with
  | O => []
  | S f => match bs with [] => [] | _ => firstn n bs :: chunks_loop f n (skipn n bs) end
  end.
Definition chunks (n : nat) (bs : bytes) : list bytes := chunks_loop (length bs) n bs.

(* Context::to_elements::<B> (seed of the public coin, built from the UNTRUSTED context before anything else):
     TraceInfo::to_elements: `trace_length as u32` (a cast), and for non-empty metadata
       `for chunk in trace_meta.chunks(chunk_len) { from_bytes_with_padding(chunk) }`   chunk_len = ELEMENT_BYTES - 1
     the modulus bytes split in two halves, each through from_bytes_with_padding.
   [chunk_len] is an argument so that the role of `ELEMENT_BYTES - 1` can be stated: see to_elements_total and
   to_elements_full_chunk_refuted. *)
Definition to_elements_ok (chunk_len : Z) (F : FieldP) (c : Context) : bool :=
  let meta := ti_meta (ctx_trace_info c) in
  let m := ctx_modulus c in
  let half := Z.to_nat (len m / 2) in
  (match meta with [] => true
   | _ => (0 <? chunk_len) &&                                            (* chunks(0) panics *)
          forallb (from_bytes_with_padding_ok F) (chunks (Z.to_nat chunk_len) meta) end) &&
  from_bytes_with_padding_ok F (firstn half m) && from_bytes_with_padding_ok F (skipn half m).
Definition META_CHUNK (F : FieldP) : Z := Z.of_nat (fp_bytes F) - 1.

(* Air::new -> AirContext::new_multi_segment with the trace info and options OF THE PROOF *)
Definition air_new (A : AirP) (ti : TraceInfo) (o : ProofOptions) : VRes unit :=
  _ <== vassert ((ti_main ti =? ap_main A) && (ti_aux ti =? ap_aux A) && (ti_rands ti =? ap_rands A) &&
                 (ti_length ti =? ap_length A)) W_air_new_layout ;;;
  _ <== vassert (po_blowup_factor o >=? ap_ceb A) W_air_new_blowup ;;;
  let lde := ti_length ti * po_blowup_factor o in
  _ <== vassert (lde <=? usize_max) W_root_of_unity ;;;
  (* B::get_root_of_unity(trace_length.ilog2()), B::get_root_of_unity(lde_domain_size.ilog2()) *)
  _ <== vassert ((0 <? ti_length ti) && negb (Z.log2 (ti_length ti) =? 0) && (Z.log2 (ti_length ti) <=? fp_two_adicity (ap_field A))) W_root_of_unity ;;;
  vassert ((0 <? lde) && negb (Z.log2 lde =? 0) && (Z.log2 lde <=? fp_two_adicity (ap_field A))) W_root_of_unity.

(* what VerifierChannel::new leaves for perform_verification *)
Record Chan : Type := mkChan {
  ch_trace_roots : Z; ch_fri_roots : Z;
  ch_main : QShape; ch_aux : option QShape; ch_constraint : QShape;
  ch_nparts : Z; ch_remainder : Z; ch_layers : list LShape; ch_ood : OodShape }.

Definition channel_new (A : AirP) (p : Proof) : VRes Chan :=
  let F := ap_field A in let dl := ap_dl A in
  let c := pr_context p in let ti := ctx_trace_info c in let o := ctx_options c in
  let deg := ext_degree (po_field_extension o) in
  _ <== vcheck (bytes_eqb (fp_modbytes F) (ctx_modulus c)) E_InconsistentBaseField ;;;
  _ <== vcheck (Bool.eqb (match pr_gkr_proof p with Some _ => true | None => false end) (ap_lagrange A)) E_ProofDeserializationError ;;;
  let nseg := ti_num_segments ti in
  let lde := ti_length ti * po_blowup_factor o in
  let ff := po_fri_folding_factor o in
  let nl := num_fri_layers lde ff (po_fri_remainder_max_degree o) (po_blowup_factor o) in
  roots <== vdeser (Commitments_parse dl (pr_commitments p) nseg nl) ;;;
  (* TraceQueries::new *)
  _ <== vassert (llen (pr_trace_queries p) =? nseg) W_trace_queries_len ;;;
  match pr_trace_queries p with
  | [] => VPanic W_trace_queries_len
  | q0 :: qrest =>
      mainq <== vdeser (Queries_parse F 1 dl q0 lde (pr_num_unique_queries p) (ti_main ti)) ;;;
      auxq <== (if ti_aux ti >? 0
                then match qrest with
                     | [] => VPanic W_trace_queries_len
                     | q1 :: _ => a <== vdeser (Queries_parse F deg dl q1 lde (pr_num_unique_queries p) (ti_aux ti)) ;;; VOk (Some a)
                     end
                else VOk None) ;;;
      cq <== vdeser (Queries_parse F deg dl (pr_constraint_queries p) lde (pr_num_unique_queries p) (ap_ncols A)) ;;;
      (* the proof must contain exactly the layers implied by the options *)
      _ <== vcheck (llen (fri_layers (pr_fri_proof p)) =? nl) E_ProofDeserializationError ;;;
      np <== match Fri_num_partitions (pr_fri_proof p) with Ok n => VOk n | _ => VPanic W_num_partitions end ;;;
      rem <== vdeser (Fri_parse_remainder F deg (pr_fri_proof p)) ;;;
      layers <== vdeser (Fri_parse_layers F deg dl (pr_fri_proof p) lde ff) ;;;
      ood <== vdeser (OodFrame_parse F deg (pr_ood_frame p) (ti_main ti) (ti_aux ti) (ap_ncols A)) ;;;
      (* the Lagrange kernel frame is present exactly when the AIR has such a column (AIRs with one: frame of log2(n)+1 rows) *)
      _ <== vcheck (match os_lagrange ood with
                    | None => negb (ap_lagrange A)
                    | Some n => ap_lagrange A && (n =? Z.log2 (ti_length ti) + 1)
                    end) E_ProofDeserializationError ;;;
      VOk (mkChan (fst roots) (snd roots) mainq auxq cq np rem layers ood)
  end.

(* FriVerifier::new: the degree can be folded at all layers but the remainder layer *)
Fixpoint fri_new_loop (n : nat) (depth : Z) (nfr mdp1 ff : Z) : VRes unit :=
  match n with
  | O => VOk tt
  | S n' =>
      if negb (depth =? nfr - 1) && negb (mdp1 mod ff =? 0) then VErr (E_Fri F_DegreeTruncation)
      else fri_new_loop n' (depth + 1) nfr (mdp1 / ff) ff
  end.

(* the oracle: the i-th value-dependent check succeeds.  0 OOD consistency, 1 proof of work, 2 / 3 main / auxiliary trace
   openings, 4 constraint openings, 5+2i / 6+2i Merkle openings / folding of FRI layer i, then remainder commitment,
   remainder folding *)
Definition Oracle := nat -> bool.

(* verify_generic: the recursive part.  [kf i]: number of distinct folded positions at layer i *)
Fixpoint fri_layers_verify (n : nat) (i : nat) (orc : Oracle) (kf : nat -> Z) (nfr : Z) (ls : list LShape)
                           (d mdp1 ff nparts : Z) : VRes (Z * Z) :=
  match n with
  | O => VOk (d, mdp1)
  | S n' =>
      (* fold_positions: position % (domain_size / folding_factor); map_positions_to_indexes: / num_partitions *)
      _ <== vassert ((0 <? ff) && (0 <? d / ff)) W_fold_zero ;;;
      _ <== vassert ((nparts =? 1) || (0 <? nparts)) W_fold_zero ;;;
      _ <== vassert (Z.of_nat i <? nfr) W_commitment_index ;;;                 (* self.layer_commitments[depth] *)
      match ls with
      | [] => VPanic W_layer_remove                                          (* fri_layer_proofs.remove(0) *)
      | l :: rest =>
          (* MerkleTree::verify_batch: as many indexes as leaves, then the hashes *)
          _ <== vcheck ((kf i =? ls_queries l) && orc (5 + 2 * i)%nat) (E_Fri F_LayerCommitmentMismatch) ;;;
          _ <== vcheck (orc (6 + 2 * i)%nat) (E_Fri F_InvalidLayerFolding) ;;;
          _ <== vcheck (mdp1 mod ff =? 0) (E_Fri F_DegreeTruncation) ;;;
          fri_layers_verify n' (S i) orc kf nfr rest (d / ff) (mdp1 / ff) ff nparts
      end
  end.

Definition perform_verification (A : AirP) (p : Proof) (ch : Chan) (orc : Oracle) (k : Z) (kf : nat -> Z) : VRes unit :=
  let c := pr_context p in let ti := ctx_trace_info c in let o := ctx_options c in
  let mw := ti_main ti in let aw := ti_aux ti in
  let lde := ti_length ti * po_blowup_factor o in
  let ff := po_fri_folding_factor o in
  let ood := ch_ood ch in
  (* 1. trace commitments *)
  _ <== vassert (0 <? ch_trace_roots ch) W_commitment_index ;;;
  _ <== vassert (if aw >? 0 then 1 <? ch_trace_roots ch else true) W_commitment_index ;;;
  (* 3. OOD consistency *)
  _ <== vassert (mw <=? os_cur ood) W_main_frame_slice ;;;
  let has_aux := os_cur ood >? mw in
  (* evaluate_aux_transition of the AIR reads aux_w columns of the auxiliary frame *)
  _ <== vassert (if has_aux then aw <=? os_cur ood - mw else true) W_aux_frame ;;;
  _ <== vassert (match os_lagrange ood with Some _ => ap_lagrange A | None => true end) W_lagrange_expect ;;;
  _ <== vassert ((os_evals ood - 1) * ti_length ti <=? usize_max) W_ood_exponent ;;;
  _ <== vcheck (orc 0%nat) E_InconsistentOodConstraintEvaluations ;;;
  (* 4. FriVerifier::new *)
  _ <== vassert ((0 <? lde) && (lde <=? usize_max) && negb (Z.log2 lde =? 0) && (Z.log2 lde <=? fp_two_adicity (ap_field A))) W_root_of_unity ;;;
  _ <== fri_new_loop (Z.to_nat (ch_fri_roots ch)) 0 (ch_fri_roots ch) (ti_length ti) ff ;;;
  (* 5. queries *)
  _ <== vcheck ((po_grinding_factor o =? 0) || orc 1%nat) E_QuerySeedProofOfWorkVerificationFailed ;;;
  _ <== match draw_integers_shape (po_num_queries o) lde with
        | Ok _ => VOk tt | Err _ => VErr E_RandomCoinError | Panic => VPanic W_draw_integers end ;;;
  (* read_queried_trace_states: for (root, proof) in roots.zip(proofs) { verify_batch }: the number of positions must be the
     number of leaves of each batch proof *)
  _ <== vcheck ((k =? qs_rows (ch_main ch)) && orc 2%nat) E_TraceQueryDoesNotMatchCommitment ;;;
  _ <== match ch_aux ch with
        | Some a => vcheck ((1 <? ch_trace_roots ch) && (k =? qs_rows a) && orc 3%nat || negb (1 <? ch_trace_roots ch)) E_TraceQueryDoesNotMatchCommitment
        | None => VOk tt end ;;;
  _ <== vcheck ((k =? qs_rows (ch_constraint ch)) && orc 4%nat) E_ConstraintQueryDoesNotMatchCommitment ;;;
  (* 6. DEEP composition *)
  _ <== match ch_aux ch with
        | Some a => vassert (has_aux && (os_cur ood - mw <=? qs_cols a) && (os_cur ood - mw <=? aw)) W_aux_frame
        | None => VOk tt end ;;;
  _ <== vassert ((qs_rows (ch_constraint ch) =? k) && (qs_rows (ch_main ch) =? k) && (qs_cols (ch_constraint ch) <=? os_evals ood)) W_composer_rows ;;;
  (* 7. FriVerifier::verify *)
  _ <== vcheck ((ff =? 2) || (ff =? 4) || (ff =? 8) || (ff =? 16)) (E_Fri F_UnsupportedFoldingFactor) ;;;
  let nl := num_fri_layers lde ff (po_fri_remainder_max_degree o) (po_blowup_factor o) in
  st <== fri_layers_verify (Z.to_nat nl) 0 orc kf (ch_fri_roots ch) (ch_layers ch) lde (ti_length ti) ff (ch_nparts ch) ;;;
  let mdp1 := snd st in
  _ <== vcheck (orc (5 + 2 * Z.to_nat nl)%nat) (E_Fri F_RemainderCommitmentMismatch) ;;;
  _ <== (if ch_remainder ch >? mdp1
         then _ <== vassert (mdp1 >? 0) W_degree_underflow ;;; VErr (E_Fri F_RemainderDegreeMismatch)
         else VOk tt) ;;;
  vcheck (orc (6 + 2 * Z.to_nat nl)%nat) (E_Fri F_InvalidRemainderFolding).

(* verifier/src/lib.rs verify() *)
Definition verify (A : AirP) (pol : Policy) (p : Proof) (orc : Oracle) (k : Z) (kf : nat -> Z) : VRes unit :=
  let c := pr_context p in let ti := ctx_trace_info c in let o := ctx_options c in
  _ <== vcheck (bytes_eqb (fp_modbytes (ap_field A)) (ctx_modulus c)) E_InconsistentBaseField ;;;
  _ <== vcheck (policy_ok pol o) E_UnacceptableProofOptions ;;;
  _ <== vassert (to_elements_ok (META_CHUNK (ap_field A)) (ap_field A) c) W_seed_padding ;;;
  _ <== air_new A ti o ;;;
  _ <== vcheck (match po_field_extension o with
                | FE_None => true | FE_Quadratic => fp_quad (ap_field A) | FE_Cubic => fp_cubic (ap_field A) end)
               E_UnsupportedFieldExtension ;;;
  ch <== channel_new A p ;;;
  perform_verification A p ch orc k kf.

(* the two stages together: what the application does with untrusted bytes *)
Inductive Outcome : Type := O_ParseErr | O_Ok | O_VerifyErr (e : verr) | O_Panic (w : option why).
(* Proof::from_bytes = Deserializable::read_from_bytes: bytes after the end of the proof are not an error *)
Definition parse (bs : bytes) : Result Proof := parse_prefix read_Proof bs.
Definition parse_and_verify (A : AirP) (pol : Policy) (bs : bytes) (orc : Oracle) (k : Z) (kf : nat -> Z) : Outcome :=
  match parse bs with
  | Err _ => O_ParseErr
  | Panic => O_Panic None
  | Ok p => match verify A pol p orc k kf with VOk _ => O_Ok | VErr e => O_VerifyErr e | VPanic w => O_Panic (Some w) end
  end.

(* ============================================================ the same functions BEFORE the C06 repairs (/repo 07b6d57) *)
(* kept to state, by computation, that each repaired check is necessary: see Proofs/UntrustedRefuted.v *)
Definition Queries_parse_unrepaired (F : FieldP) (deg dl : nat) (q : Queries) (domain_size num_queries values_per_query : Z)
  : Result QShape :=
  assert_ (is_pow2 domain_size) (
  assert_ (num_queries >? 0) (                                            (* assert!(num_queries > 0, ...) *)
  Queries_parse F deg dl q domain_size num_queries values_per_query)).

(* no check of the frame size byte; aux_trace_width - (lagrange_kernel_frame.is_some() as usize) unchecked *)
Definition OodFrame_parse_unrepaired (F : FieldP) (deg : nat) (f : OodFrame) (main_w aux_w num_evals : Z) : Result OodShape :=
  assert_ (main_w >? 0) (
  assert_ (num_evals >? 0) (
  lag <-- parse_all (n <- read_u8 ;;
                     if n >? 0 then (l <- read_many (read_elem F deg) n ;; ret (Some (llen l))) else ret None)
                    (ood_lagrange f) ;;;
  let dec := match lag with Some _ => 1 | None => 0 end in
  assert_ (dec <=? aux_w) (                                               (* subtraction overflow *)
  let aux_w := aux_w - dec in
  cur <-- parse_all (fs <- read_u8 ;;
                     _ <- lift (assert_ ((main_w + aux_w) * fs <=? usize_max) (Ok tt)) ;;
                     trace <- read_many (read_elem F deg) ((main_w + aux_w) * fs) ;;
                     ret (llen trace / 2))
                    (ood_trace_states f) ;;;
  evals <-- parse_all (read_many (read_elem F deg) num_evals) (ood_evaluations f) ;;;
  Ok (mkOS cur lag (llen evals))))).

Fixpoint Fri_layers_loop_unrepaired (F : FieldP) (deg dl : nat) (ls : list FriProofLayer) (domain_size folding_factor : Z)
  : Result (list LShape) :=
  match ls with
  | [] => Ok []
  | l :: rest =>
      let domain_size := domain_size / folding_factor in                  (* no `domain_size < folding_factor` check *)
      s <-- FriLayer_parse F deg dl l domain_size folding_factor ;;;
      r <-- Fri_layers_loop_unrepaired F deg dl rest domain_size folding_factor ;;;
      Ok (s :: r)
  end.

Definition draw_integers_unrepaired (num_values domain_size : Z) : Result Z :=
  assert_ (is_pow2 domain_size) (
  assert_ (num_values <? domain_size) (Ok num_values)).                   (* assert!(num_values < domain_size, ...) *)

(* =================================================================================== allocation accounting *)
(* Capacity requested from the allocator while Proof::from_bytes runs, in bytes, following read_Proof step by step.
   read_vec(n) copies n bytes AFTER check_eor (so only when they are there); read_many(n) reserves at most
   MAX_PREALLOC_BYTES up front and then grows with the elements actually read (amortised doubling: at most GROW x the
   bytes held are requested in total, see notes/C06.design.md); the error value holds one message (a small constant). *)
Definition MAX_PREALLOC : Z := 65536.
Definition ERR_MSG : Z := 512.
Definition GROW : Z := 4.
Definition prealloc (n elem_size : Z) : Z := Z.min (Z.max n 0) (MAX_PREALLOC / Z.max elem_size 1) * elem_size.
(* size_of::<Queries>() = size_of::<FriProofLayer>() = 48 (two Vec<u8>) *)
Definition SZ_2VEC : Z := 48.

(* a reader with accounting: (bytes requested, result) *)
Definition A (T : Type) : Type := bytes -> (Z * Result (T * bytes)).
Definition aret {T} (a : T) : A T := fun bs => (0, Ok (a, bs)).
Definition abind {T U} (r : A T) (f : T -> A U) : A U :=
  fun bs => match r bs with
            | (n, Ok (a, bs')) => let '(m, x) := f a bs' in (n + m, x)
            | (n, Err e) => (n, Err e)
            | (n, Panic) => (n, Panic)
            end.
Definition afail {T} (e : derr) : A T := fun _ => (0, Err e).
Definition afree {T} (r : Rd T) : A T := fun bs => (0, r bs).               (* no allocation: fixed-size reads *)
Definition avec (n : Z) : A bytes :=                                         (* read_vec(n): check_eor, then copy *)
  fun bs => match read_vec n bs with Ok (b, r) => (len b, Ok (b, r)) | x => (0, x) end.
Definition ablob (k : nat) : A bytes := abind (afree (read_uint k)) avec.    (* read_uN + read_vec(n) *)
Notation "x <~ r ;; k" := (abind r (fun x => k)) (at level 61, r at next level, right associativity).

Definition a_Queries : A Queries := v <~ ablob 4 ;; p <~ ablob 4 ;; aret (mkQ p v).
Definition a_OodFrame : A OodFrame := t <~ ablob 2 ;; l <~ ablob 2 ;; e <~ ablob 2 ;; aret (mkOod t l e).
Definition a_FriProofLayer : A FriProofLayer :=
  n <~ afree read_u32 ;;
  if n =? 0 then afail Invalid else
  v <~ avec n ;;
  p <~ ablob 4 ;;
  aret (mkFL v p).

(* read_many with accounting: n iterations, stopping at the first failure; [g]: growth charged per element pushed.
   Fuel = |input| + 1 suffices when every element consumes at least one byte. *)
Fixpoint a_many_loop {T} (fuel : nat) (r : A T) (g : Z) (n : Z) (acc : list T) : A (list T) :=
  fun bs => if n <=? 0 then (0, Ok (rev acc, bs)) else
            match fuel with
            | O => (0, Err Eof)
            | S f => match r bs with
                     | (m, Ok (a, bs')) => let '(m', x) := a_many_loop f r g (n - 1) (a :: acc) bs' in (m + g + m', x)
                     | (m, Err e) => (m, Err e)
                     | (m, Panic) => (m, Panic)
                     end
            end.
Definition a_many {T} (r : A T) (elem_size : Z) (n : Z) : A (list T) :=
  fun bs => let '(m, x) := a_many_loop (S (length bs)) r (GROW * elem_size) n [] bs in (prealloc n elem_size + m, x).

Definition a_FriProof : A FriProof :=
  n <~ afree read_u8 ;;
  layers <~ a_many a_FriProofLayer SZ_2VEC n ;;
  r <~ ablob 2 ;;
  np <~ afree read_u8 ;;
  if np >=? 64 then afail Invalid else aret (mkFri layers r np).

(* the context holds the metadata and the modulus bytes: at most what the reader consumed *)
Definition a_Context : A Context :=
  fun bs => match read_Context bs with
            | Ok (c, r) => (len bs - len r, Ok (c, r))
            | x => (len bs, x)
            end.

Definition a_Proof : A Proof :=
  c <~ a_Context ;;
  nuq <~ afree read_u8 ;;
  com <~ ablob 2 ;;
  tq <~ (fun bs => let '(m, x) := a_many a_Queries 0 (ti_num_segments (ctx_trace_info c)) bs in (m + 2 * SZ_2VEC, x)) ;;
  cq <~ a_Queries ;;
  ood <~ a_OodFrame ;;
  fri <~ a_FriProof ;;
  nonce <~ afree read_u64 ;;
  gkr <~ (tag <~ afree read_bool ;;
          if tag then (n <~ afree read_usize ;; v <~ a_many (afree read_u8) 1 n ;; aret (Some v)) else aret None) ;;
  aret (mkProof c nuq com tq cq ood fri nonce gkr).

(* total requested by Proof::from_bytes(bs): the run, plus the message of the error value when it fails *)
Definition parse_alloc (bs : bytes) : Z :=
  let '(n, x) := a_Proof bs in match x with Err _ => n + ERR_MSG | _ => n end.
Definition parse_alloc_result (bs : bytes) : Result Proof :=
  match snd (a_Proof bs) with Ok (p, _) => Ok p | Err e => Err e | Panic => Panic end.

(* c * |bytes| + k.  c = 25: a FRI layer entry of 48 bytes is backed by at least 8 input bytes (its two length
   prefixes), and GROW * 48 = 24 * 8, plus the bytes copied; k: the two bounded pre-allocations, the trace-query
   vector, one error message *)
Definition alloc_bound (input_len : Z) : Z :=
  25 * input_len + (MAX_PREALLOC + MAX_PREALLOC + 2 * SZ_2VEC + ERR_MSG).

(* ============================================================ bulk reads and the position arithmetic of check_eor *)
(* SliceReader::check_eor(num_bytes) is `if self.pos + num_bytes > self.source.len() { Err(UnexpectedEOF) }` with an
   UNCHECKED addition: debug builds panic (attempt to add with overflow), release builds wrap and the subsequent slice
   index panics.  Codec.v's read_slice compares the length with the bytes that remain (no position); the readers below are
   the bulk readers with the position made explicit: [total] = source.len(), pos = total - remaining.  read_Proof_chk is
   read_Proof with every bulk read (read_vec / read_slice with a length taken from the input) replaced by its checked
   twin; Proofs/UntrustedBulk.v shows that it IS read_Proof on every input shorter than 2^63 bytes, because every such
   length is first read from a field of at most 4 bytes: the only usize (vint64) length of the format, the one of the GKR
   proof, is consumed element by element (read_many), never by a bulk read. *)
Definition check_eor (total n : Z) : Rd unit :=
  fun bs => let pos := total - len bs in
            if pos + n >? usize_max then Panic
            else if pos + n >? total then Err Eof else Ok (tt, bs).
Definition read_slice_chk (total n : Z) : Rd bytes := _ <- check_eor total n ;; read_slice n.
Definition read_vec_chk (total n : Z) : Rd bytes := read_slice_chk total n.
Definition read_blob_chk (total : Z) (k : nat) : Rd bytes := n <- read_uint k ;; read_vec_chk total n.

Definition read_TraceInfo_chk (total : Z) : Rd TraceInfo :=
  main <- read_u8 ;;
  if main =? 0 then fail Invalid else
  aux <- read_u8 ;;
  if main + aux >? 255 then fail Invalid else
  rands <- read_u8 ;;
  if (aux =? 0) && negb (rands =? 0) then fail Invalid else
  if rands >? 255 then fail Invalid else
  e <- read_u8 ;;
  if e <? 3 then fail Invalid else
  if e >=? 64 then fail Invalid else
  let length_ := 2 ^ e in
  n <- read_u16 ;;
  meta <- (if negb (n =? 0) then read_vec_chk total n else ret []) ;;
  lift (TraceInfo_new_multi_segment main aux rands length_ meta).

Definition read_Context_chk (total : Z) : Rd Context :=
  t <- read_TraceInfo_chk total ;;
  n <- read_u8 ;;
  if n =? 0 then fail Invalid else
  m <- read_vec_chk total n ;;
  o <- read_ProofOptions ;;
  if ti_length t >? 2 ^ 32 - 1 then fail Invalid else
  if (ti_length t * po_blowup_factor o <=? usize_max) && (ti_length t * po_blowup_factor o <=? 2 ^ 32 - 1)
  then ret (mkCtx t m o) else fail Invalid.

Definition read_Queries_chk (total : Z) : Rd Queries := v <- read_blob_chk total 4 ;; p <- read_blob_chk total 4 ;; ret (mkQ p v).
Definition read_OodFrame_chk (total : Z) : Rd OodFrame :=
  t <- read_blob_chk total 2 ;; l <- read_blob_chk total 2 ;; e <- read_blob_chk total 2 ;; ret (mkOod t l e).
Definition read_FriProofLayer_chk (total : Z) : Rd FriProofLayer :=
  n <- read_u32 ;;
  if n =? 0 then fail Invalid else
  v <- read_vec_chk total n ;;
  p <- read_blob_chk total 4 ;;
  ret (mkFL v p).
Definition read_FriProof_chk (total : Z) : Rd FriProof :=
  n <- read_u8 ;;
  layers <- read_many (read_FriProofLayer_chk total) n ;;
  r <- read_blob_chk total 2 ;;
  np <- read_u8 ;;
  if np >=? 64 then fail Invalid else
  ret (mkFri layers r np).

Definition read_Proof_chk (total : Z) : Rd Proof :=
  c <- read_Context_chk total ;;
  nuq <- read_u8 ;;
  com <- read_blob_chk total 2 ;;
  tq <- read_many (read_Queries_chk total) (ti_num_segments (ctx_trace_info c)) ;;
  cq <- read_Queries_chk total ;;
  ood <- read_OodFrame_chk total ;;
  fri <- read_FriProof_chk total ;;
  nonce <- read_u64 ;;
  gkr <- read_option (read_vec_of read_u8) ;;          (* Vec<u8>::read_from: read_usize + read_many: element-wise *)
  ret (mkProof c nuq com tq cq ood fri nonce gkr).

(* what the GKR component would be with a bulk read of its vint64 length (a realistic "optimisation") *)
Definition read_gkr_bulk (total : Z) : Rd (option bytes) :=
  c <- read_bool ;; if c then (n <- read_usize ;; v <- read_vec_chk total n ;; ret (Some v)) else ret None.
