(* C11 — executable models of the three Rescue-Prime hashers of crypto/src/hash/rescue:
     Rp64_256 (f64, width 12, x^7, frequency-domain MDS), Rp62_248 (f62, width 12, x^3, plain MDS loop),
     RpJive64_256 (f64, width 8, x^7, frequency-domain MDS, Jive compression).
   VALUE level: field elements are their canonical residues (`as_int()`), all arithmetic is `mod p`.
   The matrix product in the permutation is the plain product (the SPEC); the frequency-domain fast path is the
   rs2v-generated `mds12_mds_multiply_freq` / `mds8_mds_multiply_freq` (VGen.Mds12 / Mds8) wrapped by the hand model of
   `mds_multiply` below, which works on RAW internal (Montgomery) words exactly like the Rust code.
   `None` stands for a Rust panic (slice length mismatch in `copy_from_slice`).
   No proofs here (Proofs/Rescue*.v).  Constant tables: Model/RescueConsts.v (generated from the source). *)
From VBase Require Import MachInt.
From VGen Require Import Mds12 Mds8 F64.
From VModel Require Import RescueConsts.
Open Scope Z_scope.

Definition M64 : Z := 18446744069414584321.   (* f64::BaseElement::MODULUS = 2^64 - 2^32 + 1 *)
Definition M62 : Z := 4611624995532046337.    (* f62::BaseElement::MODULUS = 2^62 - 111 * 2^39 + 1 *)

(* ------------------------------------------------------------------------------------------------ field layer *)
Section Field.
  Variable p : Z.
  Definition fmul (a b : Z) : Z := (a * b) mod p.
  Definition fadd (a b : Z) : Z := (a + b) mod p.
  Definition fsq (a : Z) : Z := fmul a a.

  (* n squarings *)
  Fixpoint sqn (n : nat) (x : Z) : Z := match n with O => x | S k => sqn k (fsq x) end.
  (* rescue/mod.rs exp_acc::<B, N, M>(base, tail): M squarings of base, then times tail (per element) *)
  Definition exp_acc (m : nat) (base tail : Z) : Z := fmul (sqn m base) tail.

  (* f64 exp7: x2 = x^2, x4 = x2^2, x3 = x2 * x, x3 * x4 *)
  Definition exp7 (x : Z) : Z :=
    let x2 := fsq x in let x4 := fsq x2 in let x3 := fmul x2 x in fmul x3 x4.
  (* FieldElement::cube: self * self * self *)
  Definition cube (x : Z) : Z := fmul (fmul x x) x.

  (* Rp64_256 / RpJive64_256 apply_inv_sbox, one element: the addition chain for x^10540996611094048183 *)
  Definition inv_sbox64 (x : Z) : Z :=
    let t1 := fsq x in
    let t2 := fsq t1 in
    let t3 := exp_acc 3 t2 t2 in
    let t4 := exp_acc 6 t3 t3 in
    let t5 := exp_acc 12 t4 t4 in
    let t6 := exp_acc 6 t5 t3 in
    let t7 := exp_acc 31 t6 t6 in
    let a := fsq (fsq (fmul (fsq t7) t6)) in
    let b := fmul (fmul t1 t2) x in
    fmul a b.

  (* Rp62_248 apply_inv_sbox, one element: the addition chain for x^3074416663688030891 *)
  Definition inv_sbox62 (x : Z) : Z :=
    let t1 := fsq x in
    let t2 := exp_acc 2 t1 t1 in
    let t4 := exp_acc 4 t2 t2 in
    let t8 := exp_acc 8 t4 t4 in
    let acc := exp_acc 7 t8 t2 in
    let acc := exp_acc 15 acc t8 in
    let acc := exp_acc 16 acc t8 in
    let acc := exp_acc 8 acc t4 in
    fmul x acc.

  (* integer dot product and the plain matrix-vector product reduced mod p: the MDS SPEC *)
  Definition dotZ (r s : list Z) : Z := fold_right Z.add 0 (map (fun ms => fst ms * snd ms) (combine r s)).
  Definition mat_vec (m : list (list Z)) (s : list Z) : list Z := map (fun r => dotZ r s mod p) m.
  Definition add_constants (s k : list Z) : list Z := map (fun ak => fadd (fst ak) (snd ak)) (combine s k).

  Record RParams := mkRP {
    rp_sbox : Z -> Z; rp_inv_sbox : Z -> Z;
    rp_mds : list (list Z); rp_ark1 : list (list Z); rp_ark2 : list (list Z) }.

  (* apply_round: sbox, MDS, ARK1[round], inverse sbox, MDS, ARK2[round] *)
  Definition apply_round (P : RParams) (s : list Z) (round : nat) : list Z :=
    let s := map (rp_sbox P) s in
    let s := mat_vec (rp_mds P) s in
    let s := add_constants s (nth round (rp_ark1 P) []) in
    let s := map (rp_inv_sbox P) s in
    let s := mat_vec (rp_mds P) s in
    add_constants s (nth round (rp_ark2 P) []).

  (* apply_permutation: for i in 0..NUM_ROUNDS (= 7) *)
  Definition apply_permutation (P : RParams) (s : list Z) : list Z := fold_left (apply_round P) (seq 0 7) s.

  (* -------------------------------------------------------------------------------------------- sponge layer *)
  (* update position i of a fixed-size state *)
  Fixpoint upd (i : nat) (f : Z -> Z) (s : list Z) : list Z :=
    match s, i with
    | [], _ => []
    | x :: r, O => f x :: r
    | x :: r, S k => x :: upd k f r
    end.

  Record Sponge := mkSponge {
    sp_width : nat; sp_rate_start : nat; sp_rate_width : nat; sp_cap_idx : nat; sp_digest_start : nat;
    sp_perm : list Z -> list Z }.

  Definition zeros (n : nat) : list Z := repeat 0 n.
  Definition digest_of (S : Sponge) (st : list Z) : list Z := firstn 4 (skipn (sp_digest_start S) st).

  (* the absorption loop shared by hash / hash_elements of all three hashers:
       state[RATE_START + i] += element; i += 1; if i % RATE_WIDTH == 0 { permutation; i = 0 } *)
  Fixpoint absorb (S : Sponge) (st : list Z) (i : nat) (xs : list Z) : list Z * nat :=
    match xs with
    | [] => (st, i)
    | x :: r =>
        let st := upd (sp_rate_start S + i) (fun a => fadd a x) st in
        let i := Datatypes.S i in
        if Nat.eqb (i mod sp_rate_width S) 0 then absorb S (sp_perm S st) 0%nat r else absorb S st i r
    end.

  (* Rp64_256 / Rp62_248 hash_elements on the base-field view of the input: the number of elements goes into one
     capacity element (BaseElement::new(len as u64)), zero padding, final permutation only if i > 0 *)
  Definition hash_elements_cnt (S : Sponge) (xs : list Z) : list Z :=
    let st0 := upd (sp_cap_idx S) (fun _ => Z.of_nat (length xs) mod p) (zeros (sp_width S)) in
    let '(st, i) := absorb S st0 0%nat xs in
    let st := if (0 <? i)%nat then sp_perm S st else st in
    digest_of S st.

  (* RpJive64_256 hash_elements: capacity flag 1 iff len % RATE_WIDTH != 0, then after the loop
       if i > 0 { state[RATE_START + i] = ONE; i += 1; while i != RATE_WIDTH { state[RATE_START + i] = ZERO; i += 1 }; permutation } *)
  Definition jive_pad (S : Sponge) (st : list Z) (i : nat) : list Z :=
    let st := upd (sp_rate_start S + i) (fun _ => 1 mod p) st in
    fold_left (fun st j => upd (sp_rate_start S + j) (fun _ => 0) st) (seq (Datatypes.S i) (sp_rate_width S - Datatypes.S i)) st.
  Definition hash_elements_jive (S : Sponge) (xs : list Z) : list Z :=
    let st0 := if Nat.eqb (length xs mod sp_rate_width S) 0 then zeros (sp_width S)
               else upd (sp_cap_idx S) (fun _ => 1 mod p) (zeros (sp_width S)) in
    let '(st, i) := absorb S st0 0%nat xs in
    let st := if (0 <? i)%nat then sp_perm S (jive_pad S st i) else st in
    digest_of S st.

  (* hash_elements<E>: E::slice_as_base_elements reinterprets the extension elements as their coefficients in order *)
  Definition flatten (xs : list (list Z)) : list Z := concat xs.

  (* ---- bytes -> elements (Hasher::hash): 7-byte chunks; every chunk but the last is copied into buf[..7] (panics
     if it is not 7 bytes long); the last chunk is zero-padded after an appended byte 1; u64::from_le_bytes; new() *)
  Fixpoint chunks7 (fuel : nat) (b : list Z) : list (list Z) :=
    match fuel with
    | O => []
    | Datatypes.S f => match b with [] => [] | _ => firstn 7 b :: chunks7 f (skipn 7 b) end
    end.
  Fixpoint encode_chunks (cs : list (list Z)) : option (list Z) :=
    match cs with
    | [] => Some []
    | [c] => Some [of_le_bytes (c ++ [1]) mod p]                   (* index = num_elements - 1: last chunk *)
    | c :: r =>
        if Nat.eqb (length c) 7                                    (* buf[..7].copy_from_slice(chunk) *)
        then match encode_chunks r with Some es => Some (of_le_bytes c mod p :: es) | None => None end
        else None
    end.
  Definition bytes_to_elems (b : list Z) : option (list Z) := encode_chunks (chunks7 (length b) b).

  Definition hash_bytes_with (he : list Z -> list Z) (b : list Z) : option (list Z) :=
    match bytes_to_elems b with Some es => Some (he es) | None => None end.

  (* ---- merge / merge_with_int of the sponge hashers (Rp64_256, Rp62_248): digests are 4 residues *)
  Definition set_range (start : nat) (vs : list Z) (st : list Z) : list Z :=
    fold_left (fun st iv => upd (start + fst iv) (fun _ => snd iv) st) (combine (seq 0 (length vs)) vs) st.

  (* the state handed to the permutation by merge / merge_with_int (what is absorbed, before any mixing) *)
  Definition merge_state_cnt (S : Sponge) (a b : list Z) : list Z :=
    let st := set_range (sp_rate_start S) (a ++ b) (zeros (sp_width S)) in
    upd (sp_cap_idx S) (fun _ => 8 mod p) st.
  Definition merge_cnt (S : Sponge) (a b : list Z) : list Z := digest_of S (sp_perm S (merge_state_cnt S a b)).

  (* value: u64.  state[in2] = new(value); if value < MODULUS { cap = 5 } else { state[in2 + 1] = new(value / MODULUS); cap = 6 } *)
  Definition mwi_state_cnt (S : Sponge) (seed : list Z) (v : Z) : list Z :=
    let st := set_range (sp_rate_start S) seed (zeros (sp_width S)) in
    let st := upd (sp_rate_start S + 4) (fun _ => v mod p) st in
    if v <? p then upd (sp_cap_idx S) (fun _ => 5 mod p) st
    else upd (sp_cap_idx S) (fun _ => 6 mod p) (upd (sp_rate_start S + 5) (fun _ => (v / p) mod p) st).
  Definition merge_with_int_cnt (S : Sponge) (seed : list Z) (v : Z) : list Z :=
    digest_of S (sp_perm S (mwi_state_cnt S seed v)).

  (* ---- RpJive64_256: Jive compression (not a sponge) *)
  Definition jive_sum (init final : list Z) : list Z :=
    map (fun i => fadd (fadd (fadd (nth i init 0) (nth (4 + i) init 0)) (nth i final 0)) (nth (4 + i) final 0)) (seq 0 4).
  Definition merge_jive (perm : list Z -> list Z) (a b : list Z) : list Z :=
    let init := a ++ b in jive_sum init (perm init).
  Definition mwi_state_jive (seed : list Z) (v : Z) : list Z :=
    let st := set_range 0 seed (zeros 8) in
    let st := upd 4 (fun _ => v mod p) st in
    if v <? p then upd 7 (fun _ => 5 mod p) st
    else upd 7 (fun _ => 6 mod p) (upd 5 (fun _ => (v / p) mod p) st).
  Definition merge_with_int_jive (perm : list Z -> list Z) (seed : list Z) (v : Z) : list Z :=
    let st := mwi_state_jive seed v in jive_sum st (perm st).
End Field.

(* ------------------------------------------------------------------------------------------------ instances *)
Definition rp64_params : RParams := mkRP (exp7 M64) (inv_sbox64 M64) rp64_MDS rp64_ARK1 rp64_ARK2.
Definition rp62_params : RParams := mkRP (cube M62) (inv_sbox62 M62) rp62_MDS rp62_ARK1 rp62_ARK2.
Definition jive_params : RParams := mkRP (exp7 M64) (inv_sbox64 M64) jive_MDS jive_ARK1 jive_ARK2.

Definition rp64_permutation : list Z -> list Z := apply_permutation M64 rp64_params.
Definition rp62_permutation : list Z -> list Z := apply_permutation M62 rp62_params.
Definition jive_permutation : list Z -> list Z := apply_permutation M64 jive_params.

(* Rp64_256: rate = state[4..12], count in state[0], digest = state[4..8] *)
Definition rp64_sponge : Sponge := mkSponge 12 4 8 0 4 rp64_permutation.
(* Rp62_248: rate = state[0..8], count in state[11], digest = state[0..4] *)
Definition rp62_sponge : Sponge := mkSponge 12 0 8 11 0 rp62_permutation.
(* RpJive64_256: rate = state[4..8], flag in state[0], digest = state[4..8] *)
Definition jive_sponge : Sponge := mkSponge 8 4 4 0 4 jive_permutation.

Definition rp64_hash_elements (xs : list (list Z)) : list Z := hash_elements_cnt M64 rp64_sponge (flatten xs).
Definition rp62_hash_elements (xs : list (list Z)) : list Z := hash_elements_cnt M62 rp62_sponge (flatten xs).
Definition jive_hash_elements (xs : list (list Z)) : list Z := hash_elements_jive M64 jive_sponge (flatten xs).

Definition rp64_hash (b : list Z) : option (list Z) := hash_bytes_with M64 (hash_elements_cnt M64 rp64_sponge) b.
Definition rp62_hash (b : list Z) : option (list Z) := hash_bytes_with M62 (hash_elements_cnt M62 rp62_sponge) b.
Definition jive_hash (b : list Z) : option (list Z) := hash_bytes_with M64 (hash_elements_jive M64 jive_sponge) b.

Definition rp64_merge : list Z -> list Z -> list Z := merge_cnt M64 rp64_sponge.
Definition rp62_merge : list Z -> list Z -> list Z := merge_cnt M62 rp62_sponge.
Definition jive_merge : list Z -> list Z -> list Z := merge_jive M64 jive_permutation.

Definition rp64_merge_with_int : list Z -> Z -> list Z := merge_with_int_cnt M64 rp64_sponge.
Definition rp62_merge_with_int : list Z -> Z -> list Z := merge_with_int_cnt M62 rp62_sponge.
Definition jive_merge_with_int : list Z -> Z -> list Z := merge_with_int_jive M64 jive_permutation.

(* ------------------------------------------------------------------------------------------------
   mds_multiply (mds_f64_12x12.rs / mds_f64_8x8.rs) on RAW internal words: split every word into its 32-bit halves,
   run the generated frequency-domain product on the high and on the low limbs, recombine in u128 and fold:
     s = l + (h << 32); s_hi = s >> 64; s_lo = s as u64; z = (s_hi << 32) - s_hi; (res, over) = s_lo.overflowing_add(z);
     res = res.wrapping_add(0u32.wrapping_sub(over as u32) as u64); (red, under) = res.overflowing_sub(M);
     if under { res } else { red } *)
Definition mds_fold (l h : Z) : Z :=
  let s := l + shl 128 h 32 in
  let s_hi := wrap 64 (shr s 64) in
  let s_lo := wrap 64 s in
  let z := wrap 64 (shl 64 s_hi 32 - s_hi) in
  let '(res, over) := ovf_add 64 s_lo z in
  let res := wrap 64 (res + wrap 32 (0 - b2z over)) in
  let '(red, under) := ovf_sub 64 res M64 in
  if under then res else red.
(* the checked operations of the fold: `(s_hi << 32) - s_hi` must not underflow; `l + (h << 32)` must fit u128 *)
Definition mds_fold_ok (l h : Z) : bool :=
  let s := l + shl 128 h 32 in
  let s_hi := wrap 64 (shr s 64) in
  in_u 128 (l + shl 128 h 32) && in_u 64 (shl 64 s_hi 32 - s_hi).

Definition hi32 (w : Z) : Z := shr w 32.
Definition lo32 (w : Z) : Z := wrap 32 w.

Definition mds12_multiply (st : list Z) : list Z :=
  match st with
  | [a0; a1; a2; a3; a4; a5; a6; a7; a8; a9; a10; a11] =>
      let '(h0, h1, h2, h3, h4, h5, h6, h7, h8, h9, h10, h11) :=
        mds12_mds_multiply_freq (hi32 a0, hi32 a1, hi32 a2, hi32 a3, hi32 a4, hi32 a5, hi32 a6, hi32 a7, hi32 a8, hi32 a9, hi32 a10, hi32 a11) in
      let '(l0, l1, l2, l3, l4, l5, l6, l7, l8, l9, l10, l11) :=
        mds12_mds_multiply_freq (lo32 a0, lo32 a1, lo32 a2, lo32 a3, lo32 a4, lo32 a5, lo32 a6, lo32 a7, lo32 a8, lo32 a9, lo32 a10, lo32 a11) in
      [mds_fold l0 h0; mds_fold l1 h1; mds_fold l2 h2; mds_fold l3 h3; mds_fold l4 h4; mds_fold l5 h5;
       mds_fold l6 h6; mds_fold l7 h7; mds_fold l8 h8; mds_fold l9 h9; mds_fold l10 h10; mds_fold l11 h11]
  | _ => st   (* unreachable: the state is a [BaseElement; 12] *)
  end.
Definition mds12_multiply_ok (st : list Z) : bool :=
  match st with
  | [a0; a1; a2; a3; a4; a5; a6; a7; a8; a9; a10; a11] =>
      let hs := (hi32 a0, hi32 a1, hi32 a2, hi32 a3, hi32 a4, hi32 a5, hi32 a6, hi32 a7, hi32 a8, hi32 a9, hi32 a10, hi32 a11) in
      let ls := (lo32 a0, lo32 a1, lo32 a2, lo32 a3, lo32 a4, lo32 a5, lo32 a6, lo32 a7, lo32 a8, lo32 a9, lo32 a10, lo32 a11) in
      let '(h0, h1, h2, h3, h4, h5, h6, h7, h8, h9, h10, h11) := mds12_mds_multiply_freq hs in
      let '(l0, l1, l2, l3, l4, l5, l6, l7, l8, l9, l10, l11) := mds12_mds_multiply_freq ls in
      mds12_mds_multiply_freq_ok hs && mds12_mds_multiply_freq_ok ls &&
      forallb (fun lh => mds_fold_ok (fst lh) (snd lh))
        [(l0, h0); (l1, h1); (l2, h2); (l3, h3); (l4, h4); (l5, h5); (l6, h6); (l7, h7); (l8, h8); (l9, h9); (l10, h10); (l11, h11)]
  | _ => false
  end.

Definition mds8_multiply (st : list Z) : list Z :=
  match st with
  | [a0; a1; a2; a3; a4; a5; a6; a7] =>
      let '(h0, h1, h2, h3, h4, h5, h6, h7) :=
        mds8_mds_multiply_freq (hi32 a0, hi32 a1, hi32 a2, hi32 a3, hi32 a4, hi32 a5, hi32 a6, hi32 a7) in
      let '(l0, l1, l2, l3, l4, l5, l6, l7) :=
        mds8_mds_multiply_freq (lo32 a0, lo32 a1, lo32 a2, lo32 a3, lo32 a4, lo32 a5, lo32 a6, lo32 a7) in
      [mds_fold l0 h0; mds_fold l1 h1; mds_fold l2 h2; mds_fold l3 h3; mds_fold l4 h4; mds_fold l5 h5; mds_fold l6 h6; mds_fold l7 h7]
  | _ => st
  end.
Definition mds8_multiply_ok (st : list Z) : bool :=
  match st with
  | [a0; a1; a2; a3; a4; a5; a6; a7] =>
      let hs := (hi32 a0, hi32 a1, hi32 a2, hi32 a3, hi32 a4, hi32 a5, hi32 a6, hi32 a7) in
      let ls := (lo32 a0, lo32 a1, lo32 a2, lo32 a3, lo32 a4, lo32 a5, lo32 a6, lo32 a7) in
      let '(h0, h1, h2, h3, h4, h5, h6, h7) := mds8_mds_multiply_freq hs in
      let '(l0, l1, l2, l3, l4, l5, l6, l7) := mds8_mds_multiply_freq ls in
      mds8_mds_multiply_freq_ok hs && mds8_mds_multiply_freq_ok ls &&
      forallb (fun lh => mds_fold_ok (fst lh) (snd lh))
        [(l0, h0); (l1, h1); (l2, h2); (l3, h3); (l4, h4); (l5, h5); (l6, h6); (l7, h7)]
  | _ => false
  end.

(* list <-> tuple views of the generated functions (drivers and theorems talk about lists) *)
Definition mds12_freq_list (st : list Z) : list Z :=
  match st with
  | [a0; a1; a2; a3; a4; a5; a6; a7; a8; a9; a10; a11] =>
      let '(b0, b1, b2, b3, b4, b5, b6, b7, b8, b9, b10, b11) := mds12_mds_multiply_freq (a0, a1, a2, a3, a4, a5, a6, a7, a8, a9, a10, a11) in
      [b0; b1; b2; b3; b4; b5; b6; b7; b8; b9; b10; b11]
  | _ => st
  end.
Definition mds12_freq_list_ok (st : list Z) : bool :=
  match st with
  | [a0; a1; a2; a3; a4; a5; a6; a7; a8; a9; a10; a11] => mds12_mds_multiply_freq_ok (a0, a1, a2, a3, a4, a5, a6, a7, a8, a9, a10, a11)
  | _ => false
  end.
Definition mds8_freq_list (st : list Z) : list Z :=
  match st with
  | [a0; a1; a2; a3; a4; a5; a6; a7] =>
      let '(b0, b1, b2, b3, b4, b5, b6, b7) := mds8_mds_multiply_freq (a0, a1, a2, a3, a4, a5, a6, a7) in
      [b0; b1; b2; b3; b4; b5; b6; b7]
  | _ => st
  end.
Definition mds8_freq_list_ok (st : list Z) : bool :=
  match st with
  | [a0; a1; a2; a3; a4; a5; a6; a7] => mds8_mds_multiply_freq_ok (a0, a1, a2, a3, a4, a5, a6, a7)
  | _ => false
  end.

(* ------------------------------------------------------------------------------------------------
   RAW level: apply_permutation of Rp64_256 / RpJive64_256 on internal (Montgomery) words, written with the
   rs2v-generated f64 operations (VGen.F64: f64_mul, f64_add, f64_exp7, f64_new) and mds_multiply above.
   `square()` is the trait default `self * self`; `exp_acc` (rescue/mod.rs) squares M times then multiplies by the tail;
   the round constants are `BaseElement::new(c)` of the table entries. *)
Definition raw_sq (a : Z) : Z := f64_mul a a.
Fixpoint raw_sqn (n : nat) (x : Z) : Z := match n with O => x | S k => raw_sqn k (raw_sq x) end.
Definition raw_exp_acc (m : nat) (base tail : Z) : Z := f64_mul (raw_sqn m base) tail.
Definition raw_inv_sbox64 (x : Z) : Z :=
  let t1 := raw_sq x in
  let t2 := raw_sq t1 in
  let t3 := raw_exp_acc 3 t2 t2 in
  let t4 := raw_exp_acc 6 t3 t3 in
  let t5 := raw_exp_acc 12 t4 t4 in
  let t6 := raw_exp_acc 6 t5 t3 in
  let t7 := raw_exp_acc 31 t6 t6 in
  let a := raw_sq (raw_sq (f64_mul (raw_sq t7) t6)) in
  let b := f64_mul (f64_mul t1 t2) x in
  f64_mul a b.
Definition raw_add_constants (s k : list Z) : list Z := map (fun ak => f64_add (fst ak) (f64_new (snd ak))) (combine s k).
Definition raw_round (mds : list Z -> list Z) (ark1 ark2 : list (list Z)) (s : list Z) (round : nat) : list Z :=
  let s := map f64_exp7 s in
  let s := mds s in
  let s := raw_add_constants s (nth round ark1 []) in
  let s := map raw_inv_sbox64 s in
  let s := mds s in
  raw_add_constants s (nth round ark2 []).
Definition rp64_raw_permutation (s : list Z) : list Z := fold_left (raw_round mds12_multiply rp64_ARK1 rp64_ARK2) (seq 0 7) s.
Definition jive_raw_permutation (s : list Z) : list Z := fold_left (raw_round mds8_multiply jive_ARK1 jive_ARK2) (seq 0 7) s.

(* ------------------------------------------------------------------------------------------------
   GENERIC level: the same sponge / Rp62_248 permutation code written once over abstract field operations
   (`mul`, `add`, `newf` = BaseElement::new on a u64, `zero`, `one`).  Instantiated with the value-level operations
   it is the model above (Proofs/RescueRawSponge.v: `*_generic_value`); instantiated with the rs2v-generated f64 / f62
   operations on internal (Montgomery) words it is what the Rust code executes (RAW models at the end of this file). *)
(* the u64 integers handed to BaseElement::new by Hasher::hash, before reduction (None = copy_from_slice panic) *)
Fixpoint chunk_ints_of (cs : list (list Z)) : option (list Z) :=
  match cs with
  | [] => Some []
  | [c] => Some [of_le_bytes (c ++ [1])]
  | c :: r =>
      if Nat.eqb (length c) 7
      then match chunk_ints_of r with Some es => Some (of_le_bytes c :: es) | None => None end
      else None
  end.
Definition chunk_ints (b : list Z) : option (list Z) := chunk_ints_of (chunks7 (length b) b).

Section Generic.
  Variable mul add : Z -> Z -> Z.
  Variable newf : Z -> Z.
  Variable zero one : Z.
  Variable modulus : Z.            (* BaseElement::MODULUS (u64), used by merge_with_int only *)

  (* --- Rp62_248 permutation pieces (plain code, no fast path) *)
  Definition g_sq (a : Z) : Z := mul a a.
  Fixpoint g_sqn (n : nat) (x : Z) : Z := match n with O => x | S k => g_sqn k (g_sq x) end.
  Definition g_exp_acc (m : nat) (base tail : Z) : Z := mul (g_sqn m base) tail.
  Definition g_cube (x : Z) : Z := mul (mul x x) x.
  Definition g_inv_sbox62 (x : Z) : Z :=
    let t1 := g_sq x in
    let t2 := g_exp_acc 2 t1 t1 in
    let t4 := g_exp_acc 4 t2 t2 in
    let t8 := g_exp_acc 8 t4 t4 in
    let acc := g_exp_acc 7 t8 t2 in
    let acc := g_exp_acc 15 acc t8 in
    let acc := g_exp_acc 16 acc t8 in
    let acc := g_exp_acc 8 acc t4 in
    mul x acc.
  (* apply_mds of Rp62_248: result[i] = ZERO; for (s, m) in state.zip(MDS[i]) { result[i] += m * s } *)
  Definition g_dot_loop (row s : list Z) : Z :=
    fold_left (fun r ms => add r (mul (fst ms) (snd ms))) (combine row s) zero.
  Definition g_apply_mds (mds : list (list Z)) (s : list Z) : list Z := map (fun row => g_dot_loop row s) mds.
  Definition g_add_constants (s k : list Z) : list Z := map (fun ak => add (fst ak) (snd ak)) (combine s k).
  (* the tables hold BaseElement::new(c) *)
  Definition g_consts (t : list (list Z)) : list (list Z) := map (map newf) t.
  Definition g_round62 (mds ark1 ark2 : list (list Z)) (s : list Z) (round : nat) : list Z :=
    let s := map g_cube s in
    let s := g_apply_mds (g_consts mds) s in
    let s := g_add_constants s (nth round (g_consts ark1) []) in
    let s := map g_inv_sbox62 s in
    let s := g_apply_mds (g_consts mds) s in
    g_add_constants s (nth round (g_consts ark2) []).
  Definition g_permutation62 (mds ark1 ark2 : list (list Z)) (s : list Z) : list Z :=
    fold_left (g_round62 mds ark1 ark2) (seq 0 7) s.

  (* --- sponge *)
  Definition g_zeros (n : nat) : list Z := repeat zero n.
  Fixpoint g_absorb (S : Sponge) (st : list Z) (i : nat) (xs : list Z) : list Z * nat :=
    match xs with
    | [] => (st, i)
    | x :: r =>
        let st := upd (sp_rate_start S + i) (fun a => add a x) st in
        let i := Datatypes.S i in
        if Nat.eqb (i mod sp_rate_width S) 0 then g_absorb S (sp_perm S st) 0%nat r else g_absorb S st i r
    end.
  Definition g_hash_elements_cnt (S : Sponge) (xs : list Z) : list Z :=
    let st0 := upd (sp_cap_idx S) (fun _ => newf (Z.of_nat (length xs))) (g_zeros (sp_width S)) in
    let '(st, i) := g_absorb S st0 0%nat xs in
    let st := if (0 <? i)%nat then sp_perm S st else st in
    digest_of S st.
  Definition g_jive_pad (S : Sponge) (st : list Z) (i : nat) : list Z :=
    let st := upd (sp_rate_start S + i) (fun _ => one) st in
    fold_left (fun st j => upd (sp_rate_start S + j) (fun _ => zero) st) (seq (Datatypes.S i) (sp_rate_width S - Datatypes.S i)) st.
  Definition g_hash_elements_jive (S : Sponge) (xs : list Z) : list Z :=
    let st0 := if Nat.eqb (length xs mod sp_rate_width S) 0 then g_zeros (sp_width S)
               else upd (sp_cap_idx S) (fun _ => one) (g_zeros (sp_width S)) in
    let '(st, i) := g_absorb S st0 0%nat xs in
    let st := if (0 <? i)%nat then sp_perm S (g_jive_pad S st i) else st in
    digest_of S st.
  Definition g_hash_bytes_with (he : list Z -> list Z) (b : list Z) : option (list Z) :=
    match chunk_ints b with Some l => Some (he (map newf l)) | None => None end.
  Definition g_merge_state_cnt (S : Sponge) (a b : list Z) : list Z :=
    upd (sp_cap_idx S) (fun _ => newf 8) (set_range (sp_rate_start S) (a ++ b) (g_zeros (sp_width S))).
  Definition g_merge_cnt (S : Sponge) (a b : list Z) : list Z := digest_of S (sp_perm S (g_merge_state_cnt S a b)).
  Definition g_mwi_state_cnt (S : Sponge) (seed : list Z) (v : Z) : list Z :=
    let st := set_range (sp_rate_start S) seed (g_zeros (sp_width S)) in
    let st := upd (sp_rate_start S + 4) (fun _ => newf v) st in
    if v <? modulus then upd (sp_cap_idx S) (fun _ => newf 5) st
    else upd (sp_cap_idx S) (fun _ => newf 6) (upd (sp_rate_start S + 5) (fun _ => newf (v / modulus)) st).
  Definition g_merge_with_int_cnt (S : Sponge) (seed : list Z) (v : Z) : list Z :=
    digest_of S (sp_perm S (g_mwi_state_cnt S seed v)).
  Definition g_jive_sum (init final : list Z) : list Z :=
    map (fun i => add (add (add (nth i init zero) (nth (4 + i) init zero)) (nth i final zero)) (nth (4 + i) final zero)) (seq 0 4).
  Definition g_merge_jive (perm : list Z -> list Z) (a b : list Z) : list Z :=
    let init := a ++ b in g_jive_sum init (perm init).
  Definition g_mwi_state_jive (seed : list Z) (v : Z) : list Z :=
    let st := set_range 0 seed (g_zeros 8) in
    let st := upd 4 (fun _ => newf v) st in
    if v <? modulus then upd 7 (fun _ => newf 5) st
    else upd 7 (fun _ => newf 6) (upd 5 (fun _ => newf (v / modulus)) st).
  Definition g_merge_with_int_jive (perm : list Z -> list Z) (seed : list Z) (v : Z) : list Z :=
    let st := g_mwi_state_jive seed v in g_jive_sum st (perm st).
End Generic.

(* ------------------------------------------------------------------------------------------------ RAW hashers
   what the Rust code executes on internal words (inputs: internal words of the elements; outputs: internal words of
   the digest; `Digest::as_bytes` / equality go through as_int / normalisation). *)
From VGen Require F62.
Definition rp62_raw_permutation : list Z -> list Z :=
  g_permutation62 F62.f62_mul F62.f62_add F62.f62_new F62.f62_ZERO rp62_MDS rp62_ARK1 rp62_ARK2.

Definition rp64_raw_sponge : Sponge := mkSponge 12 4 8 0 4 rp64_raw_permutation.
Definition rp62_raw_sponge : Sponge := mkSponge 12 0 8 11 0 rp62_raw_permutation.
Definition jive_raw_sponge : Sponge := mkSponge 8 4 4 0 4 jive_raw_permutation.

Definition rp64_raw_hash_elements (xs : list (list Z)) : list Z := g_hash_elements_cnt f64_add f64_new f64_ZERO rp64_raw_sponge (flatten xs).
Definition rp62_raw_hash_elements (xs : list (list Z)) : list Z := g_hash_elements_cnt F62.f62_add F62.f62_new F62.f62_ZERO rp62_raw_sponge (flatten xs).
Definition jive_raw_hash_elements (xs : list (list Z)) : list Z := g_hash_elements_jive f64_add f64_ZERO f64_ONE jive_raw_sponge (flatten xs).
Definition rp64_raw_hash (b : list Z) : option (list Z) := g_hash_bytes_with f64_new (g_hash_elements_cnt f64_add f64_new f64_ZERO rp64_raw_sponge) b.
Definition rp62_raw_hash (b : list Z) : option (list Z) := g_hash_bytes_with F62.f62_new (g_hash_elements_cnt F62.f62_add F62.f62_new F62.f62_ZERO rp62_raw_sponge) b.
Definition jive_raw_hash (b : list Z) : option (list Z) := g_hash_bytes_with f64_new (g_hash_elements_jive f64_add f64_ZERO f64_ONE jive_raw_sponge) b.
Definition rp64_raw_merge : list Z -> list Z -> list Z := g_merge_cnt f64_new f64_ZERO rp64_raw_sponge.
Definition rp62_raw_merge : list Z -> list Z -> list Z := g_merge_cnt F62.f62_new F62.f62_ZERO rp62_raw_sponge.
Definition jive_raw_merge : list Z -> list Z -> list Z := g_merge_jive f64_add f64_ZERO jive_raw_permutation.
Definition rp64_raw_merge_with_int : list Z -> Z -> list Z := g_merge_with_int_cnt f64_new f64_ZERO M64 rp64_raw_sponge.
Definition rp62_raw_merge_with_int : list Z -> Z -> list Z := g_merge_with_int_cnt F62.f62_new F62.f62_ZERO M62 rp62_raw_sponge.
Definition jive_raw_merge_with_int : list Z -> Z -> list Z := g_merge_with_int_jive f64_add f64_new f64_ZERO M64 jive_raw_permutation.
