(* C15 / C05 — instantiation of the FRI model (Model/Fri.v) with executable externals, for the
   correspondence drivers: ToyHasher (Model/ToyHash.v), the Merkle model (Model/Merkle.v), the
   DefaultRandomCoin model (Model/Coin.v), the prime fields on canonical residues (Base/ZpOps.v) and the
   quadratic extensions (Model/ExtField.v).  NO proofs. *)
From Coq Require Import List ZArith Bool.
From VBase Require Import MachInt FieldOps ZpOps.
From VGen Require Import F64 F128.
From VModel Require Import ToyHash Merkle Coin ExtField Fri FriMerkle.
Import ListNotations.

(* ---------------------------------------------------------------- fields *)
(* B::get_root_of_unity(k) = TWO_ADIC_ROOT_OF_UNITY ^ (2 ^ (TWO_ADICITY - k)) *)
Definition rou_zp (p root : Z) (adicity : nat) (k : nat) : Z :=
  zpow_mod p root (2 ^ Z.of_nat (adicity - k)).
Definition rou64 : nat -> Z := rou_zp P64 7277203076849721926 32.
Definition rou128 : nat -> Z := rou_zp P128 23953097886125630542083529559205016746 40.

Definition quad_ops {F : Type} (O : FOps F) (I : Ext2Impl F) : FOps (F * F) := {|
  fzero := q_zero O; fone := q_one O;
  fadd := q_add O; fsub := q_sub O; fmul := q_mul I;
  fneg := q_neg O; fdouble := q_double O; fsquare := q_square I;
  finv := fun a => match q_inv O I false a with Some x => x | None => q_zero O end;
  fdiv := fun a b => match q_div O I false a b with Some x => x | None => q_zero O end;
  feqb := q_eqb O;
  fofz := fun v => (fofz O v, fzero O)
|}.

(* The inverse by the extended Euclidean algorithm: the same value as zp_inv (a^(p-2)) for prime p —
   the inverse in Z/p is unique —, about ten times cheaper in extracted code.  0 maps to 0. *)
Fixpoint egcd_loop (fuel : nat) (r0 r1 t0 t1 : Z) : Z :=
  match fuel with
  | O => t0
  | S f => if (r1 =? 0)%Z then t0 else let q := (r0 / r1)%Z in egcd_loop f r1 (r0 - q * r1)%Z t1 (t0 - q * t1)%Z
  end.
Definition zp_inv_fast (p a : Z) : Z :=
  if (a mod p =? 0)%Z then 0%Z else ((egcd_loop 400 p (a mod p) 0 1) mod p)%Z.
Definition zp_ops_fast (p : Z) : FOps Z :=
  let o := zp_ops p in
  mkFOps Z (fzero o) (fone o) (fadd o) (fsub o) (fmul o) (fneg o) (fdouble o) (fsquare o)
         (zp_inv_fast p) (fun a b => (a * zp_inv_fast p b) mod p)%Z (feqb o) (fofz o).

Definition ops64 : FOps Z := zp_ops_fast P64.
Definition ops128 : FOps Z := zp_ops_fast P128.
Definition ops64x2 : FOps (Z * Z) := quad_ops ops64 (f64_x2 ops64).
Definition ops128x2 : FOps (Z * Z) := quad_ops ops128 (f128_x2 ops128).
Definition emb (x : Z) : Z * Z := (x, 0%Z).

(* ---------------------------------------------------------------- ToyHasher + Merkle + coin *)
Definition tm_new : list Z -> option (mtree Z) := cm_new Z 0%Z toy_merge.
Definition tm_root : mtree Z -> Z := cm_root Z 0%Z.
Definition tm_prove_batch : mtree Z -> list nat -> option (list (list Z)) := cm_prove_batch Z 0%Z.
Definition tm_verify_batch : Z -> list nat -> list Z -> list (list Z) -> nat -> auth_res := cm_verify_batch Z Z.eqb toy_merge.

Definition tc_reseed : coin Z -> Z -> coin Z := coin_reseed Z toy_merge.
Definition tc_draw {E : Type} (k : fkind) (dec : list Z -> E) (c : coin Z) : coin Z * draw_res E :=
  let (c', r) := coin_draw Z toy_merge_int toy_dbytes k c in
  (c', match r with Coin.Ok e => DrawOk (dec e) | Coin.Err => DrawErr | Coin.Panic => DrawPanic end).
Definition dec1 (l : list Z) : Z := nth 0 l 0%Z.
Definition dec2 (l : list Z) : Z * Z := (nth 0 l 0%Z, nth 1 l 0%Z).
Definition flat2 (l : list (Z * Z)) : list Z := flat_map (fun a => [fst a; snd a]) l.

(* RandomCoin::new(&[]) *)
Definition coin0 (eb : nat) : coin Z := toy_coin_new eb [].

Section Inst.
Context {E : Type} (O : FOps E) (rou : nat -> E) (adic : nat) (gen : E) (dbg : bool)
        (hash : list E -> Z) (draw : coin Z -> coin Z * draw_res E).

Definition i_apply_drp (N : nat) (evaluations : list E) (offset alpha : E) : res (list E) :=
  bind (transpose_slice (fzero O) N evaluations) (fun rows => apply_drp O rou adic N rows offset alpha).

Definition i_prove := prove O rou adic gen Z hash (mtree Z) (list (list Z)) tm_new tm_root tm_prove_batch
                            (coin Z) tc_reseed draw.
Definition i_build_layers := build_layers O rou adic gen Z hash (mtree Z) tm_new tm_root (coin Z) tc_reseed draw.
Definition i_build_proof := @build_proof E (mtree Z) (list (list Z)) tm_prove_batch.
Definition i_run_verifier (check : bool) :=
  run_verifier O rou adic gen dbg Z Z.eqb hash (list (list Z)) tm_verify_batch (coin Z) tc_reseed draw check.
End Inst.

(* the four field configurations: ops, roots, two-adicity, generator, element bytes, hash, draw *)
Definition hash64 (l : list Z) : Z := toy_hash_elems 8 l.
Definition hash128 (l : list Z) : Z := toy_hash_elems 16 l.
Definition hash64x2 (l : list (Z * Z)) : Z := toy_hash_elems 8 (flat2 l).
Definition hash128x2 (l : list (Z * Z)) : Z := toy_hash_elems 16 (flat2 l).
Definition draw64 := tc_draw (fk_f64 1) dec1.
Definition draw128 := tc_draw (fk_f128 1) dec1.
Definition draw64x2 := tc_draw (fk_f64 2) dec2.
Definition draw128x2 := tc_draw (fk_f128 2) dec2.

Definition drp64 := i_apply_drp ops64 rou64 32.
Definition drp128 := i_apply_drp ops128 rou128 40.
Definition drp64x2 := i_apply_drp ops64x2 (fun k => emb (rou64 k)) 32.
Definition drp128x2 := i_apply_drp ops128x2 (fun k => emb (rou128 k)) 40.

Definition prove64 := i_prove ops64 rou64 32 7%Z hash64 draw64.
Definition prove128 := i_prove ops128 rou128 40 3%Z hash128 draw128.
Definition prove64x2 := i_prove ops64x2 (fun k => emb (rou64 k)) 32 (emb 7) hash64x2 draw64x2.
Definition prove128x2 := i_prove ops128x2 (fun k => emb (rou128 k)) 40 (emb 3) hash128x2 draw128x2.

Definition verif64 (dbg : bool) := i_run_verifier ops64 rou64 32 7%Z dbg hash64 draw64.
Definition verif128 (dbg : bool) := i_run_verifier ops128 rou128 40 3%Z dbg hash128 draw128.
Definition verif64x2 (dbg : bool) := i_run_verifier ops64x2 (fun k => emb (rou64 k)) 32 (emb 7) dbg hash64x2 draw64x2.
Definition verif128x2 (dbg : bool) := i_run_verifier ops128x2 (fun k => emb (rou128 k)) 40 (emb 3) dbg hash128x2 draw128x2.

(* prover reuse: two proofs in a row from the same prover instance *)
Section Reuse.
Context {E : Type} (O : FOps E) (rou : nat -> E) (adic : nat) (gen : E)
        (hash : list E -> Z) (draw : coin Z -> coin Z * draw_res E).
Definition i_prove_twice (o : fri_options) (c0 : coin Z) (ev1 : list E) (pos1 : list nat) (ev2 : list E) (pos2 : list nat) :=
  bind (i_build_layers O rou adic gen hash draw (@prover_new E (mtree Z) o) (mkPCh Z (coin Z) c0 []) ev1)
    (fun pc1 => bind (i_build_proof (fst pc1) pos1)
    (fun pp1 => bind (i_build_layers O rou adic gen hash draw (fst pp1) (mkPCh Z (coin Z) c0 []) ev2)
    (fun pc2 => bind (i_build_proof (fst pc2) pos2)
    (fun pp2 => Ok (pc_commitments Z (coin Z) (snd pc1), snd pp1, pc_commitments Z (coin Z) (snd pc2), snd pp2))))).
End Reuse.
Definition twice64 := i_prove_twice ops64 rou64 32 7%Z hash64 draw64.
Definition twice128 := i_prove_twice ops128 rou128 40 3%Z hash128 draw128.
