(* C17 — round 8: the MIXED model of the whole single-segment prover path
   DefaultConstraintEvaluator::evaluate / evaluate_fragment_main + ConstraintEvaluationTable::combine for E != B:
   main trace LDE, periodic table, domain points, divisor inverses, assertion polynomials and the transition evaluations
   are base-field values (computed with the single-field functions of Composition.v over OB, as the Rust code does);
   composition coefficients and the table are extension-field values; they meet in `mul_base`
   (CompositionMixed.v: lincomb_mixed, single/small/large_eval_mixed, value.mul_base(z)).  NO proofs here. *)
From Coq Require Import List Arith Bool ZArith.
From VBase Require Import FieldOps.
From VModel Require Import Composition CompositionMixed.
Import ListNotations.

Section MixedWhole.
Context {B E : Type} (OB : FOps B) (OE : FOps E).
Variable mul_base : E -> B -> E.

(* air::BoundaryConstraint<B, E> against the main segment: value polynomial and offset in B, coefficient in E *)
Record BCm := mkBCm { m_col : nat; m_poly : list B; m_first : nat; m_xoff : B; m_cc : E }.
Record BGm := mkBGm { gm_div : @Div B; gm_cs : list BCm }.
Definition bcm_base (c : BCm) : @BC B := mkBC (m_col c) (m_poly c) (m_first c) (m_xoff c) (fzero OB).

Variable n ceb ldeb : nat.
Variable offset : B.
Variable rou : nat -> B.
Variable num_main : nat.
Variable tmain : list B -> list B -> list B -> list B.      (* Air::evaluate_transition::<B> on the main frame *)
Variable ppolys : list (list B).
Variable exemptions : nat.
Variable tcoef : list E.
Variable groups : list BGm.
Variable lde_main : list (list B).

(* BoundaryConstraintGroup::evaluate_main: the three loops; the large-polynomial values are
   fft::evaluate_poly_with_offset(poly, .., domain_offset, ce_domain_size / poly.len()) over B *)
Definition gm_evaluate_main (g : BGm) (state : list B) (ce_step : nat) (x : B) : option E :=
  let r := acc_opt OE (fun c => single_eval_mixed OB mul_base (m_col c) (nth 0 (m_poly c) (fzero OB)) (m_cc c) state)
                   (filter (fun c => is_single (bcm_base c)) (gm_cs g)) (Some (fzero OE)) in
  let r := acc_opt OE (fun c => small_eval_mixed OB mul_base (m_col c) (m_poly c) (m_xoff c) (m_cc c) state x)
                   (filter (fun c => is_small (bcm_base c)) (gm_cs g)) r in
  acc_opt OE (fun c => large_eval_mixed OB mul_base (m_col c)
                         (eval_poly_with_offset OB rou (m_poly c) offset (ce_size n ceb / length (m_poly c)))
                         (m_first c * ceb) (m_cc c) state ce_step)
          (filter (fun c => is_large (bcm_base c)) (gm_cs g)) r.

(* evaluate_fragment_main, one row *)
Definition eval_row_mixed (t : @PTable B) (step : nat) : option (list E) :=
  match read_frame ldeb lde_main (step * ce_to_lde_blowup n ceb ldeb), get_ce_x_at OB n ceb offset rou step with
  | Some (cur, nxt), Some x =>
    match pt_get_row t step with
    | Some pv =>
      match mapM (fun g => gm_evaluate_main g cur step x) groups with
      | Some rest => Some (lincomb_mixed OE mul_base (tmain cur nxt pv) (main_coef num_main tcoef) :: rest)
      | None => None end
    | None => None end
  | _, _ => None
  end.

(* acc_column: value.mul_base(z) resp. column[i].mul_base(z * e), z and e in B *)
Definition combine_row_mixed (divs : list (@Div B * list B)) (i : nat) (row : list E) : option E :=
  acc_opt OE (fun vd => match acc_factor OB n ceb offset rou (fst (snd vd)) (snd (snd vd)) i with
                        | Some k => Some (mul_base (fst vd) k) | None => None end)
          (combine row divs) (Some (fzero OE)).

Definition evaluate_mixed : option (list E) :=
  match ptable_new OB n ceb offset rou ppolys with
  | None => None
  | Some t =>
    let divisors := tdiv OB n rou exemptions :: map gm_div groups in
    match mapM (fun d => match get_inv_evaluation OB n ceb offset rou d with Some zs => Some (d, zs) | None => None end) divisors with
    | None => None
    | Some divs =>
      mapM (fun i => match eval_row_mixed t i with
                     | Some row => combine_row_mixed divs i row
                     | None => None end) (seq 0 (ce_size n ceb))
    end
  end.
End MixedWhole.

(* ------------------------------------------------------------------ round 9: the verifier's evaluate_constraints for E != B.
   The OOD frames and the point x are extension-field values; the periodic column polynomials, the value polynomials and
   offsets of main assertions, the offsets of auxiliary assertions and all divisor constants are base-field values that the
   code lifts with E::from / polynom::eval::<B, E>. *)
Section MixedVerifier.
Context {B E : Type} (OB : FOps B) (OE : FOps E).
Variable emb : B -> E.

(* air::BoundaryConstraint<E, E> against the auxiliary segment: value polynomial in E, offset in B *)
Record BCa := mkBCa { a_col : nat; a_poly : list E; a_first : nat; a_xoff : B; a_cc : E }.
Record BGa := mkBGa { ga_div : @Div B; ga_cs : list BCa }.

(* ConstraintDivisor<B>::evaluate_at::<E>(x): (x^a - E::from(b)) / prod (x - E::from(e)) *)
Definition div_evaluate_at_mixed (d : @Div B) (x : E) : E :=
  fdiv OE (fmul OE (fone OE) (fsub OE (cpow OE x (dv_a d)) (emb (dv_b d))))
          (fold_left (fun r e => fmul OE r (fsub OE x (emb e))) (dv_ex d) (fone OE)).

(* BoundaryConstraintGroup<B, E>::evaluate_at(state, x) *)
Definition gm_evaluate_at (g : @BGm B E) (state : list E) (x : E) : option E :=
  match acc_opt OE (fun c => match nth_error state (m_col c) with
                             | Some tv => Some (fmul OE (bc_evaluate_at_mixed OB OE emb (m_poly c) (m_xoff c) x tv) (m_cc c))
                             | None => None end) (gm_cs g) (Some (fzero OE)) with
  | Some numerator => Some (fdiv OE numerator (div_evaluate_at_mixed (gm_div g) x))
  | None => None
  end.

(* BoundaryConstraintGroup<E, E>::evaluate_at(state, x): polynom::eval(&poly, x * E::from(offset)) in E *)
Definition ga_evaluate_at (g : BGa) (state : list E) (x : E) : option E :=
  match acc_opt OE (fun c => match nth_error state (a_col c) with
                             | Some tv =>
                               let av := if length (a_poly c) =? 1 then nth 0 (a_poly c) (fzero OE)
                                         else horner OE (a_poly c) (fmul OE x (emb (a_xoff c))) in
                               Some (fmul OE (fsub OE tv av) (a_cc c))
                             | None => None end) (ga_cs g) (Some (fzero OE)) with
  | Some numerator => Some (fdiv OE numerator (div_evaluate_at_mixed (ga_div g) x))
  | None => None
  end.

Variable n : nat.
Variable rou : nat -> B.
Variable num_main num_aux : nat.
Variable tmainE : list E -> list E -> list E -> list E.      (* Air::evaluate_transition::<E> on the OOD frame *)
Variable tauxE : list E -> list E -> list E -> list E -> list E -> list E -> list E.
Variable ppolys : list (list B).
Variable exemptions : nat.
Variable tcoef : list E.
Variable main_groups : list (@BGm B E).
Variable aux_groups : list BGa.
Variable rands : list E.

Definition evaluate_constraints_mixed (cur nxt : list E) (auxf : option (list E * list E)) (x : E) : option E :=
  let pv := periodic_at_mixed OE emb n ppolys x in
  let t1 := tmainE cur nxt pv in
  let t2 := match auxf with Some (ac, an) => tauxE cur nxt ac an pv rands | None => repeat (fzero OE) num_aux end in
  let merged := lincomb OE t1 (main_coef num_main tcoef) in
  let merged := match aux_coef num_main tcoef with [] => merged | _ => fadd OE merged (lincomb OE t2 (aux_coef num_main tcoef)) end in
  let result := Some (fdiv OE merged (div_evaluate_at_mixed (tdiv OB n rou exemptions) x)) in
  let result := acc_opt OE (fun g => gm_evaluate_at g cur x) main_groups result in
  match auxf with
  | Some (ac, _) => acc_opt OE (fun g => ga_evaluate_at g ac x) aux_groups result
  | None => result
  end.
End MixedVerifier.
