(* ToyHasher, Gallina side (harness/src/toy.rs is the Rust side).  Digests are 64-bit words,
   serialized as 8 little-endian bytes.  Bytes are Z in [0,256). *)
From VBase Require Import MachInt.
Open Scope Z_scope.

Definition toy_step (h b : Z) : Z := ((Z.lxor h b) * 1099511628211 + 2654435769) mod 2^64.
Definition toy_hash (bytes : list Z) : Z :=
  let h := fold_left toy_step bytes (Z.lxor 14695981039346656037 (Z.of_nat (length bytes))) in
  Z.lxor h (h / 2^29).

Definition digest_bytes (d : Z) : list Z := to_le_bytes 8 d.
Definition toy_merge (a b : Z) : Z := toy_hash (digest_bytes a ++ digest_bytes b).
Definition toy_merge_int (seed v : Z) : Z := toy_hash (digest_bytes seed ++ to_le_bytes 8 v).
(* hash_elements: [ebytes] = ELEMENT_BYTES of the base field, elements given as canonical residues *)
Definition toy_hash_elems (ebytes : nat) (elems : list Z) : Z :=
  toy_hash (flat_map (to_le_bytes ebytes) elems).
