(* C08 — executable model of math/src/field/extensions/{quadratic,cubic}.rs (`QuadExtension<B>`,
   `CubeExtension<B>`), on top of the GENERATED ring-polymorphic translations of the
   `impl ExtensibleField<2|3> for BaseElement` bodies (coq/Gen/F64.v, F62.v, F128.v, Section Ring).
   NO proofs here.

   Conventions
   * An extension element is a tuple `F * F` / `F * F * F` of base elements (the `#[repr(C)]` struct fields in
     declaration order), the base field is a record of operations `FOps F`.
   * `Ext2Impl` / `Ext3Impl` is the vtable of the trait `ExtensibleField<N>`: `mul`, `square`, `mul_base`,
     `frobenius`.  For f64 all four are generated terms; f62 and f128 do not override `square`, so the trait
     default `square(a) = mul(a, a)` is written out here (traits.rs, `ExtensibleField::square`).
   * `None` = panic.  The only panics of the wrappers are the two/three `debug_assert_eq!(norm[i], ZERO)` of `inv`
     (flag `dbg` = debug-assertions on), `base_element(i)` with i >= N, and the `assert!` of
     `slice_from_base_elements` on a length that is not a multiple of N.
   * `slice_as_base_elements` / `slice_from_base_elements` are zero-copy pointer casts in Rust; here they are
     flatten / group on lists.  That the `#[repr(C)]` memory layout of `QuadExtension<B>(B, B)` is "B, B without
     padding" is MODELLED, not verified (covered by the correspondence only).
   * `exp_vartime` is the trait default of `FieldElement` (LSB-first square-and-multiply; the exponent is an
     unsigned integer, `Z0`/`Zpos`).
   * serialization (over canonical residues in Z): `write_into` = little-endian canonical bytes of every coefficient
     in order; `read_from` reads N base elements and rejects a coefficient >= p; `TryFrom<&[u8]>` additionally
     requires the exact length. *)
From Coq Require Import List ZArith Bool.
From VBase Require Import MachInt FieldOps.
From VGen Require Import F64 F62 F128.
Import ListNotations.

Record Ext2Impl (F : Type) := mkExt2 {
  x2_mul : F * F -> F * F -> F * F;
  x2_square : F * F -> F * F;
  x2_mul_base : F * F -> F -> F * F;
  x2_frob : F * F -> F * F
}.
Arguments x2_mul {F}. Arguments x2_square {F}. Arguments x2_mul_base {F}. Arguments x2_frob {F}.

Record Ext3Impl (F : Type) := mkExt3 {
  x3_mul : F * F * F -> F * F * F -> F * F * F;
  x3_square : F * F * F -> F * F * F;
  x3_mul_base : F * F * F -> F -> F * F * F;
  x3_frob : F * F * F -> F * F * F
}.
Arguments x3_mul {F}. Arguments x3_square {F}. Arguments x3_mul_base {F}. Arguments x3_frob {F}.

(* ---------- the five `impl ExtensibleField<N> for BaseElement` ---------- *)
Section Impls.
  Context {F : Type} (O : FOps F).

  Definition f64_x2 : Ext2Impl F :=
    {| x2_mul := f64_ext2_mul O; x2_square := f64_ext2_square O;
       x2_mul_base := f64_ext2_mul_base O; x2_frob := f64_ext2_frobenius O |}.
  Definition f62_x2 : Ext2Impl F :=
    {| x2_mul := f62_ext2_mul O; x2_square := fun a => f62_ext2_mul O a a;     (* trait default *)
       x2_mul_base := f62_ext2_mul_base O; x2_frob := f62_ext2_frobenius O |}.
  Definition f128_x2 : Ext2Impl F :=
    {| x2_mul := f128_ext2_mul O; x2_square := fun a => f128_ext2_mul O a a;   (* trait default *)
       x2_mul_base := f128_ext2_mul_base O; x2_frob := f128_ext2_frobenius O |}.
  Definition f64_x3 : Ext3Impl F :=
    {| x3_mul := f64_ext3_mul O; x3_square := f64_ext3_square O;
       x3_mul_base := f64_ext3_mul_base O; x3_frob := f64_ext3_frobenius O |}.
  Definition f62_x3 : Ext3Impl F :=
    {| x3_mul := f62_ext3_mul O; x3_square := fun a => f62_ext3_mul O a a;     (* trait default *)
       x3_mul_base := f62_ext3_mul_base O; x3_frob := f62_ext3_frobenius O |}.
End Impls.

(* ---------- QuadExtension<B> ---------- *)
Section Quad.
  Context {F : Type} (O : FOps F) (I : Ext2Impl F).
  Local Notation Q := (F * F)%type.

  Definition q_zero : Q := (fzero O, fzero O).
  Definition q_one : Q := (fone O, fzero O).
  Definition q_add (a b : Q) : Q := (fadd O (fst a) (fst b), fadd O (snd a) (snd b)).
  Definition q_sub (a b : Q) : Q := (fsub O (fst a) (fst b), fsub O (snd a) (snd b)).
  Definition q_neg (a : Q) : Q := (fneg O (fst a), fneg O (snd a)).
  Definition q_double (a : Q) : Q := (fdouble O (fst a), fdouble O (snd a)).
  Definition q_mul (a b : Q) : Q := x2_mul I a b.
  Definition q_square (a : Q) : Q := x2_square I a.
  Definition q_mul_base (a : Q) (b : F) : Q := x2_mul_base I a b.
  Definition q_conjugate (a : Q) : Q := x2_frob I a.
  Definition q_from_base (b : F) : Q := (b, fzero O).
  (* #[derive(PartialEq)] : field-wise, with the base field's `==` *)
  Definition q_eqb (a b : Q) : bool := feqb O (fst a) (fst b) && feqb O (snd a) (snd b).

  Definition q_norm (a : Q) : Q := x2_mul I a (x2_frob I a).

  Definition q_inv (dbg : bool) (a : Q) : option Q :=
    if q_eqb a q_zero then Some a else
    let numerator := x2_frob I a in
    let norm := x2_mul I a numerator in
    if dbg && negb (feqb O (snd norm) (fzero O)) then None       (* debug_assert_eq!(norm[1], ZERO) *)
    else
      let denom_inv := finv O (fst norm) in
      Some (fmul O (fst numerator) denom_inv, fmul O (snd numerator) denom_inv).

  Definition q_div (dbg : bool) (a b : Q) : option Q :=
    match q_inv dbg b with Some ib => Some (q_mul a ib) | None => None end.

  (* FieldElement::exp_vartime (trait default): r = ONE; b = self; while p > 0 { if p&1 {r *= b}; p >>= 1; b = b.square() }
     (the squaring after the last bit is dead and omitted) *)
  Fixpoint q_exp_loop (r b : Q) (p : positive) : Q :=
    match p with
    | xH => q_mul r b
    | xO p' => q_exp_loop r (q_square b) p'
    | xI p' => q_exp_loop (q_mul r b) (q_square b) p'
    end.
  Definition q_exp (a : Q) (power : Z) : Q :=
    match power with
    | Zpos p => if q_eqb a q_zero then q_zero else q_exp_loop q_one a p
    | _ => q_one
    end.

  Definition q_base_element (a : Q) (i : nat) : option F :=
    match i with 0%nat => Some (fst a) | 1%nat => Some (snd a) | _ => None end.
  Definition q_to_base_elements (a : Q) : list F := [fst a; snd a].

  Definition q_slice_as_base (l : list Q) : list F := flat_map q_to_base_elements l.
  Fixpoint q_group (l : list F) : list Q :=
    match l with a :: b :: t => (a, b) :: q_group t | _ => [] end.
  Definition q_slice_from_base (l : list F) : option (list Q) :=
    if Nat.eqb (Nat.modulo (length l) 2) 0 then Some (q_group l) else None.   (* assert!(len % 2 == 0) *)
End Quad.

(* ---------- CubeExtension<B> ---------- *)
Section Cube.
  Context {F : Type} (O : FOps F) (I : Ext3Impl F).
  Local Notation C := (F * F * F)%type.
  Definition c0 (a : C) : F := fst (fst a).
  Definition c1 (a : C) : F := snd (fst a).
  Definition c2 (a : C) : F := snd a.

  Definition c_zero : C := (fzero O, fzero O, fzero O).
  Definition c_one : C := (fone O, fzero O, fzero O).
  Definition c_add (a b : C) : C := (fadd O (c0 a) (c0 b), fadd O (c1 a) (c1 b), fadd O (c2 a) (c2 b)).
  Definition c_sub (a b : C) : C := (fsub O (c0 a) (c0 b), fsub O (c1 a) (c1 b), fsub O (c2 a) (c2 b)).
  Definition c_neg (a : C) : C := (fneg O (c0 a), fneg O (c1 a), fneg O (c2 a)).
  Definition c_double (a : C) : C := (fdouble O (c0 a), fdouble O (c1 a), fdouble O (c2 a)).
  Definition c_mul (a b : C) : C := x3_mul I a b.
  Definition c_square (a : C) : C := x3_square I a.
  Definition c_mul_base (a : C) (b : F) : C := x3_mul_base I a b.
  Definition c_conjugate (a : C) : C := x3_frob I a.
  Definition c_from_base (b : F) : C := (b, fzero O, fzero O).
  Definition c_eqb (a b : C) : bool :=
    feqb O (c0 a) (c0 b) && feqb O (c1 a) (c1 b) && feqb O (c2 a) (c2 b).

  Definition c_numerator (a : C) : C := let k1 := x3_frob I a in let k2 := x3_frob I k1 in x3_mul I k1 k2.
  Definition c_norm (a : C) : C := x3_mul I a (c_numerator a).

  Definition c_inv (dbg : bool) (a : C) : option C :=
    if c_eqb a c_zero then Some a else
    let k1 := x3_frob I a in
    let k2 := x3_frob I k1 in
    let numerator := x3_mul I k1 k2 in
    let norm := x3_mul I a numerator in
    if dbg && negb (feqb O (c1 norm) (fzero O)) then None        (* debug_assert_eq!(norm[1], ZERO) *)
    else if dbg && negb (feqb O (c2 norm) (fzero O)) then None   (* debug_assert_eq!(norm[2], ZERO) *)
    else
      let denom_inv := finv O (c0 norm) in
      Some (fmul O (c0 numerator) denom_inv, fmul O (c1 numerator) denom_inv, fmul O (c2 numerator) denom_inv).

  Definition c_div (dbg : bool) (a b : C) : option C :=
    match c_inv dbg b with Some ib => Some (c_mul a ib) | None => None end.

  Fixpoint c_exp_loop (r b : C) (p : positive) : C :=
    match p with
    | xH => c_mul r b
    | xO p' => c_exp_loop r (c_square b) p'
    | xI p' => c_exp_loop (c_mul r b) (c_square b) p'
    end.
  Definition c_exp (a : C) (power : Z) : C :=
    match power with
    | Zpos p => if c_eqb a c_zero then c_zero else c_exp_loop c_one a p
    | _ => c_one
    end.

  Definition c_base_element (a : C) (i : nat) : option F :=
    match i with 0%nat => Some (c0 a) | 1%nat => Some (c1 a) | 2%nat => Some (c2 a) | _ => None end.
  Definition c_to_base_elements (a : C) : list F := [c0 a; c1 a; c2 a].

  Definition c_slice_as_base (l : list C) : list F := flat_map c_to_base_elements l.
  Fixpoint c_group (l : list F) : list C :=
    match l with a :: b :: c :: t => (a, b, c) :: c_group t | _ => [] end.
  Definition c_slice_from_base (l : list F) : option (list C) :=
    if Nat.eqb (Nat.modulo (length l) 3) 0 then Some (c_group l) else None.   (* assert!(len % 3 == 0) *)
End Cube.

(* ---------- serialization, over canonical residues (Z) ---------- *)
Section Serde.
  Variable p : Z.        (* base field modulus *)
  Variable nb : nat.     (* B::ELEMENT_BYTES: 8 (f64, f62) or 16 (f128) *)

  (* B::write_into: as_int().to_le_bytes() *)
  Definition base_write (v : Z) : list Z := to_le_bytes nb v.
  (* B::read_from: read_u64/read_u128 (None when fewer than nb bytes are left), reject value >= M *)
  Definition base_read (bs : list Z) : option (Z * list Z) :=
    if Nat.ltb (length bs) nb then None else
    let v := of_le_bytes (firstn nb bs) in
    if Z.leb p v then None else Some (v, skipn nb bs).

  Definition q_write (a : Z * Z) : list Z := base_write (fst a) ++ base_write (snd a).
  Definition q_read (bs : list Z) : option ((Z * Z) * list Z) :=
    match base_read bs with
    | Some (v0, r0) => match base_read r0 with Some (v1, r1) => Some ((v0, v1), r1) | None => None end
    | None => None
    end.
  (* TryFrom<&[u8]>: exact length, then read_from *)
  Definition q_try_from_bytes (bs : list Z) : option (Z * Z) :=
    if Nat.eqb (length bs) (2 * nb) then match q_read bs with Some (a, _) => Some a | None => None end else None.

  Definition c_write (a : Z * Z * Z) : list Z :=
    base_write (fst (fst a)) ++ base_write (snd (fst a)) ++ base_write (snd a).
  Definition c_read (bs : list Z) : option ((Z * Z * Z) * list Z) :=
    match base_read bs with
    | Some (v0, r0) =>
      match base_read r0 with
      | Some (v1, r1) => match base_read r1 with Some (v2, r2) => Some ((v0, v1, v2), r2) | None => None end
      | None => None
      end
    | None => None
    end.
  Definition c_try_from_bytes (bs : list Z) : option (Z * Z * Z) :=
    if Nat.eqb (length bs) (3 * nb) then match c_read bs with Some (a, _) => Some a | None => None end else None.
End Serde.
