(* C20 — the quadratic / cubic extension fields as `FOps` records over pairs / triples of base elements, built from
   C08's model of QuadExtension<B> / CubeExtension<B> (Model/ExtField.v over the generated ExtensibleField bodies),
   so that the generic polynomial models of Model/Polynom.v can be RUN over extension elements.
   `finv` is the release-profile inversion (no debug_assert), total: inv(0) = 0.  NO proofs here.
   Props/C20.v shows these records are the `q_ops` / `c_ops` for which C08 proves the field laws. *)
From Coq Require Import List ZArith Bool.
From VBase Require Import MachInt FieldOps ZpOps.
From VGen Require Import F64 F62 F128.
From VModel Require Import ExtField Polynom.

Section Ext.
Context {F : Type} (O : FOps F).

Definition quad_inv (I : Ext2Impl F) (a : F * F) : F * F :=
  match q_inv O I false a with Some x => x | None => q_zero O end.

Definition quad_ops (I : Ext2Impl F) : FOps (F * F) := {|
  fzero := q_zero O; fone := q_one O; fadd := q_add O; fsub := q_sub O; fmul := q_mul I; fneg := q_neg O;
  fdouble := q_double O; fsquare := q_square I; finv := quad_inv I;
  fdiv := fun a b => q_mul I a (quad_inv I b); feqb := q_eqb O; fofz := fun z => q_from_base O (fofz O z) |}.

Definition cube_inv (I : Ext3Impl F) (a : F * F * F) : F * F * F :=
  match c_inv O I false a with Some x => x | None => c_zero O end.

Definition cube_ops (I : Ext3Impl F) : FOps (F * F * F) := {|
  fzero := c_zero O; fone := c_one O; fadd := c_add O; fsub := c_sub O; fmul := c_mul I; fneg := c_neg O;
  fdouble := c_double O; fsquare := c_square I; finv := cube_inv I;
  fdiv := fun a b => c_mul I a (cube_inv I b); feqb := c_eqb O; fofz := fun z => c_from_base O (fofz O z) |}.
End Ext.

(* executable instances over canonical residues *)
Definition quad64_ops : FOps (Z * Z) := quad_ops (zp_ops P64) (f64_x2 (zp_ops P64)).
Definition quad62_ops : FOps (Z * Z) := quad_ops (zp_ops P62) (f62_x2 (zp_ops P62)).
Definition quad128_ops : FOps (Z * Z) := quad_ops (zp_ops P128) (f128_x2 (zp_ops P128)).
Definition cube64_ops : FOps (Z * Z * Z) := cube_ops (zp_ops P64) (f64_x3 (zp_ops P64)).
Definition cube62_ops : FOps (Z * Z * Z) := cube_ops (zp_ops P62) (f62_x3 (zp_ops P62)).

(* mixed instantiations of eval / mul_acc: base-field polynomial at an extension point, base values accumulated
   into extension values; E::from = q_from_base / c_from_base, mul_base = the ExtensibleField routine *)
Definition eval_mixed_quad {F} (O : FOps F) (I : Ext2Impl F) := eval_mixed (quad_ops O I) (q_from_base O).
Definition eval_many_mixed_quad {F} (O : FOps F) (I : Ext2Impl F) := eval_many_mixed (quad_ops O I) (q_from_base O).
Definition mul_acc_mixed_quad {F} (O : FOps F) (I : Ext2Impl F) := mul_acc_mixed (quad_ops O I) (q_mul_base I).
Definition eval_mixed_cube {F} (O : FOps F) (I : Ext3Impl F) := eval_mixed (cube_ops O I) (c_from_base O).
Definition eval_many_mixed_cube {F} (O : FOps F) (I : Ext3Impl F) := eval_many_mixed (cube_ops O I) (c_from_base O).
Definition mul_acc_mixed_cube {F} (O : FOps F) (I : Ext3Impl F) := mul_acc_mixed (cube_ops O I) (c_mul_base I).
