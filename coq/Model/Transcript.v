(* C04 — symbolic model of the Fiat–Shamir transcript of the STARK prover and verifier.

   The public coin (crypto/src/random/default.rs) is abstracted to a free term algebra: the seed is a
   [term] recording the exact sequence of absorptions that produced it,

       RandomCoin::new(elems)            seed := Seed elems          counter := 0
       reseed(data)                      seed := Reseed seed data    counter := 0
       draw::<E>()                       result CDraw seed counter   counter := counter + 1
       check_leading_zeros(v)            result CLz (Nonce seed v)   (state unchanged: &self)
       draw_integers(n, dom, nonce)      seed := Nonce seed nonce    result CInts seed   counter := n

   (a single `draw` may call `next()` several times — rejection sampling — so the real counter can run
   ahead of the number of draws; the value drawn is still a function of (seed, counter before the call),
   which is what [CDraw seed k] names: "the k-th draw since the last reseed".)

   The arguments are *symbols* naming proof components ([sym]); prover and verifier are written as
   EVENT GENERATORS from a proof [shape] to the list of coin operations each side performs, each draw
   tagged with the challenge it is used for ([chal]).  The two generators are written separately and
   mirror the two Rust call sequences:

     prover   = prover/src/lib.rs  Prover::generate_proof  (+ prover/src/channel.rs, fri/src/prover/mod.rs
                FriProver::build_layers / set_remainder)
     verifier = verifier/src/lib.rs verify / perform_verification (+ fri/src/verifier/mod.rs FriVerifier::new)

   Lagrange-kernel auxiliary column: the GKR sub-protocol is user code on both sides (Prover::generate_gkr_proof,
   GkrVerifier::verify); the model takes the NUMBER of elements it draws from the coin as a shape parameter and fixes
   its position (after the main-trace commitment, before the ordinary auxiliary randomness).  The GKR proof bytes
   themselves (proof.gkr_proof) are not absorbed by library code; absorbing them is up to the user's GKR code and is
   not modelled.  No proofs in this file.  *)
From Coq Require Import List Arith Bool ZArith.
From VBase Require Import MachInt.
Import ListNotations.

(* ------------------------------------------------------------------------------------------------
   Symbols: what can be fed to the coin. *)
Inductive sym : Type :=
| CtxElems                      (* proof.context.to_elements()        (prover: Context::new(..).to_elements()) *)
| PubInputs                     (* pub_inputs.to_elements() *)
| TraceCommitment (i : nat)     (* commitments: trace root of segment i (0 = main, 1 = auxiliary) *)
| ConstraintCommitment          (* commitments: root of the constraint composition tree *)
| HashOodTraceFrame             (* H::hash_elements(interleaved current/next rows of ood_frame.trace_states) *)
| HashOodConstraintEvals        (* H::hash_elements(ood_frame.evaluations) *)
| FriLayerCommitment (i : nat)  (* commitments: root of FRI layer i *)
| RemainderCommitment           (* commitments: last FRI entry (prover: hash_elements(remainder poly)) *)
| PowNonce.                     (* proof.pow_nonce *)

Definition sym_eqb (a b : sym) : bool :=
  match a, b with
  | CtxElems, CtxElems => true
  | PubInputs, PubInputs => true
  | TraceCommitment i, TraceCommitment j => Nat.eqb i j
  | ConstraintCommitment, ConstraintCommitment => true
  | HashOodTraceFrame, HashOodTraceFrame => true
  | HashOodConstraintEvals, HashOodConstraintEvals => true
  | FriLayerCommitment i, FriLayerCommitment j => Nat.eqb i j
  | RemainderCommitment, RemainderCommitment => true
  | PowNonce, PowNonce => true
  | _, _ => false
  end.

Fixpoint syms_eqb (a b : list sym) : bool :=
  match a, b with
  | [], [] => true
  | x :: a', y :: b' => sym_eqb x y && syms_eqb a' b'
  | _, _ => false
  end.

(* Seeds: the free term algebra of absorptions. *)
Inductive term : Type :=
| Seed (l : list sym)            (* H::hash_elements(l) *)
| Reseed (t : term) (d : sym)    (* H::merge(&[t, d]) *)
| Nonce (t : term) (n : sym).    (* H::merge_with_int(t, n) *)

(* the sequence of absorbed symbols, oldest first *)
Fixpoint hist (t : term) : list sym :=
  match t with
  | Seed l => l
  | Reseed t' d => hist t' ++ [d]
  | Nonce t' n => hist t' ++ [n]
  end.

(* Challenges (the uses of coin outputs). *)
Inductive chal : Type :=
| GkrRand (j : nat)              (* j-th element drawn by the GKR step (Lagrange-kernel randomness) *)
| AuxRand (j : nat)              (* j-th random element for building the auxiliary trace segment *)
| CompositionCoeff (j : nat)     (* j-th constraint composition coefficient (transition, then boundary) *)
| OodPoint                       (* z *)
| DeepCoeff (j : nat)            (* j-th DEEP composition coefficient (trace columns, then composition columns) *)
| FriAlpha (i : nat)             (* folding challenge of FRI layer i *)
| FriAlphaUnused                 (* verifier only: alpha drawn after the remainder commitment; layer_alphas[num_layers]
                                    is never read by FriVerifier::verify_generic (depth < num_fri_layers) *)
| PowCheck                       (* the proof-of-work test on merge_with_int(seed, nonce) *)
| QueryPositions.

Definition chal_eqb (a b : chal) : bool :=
  match a, b with
  | GkrRand i, GkrRand j => Nat.eqb i j
  | AuxRand i, AuxRand j => Nat.eqb i j
  | CompositionCoeff i, CompositionCoeff j => Nat.eqb i j
  | OodPoint, OodPoint => true
  | DeepCoeff i, DeepCoeff j => Nat.eqb i j
  | FriAlpha i, FriAlpha j => Nat.eqb i j
  | FriAlphaUnused, FriAlphaUnused => true
  | PowCheck, PowCheck => true
  | QueryPositions, QueryPositions => true
  | _, _ => false
  end.

(* Coin operations as observed through the RandomCoin trait. *)
Inductive event : Type :=
| EvNew (l : list sym)
| EvReseed (d : sym)
| EvDraw (k : nat) (deg : nat)       (* k-th draw since the last reseed, of an element of extension degree deg *)
| EvCheckPow (n : sym)
| EvDrawInts (n : sym) (num : nat).  (* draw_integers(num, lde_domain_size, n) *)

Definition step : Type := (event * option chal)%type.

(* ------------------------------------------------------------------------------------------------
   Proof shapes. *)
Record shape : Type := mkShape {
  sh_main_width : nat;       (* trace_info.main_trace_width() *)
  sh_aux_width : nat;        (* trace_info.aux_segment_width(); 0 = single segment *)
  sh_aux_rands : nat;        (* trace_info.get_num_aux_segment_rand_elements() *)
  sh_trans_main : nat;       (* context.num_main_transition_constraints() *)
  sh_trans_aux : nat;        (* context.num_aux_transition_constraints() *)
  sh_assert_main : nat;      (* num_main_assertions *)
  sh_assert_aux : nat;       (* num_aux_assertions *)
  sh_comp_cols : nat;        (* context.num_constraint_composition_columns() *)
  sh_ext_deg : nat;          (* 1 / 2 / 3: E::EXTENSION_DEGREE for options.field_extension() *)
  sh_fri_layers : nat;       (* options.to_fri_options().num_fri_layers(lde_domain_size) *)
  sh_grinding : nat;         (* options.grinding_factor() (0 = no proof of work demanded) *)
  sh_queries : nat;          (* options.num_queries() *)
  sh_lagrange : option (nat * nat)
                             (* context.has_lagrange_kernel_aux_column(): Some (g, l) with g = number of elements the GKR
                                step draws from the coin, l = trace_len().ilog2() *)
}.

Definition multi_segment (s : shape) : bool := negb (Nat.eqb (sh_aux_width s) 0).   (* TraceInfo::is_multi_segment *)
Definition num_trace_segments (s : shape) : nat := if multi_segment s then 2 else 1.
(* Air::get_constraint_composition_coefficients: num_transition_constraints() + num_assertions() draws
   (+ trace_len().ilog2() transition and 1 boundary coefficient for the Lagrange kernel column) *)
Definition n_gkr (s : shape) : nat := match sh_lagrange s with Some (g, _) => g | None => 0 end.
Definition n_comp (s : shape) : nat :=
  (sh_trans_main s + sh_trans_aux s) + (sh_assert_main s + sh_assert_aux s)
  + match sh_lagrange s with Some (_, l) => l + 1 | None => 0 end.
(* Air::get_deep_composition_coefficients: trace_info().width() + num_constraint_composition_columns() draws
   (+ 1 for the Lagrange kernel column) *)
Definition n_deep (s : shape) : nat :=
  (sh_main_width s + sh_aux_width s) + sh_comp_cols s + match sh_lagrange s with Some _ => 1 | None => 0 end.

Definition seed_syms : list sym := [CtxElems; PubInputs].

Definition reseed (d : sym) : step := (EvReseed d, None).
Definition draw1 (deg : nat) (k : nat) (c : chal) : step := (EvDraw k deg, Some c).
(* `for _ in 0..n { v.push(public_coin.draw()?) }` starting with the counter at 0 *)
Definition draws (deg : nat) (lab : nat -> chal) (n : nat) : list step :=
  map (fun j => draw1 deg j (lab j)) (seq 0 n).
(* the same loop when `from` draws have already been made since the last reseed *)
Definition draws_at (from : nat) (deg : nat) (lab : nat -> chal) (n : nat) : list step :=
  map (fun j => draw1 deg (from + j) (lab j)) (seq 0 n).

(* ------------------------------------------------------------------------------------------------
   The prover: Prover::generate_proof. *)

(* FriProver::build_layers: for _ in 0..num_fri_layers { build_layer: channel.commit_fri_layer(root);
   channel.draw_fri_alpha() }  *)
Fixpoint prover_fri_layers (deg : nat) (i n : nat) : list step :=
  match n with
  | O => []
  | S n' => reseed (FriLayerCommitment i) :: draw1 deg 0 (FriAlpha i) :: prover_fri_layers deg (S i) n'
  end.

Definition prover (s : shape) : list step :=
  let e := sh_ext_deg s in
  (* 0: ProverChannel::new: RandomCoin::new(context.to_elements() ++ pub_inputs_elements) *)
  [(EvNew seed_syms, None)]
  (* 1: commit_to_main_trace_segment -> channel.commit_trace(main_trace_root) *)
  ++ [reseed (TraceCommitment 0)]
  (*    if air.trace_info().is_multi_segment():
          if has_lagrange_kernel_aux_column(): generate_gkr_proof(&trace, channel.public_coin())   -- draws g elements
          get_aux_rand_elements; build_aux_trace; channel.commit_trace(aux root) *)
  ++ (if multi_segment s
      then (match sh_lagrange s with Some (g, _) => draws e GkrRand g | None => [] end)
           ++ draws_at (n_gkr s) e AuxRand (sh_aux_rands s) ++ [reseed (TraceCommitment 1)]
      else [])
  (* 2: channel.get_constraint_composition_coeffs() *)
  ++ draws e CompositionCoeff (n_comp s)
  (* 3: commit_to_constraint_evaluations -> channel.commit_constraints(root) *)
  ++ [reseed ConstraintCommitment]
  (* 4: z = channel.get_ood_point(); send_ood_trace_states; send_ood_constraint_evaluations; get_deep_composition_coeffs *)
  ++ [draw1 e 0 OodPoint]
  ++ [reseed HashOodTraceFrame]
  ++ [reseed HashOodConstraintEvals]
  ++ draws e DeepCoeff (n_deep s)
  (* 6: fri_prover.build_layers(channel, deep_evaluations); set_remainder -> commit_fri_layer(hash_elements(remainder)) *)
  ++ prover_fri_layers e 0 (sh_fri_layers s)
  ++ [reseed RemainderCommitment]
  (* 7: channel.grind_query_seed(): smallest nonce in 1.. with check_leading_zeros(nonce) >= grinding_factor — the
        successful probe is the event; channel.get_query_positions(): draw_integers(num_queries, lde, pow_nonce) *)
  ++ [(EvCheckPow PowNonce, Some PowCheck)]
  ++ [(EvDrawInts PowNonce (sh_queries s), Some QueryPositions)].

(* ------------------------------------------------------------------------------------------------
   The verifier: verify + perform_verification. *)

(* FriVerifier::new: for (depth, commitment) in layer_commitments.iter().enumerate() { reseed(commitment); alpha = draw() }
   where layer_commitments = channel.read_fri_layer_commitments() has num_fri_layers + 1 entries (Commitments::parse),
   the last being the remainder commitment.  verify_generic reads layer_alphas[depth] only for depth < num_fri_layers. *)
Definition fri_roots (layers : nat) : list sym := map FriLayerCommitment (seq 0 layers) ++ [RemainderCommitment].

Fixpoint verifier_fri_new (deg : nat) (layers : nat) (depth : nat) (roots : list sym) : list step :=
  match roots with
  | [] => []
  | c :: rest =>
      reseed c :: draw1 deg 0 (if Nat.ltb depth layers then FriAlpha depth else FriAlphaUnused)
      :: verifier_fri_new deg layers (S depth) rest
  end.

Definition verifier (s : shape) : list step :=
  let e := sh_ext_deg s in
  (* verify(): public_coin_seed = proof.context.to_elements() ++ pub_inputs.to_elements(); RandCoin::new(&seed) *)
  [(EvNew seed_syms, None)]
  (* 1: public_coin.reseed(trace_commitments[MAIN_TRACE_IDX]) *)
  ++ [reseed (TraceCommitment 0)]
  (*    if is_multi_segment:
          if has_lagrange_kernel_aux_column: gkr verifier .verify(gkr_proof, coin); rand_elements = get_aux_rand_elements(coin);
                                             coin.reseed(trace_commitments[AUX_TRACE_IDX])
          else:                              rand_elements = get_aux_rand_elements(coin); coin.reseed(trace_commitments[AUX_TRACE_IDX]) *)
  ++ (if multi_segment s
      then match sh_lagrange s with
           | Some (g, _) => draws e GkrRand g ++ draws_at g e AuxRand (sh_aux_rands s) ++ [reseed (TraceCommitment 1)]
           | None => draws e AuxRand (sh_aux_rands s) ++ [reseed (TraceCommitment 1)]
           end
      else [])
  (*    constraint_coeffs = air.get_constraint_composition_coefficients(coin) *)
  ++ draws e CompositionCoeff (n_comp s)
  (* 2: reseed(constraint_commitment); z = draw() *)
  ++ [reseed ConstraintCommitment]
  ++ [draw1 e 0 OodPoint]
  (* 3: reseed(ood_trace_frame.hash()); reseed(hash_elements(ood_constraint_evaluations)) *)
  ++ [reseed HashOodTraceFrame]
  ++ [reseed HashOodConstraintEvals]
  (* 4: deep_coefficients; FriVerifier::new *)
  ++ draws e DeepCoeff (n_deep s)
  ++ verifier_fri_new e (sh_fri_layers s) 0 (fri_roots (sh_fri_layers s))
  (* 5: check_leading_zeros(pow_nonce) < grinding_factor -> reject; draw_integers(num_queries, lde, pow_nonce) *)
  ++ [(EvCheckPow PowNonce, Some PowCheck)]
  ++ [(EvDrawInts PowNonce (sh_queries s), Some QueryPositions)].

(* ------------------------------------------------------------------------------------------------
   Symbolic execution of an event list. *)
Record cstate : Type := mkCs { cs_seed : term; cs_ctr : nat }.

Inductive cval : Type :=
| CDraw (t : term) (k : nat)     (* k-th element drawn from seed t *)
| CLz (t : term)                 (* trailing-zero count of the head of t  (t = Nonce seed n) *)
| CInts (t : term).              (* integers drawn from seed t            (t = Nonce seed n) *)

Definition cval_term (v : cval) : term :=
  match v with CDraw t _ => t | CLz t => t | CInts t => t end.

(* state before RandomCoin::new: no coin exists; [Seed []] is a placeholder that no well-formed list observes *)
Definition cs_init : cstate := mkCs (Seed []) 0.

Definition exec1 (st : cstate) (e : event) : cstate :=
  match e with
  | EvNew l => mkCs (Seed l) 0
  | EvReseed d => mkCs (Reseed (cs_seed st) d) 0
  | EvDraw _ _ => mkCs (cs_seed st) (S (cs_ctr st))
  | EvCheckPow _ => st
  | EvDrawInts n num => mkCs (Nonce (cs_seed st) n) num
  end.

Definition out1 (st : cstate) (e : event) : option cval :=
  match e with
  | EvNew _ | EvReseed _ => None
  | EvDraw _ _ => Some (CDraw (cs_seed st) (cs_ctr st))
  | EvCheckPow n => Some (CLz (Nonce (cs_seed st) n))
  | EvDrawInts n _ => Some (CInts (Nonce (cs_seed st) n))
  end.

Fixpoint exec (st : cstate) (l : list step) : cstate :=
  match l with [] => st | (e, _) :: r => exec (exec1 st e) r end.

(* the challenges with the symbolic value each one gets *)
Fixpoint run (st : cstate) (l : list step) : list (chal * cval) :=
  match l with
  | [] => []
  | (e, lab) :: r =>
      match lab, out1 st e with
      | Some c, Some v => (c, v) :: run (exec1 st e) r
      | _, _ => run (exec1 st e) r
      end
  end.

(* the absorbed symbols of an event list, in order (seed elements, reseed data, the nonce of draw_integers) *)
Definition absorbed1 (e : event) : list sym :=
  match e with
  | EvNew l => l
  | EvReseed d => [d]
  | EvDrawInts n _ => [n]
  | EvDraw _ _ | EvCheckPow _ => []
  end.
Definition absorbs (l : list step) : list sym := flat_map (fun x => absorbed1 (fst x)) l.

(* every EvDraw carries the number of draws since the last reseed / new / draw_integers *)
Fixpoint counters_ok (ctr : nat) (l : list event) : bool :=
  match l with
  | [] => true
  | EvDraw k _ :: r => Nat.eqb k ctr && counters_ok (S ctr) r
  | EvNew _ :: r | EvReseed _ :: r => counters_ok 0 r
  | EvCheckPow _ :: r => counters_ok ctr r
  | EvDrawInts _ num :: r => counters_ok num r
  end.

(* ------------------------------------------------------------------------------------------------
   The protocol's requirement, stated independently of the generators: which messages must have been
   absorbed, in which order, before each challenge is derived. *)
Definition trace_msgs (s : shape) : list sym :=
  TraceCommitment 0 :: (if multi_segment s then [TraceCommitment 1] else []).
Definition fri_msgs (n : nat) : list sym := map FriLayerCommitment (seq 0 n).
Definition upto_deep (s : shape) : list sym :=
  seed_syms ++ trace_msgs s ++ [ConstraintCommitment; HashOodTraceFrame; HashOodConstraintEvals].

Definition msgs_before (s : shape) (c : chal) : list sym :=
  match c with
  | GkrRand _ => seed_syms ++ [TraceCommitment 0]
  | AuxRand _ => seed_syms ++ [TraceCommitment 0]
  | CompositionCoeff _ => seed_syms ++ trace_msgs s
  | OodPoint => seed_syms ++ trace_msgs s ++ [ConstraintCommitment]
  | DeepCoeff _ => upto_deep s
  | FriAlpha i => upto_deep s ++ fri_msgs (S i)
  | FriAlphaUnused => upto_deep s ++ fri_msgs (sh_fri_layers s) ++ [RemainderCommitment]
  | PowCheck => upto_deep s ++ fri_msgs (sh_fri_layers s) ++ [RemainderCommitment; PowNonce]
  | QueryPositions => upto_deep s ++ fri_msgs (sh_fri_layers s) ++ [RemainderCommitment; PowNonce]
  end.

(* the challenges each side must derive, in order *)
Definition challenges (verifier_side : bool) (s : shape) : list chal :=
  (if multi_segment s then map GkrRand (seq 0 (n_gkr s)) ++ map AuxRand (seq 0 (sh_aux_rands s)) else [])
  ++ map CompositionCoeff (seq 0 (n_comp s))
  ++ [OodPoint]
  ++ map DeepCoeff (seq 0 (n_deep s))
  ++ map FriAlpha (seq 0 (sh_fri_layers s))
  ++ (if verifier_side then [FriAlphaUnused] else [])
  ++ [PowCheck; QueryPositions].

Definition used (c : chal) : bool := negb (chal_eqb c FriAlphaUnused).

(* decision procedure for the dependency requirement on an arbitrary labelled event list *)
Definition depends_ok (s : shape) (l : list step) : bool :=
  forallb (fun cv => syms_eqb (hist (cval_term (snd cv))) (msgs_before s (fst cv))) (run cs_init l).

(* Labelling an observed (unlabelled) event list: the i-th draw is used as the i-th challenge of the side's list of
   drawn challenges; check_leading_zeros is the PoW check, draw_integers the query positions.  Draws beyond the
   expected number get no label and make [log_ok] fail. *)
Definition drawn_challenges (verifier_side : bool) (s : shape) : list chal :=
  filter (fun c => negb (chal_eqb c PowCheck || chal_eqb c QueryPositions)) (challenges verifier_side s).

Fixpoint label (labs : list chal) (l : list event) : list step :=
  match l with
  | [] => []
  | EvDraw k d :: r =>
      match labs with
      | c :: labs' => (EvDraw k d, Some c) :: label labs' r
      | [] => (EvDraw k d, None) :: label [] r
      end
  | EvCheckPow n :: r => (EvCheckPow n, Some PowCheck) :: label labs r
  | EvDrawInts n num :: r => (EvDrawInts n num, Some QueryPositions) :: label labs r
  | e :: r => (e, None) :: label labs r
  end.

Definition is_draw (e : event) : bool := match e with EvDraw _ _ => true | _ => false end.

Fixpoint chals_eqb (a b : list chal) : bool :=
  match a, b with
  | [], [] => true
  | x :: a', y :: b' => chal_eqb x y && chals_eqb a' b'
  | _, _ => false
  end.

(* An observed log satisfies the property for shape s iff: it starts with `new`, the draw counters are consistent,
   the challenges derived are exactly those the side needs, and each one has absorbed exactly the messages the
   protocol places before it. *)
Definition log_ok (verifier_side : bool) (s : shape) (l : list event) : bool :=
  let ls := label (drawn_challenges verifier_side s) l in
  match l with EvNew _ :: _ => true | _ => false end
  && counters_ok 0 l
  && chals_eqb (map fst (run cs_init ls)) (challenges verifier_side s)
  && depends_ok s ls.

(* Observed USES of drawn values (the harness' GKR step and AIR report which values they were handed): an observed use
   must agree with the purpose the protocol gives to that draw. *)
Inductive use : Type := UseGkr | UseAux | UseUnobserved.

Fixpoint uses_ok (ls : list step) (us : list use) : bool :=
  match ls, us with
  | [], [] => true
  | (_, lab) :: r, u :: ur =>
      match u, lab with
      | UseUnobserved, _ => true
      | UseGkr, Some (GkrRand _) => true
      | UseAux, Some (AuxRand _) => true
      | _, _ => false
      end && uses_ok r ur
  | _, _ => false
  end.

Definition log_ok_uses (verifier_side : bool) (s : shape) (l : list event) (us : list use) : bool :=
  log_ok verifier_side s l && uses_ok (label (drawn_challenges verifier_side s) l) us.

(* ------------------------------------------------------------------------------------------------
   Where each absorbed symbol lives in the serialized proof (air/src/proof/mod.rs Proof). *)
Inductive slot : Type :=
| SlotContext                 (* proof.context *)
| SlotExternalInputs          (* the pub_inputs argument of verify() *)
| SlotCommitment (n : nat)    (* n-th digest of proof.commitments (Commitments::parse order: trace, constraint, FRI) *)
| SlotOodTraceStates          (* proof.ood_frame.trace_states   (absorbed through H::hash_elements) *)
| SlotOodEvaluations          (* proof.ood_frame.evaluations    (absorbed through H::hash_elements) *)
| SlotPowNonce.               (* proof.pow_nonce *)

Definition proof_slot (s : shape) (d : sym) : slot :=
  let nseg := num_trace_segments s in
  match d with
  | CtxElems => SlotContext
  | PubInputs => SlotExternalInputs
  | TraceCommitment i => SlotCommitment i
  | ConstraintCommitment => SlotCommitment nseg
  | HashOodTraceFrame => SlotOodTraceStates
  | HashOodConstraintEvals => SlotOodEvaluations
  | FriLayerCommitment i => SlotCommitment (nseg + 1 + i)
  | RemainderCommitment => SlotCommitment (nseg + 1 + sh_fri_layers s)
  | PowNonce => SlotPowNonce
  end.

(* all digests of proof.commitments: Commitments::parse(num_trace_segments, num_fri_layers) reads exactly
   num_trace_segments + 1 + (num_fri_layers + 1) digests and rejects leftovers *)
Definition num_commitments (s : shape) : nat := num_trace_segments s + 1 + (sh_fri_layers s + 1).

(* the slots in the order the protocol sends them *)
Definition slots_in_order (s : shape) : list slot :=
  let nseg := num_trace_segments s in
  [SlotContext; SlotExternalInputs]
  ++ map SlotCommitment (seq 0 nseg)
  ++ [SlotCommitment nseg; SlotOodTraceStates; SlotOodEvaluations]
  ++ map SlotCommitment (seq (nseg + 1) (sh_fri_layers s + 1))
  ++ [SlotPowNonce].

(* ------------------------------------------------------------------------------------------------
   Arithmetic model of the seed encodings (air/src/options.rs, air/src/air/trace_info.rs, air/src/proof/context.rs
   `to_elements`).  Elements are given as the integers passed to E::from(u32) / E::from_bytes_with_padding; all are
   < 2^32 resp. < 256^(ELEMENT_BYTES-1) < modulus for f64 / f62 / f128, so the map to field elements is injective. *)
Open Scope Z_scope.

Record options : Type := mkOpts {
  o_queries : Z; o_blowup : Z; o_grinding : Z; o_ext : Z (* FieldExtension as u8: 1,2,3 *); o_fold : Z; o_rem : Z }.

(* u32: buf = ext; buf = (buf << 8) | fold; buf = (buf << 8) | rem *)
Definition shl8_or (buf x : Z) : Z := Z.lor (shl 32 buf 8) x.
Definition options_elems (o : options) : list Z :=
  [shl8_or (shl8_or (o_ext o) (o_fold o)) (o_rem o); o_grinding o; o_blowup o; o_queries o].

Record trace_info : Type := mkTi {
  ti_main : Z; ti_aux : Z; ti_rands : Z; ti_len : Z; ti_meta : list Z }.

(* slice::chunks(n) *)
Fixpoint chunks_fuel (fuel : nat) (n : nat) (l : list Z) : list (list Z) :=
  match fuel with
  | O => []
  | S f => match l with [] => [] | _ => firstn n l :: chunks_fuel f n (skipn n l) end
  end.
Definition chunks (n : nat) (l : list Z) : list (list Z) := chunks_fuel (length l) n l.

(* eb = E::ELEMENT_BYTES (8 for f64/f62, 16 for f128); `trace_length as u32` truncates *)
Definition trace_info_elems (eb : nat) (t : trace_info) : list Z :=
  let naux := if 0 <? ti_aux t then 1 else 0 in
  let buf0 := shl8_or (ti_main t) naux in
  let buf := if naux =? 1 then shl8_or (shl8_or buf0 (ti_aux t)) (ti_rands t) else buf0 in
  [buf; wrap 32 (ti_len t)] ++ map of_le_bytes (chunks (eb - 1) (ti_meta t)).

Record context : Type := mkCtx { c_ti : trace_info; c_modulus : list Z; c_opts : options }.

Definition context_elems (eb : nat) (c : context) : list Z :=
  let nb := length (c_modulus c) in
  trace_info_elems eb (c_ti c)
  ++ [of_le_bytes (firstn (Nat.div nb 2) (c_modulus c)); of_le_bytes (skipn (Nat.div nb 2) (c_modulus c))]
  ++ options_elems (c_opts c).
