(* C03 — the STARK verifier at the level of proof COMPONENTS: which component is absorbed into the public
   coin, hashed into leaves, authenticated against which commitment, compared with what, and consumed by
   arithmetic — in the order in which verifier/src/lib.rs (verify, perform_verification),
   verifier/src/channel.rs (VerifierChannel::new, read_queried_trace_states, read_constraint_evaluations),
   air/src/proof/{commitments,queries,ood_frame}.rs, fri/src/proof.rs (parse_layers, parse_remainder) and
   fri/src/verifier/{mod,channel}.rs (FriVerifier::new, verify_generic, read_layer_queries) do it.

   The verifier is an EVENT GENERATOR from a proof SHAPE to the event list of an accepting run (every
   comparison succeeds).  No values, no proofs in this file (Proofs/Integrity*.v).

   Scope: AIRs without a Lagrange-kernel column (no GKR sub-protocol), at most one auxiliary segment (all
   that TraceInfo can describe).  The [variant] records which of the integrity checks found missing by
   the C03/C05 falsifiers are present; [current] is /repo's working tree.  *)
From Coq Require Import List Arith Bool.
Import ListNotations.

(* ------------------------------------------------------------------------------------------------
   Components of a proof (decoded content) and the two inputs that are not part of it. *)
Inductive comp : Type :=
| Context                        (* proof.context: trace info (incl. metadata), field modulus, options *)
| PubInputs                      (* not proof content: the statement *)
| NumQueries                     (* proof.num_unique_queries *)
| TraceRoot (i : nat)            (* commitments: root of trace segment i (0 main, 1 auxiliary) *)
| ConstraintRoot                 (* commitments: root of the constraint composition tree *)
| FriRoot (i : nat)              (* commitments: root of FRI layer i *)
| RemainderRoot                  (* commitments: the last FRI entry, hash_elements(remainder) *)
| TraceRows (i : nat)            (* trace_queries[i].values: the opened rows of segment i *)
| TracePaths (i : nat)           (* trace_queries[i].paths: internal nodes of the batch Merkle proof *)
| ConstraintRows                 (* constraint_queries.values *)
| ConstraintPaths                (* constraint_queries.paths *)
| OodTrace                       (* ood_frame.trace_states: frame-size byte + interleaved current/next row *)
| OodLagrange                    (* ood_frame.lagrange_kernel_trace_states (frame-size byte 0 in scope) *)
| OodEvals                       (* ood_frame.evaluations *)
| FriLayerCount                  (* fri_proof: number of layers *)
| FriRows (i : nat)              (* fri_proof.layers[i].values *)
| FriPaths (i : nat)             (* fri_proof.layers[i].paths *)
| Remainder                      (* fri_proof.remainder *)
| NumPartitions                  (* fri_proof.num_partitions: layout-only metadata *)
| PowNonce                       (* proof.pow_nonce *)
| GkrProof.                      (* proof.gkr_proof *)

Definition comp_eqb (a b : comp) : bool :=
  match a, b with
  | Context, Context | PubInputs, PubInputs | NumQueries, NumQueries | ConstraintRoot, ConstraintRoot
  | RemainderRoot, RemainderRoot | ConstraintRows, ConstraintRows | ConstraintPaths, ConstraintPaths
  | OodTrace, OodTrace | OodLagrange, OodLagrange | OodEvals, OodEvals | FriLayerCount, FriLayerCount
  | Remainder, Remainder | NumPartitions, NumPartitions | PowNonce, PowNonce | GkrProof, GkrProof => true
  | TraceRoot i, TraceRoot j | FriRoot i, FriRoot j | TraceRows i, TraceRows j | TracePaths i, TracePaths j
  | FriRows i, FriRows j | FriPaths i, FriPaths j => Nat.eqb i j
  | _, _ => false
  end.

Fixpoint mem (c : comp) (l : list comp) : bool :=
  match l with [] => false | x :: r => comp_eqb c x || mem c r end.

(* Byte containers with their own parser (for the trailing-bytes policy). *)
Inductive blob : Type :=
| BProof                          (* Proof::from_bytes *)
| BCommitments                    (* Commitments::parse *)
| BTraceValues (i : nat) | BTracePaths (i : nat)          (* Queries::parse *)
| BConstraintValues | BConstraintPaths
| BOodTrace | BOodLagrange | BOodEvals                     (* OodFrame::parse *)
| BFriValues (i : nat) | BFriPaths (i : nat)               (* FriProofLayer::parse *)
| BRemainder.                                              (* FriProof::parse_remainder *)

(* What is fed to the coin. *)
Inductive aterm : Type :=
| Raw (c : comp)                  (* reseed(c): c is a digest carried by the proof *)
| HashOf (cs : list comp)         (* reseed(H::hash_elements(elements of cs)) *)
| SeedOf (cs : list comp).        (* RandomCoin::new(elements of cs) *)

Definition comps_of (t : aterm) : list comp :=
  match t with Raw c => [c] | HashOf cs => cs | SeedOf cs => cs end.

Inductive chal : Type := AuxRand | CompCoeff | OodPoint | DeepCoeff | FriAlpha (i : nat) | FriAlphaUnused.

(* Comparisons whose failure rejects.  [Compare k lhs rhs]: a value recomputed from the components [lhs]
   is compared with a value carried by / derived from [rhs]. *)
Inductive ckind : Type :=
| CkAbsent            (* lhs = [GkrProof] must be None for the trace layout given by rhs = [Context] *)
| CkCount             (* lhs = [FriLayerCount] equals options.num_fri_layers(lde) (rhs = [Context]) *)
| CkLen               (* lhs = [NumQueries] * row size = byte length of rhs = [TraceRows 0] (Queries::parse) *)
| CkOod               (* constraints evaluated over lhs = [OodTrace] at z  =  combination of rhs = [OodEvals] *)
| CkFold (i : nat)    (* evaluations carried into FRI layer i (from lhs) = the values opened in rhs = [FriRows i] *)
| CkRemainderCommit   (* hash_elements(lhs = [Remainder]) = rhs = [RemainderRoot] *)
| CkRemainderEval.    (* lhs = [Remainder] evaluated at the folded positions = evaluations from rhs *)

Inductive event : Type :=
| Parse (b : blob) (exact : bool)        (* b is parsed; exact = bytes left over are an error *)
| Absorb (t : aterm)
| Draw (k : chal) (n : nat)              (* n consecutive draws *)
| CheckPow                               (* check_leading_zeros(PowNonce) >= grinding factor *)
| DrawPositions                          (* draw_integers(.., PowNonce): merge_with_int(seed, nonce), draws; sort; dedup *)
| HashLeaves (c : comp) (n : nat)        (* n rows of c hashed into leaves (hash_elements per row) *)
| HashWhole (cs : list comp)             (* hash_elements over all elements of cs *)
| AuthCheck (rows paths root : comp)     (* MerkleTree::verify_batch(root, positions, {leaves of rows, paths}) *)
| Compare (k : ckind) (lhs rhs : list comp)
| Use (c : comp).                        (* arithmetic / control flow consumes c *)

(* ------------------------------------------------------------------------------------------------
   Shapes and variants. *)
Record shape : Type := mkShape {
  sh_aux : bool;                 (* trace_info.is_multi_segment() *)
  sh_aux_rands : nat;            (* number of random elements drawn for the auxiliary segment *)
  sh_n_comp : nat;               (* constraint composition coefficients: #transition constraints + #assertions *)
  sh_n_deep : nat;               (* DEEP coefficients: trace width + #composition columns *)
  sh_layers : nat;               (* options.to_fri_options().num_fri_layers(lde_domain_size) *)
  sh_fri_rows : list nat;        (* rows of each FRI layer PRESENT IN THE PROOF *)
  sh_queries : nat;              (* num_unique_queries *)
  sh_grinding : nat              (* grinding factor (0 = no proof of work demanded; the check is always made) *)
}.

Record variant : Type := mkVariant {
  v_gkr_check : bool;            (* fixes/c03-gkr-proof-presence *)
  v_layer_count_check : bool;    (* fixes/c03-fri-layer-count *)
  v_remainder_check : bool;      (* fixes/c05-fri-remainder-commitment-check *)
  v_lagrange_exact : bool        (* fixes/c03-ood-lagrange-trailing-bytes *)
}.

Definition segments (s : shape) : nat := if sh_aux s then 2 else 1.

(* ------------------------------------------------------------------------------------------------
   Step 0 (outside verify()): Proof::from_bytes = read_from + nothing: bytes after the proof are ignored. *)
Definition decode_events : list event := [Parse BProof false].

(* ------------------------------------------------------------------------------------------------
   VerifierChannel::new. *)

(* Queries::parse: Table::from_bytes(values, num_queries, width) after the length check; hash every row;
   BatchMerkleProof::deserialize(paths) + has_more_bytes *)
Definition parse_trace_segment (q i : nat) : list event :=
  [Parse (BTraceValues i) true; HashLeaves (TraceRows i) q; Parse (BTracePaths i) true].

Fixpoint parse_trace_segments (q i n : nat) : list event :=
  match n with O => [] | S n' => parse_trace_segment q i ++ parse_trace_segments q (S i) n' end.

(* FriProof::parse_layers: every layer found in the proof *)
Fixpoint parse_fri_layers (i : nat) (rows : list nat) : list event :=
  match rows with
  | [] => []
  | r :: rest => [Parse (BFriValues i) true; HashLeaves (FriRows i) r; Parse (BFriPaths i) true] ++ parse_fri_layers (S i) rest
  end.

Definition channel_new (v : variant) (s : shape) : list event :=
  (if v_gkr_check v then [Compare CkAbsent [GkrProof] [Context]] else [])
  ++ [Parse BCommitments true]
  ++ [Use NumQueries; Compare CkLen [NumQueries] [TraceRows 0]]
  ++ parse_trace_segments (sh_queries s) 0 (segments s)
  ++ [Parse BConstraintValues true; HashLeaves ConstraintRows (sh_queries s); Parse BConstraintPaths true]
  ++ (if v_layer_count_check v then [Compare CkCount [FriLayerCount] [Context]] else [])
  ++ [Parse BRemainder true]
  ++ parse_fri_layers 0 (sh_fri_rows s)
  ++ [Parse BOodLagrange (v_lagrange_exact v); Parse BOodTrace true; Parse BOodEvals true].

(* ------------------------------------------------------------------------------------------------
   perform_verification up to the query positions. *)
Definition ood_frame : list comp := [OodTrace; OodLagrange].

(* FriVerifier::new: for every commitment (layers, then the remainder commitment): reseed, draw alpha *)
Fixpoint fri_commit (i n : nat) : list event :=
  match n with
  | O => [Absorb (Raw RemainderRoot); Draw FriAlphaUnused 1]
  | S n' => Absorb (Raw (FriRoot i)) :: Draw (FriAlpha i) 1 :: fri_commit (S i) n'
  end.

Definition commit_head (s : shape) : list event :=
  [Absorb (Raw (TraceRoot 0))]
  ++ (if sh_aux s then [Draw AuxRand (sh_aux_rands s); Absorb (Raw (TraceRoot 1))] else [])
  ++ [Draw CompCoeff (sh_n_comp s)]
  ++ [Absorb (Raw ConstraintRoot); Draw OodPoint 1]
  (* evaluate_constraints over the OOD frame happens BEFORE the frame is absorbed; its result is compared
     only after both OOD reseeds *)
  ++ [Use OodTrace; HashWhole ood_frame; Absorb (HashOf ood_frame)]
  ++ [Use OodEvals; HashWhole [OodEvals]; Absorb (HashOf [OodEvals])]
  ++ [Compare CkOod [OodTrace] [OodEvals]]
  ++ [Draw DeepCoeff (sh_n_deep s)]
  ++ fri_commit 0 (sh_layers s).

(* read_pow_nonce; check_leading_zeros; draw_integers; sort_unstable; dedup *)
Definition draw_phase : list event := [CheckPow; DrawPositions].

(* ------------------------------------------------------------------------------------------------
   Query phase. *)
Definition auth_trace (i : nat) : event := AuthCheck (TraceRows i) (TracePaths i) (TraceRoot i).

Definition deep_sources (s : shape) : list comp :=
  [TraceRows 0] ++ (if sh_aux s then [TraceRows 1] else []) ++ [OodTrace; ConstraintRows; OodEvals].

(* what the evaluations entering FRI layer i were computed from *)
Definition fold_sources (s : shape) (i : nat) : list comp :=
  match i with O => deep_sources s | S j => [FriRows j] end.

(* verify_generic, one iteration of `for depth in 0..num_fri_layers` *)
Definition fri_layer (s : shape) (i : nat) : list event :=
  [Use NumPartitions;                                       (* map_positions_to_indexes *)
   AuthCheck (FriRows i) (FriPaths i) (FriRoot i);          (* read_layer_queries: verify_batch *)
   Compare (CkFold i) (fold_sources s i) [FriRows i];       (* evaluations != query_values -> InvalidLayerFolding *)
   Use (FriRows i)].                                        (* interpolate_batch, eval at alpha *)

Fixpoint fri_layers (s : shape) (i n : nat) : list event :=
  match n with O => [] | S n' => fri_layer s i ++ fri_layers s (S i) n' end.

Definition remainder_phase (v : variant) (s : shape) : list event :=
  (if v_remainder_check v then [HashWhole [Remainder]; Compare CkRemainderCommit [Remainder] [RemainderRoot]] else [])
  ++ [Use Remainder; Compare CkRemainderEval [Remainder] (fold_sources s (sh_layers s))].

Definition query_phase (v : variant) (s : shape) : list event :=
  [auth_trace 0] ++ (if sh_aux s then [auth_trace 1] else [])
  ++ [AuthCheck ConstraintRows ConstraintPaths ConstraintRoot]
  (* DeepComposer: compose_trace_columns, compose_constraint_evaluations, combine_compositions *)
  ++ [Use (TraceRows 0)] ++ (if sh_aux s then [Use (TraceRows 1)] else [])
  ++ [Use OodTrace; Use ConstraintRows; Use OodEvals]
  ++ fri_layers s 0 (sh_layers s)
  ++ remainder_phase v s.

(* verify(): field check, AcceptableOptions::validate, Air::new all read the context before the coin exists *)
Definition head (v : variant) (s : shape) : list event :=
  [Use Context; Absorb (SeedOf [Context; PubInputs])] ++ channel_new v s ++ commit_head s.

Definition events (v : variant) (s : shape) : list event :=
  head v s ++ draw_phase ++ query_phase v s.

(* Shapes of proofs that can be accepted: with the layer-count check the proof has exactly the layers the
   options imply; without it at least as many (fewer: Vec::remove(0) panics). *)
Definition admissible (v : variant) (s : shape) : bool :=
  if v_layer_count_check v then Nat.eqb (length (sh_fri_rows s)) (sh_layers s)
  else Nat.leb (sh_layers s) (length (sh_fri_rows s)).

Definition current : variant := mkVariant true true true true.
Definition unrepaired : variant := mkVariant false false false false.

(* ------------------------------------------------------------------------------------------------
   The decoded content of a proof of a given shape. *)
Fixpoint fri_layer_comps (i n : nat) : list comp :=
  match n with O => [] | S n' => FriRows i :: FriPaths i :: fri_layer_comps (S i) n' end.

Fixpoint fri_root_comps (i n : nat) : list comp :=
  match n with O => [] | S n' => FriRoot i :: fri_root_comps (S i) n' end.

Definition proof_components (s : shape) : list comp :=
  [Context; NumQueries; TraceRoot 0] ++ (if sh_aux s then [TraceRoot 1] else [])
  ++ [ConstraintRoot] ++ fri_root_comps 0 (sh_layers s) ++ [RemainderRoot]
  ++ [TraceRows 0; TracePaths 0] ++ (if sh_aux s then [TraceRows 1; TracePaths 1] else [])
  ++ [ConstraintRows; ConstraintPaths; OodTrace; OodLagrange; OodEvals; FriLayerCount]
  ++ fri_layer_comps 0 (length (sh_fri_rows s))
  ++ [Remainder; NumPartitions; PowNonce; GkrProof].

(* layout-only metadata, exactly *)
Definition layout_only (c : comp) : bool := match c with NumPartitions => true | _ => false end.

(* data opened at the query positions (and the remainder, which is checked at them) *)
Definition query_data (c : comp) : bool :=
  match c with TraceRows _ | ConstraintRows | FriRows _ | Remainder => true | _ => false end.

(* ------------------------------------------------------------------------------------------------
   A checker run over an event list: the state records what has been absorbed, hashed, authenticated and
   compared so far; [step] returns false when an event violates the discipline
     - Absorb only before DrawPositions; DrawPositions at most once;
     - AuthCheck only after DrawPositions, against an absorbed root, of rows hashed into leaves before;
     - Compare CkRemainderCommit against an absorbed commitment, of a hashed remainder;
     - Use of query data only after DrawPositions and after its authentication.  *)
Record cstate : Type := mkState {
  st_absorbed : list comp;
  st_hashed : list comp;
  st_authed : list comp;
  st_drawn : bool
}.

Definition st0 : cstate := mkState [] [] [] false.

Definition injective_kind (k : ckind) : bool :=
  match k with CkAbsent | CkCount | CkLen | CkRemainderCommit => true | _ => false end.

Definition step (st : cstate) (e : event) : bool * cstate :=
  match e with
  | Absorb t => (negb (st_drawn st), mkState (comps_of t ++ st_absorbed st) (st_hashed st) (st_authed st) (st_drawn st))
  | DrawPositions => (negb (st_drawn st), mkState (PowNonce :: st_absorbed st) (st_hashed st) (st_authed st) true)
  | HashLeaves c _ => (true, mkState (st_absorbed st) (c :: st_hashed st) (st_authed st) (st_drawn st))
  | HashWhole cs => (true, mkState (st_absorbed st) (cs ++ st_hashed st) (st_authed st) (st_drawn st))
  | AuthCheck r p root =>
      (st_drawn st && mem root (st_absorbed st) && mem r (st_hashed st),
       mkState (st_absorbed st) (st_hashed st) (r :: p :: st_authed st) (st_drawn st))
  | Compare CkRemainderCommit [c] [root] =>
      (mem root (st_absorbed st) && mem c (st_hashed st),
       mkState (st_absorbed st) (st_hashed st) (c :: st_authed st) (st_drawn st))
  | Use c => (if query_data c then st_drawn st && mem c (st_authed st) else true, st)
  | _ => (true, st)
  end.

Fixpoint check (st : cstate) (l : list event) : bool :=
  match l with
  | [] => true
  | e :: r => let (ok, st') := step st e in ok && check st' r
  end.
