(* C07 round 2: StarkField::from_bytes_with_padding (math/src/field/traits.rs) and the
   `TryFrom<&[u8]>` impls it calls (math/src/field/{f64,f62,f128}/mod.rs), modelled by hand over
   bytes as `list Z` (each in [0,256)); every panic of the Rust code is an explicit outcome.
   No proofs here (Proofs/FieldBytes.v).

     fn from_bytes_with_padding(bytes: &[u8]) -> Self {
         assert!(bytes.len() < Self::ELEMENT_BYTES);                      -> FbAssertLen
         let mut buf = bytes.to_vec();
         buf.resize(Self::ELEMENT_BYTES, 0);
         let element = match Self::try_from(buf.as_slice()) {
             Ok(element) => element,
             Err(_) => panic!("element deserialization failed"),            -> FbDeserFailed
         };
         element
     }

   The integer-level tails (value >= M -> Err, else Ok(new(value))) are the GENERATED terms
   f64_try_from_bytes / f62_try_from_u64 of Gen/F64.v, Gen/F62.v; f128 wraps the value directly. *)
From VBase Require Import MachInt.
From VGen Require F64 F62 F128.
Open Scope Z_scope.

Inductive fb_outcome : Set :=
| FbOk (raw : Z)          (* the element (internal word) *)
| FbAssertLen             (* assert!(bytes.len() < ELEMENT_BYTES) failed *)
| FbDeserFailed.          (* panic!("element deserialization failed") *)

(* Vec::resize(n, 0) on a vector not longer than n *)
Definition resize0 (n : nat) (l : list Z) : list Z := l ++ repeat 0 (n - length l).

(* impl TryFrom<&[u8]>: length checks, then little-endian word, then range check *)
Definition f64_try_from_slice (bytes : list Z) : option Z :=
  if (length bytes <? 8)%nat then None
  else if (8 <? length bytes)%nat then None
  else F64.f64_try_from_bytes bytes.

Definition f62_try_from_slice (bytes : list Z) : option Z :=
  if (length bytes <? 8)%nat then None
  else if (8 <? length bytes)%nat then None
  else F62.f62_try_from_u64 (of_le_bytes bytes).

Definition f128_try_from_slice (bytes : list Z) : option Z :=
  if negb (length bytes =? 16)%nat then None        (* bytes.try_into::<[u8;16]>() fails *)
  else let value := of_le_bytes bytes in
       if value >=? F128.f128_M then None else Some value.     (* Ok(BaseElement(value)) *)

Definition from_bytes_with_padding (element_bytes : nat) (try_from_slice : list Z -> option Z)
    (bytes : list Z) : fb_outcome :=
  if (length bytes <? element_bytes)%nat then
    match try_from_slice (resize0 element_bytes bytes) with
    | Some e => FbOk e
    | None => FbDeserFailed
    end
  else FbAssertLen.

Definition f64_from_bytes_with_padding := from_bytes_with_padding 8 f64_try_from_slice.
Definition f62_from_bytes_with_padding := from_bytes_with_padding 8 f62_try_from_slice.
Definition f128_from_bytes_with_padding := from_bytes_with_padding 16 f128_try_from_slice.

(* ------------------------------------------------------------------------------------------------
   Coverage round: the zero-copy memory views (little-endian target).
     AsBytes::as_bytes(&self)                = the ELEMENT_BYTES bytes of the INTERNAL word
     FieldElement::elements_as_bytes(&[Self]) = concatenation of those
     unsafe FieldElement::bytes_as_elements(&[u8]):
         if bytes.len() % ELEMENT_BYTES != 0 { return Err }          length check
         if (p as usize) % align_of::<uN>() != 0 { return Err }      alignment check on the ADDRESS
         Ok(from_raw_parts(p as *const Self, len))                    no range check on the words
   The address of the first byte is an explicit parameter [addr]. *)
Definition as_bytes (nb : nat) (w : Z) : list Z := to_le_bytes nb w.
Definition elements_as_bytes (nb : nat) (ws : list Z) : list Z := flat_map (to_le_bytes nb) ws.

Fixpoint chunks_le (nb : nat) (count : nat) (l : list Z) : list Z :=
  match count with
  | O => []
  | S c => of_le_bytes (firstn nb l) :: chunks_le nb c (skipn nb l)
  end.

Definition bytes_as_elements (nb align : nat) (addr : Z) (bytes : list Z) : option (list Z) :=
  if negb (length bytes mod nb =? 0)%nat then None
  else if negb (addr mod Z.of_nat align =? 0) then None
  else Some (chunks_le nb (length bytes / nb) bytes).

Definition f64_as_bytes := as_bytes 8.
Definition f62_as_bytes := as_bytes 8.
Definition f128_as_bytes := as_bytes 16.
Definition f64_elements_as_bytes := elements_as_bytes 8.
Definition f62_elements_as_bytes := elements_as_bytes 8.
Definition f128_elements_as_bytes := elements_as_bytes 16.
Definition f64_bytes_as_elements := bytes_as_elements 8 8.      (* align_of::<u64>()  = 8 *)
Definition f62_bytes_as_elements := bytes_as_elements 8 8.
Definition f128_bytes_as_elements := bytes_as_elements 16 16.   (* align_of::<u128>() = 16 on the x86-64 target *)
