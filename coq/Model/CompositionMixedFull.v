(* C17 — round 10: the MIXED model of the multi-segment prover path for E != B,
   DefaultConstraintEvaluator::evaluate / evaluate_fragment_full + BoundaryConstraints::{new, evaluate_all} + combine:
   main frame, periodic values, domain points, divisors and the main transition evaluations in B; auxiliary frame, auxiliary
   transition evaluations, auxiliary assertion polynomials, coefficients and the table in E; the offsets and the point x of the
   auxiliary constraints stay in B and enter through mul_base.  Boundary groups are kept in the abstract form
   (divisor, main constraints, auxiliary constraints) after the merge of auxiliary groups into main groups with an equal divisor
   (`g.divisor == group.divisor()` on ConstraintDivisor<B>); the three representations are selected at evaluation time.
   NO proofs here. *)
From Coq Require Import List Arith Bool ZArith.
From VBase Require Import FieldOps.
From VModel Require Import Composition CompositionMixed CompositionMixedWhole.
Import ListNotations.

Section MixedFull.
Context {B E : Type} (OB : FOps B) (OE : FOps E).
Variable mul_base : E -> B -> E.

Variable n ceb ldeb : nat.
Variable offset : B.
Variable rou : nat -> B.

(* polynom-style evaluation of an E-polynomial at a base-field point: c + p'(x).mul_base(x) *)
Fixpoint peval_mb (p : list E) (x : B) : E :=
  match p with [] => fzero OE | c :: t => fadd OE c (mul_base (peval_mb t x) x) end.
(* SmallPolyConstraint<E, E>::evaluate's Horner loop: poly.iter().rev().fold(ZERO, |acc, &coeff| acc.mul_base(x) + coeff) *)
Definition horner_mb (p : list E) (x : B) : E :=
  fold_left (fun acc c => fadd OE (mul_base acc x) c) (rev p) (fzero OE).
(* fft::evaluate_poly_with_offset(poly: &[E], twiddles: &[B], domain_offset: B, blowup), by what it computes *)
Definition eval_poly_with_offset_mb (p : list E) (off : B) (blowup : nat) : list E :=
  let m := length p * blowup in map (fun wi => peval_mb p (fmul OB off wi)) (power_series OB (rou m) m).

Definition a_is_single (c : @BCa B E) : bool := length (a_poly c) =? 1.
Definition a_is_small (c : @BCa B E) : bool := negb (a_is_single c) && (length (a_poly c) <? SMALL_POLY_DEGREE).
Definition a_is_large (c : @BCa B E) : bool := negb (a_is_single c) && negb (length (a_poly c) <? SMALL_POLY_DEGREE).

(* Small/LargePolyConstraint<E, E>::evaluate on the auxiliary state *)
Definition small_aux_eval (c : @BCa B E) (state : list E) (x : B) : option E :=
  let x' := fmul OB x (a_xoff c) in
  let assertion_value := horner_mb (a_poly c) x' in
  match nth_error state (a_col c) with Some s => Some (fmul OE (a_cc c) (fsub OE s assertion_value)) | None => None end.
Definition large_aux_eval (c : @BCa B E) (state : list E) (ce_step : nat) : option E :=
  large_eval OE (mkLC (a_col c) (eval_poly_with_offset_mb (a_poly c) offset (ce_size n ceb / length (a_poly c)))
                      (a_first c * ceb) (a_cc c)) state ce_step.

(* merged groups *)
Definition AGm : Type := (@Div B * list (@BCm B E) * list (@BCa B E))%type.
Definition agm_div (ag : AGm) : @Div B := match ag with (d, _, _) => d end.
Fixpoint ag_merge_m (ps : list AGm) (g : @BGa B E) : list AGm :=
  match ps with
  | [] => [(ga_div g, [], ga_cs g)]
  | (d, m, a) :: t => if div_eqb OB d (ga_div g) then (d, m, a ++ ga_cs g) :: t else (d, m, a) :: ag_merge_m t g
  end.
Definition ags_m (main_groups : list (@BGm B E)) (aux_groups : list (@BGa B E)) : list AGm :=
  fold_left ag_merge_m aux_groups (map (fun g => (gm_div g, gm_cs g, [])) main_groups).

(* BoundaryConstraintGroup::evaluate_all(main_state, aux_state, ce_step, x) *)
Definition ag_evaluate_all (ag : AGm) (main_state : list B) (aux_state : list E) (ce_step : nat) (x : B) : option E :=
  match ag with
  | (d, m, a) =>
    let r := gm_evaluate_main OB OE mul_base n ceb offset rou (mkBGm d m) main_state ce_step x in
    let r := acc_opt OE (fun c => single_eval OE (mkSC (a_col c) (nth 0 (a_poly c) (fzero OE)) (a_cc c)) aux_state)
                     (filter a_is_single a) r in
    let r := acc_opt OE (fun c => small_aux_eval c aux_state x) (filter a_is_small a) r in
    acc_opt OE (fun c => large_aux_eval c aux_state ce_step) (filter a_is_large a) r
  end.

Variable num_main : nat.
Variable tmain : list B -> list B -> list B -> list B.
(* Air::evaluate_aux_transition::<B, E>(main_frame, aux_frame, periodic_values, rand_elements) *)
Variable taux : list B -> list B -> list E -> list E -> list B -> list E -> list E.
Variable ppolys : list (list B).
Variable exemptions : nat.
Variable tcoef : list E.
Variable main_groups : list (@BGm B E).
Variable aux_groups : list (@BGa B E).
Variable rands : list E.
Variable lde_main : list (list B).
Variable lde_aux : list (list E).

(* evaluate_fragment_full, one row *)
Definition eval_row_full_mixed (t : @PTable B) (groups : list AGm) (step : nat) : option (list E) :=
  let lde_step := step * ce_to_lde_blowup n ceb ldeb in
  match read_frame ldeb lde_main lde_step, get_ce_x_at OB n ceb offset rou step with
  | Some (cur, nxt), Some x =>
    match read_frame ldeb lde_aux lde_step with
    | Some (acur, anxt) =>
      match pt_get_row t step with
      | Some pv =>
        match mapM (fun ag => ag_evaluate_all ag cur acur step x) groups with
        | Some rest =>
          Some (fadd OE (lincomb_mixed OE mul_base (tmain cur nxt pv) (main_coef num_main tcoef))
                        (lincomb OE (taux cur nxt acur anxt pv rands) (aux_coef num_main tcoef)) :: rest)
        | None => None end
      | None => None end
    | None => None end
  | _, _ => None
  end.

Definition evaluate_mixed_full : option (list E) :=
  match ptable_new OB n ceb offset rou ppolys with
  | None => None
  | Some t =>
    let groups := ags_m main_groups aux_groups in
    let divisors := tdiv OB n rou exemptions :: map agm_div groups in
    match mapM (fun d => match get_inv_evaluation OB n ceb offset rou d with Some zs => Some (d, zs) | None => None end) divisors with
    | None => None
    | Some divs =>
      mapM (fun i => match eval_row_full_mixed t groups i with
                     | Some row => combine_row_mixed OB OE mul_base n ceb offset rou divs i row
                     | None => None end) (seq 0 (ce_size n ceb))
    end
  end.
End MixedFull.
