(* The prime field Z/p as an FOps over canonical residues in [0,p): used to RUN generic models
   (polynomials, FFT, FRI, divisors...) bit-compatibly with `as_int()` of the Rust fields.
   Inversion is a^(p-2) by square-and-multiply.  Laws are proved in Proofs (under prime p). *)
From Coq Require Import ZArith.
From VBase Require Import FieldOps.
Open Scope Z_scope.

Fixpoint zpow_mod_pos (p a : Z) (e : positive) : Z :=
  match e with
  | xH => a mod p
  | xO e' => let r := zpow_mod_pos p a e' in (r * r) mod p
  | xI e' => let r := zpow_mod_pos p a e' in ((r * r) mod p * a) mod p
  end.
Definition zpow_mod (p a e : Z) : Z :=
  match e with Zpos q => zpow_mod_pos p a q | _ => 1 mod p end.

Definition zp_inv (p a : Z) : Z := zpow_mod p a (p - 2).

Definition zp_ops (p : Z) : FOps Z := {|
  fzero := 0; fone := 1 mod p;
  fadd := fun a b => (a + b) mod p;
  fsub := fun a b => (a - b) mod p;
  fmul := fun a b => (a * b) mod p;
  fneg := fun a => (- a) mod p;
  fdouble := fun a => (a + a) mod p;
  fsquare := fun a => (a * a) mod p;
  finv := zp_inv p;
  fdiv := fun a b => (a * zp_inv p b) mod p;
  feqb := Z.eqb;
  fofz := fun v => v mod p
|}.

Definition P64 : Z := 18446744069414584321.                            (* 2^64 - 2^32 + 1 *)
Definition P62 : Z := 4611624995532046337.                             (* 2^62 - 111*2^39 + 1 *)
Definition P128 : Z := 340282366920938463463374557953744961537.        (* 2^128 - 45*2^40 + 1 *)
