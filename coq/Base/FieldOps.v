(* Record of field operations: generic algorithm models and the ring-polymorphic
   output of rs2v are functions of an FOps. *)
From Coq Require Import ZArith.

Record FOps (F : Type) := mkFOps {
  fzero : F; fone : F;
  fadd : F -> F -> F; fsub : F -> F -> F; fmul : F -> F -> F;
  fneg : F -> F; fdouble : F -> F; fsquare : F -> F;
  finv : F -> F; fdiv : F -> F -> F;
  feqb : F -> F -> bool;
  fofz : Z -> F           (* Self::new(v) *)
}.
Arguments fzero {F}. Arguments fone {F}. Arguments fadd {F}. Arguments fsub {F}.
Arguments fmul {F}. Arguments fneg {F}. Arguments fdouble {F}. Arguments fsquare {F}.
Arguments finv {F}. Arguments fdiv {F}. Arguments feqb {F}. Arguments fofz {F}.
