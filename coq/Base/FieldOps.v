(* Record of field operations: generic algorithm models and the ring-polymorphic
   output of rs2v are functions of an FOps. *)
From Coq Require Import ZArith Ring_theory Field_theory.

Record FOps (F : Type) := mkFOps {
  fzero : F; fone : F;
  fadd : F -> F -> F; fsub : F -> F -> F; fmul : F -> F -> F;
  fneg : F -> F; fdouble : F -> F; fsquare : F -> F;
  finv : F -> F; fdiv : F -> F -> F;
  feqb : F -> F -> bool;
  fofz : Z -> F           (* Self::new(v) *)
}.
Arguments fzero {F}. Arguments fone {F}. Arguments fadd {F}. Arguments fsub {F}.
Arguments fmul {F}. Arguments fneg {F}. Arguments fdouble {F}. Arguments fsquare {F}.
Arguments finv {F}. Arguments fdiv {F}. Arguments feqb {F}. Arguments fofz {F}.

(* Field laws, as a Prop record: generic algorithm theorems are stated "for every FOps with FLaws". *)
Record FLaws {F : Type} (O : FOps F) : Prop := mkFLaws {
  fl_add_comm : forall a b, fadd O a b = fadd O b a;
  fl_add_assoc : forall a b c, fadd O a (fadd O b c) = fadd O (fadd O a b) c;
  fl_add_0_l : forall a, fadd O (fzero O) a = a;
  fl_mul_comm : forall a b, fmul O a b = fmul O b a;
  fl_mul_assoc : forall a b c, fmul O a (fmul O b c) = fmul O (fmul O a b) c;
  fl_mul_1_l : forall a, fmul O (fone O) a = a;
  fl_distr_l : forall a b c, fmul O (fadd O a b) c = fadd O (fmul O a c) (fmul O b c);
  fl_sub_def : forall a b, fsub O a b = fadd O a (fneg O b);
  fl_neg_def : forall a, fadd O a (fneg O a) = fzero O;
  fl_double_def : forall a, fdouble O a = fadd O a a;
  fl_square_def : forall a, fsquare O a = fmul O a a;
  fl_one_neq_zero : fone O <> fzero O;
  fl_inv_l : forall a, a <> fzero O -> fmul O (finv O a) a = fone O;
  fl_inv_0 : finv O (fzero O) = fzero O;
  fl_div_def : forall a b, fdiv O a b = fmul O a (finv O b);
  fl_eqb_spec : forall a b, feqb O a b = true <-> a = b
}.

Lemma FLaws_ring_theory {F} (O : FOps F) (L : FLaws O) :
  ring_theory (fzero O) (fone O) (fadd O) (fmul O) (fsub O) (fneg O) (@eq F).
Proof.
  destruct L. constructor; intros; auto.
Qed.

Lemma FLaws_field_theory {F} (O : FOps F) (L : FLaws O) :
  field_theory (fzero O) (fone O) (fadd O) (fmul O) (fsub O) (fneg O) (fdiv O) (finv O) (@eq F).
Proof.
  constructor.
  - apply FLaws_ring_theory; exact L.
  - apply (fl_one_neq_zero O L).
  - intros; apply (fl_div_def O L).
  - intros; apply (fl_inv_l O L); assumption.
Qed.
