(* Machine-integer semantics used by the rs2v translator.
   Every Rust integer value is a Z: unsigned types in [0, 2^n), signed types in
   [-2^(n-1), 2^(n-1)).  Wrapping is written explicitly. *)
From Coq Require Export ZArith List Bool Lia.
Export ListNotations.
Open Scope Z_scope.

Definition wrap (n : Z) (x : Z) : Z := x mod 2 ^ n.
Definition swrap (n : Z) (x : Z) : Z := (x + 2 ^ (n - 1)) mod 2 ^ n - 2 ^ (n - 1).

Definition b2z (b : bool) : Z := if b then 1 else 0.

(* range predicates (boolean, used by generated *_ok side conditions) *)
Definition in_u (n : Z) (x : Z) : bool := (0 <=? x) && (x <? 2 ^ n).
Definition in_s (n : Z) (x : Z) : bool := (- 2 ^ (n - 1) <=? x) && (x <? 2 ^ (n - 1)).

(* shifts: [shl n x k] is the value of the wrapping shift on an n-bit unsigned
   type; Rust panics (debug) when k >= n, which the generated *_ok records. *)
Definition shl (n x k : Z) : Z := (x * 2 ^ k) mod 2 ^ n.
Definition shr (x k : Z) : Z := x / 2 ^ k.          (* logical on unsigned, arithmetic on signed *)
Definition sshl (n x k : Z) : Z := swrap n (x * 2 ^ k).

Definition unot (n x : Z) : Z := 2 ^ n - 1 - x.      (* !x on an unsigned n-bit value *)

Definition ovf_add (n x y : Z) : Z * bool := ((x + y) mod 2 ^ n, 2 ^ n <=? x + y).
Definition ovf_sub (n x y : Z) : Z * bool := ((x - y) mod 2 ^ n, x <? y).

(* number of leading zeros of an n-bit unsigned value *)
Definition clz (n x : Z) : Z := if x <=? 0 then n else n - (Z.log2 x + 1).
Definition ctz (n x : Z) : Z :=
  if x =? 0 then n else
  (fix go (f : nat) (x k : Z) : Z :=
     match f with O => k | S f' => if Z.odd x then k else go f' (x / 2) (k + 1) end)
    (Z.to_nat n) x 0.

(* fuelled while loop: None = out of fuel *)
Fixpoint while_loop {S : Type} (fuel : nat) (cond : S -> bool) (body : S -> S) (s : S) : option S :=
  if cond s then
    match fuel with
    | O => None
    | Datatypes.S f => while_loop f cond body (body s)
    end
  else Some s.

(* fuelled while loop whose body may itself run out of fuel *)
Fixpoint while_loop_o {S : Type} (fuel : nat) (cond : S -> bool) (body : S -> option S) (s : S) : option S :=
  if cond s then
    match fuel with
    | O => None
    | Datatypes.S f => match body s with None => None | Some s' => while_loop_o f cond body s' end
    end
  else Some s.

(* for i in lo..hi  (ascending), for i in (lo..hi).rev() (descending) *)
Definition zrange (lo hi : Z) : list Z := map (fun i => lo + Z.of_nat i) (seq 0 (Z.to_nat (hi - lo))).
Definition for_up {S : Type} (lo hi : Z) (body : Z -> S -> S) (s : S) : S :=
  fold_left (fun acc i => body i acc) (zrange lo hi) s.
Definition for_down {S : Type} (lo hi : Z) (body : Z -> S -> S) (s : S) : S :=
  fold_left (fun acc i => body i acc) (rev (zrange lo hi)) s.

(* little-endian bytes *)
Fixpoint to_le_bytes (n : nat) (x : Z) : list Z :=
  match n with O => [] | S n' => (x mod 256) :: to_le_bytes n' (x / 256) end.
Fixpoint of_le_bytes (l : list Z) : Z :=
  match l with [] => 0 | b :: r => b + 256 * of_le_bytes r end.

Lemma wrap_range n x : 0 <= n -> 0 <= wrap n x < 2 ^ n.
Proof. intros Hn. unfold wrap. apply Z.mod_pos_bound. apply Z.pow_pos_nonneg; lia. Qed.

Lemma wrap_small n x : 0 <= x < 2 ^ n -> wrap n x = x.
Proof. intros H. unfold wrap. apply Z.mod_small. exact H. Qed.

Lemma of_to_le_bytes n x : 0 <= x < 256 ^ Z.of_nat n -> of_le_bytes (to_le_bytes n x) = x.
Proof.
  revert x. induction n as [|n IH]; intros x Hx.
  - simpl in *. lia.
  - cbn [to_le_bytes of_le_bytes]. rewrite IH.
    + pose proof (Z.div_mod x 256). lia.
    + rewrite Nat2Z.inj_succ, Z.pow_succ_r in Hx by lia.
      split. { apply Z.div_pos; lia. }
      apply Z.div_lt_upper_bound; lia.
Qed.

Lemma to_le_bytes_length n x : length (to_le_bytes n x) = n.
Proof. revert x. induction n as [|n IH]; intros x; simpl; [reflexivity | now rewrite IH]. Qed.
