(* C14 — multi-threaded execution produces the same results as single-threaded.
   Only statements, `exact` of lemmas proved in Proofs/Par*.v, and Print Assumptions.

   LEVEL: proof over a TASK-LEVEL fork-join model (Model/Par.v) + differential correspondence (checks/c14.py).
   What these theorems say: for the task decompositions the code performs (as functions of the input size and of the
   thread count T, with the batch arithmetic exactly as coded), the tasks of every phase have pairwise disjoint
   write/write and read/write index footprints, hence EVERY order of the tasks and EVERY interleaving of their atomic
   steps yields the same store, which equals the result of the single-threaded code; batched utilities return the
   serial result for every T; the nonce search may return any nonce the verifier accepts.
   What is NOT exhibited by the model (named in the manifest and in the evidence):
     - that rayon implements fork-join (each task runs exactly once; a phase ends before the next starts);
     - that the `&mut` slices aliased through raw pointers in `permute` / `build_merkle_nodes` are race-free under the
       Rust memory model beyond index disjointness (interleavings here are sequentially consistent sequences of
       atomic steps: one swap, one node hash);
     - timing.
   Thread counts outside the guarantee are stated exactly (`*_oversubscribed`, `*_panics`): they need more than
   n (>= 1024) threads and lie outside the property's quantifier (1..64); within 1..64 one batch formula was wrong
   (RowMatrix transpose, `C14_transpose_unbounded_refuted`) and has been repaired in /repo. *)
From Coq Require Import List Arith Bool Lia PeanoNat Permutation.
From VBase Require Import FieldOps.
From VModel Require Import FFT Par.
From VModel Require Merkle.   (* C10's model of the sequential builder; not imported: its [Ok]/[Panic] would shadow Par's *)
From VProofs Require Import ParCommute ParExamples ParBatch ParMisc ParPermute ParMerkle ParEvalTable ParMerkleC10 ParMaps.
Import ListNotations.

(* ================================================================ generic fork-join model *)

(* disjoint_commute: pairwise write/write- and read/write-disjoint (well-formed) tasks yield the same final store
   under EVERY permutation of the tasks *)
Theorem C14_disjoint_commute : forall (V : Type) (dflt : V) (ts ts' : list (task V)),
  Permutation ts ts' -> Forall (task_ok dflt) ts -> ForallOrdPairs independent ts ->
  forall s, exec ts s = exec ts' s.
Proof. intros V dflt. exact (disjoint_commute dflt). Qed.
Print Assumptions C14_disjoint_commute.

(* ... and under every complete interleaving of their atomic steps *)
Theorem C14_interleave_commute : forall (V : Type) (dflt : V) choices (tss : list (list (task V))) out rest,
  merge_by choices tss = (out, rest) -> all_empty rest = true ->
  Forall (Forall (task_ok dflt)) tss -> cross_independent tss ->
  forall s, exec out s = exec (concat tss) s.
Proof. intros V dflt. exact (interleave_commute dflt). Qed.
Print Assumptions C14_interleave_commute.

Theorem C14_phase_schedule_independent : forall (V : Type) (dflt : V) (tss : list (list (task V))),
  Forall (Forall (task_ok dflt)) tss -> cross_independent tss ->
  (forall sched s, Permutation sched (seq 0 (length tss)) ->
     exec (reorder (map compose tss) sched) s = exec (concat tss) s) /\
  (forall choices out rest s, merge_by choices tss = (out, rest) -> all_empty rest = true ->
     exec out s = exec (concat tss) s).
Proof. intros V dflt. exact (phase_schedule_independent dflt). Qed.
Print Assumptions C14_phase_schedule_independent.

(* non-vacuity, and necessity of the disjointness hypothesis *)
Theorem C14_disjoint_commute_hyp_sat :
  Forall (task_ok 0) [ex_t1; ex_t2] /\ ForallOrdPairs independent [ex_t1; ex_t2] /\
  exec [ex_t1; ex_t2] [5; 0; 0] = [5; 6; 10] /\ exec [ex_t2; ex_t1] [5; 0; 0] = [5; 6; 10].
Proof. exact disjoint_commute_hyp_sat. Qed.
Print Assumptions C14_disjoint_commute_hyp_sat.

Theorem C14_dependent_tasks_do_not_commute :
  Forall (task_ok 0) [ex_c01; ex_c10] /\ ~ independent ex_c01 ex_c10 /\
  exec [ex_c01; ex_c10] [1; 2] <> exec [ex_c10; ex_c01] [1; 2].
Proof. exact dependent_tasks_do_not_commute. Qed.
Print Assumptions C14_dependent_tasks_do_not_commute.

(* ================================================================ batch arithmetic *)

(* batch_sizes_cover: for EVERY n, EVERY T (power of two or not) and every min >= 1, batch_iter_mut! never panics and its
   batches partition [0, n) exactly *)
Theorem C14_batch_sizes_cover : forall conc n min T, 1 <= min ->
  exists cs, batch_iter_chunks conc n min T = Done cs /\ covers n cs.
Proof. exact batch_sizes_cover. Qed.
Print Assumptions C14_batch_sizes_cover.

Theorem C14_par_chunks_spec : forall n bs, 1 <= bs -> exists cs, par_chunks n bs = Done cs /\ covers n cs /\
  Forall (fun c => 1 <= snd c <= bs) cs /\ (forall k c, nth_error cs k = Some c -> fst c = k * bs) /\
  length cs = (n + bs - 1) / bs.
Proof. exact par_chunks_spec. Qed.
Print Assumptions C14_par_chunks_spec.

Theorem C14_batch_iter_offsets : forall n min T cs k c, min <= n / npo2 T -> 1 <= min ->
  batch_iter_chunks true n min T = Done cs -> nth_error cs k = Some c -> fst c = k * (n / npo2 T).
Proof. exact batch_iter_offsets. Qed.
Print Assumptions C14_batch_iter_offsets.

Theorem C14_npo2_values : map npo2 [0;1;2;3;5;6;7;8;12;16;24;33;64] = [1;1;2;4;8;8;8;8;16;16;32;64;64].
Proof. exact npo2_values. Qed.
Print Assumptions C14_npo2_values.

(* ================================================================ batched utilities (any field with FLaws) *)

(* power_series_batched_spec: the concatenation of the batches, each started at b^offset, is the serial series *)
Theorem C14_power_series_batched_spec : forall (F : Type) (O : FOps F), FLaws O -> forall b n cs,
  covers n cs -> get_power_series_batched O b cs = get_power_series_serial O b n.
Proof. intros F O L. exact (power_series_batched_spec O L). Qed.
Print Assumptions C14_power_series_batched_spec.

Theorem C14_get_power_series_any_T : forall (F : Type) (O : FOps F), FLaws O -> forall conc T b n,
  get_power_series O conc T b n = Done (get_power_series_serial O b n).
Proof. intros F O L. exact (get_power_series_any_T O L). Qed.
Print Assumptions C14_get_power_series_any_T.

Theorem C14_get_power_series_with_offset_any_T : forall (F : Type) (O : FOps F), FLaws O -> forall conc T b s n,
  get_power_series_with_offset O conc T b s n = Done (get_power_series_with_offset_serial O b s n).
Proof. intros F O L. exact (get_power_series_with_offset_any_T O L). Qed.
Print Assumptions C14_get_power_series_with_offset_any_T.

(* batch_inversion_batched_spec: the Montgomery-trick inversion with zeros preserved is the elementwise inverse, so it
   is independent of how the input is cut into batches *)
Theorem C14_serial_batch_inversion_spec : forall (F : Type) (O : FOps F), FLaws O -> forall vals,
  serial_batch_inversion O vals = map (finv O) vals.
Proof. intros F O L. exact (serial_batch_inversion_spec O L). Qed.
Print Assumptions C14_serial_batch_inversion_spec.

Theorem C14_batch_inversion_batched_spec : forall (F : Type) (O : FOps F), FLaws O -> forall vals cs,
  covers (length vals) cs -> batch_inversion_batched O vals cs = serial_batch_inversion O vals.
Proof. intros F O L. exact (batch_inversion_batched_spec O L). Qed.
Print Assumptions C14_batch_inversion_batched_spec.

Theorem C14_batch_inversion_any_T : forall (F : Type) (O : FOps F), FLaws O -> forall conc T vals,
  batch_inversion O conc T vals = Done (map (finv O) vals).
Proof. intros F O L. exact (batch_inversion_any_T O L). Qed.
Print Assumptions C14_batch_inversion_any_T.

(* non-vacuity: FLaws is inhabited (GF(2)) and the corollary applies there *)
Theorem C14_batch_inversion_hyp_sat : FLaws gf2_ops.
Proof. exact gf2_laws. Qed.
Print Assumptions C14_batch_inversion_hyp_sat.

(* scaling loops of fft::concurrent (interpolate_poly_with_offset, clone_and_shift): serial result when
   npo2 T <= len, rayon's chunk-size assertion otherwise *)
Theorem C14_scale_par_spec : forall (F : Type) (O : FOps F), FLaws O -> forall T v offset k,
  npo2 T <= length v -> scale_par O T v offset k = Done (scale_serial O v offset k).
Proof. intros F O L. exact (scale_par_spec O L). Qed.
Print Assumptions C14_scale_par_spec.

Theorem C14_scale_par_panics : forall (F : Type) (O : FOps F) T v offset k,
  length v < npo2 T -> scale_par O T v offset k = Panic.
Proof. intros F O. exact (scale_par_panics O). Qed.
Print Assumptions C14_scale_par_panics.

(* add_in_place / mul_acc: one single-cell task per element *)
Theorem C14_add_in_place_par_spec : forall (F : Type) (O : FOps F) a b sched,
  length a = length b -> Permutation sched (seq 0 (length b)) ->
  Forall (task_ok (fzero O)) (add_in_place_tasks O b) /\ ForallOrdPairs independent (add_in_place_tasks O b) /\
  exec (reorder (add_in_place_tasks O b) sched) a = add_in_place_serial O a b.
Proof. intros F O. exact (add_in_place_par_spec O). Qed.
Print Assumptions C14_add_in_place_par_spec.

Theorem C14_mul_acc_par_spec : forall (F : Type) (O : FOps F) a b c sched,
  length a = length b -> Permutation sched (seq 0 (length b)) ->
  Forall (task_ok (fzero O)) (mul_acc_tasks O b c) /\ ForallOrdPairs independent (mul_acc_tasks O b c) /\
  exec (reorder (mul_acc_tasks O b c) sched) a = mul_acc_serial O a b c.
Proof. intros F O. exact (mul_acc_par_spec O). Qed.
Print Assumptions C14_mul_acc_par_spec.

(* ================================================================ concurrent permute *)

(* permute_par_spec, for every n = 2^k and every T (mult = 1: math::fft::concurrent::permute; mult = 2:
   prover::matrix::segments::concurrent::permute) with num_batches <= n: footprints pairwise disjoint; every schedule
   and every complete interleaving of the swaps = serial permute *)
Theorem C14_permute_par_spec : forall (V : Type) (dflt : V) k T mult,
  (mult = 1 \/ mult = 2) -> permute_num_batches T mult <= 2 ^ k ->
  ForallOrdPairs independent (permute_par_tasks dflt (2 ^ k) T mult) /\
  (forall v sched, length v = 2 ^ k -> Permutation sched (seq 0 (permute_num_batches T mult)) ->
      permute_par dflt T mult sched v = serial_permute dflt v) /\
  (forall v choices, length v = 2 ^ k -> snd (permute_par_interleaved dflt T mult choices v) = true ->
      fst (permute_par_interleaved dflt T mult choices v) = serial_permute dflt v).
Proof. intros V dflt. exact (permute_par_spec dflt). Qed.
Print Assumptions C14_permute_par_spec.

(* every transposition {i, rev i} of the serial loop is performed by exactly one task *)
Theorem C14_permute_steps_concat : forall (V : Type) (dflt : V) k T mult,
  (mult = 1 \/ mult = 2) -> permute_num_batches T mult <= 2 ^ k ->
  concat (permute_par_steps dflt (2 ^ k) T mult) = serial_permute_steps dflt (2 ^ k).
Proof. intros V dflt. exact (permute_steps_concat dflt). Qed.
Print Assumptions C14_permute_steps_concat.

Theorem C14_permute_transposition_unique : forall k T mult i,
  (mult = 1 \/ mult = 2) -> permute_num_batches T mult <= 2 ^ k -> i < 2 ^ k ->
  let bs := 2 ^ k / permute_num_batches T mult in
  exists b, b < permute_num_batches T mult /\ b * bs <= i < b * bs + bs /\
            (forall b', b' * bs <= i < b' * bs + bs -> b' = b).
Proof. exact permute_transposition_unique. Qed.
Print Assumptions C14_permute_transposition_unique.

(* steps of different tasks never touch a common index — for EVERY T *)
Theorem C14_permute_cross_independent : forall (V : Type) (dflt : V) k T mult,
  cross_independent (permute_par_steps dflt (2 ^ k) T mult).
Proof. intros V dflt. exact (permute_cross_independent dflt). Qed.
Print Assumptions C14_permute_cross_independent.

(* the exact set of thread counts outside the guarantee: num_batches > n => the permutation is silently skipped *)
Theorem C14_permute_par_noop_oversubscribed : forall (V : Type) (dflt : V) n T mult v sched,
  n < permute_num_batches T mult -> length v = n -> permute_par dflt T mult sched v = v.
Proof. intros V dflt. exact (permute_par_noop_oversubscribed dflt). Qed.
Print Assumptions C14_permute_par_noop_oversubscribed.

Theorem C14_permute_oversubscribed_refuted : permute_par 0 9 1 (seq 0 16) (seq 0 8) <> serial_permute 0 (seq 0 8).
Proof. exact permute_oversubscribed_refuted. Qed.
Print Assumptions C14_permute_oversubscribed_refuted.

(* hypotheses satisfiable at the real threshold (n = 1024, T = 64, both variants), and a computed instance *)
Theorem C14_permute_hyp_sat : permute_num_batches 64 2 <= 2 ^ 10 /\
  permute_par 0 3 1 [2;0;3;1] (seq 0 16) = serial_permute 0 (seq 0 16).
Proof. split; [exact permute_hyp_sat|exact permute_par_ex1]. Qed.
Print Assumptions C14_permute_hyp_sat.

(* the serial reference of this file is the C09 model of FftInputs::permute *)
Theorem C14_serial_permute_is_C09_permute : forall (F : Type) (O : FOps F) (v : list F),
  serial_permute (fzero O) v = FFT.permute O v.
Proof. intros F O. exact (serial_permute_eq_FFT_permute O). Qed.
Print Assumptions C14_serial_permute_is_C09_permute.

(* ================================================================ concurrent Merkle tree construction *)

(* merkle_par_spec: for every n = 2^k leaf pairs, every T with npo2 T <= n, every initial content [junk] of the
   un-initialised vector, every task schedule / complete interleaving of the leaf phase and of the subtree phase:
   result = serial build_merkle_nodes *)
Theorem C14_merkle_par_spec : forall (D : Type) (d0 : D) (merge : D -> D -> D) k T leaves junk,
  let n := 2 ^ k in length leaves = 2 * n -> length junk = 2 * n -> npo2 T <= n ->
  (forall s1 s2, Permutation s1 (seq 0 n) -> Permutation s2 (seq 0 (npo2 T)) ->
     merkle_par d0 merge leaves junk T s1 s2 = Done (merkle_serial d0 merge leaves junk)) /\
  (forall ch1 ch2 r, merkle_par_interleaved d0 merge leaves junk T ch1 ch2 = Done (r, true) ->
     r = merkle_serial d0 merge leaves junk).
Proof. intros D d0 merge. exact (merkle_par_spec d0 merge). Qed.
Print Assumptions C14_merkle_par_spec.

(* footprints: tasks of a phase pairwise disjoint; each subtree task reads only cells written earlier by itself or by
   the leaf phase; the tip reads only what was written before it; cells 1 .. 2n-1 are written exactly once *)
Theorem C14_merkle_par_footprints : forall (D : Type) (d0 : D) (merge : D -> D -> D) k T leaves p,
  let n := 2 ^ k in length leaves = 2 * n -> npo2 T <= n -> merkle_par_plan d0 merge leaves T = Done p ->
  Forall (Forall (task_ok d0)) (mp_leaf p) /\ cross_independent (mp_leaf p) /\
  Forall (Forall (task_ok d0)) (mp_sub p) /\ cross_independent (mp_sub p) /\
  Forall (reads_closed n (2 * n)) (mp_sub p) /\
  reads_closed n (2 * n) (concat (mp_sub p) ++ mp_top p) /\
  Permutation (flat_map t_writes (concat (mp_leaf p) ++ concat (mp_sub p) ++ mp_top p)) (seq 1 (2 * n - 1)).
Proof. intros D d0 merge. exact (merkle_par_footprints d0 merge). Qed.
Print Assumptions C14_merkle_par_footprints.

(* the serial result is the unique solution of the tree equations; un-initialised memory never leaks *)
Theorem C14_merkle_serial_eqs : forall (D : Type) (d0 : D) (merge : D -> D -> D) k leaves junk,
  let n := 2 ^ k in length leaves = 2 * n -> length junk = 2 * n ->
  let F := merkle_serial d0 merge leaves junk in
  length F = 2 * n /\ nth 0 F d0 = d0 /\
  (forall i, i < n -> nth (n + i) F d0 = merge (nth (2 * i) leaves d0) (nth (2 * i + 1) leaves d0)) /\
  (forall c, 1 <= c < n -> nth c F d0 = merge (nth (2 * c) F d0) (nth (2 * c + 1) F d0)).
Proof. intros D d0 merge. exact (merkle_serial_eqs d0 merge). Qed.
Print Assumptions C14_merkle_serial_eqs.

Theorem C14_merkle_serial_junk_independent : forall (D : Type) (d0 : D) (merge : D -> D -> D) k leaves junk junk',
  let n := 2 ^ k in length leaves = 2 * n -> length junk = 2 * n -> length junk' = 2 * n ->
  merkle_serial d0 merge leaves junk = merkle_serial d0 merge leaves junk'.
Proof. intros D d0 merge. exact (merkle_serial_junk_independent d0 merge). Qed.
Print Assumptions C14_merkle_serial_junk_independent.

(* the plan exists exactly when npo2 T <= n; otherwise the tip loop indexes out of bounds *)
Theorem C14_merkle_plan_exists : forall (D : Type) (d0 : D) (merge : D -> D -> D) k T leaves,
  let n := 2 ^ k in length leaves = 2 * n -> npo2 T <= n ->
  exists p, merkle_par_plan d0 merge leaves T = Done p /\ length (mp_leaf p) = n /\ length (mp_sub p) = npo2 T.
Proof. intros D d0 merge. exact (merkle_plan_exists d0 merge). Qed.
Print Assumptions C14_merkle_plan_exists.

Theorem C14_merkle_plan_panics : forall (D : Type) (d0 : D) (merge : D -> D -> D) k T leaves,
  let n := 2 ^ k in length leaves = 2 * n -> n < npo2 T -> merkle_par_plan d0 merge leaves T = Panic.
Proof. intros D d0 merge. exact (merkle_plan_panics d0 merge). Qed.
Print Assumptions C14_merkle_plan_panics.

Theorem C14_merkle_dispatch_spec : forall (D : Type) (d0 : D) (merge : D -> D -> D) k T leaves junk conc s1 s2,
  let n := 2 ^ k in length leaves = 2 * n -> length junk = 2 * n -> npo2 T <= n ->
  Permutation s1 (seq 0 n) -> Permutation s2 (seq 0 (npo2 T)) ->
  merkle_nodes_dispatch d0 merge conc leaves junk T s1 s2 = Done (merkle_serial d0 merge leaves junk).
Proof. intros D d0 merge. exact (merkle_dispatch_spec d0 merge). Qed.
Print Assumptions C14_merkle_dispatch_spec.

Theorem C14_merkle_hyp_sat : npo2 64 <= 2 ^ 10.
Proof. exact merkle_hyp_sat. Qed.
Print Assumptions C14_merkle_hyp_sat.

(* function level, composing with C10: crypto::merkle::concurrent::build_merkle_nodes = crypto::merkle::build_merkle_nodes.
   For every n = 2^k leaf pairs, every thread count T whose number of subtrees npo2 T = 2^j is admissible (<= n), any hash
   [merge], any content of the un-initialised vector, every schedule / complete interleaving: the concurrent node vector EQUALS
   the node vector of C10's sequential model Model/Merkle.v [build_nodes] (so C10's theorems about mt_new / prove / verify apply
   to trees built concurrently).  Footprint disjointness: C14_merkle_par_footprints. *)
Theorem C14_build_merkle_nodes_concurrent_eq : forall (D : Type) (d0 : D) (merge : D -> D -> D) k T leaves junk nodes,
  let n := 2 ^ k in
  length leaves = 2 * n -> length junk = 2 * n -> npo2 T <= n ->
  Merkle.build_nodes D d0 merge leaves = Merkle.Ok nodes ->
  (forall s1 s2, Permutation s1 (seq 0 n) -> Permutation s2 (seq 0 (npo2 T)) ->
     merkle_par d0 merge leaves junk T s1 s2 = Done nodes) /\
  (forall ch1 ch2 r, merkle_par_interleaved d0 merge leaves junk T ch1 ch2 = Done (r, true) -> r = nodes) /\
  (forall conc s1 s2, Permutation s1 (seq 0 n) -> Permutation s2 (seq 0 (npo2 T)) ->
     merkle_nodes_dispatch d0 merge conc leaves junk T s1 s2 = Done nodes).
Proof. intros D d0 merge. exact (build_merkle_nodes_concurrent_eq d0 merge). Qed.
Print Assumptions C14_build_merkle_nodes_concurrent_eq.

Theorem C14_merkle_serial_is_C10_build_nodes : forall (D : Type) (d0 : D) (merge : D -> D -> D) n leaves junk,
  1 <= n -> length leaves = 2 * n -> length junk = 2 * n ->
  Merkle.build_nodes D d0 merge leaves = Merkle.Ok (merkle_serial d0 merge leaves junk).
Proof. intros D d0 merge. exact (merkle_serial_is_C10_build_nodes d0 merge). Qed.
Print Assumptions C14_merkle_serial_is_C10_build_nodes.

(* non-vacuity of the premise `build_nodes .. = Ok nodes`, a computed instance, and the off-by-one twin (every subtree range
   shifted by one cell): refuted *)
Theorem C14_build_nodes_total : forall (D : Type) (d0 : D) (merge : D -> D -> D) k leaves,
  length leaves = 2 * 2 ^ k -> exists nodes, Merkle.build_nodes D d0 merge leaves = Merkle.Ok nodes.
Proof. intros D d0 merge. exact (build_nodes_total d0 merge). Qed.
Print Assumptions C14_build_nodes_total.

Theorem C14_merkle_concurrent_eq_ex : exists nodes, Merkle.build_nodes nat 0 c10_mg (seq 10 32) = Merkle.Ok nodes /\
  merkle_par 0 c10_mg (seq 10 32) (repeat 99 32) 3 (rev (seq 0 16)) [2; 0; 3; 1] = Done nodes.
Proof. exact merkle_concurrent_eq_ex. Qed.
Print Assumptions C14_merkle_concurrent_eq_ex.

Theorem C14_merkle_subtree_offby1_refuted : exists r, offby1_result (seq 10 32) (repeat 99 32) 3 = Some r /\
  Merkle.build_nodes nat 0 c10_mg (seq 10 32) <> Merkle.Ok r.
Proof. exact merkle_subtree_offby1_refuted. Qed.
Print Assumptions C14_merkle_subtree_offby1_refuted.

(* ================================================================ plain parallel maps (iter!/iter_mut!) *)

(* stated once, generically: a map over disjoint single-cell tasks (in place, or into a fresh vector whatever it contained)
   equals the sequential map under every schedule; footprints well-formed and pairwise disjoint *)
Theorem C14_par_update_spec : forall (V : Type) (d : V) (g : nat -> V -> V) a n sched,
  length a = n -> Permutation sched (seq 0 n) ->
  Forall (task_ok d) (par_update_tasks d g n) /\ ForallOrdPairs independent (par_update_tasks d g n) /\
  exec (reorder (par_update_tasks d g n) sched) a = map (fun i => g i (nth i a d)) (seq 0 n).
Proof. intros V d. exact (par_update_spec d). Qed.
Print Assumptions C14_par_update_spec.

Theorem C14_par_map_spec : forall (V : Type) (d : V) (f : nat -> V) junk n sched,
  length junk = n -> Permutation sched (seq 0 n) ->
  Forall (task_ok d) (par_map_tasks d f n) /\ ForallOrdPairs independent (par_map_tasks d f n) /\
  exec (reorder (par_map_tasks d f n) sched) junk = par_map_serial f n.
Proof. intros V d. exact (par_map_spec d). Qed.
Print Assumptions C14_par_map_spec.

(* instances: utils::transpose_slice, fri::utils::hash_values, fri::folding::apply_drp, acc_column (boundary branch),
   per-column iterators of ColMatrix / composition / DEEP composition *)
Theorem C14_transpose_slice_par_spec : forall (T : Type) (dt : T) (source : list T) N junk sched,
  let rows := length source / N in
  length junk = rows -> Permutation sched (seq 0 rows) ->
  exec (reorder (transpose_slice_tasks dt source N) sched) junk = map (transpose_slice_row dt source N rows) (seq 0 rows).
Proof. intros T. exact (@transpose_slice_par_spec T). Qed.
Print Assumptions C14_transpose_slice_par_spec.

Theorem C14_hash_values_par_spec : forall (R Dg : Type) (dd : Dg) (dr : R) (hash_row : R -> Dg) values junk sched,
  length junk = length values -> Permutation sched (seq 0 (length values)) ->
  exec (reorder (hash_values_tasks dd dr hash_row values) sched) junk = map hash_row values.
Proof. intros R Dg. exact (@hash_values_par_spec R Dg). Qed.
Print Assumptions C14_hash_values_par_spec.

Theorem C14_apply_drp_par_spec : forall (R B E : Type) (de : E) (dr : R) (db : B) (fold_row : R -> B -> E) values inv_offsets junk sched,
  length junk = length values -> Permutation sched (seq 0 (length values)) ->
  exec (reorder (apply_drp_tasks de dr db fold_row values inv_offsets) sched) junk =
  map (fun i => fold_row (nth i values dr) (nth i inv_offsets db)) (seq 0 (length values)).
Proof. intros R B E. exact (@apply_drp_par_spec R B E). Qed.
Print Assumptions C14_apply_drp_par_spec.

Theorem C14_acc_column_boundary_par_spec : forall (E : Type) (de : E) (mul_add : E -> E -> nat -> E) column zl acc sched,
  length acc = length column -> Permutation sched (seq 0 (length column)) ->
  exec (reorder (acc_column_boundary_tasks de mul_add column zl) sched) acc =
  map (fun i => mul_add (nth i acc de) (nth i column de) (i mod zl)) (seq 0 (length column)).
Proof. intros E. exact (@acc_column_boundary_par_spec E). Qed.
Print Assumptions C14_acc_column_boundary_par_spec.

Theorem C14_per_column_par_spec : forall (C : Type) (dc : C) (col_fn : nat -> C -> C) columns sched,
  Permutation sched (seq 0 (length columns)) ->
  exec (reorder (per_column_tasks dc col_fn (length columns)) sched) columns =
  map (fun c => col_fn c (nth c columns dc)) (seq 0 (length columns)).
Proof. intros C. exact (@per_column_par_spec C). Qed.
Print Assumptions C14_per_column_par_spec.

(* ================================================================ RowMatrix transpose, constraint-evaluation fragments *)

(* repaired code: for every T every result cell r*num_segs + j is written exactly once, from row r of segment j *)
Theorem C14_transpose_plan_spec : forall kr num_segs T conc, 2 <= num_segs ->
  exists p, transpose_plan conc (2 ^ kr) num_segs T = Done p /\ concat p = transpose_spec (2 ^ kr) num_segs.
Proof. exact transpose_plan_spec. Qed.
Print Assumptions C14_transpose_plan_spec.

(* FINDING (fixed in /repo, fixes/c14-rowmatrix-transpose-batches.diff): the code before the repair wrote NOTHING into the
   un-initialised result for a pool size within 1..64 *)
Theorem C14_transpose_unbounded_refuted : exists rows segs T p,
  T <= 64 /\ 1024 <= rows * segs /\ transpose_plan_unbounded true rows segs T = Done p /\ plan_cells p = [] /\
  transpose_spec rows segs <> [].
Proof. exact transpose_unbounded_refuted. Qed.
Print Assumptions C14_transpose_unbounded_refuted.

Theorem C14_transpose_unbounded_ok : forall kr num_segs T, 2 <= num_segs ->
  get_num_batches true (2 ^ kr * num_segs) T <= 2 ^ kr ->
  exists p, transpose_plan_unbounded true (2 ^ kr) num_segs T = Done p /\ concat p = transpose_spec (2 ^ kr) num_segs.
Proof. exact transpose_unbounded_ok. Qed.
Print Assumptions C14_transpose_unbounded_ok.

(* fragments of the constraint evaluation table partition the domain, on both sides of the 8192-row threshold *)
Theorem C14_fragment_plan_T_le_64 : forall conc k T, 4 <= k -> T <= 64 ->
  exists cs, fragment_plan conc (2 ^ k) T = Done cs /\ covers (2 ^ k) cs.
Proof. exact fragment_plan_T_le_64. Qed.
Print Assumptions C14_fragment_plan_T_le_64.

Theorem C14_fragment_plan_spec : forall conc k T, 4 <= k -> (conc = true -> 13 <= k -> npo2 T * 16 <= 2 ^ k) ->
  exists cs, fragment_plan conc (2 ^ k) T = Done cs /\ covers (2 ^ k) cs /\ (exists sz, Forall (fun c => snd c = sz) cs).
Proof. exact fragment_plan_spec. Qed.
Print Assumptions C14_fragment_plan_spec.

(* index-batched closures (RowMatrix/ColMatrix::commit_to_rows, get_inv_evaluation): every batch evaluates f at the
   global index batch_offset + i, so the concatenation over ANY partition is the serial map *)
Theorem C14_map_batched_any_T : forall (A : Type) (f : nat -> A) conc n min T, 1 <= min ->
  exists cs, batch_iter_chunks conc n min T = Done cs /\ map_batched f cs = map_serial f n.
Proof. intros A f. exact (map_batched_any_T f). Qed.
Print Assumptions C14_map_batched_any_T.

(* acc_column (transition branch) looks z up with the LOCAL index i % z.len(): equal to the global lookup because the
   minimum batch size 128 is a multiple of z.len() = 2^j <= 128 — for every domain size 2^k and every T *)
Theorem C14_acc_z_index_spec : forall k j T cs, j <= 7 ->
  batch_iter_chunks true (2 ^ k) 128 T = Done cs ->
  acc_z_index_batched (2 ^ j) cs = acc_z_index_serial (2 ^ j) (2 ^ k).
Proof. exact acc_z_index_spec. Qed.
Print Assumptions C14_acc_z_index_spec.

(* general form: for whatever minimum batch size mn the source passes, correct as soon as z.len() = 2^j <= mn.
   checks/c14.py reads mn off acc_column's source on every run and requires MAX_BLOWUP_FACTOR (air/src/options.rs) <= mn,
   both powers of two — the constraint-evaluation blowup never exceeds the blowup factor (AirContext assertion). *)
Theorem C14_acc_z_index_spec_gen : forall k j mn T cs, 1 <= mn -> 2 ^ j <= mn ->
  batch_iter_chunks true (2 ^ k) mn T = Done cs ->
  acc_z_index_batched (2 ^ j) cs = acc_z_index_serial (2 ^ j) (2 ^ k).
Proof. exact acc_z_index_spec_gen. Qed.
Print Assumptions C14_acc_z_index_spec_gen.

(* a minimum of 16 (MIN_FRAGMENT_SIZE) is refuted: trace length 8, ce blowup 32, 12 threads (seeded change C14-r2m2) *)
Theorem C14_acc_z_index_min16_refuted : exists cs, batch_iter_chunks true (2 ^ 8) 16 12 = Done cs /\
  acc_z_index_batched (2 ^ 5) cs <> acc_z_index_serial (2 ^ 5) (2 ^ 8).
Proof. exact acc_z_index_min16_refuted. Qed.
Print Assumptions C14_acc_z_index_min16_refuted.

(* ... and it does rest on that minimum (non-vacuity / fragility witness) *)
Theorem C14_acc_z_index_needs_min_batch : acc_z_index_batched 8 [(0, 4); (4, 4)] <> acc_z_index_serial 8 8.
Proof. exact acc_z_index_needs_min_batch. Qed.
Print Assumptions C14_acc_z_index_needs_min_batch.

(* periodic-value lookups of the fragmented constraint evaluator: the code looks the periodic table up at the GLOBAL step
   fragment.offset() + i, which equals the single-fragment evaluation for every partition of the domain ... *)
Theorem C14_periodic_global_index_spec : forall tl n frags, covers n frags ->
  periodic_rows_fragmented tl frags = periodic_rows_serial tl n.
Proof. exact periodic_global_index_spec. Qed.
Print Assumptions C14_periodic_global_index_spec.

Theorem C14_periodic_global_index_fragments : forall conc k T tl, 4 <= k -> T <= 64 ->
  exists cs, fragment_plan conc (2 ^ k) T = Done cs /\ periodic_rows_fragmented tl cs = periodic_rows_serial tl (2 ^ k).
Proof. exact periodic_global_index_fragments. Qed.
Print Assumptions C14_periodic_global_index_fragments.

(* ... the global index is REQUIRED: a fragment-local lookup is wrong as soon as there are two non-empty fragments and the
   table (longest cycle * ce blowup) is longer than the first one; it is invisible when the table length divides every
   fragment offset (this is the coverage rule enforced by checks/c14.py for every pool size 1..64) *)
Theorem C14_periodic_local_index_wrong : forall tl n cs o0 sz o1 sz' rest, covers n cs ->
  cs = (o0, sz) :: (o1, sz') :: rest -> 1 <= sz -> 1 <= sz' -> sz < tl ->
  periodic_rows_local tl cs <> periodic_rows_serial tl n.
Proof. exact periodic_local_index_wrong. Qed.
Print Assumptions C14_periodic_local_index_wrong.

Theorem C14_periodic_local_index_ok : forall tl cs n, tl <> 0 -> covers n cs -> Forall (fun c => fst c mod tl = 0) cs ->
  periodic_rows_local tl cs = periodic_rows_serial tl n.
Proof. exact periodic_local_index_ok. Qed.
Print Assumptions C14_periodic_local_index_ok.

(* concrete witness = seeded change C14-r3prover3: trace 4096, ce blowup 2, cycle 4096, 2 threads *)
Theorem C14_periodic_local_index_refuted : exists cs, fragment_plan true (2 ^ 13) 2 = Done cs /\ length cs = 2 /\
  periodic_rows_local (2 ^ 13) cs <> periodic_rows_serial (2 ^ 13) (2 ^ 13).
Proof. exact periodic_local_index_refuted. Qed.
Print Assumptions C14_periodic_local_index_refuted.

(* ================================================================ proof-of-work nonce *)

(* nonce_any_spec: whatever candidate order the workers examine, the nonce returned satisfies the predicate the
   verifier checks.  This is the ONLY legitimate source of run-to-run difference. *)
Theorem C14_nonce_any_spec : forall (leading_zeros : nat -> nat) g order x,
  find_any_sched leading_zeros g order = Some x ->
  In x order /\ pow_ok leading_zeros g x = true /\ verifier_pow_accepts leading_zeros g x = true.
Proof. exact nonce_any_spec. Qed.
Print Assumptions C14_nonce_any_spec.

Theorem C14_nonce_none_spec : forall (leading_zeros : nat -> nat) g order,
  find_any_sched leading_zeros g order = None -> forall x, In x order -> verifier_pow_accepts leading_zeros g x = false.
Proof. exact nonce_none_spec. Qed.
Print Assumptions C14_nonce_none_spec.

Theorem C14_nonce_serial_is_one_schedule : forall (leading_zeros : nat -> nat) g bound,
  find_first leading_zeros g bound = find_any_sched leading_zeros g (seq 1 bound).
Proof. exact nonce_serial_is_one_schedule. Qed.
Print Assumptions C14_nonce_serial_is_one_schedule.

Theorem C14_nonce_schedules_may_differ : exists lz g o1 o2 x y,
  find_any_sched lz g o1 = Some x /\ find_any_sched lz g o2 = Some y /\ x <> y /\ Permutation o1 o2.
Proof. exact nonce_schedules_may_differ. Qed.
Print Assumptions C14_nonce_schedules_may_differ.
