(* C16 — constraints are enforced on exactly the intended steps.
   Only statements, `exact` of lemmas proved in Proofs/Enforce*.v, Print Assumptions, and non-vacuity Examples.

   Conventions.  Integer level: usize values are Z.  `valid a n` = the record satisfies the invariants the three
   constructors establish (wf) and validate_trace_length a n = VOk.  Field level: any F with FOps/FLaws, any
   n = 2^k < 2^64 and any g of exact multiplicative order n (g^n = 1, g^i <> 1 for 0 < i < n); `fpow` is the
   model of FieldElement::exp.  `evaluate_at` is numerator / denominator with the field's TOTAL division
   (x / 0 = x * inv 0 = 0): what it returns where the denominator vanishes is stated, not hidden. *)
From Coq Require Import ZArith List Bool Lia.
From VBase Require Import MachInt FieldOps.
From VModel Require Import Enforce EnforceLagrange.
From VGen Require Assertions.
From VProofs Require Import EnforceSteps EnforceField EnforceDivisor EnforceValue EnforceInst EnforceGen.
From VProofs Require Import EnforceLagrangeProofs EnforceLagrangeInst.
Import ListNotations.
Open Scope Z_scope.

(* ================================================================== ill-formed assertions are refused *)

(* the constructors accept exactly: stride a power of two >= 2, first < stride, #values a power of two *)
Theorem C16_ill_formed_refused_periodic : forall col first stride a,
  mk_periodic col first stride = Some a <->
  pow2 stride /\ 2 <= stride /\ first < stride /\ a = mkA col first stride 1.
Proof. exact mk_periodic_spec. Qed.
Print Assumptions C16_ill_formed_refused_periodic.

Theorem C16_ill_formed_refused_sequence : forall col first stride nvals a,
  mk_sequence col first stride nvals = Some a <->
  pow2 stride /\ 2 <= stride /\ first < stride /\ pow2 nvals /\
  a = mkA col first (if nvals =? 1 then 0 else stride) nvals.
Proof. exact mk_sequence_spec. Qed.
Print Assumptions C16_ill_formed_refused_sequence.

(* the records the constructors can produce are exactly the well-formed ones *)
Theorem C16_constructed_iff_wf : forall a,
  ((exists col step, 0 <= col /\ 0 <= step /\ mk_single col step = Some a) \/
   (exists col first stride, 0 <= col /\ 0 <= first /\ mk_periodic col first stride = Some a) \/
   (exists col first stride nvals, 0 <= col /\ 0 <= first /\ mk_sequence col first stride nvals = Some a))
  <-> wf a.
Proof. intros a. split; [apply constructed_wf|apply wf_constructed]. Qed.
Print Assumptions C16_constructed_iff_wf.

(* validate_trace_length accepts exactly: n a power of two and (single: step < n | periodic: stride <= n |
   sequence: #values * stride = n) *)
Theorem C16_ill_formed_refused_length : forall a n,
  validate_trace_length a n = VOk <->
  pow2 n /\ (if is_single a then a_first a < n
             else if is_periodic a then a_stride a <= n
             else a_nvals a * a_stride a = n /\ n < 2 ^ 64).
Proof. exact validate_trace_length_spec. Qed.
Print Assumptions C16_ill_formed_refused_length.

(* ================================================================== the steps an assertion names *)

(* single: {first}; periodic: first + i*stride below n; sequence: first + i*stride for i < #values *)
Theorem C16_steps_spec : forall a n s, valid a n ->
  (In s (steps a n) <->
   if is_single a then s = a_first a
   else if is_periodic a then exists i, 0 <= i /\ s = a_first a + i * a_stride a /\ s < n
   else exists i, 0 <= i < a_nvals a /\ s = a_first a + i * a_stride a).
Proof. exact steps_spec. Qed.
Print Assumptions C16_steps_spec.

Theorem C16_steps_in_domain_distinct_counted : forall a n, valid a n ->
  (forall s, In s (steps a n) -> 0 <= s < n) /\ NoDup (steps a n) /\
  get_num_steps a n = Some (Z.of_nat (length (steps a n))).
Proof.
  intros a n H. split; [intros s; apply steps_in_domain; exact H|].
  split; [apply steps_NoDup; exact H|apply steps_length; exact H].
Qed.
Print Assumptions C16_steps_in_domain_distinct_counted.

(* ================================================================== overlap *)

(* two assertions valid for a common trace length are reported as overlapping exactly when they name a common cell;
   overlaps_with never panics on them *)
Theorem C16_overlaps_iff : forall a b n, valid a n -> valid b n ->
  (overlaps_with a b = Some true <-> a_col a = a_col b /\ exists s, In s (steps a n) /\ In s (steps b n)) /\
  (overlaps_with a b = Some false <-> ~ (a_col a = a_col b /\ exists s, In s (steps a n) /\ In s (steps b n))).
Proof. exact overlaps_iff. Qed.
Print Assumptions C16_overlaps_iff.

(* prepare_assertions (the validation performed by BoundaryConstraints::new) accepts a list of constructor outputs exactly
   when every assertion fits the trace (column < width, valid for the length) and no two of them name a common cell *)
Theorem C16_prepare_accepts_iff : forall l w n, Forall wf l ->
  ((exists res, prepare_assertions l w n = inr res) <->
   Forall (fun a => a_col a < w /\ valid a n) l /\
   ForallOrdPairs (fun b a => ~ (a_col b = a_col a /\ exists s, In s (steps b n) /\ In s (steps a n))) l).
Proof. exact prepare_accepts_iff. Qed.
Print Assumptions C16_prepare_accepts_iff.

(* the glue in BoundaryConstraints::new: a pair of assertion lists (main segment, auxiliary segment) is accepted exactly when
   each list is accepted against ITS OWN segment's width (main_trace_width for the main list, aux_segment_width for the
   auxiliary list): an auxiliary assertion naming a column >= aux width is refused even if the column is < main + aux width *)
Theorem C16_segment_width_glue : forall main aux mw aw n, Forall wf main -> Forall wf aux ->
  ((exists res, boundary_prepare main aux mw aw n = inr res) <->
   (Forall (fun a => a_col a < mw /\ valid a n) main /\
    ForallOrdPairs (fun b a => ~ (a_col b = a_col a /\ exists s, In s (steps b n) /\ In s (steps a n))) main) /\
   (Forall (fun a => a_col a < aw /\ valid a n) aux /\
    ForallOrdPairs (fun b a => ~ (a_col b = a_col a /\ exists s, In s (steps b n) /\ In s (steps a n))) aux)).
Proof.
  intros main aux mw aw n Hm Ha.
  rewrite <- (prepare_accepts_iff main mw n Hm), <- (prepare_accepts_iff aux aw n Ha). unfold boundary_prepare.
  destruct (prepare_assertions main mw n) as [e|m]; destruct (prepare_assertions aux aw n) as [e'|a]; split.
  - intros (r & E). discriminate.
  - intros ((r & E) & _). discriminate.
  - intros (r & E). discriminate.
  - intros ((r & E) & _). discriminate.
  - intros (r & E). discriminate.
  - intros (_ & (r & E)). discriminate.
  - intros _. split; eexists; reflexivity.
  - intros _. eexists. reflexivity.
Qed.
Print Assumptions C16_segment_width_glue.

Example C16_segment_width_glue_examples :
  boundary_prepare [mkA 2 0 0 1] [mkA 1 0 0 1] 3 2 8 = inr ([mkA 2 0 0 1], [mkA 1 0 0 1]) /\
  boundary_prepare [mkA 0 0 0 1] [mkA 2 0 0 1] 3 2 8 = inl PEWidth /\
  boundary_prepare [mkA 0 0 0 1] [mkA 4 0 0 1] 3 2 8 = inl PEWidth /\
  boundary_prepare [mkA 3 0 0 1] [mkA 0 0 0 1] 3 2 8 = inl PEWidth /\
  boundary_prepare [mkA 0 0 0 1] [mkA 0 0 0 1; mkA 0 0 4 1] 3 2 8 = inl PEOverlap.
Proof. repeat split. Qed.

(* ================================================================== exemption bounds *)

Theorem C16_exemption_bounds_iff : forall n k ce degs,
  exemptions_ok n k ce degs = true <->
  0 < k /\ k <= n / 2 + 1 /\ forall d, In d degs -> d <= ce - 1 + n /\ k <= ce - 1 + n - d.
Proof. exact exemptions_ok_spec. Qed.
Print Assumptions C16_exemption_bounds_iff.

(* every accepted count leaves at least n/2 - 1 >= 3 enforced steps on a trace of length >= 8 *)
Theorem C16_exemption_bounds : forall n k ce degs, 8 <= n -> exemptions_ok n k ce degs = true ->
  1 <= k <= n / 2 + 1 /\ k < n /\ n / 2 - 1 <= n - k /\ 3 <= n - k.
Proof. exact exemption_bounds. Qed.
Print Assumptions C16_exemption_bounds.

(* ================================================================== the model equals the code regenerated from the source *)
(* Gen/Assertions.v is produced by rs2v from air/src/air/assertions/mod.rs on every run: for each Rust function `f`
   a value function `assertions_f` (wrapping arithmetic) and, where the function contains checked arithmetic,
   `assert!`s or unwraps, `assertions_f_ok` (true = the debug build does not panic).  `to_gen` / `of_gen` convert between
   the model's record and the generated record GAssertion (values vector = its length); `usize_a a` = all four
   fields are in [0, 2^64).  With these equalities the theorems above are statements about the generated terms. *)

Theorem C16_gen_single : forall col step,
  mk_single col step = Some (of_gen (Assertions.assertions_single col step tt)).
Proof. exact gen_single. Qed.
Print Assumptions C16_gen_single.

Theorem C16_gen_periodic : forall col first stride,
  mk_periodic col first stride =
  if Assertions.assertions_periodic_ok col first stride tt
  then Some (of_gen (Assertions.assertions_periodic col first stride tt)) else None.
Proof. exact gen_periodic. Qed.
Print Assumptions C16_gen_periodic.

Theorem C16_gen_sequence : forall col first stride nvals,
  mk_sequence col first stride nvals =
  if Assertions.assertions_sequence_ok col first stride nvals
  then Some (of_gen (Assertions.assertions_sequence col first stride nvals)) else None.
Proof. exact gen_sequence. Qed.
Print Assumptions C16_gen_sequence.

Theorem C16_gen_validate_stride : forall stride first col,
  Assertions.assertions_validate_stride_ok stride first col = validate_stride stride first.
Proof. exact gen_validate_stride. Qed.
Print Assumptions C16_gen_validate_stride.

Theorem C16_gen_kinds : forall a,
  Assertions.assertions_is_single (to_gen a) = is_single a /\
  Assertions.assertions_is_periodic (to_gen a) = is_periodic a /\
  Assertions.assertions_is_sequence (to_gen a) = is_sequence a.
Proof. intros a. split; [apply gen_is_single|split; [apply gen_is_periodic|apply gen_is_sequence]]. Qed.
Print Assumptions C16_gen_kinds.

Theorem C16_gen_overlaps_with : forall a b, usize_a a -> usize_a b ->
  overlaps_with a b =
  if Assertions.assertions_overlaps_with_ok (to_gen a) (to_gen b)
  then Some (Assertions.assertions_overlaps_with (to_gen a) (to_gen b)) else None.
Proof. exact gen_overlaps_with. Qed.
Print Assumptions C16_gen_overlaps_with.

Theorem C16_gen_validate_trace_width : forall a w,
  Assertions.assertions_validate_trace_width (to_gen a) w = if validate_trace_width a w then Some tt else None.
Proof. exact gen_validate_trace_width. Qed.
Print Assumptions C16_gen_validate_trace_width.

(* the generated side condition fails exactly where the model answers VOverflow; elsewhere Ok/Err agree *)
Theorem C16_gen_validate_trace_length : forall a n, usize_a a ->
  Assertions.assertions_validate_trace_length_ok (to_gen a) n =
    match validate_trace_length a n with VOverflow => false | _ => true end /\
  (validate_trace_length a n <> VOverflow ->
   Assertions.assertions_validate_trace_length (to_gen a) n =
     match validate_trace_length a n with VOk => Some tt | _ => None end).
Proof.
  intros a n H. split; [apply gen_validate_trace_length_ok; exact H|apply gen_validate_trace_length; exact H].
Qed.
Print Assumptions C16_gen_validate_trace_length.

Theorem C16_gen_get_num_steps : forall a n, usize_a a ->
  get_num_steps a n =
  if Assertions.assertions_get_num_steps_ok (to_gen a) n
  then Some (Assertions.assertions_get_num_steps (to_gen a) n) else None.
Proof. exact gen_get_num_steps. Qed.
Print Assumptions C16_gen_get_num_steps.

(* C16_overlaps_iff restated on the generated code: no panic, and true exactly on a common cell *)
Theorem C16_gen_overlaps_iff : forall a b n, usize_a a -> usize_a b -> valid a n -> valid b n ->
  Assertions.assertions_overlaps_with_ok (to_gen a) (to_gen b) = true /\
  (Assertions.assertions_overlaps_with (to_gen a) (to_gen b) = true <->
   a_col a = a_col b /\ exists s, In s (steps a n) /\ In s (steps b n)).
Proof. exact gen_overlaps_iff. Qed.
Print Assumptions C16_gen_overlaps_iff.

Example C16_gen_nonvacuous :
  usize_a (mkA 0 1 4 1) /\ usize_a (mkA 0 3 8 2) /\
  Assertions.assertions_overlaps_with_ok (to_gen (mkA 0 1 4 1)) (to_gen (mkA 0 5 0 1)) = true /\
  Assertions.assertions_overlaps_with (to_gen (mkA 0 1 4 1)) (to_gen (mkA 0 5 0 1)) = true /\
  Assertions.assertions_get_num_steps_ok (to_gen (mkA 0 3 8 2)) 16 = true /\
  Assertions.assertions_get_num_steps (to_gen (mkA 0 3 8 2)) 16 = 2 /\
  Assertions.assertions_get_num_steps_ok (to_gen (mkA 0 3 8 2)) 32 = false /\
  Assertions.assertions_sequence_ok 0 3 8 2 = true /\ Assertions.assertions_sequence_ok 0 8 8 2 = false /\
  Assertions.assertions_validate_trace_length_ok (to_gen (mkA 0 (2 ^ 64 - 1) 0 1)) 8 = false.
Proof. unfold usize_a, usize; cbn. repeat split; lia. Qed.

(* ================================================================== field level *)
Section Field.
  Context {F : Type} (Fo : FOps F) (L : FLaws Fo).
  Variables (g : F) (n : Z).
  Hypothesis Hpow2 : exists k, 0 <= k /\ n = 2 ^ k.
  Hypothesis Hn64 : n < 2 ^ 64.
  Hypothesis Hgn : fpow Fo g n = fone Fo.
  Hypothesis Hord : forall i, 0 < i < n -> fpow Fo g i <> fone Fo.

  (* ---- transition divisor (x^n - 1) / prod_{s = n-k}^{n-1} (x - g^s) *)

  (* on the trace domain: the numerator vanishes everywhere, the denominator exactly on the last k steps; hence the
     rational function has an uncancelled zero at g^i iff i < n - k *)
  Theorem C16_transition_divisor_zero_set : forall k d i, 0 <= k <= n -> from_transition Fo g n k = Some d -> 0 <= i < n ->
    eval_numerator Fo d (fpow Fo g i) = fzero Fo /\
    (eval_exemptions Fo d (fpow Fo g i) = fzero Fo <-> n - k <= i).
  Proof. intros k d i Hk E Hi. eapply transition_divisor_zero_set; eassumption. Qed.

  (* the quotient is the polynomial Zt k x = prod_{s < n-k} (x - g^s): numerator = Zt * denominator for EVERY x,
     evaluate_at returns Zt wherever the denominator is non-zero, and Zt vanishes exactly at the enforced steps *)
  Theorem C16_transition_divisor_is_polynomial : forall k d x, 0 <= k <= n -> from_transition Fo g n k = Some d ->
    eval_numerator Fo d x = fmul Fo (Zt Fo g n k x) (eval_exemptions Fo d x) /\
    (eval_exemptions Fo d x <> fzero Fo -> evaluate_at Fo d x = Zt Fo g n k x) /\
    (Zt Fo g n k x = fzero Fo <-> exists i, 0 <= i < n - k /\ x = fpow Fo g i).
  Proof.
    intros k d x Hk E. split; [eapply transition_divisor_quotient; eassumption|].
    split; [eapply transition_evaluate_at_agrees; eassumption|].
    eapply Zt_zero_set; eassumption.
  Qed.

  (* the totalisation, stated: on the k exempt steps evaluate_at returns 0/0 := 0 although the quotient polynomial is
     non-zero there; on the whole trace domain the code's evaluate_at is 0 *)
  Theorem C16_transition_evaluate_at_exempt_is_zero : forall k d i, 0 <= k <= n -> from_transition Fo g n k = Some d -> 0 <= i < n ->
    evaluate_at Fo d (fpow Fo g i) = fzero Fo /\
    (n - k <= i -> eval_exemptions Fo d (fpow Fo g i) = fzero Fo /\ Zt Fo g n k (fpow Fo g i) <> fzero Fo).
  Proof. intros k d i Hk E Hi. eapply transition_evaluate_at_on_domain; eassumption. Qed.

  Theorem C16_transition_divisor_degree : forall k d, 0 <= k <= n -> from_transition Fo g n k = Some d ->
    d_degree d = Some (n - k).
  Proof. intros k d Hk E. eapply transition_degree; eassumption. Qed.

  (* ---- assertion divisors x^m - g^(m * first) *)

  Theorem C16_assertion_divisor_zero_set : forall a d i, valid a n -> from_assertion Fo g a n = Some d -> 0 <= i < n ->
    (evaluate_at Fo d (fpow Fo g i) = fzero Fo <-> In i (steps a n)).
  Proof. intros a d i Hv E Hi. eapply assertion_divisor_zero_set; eassumption. Qed.

  (* over the whole field, not only on the trace domain *)
  Theorem C16_assertion_divisor_zero_set_all : forall a d x, valid a n -> from_assertion Fo g a n = Some d ->
    (evaluate_at Fo d x = fzero Fo <-> exists s, In s (steps a n) /\ x = fpow Fo g s).
  Proof. intros a d x Hv E. eapply assertion_divisor_zero_set_all; eassumption. Qed.

  (* from_assertion never panics on a valid assertion; its degree is the number of named steps *)
  Theorem C16_assertion_divisor_defined : forall a, valid a n ->
    exists d, from_assertion Fo g a n = Some d /\ d_degree d = Some (Z.of_nat (length (steps a n))).
  Proof.
    intros a Hv. assert (H : exists m, get_num_steps a n = Some m /\ 0 < m <= n /\
      (is_single a = true -> m = 1) /\ (is_single a = false -> n = m * a_stride a) /\
      from_assertion Fo g a n = Some (mkD [(m, fpow Fo g (m * a_first a))] []))
      by (eapply from_assertion_spec; eassumption).
    destruct H as (m & _ & _ & _ & _ & E). eexists. split; [exact E|].
    assert (H2 : d_degree (mkD [(m, fpow Fo g (m * a_first a))] []) = get_num_steps a n /\
                 d_degree (mkD [(m, fpow Fo g (m * a_first a))] []) = Some (Z.of_nat (length (steps a n))))
      by (eapply assertion_degree; eassumption).
    exact (proj2 H2).
  Qed.

  (* assertions grouped under the key (stride, first_step) share one divisor *)
  Theorem C16_group_key_sound : forall a b, valid a n -> valid b n -> group_key a = group_key b ->
    from_assertion Fo g a n = from_assertion Fo g b n.
  Proof. intros a b Ha Hb K. eapply group_key_sound; eassumption. Qed.

  (* ---- value polynomial *)

  (* single / periodic: the constant *)
  Theorem C16_assertion_value_constant : forall inv_g a v x tv,
    bc_evaluate_at Fo (bc_new Fo a [v] inv_g) x tv = fsub Fo tv v.
  Proof. intros. reflexivity. Qed.

  (* sequence assertions: for inv_g = g^-1 (context.trace_domain_generator.inv()), values vals, 0 <= j < #values, the
     value polynomial (inverse DFT of vals) evaluated through the domain shift poly_offset at the j-th named step
     g^(first + j*stride) is vals[j]: the boundary constraint there is trace_value - vals[j].
     Hofz: `fofz` (the conversion of the length into a field element) is the canonical image of the naturals --
     not one of the FLaws; that the length is invertible (characteristic <> 2) follows from the order of g. *)
  Theorem C16_assertion_value_spec : forall inv_g a vals j tv,
    fmul Fo g inv_g = fone Fo -> (forall k : nat, fofz Fo (Z.of_nat k) = fnat Fo k) ->
    valid a n -> is_sequence a = true -> Z.of_nat (length vals) = a_nvals a -> 0 <= j < a_nvals a ->
    In (a_first a + j * a_stride a) (steps a n) /\
    bc_evaluate_at Fo (bc_new Fo a vals inv_g) (fpow Fo g (a_first a + j * a_stride a)) tv
    = fsub Fo tv (nth (Z.to_nat j) vals (fzero Fo)).
  Proof. intros inv_g a vals j tv Hinv Hofz Hv Hs Hl Hj. eapply assertion_value_spec; eassumption. Qed.

  (* the same without Hofz, given the interpolation property of the coefficient list (kept: it isolates what the
     domain shift contributes from what the interpolation contributes) *)
  Theorem C16_assertion_value_spec_partial : forall inv_g a vals j tv,
    fmul Fo g inv_g = fone Fo ->
    valid a n -> is_sequence a = true -> Z.of_nat (length vals) = a_nvals a -> 0 <= j < a_nvals a ->
    (forall i, 0 <= i < a_nvals a ->
       poly_eval Fo (idft Fo (fpow Fo inv_g (a_stride a)) (finv Fo (fofz Fo (a_nvals a))) vals)
                 (fpow Fo (fpow Fo g (a_stride a)) i)
       = nth (Z.to_nat i) vals (fzero Fo)) ->
    In (a_first a + j * a_stride a) (steps a n) /\
    bc_evaluate_at Fo (bc_new Fo a vals inv_g) (fpow Fo g (a_first a + j * a_stride a)) tv
    = fsub Fo tv (nth (Z.to_nat j) vals (fzero Fo)).
  Proof. intros inv_g a vals j tv Hinv Hv Hs Hl Hj Hint. eapply assertion_value_spec_partial; eassumption. Qed.
End Field.

Print Assumptions C16_transition_divisor_zero_set.
Print Assumptions C16_transition_divisor_is_polynomial.
Print Assumptions C16_transition_evaluate_at_exempt_is_zero.
Print Assumptions C16_transition_divisor_degree.
Print Assumptions C16_assertion_divisor_zero_set.
Print Assumptions C16_assertion_divisor_zero_set_all.
Print Assumptions C16_assertion_divisor_defined.
Print Assumptions C16_group_key_sound.
Print Assumptions C16_assertion_value_constant.
Print Assumptions C16_assertion_value_spec.
Print Assumptions C16_assertion_value_spec_partial.

(* ================================================================== non-vacuity *)

(* the field-level hypotheses are satisfiable: Z/97, g = 8 of exact order 16 *)
Example C16_field_hypotheses_satisfiable :
  FLaws f97_ops /\ (exists k, 0 <= k /\ 16 = 2 ^ k) /\ 16 < 2 ^ 64 /\
  fpow f97_ops g16 16 = fone f97_ops /\ (forall i, 0 < i < 16 -> fpow f97_ops g16 i <> fone f97_ops).
Proof.
  split; [exact f97_laws|]. split; [exact sixteen_pow2|]. split; [reflexivity|].
  split; [exact g16_pow_16|exact g16_order].
Qed.

(* valid assertions of the three kinds exist for n = 16, overlapping and disjoint ones *)
Example C16_valid_single : valid (mkA 0 5 0 1) 16.
Proof. split; [unfold wf; cbn; lia|reflexivity]. Qed.
Example C16_valid_periodic : valid (mkA 0 1 4 1) 16.
Proof. split; [unfold wf; cbn; repeat split; try lia; right; repeat split; try lia; [exists 2|exists 0]; split; (lia || reflexivity)|reflexivity]. Qed.
Example C16_valid_sequence : valid (mkA 0 3 8 2) 16.
Proof. split; [unfold wf; cbn; repeat split; try lia; right; repeat split; try lia; [exists 3|exists 1]; split; (lia || reflexivity)|reflexivity]. Qed.
Example C16_steps_examples :
  steps (mkA 0 5 0 1) 16 = [5] /\ steps (mkA 0 1 4 1) 16 = [1; 5; 9; 13] /\ steps (mkA 0 3 8 2) 16 = [3; 11].
Proof. repeat split. Qed.
Example C16_overlap_examples :
  overlaps_with (mkA 0 5 0 1) (mkA 0 1 4 1) = Some true /\ overlaps_with (mkA 0 1 4 1) (mkA 0 3 8 2) = Some false /\
  overlaps_with (mkA 0 3 8 2) (mkA 0 3 4 1) = Some true /\ overlaps_with (mkA 0 5 0 1) (mkA 1 1 4 1) = Some false.
Proof. repeat split. Qed.

(* the theorems instantiated on Z/97 and the models run by vm_compute: n = 16, k = 3 exemptions *)
Example C16_transition_instance : forall d i, from_transition f97_ops g16 16 3 = Some d -> 0 <= i < 16 ->
  eval_numerator f97_ops d (fpow f97_ops g16 i) = fzero f97_ops /\
  (eval_exemptions f97_ops d (fpow f97_ops g16 i) = fzero f97_ops <-> 13 <= i).
Proof.
  intros d i E Hi. change 13 with (16 - 3).
  apply (C16_transition_divisor_zero_set f97_ops f97_laws g16 16 sixteen_pow2 eq_refl g16_pow_16 g16_order 3 d i); [lia|exact E|exact Hi].
Qed.
Example C16_transition_run :
  option_map exemption_pattern (from_transition f97_ops g16 16 3)
  = Some [false;false;false;false;false;false;false;false;false;false;false;false;false;true;true;true] /\
  option_map zero_pattern (from_transition f97_ops g16 16 3) = Some (repeat true 16) /\
  option_map (@d_degree F97) (from_transition f97_ops g16 16 3) = Some (Some 13).
Proof. vm_compute. repeat split. Qed.
Example C16_assertion_run :
  option_map zero_pattern (from_assertion f97_ops g16 (mkA 0 1 4 1) 16)
  = Some [false;true;false;false;false;true;false;false;false;true;false;false;false;true;false;false] /\
  option_map zero_pattern (from_assertion f97_ops g16 (mkA 0 3 8 2) 16)
  = Some [false;false;false;true;false;false;false;false;false;false;false;true;false;false;false;false] /\
  option_map zero_pattern (from_assertion f97_ops g16 (mkA 0 5 0 1) 16)
  = Some [false;false;false;false;false;true;false;false;false;false;false;false;false;false;false;false].
Proof. vm_compute. repeat split. Qed.
(* value polynomial of the sequence assertion (column 0, first 3, stride 8, values [10; 20]) at its two steps 3, 11 *)
Example C16_value_run :
  let c := bc_new f97_ops (mkA 0 3 8 2) [mk 10; mk 20] (finv f97_ops g16) in
  map (fun s => val (bc_evaluate_at f97_ops c (fpow f97_ops g16 s) (fzero f97_ops))) [3; 11]
  = [(- 10) mod 97; (- 20) mod 97].
Proof. vm_compute. reflexivity. Qed.
Example C16_prepare_examples :
  prepare_assertions [mkA 0 5 0 1; mkA 0 1 4 1] 1 16 = inl PEOverlap /\
  prepare_assertions [mkA 0 3 8 2; mkA 0 1 4 1; mkA 0 0 0 1] 1 16 = inr [mkA 0 0 0 1; mkA 0 1 4 1; mkA 0 3 8 2] /\
  prepare_assertions [mkA 1 0 0 1] 1 16 = inl PEWidth /\ prepare_assertions [mkA 0 0 8 4] 1 16 = inl PELength.
Proof. repeat split. Qed.
Example C16_value_instance : forall tv,
  bc_evaluate_at f97_ops (bc_new f97_ops (mkA 0 3 8 2) [mk 10; mk 20] (finv f97_ops g16)) (fpow f97_ops g16 (3 + 1 * 8)) tv
  = fsub f97_ops tv (mk 20).
Proof.
  intros tv.
  exact (proj2 (C16_assertion_value_spec f97_ops f97_laws g16 16 sixteen_pow2 g16_pow_16 g16_order (finv f97_ops g16)
                  (mkA 0 3 8 2) [mk 10; mk 20] 1 tv g16_inv f97_fofz C16_valid_sequence eq_refl eq_refl ltac:(cbn; lia))).
Qed.
Example C16_exemptions_example : exemptions_ok 16 9 32 [15] = true /\ exemptions_ok 16 10 32 [15] = false /\ exemptions_ok 16 0 32 [15] = false.
Proof. repeat split. Qed.

(* ================================================================== Lagrange kernel constraints *)
(* air/src/air/lagrange/{transition,boundary,frame,mod}.rs, model Model/EnforceLagrange.v.  Trace length n = 2^v.
   An AIR with a Lagrange kernel column draws `lag_num_coefficients n` = trace_len.ilog2() transition coefficients and
   LagrangeKernelTransitionConstraints::new builds one divisor per coefficient.  Constraint k (numbered from 1, as in
   evaluate_numerators) has the divisor x^(2^(k-1)) - 1 and the numerator r[v-k]*c[0] - (1 - r[v-k])*c[v-k+1], where the
   frame entry c[v-k+1] is the column at g^(2^(v-k)) * x.  `lag_rows n k` (the multiples of n / 2^(k-1)) is the intended
   enforcement domain, `lag_shift n k` = n / 2^k the distance to the second row read, `lag_reads n k i` both rows. *)

Theorem C16_lagrange_number_is_log2 : forall v, 0 <= v -> lag_num_coefficients (2 ^ v) = v.
Proof. exact lag_num_coefficients_spec. Qed.
Print Assumptions C16_lagrange_number_is_log2.

(* the intended enforcement domain of constraint k: the 2^(k-1) multiples of 2^(v-k+1) below n *)
Theorem C16_lagrange_rows_spec : forall v k i, 0 <= v -> 1 <= k <= v ->
  (In i (lag_rows (2 ^ v) k) <-> 0 <= i < 2 ^ v /\ (2 ^ (v - k + 1) | i)) /\
  NoDup (lag_rows (2 ^ v) k) /\ Z.of_nat (length (lag_rows (2 ^ v) k)) = 2 ^ (k - 1).
Proof.
  intros v k i Hv Hk. split; [apply lag_rows_spec; assumption|].
  split; [apply lag_rows_NoDup; assumption|apply lag_rows_length; assumption].
Qed.
Print Assumptions C16_lagrange_rows_spec.

(* the domains are nested and their union is the last one: the rows of even index.  On a row of odd index no Lagrange
   transition constraint is enforced (by design: such a row is only ever the SECOND row of a constraint) *)
Theorem C16_lagrange_union_is_even_rows : forall v i, 1 <= v ->
  ((exists k, 1 <= k <= v /\ In i (lag_rows (2 ^ v) k)) <-> 0 <= i < 2 ^ v /\ (2 | i)) /\
  (forall k, 1 <= k < v -> In i (lag_rows (2 ^ v) k) -> In i (lag_rows (2 ^ v) (k + 1))).
Proof.
  intros v i Hv. split; [apply lag_rows_union; lia|]. intros k Hk. apply lag_rows_nested; lia.
Qed.
Print Assumptions C16_lagrange_union_is_even_rows.

(* coverage: every row except row 0 is the second row of EXACTLY ONE enforced (constraint, row) pair, without
   wrap-around; row 0 never is (it is pinned by the boundary constraint, whose denominator is x - 1) *)
Theorem C16_lagrange_every_row_covered_once : forall v j, 0 <= v -> 0 < j < 2 ^ v ->
  exists k i, (1 <= k <= v /\ In i (lag_rows (2 ^ v) k) /\ j = i + lag_shift (2 ^ v) k) /\
    forall k' i', 1 <= k' <= v -> In i' (lag_rows (2 ^ v) k') -> j = i' + lag_shift (2 ^ v) k' -> k' = k /\ i' = i.
Proof.
  intros v j Hv Hj. destruct (lag_target_exists v Hv j Hj) as (k & i & Hk & Hi & E).
  exists k, i. split; [auto|]. intros k' i' Hk' Hi' E'.
  exact (lag_target_unique v Hv j k' i' k i Hk' Hk Hi' Hi E' E).
Qed.
Print Assumptions C16_lagrange_every_row_covered_once.

Theorem C16_lagrange_row0_exempt : forall v k i, 0 <= v -> 1 <= k <= v -> In i (lag_rows (2 ^ v) k) ->
  0 < i + lag_shift (2 ^ v) k < 2 ^ v /\ (i + lag_shift (2 ^ v) k) mod 2 ^ v = i + lag_shift (2 ^ v) k.
Proof. intros v k i Hv. apply lag_target_in_range. exact Hv. Qed.
Print Assumptions C16_lagrange_row0_exempt.

(* a row of odd index is read by the LAST constraint only (k = v = log2 n, as the successor of an even row) *)
Theorem C16_lagrange_odd_rows_last_only : forall v j k i, 0 <= v -> 1 <= k <= v ->
  In i (lag_rows (2 ^ v) k) -> In j (lag_reads (2 ^ v) k i) -> ~ (2 | j) -> k = v /\ j = i + 1.
Proof. intros v j k i Hv. apply lag_odd_row_last_only. exact Hv. Qed.
Print Assumptions C16_lagrange_odd_rows_last_only.

(* REFUTED: "the first log2(n) - 1 constraints cover every row".  Witness n = 8: the rows 1, 3, 5, 7 are read by no
   enforced instance of constraints 1 and 2; constraint 3 reads each of them exactly once *)
Theorem C16_lagrange_cover_without_last_refuted :
  exists n j, n = 8 /\ 0 < j < n /\
    ~ (exists k i, 1 <= k <= lag_num_coefficients n - 1 /\ In i (lag_rows n k) /\ In j (lag_reads n k i)).
Proof. exact lag_cover_without_last_refuted. Qed.
Print Assumptions C16_lagrange_cover_without_last_refuted.

Theorem C16_lagrange_cover_without_last_refuted_rows : forall j, In j [1; 3; 5; 7] ->
  lag_readers 8 (lag_num_coefficients 8 - 1) j = [] /\ lag_readers 8 (lag_num_coefficients 8) j = [(3, j - 1)].
Proof. exact lag_cover_without_last_refuted_all. Qed.
Print Assumptions C16_lagrange_cover_without_last_refuted_rows.

Section LagrangeField.
  Context {F : Type} (Fo : FOps F) (L : FLaws Fo).
  Variables (g : F) (v : Z).
  Hypothesis Hv : 0 <= v.
  Hypothesis Hv64 : v < 64.
  Hypothesis Hgn : fpow Fo g (2 ^ v) = fone Fo.
  Hypothesis Hord : forall i, 0 < i < 2 ^ v -> fpow Fo g i <> fone Fo.

  (* the number of constraints is log2 n, there are as many divisors as coefficients (the zip of evaluate_and_combine
     drops nothing), and the divisor of constraint k is x^(2^(k-1)) - 1 with no exemption point *)
  Theorem C16_lagrange_count : forall coefs, Z.of_nat (length coefs) = lag_num_coefficients (2 ^ v) ->
    exists t, lag_new Fo coefs = Some t /\ l_coef t = coefs /\
      lag_num_constraints t = v /\ Z.of_nat (length (l_div t)) = v /\
      forall k, 1 <= k <= v -> zidx (l_div t) (k - 1) = Some (mkD [(2 ^ (k - 1), fone Fo)] []).
  Proof. exact (lag_count Fo v Hv Hv64). Qed.

  (* new() panics (debug build: overflow of 2_usize.pow) on more than 64 coefficients, and on no other input *)
  Theorem C16_lagrange_new_defined : forall coefs,
    (Z.of_nat (length coefs) <= 64 -> exists t, lag_new Fo coefs = Some t) /\
    (64 < Z.of_nat (length coefs) -> lag_new Fo coefs = None).
  Proof.
    intros coefs. split; [intros H; eexists; apply (lag_new_spec Fo 0); exact H|apply (lag_new_refuses Fo 0)].
  Qed.

  (* enforcement_exact: constraint k is enforced on EXACTLY the rows of its subgroup -- on the trace domain, and the
     divisor has no other zero in the whole field; its denominator is the constant 1 (no 0/0 totalisation) *)
  Theorem C16_lagrange_enforcement_exact : forall k i, 1 <= k <= v -> 0 <= i < 2 ^ v ->
    (evaluate_at Fo (mkD [(2 ^ (k - 1), fone Fo)] []) (fpow Fo g i) = fzero Fo <-> In i (lag_rows (2 ^ v) k)).
  Proof. exact (lag_enforcement_exact Fo L g v Hv Hv64 Hgn Hord). Qed.

  Theorem C16_lagrange_enforcement_exact_all : forall k x, 1 <= k <= v ->
    (evaluate_at Fo (mkD [(2 ^ (k - 1), fone Fo)] []) x = fzero Fo <->
     exists i, In i (lag_rows (2 ^ v) k) /\ x = fpow Fo g i) /\
    eval_exemptions Fo (mkD [(2 ^ (k - 1), fone Fo)] []) x = fone Fo.
  Proof.
    intros k x Hk. split; [exact (lag_enforcement_exact_all Fo L g v Hv Hv64 Hgn Hord k x Hk)|reflexivity].
  Qed.

  (* the boundary constraint (denominator x - 1) is enforced on row 0 only *)
  Theorem C16_lagrange_boundary_row : forall i, 0 <= i < 2 ^ v ->
    (lag_boundary_denominator Fo (fpow Fo g i) = fzero Fo <-> i = 0).
  Proof. exact (lag_boundary_row Fo L g v Hv Hv64 Hgn Hord). Qed.

  (* which cells a numerator relates: on the frame of row i, numerator k is r[v-k]*col[i] - (1 - r[v-k])*col[i + 2^(v-k)] *)
  Theorem C16_lagrange_numerator_reads : forall col r k i rk, 1 <= k <= v -> zidx r (v - k) = Some rk ->
    lag_raw Fo (lag_frame_at_row Fo col (2 ^ v) v i) r k =
    Some (fsub Fo (fmul Fo rk (nth (Z.to_nat i) col (fzero Fo)))
                  (fmul Fo (fsub Fo (fone Fo) rk) (nth (Z.to_nat ((i + 2 ^ (v - k)) mod 2 ^ v)) col (fzero Fo)))).
  Proof. exact (lag_raw_at_row Fo v Hv). Qed.

  (* the frame from_lagrange_kernel_column_poly builds at a trace-domain point is the frame of that row *)
  Theorem C16_lagrange_frame_from_poly : forall poly col i,
    (forall j, 0 <= j < 2 ^ v -> poly_eval Fo poly (fpow Fo g j) = nth (Z.to_nat j) col (fzero Fo)) -> 0 <= i < 2 ^ v ->
    lag_frame_from_poly Fo g v poly (fpow Fo g i) = lag_frame_at_row Fo col (2 ^ v) v i.
  Proof. exact (lag_frame_from_poly_on_domain Fo L g v Hv Hv64 Hgn Hord). Qed.

  (* completeness: on the Lagrange kernel column every numerator vanishes on every row of its enforcement domain *)
  Theorem C16_lagrange_honest_numerators_vanish : forall r k i, Z.of_nat (length r) = v -> 1 <= k <= v ->
    In i (lag_rows (2 ^ v) k) ->
    lag_raw Fo (lag_frame_at_row Fo (lag_kernel_col Fo r (2 ^ v)) (2 ^ v) v i) r k = Some (fzero Fo).
  Proof. exact (lag_honest_numerator_zero Fo L v Hv). Qed.

  (* soundness of the enforcement domains: ALL v constraints on their domains plus the boundary cell determine the
     column -- every row is constrained *)
  Theorem C16_lagrange_constraints_determine_column : forall col r, Z.of_nat (length r) = v ->
    (forall rb, In rb r -> fsub Fo (fone Fo) rb <> fzero Fo) ->
    nth 0 col (fzero Fo) = lag_assertion_value Fo r ->
    (forall k i, 1 <= k <= v -> In i (lag_rows (2 ^ v) k) ->
       lag_raw Fo (lag_frame_at_row Fo col (2 ^ v) v i) r k = Some (fzero Fo)) ->
    forall j, 0 <= j < 2 ^ v -> nth (Z.to_nat j) col (fzero Fo) = lag_kernel_cell Fo r j.
  Proof. exact (lag_constraints_determine Fo L v Hv). Qed.
End LagrangeField.

Print Assumptions C16_lagrange_count.
Print Assumptions C16_lagrange_new_defined.
Print Assumptions C16_lagrange_enforcement_exact.
Print Assumptions C16_lagrange_enforcement_exact_all.
Print Assumptions C16_lagrange_boundary_row.
Print Assumptions C16_lagrange_numerator_reads.
Print Assumptions C16_lagrange_frame_from_poly.
Print Assumptions C16_lagrange_honest_numerators_vanish.
Print Assumptions C16_lagrange_constraints_determine_column.

(* REFUTED: "the first log2(n) - 1 constraints and the boundary cell determine the column".  Witness over Z/97, n = 8,
   r = (2, 3, 5): the Lagrange kernel column with the cell of row 5 replaced passes constraints 1 and 2 on their whole
   domains and has the asserted cell in row 0 *)
Theorem C16_lagrange_determine_without_last_refuted :
  exists (col r : list F97), Z.of_nat (length r) = 3 /\
    (forall rb, In rb r -> fsub f97_ops (fone f97_ops) rb <> fzero f97_ops) /\
    nth 0 col (fzero f97_ops) = lag_assertion_value f97_ops r /\
    (forall k i, 1 <= k <= 3 - 1 -> In i (lag_rows (2 ^ 3) k) ->
       lag_raw f97_ops (lag_frame_at_row f97_ops col (2 ^ 3) 3 i) r k = Some (fzero f97_ops)) /\
    ~ (forall j, 0 <= j < 2 ^ 3 -> nth (Z.to_nat j) col (fzero f97_ops) = lag_kernel_cell f97_ops r j).
Proof. exact lag_determine_without_last_refuted. Qed.
Print Assumptions C16_lagrange_determine_without_last_refuted.

(* non-vacuity: the hypotheses of the section hold for n = 8 over Z/97 (g = 64 of exact order 8); the model run inside
   Coq: 3 constraints, zero patterns of the three divisors over the trace domain, numerators of the honest and of the
   corrupted column *)
Example C16_lagrange_hypotheses_satisfiable : 0 <= 3 /\ 3 < 64 /\ fpow f97_ops g8 (2 ^ 3) = fone f97_ops /\
  (forall i, 0 < i < 2 ^ 3 -> fpow f97_ops g8 i <> fone f97_ops).
Proof. exact lag_instance_hyps. Qed.
Example C16_lagrange_run :
  option_map (fun t => (lag_num_constraints t, Z.of_nat (length (l_div t)))) (lag_new f97_ops co3) = Some (3, 3) /\
  (forall t, lag_new f97_ops co3 = Some t ->
     lag_zero_pattern8 t 1 = Some [true; false; false; false; false; false; false; false] /\
     lag_zero_pattern8 t 2 = Some [true; false; false; false; true; false; false; false] /\
     lag_zero_pattern8 t 3 = Some [true; false; true; false; true; false; true; false] /\
     lag_zero_pattern8 t 4 = None) /\
  lag_rows 8 1 = [0] /\ lag_rows 8 2 = [0; 4] /\ lag_rows 8 3 = [0; 2; 4; 6] /\
  lag_shift 8 1 = 4 /\ lag_shift 8 2 = 2 /\ lag_shift 8 3 = 1.
Proof. exact lag_run_new. Qed.
Example C16_lagrange_run_numerators :
  raws8 honest8 1 = [Some 0] /\ raws8 honest8 2 = [Some 0; Some 0] /\ raws8 honest8 3 = [Some 0; Some 0; Some 0; Some 0] /\
  raws8 corrupt8 1 = [Some 0] /\ raws8 corrupt8 2 = [Some 0; Some 0] /\
  (exists x, x <> 0 /\ raws8 corrupt8 3 = [Some 0; Some 0; Some x; Some 0]).
Proof. exact lag_run_numerators. Qed.
Example C16_lagrange_determine_instance : forall col,
  nth 0 col (fzero f97_ops) = lag_assertion_value f97_ops r3 ->
  (forall k i, 1 <= k <= 3 -> In i (lag_rows (2 ^ 3) k) ->
     lag_raw f97_ops (lag_frame_at_row f97_ops col (2 ^ 3) 3 i) r3 k = Some (fzero f97_ops)) ->
  forall j, 0 <= j < 2 ^ 3 -> nth (Z.to_nat j) col (fzero f97_ops) = lag_kernel_cell f97_ops r3 j.
Proof. exact lag_determine_instance. Qed.
