(* C07 — base fields: arithmetic equals integer arithmetic modulo the prime.
   Only statements, `exact` of lemmas proved in Proofs/, and Print Assumptions. *)
From VBase Require Import MachInt.
From VGen Require Import F64.
From VProofs Require Import F64Red F64Ops.
Open Scope Z_scope.

(* f64: Montgomery reduction, generated from math/src/field/f64/mod.rs *)
Theorem C07_f64_mont_red : forall x, 0 <= x < 2^64 * M ->
  0 <= f64_mont_red_cst x < M /\ (f64_mont_red_cst x * 2^64) mod M = x mod M.
Proof. exact mont_red_cst_spec. Qed.
Print Assumptions C07_f64_mont_red.

Theorem C07_f64_mul : forall a b, repr a -> repr b ->
  repr (f64_mul a b) /\ val (f64_mul a b) = (val a * val b) mod M.
Proof. exact f64_mul_spec. Qed.
Print Assumptions C07_f64_mul.

Theorem C07_f64_new : forall v, 0 <= v < 2^64 -> repr (f64_new v) /\ val (f64_new v) = v mod M.
Proof. exact f64_new_spec. Qed.
Print Assumptions C07_f64_new.

Theorem C07_f64_as_int : forall x, 0 <= x < 2^64 -> f64_as_int x = val x.
Proof. exact f64_as_int_spec. Qed.
Print Assumptions C07_f64_as_int.

Theorem C07_f64_add : forall a b, repr a -> repr b -> f64_add a b = (a + b) mod M.
Proof. exact f64_add_eq. Qed.
Print Assumptions C07_f64_add.

Theorem C07_f64_sub : forall a b, repr a -> repr b -> f64_sub a b = (a - b) mod M.
Proof. exact f64_sub_eq. Qed.
Print Assumptions C07_f64_sub.

Theorem C07_f64_neg : forall a, repr a -> f64_neg a = (- a) mod M.
Proof. exact f64_neg_eq. Qed.
Print Assumptions C07_f64_neg.

Theorem C07_f64_double : forall a, repr a -> f64_double a = (2 * a) mod M.
Proof. exact f64_double_eq. Qed.
Print Assumptions C07_f64_double.

Theorem C07_f64_mul_small : forall a r, repr a -> 0 <= r < 2^32 ->
  repr (f64_mul_small a r) /\ f64_mul_small a r = (a * r) mod M.
Proof. exact f64_mul_small_spec. Qed.
Print Assumptions C07_f64_mul_small.

Theorem C07_f64_eq : forall a b, 0 <= a < 2^64 -> 0 <= b < 2^64 -> f64_eq a b = (a =? b).
Proof. exact f64_eq_spec. Qed.
Print Assumptions C07_f64_eq.

Theorem C07_f64_val_inj : forall a b, repr a -> repr b -> val a = val b -> a = b.
Proof. exact val_inj. Qed.
Print Assumptions C07_f64_val_inj.
