(* C07 — base fields: arithmetic equals integer arithmetic modulo the prime.
   Only statements, `exact` of lemmas proved in Proofs/, and Print Assumptions. *)
From VBase Require Import MachInt.
From VGen Require Import F64.
From VBase Require Import ZpOps.
From VProofs Require Import F64Red F64Ops F64Exp F64Consts F64Inv NumTheoryPrime.
Open Scope Z_scope.

(* f64: Montgomery reduction, generated from math/src/field/f64/mod.rs *)
Theorem C07_f64_mont_red : forall x, 0 <= x < 2^64 * M ->
  0 <= f64_mont_red_cst x < M /\ (f64_mont_red_cst x * 2^64) mod M = x mod M.
Proof. exact mont_red_cst_spec. Qed.
Print Assumptions C07_f64_mont_red.

Theorem C07_f64_mul : forall a b, repr a -> repr b ->
  repr (f64_mul a b) /\ val (f64_mul a b) = (val a * val b) mod M.
Proof. exact f64_mul_spec. Qed.
Print Assumptions C07_f64_mul.

Theorem C07_f64_new : forall v, 0 <= v < 2^64 -> repr (f64_new v) /\ val (f64_new v) = v mod M.
Proof. exact f64_new_spec. Qed.
Print Assumptions C07_f64_new.

Theorem C07_f64_as_int : forall x, 0 <= x < 2^64 -> f64_as_int x = val x.
Proof. exact f64_as_int_spec. Qed.
Print Assumptions C07_f64_as_int.

Theorem C07_f64_add : forall a b, repr a -> repr b -> f64_add a b = (a + b) mod M.
Proof. exact f64_add_eq. Qed.
Print Assumptions C07_f64_add.

Theorem C07_f64_sub : forall a b, repr a -> repr b -> f64_sub a b = (a - b) mod M.
Proof. exact f64_sub_eq. Qed.
Print Assumptions C07_f64_sub.

Theorem C07_f64_neg : forall a, repr a -> f64_neg a = (- a) mod M.
Proof. exact f64_neg_eq. Qed.
Print Assumptions C07_f64_neg.

Theorem C07_f64_double : forall a, repr a -> f64_double a = (2 * a) mod M.
Proof. exact f64_double_eq. Qed.
Print Assumptions C07_f64_double.

Theorem C07_f64_mul_small : forall a r, repr a -> 0 <= r < 2^32 ->
  repr (f64_mul_small a r) /\ f64_mul_small a r = (a * r) mod M.
Proof. exact f64_mul_small_spec. Qed.
Print Assumptions C07_f64_mul_small.

Theorem C07_f64_eq : forall a b, 0 <= a < 2^64 -> 0 <= b < 2^64 -> f64_eq a b = (a =? b).
Proof. exact f64_eq_spec. Qed.
Print Assumptions C07_f64_eq.

Theorem C07_f64_val_inj : forall a b, repr a -> repr b -> val a = val b -> a = b.
Proof. exact val_inj. Qed.
Print Assumptions C07_f64_val_inj.

(* exponentiation / inversion / division: is_pow a r e := repr r /\ val r = (val a)^e mod M *)
Theorem C07_f64_exp : forall a p, repr a -> 0 <= p < 2^64 ->
  repr (f64_exp a p) /\ val (f64_exp a p) = (val a ^ p) mod M.
Proof. exact f64_exp_spec. Qed.
Print Assumptions C07_f64_exp.

(* inv is x^(M-2) (with Fermat's little theorem and primality of M -- Proofs/NumTheory* -- this is the
   multiplicative inverse; zero maps to zero) *)
Theorem C07_f64_inv_pow : forall a, repr a ->
  repr (f64_inv a) /\ val (f64_inv a) = (val a ^ (M - 2)) mod M.
Proof. exact f64_inv_pow. Qed.
Print Assumptions C07_f64_inv_pow.

Theorem C07_f64_inv_zero : f64_inv 0 = 0.
Proof. exact f64_inv_zero. Qed.
Print Assumptions C07_f64_inv_zero.

Theorem C07_f64_div : forall a b, repr a -> repr b ->
  repr (f64_div a b) /\ val (f64_div a b) = (val a * (val b ^ (M - 2) mod M)) mod M.
Proof. exact f64_div_spec. Qed.
Print Assumptions C07_f64_div.

(* constants *)
Theorem C07_f64_generator : val f64_GENERATOR = 7 /\ zpow_mod M 7 (M - 1) = 1 /\
  forallb (fun q => negb (zpow_mod M 7 ((M - 1) / q) =? 1)) [2; 3; 5; 17; 257; 65537] = true /\
  M - 1 = 2^32 * 3 * 5 * 17 * 257 * 65537.
Proof. exact (conj f64_generator_val (conj (proj1 f64_generator_order) (conj (proj2 f64_generator_order) f64_Mm1_factored))). Qed.
Print Assumptions C07_f64_generator.

Theorem C07_f64_two_adicity : f64_TWO_ADICITY = 32 /\ (M - 1) mod 2^32 = 0 /\ Z.odd ((M - 1) / 2^32) = true.
Proof. exact f64_two_adicity. Qed.
Print Assumptions C07_f64_two_adicity.

Theorem C07_f64_root_of_unity : val f64_TWO_ADIC_ROOT_OF_UNITY = 7277203076849721926 /\
  zpow_mod M 7277203076849721926 (2^32) = 1 /\ zpow_mod M 7277203076849721926 (2^31) = M - 1.
Proof. exact (conj (proj1 f64_root_def) f64_root_order). Qed.
Print Assumptions C07_f64_root_of_unity.

(* the three moduli are prime (Lucas/Pocklington certificates checked by vm_compute; Proofs/NumTheoryPrime.v) *)
Theorem C07_moduli_prime : Znumtheory.prime P64 /\ Znumtheory.prime P62 /\ Znumtheory.prime P128.
Proof. exact (conj P64_prime (conj P62_prime P128_prime)). Qed.
Print Assumptions C07_moduli_prime.

Theorem C07_f64_inv : forall a, repr a -> val a <> 0 ->
  repr (f64_inv a) /\ (val (f64_inv a) * val a) mod M = 1.
Proof. exact f64_inv_spec. Qed.
Print Assumptions C07_f64_inv.

Theorem C07_f64_div_mul : forall a b, repr a -> repr b -> val b <> 0 ->
  (val (f64_div a b) * val b) mod M = val a.
Proof. exact f64_div_mul. Qed.
Print Assumptions C07_f64_div_mul.

(* ---- round 2: trait defaults of math/src/field/traits.rs instantiated for f64 ---- *)
From VProofs Require Import F64ExpVartime.
From VProofs Require FieldRoots FieldBytesSpec.
From VModel Require Import FieldBytes.

(* exp_vartime: the generic variable-time loop (f64 overrides `exp` with a constant-time one) *)
Theorem C07_f64_exp_vartime_sound : forall fuel a p r, repr a -> 0 <= p < 2^64 ->
  f64_exp_vartime fuel a p = Some r -> repr r /\ val r = (val a ^ p) mod M.
Proof. exact f64_exp_vartime_sound. Qed.
Print Assumptions C07_f64_exp_vartime_sound.

Theorem C07_f64_exp_vartime_terminates : forall a p, 0 <= p < 2^64 ->
  exists r, f64_exp_vartime 66 a p = Some r.
Proof. exact f64_exp_vartime_terminates. Qed.
Print Assumptions C07_f64_exp_vartime_terminates.

Theorem C07_f64_exp_vartime_agrees : forall fuel a p r, repr a -> 0 <= p < 2^64 ->
  f64_exp_vartime fuel a p = Some r -> r = f64_exp a p.
Proof. exact f64_exp_vartime_agrees. Qed.
Print Assumptions C07_f64_exp_vartime_agrees.

(* get_root_of_unity(n): order exactly 2^n for 1 <= n <= TWO_ADICITY = 32; the asserts (and the
   shift-amount check) hold exactly for those n *)
Theorem C07_f64_get_root_of_unity : forall n, 1 <= n <= 32 ->
  let w := f64_get_root_of_unity n in
  repr w /\ val w = FieldRoots.R64.g64 ^ 2 ^ (32 - n) mod M /\
  val w ^ 2 ^ n mod M = 1 /\ val w ^ 2 ^ (n - 1) mod M = M - 1 /\
  forall k, 0 < k < 2 ^ n -> val w ^ k mod M <> 1.
Proof. exact FieldRoots.R64.f64_get_root_of_unity_spec. Qed.
Print Assumptions C07_f64_get_root_of_unity.

Theorem C07_f64_get_root_of_unity_ok : forall n, 0 <= n < 2^32 ->
  f64_get_root_of_unity_ok n = andb (1 <=? n) (n <=? 32).
Proof. exact FieldRoots.R64.f64_get_root_of_unity_ok_spec. Qed.
Print Assumptions C07_f64_get_root_of_unity_ok.

(* from_bytes_with_padding (hand model Model/FieldBytes.v over byte lists): a slice shorter than
   ELEMENT_BYTES = 8 always converts, to new(little-endian value); the value is below 256^7 <= M so
   the inner try_from cannot fail; longer slices hit the assert *)
Theorem C07_f64_from_bytes_with_padding : forall bs, (length bs < 8)%nat -> Forall FieldBytesSpec.byte bs ->
  f64_from_bytes_with_padding bs = FbOk (f64_new (of_le_bytes bs)) /\
  0 <= of_le_bytes bs < 256 ^ (8 - 1) /\
  repr (f64_new (of_le_bytes bs)) /\ val (f64_new (of_le_bytes bs)) = of_le_bytes bs.
Proof. exact FieldBytesSpec.f64_from_bytes_with_padding_spec. Qed.
Print Assumptions C07_f64_from_bytes_with_padding.

Theorem C07_f64_from_bytes_with_padding_long : forall bs, (8 <= length bs)%nat ->
  f64_from_bytes_with_padding bs = FbAssertLen.
Proof. exact FieldBytesSpec.f64_from_bytes_with_padding_long. Qed.
Print Assumptions C07_f64_from_bytes_with_padding_long.

Theorem C07_from_bytes_with_padding_never_deser_failed : forall bs, Forall FieldBytesSpec.byte bs ->
  f64_from_bytes_with_padding bs <> FbDeserFailed /\
  f62_from_bytes_with_padding bs <> FbDeserFailed /\
  f128_from_bytes_with_padding bs <> FbDeserFailed.
Proof. exact FieldBytesSpec.from_bytes_with_padding_never_deser_failed. Qed.
Print Assumptions C07_from_bytes_with_padding_never_deser_failed.

Theorem C07_moduli_above_padding :
  256 ^ (8 - 1) <= M /\ 256 ^ (8 - 1) <= F62Ops.M62 /\ 256 ^ (16 - 1) <= F128Limbs.M.
Proof. exact FieldBytesSpec.moduli_above_padding. Qed.
Print Assumptions C07_moduli_above_padding.

(* ---- coverage round: conversions to and from integers / bool, conjugate, compound assignments,
        base_element (generated terms), raw byte views (Model/FieldBytes.v) for f64 ---- *)
From VProofs Require FieldConvSpec.

Theorem C07_f64_from_u8 : forall x, 0 <= x < 2^8 ->
  repr (f64_from_u8 x) /\ val (f64_from_u8 x) = x /\ f64_from_u8_ok x = true.
Proof. exact FieldConvSpec.C64.f64_from_u8_spec. Qed.
Print Assumptions C07_f64_from_u8.

Theorem C07_f64_from_u16 : forall x, 0 <= x < 2^16 ->
  repr (f64_from_u16 x) /\ val (f64_from_u16 x) = x /\ f64_from_u16_ok x = true.
Proof. exact FieldConvSpec.C64.f64_from_u16_spec. Qed.
Print Assumptions C07_f64_from_u16.

Theorem C07_f64_from_u32 : forall x, 0 <= x < 2^32 ->
  repr (f64_from_u32 x) /\ val (f64_from_u32 x) = x /\ f64_from_u32_ok x = true.
Proof. exact FieldConvSpec.C64.f64_from_u32_spec. Qed.
Print Assumptions C07_f64_from_u32.

Theorem C07_f64_from_bool : forall b,
  repr (f64_from_bool b) /\ val (f64_from_bool b) = b2z b /\ f64_from_bool_ok b = true.
Proof. exact FieldConvSpec.C64.f64_from_bool_spec. Qed.
Print Assumptions C07_f64_from_bool.

Theorem C07_f64_try_from_u64 : forall v, 0 <= v < 2^64 ->
  f64_try_from_u64 v = (if v <? M then Some (f64_new v) else None) /\
  (v < M -> repr (f64_new v) /\ val (f64_new v) = v) /\ f64_try_from_u64_ok v = true.
Proof. exact FieldConvSpec.C64.f64_try_from_u64_spec. Qed.
Print Assumptions C07_f64_try_from_u64.

Theorem C07_f64_try_from_usize : forall v, 0 <= v ->
  f64_try_from_usize v = if v <? M then Some (f64_new v) else None.
Proof. exact FieldConvSpec.C64.f64_try_from_usize_spec. Qed.
Print Assumptions C07_f64_try_from_usize.

(* back to integers: Ok (val e) exactly when val e < 2^N, otherwise Err -- never truncated *)
Theorem C07_f64_to_u8 : forall e, repr e -> f64_to_u8 e = if val e <? 2^8 then Some (val e) else None.
Proof. exact FieldConvSpec.C64.f64_to_u8_spec. Qed.
Print Assumptions C07_f64_to_u8.

Theorem C07_f64_to_u16 : forall e, repr e -> f64_to_u16 e = if val e <? 2^16 then Some (val e) else None.
Proof. exact FieldConvSpec.C64.f64_to_u16_spec. Qed.
Print Assumptions C07_f64_to_u16.

Theorem C07_f64_to_u32 : forall e, repr e -> f64_to_u32 e = if val e <? 2^32 then Some (val e) else None.
Proof. exact FieldConvSpec.C64.f64_to_u32_spec. Qed.
Print Assumptions C07_f64_to_u32.

Theorem C07_f64_to_bool : forall e, repr e ->
  f64_to_bool e = if val e =? 0 then Some false else if val e =? 1 then Some true else None.
Proof. exact FieldConvSpec.C64.f64_to_bool_spec. Qed.
Print Assumptions C07_f64_to_bool.

Theorem C07_f64_to_u64_u128 : forall e, repr e ->
  f64_to_u64 e = val e /\ f64_to_u128 e = val e /\ 0 <= val e < M.
Proof. exact FieldConvSpec.C64.f64_to_u64_spec. Qed.
Print Assumptions C07_f64_to_u64_u128.

Theorem C07_f64_sf_as_int : forall e, f64_sf_as_int e = f64_as_int e.
Proof. exact FieldConvSpec.C64.f64_sf_as_int_spec. Qed.
Print Assumptions C07_f64_sf_as_int.

Theorem C07_f64_conjugate : forall e, f64_conjugate e = e.
Proof. exact FieldConvSpec.C64.f64_conjugate_spec. Qed.
Print Assumptions C07_f64_conjugate.

Theorem C07_f64_assign : forall a b,
  f64_add_assign a b = f64_add a b /\ f64_sub_assign a b = f64_sub a b /\
  f64_mul_assign a b = f64_mul a b /\ f64_div_assign a b = f64_div a b.
Proof. exact FieldConvSpec.C64.f64_assign_spec. Qed.
Print Assumptions C07_f64_assign.

Theorem C07_f64_base_element : forall e i, f64_base_element e i = if i =? 0 then Some e else None.
Proof. exact FieldConvSpec.C64.f64_base_element_spec. Qed.
Print Assumptions C07_f64_base_element.

(* mont_red_var: private, #[allow(dead_code)], no caller; not part of any public behaviour *)
Theorem C07_f64_mont_red_var_dead_code_overflow :
  let x := (2^64 - 1) * M - 2^127 in
  0 <= x < 2^64 * M /\ f64_mont_red_var_ok x = false /\ f64_mont_red_var x = f64_mont_red_cst x.
Proof. exact FieldConvSpec.C64.f64_mont_red_var_dead_code_overflow. Qed.
Print Assumptions C07_f64_mont_red_var_dead_code_overflow.

Theorem C07_f64_as_bytes_same_residue : forall a b, repr a -> repr b ->
  (f64_as_bytes a = f64_as_bytes b <-> val a = val b).
Proof. exact FieldConvSpec.C64.f64_as_bytes_same_residue. Qed.
Print Assumptions C07_f64_as_bytes_same_residue.

(* the zero-copy views, generic in ELEMENT_BYTES nb and the alignment: length check, alignment check on the
   ADDRESS of the first byte, success with the LE words, round trip; no range check on the words *)
Theorem C07_bytes_as_elements_len_err : forall nb align addr bs, (length bs mod nb <> 0)%nat ->
  bytes_as_elements nb align addr bs = None.
Proof. exact FieldConvSpec.bytes_as_elements_len_err. Qed.
Print Assumptions C07_bytes_as_elements_len_err.

Theorem C07_bytes_as_elements_misaligned : forall nb align addr bs, addr mod Z.of_nat align <> 0 ->
  bytes_as_elements nb align addr bs = None.
Proof. exact FieldConvSpec.bytes_as_elements_misaligned. Qed.
Print Assumptions C07_bytes_as_elements_misaligned.

Theorem C07_bytes_as_elements_ok : forall nb align, (0 < nb)%nat -> forall addr bs,
  (length bs mod nb = 0)%nat -> addr mod Z.of_nat align = 0 -> Forall FieldBytesSpec.byte bs ->
  exists ws, bytes_as_elements nb align addr bs = Some ws /\
             length ws = (length bs / nb)%nat /\ elements_as_bytes nb ws = bs.
Proof. exact FieldConvSpec.bytes_as_elements_ok. Qed.
Print Assumptions C07_bytes_as_elements_ok.

Theorem C07_bytes_as_elements_roundtrip : forall nb align, (0 < nb)%nat -> forall addr ws,
  addr mod Z.of_nat align = 0 -> Forall (fun w => 0 <= w < 256 ^ Z.of_nat nb) ws ->
  bytes_as_elements nb align addr (elements_as_bytes nb ws) = Some ws.
Proof. exact FieldConvSpec.bytes_as_elements_roundtrip. Qed.
Print Assumptions C07_bytes_as_elements_roundtrip.

Theorem C07_bytes_as_elements_no_range_check :
  f64_bytes_as_elements 0 (to_le_bytes 8 (2^64 - 1)) = Some [2^64 - 1] /\ ~ repr (2^64 - 1) /\
  f62_bytes_as_elements 0 (to_le_bytes 8 (2^64 - 1)) = Some [2^64 - 1] /\ ~ F62Ops.repr62 (2^64 - 1) /\
  f128_bytes_as_elements 0 (to_le_bytes 16 (2^128 - 1)) = Some [2^128 - 1] /\ ~ F128Ops.repr128 (2^128 - 1).
Proof. exact FieldConvSpec.bytes_as_elements_no_range_check. Qed.
Print Assumptions C07_bytes_as_elements_no_range_check.

Theorem C07_try_from_slice_length : forall bs,
  (length bs <> 8%nat -> f64_try_from_slice bs = None /\ f62_try_from_slice bs = None) /\
  (length bs <> 16%nat -> f128_try_from_slice bs = None).
Proof. exact FieldConvSpec.try_from_slice_length. Qed.
Print Assumptions C07_try_from_slice_length.

Theorem C07_try_from_slice_exact : forall bs, Forall FieldBytesSpec.byte bs ->
  (length bs = 8%nat ->
     f64_try_from_slice bs = (if of_le_bytes bs <? M then Some (f64_new (of_le_bytes bs)) else None) /\
     f62_try_from_slice bs = F62.f62_try_from_u64 (of_le_bytes bs)) /\
  (length bs = 16%nat ->
     f128_try_from_slice bs = if of_le_bytes bs <? F128Limbs.M then Some (of_le_bytes bs) else None).
Proof. exact FieldConvSpec.try_from_slice_exact. Qed.
Print Assumptions C07_try_from_slice_exact.
