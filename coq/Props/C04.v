(* C04 — Fiat–Shamir transcript: challenges depend on all earlier prover messages.
   Only statements, `exact` of lemmas proved in Proofs/Transcript*.v, and Print Assumptions.

   Model: coq/Model/Transcript.v.  [prover s] / [verifier s] are the sequences of RandomCoin operations performed by
   Prover::generate_proof and by verify()/perform_verification()/FriVerifier::new for a proof of shape s (all shapes:
   single / multi segment, with or without a Lagrange-kernel column whose GKR step draws any number g of elements, any
   numbers of constraints, assertions, composition columns, extension degree, FRI layers 0.., grinding, queries).  [run] executes a list symbolically: every challenge gets the
   term it is derived from, [hist t] is the exact sequence of values absorbed into the seed t. *)
From Coq Require Import List Arith Bool ZArith.
From VBase Require Import MachInt.
From VModel Require Import Transcript.
From VProofs Require Import TranscriptRun TranscriptSeed TranscriptExamples TranscriptLoop.
Import ListNotations.

(* ---- transcript_agree ---------------------------------------------------------------------------------------
   Prover and verifier absorb the same values in the same order; every challenge the prover derives is derived by the
   verifier from the same seed term with the same draw index; the verifier derives exactly one more value — the FRI
   alpha drawn after the remainder commitment (layer_alphas[num_layers], never read) — and the coin states after the
   query-position draw coincide, so nothing depends on it. *)
Theorem C04_transcript_agree : forall s : shape,
  absorbs (prover s) = absorbs (verifier s)
  /\ filter usedb (run cs_init (verifier s)) = run cs_init (prover s)
  /\ (exists t, filter (fun cv => negb (usedb cv)) (run cs_init (verifier s)) = [(FriAlphaUnused, CDraw t 0)]
                /\ hist t = msgs_before s FriAlphaUnused)
  /\ exec cs_init (prover s) = exec cs_init (verifier s).
Proof. exact transcript_agree. Qed.
Print Assumptions C04_transcript_agree.

(* the challenges derived are exactly the ones the protocol needs, for every shape (so the next theorem never
   quantifies over an empty set: OodPoint, PowCheck and QueryPositions are always present) *)
Theorem C04_challenges_prover : forall s, map fst (run cs_init (prover s)) = challenges false s.
Proof. exact labels_prover. Qed.
Print Assumptions C04_challenges_prover.

Theorem C04_challenges_verifier : forall s, map fst (run cs_init (verifier s)) = challenges true s.
Proof. exact labels_verifier. Qed.
Print Assumptions C04_challenges_verifier.

(* ---- challenge_depends_on_all_prior ------------------------------------------------------------------------------
   [msgs_before s c] is the protocol's requirement (Model/Transcript.v), [precedes s m c := In m (msgs_before s c)].
   The seed of every challenge, on either side, has absorbed exactly the context elements, the public inputs and every
   prover message that precedes the challenge, in protocol order — and nothing else. *)
Theorem C04_challenge_depends_on_all_prior : forall (s : shape) (side : bool) (c : chal) (v : cval),
  In (c, v) (run cs_init (if side then verifier s else prover s)) ->
  hist (cval_term v) = msgs_before s c
  /\ (forall m, precedes s m c -> absorbed_in m (cval_term v))
  /\ absorbed_in CtxElems (cval_term v) /\ absorbed_in PubInputs (cval_term v).
Proof. exact challenge_depends_on_all_prior. Qed.
Print Assumptions C04_challenge_depends_on_all_prior.

(* the induction on the event list behind it, for ANY list of coin operations: a challenge's seed history is the
   absorbed symbols of the events before it (plus its own nonce argument) *)
Theorem C04_history_is_prefix : forall l st c v,
  (forall x, In x l -> match fst x with EvNew _ => False | _ => True end) ->
  In (c, v) (run st l) ->
  exists l1 e l2, l = l1 ++ (e, Some c) :: l2 /\
    hist (cval_term v) = hist (cs_seed st) ++ absorbs l1 ++ own_nonce e.
Proof. exact run_hist_prefix. Qed.
Print Assumptions C04_history_is_prefix.

(* the decision procedure applied to the logs observed on the real prover / verifier is sound for the property *)
Theorem C04_log_ok_sound : forall side s l,
  log_ok side s l = true ->
  let ls := label (drawn_challenges side s) l in
  map fst (run cs_init ls) = challenges side s
  /\ (forall c v, In (c, v) (run cs_init ls) ->
        hist (cval_term v) = msgs_before s c /\ forall m, precedes s m c -> absorbed_in m (cval_term v)).
Proof. exact log_ok_sound. Qed.
Print Assumptions C04_log_ok_sound.

(* ... and it accepts the event lists of both generators, for every shape: a rejection of an observed log is always a
   disagreement between the implementation and the model, never an artefact of the labelling *)
Theorem C04_log_ok_accepts_model : forall (side : bool) s,
  log_ok side s (map fst (if side then verifier s else prover s)) = true.
Proof. exact log_ok_generators. Qed.
Print Assumptions C04_log_ok_accepts_model.

(* observed uses (which values the GKR step / the AIR were handed): an accepted observation puts every observed GKR use on a
   draw the protocol labels GkrRand and every observed auxiliary-randomness use on an AuxRand draw *)
Theorem C04_log_ok_uses_sound : forall side s l us,
  log_ok_uses side s l us = true ->
  log_ok side s l = true /\ uses_ok (label (drawn_challenges side s) l) us = true.
Proof. exact log_ok_uses_sound. Qed.
Print Assumptions C04_log_ok_uses_sound.

Theorem C04_uses_ok_spec : forall ls us, uses_ok ls us = true ->
  forall i e lab, nth_error ls i = Some (e, lab) ->
    match nth_error us i with
    | Some UseGkr => exists j, lab = Some (GkrRand j)
    | Some UseAux => exists j, lab = Some (AuxRand j)
    | Some UseUnobserved => True
    | None => False
    end.
Proof. exact uses_ok_spec. Qed.
Print Assumptions C04_uses_ok_spec.

(* ---- absorbed_is_carried -----------------------------------------------------------------------------------------
   Every absorbed value is a component of the serialized proof (or the verifier's own public inputs): mapping the
   absorbed symbols to their place in `Proof` gives every slot exactly once, in sending order, and the commitment
   digests absorbed are ALL num_trace_segments + 1 + num_fri_layers + 1 digests that Commitments::parse accepts. *)
Theorem C04_absorbed_is_carried : forall (s : shape) (side : bool),
  let l := if side then verifier s else prover s in
  map (proof_slot s) (absorbs l) = slots_in_order s
  /\ (let idx := flat_map (fun sl => match sl with SlotCommitment n => [n] | _ => [] end) (map (proof_slot s) (absorbs l))
      in idx = seq 0 (num_commitments s)).
Proof. exact absorbed_is_carried. Qed.
Print Assumptions C04_absorbed_is_carried.

(* ---- pow_before_positions ---------------------------------------------------------------------------------------- *)
Theorem C04_pow_before_positions : forall (s : shape) (side : bool),
  let l := if side then verifier s else prover s in
  exists t,
    hist t = upto_deep s ++ fri_msgs (sh_fri_layers s) ++ [RemainderCommitment]
    /\ In (PowCheck, CLz (Nonce t PowNonce)) (run cs_init l)
    /\ In (QueryPositions, CInts (Nonce t PowNonce)) (run cs_init l)
    /\ (forall v, In (QueryPositions, v) (run cs_init l) -> absorbed_in PowNonce (cval_term v))
    /\ (forall c v, In (c, v) (run cs_init l) -> absorbed_in PowNonce (cval_term v) ->
                    c = PowCheck \/ c = QueryPositions).
Proof. exact pow_before_positions. Qed.
Print Assumptions C04_pow_before_positions.

(* ---- seed_encoding_inj -------------------------------------------------------------------------------------------
   Arithmetic models of ProofOptions / TraceInfo / Context `to_elements` (integers handed to E::from(u32) and
   E::from_bytes_with_padding; all below 2^32 resp. 256^(ELEMENT_BYTES-1), hence below every supported modulus). *)
Theorem C04_seed_encoding_inj_options : forall o1 o2,
  wf_options o1 -> wf_options o2 -> options_elems o1 = options_elems o2 -> o1 = o2.
Proof. exact options_elems_inj. Qed.
Print Assumptions C04_seed_encoding_inj_options.

(* full statement wanted: wf t1 -> wf t2 -> elems t1 = elems t2 -> t1 = t2.  It is FALSE (next two theorems);
   what holds: everything but the metadata bytes is determined, the metadata chunk values are determined, and the
   metadata itself is determined when its length is known. *)
Theorem C04_seed_encoding_inj_trace_info_partial : forall eb t1 t2,
  wf_trace_info t1 -> wf_trace_info t2 -> trace_info_elems eb t1 = trace_info_elems eb t2 ->
  ti_main t1 = ti_main t2 /\ ti_aux t1 = ti_aux t2 /\ ti_rands t1 = ti_rands t2 /\ ti_len t1 = ti_len t2
  /\ map of_le_bytes (chunks (eb - 1) (ti_meta t1)) = map of_le_bytes (chunks (eb - 1) (ti_meta t2)).
Proof. exact trace_info_elems_inj. Qed.
Print Assumptions C04_seed_encoding_inj_trace_info_partial.

Theorem C04_seed_encoding_inj_trace_info_same_meta_len : forall eb t1 t2, (1 < eb)%nat ->
  wf_trace_info t1 -> wf_trace_info t2 -> length (ti_meta t1) = length (ti_meta t2) ->
  trace_info_elems eb t1 = trace_info_elems eb t2 -> t1 = t2.
Proof. exact trace_info_elems_inj_same_meta_len. Qed.
Print Assumptions C04_seed_encoding_inj_trace_info_same_meta_len.

Theorem C04_seed_encoding_inj_trace_info_refuted :
  let t1 := mkTi 1 0 0 8 [1%Z] in let t2 := mkTi 1 0 0 8 [1%Z; 0%Z] in
  wf_trace_info t1 /\ wf_trace_info t2 /\ t1 <> t2 /\ trace_info_elems 8 t1 = trace_info_elems 8 t2.
Proof. exact meta_trailing_zero_collision. Qed.
Print Assumptions C04_seed_encoding_inj_trace_info_refuted.

(* the known class (open finding C04-F1) excluded: forall x, ~ Known x -> P x, plus a member of the class violating P *)
Theorem C04_seed_encoding_inj_trace_info_except_known : forall eb t1 t2, (1 < eb)%nat ->
  wf_trace_info t1 -> wf_trace_info t2 -> ~ known_meta_padding eb t1 t2 ->
  trace_info_elems eb t1 = trace_info_elems eb t2 -> t1 = t2.
Proof. exact trace_info_elems_inj_except_known. Qed.
Print Assumptions C04_seed_encoding_inj_trace_info_except_known.

Theorem C04_seed_encoding_inj_context_except_known : forall eb c1 c2, (1 < eb)%nat ->
  wf_context c1 -> wf_context c2 -> c_modulus c1 = c_modulus c2 ->
  ~ known_meta_padding eb (c_ti c1) (c_ti c2) ->
  context_elems eb c1 = context_elems eb c2 -> c1 = c2.
Proof. exact context_elems_inj_except_known. Qed.
Print Assumptions C04_seed_encoding_inj_context_except_known.

Theorem C04_seed_encoding_known_class_witness :
  exists t1 t2, wf_trace_info t1 /\ wf_trace_info t2 /\ known_meta_padding 8 t1 t2
                /\ trace_info_elems 8 t1 = trace_info_elems 8 t2 /\ t1 <> t2.
Proof. exact known_meta_padding_witness. Qed.
Print Assumptions C04_seed_encoding_known_class_witness.

(* outside the guard `trace_length <= u32::MAX` of Context::new (not re-applied by Context::read_from) *)
Theorem C04_seed_encoding_trace_length_truncation :
  let t1 := mkTi 1 0 0 (2 ^ 32) [] in let t2 := mkTi 1 0 0 (2 ^ 33) [] in
  t1 <> t2 /\ trace_info_elems 8 t1 = trace_info_elems 8 t2.
Proof. exact trace_length_truncation_collision. Qed.
Print Assumptions C04_seed_encoding_trace_length_truncation.

Theorem C04_seed_encoding_inj_context_partial : forall eb c1 c2,
  wf_context c1 -> wf_context c2 -> c_modulus c1 = c_modulus c2 ->
  context_elems eb c1 = context_elems eb c2 ->
  ti_main (c_ti c1) = ti_main (c_ti c2) /\ ti_aux (c_ti c1) = ti_aux (c_ti c2)
  /\ ti_rands (c_ti c1) = ti_rands (c_ti c2) /\ ti_len (c_ti c1) = ti_len (c_ti c2)
  /\ map of_le_bytes (chunks (eb - 1) (ti_meta (c_ti c1))) = map of_le_bytes (chunks (eb - 1) (ti_meta (c_ti c2)))
  /\ c_opts c1 = c_opts c2.
Proof. exact context_elems_inj. Qed.
Print Assumptions C04_seed_encoding_inj_context_partial.

Theorem C04_seed_encoding_inj_context_same_meta_len : forall eb c1 c2, (1 < eb)%nat ->
  wf_context c1 -> wf_context c2 -> c_modulus c1 = c_modulus c2 ->
  length (ti_meta (c_ti c1)) = length (ti_meta (c_ti c2)) ->
  context_elems eb c1 = context_elems eb c2 -> c1 = c2.
Proof. exact context_elems_inj_same_meta_len. Qed.
Print Assumptions C04_seed_encoding_inj_context_same_meta_len.

(* the encoding proposed in fixes/c04-trace-meta-length-in-seed.diff (metadata length first) IS injective on all
   well-formed values; not tied to /repo's current source (patch proposed, not applied) *)
Theorem C04_seed_encoding_inj_trace_info_with_proposed_fix : forall eb t1 t2, (1 < eb)%nat ->
  wf_trace_info t1 -> wf_trace_info t2 ->
  (Z.of_nat (length (ti_meta t1)) <= 65535)%Z -> (Z.of_nat (length (ti_meta t2)) <= 65535)%Z ->
  trace_info_elems_fixed eb t1 = trace_info_elems_fixed eb t2 -> t1 = t2.
Proof. exact trace_info_elems_fixed_inj. Qed.
Print Assumptions C04_seed_encoding_inj_trace_info_with_proposed_fix.

(* ---- non-vacuity and seeded weakenings --------------------------------------------------------------------------- *)
Theorem C04_example_prover_events : map fst (prover s0) = good0 /\ map fst (verifier s0) = good0_verifier.
Proof. exact (conj prover_s0 verifier_s0). Qed.
Print Assumptions C04_example_prover_events.

Theorem C04_example_wf_sat :
  (wf_trace_info (mkTi 20 9 12 4096 [7; 0; 255]%Z) /\ wf_trace_info (mkTi 1 0 0 8 [])) /\ wf_options (mkOpts 30 8 20 1 8 127).
Proof. exact (conj wf_trace_info_sat wf_options_sat). Qed.
Print Assumptions C04_example_wf_sat.

(* Lagrange-kernel shape; the seeded change "verifier takes the auxiliary randomness before the GKR randomness" is rejected *)
Theorem C04_example_lagrange_uses :
  log_ok_uses false s2 (map fst (prover s2)) uses_s2_good = true
  /\ log_ok_uses false s2 (map fst (prover s2)) uses_s2_swapped = false.
Proof. exact (conj log_ok_uses_s2 mutant_aux_rand_before_gkr). Qed.
Print Assumptions C04_example_lagrange_uses.

Theorem C04_example_checker_accepts_model :
  log_ok false s0 good0 = true /\ log_ok true s0 good0_verifier = true
  /\ log_ok false s1 (map fst (prover s1)) = true /\ log_ok true s1 (map fst (verifier s1)) = true.
Proof. exact (conj log_ok_good0 (conj log_ok_good0_verifier log_ok_s1)). Qed.
Print Assumptions C04_example_checker_accepts_model.
