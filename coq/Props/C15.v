(* C15 — FRI completeness and the folding identity.
   Only statements, `exact` of lemmas proved in Proofs/Fri*.v, Print Assumptions, non-vacuity examples.
   Model: Model/Fri.v (hand-written from fri/src, tied to the source by the correspondence run of checks/c15.py). *)
From Coq Require Import List Arith Bool Lia ZArith.
From VBase Require Import FieldOps MachInt.
From VGen Require Import FriInt.
From VModel Require Import Merkle Fri FriMerkle.
From VBase Require Import ZpOps.
From VProofs Require Import FriIdx FriField FriInterp FriProver FriRoots FriCoset FriComplete FriMerkleInst FriFields FriQuad FriGen ZpLaws.
From VModel Require Import ExtField.
From VProofs Require Import ExtModel.
Import ListNotations.
Local Open Scope nat_scope.

(* ---------------------------------------------------------------- position folding *)
(* for the inputs on which the Rust code does not panic (see C15_fold_positions_panics), the result is the
   order-preserving de-duplication ([dedup]: first occurrences) of the positions reduced modulo the folded domain
   size; it has no duplicates, every folded position is in range, and it contains exactly the reductions *)
Theorem C15_fold_positions_spec : forall ps d n,
  n <> 0 -> (d / n <> 0 \/ ps = []) ->
  exists l, fold_positions ps d n = Ok l /\
    l = dedup (map (fun p => p mod (d / n)) ps) /\
    NoDup l /\
    (d / n <> 0 -> forall x, In x l -> x < d / n) /\
    (forall x, In x l <-> exists p, In p ps /\ x = p mod (d / n)).
Proof. exact fold_positions_spec. Qed.
Print Assumptions C15_fold_positions_spec.

Theorem C15_fold_positions_panics : forall ps d n,
  fold_positions ps d n = Panic <-> (n = 0 \/ (d / n = 0 /\ ps <> [])).
Proof. exact fold_positions_panics. Qed.
Print Assumptions C15_fold_positions_panics.

Example C15_fold_positions_doc : fold_positions [1; 9; 12; 20] 32 4 = Ok [1; 4].
Proof. reflexivity. Qed.

(* ---------------------------------------------------------------- layer count *)
(* num_fri_layers terminates for every folding factor >= 2 and returns the LEAST k such that the domain folded
   k times is at most (remainder_max_degree + 1) * blowup *)
Theorem C15_num_fri_layers_spec : forall o d, 2 <= fo_folding o ->
  exists k, num_fri_layers o d = Some k /\
    folded_size k d (fo_folding o) <= (fo_remmax o + 1) * fo_blowup o /\
    (forall j, j < k -> (fo_remmax o + 1) * fo_blowup o < folded_size j d (fo_folding o)).
Proof. exact num_fri_layers_spec. Qed.
Print Assumptions C15_num_fri_layers_spec.

Theorem C15_num_fri_layers_valid_options : forall b n r o d, options_new b n r = Ok o ->
  exists k, num_fri_layers o d = Some k.
Proof. exact num_fri_layers_valid_options. Qed.
Print Assumptions C15_num_fri_layers_valid_options.

(* the well-formed schedule (every layer >= 2 rows, remainder domain >= 2 points, remainder >= 1 coefficient) for
   power-of-two parameters: domain 2^a, folding 2^f (f >= 1), blowup 2^b, layer count k:   k*f < a  and  b <= a - k*f *)
Theorem C15_well_formed_schedule_pow2 : forall a f b r, 1 <= f ->
  let o := mkOpts (2 ^ b) (2 ^ f) r in
  well_formed_schedule o (2 ^ a) <->
  exists k, num_fri_layers o (2 ^ a) = Some k /\ k * f < a /\ b <= a - k * f.
Proof. exact well_formed_pow2. Qed.
Print Assumptions C15_well_formed_schedule_pow2.

(* an ill-formed schedule accepted by FriOptions::new: domain 16, folding 16 -> one layer with a single row *)
Example C15_ill_formed_witness : ~ well_formed_schedule (mkOpts 2 16 1) 16.
Proof. intros [k [Hk [_ [H _]]]]. vm_compute in Hk. injection Hk as <-. vm_compute in H. lia. Qed.

(* ---------------------------------------------------------------- layer layout *)
(* query_layout_agree: the rows the prover opens for the folded positions (row q of the transposed layer =
   evaluations q, q + rl, ..., q + (N-1) rl) are exactly where the verifier's get_query_values looks: for EVERY
   queried position p — duplicates and positions colliding after folding included — it returns the evaluation at p *)
Theorem C15_query_layout_agree : forall (A : Type) (d0 : A) N rl evals ps,
  N <> 0 -> rl <> 0 -> (forall p, In p ps -> p < rl * N) ->
  get_query_values N (map (row_of d0 N rl evals) (fold_positions_core ps rl)) ps (fold_positions_core ps rl) (rl * N)
  = Ok (map (fun p => nth p evals d0) ps).
Proof. exact (@get_query_values_layout). Qed.
Print Assumptions C15_query_layout_agree.

(* the prover's transposition produces those rows, and grouping the flattened rows (query_layer, and the verifier
   channel's group_slice_elements) gives them back *)
Theorem C15_transpose_rows : forall (A : Type) (d0 : A) N evals rl, N <> 0 -> length evals = rl * N ->
  transpose_slice d0 N evals = Ok (map (row_of d0 N rl evals) (seq 0 rl)).
Proof. exact (@transpose_slice_rows). Qed.
Print Assumptions C15_transpose_rows.

Theorem C15_group_concat : forall (A : Type) (rows : list (list A)) N, N <> 0 ->
  (forall r, In r rows -> length r = N) -> group_slice N (concat rows) = Ok rows.
Proof. exact (@group_slice_concat). Qed.
Print Assumptions C15_group_concat.

(* ---------------------------------------------------------------- the folding identity *)
Section Folding.
Context {F : Type} (O : FOps F) (L : FLaws O).

(* exp_vartime (square-and-multiply, as used by the model for domain points) is the power *)
Theorem C15_fexp_spec : forall x n, fexp O x n = fpow O x n.
Proof. exact (fexp_spec O L). Qed.

(* N = 2, explicit formula: with the row [f(x); f(-x)] the folded value is (f(x)+f(-x))/2 + alpha (f(x)-f(-x))/(2x) *)
Theorem C15_drp_row_2 : forall a b x alpha, x <> fzero O -> fadd O (fone O) (fone O) <> fzero O ->
  drp_row O 2 (fneg O (fone O)) (finv O (fnat O 2)) (finv O x) alpha [a; b]
  = fadd O (fdiv O (fadd O a b) (fadd O (fone O) (fone O)))
           (fmul O alpha (fdiv O (fsub O a b) (fmul O (fadd O (fone O) (fone O)) x))).
Proof. exact (drp_row_2 O L). Qed.

(* ... hence f(x) = f0(x^2) + x f1(x^2) folds to f0(x^2) + alpha f1(x^2) *)
Theorem C15_drp_identity_2 : forall f0 f1 x alpha, x <> fzero O -> fadd O (fone O) (fone O) <> fzero O ->
  drp_row O 2 (fneg O (fone O)) (finv O (fnat O 2)) (finv O x) alpha
    [fadd O f0 (fmul O x f1); fsub O f0 (fmul O x f1)] = fadd O f0 (fmul O alpha f1).
Proof. exact (drp_identity_2 O L). Qed.

(* uniqueness of interpolation and exactness of the Lagrange form the verifier evaluates *)
Theorem C15_interp_unique : forall xs p q, length p <= length xs -> length q <= length xs -> NoDup xs ->
  (forall x, In x xs -> peval O p x = peval O q x) -> forall a, peval O p a = peval O q a.
Proof. exact (interp_unique O L). Qed.

Theorem C15_lagrange_exact : forall xs p a, NoDup xs -> length p <= length xs ->
  interp_eval O xs (map (peval O p) xs) a = peval O p a.
Proof. exact (lagrange_exact O L). Qed.

(* every folding factor N (2, 4, 8, 16, ...): w a primitive N-th root of unity, winv its inverse (the root of the
   inverse twiddles), N invertible in the field.  Row = values at the points x, x w, ..., x w^(N-1). *)
Section AnyN.
Variable N : nat.
Variable w winv : F.
Hypothesis w_pow : fpow O w N = fone O.
Hypothesis w_prim : forall d, 0 < d < N -> fpow O w d <> fone O.
Hypothesis w_inv : fmul O w winv = fone O.
Hypothesis N_nonzero : fnat O N <> fzero O.

(* the coefficient list the prover computes for a row (inverse DFT, scaling by 1/N and powers of 1/x)
   interpolates the row *)
Theorem C15_row_poly_interpolates : forall x row m, x <> fzero O -> length row = N -> m < N ->
  peval O (scale_series O (idft O N winv row) (finv O (fnat O N)) (finv O x)) (fmul O x (fpow O w m)) = nth m row (fzero O).
Proof. intros; now apply (row_poly_interpolates O L N w winv w_pow w_prim w_inv). Qed.

(* drp_identity: f(y) = sum_{j<N} y^j f_j(y^N)  ==>  folding the row of f at x with challenge alpha gives
   (sum_j alpha^j f_j)(x^N), the folded polynomial at the folded point *)
Theorem C15_drp_identity : forall x fs alpha, x <> fzero O -> length fs = N ->
  drp_row O N winv (finv O (fnat O N)) (finv O x) alpha (map (fval O N fs) (row_nodes O N w x))
  = peval O (fold_slices O alpha fs) (fpow O x N).
Proof. exact (drp_identity O L N w winv w_pow w_prim w_inv N_nonzero). Qed.

(* degree_propagates: the folded polynomial sum_j alpha^j f_j has at most as many coefficients as the longest slice
   (deg f <= d  ==>  every slice has <= floor(d/N) + 1 coefficients) *)
Theorem C15_degree_propagates : forall fs alpha k, (forall fj, In fj fs -> length fj <= k) ->
  length (fold_slices O alpha fs) <= k.
Proof. exact (fold_slices_length O). Qed.

(* per-layer consistency of prover and verifier (composed over all layers in C15_fri_complete below):
   for EVERY row the value the verifier computes (Lagrange interpolant of the opened row at alpha) is the value
   the prover's apply_drp put into the next layer *)
Theorem C15_layer_consistency : forall x row alpha, x <> fzero O -> length row = N ->
  interp_eval O (row_nodes O N w x) row alpha = drp_row O N winv (finv O (fnat O N)) (finv O x) alpha row.
Proof. exact (verifier_row_eq_prover_row O L N w winv w_pow w_prim w_inv N_nonzero). Qed.
End AnyN.
End Folding.

Print Assumptions C15_fexp_spec.
Print Assumptions C15_drp_row_2.
Print Assumptions C15_drp_identity_2.
Print Assumptions C15_interp_unique.
Print Assumptions C15_lagrange_exact.
Print Assumptions C15_row_poly_interpolates.
Print Assumptions C15_drp_identity.
Print Assumptions C15_degree_propagates.
Print Assumptions C15_layer_consistency.

(* non-vacuity: the hypotheses of Section AnyN are satisfiable (f64, N = 2, w = winv = -1) *)
Example C15_roots_hypotheses_satisfiable : exists w winv : Zp P64,
  fpow F64_ops w 2 = fone F64_ops /\ (forall d, 0 < d < 2 -> fpow F64_ops w d <> fone F64_ops) /\
  fmul F64_ops w winv = fone F64_ops /\ fnat F64_ops 2 <> fzero F64_ops.
Proof.
  exists (fneg F64_ops (fone F64_ops)), (fneg F64_ops (fone F64_ops)).
  split; [apply zp_val_inj; vm_compute; reflexivity|]. split.
  - intros d Hd. assert (d = 1) by lia. subst. intros H. apply (f_equal zp_val) in H. vm_compute in H. discriminate.
  - split; [apply zp_val_inj; vm_compute; reflexivity|].
    intros H. apply (f_equal zp_val) in H. vm_compute in H. discriminate.
Qed.

(* ---------------------------------------------------------------- prover reuse *)
(* prover_reusable: whatever proof build_proof returns, the prover it leaves behind is the one FriProver::new creates
   (layers and remainder cleared), so the next build_layers does not hit `assert!(self.layers.is_empty())`.  That the
   second proof equals a fresh prover's proof is then immediate for the model (same function, same state) and is
   tested on the real crate (correspondence op `twice`, falsifier c). *)
Theorem C15_prover_reusable : forall (F MT MN : Type) (mt_prove_batch : MT -> list nat -> option MN)
  (p p' : @prover F MT) positions proof,
  build_proof MT MN mt_prove_batch p positions = Ok (p', proof) ->
  p' = prover_new MT (pr_options MT p) /\ pr_layers MT p' = [] /\ pr_remainder MT p' = [] /\
  fp_remainder proof = pr_remainder MT p /\ fp_partitions proof = 1.
Proof. exact (@prover_reusable). Qed.
Print Assumptions C15_prover_reusable.

(* ================================================================ round 2: whole cosets, remainder, end to end *)
Section WholeCoset.
Context {F : Type} (O : FOps F) (L : FLaws O).
(* the family B::get_root_of_unity(k), k <= K = TWO_ADICITY, characterised by three facts *)
Variable rou : nat -> F.
Variable K : nat.
Hypothesis K_pos : 1 <= K.
Hypothesis rou_sq : forall k, k < K -> fmul O (rou (S k)) (rou (S k)) = rou k.
Hypothesis rou_1 : rou 1 = fneg O (fone O).
Hypothesis two_nz : fadd O (fone O) (fone O) <> fzero O.

(* consequences: exact order 2^k *)
Theorem C15_rou_primitive : forall k, k <= K ->
  fpow O (rou k) (2 ^ k) = fone O /\ forall d, 0 < d < 2 ^ k -> fpow O (rou k) d <> fone O.
Proof. intros k Hk. split; [now apply (rou_order O L rou K K_pos rou_sq rou_1) | now apply (rou_prim O L rou K K_pos rou_sq rou_1 two_nz)]. Qed.

(* (1) apply_drp over the whole coset, in the order the code produces: for f = concat cs (coefficient chunks of
   length N = 2^f, i.e. f(y) = sum_m y^(mN) c_m(y); the j-th slice f_j collects the j-th entries), evaluated over
   offset*<g>, g = rou(rho+f), |<g>| = 2^rho * N: transposition gives the rows, and apply_drp returns, for
   i = 0 .. 2^rho - 1, the value of the folded polynomial  sum_m X^m c_m(alpha) = sum_j alpha^j f_j(X)  at the folded
   point X_i = (offset g^i)^N.  Every folding factor 2^f with rho + f <= K (so 2, 4, 8, 16). *)
Theorem C15_apply_drp_coset : forall rho f, 1 <= f -> rho + f <= K ->
  forall cs offset alpha, offset <> fzero O -> Forall (fun c => length c = 2 ^ f) cs ->
  let P := concat cs in
  let evals := coset_evals O P offset (rou (rho + f)) (2 ^ rho * 2 ^ f) in
  transpose_slice (fzero O) (2 ^ f) evals = Ok (map (row_of (fzero O) (2 ^ f) (2 ^ rho) evals) (seq 0 (2 ^ rho))) /\
  apply_drp O rou K (2 ^ f) (map (row_of (fzero O) (2 ^ f) (2 ^ rho) evals) (seq 0 (2 ^ rho))) offset alpha
  = Ok (map (fun i => peval O (map (fun c => peval O c alpha) cs) (fpow O (fmul O offset (fpow O (rou (rho + f)) i)) (2 ^ f)))
            (seq 0 (2 ^ rho))).
Proof. intros rho f Hf Hrf. exact (apply_drp_coset O L rou K K_pos rou_sq rou_1 two_nz rho f Hf Hrf). Qed.

(* layer_relabelling: the code calls the points of the next layer offset * g_next^i; in that labelling the output is the
   evaluation over offset*<rou rho> of [fold_next] = (folded polynomial)(offset^(N-1) * y), same number of coefficients / N *)
Theorem C15_apply_drp_coset_relabelled : forall rho f, 1 <= f -> rho + f <= K ->
  forall P m offset alpha, offset <> fzero O -> length P = m * 2 ^ f ->
  let evals := coset_evals O P offset (rou (rho + f)) (2 ^ rho * 2 ^ f) in
  apply_drp O rou K (2 ^ f) (map (row_of (fzero O) (2 ^ f) (2 ^ rho) evals) (seq 0 (2 ^ rho))) offset alpha
  = Ok (coset_evals O (fold_next O f alpha offset P) offset (rou rho) (2 ^ rho)) /\
  length (fold_next O f alpha offset P) = m.
Proof.
  intros rho f Hf Hrf P m offset alpha Ho HP. split.
  - exact (apply_drp_coset_relabelled O L rou K K_pos rou_sq rou_1 two_nz rho f Hf Hrf P m offset alpha Ho HP).
  - exact (fold_next_length O K K_pos rho f Hf Hrf alpha offset P m HP).
Qed.

(* (2) the remainder step: interpolate_poly_with_offset (set_remainder) applied to the evaluations of a polynomial
   over offset*<rou mu> returns its coefficients, zero-padded to the domain size; the model's radix-2 FFT is the DFT *)
Theorem C15_interpolate_coset : forall mu P offset, 1 <= mu <= K -> offset <> fzero O -> length P <= 2 ^ mu ->
  interpolate_poly_with_offset O rou K (coset_evals O P offset (rou mu) (2 ^ mu)) offset
  = Ok (P ++ repeat (fzero O) (2 ^ mu - length P)).
Proof. exact (interpolate_coset O L rou K K_pos rou_sq rou_1 two_nz). Qed.

Theorem C15_fft_rec_idft : forall k w l, length l = 2 ^ k ->
  (k = 0 \/ fpow O w (2 ^ (k - 1)) = fneg O (fone O)) -> fft_rec O k w l = idft O (2 ^ k) w l.
Proof. exact (fft_rec_idft O L). Qed.

(* (3) fri_complete, end to end for the MODEL prover and verifier.  Externals are the abstract Section variables of
   Model/Fri.v; the hypotheses about them are exactly:
     merkle_new_ok, merkle_batch_complete : C10_new_ok / C10_batch_complete for the abstract tree functions
                                            (depth 1..62, non-empty duplicate-free in-range index list of <= 255 entries)
     draw_total                            : the coin's draw yields an element (DefaultRandomCoin gives up after 1000
                                             rejected candidates; the verifier draws once more than the prover, after
                                             the remainder commitment)
   Statement: domain 2^a, folding 2^f supported, blowup 2^b, the schedule has k layers and is well formed
   (k f < a, b <= a - k f), a <= K, a <= 62, P has 2^(a-b) coefficients (degree <= bound, zero-padded), positions
   non-empty, in range, at most 255 (duplicates and collisions after folding allowed): the prover succeeds and the
   verifier (channel construction, FriVerifier::new, verify) returns Ok on its proof. *)
Section EndToEnd.
Variable gen_offset : F.
Hypothesis offset_nz : gen_offset <> fzero O.
Variable dbg : bool.
Variable D : Type.
Variable D_eqb : D -> D -> bool.
Hypothesis D_eqb_spec : forall a b, D_eqb a b = true <-> a = b.
Variable hash_elements : list F -> D.
Variable MT MN : Type.
Variable mt_new : list D -> option MT.
Variable mt_root : MT -> D.
Variable mt_prove_batch : MT -> list nat -> option MN.
Variable mt_verify_batch : D -> list nat -> list D -> MN -> nat -> auth_res.
Variable CS : Type.
Variable cs_reseed : CS -> D -> CS.
Variable cs_draw : CS -> CS * draw_res F.
Hypothesis merkle_new_ok : forall leaves d, 1 <= d -> length leaves = 2 ^ d -> exists t, mt_new leaves = Some t.
Hypothesis merkle_batch_complete : forall leaves t d indexes dflt,
  mt_new leaves = Some t -> length leaves = 2 ^ d -> 1 <= d <= 62 ->
  indexes <> [] -> length indexes <= 255 -> NoDup indexes -> (forall i, In i indexes -> i < length leaves) ->
  exists nodes, mt_prove_batch t indexes = Some nodes /\
    mt_verify_batch (mt_root t) indexes (map (fun i => nth i leaves dflt) indexes) nodes d = AuthOk.
Hypothesis draw_total : forall c, exists c' a, cs_draw c = (c', DrawOk a).

Theorem C15_fri_complete : forall f b remmax, 1 <= f -> supported_folding (2 ^ f) = true ->
  forall a k P positions coin0,
  num_fri_layers (mkOpts (2 ^ b) (2 ^ f) remmax) (2 ^ a) = Some k -> k * f < a -> b <= a - k * f -> a <= K -> a <= 62 ->
  length P = 2 ^ (a - b) ->
  positions <> [] /\ length positions <= 255 /\ (forall p, In p positions -> p < 2 ^ a) ->
  let evals := coset_evals O P gen_offset (rou a) (2 ^ a) in
  exists cs proof p',
    prove O rou K gen_offset D hash_elements MT MN mt_new mt_root mt_prove_batch CS cs_reseed cs_draw
          (mkOpts (2 ^ b) (2 ^ f) remmax) coin0 evals positions = Ok (cs, proof, p') /\
    run_verifier O rou K gen_offset dbg D D_eqb hash_elements MN mt_verify_batch CS cs_reseed cs_draw true
          (mkOpts (2 ^ b) (2 ^ f) remmax) coin0 proof cs (2 ^ (a - b) - 1) (2 ^ a)
          (map (fun p => nth p evals (fzero O)) positions) positions
    = RunVerdict (Ok tt).
Proof.
  intros f b remmax Hf Hs.
  exact (fri_complete O L rou K K_pos rou_sq rou_1 two_nz gen_offset offset_nz dbg D D_eqb D_eqb_spec hash_elements MT MN
           mt_new mt_root mt_prove_batch mt_verify_batch CS cs_reseed cs_draw merkle_new_ok merkle_batch_complete draw_total
           f b remmax Hf Hs).
Qed.
End EndToEnd.
End WholeCoset.

Print Assumptions C15_rou_primitive.
Print Assumptions C15_apply_drp_coset.
Print Assumptions C15_apply_drp_coset_relabelled.
Print Assumptions C15_interpolate_coset.
Print Assumptions C15_fft_rec_idft.
Print Assumptions C15_fri_complete.

(* (3') fri_complete with the Merkle externals instantiated by the Merkle model of C10 (Model/Merkle.v through
   Model/FriMerkle.v: MerkleTree::new / root / prove_batch / verify_batch, positions nat <-> usize) and the Merkle
   hypotheses DISCHARGED by C10's theorems (mt_new_ok, batch_complete; Proofs/FriMerkleInst.v), for every digest type
   with a decidable equality, every default digest and every merge function.
   FINAL PREMISE LIST: the field laws; the root-of-unity family facts (rou(k+1)^2 = rou(k) for k < K, rou(1) = -1,
   1 + 1 <> 0, 1 <= K); gen_offset <> 0; D_eqb decides equality; draw_total (the public coin's draw yields an element:
   DefaultRandomCoin gives up after 1000 rejected candidates, which is outside the claim of the property; C19 proves
   that draw returns the first admissible candidate and never panics, not that one exists); and the parameters:
   supported folding 2^f, well-formed schedule (k f < a, b <= a - k f), a <= K, a <= 62, 2^(a-b) coefficients,
   a non-empty list of at most 255 in-range positions. *)
Theorem C15_fri_complete_merkle : forall (F : Type) (O : FOps F), FLaws O ->
  forall (rou : nat -> F) (K : nat), 1 <= K ->
  (forall k, k < K -> fmul O (rou (S k)) (rou (S k)) = rou k) -> rou 1 = fneg O (fone O) ->
  fadd O (fone O) (fone O) <> fzero O ->
  forall (gen_offset : F), gen_offset <> fzero O ->
  forall (dbg : bool) (D : Type) (D_eqb : D -> D -> bool), (forall a b, D_eqb a b = true <-> a = b) ->
  forall (d0 : D) (merge : D -> D -> D) (hash_elements : list F -> D)
         (CS : Type) (cs_reseed : CS -> D -> CS) (cs_draw : CS -> CS * draw_res F),
  (forall c, exists c' a, cs_draw c = (c', DrawOk a)) ->
  forall f b remmax, 1 <= f -> supported_folding (2 ^ f) = true ->
  forall a k P positions coin0,
  num_fri_layers (mkOpts (2 ^ b) (2 ^ f) remmax) (2 ^ a) = Some k -> k * f < a -> b <= a - k * f -> a <= K -> a <= 62 ->
  length P = 2 ^ (a - b) ->
  positions <> [] /\ length positions <= 255 /\ (forall p, In p positions -> p < 2 ^ a) ->
  let evals := coset_evals O P gen_offset (rou a) (2 ^ a) in
  exists cs proof p',
    prove O rou K gen_offset D hash_elements (mtree D) (list (list D))
          (cm_new D d0 merge) (cm_root D d0) (cm_prove_batch D d0) CS cs_reseed cs_draw
          (mkOpts (2 ^ b) (2 ^ f) remmax) coin0 evals positions = Ok (cs, proof, p') /\
    run_verifier O rou K gen_offset dbg D D_eqb hash_elements (list (list D)) (cm_verify_batch D D_eqb merge)
          CS cs_reseed cs_draw true
          (mkOpts (2 ^ b) (2 ^ f) remmax) coin0 proof cs (2 ^ (a - b) - 1) (2 ^ a)
          (map (fun p => nth p evals (fzero O)) positions) positions
    = RunVerdict (Ok tt).
Proof.
  intros F O L rou K HK Hsq H1 H2 gen_offset Hoff dbg D D_eqb Hspec d0 merge hash_elements CS cs_reseed cs_draw Hdraw
         f b remmax Hf Hs.
  exact (fri_complete_merkle D D_eqb Hspec d0 merge O L rou K HK Hsq H1 H2 gen_offset Hoff dbg hash_elements
           CS cs_reseed cs_draw Hdraw f b remmax Hf Hs).
Qed.
Print Assumptions C15_fri_complete_merkle.

(* (3'') ... and with the field instantiated: the prime field F64 (sigma type over canonical residues, Proofs/ZpLaws.v)
   with the crate's constants: roots rouF64(k) = TWO_ADIC_ROOT_OF_UNITY^(2^(TWO_ADICITY - k)), TWO_ADICITY = 32,
   domain offset GENERATOR — the root-family facts and offset <> 0 are checked by computation (Proofs/FriFields.v).
   FINAL PREMISE LIST: D_eqb decides equality; draw_total; the schedule/parameter conditions. *)
Theorem C15_fri_complete_f64 : forall (dbg : bool) (D : Type) (D_eqb : D -> D -> bool),
  (forall a b, D_eqb a b = true <-> a = b) ->
  forall (d0 : D) (merge : D -> D -> D) (CS : Type) (cs_reseed : CS -> D -> CS)
         (hash_elements : list (Zp P64) -> D) (cs_draw : CS -> CS * draw_res (Zp P64)),
  (forall c, exists c' a, cs_draw c = (c', DrawOk a)) ->
  forall f b remmax, 1 <= f -> supported_folding (2 ^ f) = true ->
  forall a k P positions coin0,
  num_fri_layers (mkOpts (2 ^ b) (2 ^ f) remmax) (2 ^ a) = Some k -> k * f < a -> b <= a - k * f -> a <= 32 -> a <= 62 ->
  length P = 2 ^ (a - b) ->
  positions <> [] /\ length positions <= 255 /\ (forall p, In p positions -> p < 2 ^ a) ->
  let evals := coset_evals F64_ops P genF64 (rouF64 a) (2 ^ a) in
  exists cs proof p',
    prove F64_ops rouF64 32 genF64 D hash_elements (mtree D) (list (list D))
          (cm_new D d0 merge) (cm_root D d0) (cm_prove_batch D d0) CS cs_reseed cs_draw
          (mkOpts (2 ^ b) (2 ^ f) remmax) coin0 evals positions = Ok (cs, proof, p') /\
    run_verifier F64_ops rouF64 32 genF64 dbg D D_eqb hash_elements (list (list D)) (cm_verify_batch D D_eqb merge)
          CS cs_reseed cs_draw true
          (mkOpts (2 ^ b) (2 ^ f) remmax) coin0 proof cs (2 ^ (a - b) - 1) (2 ^ a)
          (map (fun p => nth p evals (fzero F64_ops)) positions) positions
    = RunVerdict (Ok tt).
Proof. exact fri_complete_f64. Qed.
Print Assumptions C15_fri_complete_f64.

(* (3'') ... and with the field instantiated: the prime field F128 (sigma type over canonical residues, Proofs/ZpLaws.v)
   with the crate's constants: roots rouF128(k) = TWO_ADIC_ROOT_OF_UNITY^(2^(TWO_ADICITY - k)), TWO_ADICITY = 40,
   domain offset GENERATOR — the root-family facts and offset <> 0 are checked by computation (Proofs/FriFields.v).
   FINAL PREMISE LIST: D_eqb decides equality; draw_total; the schedule/parameter conditions. *)
Theorem C15_fri_complete_f128 : forall (dbg : bool) (D : Type) (D_eqb : D -> D -> bool),
  (forall a b, D_eqb a b = true <-> a = b) ->
  forall (d0 : D) (merge : D -> D -> D) (CS : Type) (cs_reseed : CS -> D -> CS)
         (hash_elements : list (Zp P128) -> D) (cs_draw : CS -> CS * draw_res (Zp P128)),
  (forall c, exists c' a, cs_draw c = (c', DrawOk a)) ->
  forall f b remmax, 1 <= f -> supported_folding (2 ^ f) = true ->
  forall a k P positions coin0,
  num_fri_layers (mkOpts (2 ^ b) (2 ^ f) remmax) (2 ^ a) = Some k -> k * f < a -> b <= a - k * f -> a <= 40 -> a <= 62 ->
  length P = 2 ^ (a - b) ->
  positions <> [] /\ length positions <= 255 /\ (forall p, In p positions -> p < 2 ^ a) ->
  let evals := coset_evals F128_ops P genF128 (rouF128 a) (2 ^ a) in
  exists cs proof p',
    prove F128_ops rouF128 40 genF128 D hash_elements (mtree D) (list (list D))
          (cm_new D d0 merge) (cm_root D d0) (cm_prove_batch D d0) CS cs_reseed cs_draw
          (mkOpts (2 ^ b) (2 ^ f) remmax) coin0 evals positions = Ok (cs, proof, p') /\
    run_verifier F128_ops rouF128 40 genF128 dbg D D_eqb hash_elements (list (list D)) (cm_verify_batch D D_eqb merge)
          CS cs_reseed cs_draw true
          (mkOpts (2 ^ b) (2 ^ f) remmax) coin0 proof cs (2 ^ (a - b) - 1) (2 ^ a)
          (map (fun p => nth p evals (fzero F128_ops)) positions) positions
    = RunVerdict (Ok tt).
Proof. exact fri_complete_f128. Qed.
Print Assumptions C15_fri_complete_f128.

(* (3''') the quadratic extension field over F64 — the case the STARK pipeline uses whenever an extension is selected: the FRI
   domain lives in the base field and is embedded (E::from); the root-family facts and offset <> 0 are TRANSPORTED through the
   embedding, an injective ring homomorphism (C08: ExtModel.q_embed_hom; Proofs/FriQuad.v), the field laws of the extension
   are C08's f64_quad_laws.  Same premise list as C15_fri_complete_f64: D_eqb decides equality, draw_total, the parameters. *)
Theorem C15_fri_complete_f64_quad : forall (dbg : bool) (D : Type) (D_eqb : D -> D -> bool),
  (forall a b, D_eqb a b = true <-> a = b) ->
  forall (d0 : D) (merge : D -> D -> D) (CS : Type) (cs_reseed : CS -> D -> CS)
         (hash_elements : list (Zp P64 * Zp P64) -> D) (cs_draw : CS -> CS * draw_res (Zp P64 * Zp P64)),
  (forall c, exists c' a, cs_draw c = (c', DrawOk a)) ->
  forall f b remmax, 1 <= f -> supported_folding (2 ^ f) = true ->
  forall a k P positions coin0,
  num_fri_layers (mkOpts (2 ^ b) (2 ^ f) remmax) (2 ^ a) = Some k -> k * f < a -> b <= a - k * f -> a <= 32 -> a <= 62 ->
  length P = 2 ^ (a - b) ->
  positions <> [] /\ length positions <= 255 /\ (forall p, In p positions -> p < 2 ^ a) ->
  let evals := coset_evals Q64 P genQ64 (rouQ64 a) (2 ^ a) in
  exists cs proof p',
    prove Q64 rouQ64 32 genQ64 D hash_elements (mtree D) (list (list D))
          (cm_new D d0 merge) (cm_root D d0) (cm_prove_batch D d0) CS cs_reseed cs_draw
          (mkOpts (2 ^ b) (2 ^ f) remmax) coin0 evals positions = Ok (cs, proof, p') /\
    run_verifier Q64 rouQ64 32 genQ64 dbg D D_eqb hash_elements (list (list D)) (cm_verify_batch D D_eqb merge)
          CS cs_reseed cs_draw true
          (mkOpts (2 ^ b) (2 ^ f) remmax) coin0 proof cs (2 ^ (a - b) - 1) (2 ^ a)
          (map (fun p => nth p evals (fzero Q64)) positions) positions
    = RunVerdict (Ok tt).
Proof. exact fri_complete_f64_quad. Qed.
Print Assumptions C15_fri_complete_f64_quad.

(* (3''') the quadratic extension field over F128 — the case the STARK pipeline uses whenever an extension is selected: the FRI
   domain lives in the base field and is embedded (E::from); the root-family facts and offset <> 0 are TRANSPORTED through the
   embedding, an injective ring homomorphism (C08: ExtModel.q_embed_hom; Proofs/FriQuad.v), the field laws of the extension
   are C08's f128_quad_laws.  Same premise list as C15_fri_complete_f128: D_eqb decides equality, draw_total, the parameters. *)
Theorem C15_fri_complete_f128_quad : forall (dbg : bool) (D : Type) (D_eqb : D -> D -> bool),
  (forall a b, D_eqb a b = true <-> a = b) ->
  forall (d0 : D) (merge : D -> D -> D) (CS : Type) (cs_reseed : CS -> D -> CS)
         (hash_elements : list (Zp P128 * Zp P128) -> D) (cs_draw : CS -> CS * draw_res (Zp P128 * Zp P128)),
  (forall c, exists c' a, cs_draw c = (c', DrawOk a)) ->
  forall f b remmax, 1 <= f -> supported_folding (2 ^ f) = true ->
  forall a k P positions coin0,
  num_fri_layers (mkOpts (2 ^ b) (2 ^ f) remmax) (2 ^ a) = Some k -> k * f < a -> b <= a - k * f -> a <= 40 -> a <= 62 ->
  length P = 2 ^ (a - b) ->
  positions <> [] /\ length positions <= 255 /\ (forall p, In p positions -> p < 2 ^ a) ->
  let evals := coset_evals Q128 P genQ128 (rouQ128 a) (2 ^ a) in
  exists cs proof p',
    prove Q128 rouQ128 40 genQ128 D hash_elements (mtree D) (list (list D))
          (cm_new D d0 merge) (cm_root D d0) (cm_prove_batch D d0) CS cs_reseed cs_draw
          (mkOpts (2 ^ b) (2 ^ f) remmax) coin0 evals positions = Ok (cs, proof, p') /\
    run_verifier Q128 rouQ128 40 genQ128 dbg D D_eqb hash_elements (list (list D)) (cm_verify_batch D D_eqb merge)
          CS cs_reseed cs_draw true
          (mkOpts (2 ^ b) (2 ^ f) remmax) coin0 proof cs (2 ^ (a - b) - 1) (2 ^ a)
          (map (fun p => nth p evals (fzero Q128)) positions) positions
    = RunVerdict (Ok tt).
Proof. exact fri_complete_f128_quad. Qed.
Print Assumptions C15_fri_complete_f128_quad.

(* non-vacuity of the root-family hypotheses: f64, K = 2, roots 1, -1, 2^48 (2^96 = -1 in the Goldilocks field) *)
Example C15_root_family_satisfiable : exists rou : nat -> Zp P64,
  (forall k, k < 2 -> fmul F64_ops (rou (S k)) (rou (S k)) = rou k) /\ rou 1 = fneg F64_ops (fone F64_ops) /\
  fadd F64_ops (fone F64_ops) (fone F64_ops) <> fzero F64_ops.
Proof.
  exists (fun k => match k with 0 => fone F64_ops | 1 => fneg F64_ops (fone F64_ops) | _ => fofz F64_ops (2 ^ 48)%Z end).
  split; [|split].
  - intros k Hk. destruct k as [|[|k]]; [| |lia]; apply zp_val_inj; vm_compute; reflexivity.
  - reflexivity.
  - intros H. apply (f_equal zp_val) in H. vm_compute in H. discriminate.
Qed.

(* ================================================================ round 4: the model computes the GENERATED integer terms *)
(* coq/Gen/FriInt.v is regenerated from fri/src by rs2v on every run of the check (unit FriInt); the theorems below say
   that the hand model's functions compute exactly those terms, for values in the usize range. *)
Theorem C15_gen_options_new : forall b n r,
  options_new b n r = if fri_options_new_checks_ok (Z.of_nat b) (Z.of_nat n) (Z.of_nat r) then Ok (mkOpts b n r) else Panic.
Proof. exact options_new_gen. Qed.
Print Assumptions C15_gen_options_new.

(* num_fri_layers = the generated fuelled while loop (fuel domain_size + 1), when (remainder_max_degree + 1) * blowup and
   domain_size + 1 fit into a usize (the Rust multiplication is unchecked in release and panics in debug otherwise) *)
Theorem C15_gen_num_fri_layers : forall o d, fo_folding o <> 0 ->
  (Z.of_nat d + 1 < 2 ^ 64)%Z -> (Z.of_nat ((fo_remmax o + 1) * fo_blowup o) < 2 ^ 64)%Z -> u64 (fo_remmax o + 1) ->
  option_map Z.of_nat (num_fri_layers o d) = fri_num_fri_layers (S d) (gopts o) (Z.of_nat d).
Proof. exact num_fri_layers_gen. Qed.
Print Assumptions C15_gen_num_fri_layers.

Theorem C15_gen_fold_positions : forall ps d ff, ff <> 0 -> (d / ff <> 0 \/ ps = []) ->
  fold_positions ps d ff = Ok (fold_positions_core ps (Z.to_nat (fri_fold_target_size (Z.of_nat d) (Z.of_nat ff)))).
Proof. exact fold_positions_gen. Qed.
Print Assumptions C15_gen_fold_positions.

Theorem C15_gen_map_positions_to_indexes : forall ps d ff np, np <> 1 -> np <> 0 -> ff <> 0 ->
  (forall p, In p ps -> fri_map_position_index_ok (Z.of_nat p) (Z.of_nat np)
                          (fri_map_positions_sizes (Z.of_nat d) (Z.of_nat ff) (Z.of_nat np)) = true) ->
  map_positions_to_indexes ps d ff np
  = Ok (map (fun p => Z.to_nat (fri_map_position_index (Z.of_nat p) (Z.of_nat np)
                                  (fri_map_positions_sizes (Z.of_nat d) (Z.of_nat ff) (Z.of_nat np)))) ps).
Proof. exact map_positions_to_indexes_gen. Qed.
Print Assumptions C15_gen_map_positions_to_indexes.

(* divisions by the folding factor: running degree bound, domain size, row length of get_query_values, folded domain *)
Theorem C15_gen_layer_divisions : forall x N, N <> 0 ->
  fri_verify_layer_degree_update (Z.of_nat x) (Z.of_nat N) = Z.of_nat (x / N) /\
  fri_verify_layer_domain_update (Z.of_nat x) (Z.of_nat N) = Z.of_nat (x / N) /\
  fri_query_row_length (Z.of_nat x) (Z.of_nat N) = Z.of_nat (x / N) /\
  fri_fold_target_size (Z.of_nat x) (Z.of_nat N) = Z.of_nat (x / N).
Proof. exact verify_layer_updates_gen. Qed.
Print Assumptions C15_gen_layer_divisions.
