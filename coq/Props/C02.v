(* C02 — Soundness: proofs of invalid executions or for other public inputs are rejected.
   Only statements, `exact` of lemmas proved in Proofs/Soundness*.v, and Print Assumptions.

   WHAT IS NOT PROVED (and cannot be with the installed libraries: no probability / random-oracle theory):

     Full soundness statement.  Let AIR be a computation description, pub public inputs, opts proof options with
     blowup b, q queries, grinding w, over a field E (the extension field of the options) and a hash function
     modelled as a random oracle H.  For EVERY (unbounded or Q-query bounded) prover strategy P*:
         if no trace t with  valid(t, AIR, pub)  exists, then
         Pr_H [ verify(P*^H(AIR, pub, opts), pub, {opts}) = Ok ]  <=  eps_ALI + eps_DEEP + eps_FRI(b, q, w) + Q * 2^-lambda
     with eps_ALI ~ L/|E|, eps_DEEP ~ L * (deg + n) / |E| (list size L of the proximity regime) and eps_FRI the
     query-phase error of FRI (C05).  In particular: with overwhelming probability a proof built from a trace that
     violates a transition constraint at a non-exempt step, or an assertion, is rejected whichever cell carries the
     violation, and a proof for one statement is rejected for any other statement.

   WHAT IS PROVED below, for every field (FOps with FLaws) and all sizes: the deterministic enforcement structure
   (validity <-> divisibility of every numerator by its divisor on the enforcement domains; exempt-row corruption
   keeps the statement true; acceptance implies every check), and the counting cores of the two field-size terms
   (roots_bound / ood_counting_partial / ali_*_partial), and that the statement is bound into the coin seed
   (seed_binds_statement).  The probability bound itself is exercised by the falsifier of checks/c02.py (search for
   an accepted proof of an invalid trace), not proved. *)
From Coq Require Import List Arith Bool ZArith.
From VBase Require Import FieldOps ZpOps.
From VModel Require Import Soundness.
From VProofs Require Import ZpLaws SoundnessPoly SoundnessEnforce SoundnessBoundary SoundnessVerifier SoundnessCount SoundnessDeep SoundnessLagrange SoundnessExamples.
From VModel Require EnforceLagrange.
Import ListNotations.
Local Open Scope nat_scope.

(* ------------------------------------------------------------------ counting core *)
Theorem C02_root_factor : forall {F} (O : FOps F), FLaws O -> forall (p : list F) (a : F),
  peval O p a = fzero O <-> exists q, peqv O p (plin O a q).
Proof. exact (@root_factor). Qed.
Print Assumptions C02_root_factor.

Theorem C02_roots_bound : forall {F} (O : FOps F), FLaws O -> forall (p : list F) (d : nat) (rs : list F),
  pnonzero O p -> length p <= S d -> NoDup rs -> (forall r, In r rs -> peval O p r = fzero O) -> length rs <= d.
Proof. exact (@roots_bound). Qed.
Print Assumptions C02_roots_bound.

Theorem C02_roots_bound_degree : forall {F} (O : FOps F), FLaws O -> forall (p rs : list F),
  pnonzero O p -> NoDup rs -> (forall r, In r rs -> peval O p r = fzero O) -> length rs <= pdegree O p.
Proof. exact (@roots_bound_degree). Qed.
Print Assumptions C02_roots_bound_degree.

Theorem C02_agree_bound : forall {F} (O : FOps F), FLaws O -> forall (a b : list F) (d : nat) (rs : list F),
  length a <= S d -> length b <= S d -> ~ peqv O a b -> NoDup rs ->
  (forall r, In r rs -> peval O a r = peval O b r) -> length rs <= d.
Proof. exact (@agree_bound). Qed.
Print Assumptions C02_agree_bound.

Theorem C02_divides_zpoly_iff : forall {F} (O : FOps F), FLaws O -> forall (rs p : list F),
  NoDup rs -> (pdivides O (zpoly O rs) p <-> forall r, In r rs -> peval O p r = fzero O).
Proof. exact (@divides_zpoly_iff). Qed.
Print Assumptions C02_divides_zpoly_iff.

(* ------------------------------------------------------------------ reference validity predicate *)
Theorem C02_valid_b_spec : forall {F} (O : FOps F), FLaws O ->
  forall (trans : nat -> list F -> list F -> list F) t n k asserts,
  valid_b O trans t n k asserts = true <->
  ((forall i, i < n - k -> forall e, In e (trans i (row_at t i) (row_at t (S i))) -> e = fzero O) /\
   (forall a, In a asserts -> forall sv, In sv (asserted_cells O n a) -> cell O t (as_col a) (fst sv) = snd sv)).
Proof. exact (@valid_b_spec). Qed.
Print Assumptions C02_valid_b_spec.

(* ------------------------------------------------------------------ enforcement: invalid => not divisible.
   N j is ANY polynomial taking on the enforced steps g^i (i < n-k) the value of transition constraint j on the frame
   (row i, row i+1) — e.g. the composition of the constraint with the interpolated columns. *)
Theorem C02_invalid_transition_not_divisible : forall {F} (O : FOps F), FLaws O ->
  forall (trans : nat -> list F -> list F -> list F) (g : F) (n : nat) (t : list (list F)) (k m : nat) (N : nat -> list F),
  (forall j i, j < m -> i < n - k ->
     peval O (N j) (fpow O g i) = nth j (trans i (row_at t i) (row_at t (S i))) (fzero O)) ->
  forall j i, j < m -> i < n - k ->
  nth j (trans i (row_at t i) (row_at t (S i))) (fzero O) <> fzero O ->
  ~ pdivides O (trans_divisor_poly O g n k) (N j).
Proof. exact (@invalid_transition_not_divisible). Qed.
Print Assumptions C02_invalid_transition_not_divisible.

(* B is ANY polynomial taking on every asserted step the value (cell - asserted value), e.g. T_col - V *)
Theorem C02_invalid_assertion_not_divisible : forall {F} (O : FOps F), FLaws O ->
  forall (g : F) (n : nat) (t : list (list F)) (a : @Assertion F) (B : list F),
  (forall sv, In sv (asserted_cells O n a) ->
     peval O B (fpow O g (fst sv)) = fsub O (cell O t (as_col a) (fst sv)) (snd sv)) ->
  forall sv, In sv (asserted_cells O n a) -> cell O t (as_col a) (fst sv) <> snd sv ->
  ~ pdivides O (zpoly O (asserted_roots O g n a)) B.
Proof. exact (@invalid_assertion_not_divisible). Qed.
Print Assumptions C02_invalid_assertion_not_divisible.

(* the divisor of an assertion is the vanishing polynomial of its named steps (all three kinds) *)
Theorem C02_asserted_roots_bnd : forall {F} (O : FOps F) (g : F) (n : nat) (a : @Assertion F),
  asserted_roots O g n a =
  match as_kind a with
  | ASingle => bnd_roots O g (as_first a) (as_stride a) 1
  | _ => bnd_roots O g (as_first a) (as_stride a) (n / as_stride a)
  end.
Proof. exact (@asserted_roots_bnd). Qed.
Print Assumptions C02_asserted_roots_bnd.

(* valid <-> every numerator divisible by its divisor; g generates a domain of n distinct points *)
Theorem C02_valid_iff_divisible : forall {F} (O : FOps F), FLaws O ->
  forall (trans : nat -> list F -> list F -> list F) (g : F) (n : nat), NoDup (domain O g n) ->
  forall (t : list (list F)) (k m : nat) (asserts : list (@Assertion F)) (N : nat -> list F) (B : @Assertion F -> list F),
  (forall i cur next, length (trans i cur next) = m) ->
  (forall j i, j < m -> i < n - k ->
     peval O (N j) (fpow O g i) = nth j (trans i (row_at t i) (row_at t (S i))) (fzero O)) ->
  (forall a, In a asserts -> forall sv, In sv (asserted_cells O n a) ->
     peval O (B a) (fpow O g (fst sv)) = fsub O (cell O t (as_col a) (fst sv)) (snd sv)) ->
  (forall a, In a asserts ->
     NoDup (map fst (asserted_cells O n a)) /\ forall sv, In sv (asserted_cells O n a) -> fst sv < n) ->
  (valid O trans t n k asserts <->
   ((forall j, j < m -> pdivides O (trans_divisor_poly O g n k) (N j)) /\
    (forall a, In a asserts -> pdivides O (zpoly O (asserted_roots O g n a)) (B a)))).
Proof. exact (@valid_iff_divisible). Qed.
Print Assumptions C02_valid_iff_divisible.

Theorem C02_invalid_trace_not_divisible : forall {F} (O : FOps F), FLaws O ->
  forall (trans : nat -> list F -> list F -> list F) (g : F) (n : nat), NoDup (domain O g n) ->
  forall (t : list (list F)) (k m : nat) (asserts : list (@Assertion F)) (N : nat -> list F) (B : @Assertion F -> list F),
  (forall i cur next, length (trans i cur next) = m) ->
  (forall j i, j < m -> i < n - k ->
     peval O (N j) (fpow O g i) = nth j (trans i (row_at t i) (row_at t (S i))) (fzero O)) ->
  (forall a, In a asserts -> forall sv, In sv (asserted_cells O n a) ->
     peval O (B a) (fpow O g (fst sv)) = fsub O (cell O t (as_col a) (fst sv)) (snd sv)) ->
  (forall a, In a asserts ->
     NoDup (map fst (asserted_cells O n a)) /\ forall sv, In sv (asserted_cells O n a) -> fst sv < n) ->
  ~ valid O trans t n k asserts ->
  ~ ((forall j, j < m -> pdivides O (trans_divisor_poly O g n k) (N j)) /\
     (forall a, In a asserts -> pdivides O (zpoly O (asserted_roots O g n a)) (B a))).
Proof. exact (@invalid_trace_not_divisible). Qed.
Print Assumptions C02_invalid_trace_not_divisible.

(* a cell of a row n-k < i < n only takes part in exempt transitions; if it is not asserted, ANY value keeps the
   trace valid (hence, by valid_iff_divisible, every numerator divisible): the statement must still be accepted *)
Theorem C02_exempt_corruption_harmless : forall {F} (O : FOps F)
  (trans : nat -> list F -> list F -> list F) (n : nat) (t : list (list F)) (k : nat) (asserts : list (@Assertion F))
  (c i : nat) (v : F),
  valid O trans t n k asserts -> only_exempt n k i = true -> is_asserted O n asserts c i = false ->
  valid O trans (upd_cell t c i v) n k asserts.
Proof. exact (@exempt_corruption_harmless). Qed.
Print Assumptions C02_exempt_corruption_harmless.

(* the divisor evaluation code of the verifier (x^n - 1) / prod_{exempt} (x - e) IS the vanishing polynomial of the
   enforced steps g^0 .. g^(n-k-1), at every point that is not an exemption point *)
Theorem C02_trans_divisor_eval_spec : forall {F} (O : FOps F), FLaws O -> forall (g : F) (n : nat),
  NoDup (domain O g n) -> forall (k : nat) (x : F),
  0 < n -> fpow O g n = fone O -> ~ In x (trans_exempt O g n k) ->
  trans_divisor_eval O g n k x = peval O (trans_divisor_poly O g n k) x.
Proof. exact (@trans_divisor_eval_spec). Qed.
Print Assumptions C02_trans_divisor_eval_spec.

(* the boundary divisor evaluation code x^m - g^(a*m) (x^m - 1 for a = 0) IS the vanishing polynomial of the named steps
   a, a+stride, .., a+(m-1)*stride of a periodic / sequence assertion (stride*m = n), at EVERY point *)
Theorem C02_bnd_divisor_eval_spec : forall {F} (O : FOps F), FLaws O -> forall (g : F) (n : nat),
  NoDup (domain O g n) -> fpow O g n = fone O -> forall (first stride m : nat) (x : F),
  0 < m -> 0 < stride -> stride * m = n ->
  bnd_divisor_eval O g first m x = peval O (bnd_divisor_poly O g first stride m) x.
Proof. exact (@bnd_divisor_eval_spec). Qed.
Print Assumptions C02_bnd_divisor_eval_spec.

Theorem C02_bnd_divisor_eval_single : forall {F} (O : FOps F), FLaws O -> forall (g : F) (first stride : nat) (x : F),
  bnd_divisor_eval O g first 1 x = peval O (bnd_divisor_poly O g first stride 1) x.
Proof. exact (@bnd_divisor_eval_single). Qed.
Print Assumptions C02_bnd_divisor_eval_single.

(* ------------------------------------------------------------------ the verifier's decision
   (main and auxiliary trace segment; any carrier: base field or extension) *)
Theorem C02_verify_accept_implies : forall {F} (O : FOps F), FLaws O ->
  forall (eval_trans : list F -> list F -> list F -> list F)
         (eval_aux_trans : list F -> list F -> list F -> list F -> list F -> list F -> list F)
         (E : Env) (A : AirDesc) (C : Coins) (P : ProofObj),
  verify_model O eval_trans eval_aux_trans E A C P = Accept ->
  e_modulus E = p_modulus P /\
  (exists o, In o (e_acceptable E) /\ zlist_eqb (p_options P) o = true) /\
  (air_lagrange A <> None -> e_gkr_ok E = true) /\
  evaluate_constraints O eval_trans eval_aux_trans A C P = ood_reduce O (air_n A) (c_z C) 0 (p_ood_evals P) /\
  e_fri_commit_ok E = true /\ e_pow_ok E = true /\ e_trace_auth E = true /\ e_cons_auth E = true /\
  e_fri E (deep_evaluations O A C P) = true.
Proof. exact (@verify_accept_implies). Qed.
Print Assumptions C02_verify_accept_implies.

Theorem C02_verify_accept_iff : forall {F} (O : FOps F)
  (eval_trans : list F -> list F -> list F -> list F)
  (eval_aux_trans : list F -> list F -> list F -> list F -> list F -> list F -> list F)
  (E : Env) (A : AirDesc) (C : Coins) (P : ProofObj),
  verify_model O eval_trans eval_aux_trans E A C P = Accept <->
  (Z.eqb (e_modulus E) (p_modulus P) && existsb (zlist_eqb (p_options P)) (e_acceptable E) &&
   match air_lagrange A with Some _ => e_gkr_ok E | None => true end &&
   ood_equation_b O eval_trans eval_aux_trans A C P && e_fri_commit_ok E && e_pow_ok E && e_trace_auth E && e_cons_auth E &&
   e_fri E (deep_evaluations O A C P) = true).
Proof. exact (@verify_accept_iff). Qed.
Print Assumptions C02_verify_accept_iff.

(* every opened row (main, and auxiliary if the trace has one) enters the value handed to FRI as the DEEP quotient
   against the out-of-domain frame *)
Theorem C02_deep_evaluations_nth : forall {F} (O : FOps F) (A : AirDesc) (C : Coins) (P : ProofObj) q rt rc x,
  nth_error (p_q_trace P) q = Some rt -> nth_error (p_q_cons P) q = Some rc -> nth_error (c_xs C) q = Some x ->
  nth_error (deep_evaluations O A C P) q =
  Some (fadd O (fadd O (deep_trace_at O C P (fmul O (c_z C) (air_g A)) rt (cut_aux_row A (aux_row_at P q)) x)
                       (deep_lagrange_at O A C P (fmul O (c_z C) (air_g A)) (aux_row_at P q) x))
               (deep_cons_at O C P rc x)).
Proof. exact (@deep_evaluations_nth). Qed.
Print Assumptions C02_deep_evaluations_nth.

(* the coefficients of the auxiliary columns are those AFTER the main width (skipn (length row)) *)
Theorem C02_deep_trace_at_spec : forall {F} (O : FOps F), FLaws O -> forall (C : Coins) (P : ProofObj) zg row arow x,
  fsub O x (c_z C) <> fzero O -> fsub O x zg <> fzero O ->
  deep_trace_at O C P zg row arow x =
  match p_aux P, arow with
  | Some ax, Some ar =>
      fadd O (fdiv O (fadd O (dot O (cc_deep_trace C) (diffs O row (p_ood_cur P)))
                             (dot O (skipn (length row) (cc_deep_trace C)) (diffs O ar (ax_cur ax)))) (fsub O x (c_z C)))
             (fdiv O (fadd O (dot O (cc_deep_trace C) (diffs O row (p_ood_next P)))
                             (dot O (skipn (length row) (cc_deep_trace C)) (diffs O ar (ax_next ax)))) (fsub O x zg))
  | _, _ =>
      fadd O (fdiv O (dot O (cc_deep_trace C) (diffs O row (p_ood_cur P))) (fsub O x (c_z C)))
             (fdiv O (dot O (cc_deep_trace C) (diffs O row (p_ood_next P))) (fsub O x zg))
  end.
Proof. exact (@deep_trace_at_spec). Qed.
Print Assumptions C02_deep_trace_at_spec.

(* ------------------------------------------------------------------ DEEP coefficients of main and auxiliary columns (round 4)
   (1) the index map of compose_trace_columns: main column i -> cc.trace[i], auxiliary column j -> cc.trace[main_width + j]
       (cc_offset).  It is injective over all columns of a trace of main width w and auxiliary width aw, it enumerates
       exactly 0 .. w+aw-1, and deep_trace_at IS the sum over all columns with these indexes. *)
Theorem C02_deep_coeff_index_aux_offset : forall w j, deep_coeff_index w (AuxCol j) = w + j.
Proof. exact deep_coeff_index_aux_offset. Qed.
Print Assumptions C02_deep_coeff_index_aux_offset.

Theorem C02_deep_coeff_index_injective : forall w aw (c c' : TraceCol),
  col_in_range w aw c -> col_in_range w aw c' -> deep_coeff_index w c = deep_coeff_index w c' -> c = c'.
Proof. exact deep_coeff_index_injective. Qed.
Print Assumptions C02_deep_coeff_index_injective.

Theorem C02_deep_coeff_index_enumerates : forall w aw,
  map (deep_coeff_index w) (all_cols w aw) = seq 0 (w + aw) /\ NoDup (map (deep_coeff_index w) (all_cols w aw)) /\
  (forall c, In c (all_cols w aw) <-> col_in_range w aw c).
Proof. exact (fun w aw => conj (deep_coeff_index_enumerates w aw) (conj (deep_coeff_index_NoDup w aw) (all_cols_in_range w aw))). Qed.
Print Assumptions C02_deep_coeff_index_enumerates.

Theorem C02_deep_trace_at_index_form : forall {F} (O : FOps F), FLaws O ->
  forall (C : Coins) (P : ProofObj) (ax : AuxOpen) zg row ar x,
  p_aux P = Some ax ->
  length (p_ood_cur P) = length row -> length (p_ood_next P) = length row ->
  length (ax_cur ax) = length ar -> length (ax_next ax) = length ar ->
  fsub O x (c_z C) <> fzero O -> fsub O x zg <> fzero O ->
  deep_trace_at O C P zg row (Some ar) x =
  fadd O (fdiv O (col_sum O (cc_deep_trace C) (deep_coeff_index (length row)) (all_cols (length row) (length ar))
                          row ar (p_ood_cur P) (ax_cur ax)) (fsub O x (c_z C)))
         (fdiv O (col_sum O (cc_deep_trace C) (deep_coeff_index (length row)) (all_cols (length row) (length ar))
                          row ar (p_ood_next P) (ax_next ax)) (fsub O x zg)).
Proof. exact (@deep_trace_at_index_form). Qed.
Print Assumptions C02_deep_trace_at_index_form.

(* (2) FULL binding statement (NOT proved, it needs the proximity / low-degree argument of FRI): if FRI accepts the DEEP
       evaluations then every opened column value lies on a polynomial of degree < n consistent with the claimed
       out-of-domain values of THAT column, except with probability ~ (number of columns) / |E| over the coefficients.
       Proved: the algebraic core at one query position.  For two assignments of out-of-domain trace values (same
       openings, same coins except the coefficient vector) the difference of the DEEP trace values is the dot product of
       the coefficient vector with the vector of per-column differences, column c sitting at position deep_coeff_index c ... *)
Theorem C02_deep_ood_difference_linear : forall {F} (O : FOps F), FLaws O ->
  forall (C : Coins) (P : ProofObj) (ax : AuxOpen) zg row ar x cur' next' acur' anext',
  p_aux P = Some ax ->
  length (p_ood_cur P) = length row -> length (p_ood_next P) = length row ->
  length cur' = length row -> length next' = length row ->
  length (ax_cur ax) = length ar -> length (ax_next ax) = length ar ->
  length acur' = length ar -> length anext' = length ar ->
  fsub O x (c_z C) <> fzero O -> fsub O x zg <> fzero O ->
  fsub O (deep_trace_at O C P zg row (Some ar) x)
         (deep_trace_at O C (with_ood P cur' next' acur' anext') zg row (Some ar) x) =
  dot O (cc_deep_trace C)
      (ood_delta O x (c_z C) zg (p_ood_cur P) cur' (p_ood_next P) next' ++
       ood_delta O x (c_z C) zg (ax_cur ax) acur' (ax_next ax) anext').
Proof. exact (@deep_ood_difference_linear). Qed.
Print Assumptions C02_deep_ood_difference_linear.

Theorem C02_ood_delta_nth : forall {F} (O : FOps F), FLaws O -> forall x z zg (cur cur' next next' : list F) i,
  length cur' = length cur -> length next = length cur -> length next' = length cur ->
  nth i (ood_delta O x z zg cur cur' next next') (fzero O) =
  fadd O (fdiv O (fsub O (nth i cur' (fzero O)) (nth i cur (fzero O))) (fsub O x z))
         (fdiv O (fsub O (nth i next' (fzero O)) (nth i next (fzero O))) (fsub O x zg)).
Proof. exact (@ood_delta_nth). Qed.
Print Assumptions C02_ood_delta_nth.

(*     ... hence, because the index map is injective (every column has its own coordinate): if the two assignments differ in
       column c (non-zero difference at this position), the coefficient vectors giving both the SAME DEEP value do not
       contain the unit vector of c, contain at most one vector on every line parallel to that coordinate, and are at
       most |F|^(m-1) of the |F|^m vectors (m = w + aw). *)
Theorem C02_deep_ood_binding_partial : forall {F} (O : FOps F), FLaws O ->
  forall (C : Coins) (P : ProofObj) (ax : AuxOpen) zg row ar x cur' next' acur' anext' (c : TraceCol),
  p_aux P = Some ax ->
  length (p_ood_cur P) = length row -> length (p_ood_next P) = length row ->
  length cur' = length row -> length next' = length row ->
  length (ax_cur ax) = length ar -> length (ax_next ax) = length ar ->
  length acur' = length ar -> length anext' = length ar ->
  fsub O x (c_z C) <> fzero O -> fsub O x zg <> fzero O ->
  let Dm := ood_delta O x (c_z C) zg (p_ood_cur P) cur' (p_ood_next P) next' in
  let Da := ood_delta O x (c_z C) zg (ax_cur ax) acur' (ax_next ax) anext' in
  let m := length row + length ar in
  let same cc := length cc = m /\
                 deep_trace_at O (with_deep_cc C cc) P zg row (Some ar) x =
                 deep_trace_at O (with_deep_cc C cc) (with_ood P cur' next' acur' anext') zg row (Some ar) x in
  col_in_range (length row) (length ar) c -> col_value O Dm Da c <> fzero O ->
  ~ same (unit_vec O m (deep_coeff_index (length row) c)) /\
  (forall al be, same al -> same be ->
     remove_nth (deep_coeff_index (length row) c) al = remove_nth (deep_coeff_index (length row) c) be -> al = be) /\
  (forall elems : list F, (forall y, In y elems) ->
   forall goods : list (list F), NoDup goods -> (forall cc, In cc goods -> same cc) -> length goods <= length elems ^ (m - 1)).
Proof. exact (@deep_ood_binding). Qed.
Print Assumptions C02_deep_ood_binding_partial.

(* (3) REFUTED for the aliased map (auxiliary column j -> cc.trace[j], the running index dropped): it is not injective, and
       opposite errors in main column 0 and auxiliary column 0 — in the opened values (1,0) vs (0,1), or in the claimed
       out-of-domain values (a+1, b-1) vs (a, b) — give the same DEEP trace value for ALL coin outputs (every coefficient
       vector), frames and points: only the sum of the two columns is bound. *)
Theorem C02_aliased_index_not_injective : forall w aw, 0 < w -> 0 < aw ->
  exists c c', col_in_range w aw c /\ col_in_range w aw c' /\ c <> c' /\ aliased_index c = aliased_index c'.
Proof. exact aliased_index_not_injective. Qed.
Print Assumptions C02_aliased_index_not_injective.

Theorem C02_deep_binding_aliased_refuted : forall {F} (O : FOps F), FLaws O ->
  (exists row row' ar ar' : list F, row <> row' /\ ar <> ar' /\
     forall (C : Coins) (P : ProofObj) (ax : AuxOpen) zg x a a2 b b2,
       p_aux P = Some ax -> p_ood_cur P = [a] -> p_ood_next P = [a2] -> ax_cur ax = [b] -> ax_next ax = [b2] ->
       deep_trace_at_gen O aliased_index_aux C P zg row (Some ar) x =
       deep_trace_at_gen O aliased_index_aux C P zg row' (Some ar') x) /\
  (exists d : F, d <> fzero O /\
     forall (C : Coins) (P : ProofObj) (ax : AuxOpen) zg x a a2 b b2 v u, p_aux P = Some ax ->
       [fadd O a d] <> [a] /\
       deep_trace_at_gen O aliased_index_aux C (with_ood P [fadd O a d] [a2] [fsub O b d] [b2]) zg [v] (Some [u]) x =
       deep_trace_at_gen O aliased_index_aux C (with_ood P [a] [a2] [b] [b2]) zg [v] (Some [u]) x).
Proof. exact (@deep_binding_aliased_refuted). Qed.
Print Assumptions C02_deep_binding_aliased_refuted.

(* acceptance read on polynomials: for a frame made of evaluations (main transition constraints on it give N_j(z), the
   H_i(z) are evaluations of the committed columns) the accepted equation is
   H(z) = ((sum_j alpha_j N_j)(z) + sum_j alpha_(nt+j) aux_j) / D(z) + boundary terms (main and auxiliary groups)
          + the Lagrange kernel part (all log2 n transition terms and the boundary term: C02_eval_lagrange_part_explicit),
   D the vanishing polynomial of the enforced steps *)
Theorem C02_accept_gives_polynomial_relation : forall {F} (O : FOps F), FLaws O ->
  forall (eval_trans : list F -> list F -> list F -> list F)
         (eval_aux_trans : list F -> list F -> list F -> list F -> list F -> list F -> list F)
         (E : Env) (A : AirDesc) (C : Coins) (P : ProofObj) (Ns Hs : list (list F)),
  verify_model O eval_trans eval_aux_trans E A C P = Accept ->
  0 < air_n A -> NoDup (domain O (air_g A) (air_n A)) -> fpow O (air_g A) (air_n A) = fone O ->
  ~ In (c_z C) (trans_exempt O (air_g A) (air_n A) (air_k A)) ->
  eval_trans (p_ood_cur P) (p_ood_next P) (periodic_at O A (c_z C)) = map (fun p => peval O p (c_z C)) Ns ->
  p_ood_evals P = map (fun h => peval O h (c_z C)) Hs ->
  peval O (combine_cols O (air_n A) 0 Hs) (c_z C) =
  fadd O (fadd O
         (fdiv O (fadd O (peval O (lincomb O (firstn (air_nt_main A) (cc_trans C)) Ns) (c_z C))
                         match p_aux P with
                         | None => fzero O
                         | Some ax => dot O (skipn (air_nt_main A) (cc_trans C))
                                        (eval_aux_trans (p_ood_cur P) (p_ood_next P) (ax_cur ax) (ax_next ax)
                                                        (periodic_at O A (c_z C)) (c_aux_rands C))
                         end)
                 (peval O (trans_divisor_poly O (air_g A) (air_n A) (air_k A)) (c_z C)))
         (eval_boundary_part O A C P))
         (eval_lagrange_part O A C P).
Proof. exact (@accept_gives_polynomial_relation). Qed.
Print Assumptions C02_accept_gives_polynomial_relation.

(* ------------------------------------------------------------------ Lagrange kernel column (round 5)
   the Lagrange part of the out-of-domain equation (evaluator.rs section 3, computed by C16's model of air/src/air/lagrange/*
   with the divisors LagrangeKernelTransitionConstraints::new builds) in closed form: for a frame c of v + 1 values, v random
   elements r and v coefficients it is the sum of ALL v transition terms
       coef_idx * (r_(v-1-idx) * c_0 - (1 - r_(v-1-idx)) * c_(v-idx)) / (z^(2^idx) - 1),   idx = 0 .. v-1,
   plus the boundary term (c_0 - prod (1 - r_i)) * coef_b / (z - 1).  With C02_accept_gives_polynomial_relation: acceptance
   implies the out-of-domain equation INCLUDING these log2(n) + 1 terms.  (Frames / random elements / coefficients of other
   lengths make the Rust code panic; they are outside the verdict enum.) *)
Theorem C02_eval_lagrange_part_explicit : forall {F} (O : FOps F), FLaws O ->
  forall (A : AirDesc) (C : Coins) (P : ProofObj) (fr : list F) (lc : LagCoins) (v : nat),
  p_lagrange P = Some fr -> c_lagrange C = Some lc ->
  length fr = S v -> length (lg_rands lc) = v -> length (lg_cc_trans lc) = v -> v < 64 ->
  eval_lagrange_part O A C P =
  fadd O (fsum O (map (lag_term O v (lg_cc_trans lc) (lg_rands lc) fr (c_z C)) (seq 0 v)))
         (lag_boundary_term O (lg_rands lc) fr (lg_cc_bnd lc) (c_z C)).
Proof. exact (@eval_lagrange_part_explicit). Qed.
Print Assumptions C02_eval_lagrange_part_explicit.

Theorem C02_lag_term_def : forall {F} (O : FOps F) v (coefs rr c : list F) x idx,
  lag_term O v coefs rr c x idx =
  fmul O (fmul O (nth idx coefs (fzero O))
                 (fsub O (fmul O (nth (v - 1 - idx) rr (fzero O)) (nth 0 c (fzero O)))
                         (fmul O (fsub O (fone O) (nth (v - 1 - idx) rr (fzero O))) (nth (v - idx) c (fzero O)))))
         (finv O (fsub O (fpow O x (2 ^ idx)) (fone O))) /\
  forall lb, lag_boundary_term O rr c lb x =
  fmul O (fmul O (fsub O (nth 0 c (fzero O)) (EnforceLagrange.lag_assertion_value O rr)) lb) (finv O (fsub O x (fone O))).
Proof. exact (fun F O v coefs rr c x idx => conj eq_refl (fun lb => eq_refl)). Qed.
Print Assumptions C02_lag_term_def.

(* REFUTED for the seeded variant C02-r4airc2 in the model (LagrangeKernelTransitionConstraints::new builds one divisor fewer, the
   zip of evaluate_and_combine drops the last constraint): a frame changed ONLY in the entry c(g z), which only the last
   constraint k = v reads (numerator 1 and the boundary numerator are unchanged, numerator 2 changes), gets the same
   out-of-domain value as the original frame — the variant's OOD equation still holds — while the real one changes
   (and verify_model answers RejOod: C02_verify_model_lagrange_nonvacuous).  Instance: 64-bit field, n = 4, v = 2. *)
Theorem C02_dropped_last_lagrange_constraint_refuted :
  (EnforceLagrange.lag_raw F64_ops frame_l' (lg_rands lagc) 1 = EnforceLagrange.lag_raw F64_ops frame_l (lg_rands lagc) 1 /\
   EnforceLagrange.lag_raw F64_ops frame_l' (lg_rands lagc) 2 <> EnforceLagrange.lag_raw F64_ops frame_l (lg_rands lagc) 2 /\
   EnforceLagrange.lag_boundary_numerator F64_ops (lg_rands lagc) frame_l' (lg_cc_bnd lagc) =
   EnforceLagrange.lag_boundary_numerator F64_ops (lg_rands lagc) frame_l (lg_cc_bnd lagc)) /\
  evaluate_constraints_gen F64_ops lt_e la_e (lag_new_dropped F64_ops) air_l coins_l proof_l' =
  evaluate_constraints_gen F64_ops lt_e la_e (lag_new_dropped F64_ops) air_l coins_l proof_l /\
  evaluate_constraints F64_ops lt_e la_e air_l coins_l proof_l' <> evaluate_constraints F64_ops lt_e la_e air_l coins_l proof_l.
Proof. exact (conj frames_differ_in_last_constraint_only dropped_last_constraint_refuted). Qed.
Print Assumptions C02_dropped_last_lagrange_constraint_refuted.

(* ------------------------------------------------------------------ out-of-domain check: counting *)
Theorem C02_ood_reduce_is_evaluation : forall {F} (O : FOps F), FLaws O -> forall n z (hs : list (list F)) i,
  ood_reduce O n z i (map (fun h => peval O h z) hs) = peval O (combine_cols O n i hs) z.
Proof. exact (@ood_reduce_is_evaluation). Qed.
Print Assumptions C02_ood_reduce_is_evaluation.

(* PARTIAL (counting core of eps_DEEP only; the frame values are taken to be evaluations of the committed polynomials,
   which is what DEEP + FRI establish probabilistically): if H * Dd - Nn is not the zero polynomial, at most D points z
   satisfy H(z) = Nn(z) / Dd(z) *)
Theorem C02_ood_counting_partial : forall {F} (O : FOps F), FLaws O -> forall (H Nn Dd : list F) (D : nat) (zs : list F),
  pnonzero O (relation_poly O H Nn Dd) -> length (relation_poly O H Nn Dd) <= S D -> NoDup zs ->
  (forall z, In z zs -> peval O Dd z <> fzero O /\ peval O H z = fdiv O (peval O Nn z) (peval O Dd z)) ->
  length zs <= D.
Proof. exact (@ood_counting_partial). Qed.
Print Assumptions C02_ood_counting_partial.

(* ------------------------------------------------------------------ random linear combination: counting
   PARTIAL (linear-algebra core of eps_ALI; no cardinalities): the coefficient vectors making the combination
   divisible form a subspace that misses the unit vector of every non-divisible p_j ... *)
Theorem C02_ali_counting_partial : forall {F} (O : FOps F), FLaws O -> forall (d : list F) (ps : list (list F)),
  let good al := length al = length ps /\ pdivides O d (lincomb O al ps) in
  (forall al be, good al -> good be -> good (vadd O al be)) /\
  (forall c al, good al -> good (vscale O c al)) /\
  (forall j, j < length ps -> ~ pdivides O d (nth j ps []) -> ~ good (unit_vec O (length ps) j)).
Proof. exact (@ali_good_set_subspace). Qed.
Print Assumptions C02_ali_counting_partial.

(* ... and on every line in a non-divisible direction at most one coefficient is good
   (fibering F^k over the other coordinates: |good| <= |F|^(k-1) of |F|^k) *)
Theorem C02_ali_fiber_unique_partial : forall {F} (O : FOps F), FLaws O -> forall (d p0 p1 : list F) (a b : F),
  ~ pdivides O d p1 ->
  pdivides O d (padd O p0 (pscale O a p1)) -> pdivides O d (padd O p0 (pscale O b p1)) -> a = b.
Proof. exact (@ali_fiber_unique). Qed.
Print Assumptions C02_ali_fiber_unique_partial.

(* the count itself, for a finite field enumerated by [elems] (|F| = length elems when it has no duplicates): for FIXED
   polynomials p_1..p_k with some p_j not divisible by d, at most |F|^(k-1) of the |F|^k coefficient vectors make
   sum_i alpha_i p_i divisible by d.  (What remains unproved for eps_ALI is the proximity-gap setting, where "divisible" is
   replaced by "close to a low-degree polynomial".) *)
Theorem C02_ali_counting : forall {F} (O : FOps F), FLaws O -> forall (d : list F) (ps : list (list F)) (j : nat),
  j < length ps -> ~ pdivides O d (nth j ps []) ->
  forall elems : list F, (forall x, In x elems) ->
  forall goods : list (list F), NoDup goods ->
  (forall al, In al goods -> length al = length ps /\ pdivides O d (lincomb O al ps)) ->
  length goods <= length elems ^ (length ps - 1).
Proof. exact (@ali_counting). Qed.
Print Assumptions C02_ali_counting.

(* ------------------------------------------------------------------ the statement is in the seed *)
Theorem C02_seed_binds_statement : forall {F} (O : FOps F),
  (forall a b : Z, (0 <= a < 2^32)%Z -> (0 <= b < 2^32)%Z -> fofz O a = fofz O b -> a = b) ->
  forall s m1 m2 o pub s' m1' m2' o' pub',
  shape_ok s -> shape_ok s' -> opts_ok o -> opts_ok o' ->
  seed_of O s m1 m2 o pub = seed_of O s' m1' m2' o' pub' ->
  s = s' /\ m1 = m1' /\ m2 = m2' /\ o = o' /\ pub = pub'.
Proof. exact (@seed_binds_statement). Qed.
Print Assumptions C02_seed_binds_statement.

Theorem C02_seed_injectivity_hypothesis_holds :
  (forall a b : Z, (0 <= a < 2^32)%Z -> (0 <= b < 2^32)%Z -> fofz F64_ops a = fofz F64_ops b -> a = b) /\
  (forall a b : Z, (0 <= a < 2^32)%Z -> (0 <= b < 2^32)%Z -> fofz F62_ops a = fofz F62_ops b -> a = b) /\
  (forall a b : Z, (0 <= a < 2^32)%Z -> (0 <= b < 2^32)%Z -> fofz F128_ops a = fofz F128_ops b -> a = b).
Proof. exact (conj F64_ofz_inj (conj F62_ofz_inj F128_ofz_inj)). Qed.
Print Assumptions C02_seed_injectivity_hypothesis_holds.

Theorem C02_flat_avals_inj : forall {F} (O : FOps F),
  (forall a b : Z, (0 <= a < 2^32)%Z -> (0 <= b < 2^32)%Z -> fofz O a = fofz O b -> a = b) ->
  forall (a b : list (list F)),
  Forall (fun l => (Z.of_nat (length l) < 2^32)%Z) a -> Forall (fun l => (Z.of_nat (length l) < 2^32)%Z) b ->
  length a = length b -> flat_avals O a = flat_avals O b -> a = b.
Proof. exact (@flat_avals_inj). Qed.
Print Assumptions C02_flat_avals_inj.

(* ------------------------------------------------------------------ non-vacuity (instances over the 64-bit field) *)
Example C02_invalid_transition_nonvacuous :
  ~ valid F64_ops ctr t_bad 2 1 [a0] /\ ~ all_divisible F64_ops g2 2 1 1 [a0] (Nc t_bad) (Bc t_bad).
Proof. exact invalid_transition_instance. Qed.
Example C02_invalid_assertion_nonvacuous :
  ~ valid F64_ops ctr t_bad_a 2 1 [a0] /\ ~ all_divisible F64_ops g2 2 1 1 [a0] (Nc t_bad_a) (Bc t_bad_a).
Proof. exact invalid_assertion_instance. Qed.
Example C02_valid_nonvacuous :
  valid F64_ops ctr t_ok 2 1 [a0] /\ all_divisible F64_ops g2 2 1 1 [a0] (Nc t_ok) (Bc t_ok).
Proof. exact valid_instance. Qed.
Example C02_exempt_corruption_nonvacuous :
  valid F64_ops ctr t4 4 2 [a0] /\ only_exempt 4 2 3 = true /\ is_asserted F64_ops 4 [a0] 0 3 = false /\
  valid F64_ops ctr (upd_cell t4 0 3 (e 77)) 4 2 [a0].
Proof. exact exempt_corruption_instance. Qed.
Example C02_exempt_side_conditions_needed :
  only_exempt 4 2 2 = false /\ ~ valid F64_ops ctr (upd_cell t4 0 2 (e 77)) 4 2 [a0] /\
  is_asserted F64_ops 4 [a0] 0 0 = true /\ ~ valid F64_ops ctr (upd_cell t4 0 0 (e 77)) 4 2 [a0].
Proof. exact nonexempt_corruption_breaks. Qed.
Example C02_ood_counting_nonvacuous :
  let H := [e 0; e 1] in let Nn := [e 0] in let Dd := [e 1] in
  pnonzero F64_ops (relation_poly F64_ops H Nn Dd) /\ length (relation_poly F64_ops H Nn Dd) <= S 1 /\ NoDup [e 0] /\
  (forall z, In z [e 0] -> peval F64_ops Dd z <> fzero F64_ops /\
     peval F64_ops H z = fdiv F64_ops (peval F64_ops Nn z) (peval F64_ops Dd z)) /\
  length [e 0] <= 1.
Proof. exact ood_counting_instance. Qed.
Example C02_ali_nonvacuous :
  let d := [e 0; e 1] in let p0 := [e 0] in let p1 := [e 1] in
  ~ pdivides F64_ops d p1 /\ pdivides F64_ops d (padd F64_ops p0 (pscale F64_ops (e 0) p1)).
Proof. exact ali_instance. Qed.
Example C02_verify_model_nonvacuous :
  verify_model F64_ops ctr_e aux_e envx airx coinsx proofx = Accept /\
  verify_model F64_ops ctr_e aux_e envx airx coinsx proofy = RejOod /\
  verify_model F64_ops ctr_e aux_e (mkEnv 7 [[1%Z; 2%Z]] true true true true true (fun _ => true)) airx coinsx proofx = Accept.
Proof. exact (conj (proj1 verify_accept_instance) (conj (proj1 (proj2 verify_accept_instance)) (proj1 verify_accept_instance))). Qed.
(* with an auxiliary segment: accepted / an auxiliary out-of-domain value changed is rejected; the auxiliary terms enter *)
Example C02_verify_model_aux_nonvacuous :
  verify_model F64_ops ctr_e aux_e envx airx coinsx proofxa = Accept /\
  verify_model F64_ops ctr_e aux_e envx airx coinsx proofya = RejOod /\
  p_ood_evals proofxa <> p_ood_evals proofx /\
  length (deep_evaluations F64_ops airx coinsx proofxa) = 2 /\
  deep_evaluations F64_ops airx coinsx proofxa <> deep_evaluations F64_ops airx coinsx proofya.
Proof. exact verify_accept_instance_aux. Qed.
(* the hypotheses of deep_ood_binding_partial are satisfiable, and its "same" set is neither empty nor everything *)
Example C02_deep_ood_binding_nonvacuous :
  let P := proof_d in let C := coins_d in let zg := e6 7 in let x := e6 10 in
  p_aux P = Some (mkAuxOpen [e6 8] [e6 9] []) /\
  fsub F64_ops x (c_z C) <> fzero F64_ops /\ fsub F64_ops x zg <> fzero F64_ops /\
  col_value F64_ops (ood_delta F64_ops x (c_z C) zg [e6 3] [e6 4] [e6 4] [e6 4])
            (ood_delta F64_ops x (c_z C) zg [e6 8] [e6 8] [e6 9] [e6 9]) (MainCol 0) <> fzero F64_ops /\
  deep_trace_at F64_ops (with_deep_cc C [e6 0; e6 1]) P zg [e6 1] (Some [e6 2]) x =
  deep_trace_at F64_ops (with_deep_cc C [e6 0; e6 1]) (with_ood P [e6 4] [e6 4] [e6 8] [e6 9]) zg [e6 1] (Some [e6 2]) x /\
  deep_trace_at F64_ops (with_deep_cc C [e6 1; e6 0]) P zg [e6 1] (Some [e6 2]) x <>
  deep_trace_at F64_ops (with_deep_cc C [e6 1; e6 0]) (with_ood P [e6 4] [e6 4] [e6 8] [e6 9]) zg [e6 1] (Some [e6 2]) x.
Proof. exact deep_ood_binding_instance. Qed.
(* the witnesses of the refuted statement are separated by the real index map, not by the aliased one *)
Example C02_real_map_separates_aliased_witness :
  deep_trace_at F64_ops coins_d proof_d (e6 7) [fadd F64_ops (fzero F64_ops) (fone F64_ops)]
                (Some [fsub F64_ops (fone F64_ops) (fone F64_ops)]) (e6 10) <>
  deep_trace_at F64_ops coins_d proof_d (e6 7) [fzero F64_ops] (Some [fone F64_ops]) (e6 10) /\
  deep_trace_at_gen F64_ops aliased_index_aux coins_d proof_d (e6 7) [fadd F64_ops (fzero F64_ops) (fone F64_ops)]
                (Some [fsub F64_ops (fone F64_ops) (fone F64_ops)]) (e6 10) =
  deep_trace_at_gen F64_ops aliased_index_aux coins_d proof_d (e6 7) [fzero F64_ops] (Some [fone F64_ops]) (e6 10).
Proof. exact (conj real_map_separates aliased_map_does_not). Qed.
(* a run with a Lagrange kernel column: accepted; the GKR verdict false: RejGkr; the frame entry read by the last Lagrange
   constraint changed: RejOod *)
Example C02_verify_model_lagrange_nonvacuous :
  verify_model F64_ops lt_e la_e (env_l true) air_l coins_l proof_l = Accept /\
  verify_model F64_ops lt_e la_e (env_l false) air_l coins_l proof_l = RejGkr /\
  verify_model F64_ops lt_e la_e (env_l true) air_l coins_l proof_l' = RejOod /\
  length (deep_evaluations F64_ops air_l coins_l proof_l) = 2.
Proof. exact verify_lagrange_instance. Qed.
Example C02_lagrange_part_nonzero : eval_lagrange_part F64_ops air_l coins_l proof_l <> fzero F64_ops.
Proof. exact lagrange_part_nonzero. Qed.
