(* C03 — Proof integrity: any change to the content of an accepted proof causes rejection.
   Only statements, `exact` of lemmas proved in Proofs/Integrity*.v, and Print Assumptions.

   LEVEL.  What is proved is the binding STRUCTURE of the verifier, for EVERY proof shape: every component the
   verifier consumes is tied — by absorption into the public coin, by a Merkle authentication against an absorbed
   commitment, or by a comparison with something so tied — to data the query positions depend on, and the
   authentication / use of query data happens after the positions are drawn.  Rejection after a change of an
   ABSORBED value is probabilistic (the positions or challenges change) and is exercised by the falsifier, not
   proved.  Collision resistance is never assumed: where binding could fail an explicit collision is exhibited.

   Vocabulary (Model/Integrity.v, Proofs/IntegrityOrder.v):
     events v s        the ordered event list of an accepting run of verify() on a proof of shape s; v records which
                       of the repairs found by the C03/C05 falsifiers are present (current = /repo's working tree,
                       unrepaired = none); tied to the code on every run by the event-log correspondence
                       (RecordingCoin + LoggingHasher) for the observable events
     admissible v s    shapes that can be accepted (current: the proof has exactly the FRI layers the options imply)
     absorbed_pre l c  c is fed into the coin by an event of l that no DrawPositions precedes
     auth_bound l c    the rows of c are hashed into leaves and later authenticated (verify_batch) against a root r
                       with absorbed_pre l r
     bound l c         absorbed_pre, or auth_bound, or determined through an injective comparison (length, count,
                       absence, hash = commitment) by components that are absorbed_pre / auth_bound
     consumed l c      c is used, authenticated, absorbed or compared at all
     layout_only c     c = NumPartitions (the FRI partition count), exactly
     query_data c      opened rows (trace, constraint, FRI layers) and the FRI remainder *)
From Coq Require Import ZArith List Bool.
From VBase Require Import MachInt.
From VModel Require Import Merkle Integrity.
From VProofs Require Import MerkleBase MerkleSingle MerkleTotal IntegrityOrder IntegrityBinding IntegrityExamples IntegrityTranscript IntegrityCheckSound.
Import ListNotations.

(* ------------------------------------------------------------------------------------------------ structure *)

(* every run obeys the discipline enforced by the executable checker [check] (Model/Integrity.v) *)
Theorem C03_events_check : forall s, admissible current s = true -> check st0 (events current s) = true.
Proof. exact events_check. Qed.
Print Assumptions C03_events_check.

(* ... and ANY event list accepted by the checker (not only the generator's) obeys the discipline, in declarative form
   ([demands pre e], Proofs/IntegrityCheckSound.v: an Absorb / DrawPositions has no DrawPositions before it; an AuthCheck
   comes after DrawPositions, against a root absorbed before, of rows hashed before; the remainder-commitment comparison is
   against an absorbed commitment of a hashed remainder; a Use of query data comes after DrawPositions and after the
   authentication of that data).  [check] is therefore a sound oracle for observed event logs. *)
Theorem C03_check_sound : forall l, check st0 l = true ->
  forall pre e post, l = pre ++ e :: post -> demands pre e.
Proof. exact check_sound. Qed.
Print Assumptions C03_check_sound.

Theorem C03_events_obey_discipline : forall s, admissible current s = true ->
  forall pre e post, events current s = pre ++ e :: post -> demands pre e.
Proof. exact events_obey_discipline. Qed.
Print Assumptions C03_events_obey_discipline.

(* every_component_bound: every component consumed by arithmetic or control flow, except layout-only metadata, is bound *)
Theorem C03_every_component_bound : forall s c, admissible current s = true ->
  In (Use c) (events current s) -> layout_only c = false -> bound (events current s) c.
Proof. exact every_component_bound. Qed.
Print Assumptions C03_every_component_bound.

(* ... and query data is used only after the positions are drawn and after its own authentication *)
Theorem C03_query_data_used_after_auth : forall s pre post c, admissible current s = true ->
  events current s = pre ++ Use c :: post -> query_data c = true ->
  In DrawPositions pre /\
  ((exists p r, In (AuthCheck c p r) pre) \/ (exists r, In (Compare CkRemainderCommit [c] [r]) pre)).
Proof. exact query_data_used_after_auth. Qed.
Print Assumptions C03_query_data_used_after_auth.

(* commitments_before_positions: nothing is absorbed after the positions are drawn; every authentication comes after
   it and is against a commitment absorbed before it; the positions are drawn once *)
Theorem C03_commitments_before_positions : forall s pre post e, events current s = pre ++ e :: post ->
  (forall t, e = Absorb t -> ~ In DrawPositions pre) /\
  (forall r p root, e = AuthCheck r p root -> In DrawPositions pre /\ absorbed_pre (events current s) root) /\
  (e = DrawPositions -> ~ In DrawPositions pre /\ ~ In DrawPositions post).
Proof. exact commitments_before_positions. Qed.
Print Assumptions C03_commitments_before_positions.

Theorem C03_every_commitment_absorbed : forall s c, In c (commitments s) -> absorbed_pre (events current s) c.
Proof. exact every_commitment_absorbed. Qed.
Print Assumptions C03_every_commitment_absorbed.

(* remainder_bound (repaired code): the remainder is hashed and compared with the absorbed remainder commitment after
   the positions are drawn and before it is used *)
Theorem C03_remainder_bound : forall s, exists pre post,
  events current s = pre ++ Compare CkRemainderCommit [Remainder] [RemainderRoot] :: post /\
  In (HashWhole [Remainder]) pre /\ In DrawPositions pre /\ absorbed_pre (events current s) RemainderRoot /\
  (forall pre' post', events current s = pre' ++ Use Remainder :: post' ->
     In (Compare CkRemainderCommit [Remainder] [RemainderRoot]) pre').
Proof. exact remainder_bound. Qed.
Print Assumptions C03_remainder_bound.

(* the defect shared with C05 (fixes/c05-fri-remainder-commitment-check): without that comparison the remainder is
   used but bound to nothing, for every shape *)
Theorem C03_remainder_unbound_without_check : forall v s, v_remainder_check v = false ->
  In (Use Remainder) (events v s) /\ ~ bound (events v s) Remainder.
Proof. exact remainder_unbound_without_check. Qed.
Print Assumptions C03_remainder_unbound_without_check.

(* layout_metadata_excluded: among the consumed components the unbound ones are exactly the layout-only metadata *)
Theorem C03_layout_metadata_excluded : forall s c, admissible current s = true -> In (Use c) (events current s) ->
  (bound (events current s) c <-> layout_only c = false).
Proof. exact layout_metadata_excluded. Qed.
Print Assumptions C03_layout_metadata_excluded.

(* no component of an accepted proof is ignored (repaired code) ... *)
Theorem C03_no_component_ignored : forall s c, admissible current s = true ->
  In c (proof_components s) -> layout_only c = false -> consumed (events current s) c.
Proof. exact no_component_ignored. Qed.
Print Assumptions C03_no_component_ignored.

(* ... which failed in two ways before the repairs (fixes/c03-fri-layer-count, fixes/c03-gkr-proof-presence) *)
Theorem C03_surplus_layers_ignored_without_check : forall v, v_layer_count_check v = false ->
  exists s c, admissible v s = true /\ In c (proof_components s) /\ layout_only c = false /\ ~ consumed (events v s) c.
Proof. exact surplus_layers_ignored_without_check. Qed.
Print Assumptions C03_surplus_layers_ignored_without_check.

Theorem C03_gkr_ignored_without_check : forall v s, v_gkr_check v = false -> ~ consumed (events v s) GkrProof.
Proof. exact gkr_ignored_without_check. Qed.
Print Assumptions C03_gkr_ignored_without_check.

(* trailing_bytes_policy: every byte container of the proof is parsed; the only parser that ignores bytes left over is
   Proof::from_bytes itself (the decoded Proof is then EQUAL: outside C03); before fixes/c03-ood-lagrange-trailing-bytes
   OodFrame::parse also ignored them for the Lagrange-kernel component (decoded content different: a violation) *)
Theorem C03_trailing_bytes_policy : forall s b, In (Parse b false) (decode_events ++ events current s) <-> b = BProof.
Proof. exact trailing_bytes_policy. Qed.
Print Assumptions C03_trailing_bytes_policy.

Theorem C03_trailing_bytes_policy_unrepaired : forall s b,
  In (Parse b false) (decode_events ++ events unrepaired s) <-> b = BProof \/ b = BOodLagrange.
Proof. exact trailing_bytes_policy_unrepaired. Qed.
Print Assumptions C03_trailing_bytes_policy_unrepaired.

Theorem C03_every_blob_parsed : forall v s b, In b (blobs s) <-> exists x, In (Parse b x) (decode_events ++ events v s).
Proof. exact every_blob_parsed. Qed.
Print Assumptions C03_every_blob_parsed.

(* ------------------------------------------------------------------------------------------------ binding_sound *)

(* (a) AuthCheck, single opening: instance of C10's single_binding_paths; no hypothesis on merge or on the leaf hash *)
Theorem C03_auth_binding_single : forall (D : Type) (D_eqb : D -> D -> bool),
  (forall a b, D_eqb a b = true <-> a = b) -> forall (d0 : D) (merge : D -> D -> D) (V : Type) (hl : V -> D)
  root index v v' q q',
  verify D D_eqb merge root index (hl v :: q) = Ok tt ->
  verify D D_eqb merge root index (hl v' :: q') = Ok tt ->
  length q = length q' -> v <> v' ->
  leaf_collision D V hl (v, v') \/
  exists c, find_collision D D_eqb d0 merge index (hl v :: q) (hl v' :: q') = Some c /\ is_collision D merge c.
Proof. exact auth_binding_single. Qed.
Print Assumptions C03_auth_binding_single.

(* (a) AuthCheck, batch opening (what the verifier calls): instance of C10_batch_binding_verify_batch.  Two accepting
   runs against the root of a committed tree, same positions (usize values), same number of opened rows, different rows:
   a pair of different rows with the same leaf hash, or a collision of merge.  No hypothesis on merge or the leaf hash. *)
Theorem C03_auth_binding_batch : forall (D : Type) (D_eqb : D -> D -> bool),
  (forall a b, D_eqb a b = true <-> a = b) -> forall (d0 : D) (merge : D -> D -> D)
  (V : Type) (hl : V -> D), (forall a b : V, {a = b} + {a <> b}) ->
  forall t d idx nodes nodes' vs vs',
  wf_tree D d0 merge d t -> (d <= 62)%nat -> usize_list idx ->
  verify_batch D D_eqb merge (hval D d0 t 1) idx {| bp_leaves := map hl vs; bp_nodes := nodes; bp_depth := Z.of_nat d |} = Ok tt ->
  verify_batch D D_eqb merge (hval D d0 t 1) idx {| bp_leaves := map hl vs'; bp_nodes := nodes'; bp_depth := Z.of_nat d |} = Ok tt ->
  length vs = length idx -> length vs' = length idx -> vs <> vs' ->
  (exists j v v', nth_error vs j = Some v /\ nth_error vs' j = Some v' /\ leaf_collision D V hl (v, v'))
  \/ exists c, is_collision D merge c.
Proof. exact auth_binding_batch. Qed.
Print Assumptions C03_auth_binding_batch.

(* (b) Absorb: a different value of an absorbed component changes the (free) coin term, and if the absorption precedes
   DrawPositions, the term the positions are drawn from *)
Theorem C03_absorb_binding : forall (Val : Type) (rho rho' : comp -> Val) l c,
  (exists e, In e l /\ absorbs e c) -> rho c <> rho' c -> coin Val rho l (CEmpty Val) <> coin Val rho' l (CEmpty Val).
Proof. exact absorb_binding. Qed.
Print Assumptions C03_absorb_binding.

Theorem C03_absorbed_pre_changes_position_seed : forall (Val : Type) (rho rho' : comp -> Val) pre post c,
  ~ In DrawPositions pre -> absorbed_pre (pre ++ DrawPositions :: post) c -> rho c <> rho' c ->
  coin Val rho (pre ++ [DrawPositions]) (CEmpty Val) <> coin Val rho' (pre ++ [DrawPositions]) (CEmpty Val).
Proof. exact absorbed_pre_changes_position_seed. Qed.
Print Assumptions C03_absorbed_pre_changes_position_seed.

(* ------------------------------------------------------------------------------------------------ agreement with C04 *)

(* The coin operations of this model are, operation for operation, the verifier transcript of C04's model
   (Model/Transcript.v, T = VModel.Transcript), for every shape of that model without a Lagrange-kernel column (this model has no GKR step), every list of FRI rows, every variant:
   two hand-written models of the same code, tied to it by different correspondences, agree on their common part. *)
Theorem C03_coin_projection_is_C04_transcript : forall (t : T.shape) rows uniq v, T.sh_lagrange t = None ->
  flat_map (coin_ops (T.sh_ext_deg t) (T.sh_queries t)) (events v (shape_of t rows uniq)) = T.verifier t.
Proof. exact coin_projection_is_transcript. Qed.
Print Assumptions C03_coin_projection_is_C04_transcript.

(* ------------------------------------------------------------------------------------------------ non-vacuity *)
Example C03_admissible_shapes : admissible current ex_shape = true /\ admissible current ex_shape0 = true /\
  admissible current ex_shape_surplus = false /\ admissible unrepaired ex_shape_surplus = true.
Proof. exact ex_admissible. Qed.
Print Assumptions C03_admissible_shapes.

Example C03_checker_not_trivial : check st0 (events unrepaired ex_shape) = false.
Proof. exact ex_check_unrepaired. Qed.
Print Assumptions C03_checker_not_trivial.

Example C03_auth_single_hypotheses_satisfiable :
  let merge := fun _ _ : Z => 0%Z in
  verify Z Z.eqb merge 0%Z 0%Z [1; 5]%Z = Ok tt /\ verify Z Z.eqb merge 0%Z 0%Z [2; 5]%Z = Ok tt /\
  exists c, find_collision Z Z.eqb 0%Z merge 0%Z [1; 5]%Z [2; 5]%Z = Some c /\ is_collision Z merge c.
Proof. exact ex_auth_single_hyps. Qed.
Print Assumptions C03_auth_single_hypotheses_satisfiable.

Example C03_auth_batch_hypotheses_satisfiable :
  let merge := fun _ _ : Z => 0%Z in
  wf_tree Z 0%Z merge 1 ex_tree /\ usize_list [0%Z] /\
  verify_batch Z Z.eqb merge (hval Z 0%Z ex_tree 1) [0%Z]
    {| bp_leaves := map (fun v : Z => v) [5%Z]; bp_nodes := [[2%Z]]; bp_depth := Z.of_nat 1 |} = Ok tt /\
  verify_batch Z Z.eqb merge (hval Z 0%Z ex_tree 1) [0%Z]
    {| bp_leaves := map (fun v : Z => v) [6%Z]; bp_nodes := [[2%Z]]; bp_depth := Z.of_nat 1 |} = Ok tt /\
  [5%Z] <> [6%Z].
Proof. exact ex_auth_batch_hyps. Qed.
Print Assumptions C03_auth_batch_hypotheses_satisfiable.

Example C03_absorb_hypotheses_satisfiable :
  (exists e, In e (events current ex_shape0) /\ absorbs e ConstraintRoot) /\
  (fun c => match c with ConstraintRoot => 1%Z | _ => 0%Z end) ConstraintRoot <> (fun _ : comp => 0%Z) ConstraintRoot.
Proof. exact ex_absorb_hyps. Qed.
Print Assumptions C03_absorb_hypotheses_satisfiable.

(* faithful order: the OOD frame is evaluated before it is absorbed; the deciding comparison follows both absorptions *)
Example C03_ood_used_before_absorbed : exists pre post,
  events current ex_shape0 =
    pre ++ [Use OodTrace; HashWhole ood_frame; Absorb (HashOf ood_frame); Use OodEvals; HashWhole [OodEvals];
            Absorb (HashOf [OodEvals]); Compare CkOod [OodTrace] [OodEvals]] ++ post.
Proof. exact ex_ood_used_before_absorbed. Qed.
Print Assumptions C03_ood_used_before_absorbed.
