(* C05 — FRI soundness: what the verifier enforces (deterministic part).
   Only statements, `exact` of lemmas proved in Proofs/FriAccept.v, Proofs/FriBinding.v, Print Assumptions.

   NOT PROVED (and not provable here): the probabilistic statement "a function that is delta-far from every
   polynomial of degree <= bound is rejected except with probability eps" — it needs proximity-gap results
   (BCIKS20) far outside this development.  What is proved is that the model verifier (Model/Fri.v, tied to
   fri/src/verifier/mod.rs by the correspondence run on honest, adversarial and malformed transcripts) accepts
   IF AND ONLY IF the conditions (a)-(f) of [fri_accepts] hold, for every field with the field laws, every
   digest type / hash function / Merkle authentication function / folding factor / transcript:
     (a) every layer opening authenticates against the layer commitment          [layer_accepts: mt_verify_batch = AuthOk]
     (b) the values carried into a layer are the opened ones and the value carried to the next layer is the
         interpolant of the opened row at that layer's alpha                      [get_query_values = vs_evals; interp_eval]
     (c) no degree truncation at any layer                                        [vs_mdp1 mod N = 0]
     (d) |remainder| <= allowed, (e) the remainder agrees with the last folded values at every folded position
     (f) the remainder hashes to the commitment sent after the layer commitments  [the REPAIRED check]
   and that the code before the repair enforced (a)-(e) only, which makes the remainder-after-queries attack a
   theorem about it (C05_adaptive_remainder_accepted_unrepaired). *)
From Coq Require Import List Arith Bool ZArith.
From VBase Require Import FieldOps MachInt.
From VGen Require Import FriInt.
From VModel Require Import Merkle Fri FriMerkle.
From VProofs Require Import MerkleSingle MerkleBind FriAccept FriBinding FriIdx FriCount FriQuery FriQueryLoop FriMerkleInst FriGen FriExamples.
Import ListNotations.
Local Open Scope nat_scope.

Section C05.
Context {F : Type} (O : FOps F) (L : FLaws O).
Variable gen_offset : F.
Variable dbg : bool.
Variable D : Type.
Variable D_eqb : D -> D -> bool.
Hypothesis D_eqb_spec : forall a b, D_eqb a b = true <-> a = b.
Variable hash_elements : list F -> D.
Variable MN : Type.
Variable mt_verify_batch : D -> list nat -> list D -> MN -> nat -> auth_res.

Theorem C05_fri_accept_iff : forall N v ch evaluations positions,
  verify_generic O gen_offset dbg D D_eqb hash_elements MN mt_verify_batch N v ch evaluations positions = Ok tt <->
  fri_accepts O gen_offset dbg D hash_elements MN mt_verify_batch true N v ch evaluations positions.
Proof. exact (fri_accept_iff O L gen_offset dbg D D_eqb D_eqb_spec hash_elements MN mt_verify_batch). Qed.

(* one iteration of the layer loop, both directions: the per-layer conditions (a), (b), (c) *)
Theorem C05_layer_step_accepts : forall N v roots depth s s',
  layer_step O gen_offset dbg D MN mt_verify_batch N v roots depth s = Ok s' <->
  layer_accepts O gen_offset dbg D MN mt_verify_batch N v roots depth s s'.
Proof. exact (layer_step_accepts O L gen_offset dbg D MN mt_verify_batch). Qed.

(* the remainder part, both directions: (d), (e), (f) *)
Theorem C05_verify_remainder_accepts : forall check v num_layers s,
  verify_remainder O gen_offset D D_eqb hash_elements MN check v num_layers s = Ok tt <->
  remainder_accepts O gen_offset D hash_elements MN check v num_layers s.
Proof. exact (verify_remainder_accepts O L gen_offset D D_eqb D_eqb_spec hash_elements MN). Qed.

(* the code before the repair: the same characterisation WITHOUT (f) *)
Theorem C05_fri_accept_iff_unrepaired : forall N v ch evaluations positions,
  verify_generic_unrepaired O gen_offset dbg D D_eqb hash_elements MN mt_verify_batch N v ch evaluations positions = Ok tt <->
  fri_accepts O gen_offset dbg D hash_elements MN mt_verify_batch false N v ch evaluations positions.
Proof. exact (fri_accept_iff_unrepaired O L gen_offset dbg D D_eqb D_eqb_spec hash_elements MN mt_verify_batch). Qed.

(* fri_remainder_unbound (about the UNREPAIRED code): an accepted transcript stays accepted when the remainder is
   replaced, after the positions are known, by any short enough polynomial with the same values at the folded
   last-layer positions; the commitments play no role *)
Theorem C05_adaptive_remainder_accepted_unrepaired : forall N v ch evaluations positions r',
  fri_accepts O gen_offset dbg D hash_elements MN mt_verify_batch false N v ch evaluations positions ->
  (forall num_layers s,
     num_fri_layers (v_options D v) (v_domain_size D v) = Some num_layers ->
     layers_accept O gen_offset dbg D MN mt_verify_batch num_layers N v (folding_roots_of O D N v) 0
       (initial_state D MN v ch evaluations positions) s ->
     length r' <= vs_mdp1 D MN s /\
     remainder_agrees O gen_offset r' (vs_gen D MN s) (vs_positions D MN s) (vs_evals D MN s)) ->
  fri_accepts O gen_offset dbg D hash_elements MN mt_verify_batch false N v (with_remainder D MN ch r') evaluations positions.
Proof. exact (adaptive_remainder_accepted_unrepaired O gen_offset dbg D hash_elements MN mt_verify_batch). Qed.

(* ... and the repaired verifier rejects every replaced remainder that does not hash to the committed value *)
Theorem C05_adaptive_remainder_rejected : forall N v ch evaluations positions r' num_layers,
  num_fri_layers (v_options D v) (v_domain_size D v) = Some num_layers ->
  nth_error (v_commitments D v) num_layers <> Some (hash_elements r') ->
  ~ fri_accepts O gen_offset dbg D hash_elements MN mt_verify_batch true N v (with_remainder D MN ch r') evaluations positions.
Proof. exact (adaptive_remainder_rejected O gen_offset dbg D hash_elements MN mt_verify_batch). Qed.

(* fri_binding: two decoded proof layers parsed by the channel, both authenticating against the same layer commitment at
   the same indexes with the same number of rows: the opened rows are identical, or [find_row_collision] returns two
   different rows with the same hash_elements digest, or a collision of the Merkle authentication function is exhibited.
   Abstract version: Merkle binding (two openings of the SAME depth d >= 1 — the depth is fixed by the verifier: both
   openings are checked at depth log2 of the layer's domain size, FriBinding.parse_layer_leaves) is a Section
   hypothesis; it is discharged for the Merkle model of C10 in C05_fri_binding_merkle below. *)
Section Binding.
Variable coll : Type.
Variable find_merkle_collision : D -> list nat -> list D * MN * nat -> list D * MN * nat -> option coll.
Variable is_merkle_collision : coll -> Prop.
Hypothesis merkle_binding : forall root indexes l1 n1 l2 n2 d,
  1 <= d ->
  mt_verify_batch root indexes l1 n1 d = AuthOk -> mt_verify_batch root indexes l2 n2 d = AuthOk ->
  length l1 = length l2 ->
  l1 = l2 \/ exists c, find_merkle_collision root indexes (l1, n1, d) (l2, n2, d) = Some c /\ is_merkle_collision c.

Theorem C05_fri_binding : forall N ds pl1 pl2 q1 q2 l1 l2 n1 n2 d1 d2 commitment indexes,
  parse_layer D hash_elements MN N ds pl1 = Some (Some (q1, (l1, n1, d1))) ->
  parse_layer D hash_elements MN N ds pl2 = Some (Some (q2, (l2, n2, d2))) ->
  mt_verify_batch commitment indexes l1 n1 d1 = AuthOk ->
  mt_verify_batch commitment indexes l2 n2 d2 = AuthOk ->
  length l1 = length l2 ->
  exists rows1 rows2, group_slice N q1 = Ok rows1 /\ group_slice N q2 = Ok rows2 /\
    (rows1 = rows2 \/
     (exists r1 r2, find_row_collision O rows1 rows2 = Some (r1, r2) /\ r1 <> r2 /\ hash_elements r1 = hash_elements r2) \/
     (exists c, find_merkle_collision commitment indexes (l1, n1, d1) (l2, n2, d2) = Some c /\ is_merkle_collision c)).
Proof. exact (fri_binding O L D hash_elements MN mt_verify_batch coll find_merkle_collision is_merkle_collision merkle_binding). Qed.
End Binding.

End C05.

Print Assumptions C05_fri_accept_iff.
Print Assumptions C05_layer_step_accepts.
Print Assumptions C05_verify_remainder_accepts.
Print Assumptions C05_fri_accept_iff_unrepaired.
Print Assumptions C05_adaptive_remainder_accepted_unrepaired.
Print Assumptions C05_adaptive_remainder_rejected.
Print Assumptions C05_fri_binding.

(* fri_binding, UNCONDITIONAL w.r.t. Merkle: the authentication function is MerkleTree::verify_batch of the Merkle model
   of C10 (Model/Merkle.v through Model/FriMerkle.v), for every digest type with a decidable equality, every default
   digest and every merge function; the Merkle part is discharged by C10_batch_binding_two (Proofs/MerkleBind.v
   batch_binding_two: two batch openings of the SAME depth d >= 1 on the same usize index list with the same root
   have equal leaves or find_batch_collision2 returns a collision of merge).  That both openings are checked at the
   same depth >= 1 is a fact about the verifier model: parse_layer fixes it to log2 of the layer's domain size
   (FriBinding.parse_layer_leaves); positions are nat, hence usize values.
   FINAL PREMISE LIST: the field laws (for the decidable equality of rows) and D_eqb decides equality. *)
Theorem C05_fri_binding_merkle : forall (F : Type) (O : FOps F), FLaws O ->
  forall (D : Type) (D_eqb : D -> D -> bool), (forall a b, D_eqb a b = true <-> a = b) ->
  forall (d0 : D) (merge : D -> D -> D) (hash_elements : list F -> D),
  forall N ds pl1 pl2 q1 q2 l1 l2 n1 n2 d1 d2 commitment indexes,
  parse_layer D hash_elements (list (list D)) N ds pl1 = Some (Some (q1, (l1, n1, d1))) ->
  parse_layer D hash_elements (list (list D)) N ds pl2 = Some (Some (q2, (l2, n2, d2))) ->
  cm_verify_batch D D_eqb merge commitment indexes l1 n1 d1 = AuthOk ->
  cm_verify_batch D D_eqb merge commitment indexes l2 n2 d2 = AuthOk ->
  length l1 = length l2 ->
  exists rows1 rows2, group_slice N q1 = Ok rows1 /\ group_slice N q2 = Ok rows2 /\
    (rows1 = rows2 \/
     (exists r1 r2, find_row_collision O rows1 rows2 = Some (r1, r2) /\ r1 <> r2 /\ hash_elements r1 = hash_elements r2) \/
     (exists c, cm_find_collision D D_eqb d0 merge commitment indexes (l1, n1, d1) (l2, n2, d2) = Some c /\
                is_collision D merge c)).
Proof.
  intros F O L D D_eqb Hspec d0 merge hash_elements.
  exact (fri_binding_merkle D D_eqb Hspec d0 merge O L hash_elements).
Qed.
Print Assumptions C05_fri_binding_merkle.

(* fri_query_counting_partial — the counting step of the soundness argument (pure counting, no probability theory):
   for a last-layer function E fixed before the queries and a remainder R, check (e) passes on a vector ps of q
   last-layer positions iff R agrees with E at every entry, and exactly (n - bad)^q of the n^q vectors pass, where
   bad = number of positions in [0,n) where R and E disagree (so at most ((1-delta) n)^q when bad >= delta n).
   PARTIAL: vectors of last-layer positions only; the passage from first-layer query positions through fold_positions
   and the relation between distance from the code and `bad` (proximity gaps) are NOT treated. *)
Theorem C05_fri_query_counting_partial : forall (F : Type) (O : FOps F) (gen_offset : F) R g E n q,
  let bad := length (filter (fun p => negb (good_position O gen_offset R g E p)) (seq 0 n)) in
  length (filter (fun ps => remainder_check O gen_offset R g ps (map (fun p => nth p E (fzero O)) ps)) (vectors n q))
  = (n - bad) ^ q /\ length (vectors n q) = n ^ q.
Proof. exact (@fri_query_counting_partial). Qed.
Print Assumptions C05_fri_query_counting_partial.

(* fri_query_counting_lde_partial — the counting step from the FIRST-layer (LDE) query positions: domain D = n * N^k,
   k foldings by N (fold_positions = mod + dedup, [fold_chain]), last layer of n points of which `bad` are bad.  Every
   last-layer position has exactly N^k preimages; check (e) on the folded positions passes iff every query position
   reduces mod n to a good position; exactly (D - bad * N^k)^q of the D^q position vectors pass, i.e. a fraction
   ((D - bad * N^k) / D)^q = (1 - bad/n)^q.  Still pure counting (partial): missing towards the epsilon of the
   property are (1) that the q positions are uniform and independent (they come from the coin: C19 / random-oracle
   assumption), (2) the same argument for the folding checks (b) at the intermediate layers, and (3) the
   proximity-gap theorem relating the distance of the committed function from the code to `bad` and to the
   probability over the challenges alpha. *)
Theorem C05_fri_query_counting_lde_partial : forall (F : Type) (O : FOps F) (gen_offset : F) R g E n N k q,
  N <> 0 -> n <> 0 ->
  let D := n * N ^ k in
  let bad := length (filter (fun p => negb (good_position O gen_offset R g E p)) (seq 0 n)) in
  length (filter (fun ps => let last := fold_chain k ps D N in
                            remainder_check O gen_offset R g last (map (fun p => nth p E (fzero O)) last))
                 (vectors D q))
  = (D - bad * N ^ k) ^ q /\ length (vectors D q) = D ^ q.
Proof. exact (@fri_query_counting_lde_partial). Qed.
Print Assumptions C05_fri_query_counting_lde_partial.

(* fri_query_counting_all_checks_partial — EVERY comparison of the query phase, for layer functions E_0..E_(k-1), challenges and a
   remainder R fixed before the positions are drawn.  cs is the list of checks (level i, predicate on the positions reached
   after i foldings): the layer comparisons `evaluations != query_values` (InvalidLayerFolding) are [good_fold], the remainder
   comparison is [good_rem]; C05_query_comparisons says that the model's comparison functions are exactly the conjunction of
   these predicates over the current positions, and C05_layer_step_opened_iff that the model's layer step succeeds iff its
   comparison does (positions de-duplicated by fold_positions as in the code).  Then: a position vector passes all checks iff
   every LDE position reduces (mod the layer's domain size) into the good set of every check; exactly (D - U)^q of the D^q
   vectors pass, U = size of the union of the preimages of the bad sets; and (D - U)^q <= (D - bad_c N^level)^q for every
   single check c, i.e. the passing fraction is at most (1 - max_c bad_c/|domain_c|)^q.  Pure counting (partial): not claimed
   are the uniformity/independence of the drawn positions, the composition of the per-layer iff over the whole loop as one
   theorem, and the proximity-gap theorem relating the distance of E_0 from the code to the bad sets. *)
Theorem C05_fri_query_counting_all_checks_partial : forall (N : nat) (cs : list (nat * (nat -> bool))) n k q, N <> 0 -> n <> 0 ->
  (forall c, In c cs -> fst c <= k) ->
  let D := n * N ^ k in
  let U := length (filter (fun p => negb (pos_ok_checks cs n N k p)) (seq 0 D)) in
  (forall ps, (forall p, In p ps -> p < D) -> pass_checks cs n N k ps = forallb (pos_ok_checks cs n N k) ps) /\
  length (filter (pass_checks cs n N k) (vectors D q)) = (D - U) ^ q /\ length (vectors D q) = D ^ q /\
  (forall i g, In (i, g) cs ->
     (D - U) ^ q <= (D - length (filter (fun x => negb (g x)) (seq 0 (level_size n N k i))) * N ^ i) ^ q).
Proof. intros N. exact (fri_query_counting_all_checks_partial N). Qed.
Print Assumptions C05_fri_query_counting_all_checks_partial.

Theorem C05_query_comparisons : forall (F : Type) (O : FOps F) (gen_offset : F) (roots : list F) (N : nat),
  (forall g Eprev Enext rl alpha P,
     list_feqb O (map (foldval O gen_offset roots N g Eprev rl alpha) P) (map (fun p => nth p Enext (fzero O)) P)
     = forallb (good_fold O gen_offset roots N g Eprev Enext rl alpha) P) /\
  (forall R gk gprev Eprev rl alpha P,
     remainder_check O gen_offset R gk P (map (foldval O gen_offset roots N gprev Eprev rl alpha) P)
     = forallb (good_rem O gen_offset roots N R gk gprev Eprev rl alpha) P).
Proof. intros. split; intros; [apply layer_compare_forallb | apply remainder_compare_forallb]. Qed.
Print Assumptions C05_query_comparisons.

Theorem C05_layer_step_opened_iff : forall (F : Type) (O : FOps F), FLaws O ->
  forall (gen_offset : F) (dbg : bool) (D : Type) (hash_elements : list F -> D) (MN : Type)
         (mt_verify_batch : D -> list nat -> list D -> MN -> nat -> auth_res)
         N v roots depth s s' E rl alpha commitment nodes d proofs' queries',
  N <> 0 -> rl <> 0 -> vs_size D MN s = rl * N -> (forall p, In p (vs_positions D MN s) -> p < rl * N) ->
  fo_folding (v_options D v) = N -> v_partitions D v = 1 ->
  nth_error (v_commitments D v) depth = Some commitment -> nth_error (v_alphas D v) depth = Some alpha ->
  let folded := fold_positions_core (vs_positions D MN s) rl in
  let rows := map (row_of (fzero O) N rl E) folded in
  vc_proofs D MN (vs_chan D MN s) = (map hash_elements rows, nodes, d) :: proofs' ->
  vc_queries D MN (vs_chan D MN s) = concat rows :: queries' ->
  mt_verify_batch commitment folded (map hash_elements rows) nodes d = AuthOk ->
  vs_mdp1 D MN s mod N = 0 ->
  (layer_step O gen_offset dbg D MN mt_verify_batch N v roots depth s = Ok s' <->
   vs_evals D MN s = map (fun p => nth p E (fzero O)) (vs_positions D MN s) /\
   s' = mkVS D MN (fexp O (vs_gen D MN s) N) rl (vs_mdp1 D MN s / N) folded
             (map (foldval O gen_offset roots N (vs_gen D MN s) E rl alpha) folded) (chan_tail D MN (vs_chan D MN s))).
Proof. intros F O L gen_offset dbg D hash_elements MN mt_verify_batch. exact (layer_step_opened_iff O L gen_offset dbg D hash_elements MN mt_verify_batch). Qed.
Print Assumptions C05_layer_step_opened_iff.

(* query_phase_iff_pass_checks — the single iff: k >= 1 committed layer functions l0 :: rest ([clayer]: evaluation vector,
   challenge, commitment, Merkle nodes, depth) on the LDE domain D = n * N^k; the evaluations handed to the verifier are those of
   the first committed function at the query positions ps; the channel opens the committed functions at the folded positions
   ([opened]) and every opening authenticates ([auth_all]); no degree truncation (running bound e * N^k).  Then the model's
   query phase — layers_loop over all layers followed by the remainder comparison — succeeds IFF pass_checks cs ps, with cs =
   [checks_from]: the comparison of layer j against the fold of layer j-1 at level j (good_fold), the remainder comparison at
   level k (good_rem).  Together with C05_fri_query_counting_all_checks_partial: exactly (D - U)^q of the D^q position vectors
   make the model's query phase succeed.  Duplicates in ps are handled as in the code (fold_positions de-duplicates). *)
Theorem C05_query_phase_iff_pass_checks : forall (F : Type) (O : FOps F), FLaws O ->
  forall (gen_offset : F) (dbg : bool) (D : Type) (hash_elements : list F -> D) (MN : Type)
         (mt_verify_batch : D -> list nat -> list D -> MN -> nat -> auth_res) (roots : list F) (N : nat), N <> 0 ->
  forall (R : list F) (l0 : clayer D MN) rest v pre_c tail_c pre_a tail_a g n e ps cm ptail qtail rem,
  let Ls := l0 :: rest in
  let k := length Ls in
  let Dm := n * N ^ k in
  let cs := checks_from O gen_offset D MN roots N R rest 1 g (cl_E D MN l0) (Dm / N) (cl_alpha D MN l0) (fexp O g N) (Dm / N) in
  n <> 0 -> (forall p, In p ps -> p < Dm) ->
  v_commitments D v = pre_c ++ map (cl_commitment D MN) Ls ++ tail_c ->
  v_alphas D v = pre_a ++ map (cl_alpha D MN) Ls ++ tail_a ->
  length pre_a = length pre_c -> fo_folding (v_options D v) = N -> v_partitions D v = 1 ->
  auth_all O D hash_elements MN mt_verify_batch N Ls ps Dm ->
  ((exists s', layers_loop O gen_offset dbg D MN mt_verify_batch k N v roots (length pre_c)
                 (mkVS D MN g Dm (e * N ^ k) ps (FriQueryLoop.evals_at O (cl_E D MN l0) ps)
                       (mkVCh D MN cm (fst (opened O D hash_elements MN N Ls ps Dm) ++ ptail)
                                      (snd (opened O D hash_elements MN N Ls ps Dm) ++ qtail) rem 1)) = Ok s' /\
               remainder_check O gen_offset R (vs_gen D MN s') (vs_positions D MN s') (vs_evals D MN s') = true)
   <-> pass_checks cs n N k ps = true).
Proof.
  intros F O L gen_offset dbg D hash_elements MN mt_verify_batch roots N HN R.
  exact (query_phase_iff_pass_checks O L gen_offset dbg D hash_elements MN mt_verify_batch roots N HN R).
Qed.
Print Assumptions C05_query_phase_iff_pass_checks.

(* ---------------------------------------------------------------- round 4: the model computes the GENERATED integer terms
   (coq/Gen/FriInt.v, regenerated from fri/src by rs2v on every run) *)
(* FriProof::parse_layers: the guard `domain_size < folding_factor` and the division, as the model's parse_layers does *)
Theorem C05_gen_parse_layers : forall F D (h : list F -> D) MN N d pl rest, N <> 0 ->
  parse_layers D h MN N d (pl :: rest) =
  match fri_parse_layers_step (Z.of_nat d) (Z.of_nat N) 0 with
  | None => Some None
  | Some ds =>
    match parse_layer D h MN N (Z.to_nat ds) pl with
    | None => None
    | Some None => Some None
    | Some (Some (q, mp)) =>
      match parse_layers D h MN N (Z.to_nat ds) rest with
      | None => None
      | Some None => Some None
      | Some (Some (qs, mps)) => Some (Some (q :: qs, mp :: mps))
      end
    end
  end.
Proof. exact parse_layers_unfold_gen. Qed.
Print Assumptions C05_gen_parse_layers.

(* FriVerifier::new: the domain size, when the checked arithmetic does not overflow *)
Theorem C05_gen_verifier_domain : forall m o,
  fri_verifier_new_domain_ok (Z.of_nat m) (gopts o) = true ->
  fri_verifier_new_domain (Z.of_nat m) (gopts o) = Z.of_nat (Fri.next_pow2 (m + 1) * fo_blowup o).
Proof. exact verifier_new_domain_gen. Qed.
Print Assumptions C05_gen_verifier_domain.

(* FriVerifier::new: one iteration of the commitment loop of the model (draw_alphas) performs the generated degree-truncation
   test and division of the running bound *)
Theorem C05_gen_draw_alphas_head : forall F D CS (reseed : CS -> D -> CS) (draw : CS -> CS * draw_res F)
  coin c rest depth o mdp1 coin2 alpha, fo_folding o <> 0 -> u64 (S (length rest)) ->
  draw (reseed coin c) = (coin2, DrawOk alpha) ->
  draw_alphas D CS reseed draw coin (c :: rest) depth (length (c :: rest) - 1) mdp1 (fo_folding o)
  = match fri_verifier_new_step (Z.of_nat depth) (Z.of_nat (length (c :: rest))) (gopts o) (Z.of_nat mdp1) with
    | None => Err (DegreeTruncation (mdp1 - 1) (fo_folding o) depth)
    | Some m =>
      bind (draw_alphas D CS reseed draw coin2 rest (S depth) (length (c :: rest) - 1) (Z.to_nat m) (fo_folding o))
           (fun r => let (cF, al) := r in Ok (cF, alpha :: al))
    end.
Proof. exact draw_alphas_head_gen. Qed.
Print Assumptions C05_gen_draw_alphas_head.

(* verify_generic: the per-layer divisibility test (c) and the remainder length test (d) of the model are the generated ones *)
Theorem C05_gen_degree_checks : forall mdp1 N depth len, N <> 0 ->
  fri_verify_layer_bound (Z.of_nat mdp1) (Z.of_nat N) depth = (if negb (mdp1 mod N =? 0) then None else Some true) /\
  fri_verify_remainder_bound (Z.of_nat len) (Z.of_nat mdp1) = (if mdp1 <? len then None else Some true).
Proof. intros. split; [now apply verify_layer_bound_gen | apply verify_remainder_bound_gen]. Qed.
Print Assumptions C05_gen_degree_checks.

(* non-vacuity of the characterisation: the executable instantiation (f64, ToyHasher, one FRI layer, queries 1, 5, 6 with a
   collision after folding) accepts the model prover's proof, and answers RemainderCommitmentMismatch when the remainder is
   changed after the commitment (the unrepaired verifier reaches the evaluation check instead) *)
Example C05_accepting_transcript_exists : ex_run 0%Z = Some (1, RunVerdict (Ok tt), RunVerdict (Ok tt)).
Proof. exact ex_honest_accepted. Qed.
Example C05_changed_remainder_rejected :
  ex_run 1%Z = Some (1, RunVerdict (Err RemainderCommitmentMismatch), RunVerdict (Err InvalidRemainderFolding)).
Proof. exact ex_changed_remainder_rejected. Qed.
