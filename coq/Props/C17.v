(* C17 — the committed composition polynomial equals its definition.
   Only statements, `exact` of lemmas proved in Proofs/Composition*.v, and Print Assumptions.
   Model: coq/Model/Composition.v (tied to /repo by the correspondence of checks/c17.py on every run).
   Everything is stated for an arbitrary field (`FOps F` with `FLaws`) and arbitrary sizes. *)
From Coq Require Import List Arith ZArith.
From VBase Require Import FieldOps.
From VBase Require Import MachInt.
From VModel Require Import Composition CompositionLagrange CompositionMixed CompositionMixedWhole CompositionMixedFull ExtField.
From VModel Require Enforce EnforceLagrange.
From VModel Require FFT Stark.
From VProofs Require FFTSpec FFTEval FFTOffset FFTSegments StarkPoly StarkLagrangeRows.
From VProofs Require Import ZpLaws CompositionBase CompositionIndex CompositionVerifier CompositionTable CompositionFFT CompositionValid CompositionLagrange CompositionLagrangeTable CompositionLagrangePoly CompositionMixed CompositionMixedWhole CompositionMixedFull CompositionMixedFinal CompositionMixedInst CompositionLagrangeHonest CompositionLagrangeFinal ExtModel ExtConcrete CompositionExamples.
Import ListNotations.
Local Open Scope nat_scope.

(* ---- column split + recombination (composition_poly.rs `segment`, verifier/src/lib.rs fold): pure list lemma,
        every polynomial h, every number of columns k, every column length n *)
Theorem C17_column_split_recombine :
  forall {F} (O : FOps F) (L : FLaws O) (n : nat), n <> 0 ->
  forall k h z cols, length h <= k * n -> segment h n k = Some cols ->
  recombine O n (cp_evaluate_at O cols z) z = peval O h z.
Proof. intros F O L n Hn. exact (column_split_recombine O L n Hn). Qed.
Print Assumptions C17_column_split_recombine.

(* what `segment` does to a polynomial with MORE than k*n coefficients: it silently keeps the first k*n *)
Theorem C17_column_split_truncates :
  forall {F} (O : FOps F) (L : FLaws O) (n : nat), n <> 0 ->
  forall k h z cols, segment h n k = Some cols ->
  recombine O n (cp_evaluate_at O cols z) z = peval O (firstn (k * n) h) z.
Proof. intros F O L n Hn. exact (column_split_recombine_gen O L n Hn). Qed.
Print Assumptions C17_column_split_truncates.

(* ---- PeriodicValueTable::{new,get_row}: under what Air::get_periodic_column_polys asserts (non-empty columns whose
        length divides the trace length and the longest column; here powers of two) and the root-of-unity relations of
        get_root_of_unity, the table is built without panic and get_row(step) is, for EVERY step, the periodic values
        p_k(x_step^(n/len p_k)) at x_step = w_ce^step * offset *)
Theorem C17_periodic_row_spec :
  forall {F} (O : FOps F) (L : FLaws O) (n ceb : nat) (offset : F) (rou : nat -> F),
  n <> 0 -> ceb <> 0 ->
  cpow O (rou (n * ceb)) (n * ceb) = fone O ->
  forall ppolys : list (list F),
  ppolys <> [] ->
  (forall p, In p ppolys -> length p <> 0) ->
  (forall p, In p ppolys -> length p * (n / length p) = n) ->
  (forall p, In p ppolys -> exists q, fold_left Nat.max (map (@length F) ppolys) 0 = length p * q) ->
  (forall p, In p ppolys -> rou (length p * ceb) = cpow O (rou (n * ceb)) (n / length p)) ->
  exists t, ptable_new O n ceb offset rou ppolys = Some t /\
    forall step, pt_get_row t step
      = Some (map (fun p => peval O p (cpow O (fmul O (cpow O (rou (n * ceb)) step) offset) (n / length p))) ppolys).
Proof. intros F O L. exact (periodic_row_spec O L). Qed.
Print Assumptions C17_periodic_row_spec.

(* ---- the three prover-side representations of a boundary constraint: for ANY value polynomial (1 value, 2..62
        coefficients, 63 and more: both sides of the SMALL_POLY_DEGREE switch), ANY first step < n and EVERY step of the
        ce domain, SmallPolyConstraint::evaluate, LargePolyConstraint::evaluate (with its step_offset wrap-around) and,
        for one value, SingleValueConstraint::evaluate equal cc * BoundaryConstraint::evaluate_at(x_step, state[col]) *)
Theorem C17_boundary_repr_equiv :
  forall {F} (O : FOps F) (L : FLaws O) (n ceb : nat) (offset : F) (rou : nat -> F),
  n <> 0 -> ceb <> 0 ->
  cpow O (rou (n * ceb)) (n * ceb) = fone O ->
  cpow O (rou (n * ceb)) ceb = rou n ->
  forall ginv : F, fmul O ginv (rou n) = fone O ->
  forall (c : BC) (state : list F) (s : F),
  nth_error state (bc_col c) = Some s ->
  length (bc_poly c) <> 0 ->
  bc_xoff c = cpow O ginv (bc_first c) ->
  bc_first c < n ->
  length (bc_poly c) * (n * ceb / length (bc_poly c)) = n * ceb ->
  forall step, step < n * ceb ->
  let x := fmul O (cpow O (rou (n * ceb)) step) offset in
  let spec := Some (fmul O (bc_cc c) (bc_evaluate_at O c x s)) in
  small_eval O (small_new c) state x = spec
  /\ large_eval O (large_new O n ceb offset rou c) state step = spec
  /\ (length (bc_poly c) = 1 -> single_eval O (single_new O c) state = spec).
Proof. intros F O L. exact (boundary_repr_equiv O L). Qed.
Print Assumptions C17_boundary_repr_equiv.

(* ---- the verifier's evaluate_constraints (code structure: merged linear combinations, one division per divisor,
        `+=` loops, periodic values by Horner at z^(n/len)) equals the DEFINITION comp_def (one quotient per constraint,
        alpha_i on main constraint i, alpha_(num_main + j) on auxiliary constraint j, beta on each assertion, transition
        divisor (z^n - 1) / prod (z - g^k), k = n-exemptions..n-1) when it is given the frame T(z), T(g z) of the trace
        polynomials.  No non-vanishing assumption is needed (x / 0 = 0 on both sides). *)
Theorem C17_verifier_eval_agrees :
  forall {F} (O : FOps F) (L : FLaws O)
    (n : nat) (rou : nat -> F) (num_main num_aux : nat) (tmain : list F -> list F -> list F -> list F)
    (taux : list F -> list F -> list F -> list F -> list F -> list F -> list F) (ppolys : list (list F)) (exemptions : nat)
    (tcoef : list F) (main_groups aux_groups : list BGroup) (rands : list F) (tpolys apolys : list (list F)),
  (forall g, In g (main_groups ++ aux_groups) -> dv_ex (bg_div g) = []) ->
  (forall g c, In g main_groups -> In c (bg_cs g) -> bc_col c < length tpolys) ->
  (forall g c, In g aux_groups -> In c (bg_cs g) -> bc_col c < length apolys) ->
  (forall cur nxt pv, length (tmain cur nxt pv) = num_main) ->
  forall z : F,
  evaluate_constraints O n rou num_main tmain taux num_aux ppolys exemptions tcoef main_groups aux_groups rands
    (fun _ => None) (def_cur O tpolys z) (def_nxt O n rou tpolys z) (Some (def_acur O apolys z, def_anxt O n rou apolys z)) z
  = Some (comp_def O n rou tmain taux ppolys exemptions tcoef main_groups aux_groups rands true tpolys apolys z).
Proof. intros F O L. exact (verifier_eval_agrees_aux O L). Qed.
Print Assumptions C17_verifier_eval_agrees.

Theorem C17_verifier_eval_agrees_main_only :
  forall {F} (O : FOps F) (L : FLaws O)
    (n : nat) (rou : nat -> F) (num_main num_aux : nat) (tmain : list F -> list F -> list F -> list F)
    (taux : list F -> list F -> list F -> list F -> list F -> list F -> list F) (ppolys : list (list F)) (exemptions : nat)
    (tcoef : list F) (main_groups aux_groups : list BGroup) (rands : list F) (tpolys apolys : list (list F)),
  (forall g, In g (main_groups ++ aux_groups) -> dv_ex (bg_div g) = []) ->
  (forall g c, In g main_groups -> In c (bg_cs g) -> bc_col c < length tpolys) ->
  (forall cur nxt pv, length (tmain cur nxt pv) = num_main) ->
  forall z : F,
  evaluate_constraints O n rou num_main tmain taux num_aux ppolys exemptions tcoef main_groups aux_groups rands
    (fun _ => None) (def_cur O tpolys z) (def_nxt O n rou tpolys z) None z
  = Some (comp_def O n rou tmain taux ppolys exemptions tcoef main_groups aux_groups rands false tpolys apolys z).
Proof. intros F O L. exact (verifier_eval_agrees_main O L). Qed.
Print Assumptions C17_verifier_eval_agrees_main_only.

(* ---- table_row_spec (+ combine): DefaultConstraintEvaluator::evaluate (multi-segment path evaluate_fragment_full:
        frames read from the trace LDE at step * (lde blowup / ce blowup), periodic table row, main coefficients on main
        constraints and the FOLLOWING coefficients on auxiliary constraints, the three boundary representations, merging
        of auxiliary groups into main groups with an equal divisor, division by the divisors over the ce domain) returns,
        at EVERY index i of the ce domain, comp_def at x_i = w_ce^i * offset.
        Hypotheses: root-of-unity relations of get_root_of_unity; what get_periodic_column_polys / BoundaryConstraint::new
        / ConstraintDivisor::from_assertion guarantee (bc_ok, div_ok); the trace LDE rows are the trace polynomials on the
        LDE coset (C09). *)
Theorem C17_table_row_spec :
  forall {F} (O : FOps F) (L : FLaws O)
    (n ceb ldeb r : nat) (offset : F) (rou : nat -> F) (wlde ginv : F),
  n <> 0 -> ceb <> 0 -> r <> 0 -> ldeb = ceb * r ->
  cpow O wlde (n * ldeb) = fone O ->
  cpow O wlde r = rou (n * ceb) ->
  cpow O wlde ldeb = rou n ->
  fmul O ginv (rou n) = fone O ->
  forall (num_main : nat) (tmain : list F -> list F -> list F -> list F)
    (taux : list F -> list F -> list F -> list F -> list F -> list F -> list F) (ppolys : list (list F)) (exemptions : nat)
    (tcoef : list F) (main_groups aux_groups : list BGroup) (rands : list F) (tpolys apolys lde_main lde_aux : list (list F)),
  (forall cur nxt pv, length (tmain cur nxt pv) = num_main) ->
  exemptions <= n ->
  (forall p, In p ppolys -> length p <> 0) ->
  (forall p, In p ppolys -> length p * (n / length p) = n) ->
  (forall p, In p ppolys -> exists q, fold_left Nat.max (map (@length F) ppolys) 0 = length p * q) ->
  (forall p, In p ppolys -> rou (length p * ceb) = cpow O (rou (n * ceb)) (n / length p)) ->
  (forall g, In g main_groups -> div_ok n ceb (bg_div g) /\ (forall c, In c (bg_cs g) -> bc_ok O n ceb ginv tpolys c)) ->
  (forall g, In g aux_groups -> div_ok n ceb (bg_div g) /\ (forall c, In c (bg_cs g) -> bc_ok O n ceb ginv apolys c)) ->
  lde_rows_of O n ldeb offset wlde lde_main tpolys ->
  lde_rows_of O n ldeb offset wlde lde_aux apolys ->
  evaluate O n ceb ldeb offset rou num_main tmain taux ppolys exemptions tcoef main_groups aux_groups rands true lde_main lde_aux
    (fun _ v => v)
  = Some (map (fun i => comp_def O n rou tmain taux ppolys exemptions tcoef main_groups aux_groups rands true tpolys apolys
                          (fmul O (cpow O (rou (n * ceb)) i) offset)) (seq 0 (n * ceb))).
Proof. intros F O L. exact (evaluate_spec_aux O L). Qed.
Print Assumptions C17_table_row_spec.

(* ---- capstone.  FULL statement (not proved): for every valid trace of every AIR, the polynomial whose column
        commitments the prover sends equals comp_def at every field point.
        PROVED (partial): assuming, as explicit hypotheses, that (i) the interpolation used by CompositionPoly::new returns
        |ce| coefficients with the given evaluations on the ce coset and (ii) such coefficient lists are unique (both are
        C09/C20 statements), and that (iii) comp_def agrees, wherever no divisor vanishes (`good`, which must contain the
        ce coset), with a coefficient list q of at most min(|ce|, num_cols * n) coefficients (this is "deg comp_def <
        |ce domain|" and is where validity of the trace enters, C16): evaluate and CompositionPoly::new succeed and the
        recombination sum_i z^(i n) H_i(z) of the committed columns equals q(z) at EVERY z and comp_def(z) at every good z.
        Missing for the full statement: (i)-(iii) as theorems, the single-segment path evaluate_fragment_main (the
        verifier-side theorem covers it; the prover-side table theorem is proved for the multi-segment path, of which a
        zero-width auxiliary segment is an instance of the model but not of the Rust code), Lagrange-kernel constraints
        (model hook + no theorem), extension fields (E = B in the model). *)
Theorem C17_composition_is_definition_partial :
  forall {F} (O : FOps F) (L : FLaws O)
    (n ceb ldeb r : nat) (offset : F) (rou : nat -> F) (wlde ginv : F),
  n <> 0 -> ceb <> 0 -> r <> 0 -> ldeb = ceb * r ->
  cpow O wlde (n * ldeb) = fone O ->
  cpow O wlde r = rou (n * ceb) ->
  cpow O wlde ldeb = rou n ->
  fmul O ginv (rou n) = fone O ->
  forall (num_main : nat) (tmain : list F -> list F -> list F -> list F)
    (taux : list F -> list F -> list F -> list F -> list F -> list F -> list F) (ppolys : list (list F)) (exemptions : nat)
    (tcoef : list F) (main_groups aux_groups : list BGroup) (rands : list F) (tpolys apolys lde_main lde_aux : list (list F)),
  (forall cur nxt pv, length (tmain cur nxt pv) = num_main) ->
  exemptions <= n ->
  (forall p, In p ppolys -> length p <> 0) ->
  (forall p, In p ppolys -> length p * (n / length p) = n) ->
  (forall p, In p ppolys -> exists q, fold_left Nat.max (map (@length F) ppolys) 0 = length p * q) ->
  (forall p, In p ppolys -> rou (length p * ceb) = cpow O (rou (n * ceb)) (n / length p)) ->
  (forall g, In g main_groups -> div_ok n ceb (bg_div g) /\ (forall c, In c (bg_cs g) -> bc_ok O n ceb ginv tpolys c)) ->
  (forall g, In g aux_groups -> div_ok n ceb (bg_div g) /\ (forall c, In c (bg_cs g) -> bc_ok O n ceb ginv apolys c)) ->
  lde_rows_of O n ldeb offset wlde lde_main tpolys ->
  lde_rows_of O n ldeb offset wlde lde_aux apolys ->
  forall interp : list F -> list F,
  (forall evals, length evals = n * ceb ->
     length (interp evals) = n * ceb /\
     (forall i, i < n * ceb -> peval O (interp evals) (fmul O (cpow O (rou (n * ceb)) i) offset) = nth i evals (fzero O))) ->
  (forall p1 p2, length p1 = n * ceb -> length p2 = n * ceb ->
     (forall i, i < n * ceb -> peval O p1 (fmul O (cpow O (rou (n * ceb)) i) offset)
                               = peval O p2 (fmul O (cpow O (rou (n * ceb)) i) offset)) -> p1 = p2) ->
  forall (good : F -> Prop) (q : list F) (num_cols : nat),
  (forall z, good z ->
     peval O q z = comp_def O n rou tmain taux ppolys exemptions tcoef main_groups aux_groups rands true tpolys apolys z) ->
  (forall i, i < n * ceb -> good (fmul O (cpow O (rou (n * ceb)) i) offset)) ->
  length q <= n * ceb ->
  length q <= num_cols * n ->
  n < n * ceb ->
  exists evals cols,
    evaluate O n ceb ldeb offset rou num_main tmain taux ppolys exemptions tcoef main_groups aux_groups rands true lde_main lde_aux
      (fun _ v => v) = Some evals
    /\ composition_poly_new n interp evals num_cols = Some cols
    /\ (forall z, recombine O n (cp_evaluate_at O cols z) z = peval O q z)
    /\ (forall z, good z -> recombine O n (cp_evaluate_at O cols z) z
          = comp_def O n rou tmain taux ppolys exemptions tcoef main_groups aux_groups rands true tpolys apolys z).
Proof. intros F O L. exact (composition_is_definition_partial O L). Qed.
Print Assumptions C17_composition_is_definition_partial.

(* ---- table_row_spec for the SINGLE-segment prover path (evaluate_fragment_main: main frame only, the first num_main
        coefficients, BoundaryConstraints::evaluate_main; no auxiliary groups): every value returned by evaluate is
        comp_def (without auxiliary terms) at x_i = w_ce^i * offset *)
Theorem C17_table_row_spec_single_segment :
  forall (F : Type) (O0 : FOps F),
         FLaws O0 ->
         forall (n ceb ldeb r : nat) (offset : F) (rou : nat -> F) (wlde ginv : F),
         n <> 0 ->
         ceb <> 0 ->
         r <> 0 ->
         ldeb = ceb * r ->
         cpow O0 wlde (lde_size n ldeb) = fone O0 ->
         cpow O0 wlde r = wce n ceb rou ->
         cpow O0 wlde ldeb = gtrace n rou ->
         fmul O0 ginv (gtrace n rou) = fone O0 ->
         forall (num_main : nat) (tmain : list F -> list F -> list F -> list F)
           (taux : list F -> list F -> list F -> list F -> list F -> list F -> list F) (ppolys : list (list F))
           (exemptions : nat) (tcoef : list F) (main_groups aux_groups : list BGroup) (rands : list F)
           (tpolys apolys lde_main lde_aux : list (list F)),
         (forall cur nxt pv : list F, length (tmain cur nxt pv) = num_main) ->
         exemptions <= n ->
         (forall p : list F, In p ppolys -> length p <> 0) ->
         (forall p : list F, In p ppolys -> length p * (n / length p) = n) ->
         (forall p : list F,
          In p ppolys -> exists q : nat, fold_left Nat.max (map (length (A:=F)) ppolys) 0 = length p * q) ->
         (forall p : list F, In p ppolys -> rou (length p * ceb) = cpow O0 (wce n ceb rou) (n / length p)) ->
         (forall g : BGroup,
          In g main_groups ->
          div_ok n ceb (bg_div g) /\ (forall c : BC, In c (bg_cs g) -> bc_ok O0 n ceb ginv tpolys c)) ->
         (forall g : BGroup,
          In g aux_groups -> div_ok n ceb (bg_div g) /\ (forall c : BC, In c (bg_cs g) -> bc_ok O0 n ceb ginv apolys c)) ->
         lde_rows_of O0 n ldeb offset wlde lde_main tpolys ->
         aux_groups = [] ->
         evaluate O0 n ceb ldeb offset rou num_main tmain taux ppolys exemptions tcoef main_groups aux_groups rands
           false lde_main lde_aux (fun (_ : nat) (v : F) => v) =
         Some
           (map
              (fun i : nat =>
               comp_def O0 n rou tmain taux ppolys exemptions tcoef main_groups aux_groups rands false tpolys apolys
                 (ce_x O0 n ceb offset rou i)) (seq 0 (ce_size n ceb))).
Proof. exact @evaluate_spec_main. Qed.
Print Assumptions C17_table_row_spec_single_segment.

(* ---- capstone with the interpolation hypotheses DISCHARGED from C09 and the polynomial form of comp_def DISCHARGED from
        validity through C01's air_quotient_exists.  `interp_fft` is C09's faithful model of
        fft::interpolate_poly_with_offset applied with the inverse twiddles fft::get_inv_twiddles returns.
        Conclusion: evaluate and CompositionPoly::new succeed; there is ONE coefficient list Q (<= m coefficients) such
        that the recombination sum_i z^(i n) H_i(z) of the committed columns is Q(z) at EVERY z and is comp_def(z) at every
        z outside the trace domain (where the divisors are defined).
        REMAINING hypotheses (all explicit below), besides well-formedness of sizes and of what the air constructors produce:
        (1) root-of-unity relations of get_root_of_unity (w_lde of order |lde|, w_lde^r = w_ce primitive 2^(K+1)-th root,
            w_lde^ldeb = g primitive n-th root, periodic-cycle roots) and odd characteristic (2^(K+1) invertible);
        (2) the trace LDE rows are the trace polynomials on the LDE coset (C09_segments_spec describes the matrix the prover
            builds; the tie between that RowMatrix and the rows read by read_main_trace_frame_into is not modelled);
        (3) the transition numerator sum_i alpha_i C_i(T(x),T(gx),P(x)) and each group's numerator are given as coefficient
            lists N, Bm/Ba (i.e. the constraint evaluators are polynomial maps), each group's divisor x^a - b has the zero
            set Rm/Ra inside the trace domain, the numerators vanish where the constraints are enforced (VALIDITY of the
            trace) and their quotient lengths are bounded by m <= min(|ce|, num_cols * n) (C01_comp_cols_fit gives this
            bound for num_constraint_composition_columns);
        (4) the ce coset is disjoint from the trace domain.
        Not covered: Lagrange-kernel constraints (model hook, correspondence only), extension fields (E = B in the model). *)
Theorem C17_composition_is_definition :
  forall (F : Type) (O0 : FOps F),
         FLaws O0 ->
         forall (n ceb ldeb r : nat) (offset : F) (rou : nat -> F) (wlde ginv : F),
         n <> 0 ->
         ceb <> 0 ->
         r <> 0 ->
         ldeb = ceb * r ->
         cpow O0 wlde (lde_size n ldeb) = fone O0 ->
         cpow O0 wlde r = wce n ceb rou ->
         cpow O0 wlde ldeb = gtrace n rou ->
         fmul O0 ginv (gtrace n rou) = fone O0 ->
         StarkPoly.primitive_root O0 (gtrace n rou) n ->
         forall (num_main : nat) (tmain : list F -> list F -> list F -> list F)
           (taux : list F -> list F -> list F -> list F -> list F -> list F -> list F) (ppolys : list (list F))
           (exemptions : nat) (tcoef : list F) (main_groups aux_groups : list BGroup) (rands : list F)
           (tpolys apolys lde_main lde_aux : list (list F)),
         (forall cur nxt pv : list F, length (tmain cur nxt pv) = num_main) ->
         exemptions <= n ->
         (forall p : list F, In p ppolys -> length p <> 0) ->
         (forall p : list F, In p ppolys -> length p * (n / length p) = n) ->
         (forall p : list F,
          In p ppolys -> exists q : nat, fold_left Nat.max (map (length (A:=F)) ppolys) 0 = length p * q) ->
         (forall p : list F, In p ppolys -> rou (length p * ceb) = cpow O0 (wce n ceb rou) (n / length p)) ->
         (forall gr : BGroup,
          In gr main_groups ->
          div_ok n ceb (bg_div gr) /\ (forall c : BC, In c (bg_cs gr) -> bc_ok O0 n ceb ginv tpolys c)) ->
         lde_rows_of O0 n ldeb offset wlde lde_main tpolys ->
         forall (two_adicity K : nat) (rouk : nat -> F) (itw : list F),
         ce_size n ceb = 2 ^ S K ->
         S K <= two_adicity ->
         rouk (S K) = wce n ceb rou ->
         FFTSpec.root_cond O0 (S K) (wce n ceb rou) ->
         FFT.get_inv_twiddles O0 two_adicity rouk (2 ^ S K) = Some itw ->
         offset <> fzero O0 ->
         fmul O0 (FFTSpec.two_pow_f O0 (S K)) (FFTOffset.n_inv O0 (S K)) = fone O0 ->
         (forall i : nat, i < ce_size n ceb -> ~ In (ce_x O0 n ceb offset rou i) (Stark.domain O0 (gtrace n rou) n)) ->
         forall num_cols m : nat,
         m <= ce_size n ceb ->
         m <= num_cols * n ->
         n < ce_size n ceb ->
         forall (N : list F) (Bm Rm Ba Ra : BGroup -> list F),
         (forall gr : BGroup, In gr main_groups -> forall z : F, peval O0 (Bm gr) z = group_numer O0 tpolys gr z) ->
         (forall gr : BGroup,
          In gr main_groups ->
          forall z : F, Stark.pprod O0 (Rm gr) z = fsub O0 (cpow O0 z (dv_a (bg_div gr))) (dv_b (bg_div gr))) ->
         (forall i : nat, i < n - exemptions -> peval O0 N (cpow O0 (gtrace n rou) i) = fzero O0) ->
         length N - (n - exemptions) <= m ->
         aux_groups = [] ->
         (forall z : F,
          peval O0 N z =
          rsum O0
            (map (fun ca : F * F => fmul O0 (snd ca) (fst ca))
               (combine (def_constraints O0 n rou tmain taux ppolys rands false tpolys apolys z) tcoef))) ->
         Forall
           (fun br : list F * list F =>
            NoDup (snd br) /\
            incl (snd br) (Stark.domain O0 (gtrace n rou) n) /\
            (forall r0 : F, In r0 (snd br) -> peval O0 (fst br) r0 = fzero O0) /\
            length (fst br) - length (snd br) <= m) (bs_of main_groups aux_groups false Bm Rm Ba Ra) ->
         exists (Q evals : list F) (cols : list (list F)),
           length Q <= m /\
           evaluate O0 n ceb ldeb offset rou num_main tmain taux ppolys exemptions tcoef main_groups aux_groups rands
             false lde_main lde_aux (fun (_ : nat) (v : F) => v) = Some evals /\
           composition_poly_new n (interp_fft O0 two_adicity itw offset) evals num_cols = Some cols /\
           (forall z : F, recombine O0 n (cp_evaluate_at O0 cols z) z = peval O0 Q z) /\
           (forall z : F,
            ~ In z (Stark.domain O0 (gtrace n rou) n) ->
            recombine O0 n (cp_evaluate_at O0 cols z) z =
            comp_def O0 n rou tmain taux ppolys exemptions tcoef main_groups aux_groups rands false tpolys apolys z).
Proof. exact @composition_is_definition_valid_main. Qed.
Print Assumptions C17_composition_is_definition.

Theorem C17_composition_is_definition_aux :
  forall (F : Type) (O0 : FOps F),
         FLaws O0 ->
         forall (n ceb ldeb r : nat) (offset : F) (rou : nat -> F) (wlde ginv : F),
         n <> 0 ->
         ceb <> 0 ->
         r <> 0 ->
         ldeb = ceb * r ->
         cpow O0 wlde (lde_size n ldeb) = fone O0 ->
         cpow O0 wlde r = wce n ceb rou ->
         cpow O0 wlde ldeb = gtrace n rou ->
         fmul O0 ginv (gtrace n rou) = fone O0 ->
         StarkPoly.primitive_root O0 (gtrace n rou) n ->
         forall (num_main : nat) (tmain : list F -> list F -> list F -> list F)
           (taux : list F -> list F -> list F -> list F -> list F -> list F -> list F) (ppolys : list (list F))
           (exemptions : nat) (tcoef : list F) (main_groups aux_groups : list BGroup) (rands : list F)
           (tpolys apolys lde_main lde_aux : list (list F)),
         (forall cur nxt pv : list F, length (tmain cur nxt pv) = num_main) ->
         exemptions <= n ->
         (forall p : list F, In p ppolys -> length p <> 0) ->
         (forall p : list F, In p ppolys -> length p * (n / length p) = n) ->
         (forall p : list F,
          In p ppolys -> exists q : nat, fold_left Nat.max (map (length (A:=F)) ppolys) 0 = length p * q) ->
         (forall p : list F, In p ppolys -> rou (length p * ceb) = cpow O0 (wce n ceb rou) (n / length p)) ->
         (forall gr : BGroup,
          In gr main_groups ->
          div_ok n ceb (bg_div gr) /\ (forall c : BC, In c (bg_cs gr) -> bc_ok O0 n ceb ginv tpolys c)) ->
         lde_rows_of O0 n ldeb offset wlde lde_main tpolys ->
         forall (two_adicity K : nat) (rouk : nat -> F) (itw : list F),
         ce_size n ceb = 2 ^ S K ->
         S K <= two_adicity ->
         rouk (S K) = wce n ceb rou ->
         FFTSpec.root_cond O0 (S K) (wce n ceb rou) ->
         FFT.get_inv_twiddles O0 two_adicity rouk (2 ^ S K) = Some itw ->
         offset <> fzero O0 ->
         fmul O0 (FFTSpec.two_pow_f O0 (S K)) (FFTOffset.n_inv O0 (S K)) = fone O0 ->
         (forall i : nat, i < ce_size n ceb -> ~ In (ce_x O0 n ceb offset rou i) (Stark.domain O0 (gtrace n rou) n)) ->
         forall num_cols m : nat,
         m <= ce_size n ceb ->
         m <= num_cols * n ->
         n < ce_size n ceb ->
         forall (N : list F) (Bm Rm Ba Ra : BGroup -> list F),
         (forall gr : BGroup, In gr main_groups -> forall z : F, peval O0 (Bm gr) z = group_numer O0 tpolys gr z) ->
         (forall gr : BGroup,
          In gr main_groups ->
          forall z : F, Stark.pprod O0 (Rm gr) z = fsub O0 (cpow O0 z (dv_a (bg_div gr))) (dv_b (bg_div gr))) ->
         (forall i : nat, i < n - exemptions -> peval O0 N (cpow O0 (gtrace n rou) i) = fzero O0) ->
         length N - (n - exemptions) <= m ->
         (forall gr : BGroup,
          In gr aux_groups ->
          div_ok n ceb (bg_div gr) /\ (forall c : BC, In c (bg_cs gr) -> bc_ok O0 n ceb ginv apolys c)) ->
         lde_rows_of O0 n ldeb offset wlde lde_aux apolys ->
         (forall gr : BGroup, In gr aux_groups -> forall z : F, peval O0 (Ba gr) z = group_numer O0 apolys gr z) ->
         (forall gr : BGroup,
          In gr aux_groups ->
          forall z : F, Stark.pprod O0 (Ra gr) z = fsub O0 (cpow O0 z (dv_a (bg_div gr))) (dv_b (bg_div gr))) ->
         (forall z : F,
          peval O0 N z =
          rsum O0
            (map (fun ca : F * F => fmul O0 (snd ca) (fst ca))
               (combine (def_constraints O0 n rou tmain taux ppolys rands true tpolys apolys z) tcoef))) ->
         Forall
           (fun br : list F * list F =>
            NoDup (snd br) /\
            incl (snd br) (Stark.domain O0 (gtrace n rou) n) /\
            (forall r0 : F, In r0 (snd br) -> peval O0 (fst br) r0 = fzero O0) /\
            length (fst br) - length (snd br) <= m) (bs_of main_groups aux_groups true Bm Rm Ba Ra) ->
         exists (Q evals : list F) (cols : list (list F)),
           length Q <= m /\
           evaluate O0 n ceb ldeb offset rou num_main tmain taux ppolys exemptions tcoef main_groups aux_groups rands
             true lde_main lde_aux (fun (_ : nat) (v : F) => v) = Some evals /\
           composition_poly_new n (interp_fft O0 two_adicity itw offset) evals num_cols = Some cols /\
           (forall z : F, recombine O0 n (cp_evaluate_at O0 cols z) z = peval O0 Q z) /\
           (forall z : F,
            ~ In z (Stark.domain O0 (gtrace n rou) n) ->
            recombine O0 n (cp_evaluate_at O0 cols z) z =
            comp_def O0 n rou tmain taux ppolys exemptions tcoef main_groups aux_groups rands true tpolys apolys z).
Proof. exact @composition_is_definition_valid_aux. Qed.
Print Assumptions C17_composition_is_definition_aux.

(* ---- hypothesis (2) of the capstone from C09: the matrix RowMatrix::evaluate_polys_over builds (C09_segments_spec), read
        row by row (`rows_of_matrix` = RowMatrix::row(r)), satisfies lde_rows_of.  (Stated separately; the capstone keeps
        lde_rows_of as a hypothesis on the rows given to the evaluator.) *)
Theorem C17_lde_rows_from_segments :
  forall {F} (O : FOps F) (L : FLaws O)
    (root_of_unity : nat -> F) (Nseg : nat) (polys : list (list F)) (tw : list F) (K b : nat) (wlde offset : F) (n ldeb : nat),
  n = 2 ^ S K -> ldeb = 2 ^ b ->
  0 < Nseg -> polys <> [] -> (forall p, In p polys -> length p = 2 ^ S K) -> length tw = 2 ^ K -> 0 < b ->
  root_of_unity (S K + b) = wlde -> FFTSpec.root_cond O (S K + b) wlde ->
  FFTEval.tw_ok O tw (S K) (FFT.fpow O wlde (2 ^ b)) ->
  exists M, FFT.evaluate_polys_over O root_of_unity Nseg polys tw offset (2 ^ b) = Some M /\
            lde_rows_of O n ldeb offset wlde (rows_of_matrix O M) polys.
Proof. intros F O L. exact (lde_rows_from_segments O L). Qed.
Print Assumptions C17_lde_rows_from_segments.

(* ---- the merge of auxiliary boundary groups into main groups with an equal divisor (prover BoundaryConstraints::new) is
        value-preserving: the prover's groups are the realisation (single / small / large lists of BOTH segments) of the
        abstract merged groups `ags`, and for every x the sum over the merged groups of (all main terms + all aux terms) times
        1/(x^a - b) equals the sum over ALL assertions of the main groups plus the sum over ALL assertions of the auxiliary
        groups — no matter which groups were merged.  (C17_table_row_spec uses exactly this; comp_def is per assertion.) *)
Theorem C17_group_merge_value_preserving :
  forall {F} (O : FOps F) (L : FLaws O) (n ceb : nat) (offset : F) (rou : nat -> F)
    (main_groups aux_groups : list BGroup) (tpolys apolys : list (list F)),
  prover_groups O n ceb offset rou main_groups aux_groups = map (realize O n ceb offset rou) (ags O main_groups aux_groups)
  /\ forall x : F,
     rsum O (map (fun ag => fmul O (ag_num O tpolys apolys x ag) (dfac O x (ag_div ag))) (ags O main_groups aux_groups))
     = fadd O (rsum O (map (fun g => fmul O (rsum O (map (bterm O tpolys x) (bg_cs g))) (dfac O x (bg_div g))) main_groups))
              (rsum O (map (fun g => fmul O (rsum O (map (bterm O apolys x) (bg_cs g))) (dfac O x (bg_div g))) aux_groups)).
Proof.
  intros F O L n ceb offset rou mg ag tp ap. split.
  - exact (prover_groups_realize O n ceb offset rou mg ag).
  - exact (ags_sum_spec O L mg ag tp ap).
Qed.
Print Assumptions C17_group_merge_value_preserving.

(* ---- Lagrange-kernel constraints (round 6).  Model: coq/Model/CompositionLagrange.v (prover/src/constraints/evaluator/
        lagrange.rs: s_precomputes, the flattened batch-inverted divisor vector with its slice index table,
        get_inverse_divisor_eval's `row % slice.len()`, the Lagrange frame read from the trace LDE, the boundary divisor
        inverses, the accumulation) on top of C16's air-level functions (coq/Model/EnforceLagrange.v).
        lag_def(x) = sum_{idx < v} coef_idx * (r[v-1-idx] * L(x) - (1 - r[v-1-idx]) * L(g^(2^(v-1-idx)) x)) / (x^(2^idx) - 1)
                     + (L(x) - prod_i (1 - r_i)) * cc_b / (x - 1)      (idx = k - 1; divisions by finv: x / 0 = 0, as in the code)
        THEOREM: the vector evaluate_constraints adds to the combined column is lag_def at EVERY point x_i = w_ce^i * offset of
        the ce domain; hypotheses: root-of-unity relations, the Lagrange column of the trace LDE holds the column polynomial on
        the LDE coset (C09), v coefficients / random elements, 2^idx divides |ce| for idx < v (n = 2^v). *)
Theorem C17_lagrange_row_spec :
  forall (F : Type) (O0 : FOps F),
         FLaws O0 ->
         forall (n ceb ldeb r' : nat) (offset : F) (rou : nat -> F) (wlde : F),
         n <> 0 ->
         ceb <> 0 ->
         r' <> 0 ->
         ldeb = ceb * r' ->
         cpow O0 wlde (lde_size n ldeb) = fone O0 ->
         cpow O0 wlde r' = wce n ceb rou ->
         cpow O0 wlde ldeb = gtrace n rou ->
         forall (v : nat) (Lp lde_lag : list F),
         length lde_lag = lde_size n ldeb ->
         (forall j : nat,
          j < lde_size n ldeb -> nth_error lde_lag j = Some (peval O0 Lp (fmul O0 (cpow O0 wlde j) offset))) ->
         forall (t : EnforceLagrange.LagTC) (rr : list F) (lb : F),
         length (EnforceLagrange.l_coef t) = v ->
         length rr = v ->
         length (EnforceLagrange.l_div t) = v ->
         v < 64 ->
         (forall idx : nat, idx < v -> 2 ^ idx * (ce_size n ceb / 2 ^ idx) = ce_size n ceb) ->
         lagrange_evaluate O0 n ceb ldeb offset rou v lde_lag t rr lb =
         Some (map (fun i : nat => lag_def O0 n rou v Lp t rr lb (ce_x O0 n ceb offset rou i)) (seq 0 (ce_size n ceb))).
Proof. exact @lagrange_evaluate_spec. Qed.
Print Assumptions C17_lagrange_row_spec.

(* the verifier's Lagrange section (evaluate_and_combine + boundary.evaluate_at on ANY frame c of v + 1 values, any x) is the
   same expression: with c = the OOD Lagrange frame L(z), L(gz), L(g^2 z), .. it is lag_def(z) *)
Theorem C17_verifier_lagrange_agrees :
  forall (F : Type) (O0 : FOps F),
         FLaws O0 ->
         forall n ceb ldeb r' : nat,
         n <> 0 ->
         ceb <> 0 ->
         r' <> 0 ->
         ldeb = ceb * r' ->
         forall (v : nat) (lde_lag : list F),
         length lde_lag = lde_size n ldeb ->
         forall (t : EnforceLagrange.LagTC) (rr : list F) (lb : F),
         length (EnforceLagrange.l_coef t) = v ->
         length rr = v ->
         length (EnforceLagrange.l_div t) = v ->
         (forall idx : nat,
          idx < v ->
          nth idx (EnforceLagrange.l_div t) {| Enforce.d_num := []; Enforce.d_ex := [] |} =
          {| Enforce.d_num := [((2 ^ Z.of_nat idx)%Z, fone O0)]; Enforce.d_ex := [] |}) ->
         v < 64 ->
         forall (c : list F) (x : F),
         length c = S v ->
         EnforceLagrange.lag_evaluate_and_combine O0 t c rr x =
         Some
           (rsum O0
              (map
                 (fun idx : nat =>
                  fmul O0 (lag_num O0 v t rr c idx) (finv O0 (fsub O0 (cpow O0 x (2 ^ idx)) (fone O0)))) 
                 (seq 0 v))) /\
         EnforceLagrange.lag_boundary_evaluate_at O0 rr c lb x =
         Some
           (fmul O0 (fmul O0 (fsub O0 (nth 0 c (fzero O0)) (EnforceLagrange.lag_assertion_value O0 rr)) lb)
              (finv O0 (fsub O0 x (fone O0)))).
Proof. exact @verifier_lagrange_agrees. Qed.
Print Assumptions C17_verifier_lagrange_agrees.

(* the table with the Lagrange terms: if evaluate (hook = identity) returns gf over the ce domain (C17_table_row_spec /
   C17_table_row_spec_single_segment: gf i = comp_def x_i), then evaluate with the hook of
   evaluate_lagrange_kernel_constraints (`acc[step] += lag[step]`, lag = map hf by C17_lagrange_row_spec: hf i = lag_def x_i)
   returns gf i + hf i at every index *)
Theorem C17_table_with_lagrange :
  forall (F : Type) (O0 : FOps F) (n ceb ldeb : nat) (offset : F) (rou : nat -> F) (num_main : nat)
           (tmain : list F -> list F -> list F -> list F)
           (taux : list F -> list F -> list F -> list F -> list F -> list F -> list F) (ppolys : list (list F))
           (exemptions : nat) (tcoef : list F) (main_groups aux_groups : list BGroup) (rands : list F) 
           (has_aux : bool) (lde_main lde_aux : list (list F)) (gf hf : nat -> F),
         evaluate O0 n ceb ldeb offset rou num_main tmain taux ppolys exemptions tcoef main_groups aux_groups rands
           has_aux lde_main lde_aux (fun (_ : nat) (v : F) => v) = Some (map gf (seq 0 (ce_size n ceb))) ->
         evaluate O0 n ceb ldeb offset rou num_main tmain taux ppolys exemptions tcoef main_groups aux_groups rands
           has_aux lde_main lde_aux (lagrange_acc_of O0 (map hf (seq 0 (ce_size n ceb)))) =
         Some (map (fun i : nat => fadd O0 (gf i) (hf i)) (seq 0 (ce_size n ceb))).
Proof. exact @evaluate_with_lagrange. Qed.
Print Assumptions C17_table_with_lagrange.

(* ---- round 7 (B): the Lagrange-kernel terms are POLYNOMIALS.  For the kernel column polynomial Lp whose numerators vanish on
        their enforcement subgroups (hypothesis `numer_vanishes`: what C16_lagrange_honest_numerators_vanish proves, row by row,
        for the honest column; the translation of that Z-indexed row statement to this point statement is NOT done here) and whose
        first cell is the asserted value: numerator_idx = (x^(2^idx) - 1) * q_idx as polynomials (via C01's vanish_divisible) *)
Theorem C17_lagrange_term_is_poly :
  forall (F : Type) (O0 : FOps F),
         FLaws O0 ->
         forall (n v : nat) (g : F),
         n = 2 ^ v ->
         StarkPoly.primitive_root O0 g n ->
         forall Lp rr : list F,
         length rr = v ->
         (forall idx j : nat,
          idx < v -> j < 2 ^ idx -> peval O0 (lag_numer_poly O0 v g Lp rr idx) (cpow O0 (hsub O0 v g idx) j) = fzero O0) ->
         forall idx : nat,
         idx < v ->
         exists q : list F,
           length q = length Lp - 2 ^ idx /\
           (forall x : F,
            peval O0 (lag_numer_poly O0 v g Lp rr idx) x =
            fmul O0 (fsub O0 (cpow O0 x (2 ^ idx)) (fone O0)) (peval O0 q x)).
Proof. exact @lagrange_term_is_poly. Qed.
Print Assumptions C17_lagrange_term_is_poly.

Theorem C17_lagrange_boundary_is_poly :
  forall (F : Type) (O0 : FOps F),
         FLaws O0 ->
         forall Lp rr : list F,
         peval O0 Lp (fone O0) = EnforceLagrange.lag_assertion_value O0 rr ->
         exists q : list F,
           length q = length Lp - 1 /\
           (forall x : F,
            fsub O0 (peval O0 Lp x) (EnforceLagrange.lag_assertion_value O0 rr) =
            fmul O0 (fsub O0 x (fone O0)) (peval O0 q x)).
Proof. exact @lagrange_boundary_is_poly. Qed.
Print Assumptions C17_lagrange_boundary_is_poly.

(* ... hence lag_def agrees with ONE coefficient list (at most |Lp| coefficients) wherever no Lagrange divisor vanishes *)
Theorem C17_lag_def_is_poly :
  forall (F : Type) (O0 : FOps F),
         FLaws O0 ->
         forall (n v : nat) (g : F),
         n = 2 ^ v ->
         StarkPoly.primitive_root O0 g n ->
         forall Lp rr : list F,
         length rr = v ->
         (forall idx j : nat,
          idx < v -> j < 2 ^ idx -> peval O0 (lag_numer_poly O0 v g Lp rr idx) (cpow O0 (hsub O0 v g idx) j) = fzero O0) ->
         peval O0 Lp (fone O0) = EnforceLagrange.lag_assertion_value O0 rr ->
         forall rou : nat -> F,
         g = gtrace n rou ->
         forall (t : EnforceLagrange.LagTC) (lb : F),
         exists Q : list F,
           length Q <= length Lp /\ (forall x : F, lag_good O0 v x -> lag_def O0 n rou v Lp t rr lb x = peval O0 Q x).
Proof. exact @lag_def_is_poly. Qed.
Print Assumptions C17_lag_def_is_poly.

(* capstone with the Lagrange terms, PARTIAL (compositional): given
     ev  = what evaluate returns with the Lagrange hook = cdef + ldef over the ce coset          (C17_table_with_lagrange),
     Qc  = a coefficient list for cdef = comp_def off the trace domain                          (comp_def_is_poly, C01; as in
                                                                                                  C17_composition_is_definition),
     Ql  = a coefficient list for ldef = lag_def off the Lagrange divisor zeros                 (C17_lag_def_is_poly),
     the interpolation round trip on the ce coset                                               (C09: interp_fft_roundtrip),
   CompositionPoly::new succeeds and the committed columns recombine to Qc + Ql at EVERY z and to comp_def(z) + lag_def(z)
   wherever both are defined.  REMAINING to make it unconditional in the style of C17_composition_is_definition: instantiate
   the four premises from their theorems in one statement (each is proved separately above), and derive `numer_vanishes` from
   C16_lagrange_honest_numerators_vanish. *)
Theorem C17_composition_is_definition_lagrange_partial :
  forall (F : Type) (O0 : FOps F),
         FLaws O0 ->
         forall (n ceb : nat) (offset : F) (rou : nat -> F),
         n <> 0 ->
         forall interp : list F -> list F,
         (forall p : list F,
          length p = ce_size n ceb ->
          interp (map (fun i : nat => peval O0 p (ce_x O0 n ceb offset rou i)) (seq 0 (ce_size n ceb))) = p) ->
         forall num_cols : nat,
         n < ce_size n ceb ->
         forall (cdef ldef : F -> F) (goodc goodl : F -> Prop) (Qc Ql : list F) (ev : option (list F)),
         ev =
         Some
           (map (fun i : nat => fadd O0 (cdef (ce_x O0 n ceb offset rou i)) (ldef (ce_x O0 n ceb offset rou i)))
              (seq 0 (ce_size n ceb))) ->
         (forall z : F, goodc z -> peval O0 Qc z = cdef z) ->
         (forall z : F, goodl z -> peval O0 Ql z = ldef z) ->
         (forall i : nat, i < ce_size n ceb -> goodc (ce_x O0 n ceb offset rou i) /\ goodl (ce_x O0 n ceb offset rou i)) ->
         Nat.max (length Qc) (length Ql) <= ce_size n ceb ->
         Nat.max (length Qc) (length Ql) <= num_cols * n ->
         exists (evals : list F) (cols : list (list F)),
           ev = Some evals /\
           composition_poly_new n interp evals num_cols = Some cols /\
           (forall z : F, recombine O0 n (cp_evaluate_at O0 cols z) z = peval O0 (Stark.padd O0 Qc Ql) z) /\
           (forall z : F, goodc z -> goodl z -> recombine O0 n (cp_evaluate_at O0 cols z) z = fadd O0 (cdef z) (ldef z)).
Proof. exact @composition_is_definition_lagrange_partial. Qed.
Print Assumptions C17_composition_is_definition_lagrange_partial.

(* ---- round 7 (A): extension fields.  `Emb OB OE emb mul_base`: emb is an injective ring homomorphism B -> E with
        mul_base x b = x * emb b.  Every MIXED operation of the pipeline (coq/Model/CompositionMixed.v: the places where the Rust
        code uses mul_base / E::from / polynom::eval::<B, E>) is the single-field operation over OE on the embedded base-field
        inputs, and what the prover computes in B before embedding (inverses, domain points, FFT-style evaluations, Horner
        values) commutes with emb.  So a C17 theorem instantiated at F := E (FLaws for the concrete extensions: C08) describes
        the mixed computation; C17_boundary_repr_equiv_ext is such a corollary, obtained from C17_boundary_repr_equiv.
        REMAINING: a mixed model of the WHOLE evaluate()/evaluate_constraints (rows, groups, merge) and its equality with the
        single-field model on embedded inputs — only the mixed primitive operations are modelled and transported; the
        composition of these equalities along the pipeline is not assembled. *)
Theorem C17_mixed_ops_are_embedded :
  forall (B E : Type) (OB : FOps B) (OE : FOps E),
         FLaws OB ->
         FLaws OE ->
         forall (emb : B -> E) (mul_base : E -> B -> E),
         Emb OB OE emb mul_base ->
         (forall b : B, emb (finv OB b) = finv OE (emb b)) /\
         (forall (p : list B) (x : B), emb (peval OB p x) = peval OE (map emb p) (emb x)) /\
         (forall (p : list B) (x : E), horner_mixed OE emb p x = horner OE (map emb p) x) /\
         (forall (rouB : nat -> B) (p : list B) (off : B) (blowup : nat),
          map emb (eval_poly_with_offset OB rouB p off blowup) =
          eval_poly_with_offset OE (fun m : nat => emb (rouB m)) (map emb p) (emb off) blowup) /\
         (forall (n ceb : nat) (offset : B) (rouB : nat -> B) (step : nat),
          emb (ce_x OB n ceb offset rouB step) = ce_x OE n ceb (emb offset) (fun m : nat => emb (rouB m)) step) /\
         (forall (evals : list B) (coefs : list E),
          lincomb_mixed OE mul_base evals coefs = lincomb OE (map emb evals) coefs) /\
         (forall (col : nat) (value : B) (cc : E) (state : list B),
          single_eval_mixed OB mul_base col value cc state =
          single_eval OE {| sc_col := col; sc_value := emb value; sc_cc := cc |} (map emb state)) /\
         (forall (col : nat) (poly : list B) (xoff : B) (cc : E) (state : list B) (x : B),
          small_eval_mixed OB mul_base col poly xoff cc state x =
          small_eval OE {| pc_col := col; pc_poly := map emb poly; pc_xoff := emb xoff; pc_cc := cc |} 
            (map emb state) (emb x)) /\
         (forall (col : nat) (values : list B) (so : nat) (cc : E) (state : list B) (step : nat),
          large_eval_mixed OB mul_base col values so cc state step =
          large_eval OE {| lc_col := col; lc_values := map emb values; lc_step_offset := so; lc_cc := cc |}
            (map emb state) step) /\
         (forall (acc value : E) (z e : B),
          acc_boundary_mixed OE mul_base acc value z = fadd OE acc (fmul OE value (emb z)) /\
          acc_transition_mixed OB OE mul_base acc value z e = fadd OE acc (fmul OE value (fmul OE (emb z) (emb e)))) /\
         (forall (col first : nat) (poly : list B) (xoff : B) (cc x tv : E),
          bc_evaluate_at_mixed OB OE emb poly xoff x tv =
          bc_evaluate_at OE
            {| bc_col := col; bc_poly := map emb poly; bc_first := first; bc_xoff := emb xoff; bc_cc := cc |} x tv) /\
         (forall (n : nat) (ppolys : list (list B)) (x : E),
          periodic_at_mixed OE emb n ppolys x = periodic_at OE n (map (map emb) ppolys) x).
Proof. exact @mixed_ops_are_embedded. Qed.
Print Assumptions C17_mixed_ops_are_embedded.

Theorem C17_boundary_repr_equiv_ext :
  forall (B E : Type) (OB : FOps B) (OE : FOps E),
         FLaws OB ->
         FLaws OE ->
         forall (emb : B -> E) (mul_base : E -> B -> E),
         Emb OB OE emb mul_base ->
         forall (n ceb : nat) (offset : B) (rouB : nat -> B),
         n <> 0 ->
         ceb <> 0 ->
         cpow OB (rouB (n * ceb)) (n * ceb) = fone OB ->
         cpow OB (rouB (n * ceb)) ceb = rouB n ->
         forall ginv : B,
         fmul OB ginv (rouB n) = fone OB ->
         forall (col first : nat) (poly : list B) (cc : E) (state : list B) (s : B),
         nth_error state col = Some s ->
         length poly <> 0 ->
         first < n ->
         length poly * (n * ceb / length poly) = n * ceb ->
         forall step : nat,
         step < n * ceb ->
         let xB := ce_x OB n ceb offset rouB step in
         let spec := Some (fmul OE cc (bc_evaluate_at_mixed OB OE emb poly (cpow OB ginv first) (emb xB) (emb s))) in
         small_eval_mixed OB mul_base col poly (cpow OB ginv first) cc state xB = spec /\
         large_eval_mixed OB mul_base col (eval_poly_with_offset OB rouB poly offset (n * ceb / length poly))
           (first * ceb) cc state step = spec /\
         (length poly = 1 -> single_eval_mixed OB mul_base col (nth 0 poly (fzero OB)) cc state = spec).
Proof. exact @boundary_repr_equiv_ext. Qed.
Print Assumptions C17_boundary_repr_equiv_ext.

(* the hypotheses hold for the quadratic and the cubic extension of f64 (C08), which are fields *)
Theorem C17_ext_f64_embeddings :
  Emb F64_ops (q_ops F64_ops (f64_x2 F64_ops)) (q_from_base F64_ops) (q_mul_base (f64_x2 F64_ops))
  /\ Emb F64_ops (c_ops F64_ops (f64_x3 F64_ops)) (c_from_base F64_ops) (c_mul_base (f64_x3 F64_ops))
  /\ FLaws (q_ops F64_ops (f64_x2 F64_ops)) /\ FLaws (c_ops F64_ops (f64_x3 F64_ops)).
Proof. exact (conj quad_f64_emb (conj cube_f64_emb (conj f64_quad_laws f64_cube_laws))). Qed.
Print Assumptions C17_ext_f64_embeddings.

(* ---- round 8 (A): E != B for the WHOLE single-segment prover path.  coq/Model/CompositionMixedWhole.v `evaluate_mixed`:
        the periodic table, the domain points, the divisor inverses, the assertion polynomials / large-polynomial values, the
        trace LDE frames and the transition evaluations are BASE-field computations (the single-field functions over OB);
        coefficients and the table are extension-field values; they meet in mul_base.
        THEOREM: evaluate_mixed = the single-field evaluate over OE on the embedded inputs, for every Emb and every AIR whose
        transition evaluator commutes with the embedding. *)
Theorem C17_evaluate_mixed_embeds :
  forall (B E : Type) (OB : FOps B) (OE : FOps E),
         FLaws OB ->
         FLaws OE ->
         forall (emb : B -> E) (mul_base : E -> B -> E),
         Emb OB OE emb mul_base ->
         forall (n ceb ldeb : nat) (offset : B) (rou : nat -> B) (num_main : nat)
           (tmainB : list B -> list B -> list B -> list B) (tmainE : list E -> list E -> list E -> list E)
           (tauxE : list E -> list E -> list E -> list E -> list E -> list E -> list E),
         (forall cur nxt pv : list B, tmainE (map emb cur) (map emb nxt) (map emb pv) = map emb (tmainB cur nxt pv)) ->
         forall (ppolys : list (list B)) (exemptions : nat) (tcoef : list E) (groups : list BGm) 
           (rands : list E) (lde_main : list (list B)) (lde_aux : list (list E)),
         evaluate_mixed OB OE mul_base n ceb ldeb offset rou num_main tmainB ppolys exemptions tcoef groups lde_main =
         evaluate OE n ceb ldeb (emb offset) (fun m : nat => emb (rou m)) num_main tmainE tauxE 
           (map (map emb) ppolys) exemptions tcoef (map (embG emb) groups) [] rands false (map (map emb) lde_main)
           lde_aux (fun (_ : nat) (v : E) => v).
Proof. exact @evaluate_mixed_embeds. Qed.
Print Assumptions C17_evaluate_mixed_embeds.

(* table_row_spec for E != B: ALL hypotheses are about the base-field data (roots of unity, periodic columns, boundary
   constraints, trace LDE rows = trace polynomials on the LDE coset); conclusion: every value of the mixed evaluate() is
   comp_def over E with all base-field data embedded, at emb(x_i) *)
Theorem C17_table_row_spec_single_segment_ext :
  forall (B E : Type) (OB : FOps B) (OE : FOps E),
         FLaws OB ->
         FLaws OE ->
         forall (emb : B -> E) (mul_base : E -> B -> E),
         Emb OB OE emb mul_base ->
         forall (n ceb ldeb : nat) (offset : B) (rou : nat -> B) (num_main : nat)
           (tmainB : list B -> list B -> list B -> list B) (tmainE : list E -> list E -> list E -> list E)
           (tauxE : list E -> list E -> list E -> list E -> list E -> list E -> list E),
         (forall cur nxt pv : list B, tmainE (map emb cur) (map emb nxt) (map emb pv) = map emb (tmainB cur nxt pv)) ->
         forall (ppolys : list (list B)) (exemptions : nat) (tcoef : list E) (groups : list BGm) 
           (rands : list E) (lde_main : list (list B)),
         list (list E) ->
         forall (r' : nat) (wlde ginv : B),
         n <> 0 ->
         ceb <> 0 ->
         r' <> 0 ->
         ldeb = ceb * r' ->
         cpow OB wlde (lde_size n ldeb) = fone OB ->
         cpow OB wlde r' = wce n ceb rou ->
         cpow OB wlde ldeb = gtrace n rou ->
         fmul OB ginv (gtrace n rou) = fone OB ->
         (forall cur nxt pv : list E, length (tmainE cur nxt pv) = num_main) ->
         exemptions <= n ->
         (forall p : list B, In p ppolys -> length p <> 0) ->
         (forall p : list B, In p ppolys -> length p * (n / length p) = n) ->
         (forall p : list B,
          In p ppolys -> exists q : nat, fold_left Nat.max (map (length (A:=B)) ppolys) 0 = length p * q) ->
         (forall p : list B, In p ppolys -> rou (length p * ceb) = cpow OB (wce n ceb rou) (n / length p)) ->
         forall (tpolys : list (list B)) (apolys : list (list E)),
         (forall g : BGm,
          In g groups ->
          (dv_ex (gm_div g) = [] /\
           dv_a (gm_div g) <> 0 /\ dv_a (gm_div g) * (ce_size n ceb / dv_a (gm_div g)) = ce_size n ceb) /\
          (forall c : BCm,
           In c (gm_cs g) ->
           m_col c < length tpolys /\
           length (m_poly c) <> 0 /\
           m_xoff c = cpow OB ginv (m_first c) /\
           m_first c < n /\ length (m_poly c) * (ce_size n ceb / length (m_poly c)) = ce_size n ceb)) ->
         lde_rows_of OB n ldeb offset wlde lde_main tpolys ->
         evaluate_mixed OB OE mul_base n ceb ldeb offset rou num_main tmainB ppolys exemptions tcoef groups lde_main =
         Some
           (map
              (fun i : nat =>
               comp_def OE n (fun m : nat => emb (rou m)) tmainE tauxE (map (map emb) ppolys) exemptions tcoef
                 (map (embG emb) groups) [] rands false (map (map emb) tpolys) apolys
                 (emb (ce_x OB n ceb offset rou i))) (seq 0 (ce_size n ceb))).
Proof. exact @table_row_spec_single_segment_ext. Qed.
Print Assumptions C17_table_row_spec_single_segment_ext.

(* the capstone for E != B (single segment): premises = those of the table theorem (base field) + the interpolation round
   trip over E (C09 at F := E) + a coefficient list for comp_def over E (C01 at F := E); conclusion: the mixed evaluate()
   and CompositionPoly::new over E succeed and the committed columns recombine to the definition with embedded data.
   REMAINING for E != B: the multi-segment path (aux columns already live in E; a mixed model of evaluate_fragment_full /
   evaluate_all / the group merge is not built), the verifier's evaluate_constraints as a whole (its mixed primitives are in
   C17_mixed_ops_are_embedded), the Lagrange terms, and the two E-level premises instantiated from C09 / C01. *)
Theorem C17_composition_is_definition_ext :
  forall (B E : Type) (OB : FOps B) (OE : FOps E),
         FLaws OB ->
         FLaws OE ->
         forall (emb : B -> E) (mul_base : E -> B -> E),
         Emb OB OE emb mul_base ->
         forall (n ceb ldeb : nat) (offset : B) (rou : nat -> B) (num_main : nat)
           (tmainB : list B -> list B -> list B -> list B) (tmainE : list E -> list E -> list E -> list E)
           (tauxE : list E -> list E -> list E -> list E -> list E -> list E -> list E),
         (forall cur nxt pv : list B, tmainE (map emb cur) (map emb nxt) (map emb pv) = map emb (tmainB cur nxt pv)) ->
         forall (ppolys : list (list B)) (exemptions : nat) (tcoef : list E) (groups : list BGm) 
           (rands : list E) (lde_main : list (list B)),
         list (list E) ->
         forall (r' : nat) (wlde ginv : B),
         n <> 0 ->
         ceb <> 0 ->
         r' <> 0 ->
         ldeb = ceb * r' ->
         cpow OB wlde (lde_size n ldeb) = fone OB ->
         cpow OB wlde r' = wce n ceb rou ->
         cpow OB wlde ldeb = gtrace n rou ->
         fmul OB ginv (gtrace n rou) = fone OB ->
         (forall cur nxt pv : list E, length (tmainE cur nxt pv) = num_main) ->
         exemptions <= n ->
         (forall p : list B, In p ppolys -> length p <> 0) ->
         (forall p : list B, In p ppolys -> length p * (n / length p) = n) ->
         (forall p : list B,
          In p ppolys -> exists q : nat, fold_left Nat.max (map (length (A:=B)) ppolys) 0 = length p * q) ->
         (forall p : list B, In p ppolys -> rou (length p * ceb) = cpow OB (wce n ceb rou) (n / length p)) ->
         forall (tpolys : list (list B)) (apolys : list (list E)),
         (forall g : BGm,
          In g groups ->
          (dv_ex (gm_div g) = [] /\
           dv_a (gm_div g) <> 0 /\ dv_a (gm_div g) * (ce_size n ceb / dv_a (gm_div g)) = ce_size n ceb) /\
          (forall c : BCm,
           In c (gm_cs g) ->
           m_col c < length tpolys /\
           length (m_poly c) <> 0 /\
           m_xoff c = cpow OB ginv (m_first c) /\
           m_first c < n /\ length (m_poly c) * (ce_size n ceb / length (m_poly c)) = ce_size n ceb)) ->
         lde_rows_of OB n ldeb offset wlde lde_main tpolys ->
         forall interp : list E -> list E,
         (forall p : list E,
          length p = ce_size n ceb ->
          interp
            (map (fun i : nat => peval OE p (ce_x OE n ceb (emb offset) (fun m : nat => emb (rou m)) i))
               (seq 0 (ce_size n ceb))) = p) ->
         forall (good : E -> Prop) (q : list E) (num_cols : nat),
         (forall z : E,
          good z ->
          peval OE q z =
          comp_def OE n (fun m : nat => emb (rou m)) tmainE tauxE (map (map emb) ppolys) exemptions tcoef
            (map (embG emb) groups) [] rands false (map (map emb) tpolys) apolys z) ->
         (forall i : nat, i < ce_size n ceb -> good (ce_x OE n ceb (emb offset) (fun m : nat => emb (rou m)) i)) ->
         length q <= ce_size n ceb ->
         length q <= num_cols * n ->
         n < ce_size n ceb ->
         exists (evals : list E) (cols : list (list E)),
           evaluate_mixed OB OE mul_base n ceb ldeb offset rou num_main tmainB ppolys exemptions tcoef groups lde_main =
           Some evals /\
           composition_poly_new n interp evals num_cols = Some cols /\
           (forall z : E, recombine OE n (cp_evaluate_at OE cols z) z = peval OE q z) /\
           (forall z : E,
            good z ->
            recombine OE n (cp_evaluate_at OE cols z) z =
            comp_def OE n (fun m : nat => emb (rou m)) tmainE tauxE (map (map emb) ppolys) exemptions tcoef
              (map (embG emb) groups) [] rands false (map (map emb) tpolys) apolys z).
Proof. exact @composition_is_definition_ext. Qed.
Print Assumptions C17_composition_is_definition_ext.

(* instances: quadratic and cubic extension of f64 (C08) *)
Theorem C17_ext_f64_whole_pipeline :
  (forall n ceb ldeb offset rou num_main tmainB tmainE tauxE,
     (forall cur nxt pv, tmainE (map (q_from_base F64_ops) cur) (map (q_from_base F64_ops) nxt) (map (q_from_base F64_ops) pv)
                         = map (q_from_base F64_ops) (tmainB cur nxt pv)) ->
     forall ppolys exemptions tcoef groups rands lde_main lde_aux,
     evaluate_mixed F64_ops (q_ops F64_ops (f64_x2 F64_ops)) (q_mul_base (f64_x2 F64_ops)) n ceb ldeb offset rou num_main tmainB
                    ppolys exemptions tcoef groups lde_main
     = evaluate (q_ops F64_ops (f64_x2 F64_ops)) n ceb ldeb (q_from_base F64_ops offset) (fun m => q_from_base F64_ops (rou m))
                num_main tmainE tauxE (map (map (q_from_base F64_ops)) ppolys) exemptions tcoef
                (map (embG (q_from_base F64_ops)) groups) [] rands false (map (map (q_from_base F64_ops)) lde_main) lde_aux
                (fun _ v => v))
  /\ (forall n ceb ldeb offset rou num_main tmainB tmainE tauxE,
     (forall cur nxt pv, tmainE (map (c_from_base F64_ops) cur) (map (c_from_base F64_ops) nxt) (map (c_from_base F64_ops) pv)
                         = map (c_from_base F64_ops) (tmainB cur nxt pv)) ->
     forall ppolys exemptions tcoef groups rands lde_main lde_aux,
     evaluate_mixed F64_ops (c_ops F64_ops (f64_x3 F64_ops)) (c_mul_base (f64_x3 F64_ops)) n ceb ldeb offset rou num_main tmainB
                    ppolys exemptions tcoef groups lde_main
     = evaluate (c_ops F64_ops (f64_x3 F64_ops)) n ceb ldeb (c_from_base F64_ops offset) (fun m => c_from_base F64_ops (rou m))
                num_main tmainE tauxE (map (map (c_from_base F64_ops)) ppolys) exemptions tcoef
                (map (embG (c_from_base F64_ops)) groups) [] rands false (map (map (c_from_base F64_ops)) lde_main) lde_aux
                (fun _ v => v)).
Proof.
  split; intros.
  - now apply quad_f64_evaluate_mixed_embeds.
  - now apply cube_f64_evaluate_mixed_embeds.
Qed.
Print Assumptions C17_ext_f64_whole_pipeline.

(* ---- round 8 (B): the Lagrange polynomiality WITHOUT vanishing hypotheses, for the honest kernel column (C01's row-to-point
        translation, Proofs/StarkLagrangeRows.v = C01_lagrange_honest_numer_vanishes / C01_lagrange_honest_first_cell): premise
        Ql of C17_composition_is_definition_lagrange_partial.  The capstone itself keeps its compositional form (`_partial`):
        the four premises are still separate theorems. *)
Theorem C17_lag_def_is_poly_honest :
  forall (F : Type) (O0 : FOps F),
         FLaws O0 ->
         forall (n v : nat) (rou : nat -> F),
         n = 2 ^ v ->
         StarkPoly.primitive_root O0 (gtrace n rou) n ->
         forall Lp rr : list F,
         length rr = v ->
         (forall i : nat,
          i < n -> peval O0 Lp (cpow O0 (gtrace n rou) i) = nth i (StarkLagrangeRows.kernel_col O0 v rr) (fzero O0)) ->
         forall (t : EnforceLagrange.LagTC) (lb : F),
         exists Q : list F,
           length Q <= length Lp /\ (forall x : F, lag_good O0 v x -> lag_def O0 n rou v Lp t rr lb x = peval O0 Q x).
Proof. exact @lag_def_is_poly_honest. Qed.
Print Assumptions C17_lag_def_is_poly_honest.

(* ---- round 9 (1): the Lagrange capstone as ONE closed statement (multi-segment path, honest kernel column).  Every premise of
        C17_composition_is_definition_lagrange_partial is instantiated from its theorem (table with the Lagrange hook;
        comp_def_is_poly via C01; lag_def_is_poly_honest via C01 + C16; interp_fft_roundtrip via C09).
        Conclusion: lagrange_evaluate and evaluate (with the hook `acc[step] += lag[step]`) succeed, CompositionPoly::new succeeds
        with C09's FFT interpolation, and the committed columns recombine to ONE coefficient list Q at EVERY z and to
        comp_def(z) + lag_def(z) at every z outside the trace domain and the Lagrange divisor zeros.
        REMAINING hypotheses, same kind as C17_composition_is_definition_aux: root-of-unity relations + odd characteristic; trace
        LDE rows (incl. the kernel column) = trace polynomials on the LDE coset; numerators of the ordinary constraints given as
        coefficient lists vanishing on the enforced steps (validity) with quotient lengths <= m; the kernel column polynomial
        interpolates the HONEST kernel column; |Lp|, m <= min(|ce|, num_cols * n); the ce coset avoids the trace domain and the
        Lagrange divisor zeros. *)
Theorem C17_composition_is_definition_lagrange :
  forall (F : Type) (O0 : FOps F),
         FLaws O0 ->
         forall (n ceb ldeb r : nat) (offset : F) (rou : nat -> F) (wlde ginv : F),
         n <> 0 ->
         ceb <> 0 ->
         r <> 0 ->
         ldeb = ceb * r ->
         cpow O0 wlde (lde_size n ldeb) = fone O0 ->
         cpow O0 wlde r = wce n ceb rou ->
         cpow O0 wlde ldeb = gtrace n rou ->
         fmul O0 ginv (gtrace n rou) = fone O0 ->
         StarkPoly.primitive_root O0 (gtrace n rou) n ->
         forall (num_main : nat) (tmain : list F -> list F -> list F -> list F)
           (taux : list F -> list F -> list F -> list F -> list F -> list F -> list F) (ppolys : list (list F))
           (exemptions : nat) (tcoef : list F) (main_groups aux_groups : list BGroup) (rands : list F)
           (tpolys apolys lde_main lde_aux : list (list F)),
         (forall cur nxt pv : list F, length (tmain cur nxt pv) = num_main) ->
         exemptions <= n ->
         (forall p : list F, In p ppolys -> length p <> 0) ->
         (forall p : list F, In p ppolys -> length p * (n / length p) = n) ->
         (forall p : list F,
          In p ppolys -> exists q : nat, fold_left Nat.max (map (length (A:=F)) ppolys) 0 = length p * q) ->
         (forall p : list F, In p ppolys -> rou (length p * ceb) = cpow O0 (wce n ceb rou) (n / length p)) ->
         (forall gr : BGroup,
          In gr main_groups ->
          div_ok n ceb (bg_div gr) /\ (forall c : BC, In c (bg_cs gr) -> bc_ok O0 n ceb ginv tpolys c)) ->
         lde_rows_of O0 n ldeb offset wlde lde_main tpolys ->
         forall (two_adicity K : nat) (rouk : nat -> F) (itw : list F),
         ce_size n ceb = 2 ^ S K ->
         S K <= two_adicity ->
         rouk (S K) = wce n ceb rou ->
         FFTSpec.root_cond O0 (S K) (wce n ceb rou) ->
         FFT.get_inv_twiddles O0 two_adicity rouk (2 ^ S K) = Some itw ->
         offset <> fzero O0 ->
         fmul O0 (FFTSpec.two_pow_f O0 (S K)) (FFTOffset.n_inv O0 (S K)) = fone O0 ->
         (forall i : nat, i < ce_size n ceb -> ~ In (ce_x O0 n ceb offset rou i) (Stark.domain O0 (gtrace n rou) n)) ->
         forall num_cols m : nat,
         m <= ce_size n ceb ->
         m <= num_cols * n ->
         n < ce_size n ceb ->
         forall (N : list F) (Bm Rm Ba Ra : BGroup -> list F),
         (forall gr : BGroup, In gr main_groups -> forall z : F, peval O0 (Bm gr) z = group_numer O0 tpolys gr z) ->
         (forall gr : BGroup,
          In gr main_groups ->
          forall z : F, Stark.pprod O0 (Rm gr) z = fsub O0 (cpow O0 z (dv_a (bg_div gr))) (dv_b (bg_div gr))) ->
         (forall i : nat, i < n - exemptions -> peval O0 N (cpow O0 (gtrace n rou) i) = fzero O0) ->
         length N - (n - exemptions) <= m ->
         (forall gr : BGroup,
          In gr aux_groups ->
          div_ok n ceb (bg_div gr) /\ (forall c : BC, In c (bg_cs gr) -> bc_ok O0 n ceb ginv apolys c)) ->
         lde_rows_of O0 n ldeb offset wlde lde_aux apolys ->
         (forall gr : BGroup, In gr aux_groups -> forall z : F, peval O0 (Ba gr) z = group_numer O0 apolys gr z) ->
         (forall gr : BGroup,
          In gr aux_groups ->
          forall z : F, Stark.pprod O0 (Ra gr) z = fsub O0 (cpow O0 z (dv_a (bg_div gr))) (dv_b (bg_div gr))) ->
         (forall z : F,
          peval O0 N z =
          rsum O0
            (map (fun ca : F * F => fmul O0 (snd ca) (fst ca))
               (combine (def_constraints O0 n rou tmain taux ppolys rands true tpolys apolys z) tcoef))) ->
         Forall
           (fun br : list F * list F =>
            NoDup (snd br) /\
            incl (snd br) (Stark.domain O0 (gtrace n rou) n) /\
            (forall r0 : F, In r0 (snd br) -> peval O0 (fst br) r0 = fzero O0) /\
            length (fst br) - length (snd br) <= m) (bs_of main_groups aux_groups true Bm Rm Ba Ra) ->
         forall v : nat,
         n = 2 ^ v ->
         forall (Lp lde_lag rr : list F) (t : EnforceLagrange.LagTC) (lb : F),
         length rr = v ->
         length (EnforceLagrange.l_coef t) = v ->
         length (EnforceLagrange.l_div t) = v ->
         v < 64 ->
         (forall i : nat,
          i < n -> peval O0 Lp (cpow O0 (gtrace n rou) i) = nth i (StarkLagrangeRows.kernel_col O0 v rr) (fzero O0)) ->
         length lde_lag = lde_size n ldeb ->
         (forall j : nat,
          j < lde_size n ldeb -> nth_error lde_lag j = Some (peval O0 Lp (fmul O0 (cpow O0 wlde j) offset))) ->
         length Lp <= ce_size n ceb ->
         length Lp <= num_cols * n ->
         (forall i : nat, i < ce_size n ceb -> lag_good O0 v (ce_x O0 n ceb offset rou i)) ->
         exists (lag Q evals : list F) (cols : list (list F)),
           lagrange_evaluate O0 n ceb ldeb offset rou v lde_lag t rr lb = Some lag /\
           evaluate O0 n ceb ldeb offset rou num_main tmain taux ppolys exemptions tcoef main_groups aux_groups rands
             true lde_main lde_aux (lagrange_acc_of O0 lag) = Some evals /\
           composition_poly_new n (interp_fft O0 two_adicity itw offset) evals num_cols = Some cols /\
           (forall z : F, recombine O0 n (cp_evaluate_at O0 cols z) z = peval O0 Q z) /\
           (forall z : F,
            ~ In z (Stark.domain O0 (gtrace n rou) n) ->
            lag_good O0 v z ->
            recombine O0 n (cp_evaluate_at O0 cols z) z =
            fadd O0
              (comp_def O0 n rou tmain taux ppolys exemptions tcoef main_groups aux_groups rands true tpolys apolys z)
              (lag_def O0 n rou v Lp t rr lb z)).
Proof. exact @composition_is_definition_lagrange. Qed.
Print Assumptions C17_composition_is_definition_lagrange.

(* ---- round 9 (3): the verifier's evaluate_constraints for E != B (coq/Model/CompositionMixedWhole.v evaluate_constraints_mixed:
        OOD frames and x in E; periodic polynomials, main value polynomials, all offsets and divisor constants in B, lifted by
        E::from / polynom::eval::<B, E>) is the single-field evaluate_constraints over OE on the embedded data ... *)
Theorem C17_verifier_evaluate_constraints_mixed_embeds :
  forall (B E : Type) (OB : FOps B) (OE : FOps E) (emb : B -> E) (mul_base : E -> B -> E),
         Emb OB OE emb mul_base ->
         forall (n : nat) (rou : nat -> B) (num_main num_aux : nat) (tmainE : list E -> list E -> list E -> list E)
           (tauxE : list E -> list E -> list E -> list E -> list E -> list E -> list E) (ppolys : list (list B))
           (exemptions : nat) (tcoef : list E) (main_groups : list BGm) (aux_groups : list BGa)
           (rands cur nxt : list E) (auxf : option (list E * list E)) (x : E),
         evaluate_constraints_mixed OB OE emb n rou num_main num_aux tmainE tauxE ppolys exemptions tcoef main_groups
           aux_groups rands cur nxt auxf x =
         evaluate_constraints OE n (fun m : nat => emb (rou m)) num_main tmainE tauxE num_aux 
           (map (map emb) ppolys) exemptions tcoef (map (embG emb) main_groups) (map (embGa emb) aux_groups) rands
           (fun _ : E => None) cur nxt auxf x.
Proof. exact @evaluate_constraints_mixed_embeds. Qed.
Print Assumptions C17_verifier_evaluate_constraints_mixed_embeds.

(* ... hence on the frame of the embedded trace polynomials at z it is comp_def over E with all base-field data embedded
   (from C17_verifier_eval_agrees at F := E) *)
Theorem C17_verifier_evaluate_constraints_ext :
  forall (B E : Type) (OB : FOps B) (OE : FOps E),
         FLaws OE ->
         forall (emb : B -> E) (mul_base : E -> B -> E),
         Emb OB OE emb mul_base ->
         forall (n : nat) (rou : nat -> B) (num_main num_aux : nat) (tmainE : list E -> list E -> list E -> list E)
           (tauxE : list E -> list E -> list E -> list E -> list E -> list E -> list E) (ppolys : list (list B))
           (exemptions : nat) (tcoef : list E) (main_groups : list BGm) (aux_groups : list BGa) 
           (rands : list E) (tpolys : list (list B)) (apolys : list (list E)),
         (forall g : BGm, In g main_groups -> dv_ex (gm_div g) = []) /\
         (forall g : BGa, In g aux_groups -> dv_ex (ga_div g) = []) ->
         (forall (g : BGm) (c : BCm), In g main_groups -> In c (gm_cs g) -> m_col c < length tpolys) ->
         (forall (g : BGa) (c : BCa), In g aux_groups -> In c (ga_cs g) -> a_col c < length apolys) ->
         (forall cur nxt pv : list E, length (tmainE cur nxt pv) = num_main) ->
         forall z : E,
         let tE := map (map emb) tpolys in
         evaluate_constraints_mixed OB OE emb n rou num_main num_aux tmainE tauxE ppolys exemptions tcoef main_groups
           aux_groups rands (def_cur OE tE z) (def_nxt OE n (fun m : nat => emb (rou m)) tE z)
           (Some (def_acur OE apolys z, def_anxt OE n (fun m : nat => emb (rou m)) apolys z)) z =
         Some
           (comp_def OE n (fun m : nat => emb (rou m)) tmainE tauxE (map (map emb) ppolys) exemptions tcoef
              (map (embG emb) main_groups) (map (embGa emb) aux_groups) rands true tE apolys z).
Proof. exact @verifier_evaluate_constraints_ext. Qed.
Print Assumptions C17_verifier_evaluate_constraints_ext.

(* ---- round 10 (2): E != B for the MULTI-segment prover path.  coq/Model/CompositionMixedFull.v `evaluate_mixed_full`:
        evaluate_fragment_full + BoundaryConstraints::{new, evaluate_all} + combine with the main frame, periodic values, domain
        points, divisors and main transition evaluations in B; the auxiliary frame, auxiliary transition evaluations, auxiliary
        assertion polynomials, coefficients and the table in E; x and x_offset of auxiliary constraints in B through mul_base
        (horner_mb, eval_poly_with_offset_mb); auxiliary groups merged into main groups with `div_eqb` over B.
        THEOREM: it equals the single-field evaluate over OE on the embedded inputs (main groups via embG, auxiliary groups via
        embGa), for every Emb and every AIR whose evaluators commute with the embedding. *)
Theorem C17_evaluate_mixed_full_embeds :
  forall (B E : Type) (OB : FOps B) (OE : FOps E),
         FLaws OB ->
         FLaws OE ->
         forall (emb : B -> E) (mul_base : E -> B -> E),
         Emb OB OE emb mul_base ->
         forall (n ceb ldeb : nat) (offset : B) (rou : nat -> B) (num_main : nat)
           (tmainB : list B -> list B -> list B -> list B) (tmainE : list E -> list E -> list E -> list E)
           (tauxM : list B -> list B -> list E -> list E -> list B -> list E -> list E)
           (tauxE : list E -> list E -> list E -> list E -> list E -> list E -> list E),
         (forall cur nxt pv : list B, tmainE (map emb cur) (map emb nxt) (map emb pv) = map emb (tmainB cur nxt pv)) ->
         (forall (cur nxt : list B) (ac an : list E) (pv : list B) (rs : list E),
          tauxE (map emb cur) (map emb nxt) ac an (map emb pv) rs = tauxM cur nxt ac an pv rs) ->
         forall (ppolys : list (list B)) (exemptions : nat) (tcoef : list E) (main_groups : list BGm)
           (aux_groups : list BGa) (rands : list E) (lde_main : list (list B)) (lde_aux : list (list E)),
         evaluate_mixed_full OB OE mul_base n ceb ldeb offset rou num_main tmainB tauxM ppolys exemptions tcoef
           main_groups aux_groups rands lde_main lde_aux =
         evaluate OE n ceb ldeb (emb offset) (fun m : nat => emb (rou m)) num_main tmainE tauxE 
           (map (map emb) ppolys) exemptions tcoef (map (embG emb) main_groups) (map (embGa emb) aux_groups) rands true
           (map (map emb) lde_main) lde_aux (fun (_ : nat) (v : E) => v).
Proof. exact @evaluate_mixed_full_embeds. Qed.
Print Assumptions C17_evaluate_mixed_full_embeds.

(* table_row_spec for E != B, multi-segment: main-segment hypotheses on the base-field data, auxiliary segment in E *)
Theorem C17_table_row_spec_multi_segment_ext :
  forall (B E : Type) (OB : FOps B) (OE : FOps E),
         FLaws OB ->
         FLaws OE ->
         forall (emb : B -> E) (mul_base : E -> B -> E),
         Emb OB OE emb mul_base ->
         forall (n ceb ldeb : nat) (offset : B) (rou : nat -> B) (num_main : nat)
           (tmainB : list B -> list B -> list B -> list B) (tmainE : list E -> list E -> list E -> list E)
           (tauxM : list B -> list B -> list E -> list E -> list B -> list E -> list E)
           (tauxE : list E -> list E -> list E -> list E -> list E -> list E -> list E),
         (forall cur nxt pv : list B, tmainE (map emb cur) (map emb nxt) (map emb pv) = map emb (tmainB cur nxt pv)) ->
         (forall (cur nxt : list B) (ac an : list E) (pv : list B) (rs : list E),
          tauxE (map emb cur) (map emb nxt) ac an (map emb pv) rs = tauxM cur nxt ac an pv rs) ->
         forall (ppolys : list (list B)) (exemptions : nat) (tcoef : list E) (main_groups : list BGm)
           (aux_groups : list BGa) (rands : list E) (lde_main : list (list B)) (lde_aux : list (list E)) 
           (r' : nat) (wlde ginv : B),
         n <> 0 ->
         ceb <> 0 ->
         r' <> 0 ->
         ldeb = ceb * r' ->
         cpow OB wlde (lde_size n ldeb) = fone OB ->
         cpow OB wlde r' = wce n ceb rou ->
         cpow OB wlde ldeb = gtrace n rou ->
         fmul OB ginv (gtrace n rou) = fone OB ->
         (forall cur nxt pv : list E, length (tmainE cur nxt pv) = num_main) ->
         exemptions <= n ->
         (forall p : list B, In p ppolys -> length p <> 0) ->
         (forall p : list B, In p ppolys -> length p * (n / length p) = n) ->
         (forall p : list B,
          In p ppolys -> exists q : nat, fold_left Nat.max (map (length (A:=B)) ppolys) 0 = length p * q) ->
         (forall p : list B, In p ppolys -> rou (length p * ceb) = cpow OB (wce n ceb rou) (n / length p)) ->
         forall (tpolys : list (list B)) (apolys : list (list E)),
         (forall g : BGm,
          In g main_groups ->
          div_okB n ceb (gm_div g) /\
          (forall c : BCm,
           In c (gm_cs g) ->
           m_col c < length tpolys /\
           length (m_poly c) <> 0 /\
           m_xoff c = cpow OB ginv (m_first c) /\
           m_first c < n /\ length (m_poly c) * (ce_size n ceb / length (m_poly c)) = ce_size n ceb)) ->
         (forall g : BGa,
          In g aux_groups ->
          div_okB n ceb (ga_div g) /\
          (forall c : BCa,
           In c (ga_cs g) ->
           a_col c < length apolys /\
           length (a_poly c) <> 0 /\
           a_xoff c = cpow OB ginv (a_first c) /\
           a_first c < n /\ length (a_poly c) * (ce_size n ceb / length (a_poly c)) = ce_size n ceb)) ->
         lde_rows_of OB n ldeb offset wlde lde_main tpolys ->
         lde_rows_of OE n ldeb (emb offset) (emb wlde) lde_aux apolys ->
         evaluate_mixed_full OB OE mul_base n ceb ldeb offset rou num_main tmainB tauxM ppolys exemptions tcoef
           main_groups aux_groups rands lde_main lde_aux =
         Some
           (map
              (fun i : nat =>
               comp_def OE n (fun m : nat => emb (rou m)) tmainE tauxE (map (map emb) ppolys) exemptions tcoef
                 (map (embG emb) main_groups) (map (embGa emb) aux_groups) rands true (map (map emb) tpolys) apolys
                 (emb (ce_x OB n ceb offset rou i))) (seq 0 (ce_size n ceb))).
Proof. exact @table_row_spec_multi_segment_ext. Qed.
Print Assumptions C17_table_row_spec_multi_segment_ext.

(* the capstone for E != B, multi-segment (premises: interpolation round trip over E, coefficient list for comp_def over E) *)
Theorem C17_composition_is_definition_aux_ext :
  forall (B E : Type) (OB : FOps B) (OE : FOps E),
         FLaws OB ->
         FLaws OE ->
         forall (emb : B -> E) (mul_base : E -> B -> E),
         Emb OB OE emb mul_base ->
         forall (n ceb ldeb : nat) (offset : B) (rou : nat -> B) (num_main : nat)
           (tmainB : list B -> list B -> list B -> list B) (tmainE : list E -> list E -> list E -> list E)
           (tauxM : list B -> list B -> list E -> list E -> list B -> list E -> list E)
           (tauxE : list E -> list E -> list E -> list E -> list E -> list E -> list E),
         (forall cur nxt pv : list B, tmainE (map emb cur) (map emb nxt) (map emb pv) = map emb (tmainB cur nxt pv)) ->
         (forall (cur nxt : list B) (ac an : list E) (pv : list B) (rs : list E),
          tauxE (map emb cur) (map emb nxt) ac an (map emb pv) rs = tauxM cur nxt ac an pv rs) ->
         forall (ppolys : list (list B)) (exemptions : nat) (tcoef : list E) (main_groups : list BGm)
           (aux_groups : list BGa) (rands : list E) (lde_main : list (list B)) (lde_aux : list (list E)) 
           (r' : nat) (wlde ginv : B),
         n <> 0 ->
         ceb <> 0 ->
         r' <> 0 ->
         ldeb = ceb * r' ->
         cpow OB wlde (lde_size n ldeb) = fone OB ->
         cpow OB wlde r' = wce n ceb rou ->
         cpow OB wlde ldeb = gtrace n rou ->
         fmul OB ginv (gtrace n rou) = fone OB ->
         (forall cur nxt pv : list E, length (tmainE cur nxt pv) = num_main) ->
         exemptions <= n ->
         (forall p : list B, In p ppolys -> length p <> 0) ->
         (forall p : list B, In p ppolys -> length p * (n / length p) = n) ->
         (forall p : list B,
          In p ppolys -> exists q : nat, fold_left Nat.max (map (length (A:=B)) ppolys) 0 = length p * q) ->
         (forall p : list B, In p ppolys -> rou (length p * ceb) = cpow OB (wce n ceb rou) (n / length p)) ->
         forall (tpolys : list (list B)) (apolys : list (list E)),
         (forall g : BGm,
          In g main_groups ->
          div_okB n ceb (gm_div g) /\
          (forall c : BCm,
           In c (gm_cs g) ->
           m_col c < length tpolys /\
           length (m_poly c) <> 0 /\
           m_xoff c = cpow OB ginv (m_first c) /\
           m_first c < n /\ length (m_poly c) * (ce_size n ceb / length (m_poly c)) = ce_size n ceb)) ->
         (forall g : BGa,
          In g aux_groups ->
          div_okB n ceb (ga_div g) /\
          (forall c : BCa,
           In c (ga_cs g) ->
           a_col c < length apolys /\
           length (a_poly c) <> 0 /\
           a_xoff c = cpow OB ginv (a_first c) /\
           a_first c < n /\ length (a_poly c) * (ce_size n ceb / length (a_poly c)) = ce_size n ceb)) ->
         lde_rows_of OB n ldeb offset wlde lde_main tpolys ->
         lde_rows_of OE n ldeb (emb offset) (emb wlde) lde_aux apolys ->
         forall interp : list E -> list E,
         (forall p : list E,
          length p = ce_size n ceb ->
          interp
            (map (fun i : nat => peval OE p (ce_x OE n ceb (emb offset) (fun m : nat => emb (rou m)) i))
               (seq 0 (ce_size n ceb))) = p) ->
         forall (good : E -> Prop) (q : list E) (num_cols : nat),
         (forall z : E,
          good z ->
          peval OE q z =
          comp_def OE n (fun m : nat => emb (rou m)) tmainE tauxE (map (map emb) ppolys) exemptions tcoef
            (map (embG emb) main_groups) (map (embGa emb) aux_groups) rands true (map (map emb) tpolys) apolys z) ->
         (forall i : nat, i < ce_size n ceb -> good (ce_x OE n ceb (emb offset) (fun m : nat => emb (rou m)) i)) ->
         length q <= ce_size n ceb ->
         length q <= num_cols * n ->
         n < ce_size n ceb ->
         exists (evals : list E) (cols : list (list E)),
           evaluate_mixed_full OB OE mul_base n ceb ldeb offset rou num_main tmainB tauxM ppolys exemptions tcoef
             main_groups aux_groups rands lde_main lde_aux = Some evals /\
           composition_poly_new n interp evals num_cols = Some cols /\
           (forall z : E, recombine OE n (cp_evaluate_at OE cols z) z = peval OE q z) /\
           (forall z : E,
            good z ->
            recombine OE n (cp_evaluate_at OE cols z) z =
            comp_def OE n (fun m : nat => emb (rou m)) tmainE tauxE (map (map emb) ppolys) exemptions tcoef
              (map (embG emb) main_groups) (map (embGa emb) aux_groups) rands true (map (map emb) tpolys) apolys z).
Proof. exact @composition_is_definition_aux_ext. Qed.
Print Assumptions C17_composition_is_definition_aux_ext.

(* ---- round 10 (4): the single-segment `_ext` capstone with BOTH extension-field premises instantiated (interpolation = C09's
        FFT model over E; polynomial form of comp_def over E from validity via C01 at F := E).  It is C17_composition_is_definition
        at F := E on the embedded data composed with C17_evaluate_mixed_embeds.  The hypotheses are statements over E about the
        EMBEDDED base-field data: the composition coefficients live in E, so the numerator polynomials and their vanishing are
        extension-field statements by nature; root-of-unity relations, periodic-column and boundary well-formedness are stated
        on `emb (rouB m)`, `map (map emb) ppolysB`, `map (embG emb) groupsB` (they follow from the base-field ones as in
        C17_table_row_spec_single_segment_ext; not re-derived in this statement). *)
Theorem C17_composition_is_definition_ext_closed :
  forall (B F : Type) (OB : FOps B) (O0 : FOps F),
         FLaws OB ->
         FLaws O0 ->
         forall (emb : B -> F) (mul_base : F -> B -> F),
         Emb OB O0 emb mul_base ->
         forall (offsetB : B) (rouB : nat -> B) (tmainB : list B -> list B -> list B -> list B)
           (tmain : list F -> list F -> list F -> list F),
         (forall cur nxt pv : list B, tmain (map emb cur) (map emb nxt) (map emb pv) = map emb (tmainB cur nxt pv)) ->
         forall (ppolysB : list (list B)) (groupsB : list BGm) (lde_mainB tpolysB : list (list B)) 
           (n ceb ldeb r : nat) (wlde ginv : F),
         n <> 0 ->
         ceb <> 0 ->
         r <> 0 ->
         ldeb = ceb * r ->
         cpow O0 wlde (lde_size n ldeb) = fone O0 ->
         cpow O0 wlde r = wce n ceb (fun m : nat => emb (rouB m)) ->
         cpow O0 wlde ldeb = gtrace n (fun m : nat => emb (rouB m)) ->
         fmul O0 ginv (gtrace n (fun m : nat => emb (rouB m))) = fone O0 ->
         StarkPoly.primitive_root O0 (gtrace n (fun m : nat => emb (rouB m))) n ->
         forall (num_main : nat) (taux : list F -> list F -> list F -> list F -> list F -> list F -> list F)
           (exemptions : nat) (tcoef rands : list F) (apolys : list (list F)),
         list (list F) ->
         (forall cur nxt pv : list F, length (tmain cur nxt pv) = num_main) ->
         exemptions <= n ->
         (forall p : list F, In p (map (map emb) ppolysB) -> length p <> 0) ->
         (forall p : list F, In p (map (map emb) ppolysB) -> length p * (n / length p) = n) ->
         (forall p : list F,
          In p (map (map emb) ppolysB) ->
          exists q : nat, fold_left Nat.max (map (length (A:=F)) (map (map emb) ppolysB)) 0 = length p * q) ->
         (forall p : list F,
          In p (map (map emb) ppolysB) ->
          emb (rouB (length p * ceb)) = cpow O0 (wce n ceb (fun m : nat => emb (rouB m))) (n / length p)) ->
         (forall gr : BGroup,
          In gr (map (embG emb) groupsB) ->
          div_ok n ceb (bg_div gr) /\ (forall c : BC, In c (bg_cs gr) -> bc_ok O0 n ceb ginv (map (map emb) tpolysB) c)) ->
         lde_rows_of O0 n ldeb (emb offsetB) wlde (map (map emb) lde_mainB) (map (map emb) tpolysB) ->
         forall (two_adicity K : nat) (rouk : nat -> F) (itw : list F),
         ce_size n ceb = 2 ^ S K ->
         S K <= two_adicity ->
         rouk (S K) = wce n ceb (fun m : nat => emb (rouB m)) ->
         FFTSpec.root_cond O0 (S K) (wce n ceb (fun m : nat => emb (rouB m))) ->
         FFT.get_inv_twiddles O0 two_adicity rouk (2 ^ S K) = Some itw ->
         emb offsetB <> fzero O0 ->
         fmul O0 (FFTSpec.two_pow_f O0 (S K)) (FFTOffset.n_inv O0 (S K)) = fone O0 ->
         (forall i : nat,
          i < ce_size n ceb ->
          ~
          In (ce_x O0 n ceb (emb offsetB) (fun m : nat => emb (rouB m)) i)
            (Stark.domain O0 (gtrace n (fun m : nat => emb (rouB m))) n)) ->
         forall num_cols m : nat,
         m <= ce_size n ceb ->
         m <= num_cols * n ->
         n < ce_size n ceb ->
         forall (N : list F) (Bm Rm Ba Ra : BGroup -> list F),
         (forall gr : BGroup,
          In gr (map (embG emb) groupsB) ->
          forall z : F, peval O0 (Bm gr) z = group_numer O0 (map (map emb) tpolysB) gr z) ->
         (forall gr : BGroup,
          In gr (map (embG emb) groupsB) ->
          forall z : F, Stark.pprod O0 (Rm gr) z = fsub O0 (cpow O0 z (dv_a (bg_div gr))) (dv_b (bg_div gr))) ->
         (forall i : nat,
          i < n - exemptions -> peval O0 N (cpow O0 (gtrace n (fun m0 : nat => emb (rouB m0))) i) = fzero O0) ->
         length N - (n - exemptions) <= m ->
         (forall z : F,
          peval O0 N z =
          rsum O0
            (map (fun ca : F * F => fmul O0 (snd ca) (fst ca))
               (combine
                  (def_constraints O0 n (fun m0 : nat => emb (rouB m0)) tmain taux (map (map emb) ppolysB) rands false
                     (map (map emb) tpolysB) apolys z) tcoef))) ->
         Forall
           (fun br : list F * list F =>
            NoDup (snd br) /\
            incl (snd br) (Stark.domain O0 (gtrace n (fun m0 : nat => emb (rouB m0))) n) /\
            (forall r0 : F, In r0 (snd br) -> peval O0 (fst br) r0 = fzero O0) /\
            length (fst br) - length (snd br) <= m) (bs_of (map (embG emb) groupsB) [] false Bm Rm Ba Ra) ->
         exists (Q evals : list F) (cols : list (list F)),
           length Q <= m /\
           evaluate_mixed OB O0 mul_base n ceb ldeb offsetB rouB num_main tmainB ppolysB exemptions tcoef groupsB
             lde_mainB = Some evals /\
           composition_poly_new n (interp_fft O0 two_adicity itw (emb offsetB)) evals num_cols = Some cols /\
           (forall z : F, recombine O0 n (cp_evaluate_at O0 cols z) z = peval O0 Q z) /\
           (forall z : F,
            ~ In z (Stark.domain O0 (gtrace n (fun m0 : nat => emb (rouB m0))) n) ->
            recombine O0 n (cp_evaluate_at O0 cols z) z =
            comp_def O0 n (fun m0 : nat => emb (rouB m0)) tmain taux (map (map emb) ppolysB) exemptions tcoef
              (map (embG emb) groupsB) [] rands false (map (map emb) tpolysB) apolys z).
Proof. exact @composition_is_definition_ext_closed. Qed.
Print Assumptions C17_composition_is_definition_ext_closed.

(* ---- non-vacuity: each theorem above instantiated in the 64-bit field with ALL hypotheses discharged
        (Proofs/CompositionExamples.v).  Instance A: trace length 2, ce blowup 2, a periodic column, an auxiliary column,
        a single-value group at step 0, a two-value sequence group with first step 1, an auxiliary group sharing the first
        group's divisor.  Instance B (capstone): trace length 1, ce blowup 2, the empty AIR, interpolation over the two-point
        coset {7, -7} given explicitly and proved unique. *)
Example C17_periodic_row_spec_nonvacuous :
  exists t, ptable_new F64_ops 2 2 (e64 7) rouA ppolysA = Some t /\
    forall step, pt_get_row t step = Some (periodic_spec_row F64_ops 2 2 (e64 7) rouA ppolysA step).
Proof. exact periodic_row_spec_instance. Qed.

Example C17_boundary_repr_equiv_nonvacuous : forall step, step < 4 ->
  small_eval F64_ops (small_new cA) [e64 9] (ce_x F64_ops 2 2 (e64 7) rouA step)
    = bc_spec F64_ops cA (e64 9) (ce_x F64_ops 2 2 (e64 7) rouA step)
  /\ large_eval F64_ops (large_new F64_ops 2 2 (e64 7) rouA cA) [e64 9] step
    = bc_spec F64_ops cA (e64 9) (ce_x F64_ops 2 2 (e64 7) rouA step)
  /\ (length (bc_poly cA) = 1 -> single_eval F64_ops (single_new F64_ops cA) [e64 9]
    = bc_spec F64_ops cA (e64 9) (ce_x F64_ops 2 2 (e64 7) rouA step)).
Proof. exact boundary_repr_equiv_instance. Qed.

Example C17_table_row_spec_nonvacuous :
  evaluate F64_ops 2 2 2 (e64 7) rouA 1 tmainA tauxA ppolysA 1 [e64 11; e64 12] [gA; gA2] [gAaux] [] true
    (ldeA tpolysA) (ldeA apolysA) (fun _ v => v)
  = Some (map (fun i => comp_def F64_ops 2 rouA tmainA tauxA ppolysA 1 [e64 11; e64 12] [gA; gA2] [gAaux] [] true tpolysA apolysA
                          (ce_x F64_ops 2 2 (e64 7) rouA i)) (seq 0 (ce_size 2 2))).
Proof. exact table_row_spec_instance. Qed.

Example C17_verifier_eval_agrees_nonvacuous : forall z,
  evaluate_constraints F64_ops 2 rouA 1 tmainA tauxA 1 ppolysA 1 [e64 11; e64 12] [gA; gA2] [gAaux] [] (fun _ => None)
    (def_cur F64_ops tpolysA z) (def_nxt F64_ops 2 rouA tpolysA z)
    (Some (def_acur F64_ops apolysA z, def_anxt F64_ops 2 rouA apolysA z)) z
  = Some (comp_def F64_ops 2 rouA tmainA tauxA ppolysA 1 [e64 11; e64 12] [gA; gA2] [gAaux] [] true tpolysA apolysA z).
Proof. exact verifier_eval_agrees_instance. Qed.

Example C17_composition_is_definition_partial_nonvacuous :
  exists evals cols,
    evaluate F64_ops 1 2 2 (e64 7) rouB 0 (fun _ _ _ => []) (fun _ _ _ _ _ _ => []) [] 1 [] [] [] [] true
             (map (fun _ => []) (seq 0 2)) (map (fun _ => []) (seq 0 2)) (fun _ v => v) = Some evals
    /\ composition_poly_new 1 interpB evals 1 = Some cols
    /\ (forall z, recombine F64_ops 1 (cp_evaluate_at F64_ops cols z) z = peval F64_ops [] z)
    /\ (forall z, True -> recombine F64_ops 1 (cp_evaluate_at F64_ops cols z) z
          = comp_def F64_ops 1 rouB (fun _ _ _ => []) (fun _ _ _ _ _ _ => []) [] 1 [] [] [] [] true [] [] z).
Proof. exact composition_is_definition_partial_instance. Qed.

Example C17_column_split_recombine_nonvacuous :
  exists cols, segment [e64 1; e64 2; e64 3; e64 4; e64 5] 2 3 = Some cols /\
    forall z, recombine F64_ops 2 (cp_evaluate_at F64_ops cols z) z = peval F64_ops [e64 1; e64 2; e64 3; e64 4; e64 5] z.
Proof.
  eexists. split; [reflexivity|]. intros z.
  apply (C17_column_split_recombine F64_ops F64_laws 2 ltac:(discriminate) 3); [simpl; auto with arith | reflexivity].
Qed.

Example C17_table_row_spec_single_segment_nonvacuous :
  evaluate F64_ops 2 2 2 (e64 7) rouA 1 tmainA tauxA ppolysA 1 [e64 11] [gA; gA2] [] [] false (ldeA tpolysA) [] (fun _ v => v)
  = Some (map (fun i => comp_def F64_ops 2 rouA tmainA tauxA ppolysA 1 [e64 11] [gA; gA2] [] [] false tpolysA []
                          (ce_x F64_ops 2 2 (e64 7) rouA i)) (seq 0 (ce_size 2 2))).
Proof. exact table_row_spec_single_segment_instance. Qed.

(* all hypotheses of C17_composition_is_definition hold together (FFT model's inverse twiddles, root conditions, odd
   characteristic, primitive root, coset disjoint from the trace domain) — on the empty AIR over a trace of length 1 *)
Example C17_composition_is_definition_nonvacuous :
  exists itw, FFT.get_inv_twiddles F64_ops 32 (fun _ => m1) (2 ^ 1) = Some itw /\
  exists Q evals cols,
    length Q <= 0
    /\ evaluate F64_ops 1 2 2 (e64 7) rouB 0 (fun _ _ _ => []) (fun _ _ _ _ _ _ => []) [] 1 [] [] [] [] false
                (map (fun _ => []) (seq 0 2)) [] (fun _ v => v) = Some evals
    /\ composition_poly_new 1 (interp_fft F64_ops 32 itw (e64 7)) evals 1 = Some cols
    /\ (forall z, recombine F64_ops 1 (cp_evaluate_at F64_ops cols z) z = peval F64_ops Q z)
    /\ (forall z, ~ In z (Stark.domain F64_ops (gtrace 1 rouB) 1) -> recombine F64_ops 1 (cp_evaluate_at F64_ops cols z) z
          = comp_def F64_ops 1 rouB (fun _ _ _ => []) (fun _ _ _ _ _ _ => []) [] 1 [] [] [] [] false [] [] z).
Proof. exact composition_is_definition_instance. Qed.

Example C17_lagrange_row_spec_nonvacuous :
  lagrange_evaluate F64_ops 2 2 2 (e64 7) rouA 1 ldeLagA tLagA [e64 9] (e64 4)
  = Some (map (fun i => lag_def F64_ops 2 rouA 1 LpA tLagA [e64 9] (e64 4) (ce_x F64_ops 2 2 (e64 7) rouA i)) (seq 0 (ce_size 2 2))).
Proof. exact lagrange_evaluate_spec_instance. Qed.

Example C17_lag_def_is_poly_nonvacuous :
  exists Q, length Q <= length LpK /\ forall x, lag_good F64_ops 1 x ->
    lag_def F64_ops 2 rouA 1 LpK tLagA [r0L] (e64 4) x = peval F64_ops Q x.
Proof. exact lag_def_is_poly_instance. Qed.

Example C17_table_row_spec_single_segment_ext_nonvacuous :
  evaluate_mixed F64_ops OQ (q_mul_base (f64_x2 F64_ops)) 2 2 2 (e64 7) rouA 1 tmainA ppolysA 1 [(e64 11, e64 3)] [gmA; gmA2] (ldeA tpolysA)
  = Some (map (fun i => comp_def OQ 2 (fun m => embQ (rouA m)) tmainQ (fun _ _ _ _ _ _ => []) (map (map embQ) ppolysA) 1 [(e64 11, e64 3)]
                                 (map (embG embQ) [gmA; gmA2]) [] [] false (map (map embQ) tpolysA) []
                                 (embQ (ce_x F64_ops 2 2 (e64 7) rouA i))) (seq 0 (ce_size 2 2))).
Proof. exact table_row_spec_single_segment_ext_instance. Qed.
