(* C01 — completeness: every valid execution yields a proof that the verifier accepts.
   Only statements, `exact` of lemmas proved in Proofs/Stark*.v, and Print Assumptions.

   FULL property (properties.jsonl C01 / DESIGN.md): for every supported AIR, valid trace, admissible options with a
   well-formed FRI schedule, field, extension and hasher:  prove t = Ok pi /\ verify pi = Ok /\
   verify (from_bytes (to_bytes pi)) = Ok  for the REAL prover/verifier.
   PROVED here: `C01_stark_complete` — the statement for the algebraic model of Model/Stark.v with its stages instantiated
   by the models of the other properties and their premises DISCHARGED from the exported theorems:
     merkle_complete   <- C10_new_ok, C10_build_nodes_spec, C10_batch_complete   (C01_merkle_complete_inst)
     interp_complete, coset_off_domain <- C09_interpolate_with_offset_spec        (C01_interp_complete_inst)
     transcript_agree  <- C04_transcript_agree                                     (C01_transcript_agree_inst)
     divisor zero sets <- C16_transition_divisor_is_polynomial, assertion_evaluate_at (C01_transition/assertion_divisor_inst)
     fri_complete      <- C15_fri_complete (+ C10 for the layer trees)             (C01_fri_complete_inst)
   NO stage premise remains in `C01_stark_complete`.  `C01_stark_complete_generic_fri` keeps an arbitrary FRI stage with
   fri_complete as its one stage premise; the generic
   `C01_stark_complete_partial` / `..._valid_trace_partial` keep all stages as explicit premises (they are premises,
   not axioms).  Not covered by any theorem here: the byte-level round trip (C12), the coin's 1000-try limit (C19),
   Lagrange-kernel columns; the real code is tied to this model at the shape level and for the DEEP composition
   (correspondence) and by the end-to-end falsifier of checks/c01.py. *)
From Coq Require Import List Arith Bool ZArith Lia.
From VBase Require Import FieldOps.
From VModel Require Import Stark.
From VModel Require Polynom.
From VModel Require FFT Merkle Transcript Enforce Fri.
From VProofs Require FFTSpec FFTEval FFTOffset TranscriptRun TranscriptExamples.
From VProofs Require Import StarkPoly StarkDeep StarkComplete StarkShape StarkTie StarkInst StarkFri StarkExamples StarkInstExample StarkFriExample.
Import ListNotations.

Section Statements.
Context {F : Type} (O : FOps F) (L : FLaws O).
Local Notation zero := (fzero O).
Local Notation one := (fone O).
Local Notation "a -f b" := (fsub O a b) (at level 50, left associativity).
Local Notation "a *f b" := (fmul O a b) (at level 40, left associativity).

(* ---- polynomial layer *)
Theorem C01_root_factor : forall p a, peval O p a = zero ->
  exists q, length q = length p - 1 /\ forall x, peval O p x = (x -f a) *f peval O q x.
Proof. exact (root_factor O L). Qed.

Theorem C01_vanish_divisible : forall roots p, NoDup roots -> (forall r, In r roots -> peval O p r = zero) ->
  exists q, length q = length p - length roots /\ forall x, peval O p x = pprod O roots x *f peval O q x.
Proof. exact (vanish_divisible O L). Qed.

Theorem C01_domain_vanishing : forall g n, primitive_root O g n -> 0 < n ->
  forall x, pprod O (domain O g n) x = fpow O x n -f one.
Proof. exact (domain_vanishing O L). Qed.

(* ---- constraint quotients are polynomials *)
Theorem C01_quotient_is_poly : forall g n e N, primitive_root O g n -> 0 < n -> e <= n ->
  (forall i, i < n - e -> peval O N (fpow O g i) = zero) ->
  exists Q, length Q = length N - (n - e) /\
    (forall x, peval O N x = pprod O (domain O g (n - e)) x *f peval O Q x) /\
    (forall x, peval O N x *f pprod O (exempt O g n e) x = (fpow O x n -f one) *f peval O Q x).
Proof. exact (quotient_is_poly O L). Qed.

Theorem C01_air_quotient_exists : forall g n e N bs m, primitive_root O g n -> 0 < n -> e <= n ->
  (forall i, i < n - e -> peval O N (fpow O g i) = zero) ->
  length N - (n - e) <= m ->
  Forall (fun br => NoDup (snd br) /\ incl (snd br) (domain O g n) /\
                    (forall r, In r (snd br) -> peval O (fst br) r = zero) /\ length (fst br) - length (snd br) <= m) bs ->
  exists Q, length Q <= m /\ forall x, ~ In x (domain O g n) -> combined O g n e N bs x = peval O Q x.
Proof. exact (air_quotient_exists O L). Qed.

(* ---- the OOD consistency equation is an identity in z *)
Theorem C01_ood_equation_holds : forall n cols (Q : list F) k z, 0 < n -> length Q <= n * cols ->
  ood_lhs O n z 0 (evals O (segment (Q ++ repeat zero k) n cols) z) = peval O Q z.
Proof. exact (ood_equation_holds O L). Qed.

(* ---- DEEP composition *)
Theorem C01_deep_quotients_are_polys : forall T z,
  exists q, length q = length T - 1 /\ forall x, peval O T x -f peval O T z = (x -f z) *f peval O q x.
Proof. exact (deep_quotient_is_poly O L). Qed.

Theorem C01_deep_degree_le : forall n g (c : @Coin F) Ts Hs, 0 < n ->
  Forall (fun p => length p = n) Ts -> Forall (fun p => length p = n) Hs ->
  forall cur nxt hz, degree_of O (deep_poly O n g c Ts Hs cur nxt hz) <= n - 2.
Proof. exact (deep_degree_le O L). Qed.

(* the repaired assertion `assert!(degree <= trace_length - 2)` never fires ... *)
Theorem C01_deep_assert_lax_holds : forall n g (c : @Coin F) Ts Hs, 0 < n ->
  Forall (fun p => length p = n) Ts -> Forall (fun p => length p = n) Hs ->
  forall cur nxt hz, deep_assert O false n (deep_poly O n g c Ts Hs cur nxt hz) = true.
Proof. exact (deep_assert_lax_holds O L). Qed.

(* ... while the snapshot's `assert_eq!(trace_length - 2, degree)` fires for EVERY trace with constant columns and
   constant composition columns, every n >= 3 and every coin *)
Theorem C01_deep_assert_strict_refuted_general : forall n g (c : @Coin F) Ts Hs cur nxt hz, 3 <= n ->
  Forall (tail_zeros O) Ts -> Forall (tail_zeros O) Hs ->
  degree_of O (deep_poly O n g c Ts Hs cur nxt hz) = 0 /\ deep_assert O true n (deep_poly O n g c Ts Hs cur nxt hz) = false.
Proof. exact (deep_assert_strict_fires O L). Qed.

Theorem C01_query_consistency : forall n g (c : @Coin F) Ts Hs, 0 < n -> forall x, x <> c_z c -> x <> c_z c *f g ->
  peval O (deep_poly O n g c Ts Hs (evals O Ts (c_z c)) (evals O Ts (c_z c *f g)) (evals O Hs (c_z c))) x
  = v_deep O g c x (evals O Ts x) (evals O Hs x) (evals O Ts (c_z c)) (evals O Ts (c_z c *f g)) (evals O Hs (c_z c)).
Proof. exact (query_consistency O L). Qed.

(* ---- capstone (partial: stage hypotheses are explicit premises) *)
Theorem C01_stark_complete_partial :
  forall (Digest Opening FriProof : Type) (commit : list (list F) -> Digest)
    (open_prove : list (list F) -> list F -> Opening) (open_ok : Digest -> list F -> list (list F) -> Opening -> bool)
    (fri_prove : list F -> list F -> FriProof) (fri_verify : FriProof -> nat -> list F -> list F -> bool)
    (air_eval : F -> list F -> list F -> F) (interp_ce : (F -> F) -> list F)
    (n cols ce_size : nat) (g : F) (ce_coset lde : list F),
  (* merkle_complete (C10 + C09; discharged in C01_stark_complete) *)
  (forall (cs : list (list F)) xs, incl xs lde -> NoDup xs -> xs <> [] -> length xs <= 255 ->
     open_ok (commit cs) xs (map (evals O cs) xs) (open_prove cs xs) = true) ->
  (* fri_complete (C15) *)
  (forall d xs, length d = n -> last d zero = zero -> incl xs lde -> xs <> [] -> length xs <= 255 ->
     fri_verify (fri_prove d xs) (n - 2) xs (map (peval O d) xs) = true) ->
  (* interp_complete (C09) *)
  (forall f Q, length Q <= ce_size -> (forall x, In x ce_coset -> f x = peval O Q x) ->
     interp_ce f = Q ++ repeat zero (ce_size - length Q)) ->
  (* coset_off_domain (C16/C09) *)
  (forall x, In x ce_coset -> ~ In x (domain O g n)) ->
  forall (dbg : bool) (cP cV : @Coin F) (Ts : list (list F)) (Q : list F),
  2 <= n -> 1 <= cols -> n * cols <= ce_size -> Ts <> [] -> Forall (fun p => length p = n) Ts ->
  (* valid trace, through C01_air_quotient_exists and C01_comp_cols_fit *)
  length Q <= n * cols ->
  (forall x, ~ In x (domain O g n) -> air_eval x (evals O Ts x) (evals O Ts (x *f g)) = peval O Q x) ->
  (* transcript_agree (C04) *)
  cV = cP ->
  (* z outside the trace domain, z and z*g non-zero (syn_div_in_place asserts a non-zero divisor point); query points are
     LDE points different from z and z*g  (ASSUMPTION, probability <= 2^-30) *)
  ~ In (c_z cP) (domain O g n) -> c_z cP <> zero -> c_z cP *f g <> zero -> incl (c_xs cP) lde ->
  NoDup (c_xs cP) -> c_xs cP <> [] -> length (c_xs cP) <= 255 ->
  (forall x, In x (c_xs cP) -> x <> c_z cP /\ x <> c_z cP *f g) ->
  exists pf, prove O Digest Opening FriProof commit open_prove fri_prove air_eval interp_ce (mkParams n g cols false dbg) cP Ts = Done pf /\
             verify O Digest Opening FriProof open_ok fri_verify air_eval (mkParams n g cols false dbg) cV pf = None.
Proof. exact (stark_complete_partial O L). Qed.

(* the capstone stated from "all constraints hold on the trace" (composition of C01_air_quotient_exists and the above) *)
Theorem C01_stark_complete_valid_trace_partial :
  forall (Digest Opening FriProof : Type) (commit : list (list F) -> Digest)
    (open_prove : list (list F) -> list F -> Opening) (open_ok : Digest -> list F -> list (list F) -> Opening -> bool)
    (fri_prove : list F -> list F -> FriProof) (fri_verify : FriProof -> nat -> list F -> list F -> bool)
    (air_eval : F -> list F -> list F -> F) (interp_ce : (F -> F) -> list F)
    (n cols ce_size : nat) (g : F) (ce_coset lde : list F),
  (forall (cs : list (list F)) xs, incl xs lde -> NoDup xs -> xs <> [] -> length xs <= 255 ->
     open_ok (commit cs) xs (map (evals O cs) xs) (open_prove cs xs) = true) ->
  (forall d xs, length d = n -> last d zero = zero -> incl xs lde -> xs <> [] -> length xs <= 255 ->
     fri_verify (fri_prove d xs) (n - 2) xs (map (peval O d) xs) = true) ->
  (forall f Q, length Q <= ce_size -> (forall x, In x ce_coset -> f x = peval O Q x) ->
     interp_ce f = Q ++ repeat zero (ce_size - length Q)) ->
  (forall x, In x ce_coset -> ~ In x (domain O g n)) ->
  forall (dbg : bool) (cP cV : @Coin F) (Ts : list (list F)) (e : nat) (N : list F) (bs : list (list F * list F)),
  primitive_root O g n -> 2 <= n -> 1 <= cols -> n * cols <= ce_size ->
  Ts <> [] -> Forall (fun p => length p = n) Ts -> e <= n ->
  (* all transition constraints hold on the non-exempt steps (N = their random linear combination, as a polynomial) *)
  (forall i, i < n - e -> peval O N (fpow O g i) = zero) ->
  length N - (n - e) <= n * cols ->
  (* every boundary constraint group holds on its steps *)
  Forall (fun br => NoDup (snd br) /\ incl (snd br) (domain O g n) /\
                    (forall r, In r (snd br) -> peval O (fst br) r = zero) /\ length (fst br) - length (snd br) <= n * cols) bs ->
  (* the AIR's evaluation of the honest frame is the combined quotient formula of evaluate_constraints *)
  (forall x, ~ In x (domain O g n) -> air_eval x (evals O Ts x) (evals O Ts (x *f g)) = combined O g n e N bs x) ->
  cV = cP ->
  ~ In (c_z cP) (domain O g n) -> c_z cP <> zero -> c_z cP *f g <> zero -> incl (c_xs cP) lde ->
  NoDup (c_xs cP) -> c_xs cP <> [] -> length (c_xs cP) <= 255 ->
  (forall x, In x (c_xs cP) -> x <> c_z cP /\ x <> c_z cP *f g) ->
  exists pf, prove O Digest Opening FriProof commit open_prove fri_prove air_eval interp_ce (mkParams n g cols false dbg) cP Ts = Done pf /\
             verify O Digest Opening FriProof open_ok fri_verify air_eval (mkParams n g cols false dbg) cV pf = None.
Proof. exact (stark_complete_valid_trace_partial O L). Qed.

(* ---- stage premises discharged from the other properties (Proofs/StarkInst.v) *)
(* C16: zero set of an assertion divisor, in polynomial form *)
Theorem C01_coset_vanishing : forall c h m, primitive_root O h m -> 0 < m -> c <> zero ->
  forall x, pprod O (coset O c h m) x = fpow O x m -f fpow O c m.
Proof. exact (coset_vanishing O L). Qed.

(* C09_interpolate_with_offset_spec ==> interp_complete for interp_ce := fft::interpolate_poly_with_offset over offset*<w> *)
Theorem C01_interp_complete_inst : forall (two_adicity : nat) (itw : list F) (K : nat) (w winv offset : F),
  length itw = 2 ^ K -> S K <= two_adicity -> FFTSpec.root_cond O (S K) w -> w *f winv = one ->
  FFTEval.tw_ok O itw (S K) winv -> offset <> zero -> FFTSpec.two_pow_f O (S K) *f FFTOffset.n_inv O (S K) = one ->
  forall f Q, length Q <= ce_size K -> (forall x, In x (ce_coset O K w offset) -> f x = peval O Q x) ->
  interp_ce O two_adicity itw K w offset f = Q ++ repeat zero (ce_size K - length Q).
Proof. exact (interp_complete_inst O L). Qed.

(* C10_new_ok / C10_build_nodes_spec / C10_batch_complete ==> merkle_complete for the Merkle model of C10 *)
Theorem C01_merkle_complete_inst : forall (D : Type) (D_eqb : D -> D -> bool), (forall a b, D_eqb a b = true <-> a = b) ->
  forall (d0 : D) (merge : D -> D -> D) (hash_row : list F -> D) (lde : list F) (depth : nat),
  1 <= depth <= 62 -> length lde = 2 ^ depth ->
  forall (cs : list (list F)) xs, incl xs lde -> NoDup xs -> xs <> [] -> length xs <= 255 ->
  open_ok O D D_eqb merge hash_row lde (commit O D d0 merge hash_row lde cs) xs (map (evals O cs) xs)
          (open_prove O D d0 merge hash_row lde cs xs) = true.
Proof. exact (merkle_complete_inst O L). Qed.

(* C16_transition_divisor_is_polynomial ==> ConstraintDivisor::from_transition(n, e).evaluate_at(x) is the divisor of quotient_is_poly *)
Theorem C01_transition_divisor_inst : forall g (n e : nat) d x,
  (exists k, (0 <= k)%Z /\ Z.of_nat n = (2 ^ k)%Z) -> (Z.of_nat n < 2 ^ 64)%Z ->
  Enforce.fpow O g (Z.of_nat n) = one -> (forall i, (0 < i < Z.of_nat n)%Z -> Enforce.fpow O g i <> one) ->
  e <= n -> Enforce.from_transition O g (Z.of_nat n) (Z.of_nat e) = Some d ->
  Enforce.eval_exemptions O d x <> zero ->
  Enforce.evaluate_at O d x = pprod O (domain O g (n - e)) x.
Proof. exact (transition_divisor_inst O L). Qed.

Theorem C01_assertion_divisor_inst : forall (n : Z) (m : nat) c h x, (n < 2 ^ 64)%Z -> (Z.of_nat m <= n)%Z ->
  primitive_root O h m -> 0 < m -> c <> zero ->
  Enforce.evaluate_at O (Enforce.mkD [(Z.of_nat m, fpow O c m)] []) x = pprod O (coset O c h m) x.
Proof. exact (assertion_divisor_inst O L). Qed.

(* ---- the capstone with the stages instantiated by the models of C10 (Merkle), C09 (FFT interpolation), C04 (transcript) and
   an ARBITRARY FRI stage: remaining STAGE premise: fri_complete (discharged for the FRI model of C15 in C01_stark_complete below).  Everything else below is a shape fact, a fact about the field's roots of
   unity / twiddles, the validity of the trace, or an assumption on the drawn values. *)
Theorem C01_stark_complete_generic_fri :
  forall (D : Type) (D_eqb : D -> D -> bool), (forall a b, D_eqb a b = true <-> a = b) ->
  forall (d0 : D) (merge : D -> D -> D) (hash_row : list F -> D) (lde : list F) (depth : nat),
  1 <= depth <= 62 -> length lde = 2 ^ depth ->
  forall (two_adicity : nat) (rou : nat -> F) (itw : list F) (K : nat) (w offset : F),
  (* w = get_root_of_unity(log2 ce_size) is a primitive root, itw = fft::get_inv_twiddles(ce_size)  (shape via C09_get_inv_twiddles) *)
  S K <= two_adicity -> rou (S K) = w -> FFTSpec.root_cond O (S K) w ->
  FFT.get_inv_twiddles O two_adicity rou (2 ^ S K) = Some itw ->
  offset <> zero -> FFTSpec.two_pow_f O (S K) *f FFTOffset.n_inv O (S K) = one ->
  forall (FriProof : Type) (fri_prove : list F -> list F -> FriProof) (fri_verify : FriProof -> nat -> list F -> list F -> bool)
    (air_eval : F -> list F -> list F -> F) (sem : list (Transcript.chal * Transcript.cval) -> @Coin F)
    (n cols ce_b : nat) (g : F),
  (* fri_complete (C15) — the one remaining stage premise *)
  (forall d xs, length d = n -> last d zero = zero -> incl xs lde -> xs <> [] -> length xs <= 255 ->
     fri_verify (fri_prove d xs) (n - 2) xs (map (peval O d) xs) = true) ->
  forall (dbg : bool) (s : Transcript.shape) (Ts : list (list F)) (e : nat) (N : list F) (bs : list (list F * list F)),
  let cP := coin_prover sem s in
  let cV := coin_verifier sem s in
  primitive_root O g n -> fpow O offset (2 ^ S K) <> one ->
  2 <= n -> 1 <= cols -> 2 ^ S K = n * ce_b -> cols <= ce_b ->
  Ts <> [] -> Forall (fun p => length p = n) Ts -> e <= n ->
  (forall i, i < n - e -> peval O N (fpow O g i) = zero) ->
  length N - (n - e) <= n * cols ->
  Forall (fun br => NoDup (snd br) /\ incl (snd br) (domain O g n) /\
                    (forall r, In r (snd br) -> peval O (fst br) r = zero) /\ length (fst br) - length (snd br) <= n * cols) bs ->
  (forall x, ~ In x (domain O g n) -> air_eval x (evals O Ts x) (evals O Ts (x *f g)) = combined O g n e N bs x) ->
  ~ In (c_z cP) (domain O g n) -> c_z cP <> zero -> c_z cP *f g <> zero ->
  incl (c_xs cP) lde -> NoDup (c_xs cP) -> c_xs cP <> [] -> length (c_xs cP) <= 255 ->
  (forall x, In x (c_xs cP) -> x <> c_z cP /\ x <> c_z cP *f g) ->
  exists pf,
    prove O D (Opening D) FriProof (commit O D d0 merge hash_row lde) (open_prove O D d0 merge hash_row lde)
          fri_prove air_eval (interp_ce O two_adicity itw K w offset) (mkParams n g cols false dbg) cP Ts = Done pf /\
    verify O D (Opening D) FriProof (open_ok O D D_eqb merge hash_row lde) fri_verify air_eval
           (mkParams n g cols false dbg) cV pf = None.
Proof. exact (stark_complete O L). Qed.

(* C15_fri_complete ==> fri_complete for the FRI prover/verifier of Model/Fri.v (layer trees by the Merkle model of C10) *)
Theorem C01_fri_complete_inst :
  forall (rou : nat -> F) (K : nat), 1 <= K -> (forall k, k < K -> rou (S k) *f rou (S k) = rou k) -> rou 1 = fneg O one ->
  fadd O one one <> zero -> forall gen_offset : F, gen_offset <> zero ->
  forall (dbg : bool) (D : Type) (D_eqb : D -> D -> bool), (forall a b, D_eqb a b = true <-> a = b) ->
  forall (hash_elements : list F -> D) (MT MN : Type) (mt_new : list D -> option MT) (mt_root : MT -> D)
    (mt_prove_batch : MT -> list nat -> option MN) (mt_verify_batch : D -> list nat -> list D -> MN -> nat -> Fri.auth_res)
    (CS : Type) (cs_reseed : CS -> D -> CS) (cs_draw : CS -> CS * Fri.draw_res F),
  (forall leaves d, 1 <= d -> length leaves = 2 ^ d -> exists t, mt_new leaves = Some t) ->
  (forall leaves t d indexes dflt, mt_new leaves = Some t -> length leaves = 2 ^ d -> 1 <= d <= 62 ->
     indexes <> [] -> length indexes <= 255 -> NoDup indexes -> (forall i, In i indexes -> i < length leaves) ->
     exists nodes, mt_prove_batch t indexes = Some nodes /\
       mt_verify_batch (mt_root t) indexes (map (fun i => nth i leaves dflt) indexes) nodes d = Fri.AuthOk) ->
  (forall c, exists c' a, cs_draw c = (c', Fri.DrawOk a)) ->
  forall f b remmax, 1 <= f -> Fri.supported_folding (2 ^ f) = true ->
  forall (a k : nat) (coin0 : CS),
  Fri.num_fri_layers (Fri.mkOpts (2 ^ b) (2 ^ f) remmax) (2 ^ a) = Some k -> k * f < a -> b <= a - k * f -> a <= K -> a <= 62 ->
  forall d xs, length d = 2 ^ (a - b) -> 2 <= 2 ^ (a - b) -> incl xs (lde_of O rou gen_offset a) -> xs <> [] -> length xs <= 255 ->
  fri_verify O rou K gen_offset dbg D D_eqb hash_elements MN mt_verify_batch CS cs_reseed cs_draw f b remmax a coin0
    (fri_prove O rou K gen_offset D hash_elements MT MN mt_new mt_root mt_prove_batch CS cs_reseed cs_draw f b remmax a coin0 d xs)
    (2 ^ (a - b) - 2) xs (map (peval O d) xs) = true.
Proof. exact (fri_complete_inst O L). Qed.

(* ---- THE CAPSTONE, EVERY STAGE INSTANTIATED: Merkle model of C10 (trace / constraint / FRI-layer trees), FFT interpolation of
   C09, symbolic transcript of C04, FRI prover and verifier of C15.  NO stage premise remains.  Premises:
     (field)     rou: the two-adic roots of unity (rou_sq, rou_1), 1+1 <> 0, offset <> 0, offset^(ce size) <> 1, 2^(S kc) invertible,
                 rou (S kc) and g primitive roots of the CE / trace domain, itw = get_inv_twiddles;
     (schedule)  the property's well-formed FRI schedule: k layers of exact folding 2^f, k*f < a, blowup 2^b <= remainder domain;
                 a <= two-adicity, a <= 62;  CE domain = n * ce_b >= n * cols;
     (coin)      draw_total: no draw exhausts its 1000 tries (outside the claim);
     (trace)     all transition / boundary constraints hold (numerators vanish on their steps and fit the columns);
     (z)         z outside the trace domain, z and z*g non-zero, <= 255 distinct query points of the LDE domain, different from z, z*g. *)
Theorem C01_stark_complete :
  forall (D : Type) (D_eqb : D -> D -> bool), (forall a b, D_eqb a b = true <-> a = b) ->
  forall (d0 : D) (merge : D -> D -> D) (hash_elements : list F -> D)
    (rou : nat -> F) (K : nat), 1 <= K -> (forall k, k < K -> rou (S k) *f rou (S k) = rou k) -> rou 1 = fneg O one ->
  fadd O one one <> zero -> forall gen_offset : F, gen_offset <> zero ->
  forall (CS : Type) (cs_reseed : CS -> D -> CS) (cs_draw : CS -> CS * Fri.draw_res F),
  (forall c, exists c' a, cs_draw c = (c', Fri.DrawOk a)) ->
  forall (coin0 : CS) (sem : list (Transcript.chal * Transcript.cval) -> @Coin F) (f b remmax a k : nat),
  1 <= f -> Fri.supported_folding (2 ^ f) = true ->
  Fri.num_fri_layers (Fri.mkOpts (2 ^ b) (2 ^ f) remmax) (2 ^ a) = Some k -> k * f < a -> b <= a - k * f -> a <= K -> a <= 62 ->
  forall (two_adicity : nat) (itw : list F) (kc : nat),
  S kc <= two_adicity -> FFTSpec.root_cond O (S kc) (rou (S kc)) ->
  FFT.get_inv_twiddles O two_adicity rou (2 ^ S kc) = Some itw ->
  FFTSpec.two_pow_f O (S kc) *f FFTOffset.n_inv O (S kc) = one ->
  forall (dbg_fri : bool) (air_eval : F -> list F -> list F -> F) (cols ce_b : nat) (g : F)
    (dbg : bool) (s : Transcript.shape) (Ts : list (list F)) (e : nat) (N : list F) (bs : list (list F * list F)),
  let n := 2 ^ (a - b) in
  let lde := lde_of O rou gen_offset a in
  let cP := coin_prover sem s in
  let cV := coin_verifier sem s in
  primitive_root O g n -> fpow O gen_offset (2 ^ S kc) <> one ->
  2 <= n -> 1 <= cols -> 2 ^ S kc = n * ce_b -> cols <= ce_b ->
  Ts <> [] -> Forall (fun p => length p = n) Ts -> e <= n ->
  (forall i, i < n - e -> peval O N (fpow O g i) = zero) ->
  length N - (n - e) <= n * cols ->
  Forall (fun br => NoDup (snd br) /\ incl (snd br) (domain O g n) /\
                    (forall r, In r (snd br) -> peval O (fst br) r = zero) /\ length (fst br) - length (snd br) <= n * cols) bs ->
  (forall x, ~ In x (domain O g n) -> air_eval x (evals O Ts x) (evals O Ts (x *f g)) = combined O g n e N bs x) ->
  ~ In (c_z cP) (domain O g n) -> c_z cP <> zero -> c_z cP *f g <> zero ->
  incl (c_xs cP) lde -> NoDup (c_xs cP) -> c_xs cP <> [] -> length (c_xs cP) <= 255 ->
  (forall x, In x (c_xs cP) -> x <> c_z cP /\ x <> c_z cP *f g) ->
  exists pf,
    prove O D (Opening D) (FriProof D (list (list D)))
          (commit O D d0 merge hash_elements lde) (open_prove O D d0 merge hash_elements lde)
          (fri_prove O rou K gen_offset D hash_elements (Merkle.mtree D) (list (list D)) (mt_new' D d0 merge) (mt_root' D d0)
                     (mt_prove_batch' D d0) CS cs_reseed cs_draw f b remmax a coin0)
          air_eval (interp_ce O two_adicity itw kc (rou (S kc)) gen_offset) (mkParams n g cols false dbg) cP Ts = Done pf /\
    verify O D (Opening D) (FriProof D (list (list D))) (open_ok O D D_eqb merge hash_elements lde)
           (fri_verify O rou K gen_offset dbg_fri D D_eqb hash_elements (list (list D)) (mt_verify_batch' D D_eqb merge)
                       CS cs_reseed cs_draw f b remmax a coin0)
           air_eval (mkParams n g cols false dbg) cV pf = None.
Proof. exact (stark_complete_all_stages O L). Qed.

(* ---- tie to C20's model of polynom::syn_div_in_place (the DEEP quotients are its outputs) *)
Theorem C01_syn_div_in_place_is_syn1 : forall p z, feqb O z zero = false -> 1 < length p ->
  Polynom.syn_div_in_place O p 1 z = Polynom.Ok (fst (syn1 O p z)).
Proof. exact (syn_div_in_place_is_syn1 O). Qed.
End Statements.

Print Assumptions C01_root_factor.
Print Assumptions C01_vanish_divisible.
Print Assumptions C01_domain_vanishing.
Print Assumptions C01_quotient_is_poly.
Print Assumptions C01_air_quotient_exists.
Print Assumptions C01_ood_equation_holds.
Print Assumptions C01_deep_quotients_are_polys.
Print Assumptions C01_deep_degree_le.
Print Assumptions C01_deep_assert_lax_holds.
Print Assumptions C01_deep_assert_strict_refuted_general.
Print Assumptions C01_query_consistency.
Print Assumptions C01_stark_complete_partial.
Print Assumptions C01_stark_complete_valid_trace_partial.
Print Assumptions C01_coset_vanishing.
Print Assumptions C01_interp_complete_inst.
Print Assumptions C01_merkle_complete_inst.
Print Assumptions C01_transition_divisor_inst.
Print Assumptions C01_assertion_divisor_inst.
Print Assumptions C01_stark_complete_generic_fri.
Print Assumptions C01_fri_complete_inst.
Print Assumptions C01_stark_complete.
Print Assumptions C01_syn_div_in_place_is_syn1.

(* ---- refutation of the snapshot's degree EQUALITY on a concrete valid trace (Z/17, n = 8, one constant column) *)
Theorem C01_deep_degree_eq_refuted :
  exists (n : nat) (g : ZpLaws.Zp 17%Z) (Ts Hs : list (list (ZpLaws.Zp 17%Z))),
    primitive_root O17 g n /\ Forall (fun p => length p = n) Ts /\ Forall (fun p => length p = n) Hs /\
    (forall T, In T Ts -> forall i, peval O17 T (fpow O17 g (S i)) = peval O17 T (fpow O17 g i)) /\
    forall (c : @Coin (ZpLaws.Zp 17%Z)) cur nxt hz,
      degree_of O17 (deep_poly O17 n g c Ts Hs cur nxt hz) < n - 2 /\
      deep_assert O17 true n (deep_poly O17 n g c Ts Hs cur nxt hz) = false /\
      deep_assert O17 false n (deep_poly O17 n g c Ts Hs cur nxt hz) = true.
Proof. exact deep_degree_eq_refuted. Qed.
Print Assumptions C01_deep_degree_eq_refuted.

(* ---- non-vacuity *)
Example C01_quotient_is_poly_nonvacuous :
  peval O17 (roots_poly O17 (domain O17 g17 7)) (fpow O17 g17 7) <> fzero O17 /\
  exists Q, length Q = length (roots_poly O17 (domain O17 g17 7)) - (8 - 1) /\
    (forall x, peval O17 (roots_poly O17 (domain O17 g17 7)) x = fmul O17 (pprod O17 (domain O17 g17 (8 - 1)) x) (peval O17 Q x)) /\
    (forall x, fmul O17 (peval O17 (roots_poly O17 (domain O17 g17 7)) x) (pprod O17 (exempt O17 g17 8 1) x)
               = fmul O17 (fsub O17 (fpow O17 x 8) (fone O17)) (peval O17 Q x)).
Proof. exact quotient_is_poly_nonvacuous. Qed.
Print Assumptions C01_quotient_is_poly_nonvacuous.

Example C01_stark_complete_nonvacuous :
  exists pf,
    prove O17 (list (list (ZpLaws.Zp 17%Z))) unit (list (ZpLaws.Zp 17%Z)) (fun cs => cs) (fun _ _ => tt) (fun d _ => d) air5 (fun _ => repeat (fzero O17) 16)
          (mkParams 8 g17 1 false false) coin5 [T5] = Done pf /\
    verify O17 (list (list (ZpLaws.Zp 17%Z))) unit (list (ZpLaws.Zp 17%Z)) (fun d xs rows _ => lleqb rows (map (evals O17 d) xs))
           (fun pf _ xs evs => leqb evs (map (peval O17 pf) xs)) air5 (mkParams 8 g17 1 false false) coin5 pf = None.
Proof. exact stark_complete_nonvacuous. Qed.
Print Assumptions C01_stark_complete_nonvacuous.

(* C04_transcript_agree ==> the coin the verifier uses is the prover's, for every proof shape and every reading `sem` of the
   labelled challenge list into coin values *)
Theorem C01_transcript_agree_inst : forall (F : Type) (sem : list (Transcript.chal * Transcript.cval) -> @Coin F) s,
  coin_verifier sem s = coin_prover sem s.
Proof. exact @transcript_agree_inst. Qed.
Print Assumptions C01_transcript_agree_inst.

(* non-vacuity of C01_stark_complete: an instance over Z/17 (trace length 2, CE/LDE coset 3*<4>, Merkle model with D = Z,
   FFT interpolation, transcript shape s0, transparent FRI, debug profile) in which every hypothesis holds *)
Example C01_stark_complete_instance :
  exists pf,
    prove O17 Z (Opening Z) (list (ZpLaws.Zp 17%Z)) (commit O17 Z 0%Z Z.add (fun _ => 0%Z) lde4) (open_prove O17 Z 0%Z Z.add (fun _ => 0%Z) lde4)
          (fun d _ => d) air2 (interp_ce O17 4 itw2 1 w4 (e17 3%Z))
          (mkParams 2 g2 1 false true) (coin_prover (fun _ => coin2) TranscriptExamples.s0) [T2] = Done pf /\
    verify O17 Z (Opening Z) (list (ZpLaws.Zp 17%Z)) (open_ok O17 Z Z.eqb Z.add (fun _ => 0%Z) lde4)
           fri_v air2
           (mkParams 2 g2 1 false true) (coin_verifier (fun _ => coin2) TranscriptExamples.s0) pf = None.
Proof. exact stark_complete_instance. Qed.
Print Assumptions C01_stark_complete_instance.

(* non-vacuity of C01_stark_complete (all stages): Z/17, rou = (1,16,4,2,6), LDE = CE = 3*<2> (8 points), n = 4, FRI folding 2
   with one layer and a 4-point remainder, Merkle model with D = Z, debug profile *)
Example C01_stark_complete_all_stages_instance :
  exists pf,
    prove O17 Z (Opening Z) (FriProof Z (list (list Z)))
          (commit O17 Z 0%Z Z.add (fun _ => 0%Z) (lde_of O17 rouF (e17 3%Z) 3)) (open_prove O17 Z 0%Z Z.add (fun _ => 0%Z) (lde_of O17 rouF (e17 3%Z) 3))
          (fri_prove O17 rouF 4 (e17 3%Z) Z (fun _ => 0%Z) (Merkle.mtree Z) (list (list Z)) (mt_new' Z 0%Z Z.add) (mt_root' Z 0%Z)
                     (mt_prove_batch' Z 0%Z) unit (fun c _ => c) draw4 1 1 1 3 tt)
          air4 (interp_ce O17 4 itw8 2 (rouF 3) (e17 3%Z))
          (mkParams (2 ^ (3 - 1)) g4 1 false true) (coin_prover (fun _ => coin4) TranscriptExamples.s0) [T4] = Done pf /\
    verify O17 Z (Opening Z) (FriProof Z (list (list Z))) (open_ok O17 Z Z.eqb Z.add (fun _ => 0%Z) (lde_of O17 rouF (e17 3%Z) 3))
           (fri_verify O17 rouF 4 (e17 3%Z) true Z Z.eqb (fun _ => 0%Z) (list (list Z)) (mt_verify_batch' Z Z.eqb Z.add)
                       unit (fun c _ => c) draw4 1 1 1 3 tt)
           air4 (mkParams (2 ^ (3 - 1)) g4 1 false true) (coin_verifier (fun _ => coin4) TranscriptExamples.s0) pf = None.
Proof. exact stark_complete_all_stages_instance. Qed.
Print Assumptions C01_stark_complete_all_stages_instance.

(* ---- admissibility arithmetic (module Shape of Model/Stark.v; tied to the real constructors by the correspondence) *)
Open Scope Z_scope.
Theorem C01_comp_cols_fit : forall n degs e, 0 < n -> 0 <= Shape.comp_degree n degs e ->
  Shape.comp_degree n degs e < Shape.num_comp_cols n degs e * n /\
  (Shape.num_comp_cols n degs e - 1) * n <= Shape.comp_degree n degs e.
Proof. exact comp_cols_fit. Qed.
Print Assumptions C01_comp_cols_fit.

Theorem C01_comp_cols_le_ce : forall n ce degs e, 0 < n -> 1 <= ce -> Shape.exemptions_ok n ce degs e = true ->
  Shape.num_comp_cols n degs e <= ce.
Proof. exact comp_cols_le_ce. Qed.
Print Assumptions C01_comp_cols_le_ce.

Theorem C01_snapshot_cols_exact : forall n degs e, 0 < n -> 0 <= Shape.comp_degree n degs e ->
  Shape.num_comp_cols_snapshot n degs e =
  Shape.num_comp_cols n degs e - (if (Shape.comp_degree n degs e mod n =? 0) && (0 <? Shape.comp_degree n degs e) then 1 else 0).
Proof. exact snapshot_cols_exact. Qed.
Print Assumptions C01_snapshot_cols_exact.

Theorem C01_snapshot_loss_iff_exemptions_eq_degree : forall n d e, 2 <= n -> 1 <= d <= n -> 1 <= e <= n ->
  (Shape.num_comp_cols_snapshot n [(d, [])] e < Shape.num_comp_cols n [(d, [])] e <-> (e = d /\ 2 <= d)).
Proof. exact snapshot_loss_iff_exemptions_eq_degree. Qed.
Print Assumptions C01_snapshot_loss_iff_exemptions_eq_degree.

(* the snapshot's constructors accept a parameter set whose composition polynomial does not fit its columns *)
Theorem C01_snapshot_cols_refuted :
  exists mw log_n blowup e md,
    Shape.ctx_model mw 0 0 log_n blowup 1 0 true (Some e) md [] <> None /\
    Shape.options_ok 1 blowup 0 2 0 = true /\
    0 < Shape.comp_degree (2 ^ log_n) md e /\
    Shape.num_comp_cols_snapshot (2 ^ log_n) md e * 2 ^ log_n <= Shape.comp_degree (2 ^ log_n) md e.
Proof. exact snapshot_cols_refuted. Qed.
Print Assumptions C01_snapshot_cols_refuted.

Theorem C01_exemptions_bound_no_underflow : forall n degs d, 1 <= n -> In d degs -> Shape.degree_ok d = true ->
  Shape.eval_degree n d <= Shape.ce_blowup degs * n - 1 + n.
Proof. exact exemptions_bound_no_underflow. Qed.
Print Assumptions C01_exemptions_bound_no_underflow.

Theorem C01_default_exemption_ok : forall n degs, 2 <= n -> forallb Shape.degree_ok degs = true ->
  Shape.exemptions_ok n (Shape.ce_blowup degs) degs 1 = true.
Proof. exact default_exemption_ok. Qed.
Print Assumptions C01_default_exemption_ok.

(* the property's FRI well-formedness condition: k exact folds, at least `blowup` rows (one coefficient) remain *)
Theorem C01_fri_wellformed_spec : forall lde blowup fold rem, 2 <= fold -> 0 < blowup ->
  Shape.fri_wellformed lde blowup fold rem = true ->
  exists k rem_size, Shape.num_fri_layers lde blowup fold rem = Some k /\ 0 <= k /\ lde = fold ^ k * rem_size /\
                     rem_size <= (rem + 1) * blowup /\ blowup <= rem_size.
Proof. exact fri_wellformed_spec. Qed.
Print Assumptions C01_fri_wellformed_spec.

Example C01_fri_wellformed_example :
  Shape.fri_wellformed 4096 8 4 31 = true /\ Shape.num_fri_layers 4096 8 4 31 = Some 2 /\
  Shape.fri_wellformed 16 2 16 0 = false /\ Shape.fri_wellformed 64 2 8 0 = false.
Proof. exact fri_wellformed_example. Qed.
Print Assumptions C01_fri_wellformed_example.

(* ---- non-vacuity (shape level) *)
Example C01_comp_cols_example :
  Shape.ctx_model 2 0 0 4 8 1 0 true (Some 5) [(9, []); (3, [4])] [] = Some (16 * 8, 8, 16 * 8, 5) /\
  Shape.exemptions_ok 16 8 [(9, []); (3, [4])] 5 = true /\ Shape.comp_degree 16 [(9, []); (3, [4])] 5 = 124.
Proof. exact comp_cols_example. Qed.
Print Assumptions C01_comp_cols_example.

(* ================================================================================================ *)
(* Round "Lagrange in the model" (Model/StarkLagrange.v, Proofs/StarkLagrangeRows.v, Proofs/StarkLagrange.v).            *)
(* The existing capstone C01_stark_complete is untouched.  C01_stark_complete_lagrange_partial keeps the stages Merkle / FRI /  *)
(* ce-interpolation / point interpolation as premises; C01_stark_complete_lagrange (further below) has them instantiated as   *)
(* C01_stark_complete does (C10, C15, C09, C04) plus C20's interpolate.  Outside the library: the GKR step hands the same rr   *)
(* to both sides.                                                                                                            *)
From VModel Require StarkLagrange EnforceLagrange Composition.
From VProofs Require StarkLagrangeRows StarkLagrange StarkLagrangeExample CompositionLagrangePoly.
Local Open Scope nat_scope.

(* (2) row-to-point translation (C17's gap (i)): for the honest kernel column and ANY interpolant Lp of it over the trace domain,
   C17's hypotheses numer_vanishes and first_cell hold, hence every Lagrange quotient is a polynomial *)
Theorem C01_lagrange_honest_numer_vanishes : forall (F : Type) (O : FOps F), FLaws O -> forall (n v : nat) (g : F), n = 2 ^ v ->
  forall rr : list F, length rr = v -> forall Lp : list F,
  (forall i, i < n -> Composition.peval O Lp (Composition.cpow O g i) = nth i (StarkLagrangeRows.kernel_col O v rr) (fzero O)) ->
  forall idx j, idx < v -> j < 2 ^ idx ->
  Composition.peval O (CompositionLagrangePoly.lag_numer_poly O v g Lp rr idx)
                    (Composition.cpow O (CompositionLagrangePoly.hsub O v g idx) j) = fzero O.
Proof. exact @StarkLagrangeRows.honest_numer_vanishes. Qed.
Print Assumptions C01_lagrange_honest_numer_vanishes.

Theorem C01_lagrange_honest_first_cell : forall (F : Type) (O : FOps F), FLaws O -> forall (n v : nat) (g : F), n = 2 ^ v ->
  forall rr : list F, length rr = v -> forall Lp : list F,
  (forall i, i < n -> Composition.peval O Lp (Composition.cpow O g i) = nth i (StarkLagrangeRows.kernel_col O v rr) (fzero O)) ->
  0 < n -> Composition.peval O Lp (fone O) = EnforceLagrange.lag_assertion_value O rr.
Proof. exact @StarkLagrangeRows.honest_first_cell. Qed.
Print Assumptions C01_lagrange_honest_first_cell.

Theorem C01_lagrange_honest_term_is_poly : forall (F : Type) (O : FOps F), FLaws O -> forall (n v : nat) (g : F), n = 2 ^ v ->
  forall rr : list F, length rr = v -> forall Lp : list F,
  (forall i, i < n -> Composition.peval O Lp (Composition.cpow O g i) = nth i (StarkLagrangeRows.kernel_col O v rr) (fzero O)) ->
  StarkPoly.primitive_root O g n -> forall idx, idx < v ->
  exists q, length q = length Lp - 2 ^ idx /\
    forall x, Composition.peval O (CompositionLagrangePoly.lag_numer_poly O v g Lp rr idx) x
              = fmul O (fsub O (Composition.cpow O x (2 ^ idx)) (fone O)) (Composition.peval O q x).
Proof. exact @StarkLagrangeRows.honest_lagrange_term_is_poly. Qed.
Print Assumptions C01_lagrange_honest_term_is_poly.

(* the DEEP term of the kernel column: (T_l - p_S) = Z_S * quotient; the quotient keeps n coefficients with a zero top one *)
Theorem C01_lagrange_deep_term : forall (F : Type) (O : FOps F) (L : FLaws O) (interp_pts : list F -> list F -> list F),
  (forall xs ys, NoDup xs -> length ys = length xs -> length (interp_pts xs ys) <= length xs /\
     forall m, m < length xs -> peval O (interp_pts xs ys) (nth m xs (fzero O)) = nth m ys (fzero O)) ->
  forall (n v : nat) (g z : F) (Lp : list F), n = 2 ^ v -> StarkPoly.primitive_root O g n -> z <> fzero O -> length Lp = n -> 1 <= v ->
  forall lcc,
  let xs := StarkLagrange.lag_pts O g z v in let lf := StarkLagrange.lag_frame O g v Lp z in
  (forall x, fmul O (pprod O xs x) (peval O (StarkLagrange.deep_lag O interp_pts lcc Lp xs lf) x)
             = fmul O (fsub O (peval O Lp x) (peval O (interp_pts xs lf) x)) lcc) /\
  length (StarkLagrange.deep_lag O interp_pts lcc Lp xs lf) = n /\
  last (StarkLagrange.deep_lag O interp_pts lcc Lp xs lf) (fzero O) = fzero O.
Proof.
  intros F O L ip Hip n v g z Lp Hn Hg Hz HL Hv lcc xs lf. split.
  - intros x. exact (StarkLagrange.deep_lag_eval O L ip Hip n v g z Lp Hn Hg Hz lcc x).
  - exact (StarkLagrange.deep_lag_shape O L ip Hip n v g z Lp Hn Hg Hz HL Hv lcc).
Qed.
Print Assumptions C01_lagrange_deep_term.

(* (3) the capstone with a Lagrange-kernel column, PARTIAL: stage premises = the Section hypotheses of Proofs/StarkLagrange.v
   (merkle_complete, fri_complete, interp_pts_spec, interp_complete, coset_off_domain) *)
Section C01LagrangeCapstone.
  Context {F : Type} (O : FOps F) (L : FLaws O).
  Variables (Digest Opening FriProof : Type).
  Variable commit : list (list F) -> Digest.
  Variable open_prove : list (list F) -> list F -> Opening.
  Variable open_ok : Digest -> list F -> list (list F) -> Opening -> bool.
  Variable fri_prove : list F -> list F -> FriProof.
  Variable fri_verify : FriProof -> nat -> list F -> list F -> bool.
  Variable air_eval : F -> list F -> list F -> F.
  Variable interp_ce : (F -> F) -> list F.
  Variable interp_pts : list F -> list F -> list F.
  Variables (n cols ce_size v : nat) (g : F).
  Variable ce_coset : list F.
  Variable lde : list F.
  (* stage premises (C10 / C15 / C20 / C09 / coset) *)
  Hypothesis merkle_complete : forall (cs : list (list F)) xs, incl xs lde -> NoDup xs -> xs <> [] -> length xs <= 255 ->
    open_ok (commit cs) xs (map (evals O cs) xs) (open_prove cs xs) = true.
  Hypothesis fri_complete : forall d xs, length d = n -> last d (fzero O) = fzero O -> incl xs lde -> xs <> [] -> length xs <= 255 ->
    fri_verify (fri_prove d xs) (n - 2) xs (map (peval O d) xs) = true.
  Hypothesis interp_pts_spec : forall xs ys, NoDup xs -> length ys = length xs ->
    length (interp_pts xs ys) <= length xs /\
    forall m, m < length xs -> peval O (interp_pts xs ys) (nth m xs (fzero O)) = nth m ys (fzero O).
  Hypothesis interp_complete : forall f Q, length Q <= ce_size -> (forall x, In x ce_coset -> f x = peval O Q x) ->
    interp_ce f = Q ++ repeat (fzero O) (ce_size - length Q).
  Hypothesis coset_off_domain : forall x, In x ce_coset -> ~ In x (domain O g n).

  Theorem C01_stark_complete_lagrange_partial : forall (dbg : bool) (lc : @StarkLagrange.LagC F) (cP cV : @Coin F) (lcc : F)
      (Ts : list (list F)) (Lp : list F) (Qc : list F),
    n = 2 ^ v -> 2 <= v -> v < 64 -> StarkPoly.primitive_root O g n -> 1 <= cols -> n * cols <= ce_size ->
    Ts <> [] -> Forall (fun p => length p = n) Ts -> length Lp = n ->
    length Qc <= n * cols ->
    (forall x, ~ In x (domain O g n) -> air_eval x (evals O Ts x) (evals O Ts (fmul O x g)) = peval O Qc x) ->
    length (EnforceLagrange.l_coef (StarkLagrange.lc_t lc)) = v -> length (StarkLagrange.lc_rr lc) = v ->
    length (EnforceLagrange.l_div (StarkLagrange.lc_t lc)) = v ->
    (forall idx, idx < v -> nth idx (EnforceLagrange.l_div (StarkLagrange.lc_t lc)) (Enforce.mkD [] [])
                            = Enforce.mkD [((2 ^ Z.of_nat idx)%Z, fone O)] []) ->
    (forall i, i < n -> peval O Lp (fpow O g i) = nth i (StarkLagrange.kernel_col O (StarkLagrange.lc_rr lc) v) (fzero O)) ->
    cV = cP ->
    ~ In (c_z cP) (domain O g n) -> c_z cP <> fzero O -> fmul O (c_z cP) g <> fzero O ->
    incl (c_xs cP) lde -> NoDup (c_xs cP) -> c_xs cP <> [] -> length (c_xs cP) <= 255 ->
    (forall x, In x (c_xs cP) -> ~ In x (StarkLagrange.lag_pts O g (c_z cP) v)) ->
    exists pf,
      StarkLagrange.prove_lag O interp_pts Digest Opening FriProof commit open_prove fri_prove air_eval interp_ce
        (mkParams n g cols false dbg) v lc cP lcc Ts Lp = Done pf /\
      StarkLagrange.verify_lag O interp_pts Digest Opening FriProof open_ok fri_verify air_eval
        (mkParams n g cols false dbg) v lc cV lcc pf = StarkLagrange.VAccept.
  Proof.
    exact (StarkLagrange.stark_complete_lagrange_partial O L Digest Opening FriProof commit open_prove open_ok fri_prove fri_verify
             air_eval interp_ce interp_pts n cols ce_size v g ce_coset lde merkle_complete fri_complete interp_pts_spec
             interp_complete coset_off_domain).
  Qed.
End C01LagrangeCapstone.
Print Assumptions C01_stark_complete_lagrange_partial.

(* (3') the capstone with a Lagrange-kernel column, ALL stages instantiated (Proofs/StarkLagrangeInst.v): Merkle = Model/Merkle.v
   (C10), ce-interpolation = fft::interpolate_poly_with_offset (C09), FRI = Model/Fri.v (C15), coin = a function of the symbolic
   challenge list (C04), point interpolation = polynom::interpolate(.., true) of Model/Polynom.v (C20, remove_leading_zeros
   included).  NO stage premise.  Premises: those of C01_stark_complete (hashing, field facts, FRI schedule, shape, draw_total, z and
   query points) with "valid trace" = valid ordinary part (quotient Qc) + HONEST kernel column + the shape of
   LagrangeKernelTransitionConstraints::new, trace length n = 2^v with 2 <= v < 64, and the query points are none of the v + 1
   opening points of the kernel column.  Assumption outside the library: the GKR step hands the same lc_rr to both sides. *)
From VModel Require FFT Merkle Transcript Fri.
From VProofs Require FFTSpec FFTOffset StarkInst StarkFri StarkLagrangeInst.
Theorem C01_stark_complete_lagrange : forall (F : Type) (O : FOps F), FLaws O ->
  forall (D : Type) (D_eqb : D -> D -> bool), (forall a b, D_eqb a b = true <-> a = b) ->
  forall (d0 : D) (merge : D -> D -> D) (hash_elements : list F -> D)
    (rou : nat -> F) (K : nat), 1 <= K -> (forall k, k < K -> fmul O (rou (S k)) (rou (S k)) = rou k) -> rou 1 = fneg O (fone O) ->
  fadd O (fone O) (fone O) <> fzero O -> forall gen_offset : F, gen_offset <> fzero O ->
  forall (CS : Type) (cs_reseed : CS -> D -> CS) (cs_draw : CS -> CS * Fri.draw_res F),
  (forall c, exists c' a, cs_draw c = (c', Fri.DrawOk a)) ->
  forall (coin0 : CS) (sem : list (Transcript.chal * Transcript.cval) -> @Coin F) (f b remmax a k : nat),
  1 <= f -> Fri.supported_folding (2 ^ f) = true ->
  Fri.num_fri_layers (Fri.mkOpts (2 ^ b) (2 ^ f) remmax) (2 ^ a) = Some k -> k * f < a -> b <= a - k * f -> a <= K -> a <= 62 ->
  forall (two_adicity : nat) (itw : list F) (kc : nat),
  S kc <= two_adicity -> FFTSpec.root_cond O (S kc) (rou (S kc)) ->
  FFT.get_inv_twiddles O two_adicity rou (2 ^ S kc) = Some itw ->
  fmul O (FFTSpec.two_pow_f O (S kc)) (FFTOffset.n_inv O (S kc)) = fone O ->
  forall (dbg_fri dbg_interp : bool) (air_eval : F -> list F -> list F -> F) (cols ce_b : nat) (g : F)
    (dbg : bool) (s : Transcript.shape) (lc : @StarkLagrange.LagC F) (lcc : F) (Ts : list (list F)) (Lp Qc : list F),
  let v := a - b in
  let n := 2 ^ v in
  let lde := StarkFri.lde_of O rou gen_offset a in
  let cP := StarkInst.coin_prover sem s in
  let cV := StarkInst.coin_verifier sem s in
  StarkPoly.primitive_root O g n -> fpow O gen_offset (2 ^ S kc) <> fone O ->
  2 <= v -> v < 64 -> 1 <= cols -> 2 ^ S kc = n * ce_b -> cols <= ce_b ->
  Ts <> [] -> Forall (fun p => length p = n) Ts -> length Lp = n ->
  length Qc <= n * cols ->
  (forall x, ~ In x (domain O g n) -> air_eval x (evals O Ts x) (evals O Ts (fmul O x g)) = peval O Qc x) ->
  length (EnforceLagrange.l_coef (StarkLagrange.lc_t lc)) = v -> length (StarkLagrange.lc_rr lc) = v ->
  length (EnforceLagrange.l_div (StarkLagrange.lc_t lc)) = v ->
  (forall idx, idx < v -> nth idx (EnforceLagrange.l_div (StarkLagrange.lc_t lc)) (Enforce.mkD [] [])
                          = Enforce.mkD [((2 ^ Z.of_nat idx)%Z, fone O)] []) ->
  (forall i, i < n -> peval O Lp (fpow O g i) = nth i (StarkLagrange.kernel_col O (StarkLagrange.lc_rr lc) v) (fzero O)) ->
  ~ In (c_z cP) (domain O g n) -> c_z cP <> fzero O -> fmul O (c_z cP) g <> fzero O ->
  incl (c_xs cP) lde -> NoDup (c_xs cP) -> c_xs cP <> [] -> length (c_xs cP) <= 255 ->
  (forall x, In x (c_xs cP) -> ~ In x (StarkLagrange.lag_pts O g (c_z cP) v)) ->
  exists pf,
    StarkLagrange.prove_lag O (StarkLagrange.interp_pts_c20 O dbg_interp) D (StarkInst.Opening D) (StarkFri.FriProof D (list (list D)))
      (StarkInst.commit O D d0 merge hash_elements lde) (StarkInst.open_prove O D d0 merge hash_elements lde)
      (StarkFri.fri_prove O rou K gen_offset D hash_elements (Merkle.mtree D) (list (list D)) (StarkFri.mt_new' D d0 merge) (StarkFri.mt_root' D d0)
                 (StarkFri.mt_prove_batch' D d0) CS cs_reseed cs_draw f b remmax a coin0)
      air_eval (StarkInst.interp_ce O two_adicity itw kc (rou (S kc)) gen_offset) (mkParams n g cols false dbg) v lc cP lcc Ts Lp = Done pf /\
    StarkLagrange.verify_lag O (StarkLagrange.interp_pts_c20 O dbg_interp) D (StarkInst.Opening D) (StarkFri.FriProof D (list (list D)))
      (StarkInst.open_ok O D D_eqb merge hash_elements lde)
      (StarkFri.fri_verify O rou K gen_offset dbg_fri D D_eqb hash_elements (list (list D)) (StarkFri.mt_verify_batch' D D_eqb merge)
                  CS cs_reseed cs_draw f b remmax a coin0)
      air_eval (mkParams n g cols false dbg) v lc cV lcc pf = StarkLagrange.VAccept.
Proof. exact @StarkLagrangeInst.stark_complete_lagrange. Qed.
Print Assumptions C01_stark_complete_lagrange.

(* the model's point interpolation IS C20's polynom::interpolate(xs, ys, true) and meets the stage premise interp_pts_spec *)
Theorem C01_interp_pts_inst : forall (F : Type) (O : FOps F), FLaws O -> forall (dbg : bool) (xs ys : list F),
  NoDup xs -> length ys = length xs ->
  length (StarkLagrange.interp_pts_c20 O dbg xs ys) <= length xs /\
  forall m, m < length xs -> peval O (StarkLagrange.interp_pts_c20 O dbg xs ys) (nth m xs (fzero O)) = nth m ys (fzero O).
Proof. exact @StarkLagrangeInst.interp_pts_c20_spec. Qed.
Print Assumptions C01_interp_pts_inst.

(* (5) non-vacuity: Z/17, n = 8, g = 2, r = (2, 3, 5) *)
Example C01_lagrange_honest_nonvacuous :
  (forall idx j, idx < 3 -> j < 2 ^ idx ->
     Composition.peval StarkExamples.O17 (CompositionLagrangePoly.lag_numer_poly StarkExamples.O17 3 StarkExamples.g17 StarkLagrangeExample.Lp17 StarkLagrangeExample.rr17 idx)
       (Composition.cpow StarkExamples.O17 (CompositionLagrangePoly.hsub StarkExamples.O17 3 StarkExamples.g17 idx) j) = fzero StarkExamples.O17) /\
  Composition.peval StarkExamples.O17 StarkLagrangeExample.Lp17 (fone StarkExamples.O17)
    = EnforceLagrange.lag_assertion_value StarkExamples.O17 StarkLagrangeExample.rr17.
Proof. split; [exact (proj1 StarkLagrangeExample.lagrange_honest_nonvacuous) | exact (proj1 (proj2 StarkLagrangeExample.lagrange_honest_nonvacuous))]. Qed.
Print Assumptions C01_lagrange_honest_nonvacuous.

(* the NON-STAGE hypotheses of C01_stark_complete_lagrange(_partial) are jointly satisfiable (Z/17, n = 8, g = 2, constant column T5
   under air5, honest kernel column for r = (2,3,5), z = 6, queries 3, 5), and on that instance the Lagrange part of the composition
   polynomial exists; the stage hypotheses are instantiated in general by C01_stark_complete_lagrange *)
Example C01_stark_complete_lagrange_hyps_nonvacuous :
  8 = 2 ^ 3 /\ 2 <= 3 /\ 3 < 64 /\ StarkPoly.primitive_root StarkExamples.O17 StarkExamples.g17 8 /\ 8 * 1 <= 16 /\
  [StarkExamples.T5] <> [] /\ Forall (fun p : list (ZpLaws.Zp 17%Z) => length p = 8) [StarkExamples.T5] /\ length StarkLagrangeExample.Lp17 = 8 /\
  (forall x, ~ In x (domain StarkExamples.O17 StarkExamples.g17 8) ->
     StarkExamples.air5 x (evals StarkExamples.O17 [StarkExamples.T5] x) (evals StarkExamples.O17 [StarkExamples.T5] (fmul StarkExamples.O17 x StarkExamples.g17))
     = peval StarkExamples.O17 [] x) /\
  length (EnforceLagrange.l_coef (StarkLagrange.lc_t StarkLagrangeExample.lc17)) = 3 /\ length (StarkLagrange.lc_rr StarkLagrangeExample.lc17) = 3 /\
  length (EnforceLagrange.l_div (StarkLagrange.lc_t StarkLagrangeExample.lc17)) = 3 /\
  (forall idx, idx < 3 -> nth idx (EnforceLagrange.l_div (StarkLagrange.lc_t StarkLagrangeExample.lc17)) (Enforce.mkD [] [])
                          = Enforce.mkD [((2 ^ Z.of_nat idx)%Z, fone StarkExamples.O17)] []) /\
  (forall i, i < 8 -> peval StarkExamples.O17 StarkLagrangeExample.Lp17 (fpow StarkExamples.O17 StarkExamples.g17 i)
                      = nth i (StarkLagrange.kernel_col StarkExamples.O17 (StarkLagrange.lc_rr StarkLagrangeExample.lc17) 3) (fzero StarkExamples.O17)) /\
  ~ In (c_z StarkExamples.coin5) (domain StarkExamples.O17 StarkExamples.g17 8) /\ c_z StarkExamples.coin5 <> fzero StarkExamples.O17 /\
  fmul StarkExamples.O17 (c_z StarkExamples.coin5) StarkExamples.g17 <> fzero StarkExamples.O17 /\
  NoDup (c_xs StarkExamples.coin5) /\ c_xs StarkExamples.coin5 <> [] /\ length (c_xs StarkExamples.coin5) <= 255 /\
  (forall x, In x (c_xs StarkExamples.coin5) -> ~ In x (StarkLagrange.lag_pts StarkExamples.O17 StarkExamples.g17 (c_z StarkExamples.coin5) 3)) /\
  exists Ql, length Ql <= 8 /\
    forall x, ~ In x (domain StarkExamples.O17 StarkExamples.g17 8) ->
      StarkLagrange.lag_tot StarkExamples.O17 StarkLagrangeExample.lc17 (StarkLagrange.lag_frame StarkExamples.O17 StarkExamples.g17 3 StarkLagrangeExample.Lp17 x) x
      = peval StarkExamples.O17 Ql x.
Proof. exact StarkLagrangeExample.lagrange_capstone_hyps_nonvacuous. Qed.
Print Assumptions C01_stark_complete_lagrange_hyps_nonvacuous.
