(* C01 — completeness: every valid execution yields a proof that the verifier accepts.
   Only statements, `exact` of lemmas proved in Proofs/Stark*.v, and Print Assumptions.

   FULL property (properties.jsonl C01 / DESIGN.md): for every supported AIR, valid trace, admissible options with a
   well-formed FRI schedule, field, extension and hasher:  prove t = Ok pi /\ verify pi = Ok /\
   verify (from_bytes (to_bytes pi)) = Ok  for the REAL prover/verifier.
   PROVED here (`..._partial`): the statement for the algebraic model of Model/Stark.v with the completeness of the
   Merkle / FRI / interpolation / transcript stages as named hypotheses (they are premises of the theorem below, not
   axioms); every other stage is a theorem for all fields, sizes and coins.  Not covered by any theorem here: the
   byte-level round trip (C12), the coin's 1000-try limit (C19), Lagrange-kernel columns; the real code is tied to
   this model only at the shape level (correspondence) and by the end-to-end falsifier of checks/c01.py. *)
From Coq Require Import List Arith Bool ZArith Lia.
From VBase Require Import FieldOps.
From VModel Require Import Stark.
From VModel Require Polynom.
From VProofs Require Import StarkPoly StarkDeep StarkComplete StarkShape StarkTie StarkExamples.
Import ListNotations.

Section Statements.
Context {F : Type} (O : FOps F) (L : FLaws O).
Local Notation zero := (fzero O).
Local Notation one := (fone O).
Local Notation "a -f b" := (fsub O a b) (at level 50, left associativity).
Local Notation "a *f b" := (fmul O a b) (at level 40, left associativity).

(* ---- polynomial layer *)
Theorem C01_root_factor : forall p a, peval O p a = zero ->
  exists q, length q = length p - 1 /\ forall x, peval O p x = (x -f a) *f peval O q x.
Proof. exact (root_factor O L). Qed.

Theorem C01_vanish_divisible : forall roots p, NoDup roots -> (forall r, In r roots -> peval O p r = zero) ->
  exists q, length q = length p - length roots /\ forall x, peval O p x = pprod O roots x *f peval O q x.
Proof. exact (vanish_divisible O L). Qed.

Theorem C01_domain_vanishing : forall g n, primitive_root O g n -> 0 < n ->
  forall x, pprod O (domain O g n) x = fpow O x n -f one.
Proof. exact (domain_vanishing O L). Qed.

(* ---- constraint quotients are polynomials *)
Theorem C01_quotient_is_poly : forall g n e N, primitive_root O g n -> 0 < n -> e <= n ->
  (forall i, i < n - e -> peval O N (fpow O g i) = zero) ->
  exists Q, length Q = length N - (n - e) /\
    (forall x, peval O N x = pprod O (domain O g (n - e)) x *f peval O Q x) /\
    (forall x, peval O N x *f pprod O (exempt O g n e) x = (fpow O x n -f one) *f peval O Q x).
Proof. exact (quotient_is_poly O L). Qed.

Theorem C01_air_quotient_exists : forall g n e N bs m, primitive_root O g n -> 0 < n -> e <= n ->
  (forall i, i < n - e -> peval O N (fpow O g i) = zero) ->
  length N - (n - e) <= m ->
  Forall (fun br => NoDup (snd br) /\ incl (snd br) (domain O g n) /\
                    (forall r, In r (snd br) -> peval O (fst br) r = zero) /\ length (fst br) - length (snd br) <= m) bs ->
  exists Q, length Q <= m /\ forall x, ~ In x (domain O g n) -> combined O g n e N bs x = peval O Q x.
Proof. exact (air_quotient_exists O L). Qed.

(* ---- the OOD consistency equation is an identity in z *)
Theorem C01_ood_equation_holds : forall n cols (Q : list F) k z, 0 < n -> length Q <= n * cols ->
  ood_lhs O n z 0 (evals O (segment (Q ++ repeat zero k) n cols) z) = peval O Q z.
Proof. exact (ood_equation_holds O L). Qed.

(* ---- DEEP composition *)
Theorem C01_deep_quotients_are_polys : forall T z,
  exists q, length q = length T - 1 /\ forall x, peval O T x -f peval O T z = (x -f z) *f peval O q x.
Proof. exact (deep_quotient_is_poly O L). Qed.

Theorem C01_deep_degree_le : forall n g (c : @Coin F) Ts Hs, 0 < n ->
  Forall (fun p => length p = n) Ts -> Forall (fun p => length p = n) Hs ->
  forall cur nxt hz, degree_of O (deep_poly O n g c Ts Hs cur nxt hz) <= n - 2.
Proof. exact (deep_degree_le O L). Qed.

(* the repaired assertion `assert!(degree <= trace_length - 2)` never fires ... *)
Theorem C01_deep_assert_lax_holds : forall n g (c : @Coin F) Ts Hs, 0 < n ->
  Forall (fun p => length p = n) Ts -> Forall (fun p => length p = n) Hs ->
  forall cur nxt hz, deep_assert O false n (deep_poly O n g c Ts Hs cur nxt hz) = true.
Proof. exact (deep_assert_lax_holds O L). Qed.

(* ... while the snapshot's `assert_eq!(trace_length - 2, degree)` fires for EVERY trace with constant columns and
   constant composition columns, every n >= 3 and every coin *)
Theorem C01_deep_assert_strict_refuted_general : forall n g (c : @Coin F) Ts Hs cur nxt hz, 3 <= n ->
  Forall (tail_zeros O) Ts -> Forall (tail_zeros O) Hs ->
  degree_of O (deep_poly O n g c Ts Hs cur nxt hz) = 0 /\ deep_assert O true n (deep_poly O n g c Ts Hs cur nxt hz) = false.
Proof. exact (deep_assert_strict_fires O L). Qed.

Theorem C01_query_consistency : forall n g (c : @Coin F) Ts Hs, 0 < n -> forall x, x <> c_z c -> x <> c_z c *f g ->
  peval O (deep_poly O n g c Ts Hs (evals O Ts (c_z c)) (evals O Ts (c_z c *f g)) (evals O Hs (c_z c))) x
  = v_deep O g c x (evals O Ts x) (evals O Hs x) (evals O Ts (c_z c)) (evals O Ts (c_z c *f g)) (evals O Hs (c_z c)).
Proof. exact (query_consistency O L). Qed.

(* ---- capstone (partial: stage hypotheses are explicit premises) *)
Theorem C01_stark_complete_partial :
  forall (Digest FriProof : Type) (commit : list (list F) -> Digest) (open_ok : Digest -> F -> list F -> bool)
    (fri_prove : list F -> FriProof) (fri_verify : FriProof -> nat -> list F -> list F -> bool)
    (air_eval : F -> list F -> list F -> F) (interp_ce : (F -> F) -> list F)
    (n cols ce_size : nat) (g : F) (ce_coset lde : list F),
  (* merkle_complete (C10 + C09) *)
  (forall (cs : list (list F)) x, In x lde -> open_ok (commit cs) x (evals O cs x) = true) ->
  (* fri_complete (C15) *)
  (forall d xs, length d = n -> last d zero = zero -> incl xs lde ->
     fri_verify (fri_prove d) (n - 2) xs (map (peval O d) xs) = true) ->
  (* interp_complete (C09) *)
  (forall f Q, length Q <= ce_size -> (forall x, In x ce_coset -> f x = peval O Q x) ->
     interp_ce f = Q ++ repeat zero (ce_size - length Q)) ->
  (* coset_off_domain (C16/C09) *)
  (forall x, In x ce_coset -> ~ In x (domain O g n)) ->
  forall (dbg : bool) (cP cV : @Coin F) (Ts : list (list F)) (Q : list F),
  2 <= n -> 1 <= cols -> n * cols <= ce_size -> Ts <> [] -> Forall (fun p => length p = n) Ts ->
  (* valid trace, through C01_air_quotient_exists and C01_comp_cols_fit *)
  length Q <= n * cols ->
  (forall x, ~ In x (domain O g n) -> air_eval x (evals O Ts x) (evals O Ts (x *f g)) = peval O Q x) ->
  (* transcript_agree (C04) *)
  cV = cP ->
  (* z outside the trace domain, z and z*g non-zero (syn_div_in_place asserts a non-zero divisor point); query points are
     LDE points different from z and z*g  (ASSUMPTION, probability <= 2^-30) *)
  ~ In (c_z cP) (domain O g n) -> c_z cP <> zero -> c_z cP *f g <> zero -> incl (c_xs cP) lde ->
  (forall x, In x (c_xs cP) -> x <> c_z cP /\ x <> c_z cP *f g) ->
  exists pf, prove O Digest FriProof commit fri_prove air_eval interp_ce (mkParams n g cols false dbg) cP Ts = Done pf /\
             verify O Digest FriProof open_ok fri_verify air_eval (mkParams n g cols false dbg) cV pf = None.
Proof. exact (stark_complete_partial O L). Qed.

(* the capstone stated from "all constraints hold on the trace" (composition of C01_air_quotient_exists and the above) *)
Theorem C01_stark_complete_valid_trace_partial :
  forall (Digest FriProof : Type) (commit : list (list F) -> Digest) (open_ok : Digest -> F -> list F -> bool)
    (fri_prove : list F -> FriProof) (fri_verify : FriProof -> nat -> list F -> list F -> bool)
    (air_eval : F -> list F -> list F -> F) (interp_ce : (F -> F) -> list F)
    (n cols ce_size : nat) (g : F) (ce_coset lde : list F),
  (forall (cs : list (list F)) x, In x lde -> open_ok (commit cs) x (evals O cs x) = true) ->
  (forall d xs, length d = n -> last d zero = zero -> incl xs lde ->
     fri_verify (fri_prove d) (n - 2) xs (map (peval O d) xs) = true) ->
  (forall f Q, length Q <= ce_size -> (forall x, In x ce_coset -> f x = peval O Q x) ->
     interp_ce f = Q ++ repeat zero (ce_size - length Q)) ->
  (forall x, In x ce_coset -> ~ In x (domain O g n)) ->
  forall (dbg : bool) (cP cV : @Coin F) (Ts : list (list F)) (e : nat) (N : list F) (bs : list (list F * list F)),
  primitive_root O g n -> 2 <= n -> 1 <= cols -> n * cols <= ce_size ->
  Ts <> [] -> Forall (fun p => length p = n) Ts -> e <= n ->
  (* all transition constraints hold on the non-exempt steps (N = their random linear combination, as a polynomial) *)
  (forall i, i < n - e -> peval O N (fpow O g i) = zero) ->
  length N - (n - e) <= n * cols ->
  (* every boundary constraint group holds on its steps *)
  Forall (fun br => NoDup (snd br) /\ incl (snd br) (domain O g n) /\
                    (forall r, In r (snd br) -> peval O (fst br) r = zero) /\ length (fst br) - length (snd br) <= n * cols) bs ->
  (* the AIR's evaluation of the honest frame is the combined quotient formula of evaluate_constraints *)
  (forall x, ~ In x (domain O g n) -> air_eval x (evals O Ts x) (evals O Ts (x *f g)) = combined O g n e N bs x) ->
  cV = cP ->
  ~ In (c_z cP) (domain O g n) -> c_z cP <> zero -> c_z cP *f g <> zero -> incl (c_xs cP) lde ->
  (forall x, In x (c_xs cP) -> x <> c_z cP /\ x <> c_z cP *f g) ->
  exists pf, prove O Digest FriProof commit fri_prove air_eval interp_ce (mkParams n g cols false dbg) cP Ts = Done pf /\
             verify O Digest FriProof open_ok fri_verify air_eval (mkParams n g cols false dbg) cV pf = None.
Proof. exact (stark_complete_valid_trace_partial O L). Qed.

(* ---- tie to C20's model of polynom::syn_div_in_place (the DEEP quotients are its outputs) *)
Theorem C01_syn_div_in_place_is_syn1 : forall p z, feqb O z zero = false -> 1 < length p ->
  Polynom.syn_div_in_place O p 1 z = Polynom.Ok (fst (syn1 O p z)).
Proof. exact (syn_div_in_place_is_syn1 O). Qed.
End Statements.

Print Assumptions C01_root_factor.
Print Assumptions C01_vanish_divisible.
Print Assumptions C01_domain_vanishing.
Print Assumptions C01_quotient_is_poly.
Print Assumptions C01_air_quotient_exists.
Print Assumptions C01_ood_equation_holds.
Print Assumptions C01_deep_quotients_are_polys.
Print Assumptions C01_deep_degree_le.
Print Assumptions C01_deep_assert_lax_holds.
Print Assumptions C01_deep_assert_strict_refuted_general.
Print Assumptions C01_query_consistency.
Print Assumptions C01_stark_complete_partial.
Print Assumptions C01_stark_complete_valid_trace_partial.
Print Assumptions C01_syn_div_in_place_is_syn1.

(* ---- refutation of the snapshot's degree EQUALITY on a concrete valid trace (Z/17, n = 8, one constant column) *)
Theorem C01_deep_degree_eq_refuted :
  exists (n : nat) (g : ZpLaws.Zp 17%Z) (Ts Hs : list (list (ZpLaws.Zp 17%Z))),
    primitive_root O17 g n /\ Forall (fun p => length p = n) Ts /\ Forall (fun p => length p = n) Hs /\
    (forall T, In T Ts -> forall i, peval O17 T (fpow O17 g (S i)) = peval O17 T (fpow O17 g i)) /\
    forall (c : @Coin (ZpLaws.Zp 17%Z)) cur nxt hz,
      degree_of O17 (deep_poly O17 n g c Ts Hs cur nxt hz) < n - 2 /\
      deep_assert O17 true n (deep_poly O17 n g c Ts Hs cur nxt hz) = false /\
      deep_assert O17 false n (deep_poly O17 n g c Ts Hs cur nxt hz) = true.
Proof. exact deep_degree_eq_refuted. Qed.
Print Assumptions C01_deep_degree_eq_refuted.

(* ---- non-vacuity *)
Example C01_quotient_is_poly_nonvacuous :
  peval O17 (roots_poly O17 (domain O17 g17 7)) (fpow O17 g17 7) <> fzero O17 /\
  exists Q, length Q = length (roots_poly O17 (domain O17 g17 7)) - (8 - 1) /\
    (forall x, peval O17 (roots_poly O17 (domain O17 g17 7)) x = fmul O17 (pprod O17 (domain O17 g17 (8 - 1)) x) (peval O17 Q x)) /\
    (forall x, fmul O17 (peval O17 (roots_poly O17 (domain O17 g17 7)) x) (pprod O17 (exempt O17 g17 8 1) x)
               = fmul O17 (fsub O17 (fpow O17 x 8) (fone O17)) (peval O17 Q x)).
Proof. exact quotient_is_poly_nonvacuous. Qed.
Print Assumptions C01_quotient_is_poly_nonvacuous.

Example C01_stark_complete_nonvacuous :
  exists pf,
    prove O17 (list (list (ZpLaws.Zp 17%Z))) (list (ZpLaws.Zp 17%Z)) (fun cs => cs) (fun d => d) air5 (fun _ => repeat (fzero O17) 16)
          (mkParams 8 g17 1 false false) coin5 [T5] = Done pf /\
    verify O17 (list (list (ZpLaws.Zp 17%Z))) (list (ZpLaws.Zp 17%Z)) (fun d x row => leqb row (evals O17 d x))
           (fun pf _ xs evs => leqb evs (map (peval O17 pf) xs)) air5 (mkParams 8 g17 1 false false) coin5 pf = None.
Proof. exact stark_complete_nonvacuous. Qed.
Print Assumptions C01_stark_complete_nonvacuous.

(* ---- admissibility arithmetic (module Shape of Model/Stark.v; tied to the real constructors by the correspondence) *)
Open Scope Z_scope.
Theorem C01_comp_cols_fit : forall n degs e, 0 < n -> 0 <= Shape.comp_degree n degs e ->
  Shape.comp_degree n degs e < Shape.num_comp_cols n degs e * n /\
  (Shape.num_comp_cols n degs e - 1) * n <= Shape.comp_degree n degs e.
Proof. exact comp_cols_fit. Qed.
Print Assumptions C01_comp_cols_fit.

Theorem C01_comp_cols_le_ce : forall n ce degs e, 0 < n -> 1 <= ce -> Shape.exemptions_ok n ce degs e = true ->
  Shape.num_comp_cols n degs e <= ce.
Proof. exact comp_cols_le_ce. Qed.
Print Assumptions C01_comp_cols_le_ce.

Theorem C01_snapshot_cols_exact : forall n degs e, 0 < n -> 0 <= Shape.comp_degree n degs e ->
  Shape.num_comp_cols_snapshot n degs e =
  Shape.num_comp_cols n degs e - (if (Shape.comp_degree n degs e mod n =? 0) && (0 <? Shape.comp_degree n degs e) then 1 else 0).
Proof. exact snapshot_cols_exact. Qed.
Print Assumptions C01_snapshot_cols_exact.

Theorem C01_snapshot_loss_iff_exemptions_eq_degree : forall n d e, 2 <= n -> 1 <= d <= n -> 1 <= e <= n ->
  (Shape.num_comp_cols_snapshot n [(d, [])] e < Shape.num_comp_cols n [(d, [])] e <-> (e = d /\ 2 <= d)).
Proof. exact snapshot_loss_iff_exemptions_eq_degree. Qed.
Print Assumptions C01_snapshot_loss_iff_exemptions_eq_degree.

(* the snapshot's constructors accept a parameter set whose composition polynomial does not fit its columns *)
Theorem C01_snapshot_cols_refuted :
  exists mw log_n blowup e md,
    Shape.ctx_model mw 0 0 log_n blowup 1 0 true (Some e) md [] <> None /\
    Shape.options_ok 1 blowup 0 2 0 = true /\
    0 < Shape.comp_degree (2 ^ log_n) md e /\
    Shape.num_comp_cols_snapshot (2 ^ log_n) md e * 2 ^ log_n <= Shape.comp_degree (2 ^ log_n) md e.
Proof. exact snapshot_cols_refuted. Qed.
Print Assumptions C01_snapshot_cols_refuted.

Theorem C01_exemptions_bound_no_underflow : forall n degs d, 1 <= n -> In d degs -> Shape.degree_ok d = true ->
  Shape.eval_degree n d <= Shape.ce_blowup degs * n - 1 + n.
Proof. exact exemptions_bound_no_underflow. Qed.
Print Assumptions C01_exemptions_bound_no_underflow.

Theorem C01_default_exemption_ok : forall n degs, 2 <= n -> forallb Shape.degree_ok degs = true ->
  Shape.exemptions_ok n (Shape.ce_blowup degs) degs 1 = true.
Proof. exact default_exemption_ok. Qed.
Print Assumptions C01_default_exemption_ok.

(* the property's FRI well-formedness condition: k exact folds, at least `blowup` rows (one coefficient) remain *)
Theorem C01_fri_wellformed_spec : forall lde blowup fold rem, 2 <= fold -> 0 < blowup ->
  Shape.fri_wellformed lde blowup fold rem = true ->
  exists k rem_size, Shape.num_fri_layers lde blowup fold rem = Some k /\ 0 <= k /\ lde = fold ^ k * rem_size /\
                     rem_size <= (rem + 1) * blowup /\ blowup <= rem_size.
Proof. exact fri_wellformed_spec. Qed.
Print Assumptions C01_fri_wellformed_spec.

Example C01_fri_wellformed_example :
  Shape.fri_wellformed 4096 8 4 31 = true /\ Shape.num_fri_layers 4096 8 4 31 = Some 2 /\
  Shape.fri_wellformed 16 2 16 0 = false /\ Shape.fri_wellformed 64 2 8 0 = false.
Proof. exact fri_wellformed_example. Qed.
Print Assumptions C01_fri_wellformed_example.

(* ---- non-vacuity (shape level) *)
Example C01_comp_cols_example :
  Shape.ctx_model 2 0 0 4 8 1 0 true (Some 5) [(9, []); (3, [4])] [] = Some (16 * 8, 8, 16 * 8, 5) /\
  Shape.exemptions_ok 16 8 [(9, []); (3, [4])] 5 = true /\ Shape.comp_degree 16 [(9, []); (3, [4])] 5 = 124.
Proof. exact comp_cols_example. Qed.
Print Assumptions C01_comp_cols_example.
