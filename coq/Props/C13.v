(* C13 — the streaming byte reader (ReadAdapter) is equivalent to the in-memory reader (SliceReader).
   Only statements, `exact` of lemmas proved in Proofs/ReadAdapter*.v, and Print Assumptions.

   Vocabulary (definitions in Model/ReadAdapter.v and Proofs/ReadAdapter{Sim,Inv,Refine}.v):
     adapter grow dbg : the ReadAdapter state machine; [grow] = Vec growth policy (any function; capacity >= length is kept by
                        construction), [dbg] = debug assertions on/off;  a_init chunks: fresh adapter over a source whose successive
                        reads return [chunks] (an empty chunk = an empty read; afterwards every read is empty)
     slice_reader     : the SliceReader state machine {source, pos};  s_init bytes
     step R utf8 o    : one call (required or provided ByteReader method) on reader R; [utf8] = String::from_utf8 validity oracle
     unread a         : buf[pos..] ++ BufReader buffer ++ concat (remaining chunks)
     sticky chunks    : no empty chunk is followed by data (std::io::Read: an empty read means end of stream)
     agree ops a t    : for every operation in turn: res_match (equal results, or check_eor: adapter Ok / slice Err EOF while no
                        empty read has been observed), the adapter did not abort, and unread (adapter) = source[pos..] (slice),
                        i.e. every byte is consumed exactly once
     op_arg o         : the length argument of read_slice/read_array/read_vec/read_string/check_eor (0 otherwise);
                        the bound B only excludes `pos + n` overflowing usize inside SliceReader::check_eor. *)
From VBase Require Import MachInt.
From VModel Require Import ReadAdapter.
From VProofs Require Import ReadAdapterSim ReadAdapterInv ReadAdapterRefine ReadAdapterCons ReadAdapterCursor.
Local Open Scope nat_scope.

(* Refinement, all 15 operations (read_u8 peek_u8 read_bool read_u16/32/64/128 read_usize read_slice read_array read_vec
   read_string read_many check_eor has_more_bytes), every byte stream, every sticky chunking, every capacity policy, both
   build profiles, every UTF-8 oracle. *)
Theorem C13_adapter_refines_slice : forall grow dbg utf8 chunks ops B,
  sticky chunks -> 16 <= B -> Forall (fun o => op_arg o <= B) ops ->
  (Z.of_nat (length (concat chunks)) + Z.of_nat B < 2 ^ 64)%Z ->
  agree grow dbg utf8 ops (a_init chunks) (s_init (concat chunks)).
Proof. exact adapter_refines_slice. Qed.
Print Assumptions C13_adapter_refines_slice.

(* What [agree] says about check_eor, unfolded: it is never pessimistic. *)
Theorem C13_res_match_never_pessimistic : forall o seen ra rs,
  res_match o seen ra rs -> rs = Ok VUnit -> ra = Ok VUnit.
Proof. exact res_match_never_pessimistic. Qed.
Print Assumptions C13_res_match_never_pessimistic.

(* Without check_eor in the sequence the two output lists are literally equal. *)
Theorem C13_outputs_equal_without_check_eor : forall grow dbg utf8 chunks ops B,
  sticky chunks -> 16 <= B -> Forall (fun o => op_arg o <= B) ops ->
  (Z.of_nat (length (concat chunks)) + Z.of_nat B < 2 ^ 64)%Z ->
  Forall (fun o => is_eor o = false) ops ->
  run (adapter grow dbg) utf8 ops (a_init chunks) = run slice_reader utf8 ops (s_init (concat chunks)).
Proof. exact outputs_equal_without_check_eor. Qed.
Print Assumptions C13_outputs_equal_without_check_eor.

(* no_ub: for EVERY source (also with empty reads before EOF) no call ends in UB (an unsafe copy from a too short source),
   in a panic (slice index, debug_assert, checked subtraction) or in fuel exhaustion of the model's loop. *)
Theorem C13_no_ub : forall grow dbg utf8 chunks ops,
  Forall (fun r => aborts r = false) (run (adapter grow dbg) utf8 ops (a_init chunks)).
Proof. exact adapter_never_aborts. Qed.
Print Assumptions C13_no_ub.

(* The reference: every SliceReader call is the list semantics on source[pos..]. *)
Theorem C13_slice_reader_is_list_semantics : forall utf8 B o t u, 16 <= B -> op_arg o <= B -> slice_rel B t u ->
  fst (step slice_reader utf8 o t) = fst (step spec_reader utf8 o u) /\
  slice_rel B (snd (step slice_reader utf8 o t)) (snd (step spec_reader utf8 o u)).
Proof. exact slice_step_spec. Qed.
Print Assumptions C13_slice_reader_is_list_semantics.

(* Coverage round: the third reader implementation, `impl ByteReader for std::io::Cursor`, as a party of the equivalence.
   cursor_reader: the state machine {buffer, position: u64}; c_init bytes pos = Cursor::new(bytes) after set_position(pos), where
   pos is ANY u64 (also beyond the end of the buffer); cursor_rel t u: u = buf[min(pos, len)..], len and pos are u64 values.
   Every call (check_eor and has_more_bytes included: Cursor's answers are exact) is the list semantics on the unread bytes;
   no bound on the length arguments is needed (there is no `pos + n` that could overflow). *)
Theorem C13_cursor_is_list_semantics : forall utf8 o t u, cursor_rel t u ->
  fst (step cursor_reader utf8 o t) = fst (step spec_reader utf8 o u) /\
  cursor_rel (snd (step cursor_reader utf8 o t)) (snd (step spec_reader utf8 o u)).
Proof. exact cursor_step_spec. Qed.
Print Assumptions C13_cursor_is_list_semantics.

(* Cursor == SliceReader on every operation sequence (all 15 operations): the same values and the same errors at the same
   points, from any start position; the slice reader is given the bytes from that position on.  B as in the first theorem. *)
Theorem C13_cursor_equals_slice_reader : forall utf8 bytes pos ops B,
  16 <= B -> Forall (fun o => op_arg o <= B) ops ->
  (Z.of_nat (length bytes) + Z.of_nat B < 2 ^ 64)%Z -> (Z.of_nat pos < 2 ^ 64)%Z ->
  run cursor_reader utf8 ops (c_init bytes pos) = run slice_reader utf8 ops (s_init (skipn pos bytes)).
Proof. exact cursor_equals_slice. Qed.
Print Assumptions C13_cursor_equals_slice_reader.

Theorem C13_cursor_never_panics : forall utf8 ops bytes pos,
  (Z.of_nat (length bytes) < 2 ^ 64)%Z -> (Z.of_nat pos < 2 ^ 64)%Z ->
  Forall (fun r => aborts r = false) (run cursor_reader utf8 ops (c_init bytes pos)).
Proof. exact cursor_never_aborts. Qed.
Print Assumptions C13_cursor_never_panics.

Example C13_cursor_beyond_end_witness :
  run cursor_reader utf8_valid [HasMore; CheckEor 0; CheckEor 1; PeekU8; ReadU8; ReadSlice 0; ReadSlice 1; ReadArray 0; ReadU16]
      (c_init [1; 2; 3]%Z 7) =
  [Ok (VBool false); Ok VUnit; Err EOF; Err EOF; Err EOF; Ok (VBytes []); Err EOF; Ok (VBytes []); Err EOF].
Proof. exact cursor_beyond_end_example. Qed.
Print Assumptions C13_cursor_beyond_end_witness.

(* Per call, on any adapter state satisfying the invariant (sticky source): the result and the new unread bytes are the list
   semantics of the unread bytes; the invariant is kept. *)
Theorem C13_adapter_step_is_list_semantics : forall grow dbg utf8 o s u, is_eor o = false -> adapter_rel s u ->
  fst (step (adapter grow dbg) utf8 o s) = fst (step spec_reader utf8 o u) /\
  adapter_rel (snd (step (adapter grow dbg) utf8 o s)) (snd (step spec_reader utf8 o u)).
Proof. exact adapter_step_spec. Qed.
Print Assumptions C13_adapter_step_is_list_semantics.

(* check_eor / has_more_bytes never consume, for every source. *)
Theorem C13_queries_do_not_consume : forall s n, wf s ->
  unread (snd (a_eor n s)) = unread s /\ unread (snd (a_more s)) = unread s.
Proof. exact unread_conserved_by_queries. Qed.
Print Assumptions C13_queries_do_not_consume.

(* Each byte is consumed exactly once, for EVERY source (also with empty reads before EOF): a required method removes from
   [unread] exactly the bytes it returns ([delivered]), in order, and nothing when it fails or only looks. *)
Theorem C13_bytes_conserved_any_source : forall grow dbg,
  conserves a_u8 (fun b => [b]) /\ conserves a_peek (fun _ => []) /\
  (forall n, conserves (a_slice grow n) (fun l => l)) /\ (forall n, conserves (a_array grow dbg n) (fun l => l)) /\
  (forall n s, wf s -> unread (snd (a_eor n s)) = unread s) /\ (forall s, wf s -> unread (snd (a_more s)) = unread s).
Proof. exact required_methods_conserve. Qed.
Print Assumptions C13_bytes_conserved_any_source.

(* For EVERY source: whenever a required method of the adapter succeeds, its value and the bytes left are those of the list
   semantics (= SliceReader) on the unread bytes.  Empty reads before EOF can only cause failures (UnexpectedEOF, nothing
   consumed - previous theorem), never a wrong value or a skipped / repeated byte. *)
Theorem C13_ok_results_exact_any_source : forall grow dbg s, wf s ->
  (forall b, fst (a_u8 s) = Ok b -> (Ok b, unread (snd (a_u8 s))) = sp_u8 (unread s)) /\
  (forall b, fst (a_peek s) = Ok b -> (Ok b, unread (snd (a_peek s))) = sp_peek (unread s)) /\
  (forall n l, fst (a_slice grow n s) = Ok l -> (Ok l, unread (snd (a_slice grow n s))) = sp_take n (unread s)) /\
  (forall n l, fst (a_array grow dbg n s) = Ok l -> (Ok l, unread (snd (a_array grow dbg n s))) = sp_take n (unread s)).
Proof. exact ok_results_exact_any_source. Qed.
Print Assumptions C13_ok_results_exact_any_source.

(* ---- non-vacuity and necessity of the side conditions ---- *)
Example C13_hypotheses_satisfiable : sticky ex_chunks /\ 16 <= 16 /\ Forall (fun o => op_arg o <= 16) ex_ops /\
  (Z.of_nat (length (concat ex_chunks)) + Z.of_nat 16 < 2 ^ 64)%Z.
Proof. exact ex_hyps. Qed.
Print Assumptions C13_hypotheses_satisfiable.

Example C13_optimistic_check_eor_witness :
  sticky [[1; 2]%Z] /\
  run (adapter vec_grow true) utf8_valid [CheckEor 5; ReadU8; ReadU8; CheckEor 5] (a_init [[1; 2]%Z]) =
    [Ok VUnit; Ok (VInt 1); Ok (VInt 2); Err EOF] /\
  run slice_reader utf8_valid [CheckEor 5; ReadU8; ReadU8; CheckEor 5] (s_init [1; 2]%Z) =
    [Err EOF; Ok (VInt 1); Ok (VInt 2); Err EOF].
Proof. exact optimistic_witness. Qed.
Print Assumptions C13_optimistic_check_eor_witness.

Example C13_empty_read_is_eof_witness :
  ~ sticky [[1]; []; [2]]%Z /\
  run (adapter vec_grow true) utf8_valid [ReadSlice 2; ReadSlice 2] (a_init [[1]; []; [2]]%Z) =
    [Err EOF; Ok (VBytes [1; 2]%Z)] /\
  run slice_reader utf8_valid [ReadSlice 2; ReadSlice 2] (s_init [1; 2]%Z) = [Ok (VBytes [1; 2]%Z); Err EOF].
Proof. exact empty_read_is_eof_witness. Qed.
Print Assumptions C13_empty_read_is_eof_witness.
