(* C11 — hash functions implement their specification on every input.
   Only statements, `exact` of lemmas proved in Proofs/Rescue*.v, and Print Assumptions.
   Models: VModel.Rescue (value level: canonical residues; `None` = Rust panic), VModel.ByteHash (BLAKE3/SHA3 wrappers, the
   primitive is a Section variable), VGen.Mds12 / VGen.Mds8 (rs2v translation of the frequency-domain MDS code),
   VModel.RescueConsts (constant tables read from the sources on every run). *)
From VBase Require Import MachInt.
From VGen Require Import Mds12 Mds8.
From VModel Require Import RescueConsts Rescue ByteHash.
From VGen Require Import F64.
From VGen Require F62.
From VProofs Require F62Ops.
From VProofs Require Import F64Red F64Ops RescueSponge RescueSbox RescueMds RescueRaw RescueRawSponge RescueExamples.
Open Scope Z_scope.

(* ===== (a) frequency-domain MDS fast path ============================================================================
   mds_freq_exact: for limbs in [0, 2^32] (mds_multiply passes the 32-bit halves of the state words) the generated
   `mds_multiply_freq` returns the INTEGER circulant matrix-vector product and every checked i64/u64 operation is in
   range (`_ok = true`: no overflow panic in debug, no wrap in release). *)
Theorem C11_mds12_freq_exact : forall s0 s1 s2 s3 s4 s5 s6 s7 s8 s9 s10 s11,
  L32 s0 -> L32 s1 -> L32 s2 -> L32 s3 -> L32 s4 -> L32 s5 -> L32 s6 -> L32 s7 -> L32 s8 -> L32 s9 -> L32 s10 -> L32 s11 ->
  mds12_mds_multiply_freq (s0, s1, s2, s3, s4, s5, s6, s7, s8, s9, s10, s11) =
    (7 * s0 + 23 * s1 + 8 * s2 + 26 * s3 + 13 * s4 + 10 * s5 + 9 * s6 + 7 * s7 + 6 * s8 + 22 * s9 + 21 * s10 + 8 * s11,
     8 * s0 + 7 * s1 + 23 * s2 + 8 * s3 + 26 * s4 + 13 * s5 + 10 * s6 + 9 * s7 + 7 * s8 + 6 * s9 + 22 * s10 + 21 * s11,
     21 * s0 + 8 * s1 + 7 * s2 + 23 * s3 + 8 * s4 + 26 * s5 + 13 * s6 + 10 * s7 + 9 * s8 + 7 * s9 + 6 * s10 + 22 * s11,
     22 * s0 + 21 * s1 + 8 * s2 + 7 * s3 + 23 * s4 + 8 * s5 + 26 * s6 + 13 * s7 + 10 * s8 + 9 * s9 + 7 * s10 + 6 * s11,
     6 * s0 + 22 * s1 + 21 * s2 + 8 * s3 + 7 * s4 + 23 * s5 + 8 * s6 + 26 * s7 + 13 * s8 + 10 * s9 + 9 * s10 + 7 * s11,
     7 * s0 + 6 * s1 + 22 * s2 + 21 * s3 + 8 * s4 + 7 * s5 + 23 * s6 + 8 * s7 + 26 * s8 + 13 * s9 + 10 * s10 + 9 * s11,
     9 * s0 + 7 * s1 + 6 * s2 + 22 * s3 + 21 * s4 + 8 * s5 + 7 * s6 + 23 * s7 + 8 * s8 + 26 * s9 + 13 * s10 + 10 * s11,
     10 * s0 + 9 * s1 + 7 * s2 + 6 * s3 + 22 * s4 + 21 * s5 + 8 * s6 + 7 * s7 + 23 * s8 + 8 * s9 + 26 * s10 + 13 * s11,
     13 * s0 + 10 * s1 + 9 * s2 + 7 * s3 + 6 * s4 + 22 * s5 + 21 * s6 + 8 * s7 + 7 * s8 + 23 * s9 + 8 * s10 + 26 * s11,
     26 * s0 + 13 * s1 + 10 * s2 + 9 * s3 + 7 * s4 + 6 * s5 + 22 * s6 + 21 * s7 + 8 * s8 + 7 * s9 + 23 * s10 + 8 * s11,
     8 * s0 + 26 * s1 + 13 * s2 + 10 * s3 + 9 * s4 + 7 * s5 + 6 * s6 + 22 * s7 + 21 * s8 + 8 * s9 + 7 * s10 + 23 * s11,
     23 * s0 + 8 * s1 + 26 * s2 + 13 * s3 + 10 * s4 + 9 * s5 + 7 * s6 + 6 * s7 + 22 * s8 + 21 * s9 + 8 * s10 + 7 * s11)
  /\ mds12_mds_multiply_freq_ok (s0, s1, s2, s3, s4, s5, s6, s7, s8, s9, s10, s11) = true.
Proof. exact freq12_exact. Qed.
Print Assumptions C11_mds12_freq_exact.

Theorem C11_mds8_freq_exact : forall s0 s1 s2 s3 s4 s5 s6 s7,
  L32 s0 -> L32 s1 -> L32 s2 -> L32 s3 -> L32 s4 -> L32 s5 -> L32 s6 -> L32 s7 ->
  mds8_mds_multiply_freq (s0, s1, s2, s3, s4, s5, s6, s7) =
    (23 * s0 + 8 * s1 + 13 * s2 + 10 * s3 + 7 * s4 + 6 * s5 + 21 * s6 + 8 * s7,
     8 * s0 + 23 * s1 + 8 * s2 + 13 * s3 + 10 * s4 + 7 * s5 + 6 * s6 + 21 * s7,
     21 * s0 + 8 * s1 + 23 * s2 + 8 * s3 + 13 * s4 + 10 * s5 + 7 * s6 + 6 * s7,
     6 * s0 + 21 * s1 + 8 * s2 + 23 * s3 + 8 * s4 + 13 * s5 + 10 * s6 + 7 * s7,
     7 * s0 + 6 * s1 + 21 * s2 + 8 * s3 + 23 * s4 + 8 * s5 + 13 * s6 + 10 * s7,
     10 * s0 + 7 * s1 + 6 * s2 + 21 * s3 + 8 * s4 + 23 * s5 + 8 * s6 + 13 * s7,
     13 * s0 + 10 * s1 + 7 * s2 + 6 * s3 + 21 * s4 + 8 * s5 + 23 * s6 + 8 * s7,
     8 * s0 + 13 * s1 + 10 * s2 + 7 * s3 + 6 * s4 + 21 * s5 + 8 * s6 + 23 * s7)
  /\ mds8_mds_multiply_freq_ok (s0, s1, s2, s3, s4, s5, s6, s7) = true.
Proof. exact freq8_exact. Qed.
Print Assumptions C11_mds8_freq_exact.

Example C11_mds_freq_nonvacuous : L32 0 /\ L32 (2 ^ 32 - 1) /\ L32 (2 ^ 32) /\ word 0 /\ word (2 ^ 64 - 1) /\ word (M64 - 1).
Proof. exact ex_limbs. Qed.
Example C11_mds_freq_extreme_limbs :
  mds12_freq_list (repeat (2 ^ 32) 12) = repeat (160 * 2 ^ 32) 12 /\ mds12_freq_list_ok (repeat (2 ^ 32) 12) = true /\
  mds8_freq_list (repeat (2 ^ 32) 8) = repeat (96 * 2 ^ 32) 8 /\ mds8_freq_list_ok (repeat (2 ^ 32) 8) = true.
Proof. exact ex_freq_extreme. Qed.

(* the u128 recombination + reduction of mds_multiply (REPAIRED code: final conditional subtraction) *)
Theorem C11_mds_fold : forall l h, 0 <= l < 2 ^ 41 -> 0 <= h < 2 ^ 41 ->
  mds_fold l h = (l + h * 2 ^ 32) mod M64 /\ mds_fold_ok l h = true.
Proof. exact mds_fold_spec. Qed.
Print Assumptions C11_mds_fold.

(* mds_multiply on ANY state of u64 internal words = MDS * state mod M with the published MDS table, canonical (< M),
   no checked operation out of range *)
Theorem C11_mds12_multiply : forall st, length st = 12%nat -> Forall word st ->
  mds12_multiply st = mat_vec M64 rp64_MDS st /\ mds12_multiply_ok st = true /\ Forall (fun w => 0 <= w < M64) (mds12_multiply st).
Proof. exact mds12_multiply_list. Qed.
Print Assumptions C11_mds12_multiply.
Theorem C11_mds8_multiply : forall st, length st = 8%nat -> Forall word st ->
  mds8_multiply st = mat_vec M64 jive_MDS st /\ mds8_multiply_ok st = true /\ Forall (fun w => 0 <= w < M64) (mds8_multiply st).
Proof. exact mds8_multiply_list. Qed.
Print Assumptions C11_mds8_multiply.

(* mds_multiply_repr for the code BEFORE the repair (no final subtraction) is refuted: the folded word can be >= M
   (defect C11-F2, fixed in /repo; replay: from_mont([(M+1)/7, 0, ..]) -> internal word 0xffffffff00000002) *)
Theorem C11_mds_fold_unrepaired_refuted : exists l h, 0 <= l < 2 ^ 41 /\ 0 <= h < 2 ^ 41 /\ M64 <= mds_fold_unrepaired l h.
Proof. exact mds_fold_unrepaired_refuted. Qed.
Print Assumptions C11_mds_fold_unrepaired_refuted.
Example C11_mds_multiply_canonical_on_witness : nth 0 (mds12_multiply ((M64 + 1) / 7 :: repeat 0 11)) 0 = 1.
Proof. exact ex_mds_canonical. Qed.

(* ===== (b) S-boxes =================================================================================================== *)
(* the addition chains of apply_inv_sbox compute x^INV_ALPHA; exp7 / cube compute x^ALPHA *)
Theorem C11_inv_sbox64_pow : forall p, 1 < p -> forall x, inv_sbox64 p x = x ^ 10540996611094048183 mod p.
Proof. exact inv_sbox64_pow. Qed.
Print Assumptions C11_inv_sbox64_pow.
Theorem C11_inv_sbox62_pow : forall p, 1 < p -> forall x, inv_sbox62 p x = x ^ 3074416663688030891 mod p.
Proof. exact inv_sbox62_pow. Qed.
Print Assumptions C11_inv_sbox62_pow.
Theorem C11_alpha_inverse :
  (rp64_ALPHA * rp64_INV_ALPHA = 1 + 4 * (M64 - 1) /\ rp64_ALPHA = 7 /\ rp64_INV_ALPHA = 10540996611094048183 /\
   jive_ALPHA = 7 /\ jive_INV_ALPHA = 10540996611094048183) /\
  (rp62_ALPHA * rp62_INV_ALPHA = 1 + 2 * (M62 - 1) /\ rp62_ALPHA = 3 /\ rp62_INV_ALPHA = 3074416663688030891).
Proof. exact (conj alpha64_inverse alpha62_inverse). Qed.
Print Assumptions C11_alpha_inverse.

(* inv_sbox_spec / sbox_inv_sbox: for EVERY residue (Fermat + primality of the moduli) *)
Theorem C11_inv_sbox_spec_64 : forall x, 0 <= x < M64 -> exp7 M64 (inv_sbox64 M64 x) = x.
Proof. exact inv_sbox_spec_64. Qed.
Print Assumptions C11_inv_sbox_spec_64.
Theorem C11_sbox_inv_sbox_64 : forall x, 0 <= x < M64 -> inv_sbox64 M64 (exp7 M64 x) = x.
Proof. exact sbox_inv_sbox_64. Qed.
Print Assumptions C11_sbox_inv_sbox_64.
Theorem C11_inv_sbox_spec_62 : forall x, 0 <= x < M62 -> cube M62 (inv_sbox62 M62 x) = x.
Proof. exact inv_sbox_spec_62. Qed.
Print Assumptions C11_inv_sbox_spec_62.
Theorem C11_sbox_inv_sbox_62 : forall x, 0 <= x < M62 -> inv_sbox62 M62 (cube M62 x) = x.
Proof. exact sbox_inv_sbox_62. Qed.
Print Assumptions C11_sbox_inv_sbox_62.
Example C11_sbox_nonvacuous : exp7 M64 (inv_sbox64 M64 (M64 - 1)) = M64 - 1 /\ exp7 M64 (inv_sbox64 M64 0) = 0 /\ cube M62 (inv_sbox62 M62 5) = 5.
Proof. exact ex_sbox. Qed.

(* ===== (c) constant tables =========================================================================================== *)
Theorem C11_inv_mds_spec_rp64 : mat_mul M64 rp64_INV_MDS rp64_MDS = identity 12 /\ mat_mul M64 rp64_MDS rp64_INV_MDS = identity 12.
Proof. exact inv_mds_spec_rp64. Qed.
Print Assumptions C11_inv_mds_spec_rp64.
Theorem C11_inv_mds_spec_jive : mat_mul M64 jive_INV_MDS jive_MDS = identity 8 /\ mat_mul M64 jive_MDS jive_INV_MDS = identity 8.
Proof. exact inv_mds_spec_jive. Qed.
Print Assumptions C11_inv_mds_spec_jive.
Theorem C11_mds_circulant :
  rp64_MDS = circulant [7; 23; 8; 26; 13; 10; 9; 7; 6; 22; 21; 8] /\ jive_MDS = circulant [23; 8; 13; 10; 7; 6; 21; 8].
Proof. exact mds_circulant. Qed.
Print Assumptions C11_mds_circulant.
Theorem C11_tables_wellformed :
  table_ok M64 12 12 rp64_MDS = true /\ table_ok M64 12 12 rp64_INV_MDS = true /\ table_ok M64 7 12 rp64_ARK1 = true /\ table_ok M64 7 12 rp64_ARK2 = true /\
  table_ok M62 12 12 rp62_MDS = true /\ table_ok M62 7 12 rp62_ARK1 = true /\ table_ok M62 7 12 rp62_ARK2 = true /\
  table_ok M64 8 8 jive_MDS = true /\ table_ok M64 8 8 jive_INV_MDS = true /\ table_ok M64 7 8 jive_ARK1 = true /\ table_ok M64 7 8 jive_ARK2 = true.
Proof. exact tables_wellformed. Qed.
Print Assumptions C11_tables_wellformed.

(* ===== (d) permutation_spec: apply_permutation = 7 textbook rounds (x^ALPHA, MDS product, ARK1, x^INV_ALPHA, MDS product,
   ARK2) with the published constants, for EVERY state *)
Theorem C11_permutation_spec_rp64 : forall s,
  rp64_permutation s = textbook_permutation M64 rp64_ALPHA rp64_INV_ALPHA rp64_MDS rp64_ARK1 rp64_ARK2 s.
Proof. exact permutation_spec_rp64. Qed.
Print Assumptions C11_permutation_spec_rp64.
Theorem C11_permutation_spec_rp62 : forall s,
  rp62_permutation s = textbook_permutation M62 rp62_ALPHA rp62_INV_ALPHA rp62_MDS rp62_ARK1 rp62_ARK2 s.
Proof. exact permutation_spec_rp62. Qed.
Print Assumptions C11_permutation_spec_rp62.
Theorem C11_permutation_spec_jive : forall s,
  jive_permutation s = textbook_permutation M64 jive_ALPHA jive_INV_ALPHA jive_MDS jive_ARK1 jive_ARK2 s.
Proof. exact permutation_spec_jive. Qed.
Print Assumptions C11_permutation_spec_jive.
(* raw level: the permutation as the implementation computes it on internal (Montgomery) words -- rs2v-generated f64_mul /
   f64_add / f64_exp7 / f64_new (C07) and the frequency-domain mds_multiply (above) -- returns canonical words whose
   residues (`val`, = as_int by C07_f64_as_int) are the value-level permutation of the input residues, for EVERY state *)
Theorem C11_raw_permutation_spec_rp64 : forall ws, length ws = 12%nat -> Forall repr ws ->
  Forall repr (rp64_raw_permutation ws) /\ map val (rp64_raw_permutation ws) = rp64_permutation (map val ws).
Proof. exact rp64_raw_permutation_spec. Qed.
Print Assumptions C11_raw_permutation_spec_rp64.
Theorem C11_raw_permutation_spec_jive : forall ws, length ws = 8%nat -> Forall repr ws ->
  Forall repr (jive_raw_permutation ws) /\ map val (jive_raw_permutation ws) = jive_permutation (map val ws).
Proof. exact jive_raw_permutation_spec. Qed.
Print Assumptions C11_raw_permutation_spec_jive.
Example C11_raw_permutation_nonvacuous : Forall repr (repeat (M - 1) 12) /\ Forall repr [0; 1; 2; 3; 4; 5; 6; 7].
Proof. exact ex_raw_nonvacuous. Qed.
(* Rp62_248 at the raw level: f62 internal words are LAZY Montgomery words in [0, 2M) (repr62; two words per residue, C07_f62);
   the plain-code permutation (cube, `*r += m * s` MDS loop, addition-chain inverse S-box, constants = new(c)) on such words
   returns words in [0, 2M) whose residues (val62 = as_int, C07_f62_as_int) are the value-level permutation *)
Theorem C11_raw_permutation_spec_rp62 : forall ws, length ws = 12%nat -> Forall F62Ops.repr62 ws ->
  Forall F62Ops.repr62 (rp62_raw_permutation ws) /\
  map F62Ops.val62 (rp62_raw_permutation ws) = rp62_permutation (map F62Ops.val62 ws).
Proof. exact rp62_raw_permutation_spec. Qed.
Print Assumptions C11_raw_permutation_spec_rp62.

(* ===== (d') raw sponges: hash / hash_elements / merge / merge_with_int as executed on internal words ===================
   R w v   :=  repr w   /\ val w = v      (f64: canonical Montgomery word w < M denoting the residue v)
   R62 w v :=  repr62 w /\ val62 w = v    (f62: lazy Montgomery word w < 2M denoting the residue v)
   RLL Rel :=  Forall2 (Forall2 Rel)       (lists of extension elements given by their coefficient lists)
   The raw models (Model/Rescue.v, Section Generic instantiated with the rs2v-generated f64_* / f62_* operations and the raw
   permutations) are related to the value-level models of section (e): outputs are valid internal words denoting exactly
   the value-level digest.  Lengths are bounded by 2^64 (`len as u64`). *)
Theorem C11_raw_hash_elements_spec_rp64 : forall xs vs, RLL R xs vs -> Z.of_nat (length (flatten xs)) < 2 ^ 64 ->
  Forall2 R (rp64_raw_hash_elements xs) (rp64_hash_elements vs).
Proof. exact rp64_raw_hash_elements_spec. Qed.
Print Assumptions C11_raw_hash_elements_spec_rp64.
Theorem C11_raw_hash_spec_rp64 : forall b, bytes b -> Z.of_nat (length b) < 2 ^ 64 ->
  exists r v, rp64_raw_hash b = Some r /\ rp64_hash b = Some v /\ Forall2 R r v.
Proof. exact rp64_raw_hash_spec. Qed.
Print Assumptions C11_raw_hash_spec_rp64.
Theorem C11_raw_merge_spec_rp64 : forall a va b vb, Forall2 R a va -> Forall2 R b vb ->
  Forall2 R (rp64_raw_merge a b) (rp64_merge va vb).
Proof. exact rp64_raw_merge_spec. Qed.
Print Assumptions C11_raw_merge_spec_rp64.
Theorem C11_raw_merge_with_int_spec_rp64 : forall seed vseed v, Forall2 R seed vseed -> 0 <= v < 2 ^ 64 ->
  Forall2 R (rp64_raw_merge_with_int seed v) (rp64_merge_with_int vseed v).
Proof. exact rp64_raw_merge_with_int_spec. Qed.
Print Assumptions C11_raw_merge_with_int_spec_rp64.

Theorem C11_raw_hash_elements_spec_jive : forall xs vs, RLL R xs vs ->
  Forall2 R (jive_raw_hash_elements xs) (jive_hash_elements vs).
Proof. exact jive_raw_hash_elements_spec. Qed.
Print Assumptions C11_raw_hash_elements_spec_jive.
Theorem C11_raw_hash_spec_jive : forall b, bytes b -> Z.of_nat (length b) < 2 ^ 64 ->
  exists r v, jive_raw_hash b = Some r /\ jive_hash b = Some v /\ Forall2 R r v.
Proof. exact jive_raw_hash_spec. Qed.
Print Assumptions C11_raw_hash_spec_jive.
Theorem C11_raw_merge_spec_jive : forall a va b vb, Forall2 R a va -> Forall2 R b vb -> length a = 4%nat -> length b = 4%nat ->
  Forall2 R (jive_raw_merge a b) (jive_merge va vb).
Proof. exact jive_raw_merge_spec. Qed.
Print Assumptions C11_raw_merge_spec_jive.
Theorem C11_raw_merge_with_int_spec_jive : forall seed vseed v, Forall2 R seed vseed -> 0 <= v < 2 ^ 64 ->
  Forall2 R (jive_raw_merge_with_int seed v) (jive_merge_with_int vseed v).
Proof. exact jive_raw_merge_with_int_spec. Qed.
Print Assumptions C11_raw_merge_with_int_spec_jive.

Theorem C11_raw_hash_elements_spec_rp62 : forall xs vs, RLL R62 xs vs -> Z.of_nat (length (flatten xs)) < 2 ^ 64 ->
  Forall2 R62 (rp62_raw_hash_elements xs) (rp62_hash_elements vs).
Proof. exact rp62_raw_hash_elements_spec. Qed.
Print Assumptions C11_raw_hash_elements_spec_rp62.
Theorem C11_raw_hash_spec_rp62 : forall b, bytes b -> Z.of_nat (length b) < 2 ^ 64 ->
  exists r v, rp62_raw_hash b = Some r /\ rp62_hash b = Some v /\ Forall2 R62 r v.
Proof. exact rp62_raw_hash_spec. Qed.
Print Assumptions C11_raw_hash_spec_rp62.
Theorem C11_raw_merge_spec_rp62 : forall a va b vb, Forall2 R62 a va -> Forall2 R62 b vb ->
  Forall2 R62 (rp62_raw_merge a b) (rp62_merge va vb).
Proof. exact rp62_raw_merge_spec. Qed.
Print Assumptions C11_raw_merge_spec_rp62.
Theorem C11_raw_merge_with_int_spec_rp62 : forall seed vseed v, Forall2 R62 seed vseed -> 0 <= v < 2 ^ 64 ->
  Forall2 R62 (rp62_raw_merge_with_int seed v) (rp62_merge_with_int vseed v).
Proof. exact rp62_raw_merge_with_int_spec. Qed.
Print Assumptions C11_raw_merge_with_int_spec_rp62.

(* what the digest BYTES are: Digest::as_bytes writes as_int() of each of the 4 words (and `==` compares residues).
   f64: the words are canonical and as_int = the value-level digest; f62: the words are only in [0, 2M) -- the same
   digest can have different internal words -- but as_int (which normalises) = the value-level digest, canonical. *)
Theorem C11_digest_as_int_f64 : forall ws vs, Forall2 R ws vs -> map f64_as_int ws = vs /\ Forall (fun w => 0 <= w < M64) ws.
Proof. exact R_as_int. Qed.
Print Assumptions C11_digest_as_int_f64.
Theorem C11_digest_as_int_f62 : forall ws vs, Forall2 R62 ws vs -> map F62.f62_as_int ws = vs /\ Forall (fun v => 0 <= v < M62) vs.
Proof. exact R62_as_int. Qed.
Print Assumptions C11_digest_as_int_f62.
Example C11_raw_sponge_nonvacuous : R62 0 0 /\ R62 M62 0 /\ Forall2 R62 [1; M62 + 1] [F62Ops.val62 1; F62Ops.val62 1].
Proof. exact ex_R62_nonvacuous. Qed.
Example C11_raw_new_related : forall v, 0 <= v < 2 ^ 64 -> R (f64_new v) (v mod M64) /\ R62 (F62.f62_new v) (v mod M62).
Proof. exact (fun v H => conj (R_new v H) (R62_new v H)). Qed.

(* round constants: RpJive64_256's ARK1/ARK2 are re-derived on every run from the Rescue-Prime generation procedure
   (SHAKE256("Rescue-XLIX(p,8,4,128)"), checks/c11.py obligation ark:jive-rederived-..., outside Coq); the ARK tables of Rp64_256
   and Rp62_248 are not reproduced by that procedure: they are read from the source on every run and pinned only by the
   known-answer Examples C11_hash_values / C11_hash_pins (digests of [0xAB; 70], replayed from the implementation). *)

(* ===== (e) sponges and encodings ===================================================================================== *)
(* hash_total: hashing a byte string never panics, whatever its length (0, multiples of 7, of the rate, long).
   The code before the repair panicked for every length > 56 that is not a multiple of 7 (defect C11-F1, fixed in /repo) *)
Theorem C11_hash_total : forall b, bytes b -> rp64_hash b <> None /\ rp62_hash b <> None /\ jive_hash b <> None.
Proof. exact (fun b H => conj (hash_total_rp64 b H) (conj (hash_total_rp62 b H) (hash_total_jive b H))). Qed.
Print Assumptions C11_hash_total.
(* the loop before the repair (in-block index instead of the global chunk index): hash_total is refuted *)
Theorem C11_hash_total_unrepaired_refuted : exists b, bytes b /\ bytes_to_elems_unrepaired M64 b = None.
Proof. exact hash_total_unrepaired_refuted. Qed.
Print Assumptions C11_hash_total_unrepaired_refuted.
Example C11_hash_total_nonvacuous : bytes [] /\ bytes [0; 255; 7] /\ bytes (repeat 171 70).
Proof. exact ex_bytes. Qed.
Example C11_hash_values :
  rp64_hash [] = Some [0; 0; 0; 0] /\ rp64_hash (repeat 171 57) <> None /\
  rp64_hash (repeat 171 70) = Some [9855849550940778158; 16700827844668115349; 2206747521949972729; 1808440846046674605].
Proof. exact ex_hash_values. Qed.
Example C11_hash_pins :
  rp62_hash (repeat 171 70) = Some [718269490133229630; 1272527191177799928; 39996384440040100; 4287254455493316955] /\
  jive_hash (repeat 171 70) = Some [7310329737796519830; 1779878501739986078; 9442396403217558804; 2621743351511437720].
Proof. exact ex_hash_pins. Qed.

(* bytes_encoding_inj: different byte strings are absorbed as different element sequences -- in particular strings
   differing only in length or trailing zero bytes (the statement a non-probabilistic proof can make) *)
Theorem C11_bytes_encoding_inj : forall p, 2 ^ 57 <= p -> forall b1 b2 es, bytes b1 -> bytes b2 ->
  bytes_to_elems p b1 = Some es -> bytes_to_elems p b2 = Some es -> b1 = b2.
Proof. exact bytes_encoding_inj. Qed.
Print Assumptions C11_bytes_encoding_inj.
Theorem C11_moduli_big : 2 ^ 57 <= M64 /\ 2 ^ 57 <= M62.
Proof. exact (conj M64_big M62_big). Qed.
Print Assumptions C11_moduli_big.
Example C11_bytes_encoding_nonvacuous :
  bytes_to_elems M64 [1] = Some [257] /\ bytes_to_elems M64 [1; 0] = Some [65537] /\ bytes_to_elems M64 [] = Some [] /\
  bytes_to_elems M64 [1; 2; 3; 4; 5; 6; 7] = Some [1 + 2 * 2^8 + 3 * 2^16 + 4 * 2^24 + 5 * 2^32 + 6 * 2^40 + 7 * 2^48 + 2^56] /\
  bytes_to_elems M64 [1; 2; 3; 4; 5; 6; 7; 0] = Some [1 + 2 * 2^8 + 3 * 2^16 + 4 * 2^24 + 5 * 2^32 + 6 * 2^40 + 7 * 2^48; 256].
Proof. exact ex_encoding_separates. Qed.

(* hash(bytes) = hash_elements(encoded chunks): same sponge, same capacity convention *)
Theorem C11_hash_is_hash_elements : forall b,
  (forall es, bytes_to_elems M64 b = Some es -> rp64_hash b = Some (rp64_hash_elements (map (fun c => [c]) es))) /\
  (forall es, bytes_to_elems M62 b = Some es -> rp62_hash b = Some (rp62_hash_elements (map (fun c => [c]) es))) /\
  (forall es, bytes_to_elems M64 b = Some es -> jive_hash b = Some (jive_hash_elements (map (fun c => [c]) es))).
Proof. exact (fun b => conj (hash_is_hash_elements_rp64 b) (conj (hash_is_hash_elements_rp62 b) (hash_is_hash_elements_jive b))). Qed.
Print Assumptions C11_hash_is_hash_elements.

(* hash_elements_flatten: hashing extension-field elements = hashing the base-field elements of their flattening
   (base versus extension typing does not matter) *)
Theorem C11_hash_elements_flatten : forall xs,
  rp64_hash_elements xs = rp64_hash_elements (map (fun c => [c]) (flatten xs)) /\
  rp62_hash_elements xs = rp62_hash_elements (map (fun c => [c]) (flatten xs)) /\
  jive_hash_elements xs = jive_hash_elements (map (fun c => [c]) (flatten xs)).
Proof. exact (fun xs => conj (hash_elements_flatten_rp64 xs) (conj (hash_elements_flatten_rp62 xs) (hash_elements_flatten_jive xs))). Qed.
Print Assumptions C11_hash_elements_flatten.

(* RpJive64_256 padding: (capacity flag, xs ++ 1 :: 0..0) is injective in xs for arbitrary elements; for a single block
   this is exactly the state handed to the permutation (later blocks: the pad positions are overwritten, as coded) *)
Theorem C11_jive_padded_inj : forall xs ys, jive_padded xs = jive_padded ys -> xs = ys.
Proof. exact jive_padded_inj. Qed.
Print Assumptions C11_jive_padded_inj.
Theorem C11_jive_single_block : forall perm x0 x1, 0 <= x0 < M64 -> 0 <= x1 < M64 ->
  hash_elements_jive M64 (mkSponge 8 4 4 0 4 perm) [x0; x1] =
  digest_of (mkSponge 8 4 4 0 4 perm) (perm ([1; 0; 0; 0] ++ snd (jive_padded [x0; x1]))).
Proof. exact jive_single_block. Qed.
Print Assumptions C11_jive_single_block.

(* ... and for EVERY length: hash_elements is the block recursion jive_run (full blocks of 4 added to the rate and permuted;
   a final partial block added to the first r rate positions, the others overwritten with 1, 0.., then permuted), and the
   padded last block is injective in its elements -- also across different lengths -- for a fixed incoming state *)
Theorem C11_jive_hash_elements_blocks : forall p perm, (forall s, length s = 8%nat -> length (perm s) = 8%nat) -> forall xs,
  hash_elements_jive p (mkSponge 8 4 4 0 4 perm) xs =
  digest_of (mkSponge 8 4 4 0 4 perm) (jive_run p perm (length xs) (jive_init p (length xs)) xs).
Proof. exact jive_hash_elements_blocks. Qed.
Print Assumptions C11_jive_hash_elements_blocks.
Theorem C11_jive_pad_last_inj : forall p, 1 < p -> forall st t t', length st = 8%nat ->
  (1 <= length t <= 3)%nat -> (1 <= length t' <= 3)%nat ->
  Forall (fun x => 0 <= x < p) t -> Forall (fun x => 0 <= x < p) t' -> pad_last p st t = pad_last p st t' -> t = t'.
Proof. exact pad_last_inj. Qed.
Print Assumptions C11_jive_pad_last_inj.

(* merge_is_hash_concat: for the two sponge hashers (RpJive64_256::merge is the Jive compression, intentionally not a sponge) *)
Theorem C11_merge_is_hash_concat_rp64 : forall a b, digest_ok M64 a -> digest_ok M64 b ->
  rp64_merge a b = rp64_hash_elements (map (fun c => [c]) (a ++ b)).
Proof. exact merge_is_hash_concat_rp64. Qed.
Print Assumptions C11_merge_is_hash_concat_rp64.
Theorem C11_merge_is_hash_concat_rp62 : forall a b, digest_ok M62 a -> digest_ok M62 b ->
  rp62_merge a b = rp62_hash_elements (map (fun c => [c]) (a ++ b)).
Proof. exact merge_is_hash_concat_rp62. Qed.
Print Assumptions C11_merge_is_hash_concat_rp62.
Example C11_merge_nonvacuous : digest_ok M64 [0; 1; 2; M64 - 1] /\ digest_ok M62 [0; 1; 2; M62 - 1].
Proof. exact ex_digest_ok. Qed.

(* merge_with_int_encoding_inj: the state handed to the permutation is injective in the 64-bit integer (below / at /
   above the modulus; for f62 the quotient value / M ranges over 0..4) *)
Theorem C11_merge_with_int_encoding_inj_rp64 : forall seed v1 v2, length seed = 4%nat -> 0 <= v1 < 2 ^ 64 -> 0 <= v2 < 2 ^ 64 ->
  mwi_state_cnt M64 rp64_sponge seed v1 = mwi_state_cnt M64 rp64_sponge seed v2 -> v1 = v2.
Proof. exact merge_with_int_encoding_inj_rp64. Qed.
Print Assumptions C11_merge_with_int_encoding_inj_rp64.
Theorem C11_merge_with_int_encoding_inj_rp62 : forall seed v1 v2, length seed = 4%nat -> 0 <= v1 < 2 ^ 64 -> 0 <= v2 < 2 ^ 64 ->
  mwi_state_cnt M62 rp62_sponge seed v1 = mwi_state_cnt M62 rp62_sponge seed v2 -> v1 = v2.
Proof. exact merge_with_int_encoding_inj_rp62. Qed.
Print Assumptions C11_merge_with_int_encoding_inj_rp62.
Theorem C11_merge_with_int_encoding_inj_jive : forall seed v1 v2, length seed = 4%nat -> 0 <= v1 < 2 ^ 64 -> 0 <= v2 < 2 ^ 64 ->
  mwi_state_jive M64 seed v1 = mwi_state_jive M64 seed v2 -> v1 = v2.
Proof. exact merge_with_int_encoding_inj_jive. Qed.
Print Assumptions C11_merge_with_int_encoding_inj_jive.
Theorem C11_merge_with_int_is_state : forall seed v,
  rp64_merge_with_int seed v = digest_of rp64_sponge (rp64_permutation (mwi_state_cnt M64 rp64_sponge seed v)) /\
  rp62_merge_with_int seed v = digest_of rp62_sponge (rp62_permutation (mwi_state_cnt M62 rp62_sponge seed v)) /\
  jive_merge_with_int seed v = jive_sum M64 (mwi_state_jive M64 seed v) (jive_permutation (mwi_state_jive M64 seed v)).
Proof. exact (fun seed v => conj (merge_with_int_is_state_rp64 seed v) (conj (merge_with_int_is_state_rp62 seed v) (merge_with_int_is_state_jive seed v))). Qed.
Print Assumptions C11_merge_with_int_is_state.
Example C11_merge_with_int_nonvacuous :
  let st v := mwi_state_cnt M64 rp64_sponge [1; 2; 3; 4] v in
  st (M64 - 1) = [5; 0; 0; 0; 1; 2; 3; 4; M64 - 1; 0; 0; 0] /\ st M64 = [6; 0; 0; 0; 1; 2; 3; 4; 0; 1; 0; 0] /\
  st (M64 + 1) = [6; 0; 0; 0; 1; 2; 3; 4; 1; 1; 0; 0] /\ st 0 = [5; 0; 0; 0; 1; 2; 3; 4; 0; 0; 0; 0] /\
  mwi_state_cnt M62 rp62_sponge [1; 2; 3; 4] (2 ^ 64 - 1) = [1; 2; 3; 4; (2 ^ 64 - 1) mod M62; 4; 0; 0; 0; 0; 0; 6].
Proof. exact ex_mwi_states. Qed.

(* ===== BLAKE3 / SHA3 wrappers: the byte strings handed to the (unmodelled) primitive ================================== *)
Theorem C11_msg_merge_with_int_inj : forall seed v1 v2, 0 <= v1 < 2 ^ 64 -> 0 <= v2 < 2 ^ 64 ->
  msg_merge_with_int seed v1 = msg_merge_with_int seed v2 -> v1 = v2.
Proof. exact msg_merge_with_int_inj. Qed.
Print Assumptions C11_msg_merge_with_int_inj.
Theorem C11_msg_merge_with_int_length : forall seed v, length (msg_merge_with_int seed v) = (length seed + 8)%nat.
Proof. exact msg_merge_with_int_length. Qed.
Print Assumptions C11_msg_merge_with_int_length.
Theorem C11_msg_merge_is_hash_concat : forall d0 d1, msg_merge d0 d1 = msg_hash (d0 ++ d1).
Proof. exact msg_merge_is_hash_concat. Qed.
Print Assumptions C11_msg_merge_is_hash_concat.
Theorem C11_msg_elements_flatten : forall n xs, msg_elements n xs = msg_elements n (map (fun c => [c]) (concat xs)).
Proof. exact msg_elements_flatten. Qed.
Print Assumptions C11_msg_elements_flatten.
Example C11_msg_merge_with_int_layouts :
  length (msg_merge_with_int (repeat 0 32) (2 ^ 64 - 1)) = 40%nat /\ length (msg_merge_with_int (repeat 0 24) 0) = 32%nat /\
  msg_merge_with_int [9] 258 = [9; 2; 1; 0; 0; 0; 0; 0; 0].
Proof. exact ex_msg_mwi. Qed.
