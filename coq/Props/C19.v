(* C19 — public coin contract (crypto/src/random/default.rs).
   Only statements, `exact` of lemmas proved in Proofs/, and Print Assumptions.
   Every theorem is universally quantified over the digest type D and the hash oracles hash_elements / merge /
   merge_with_int / as_bytes: nothing is assumed about them (no collision resistance, no length conditions) unless
   written as a hypothesis.  The model is Model/Coin.v; it is tied to the crate by the history correspondence. *)
From VBase Require Import MachInt.
From VGen Require Import F64.
From VModel Require Import ToyHash Coin.
From VGen Require F62 F128.
From VProofs Require F62Ops F128Limbs F128Ops.
From VProofs Require Import F64Red F64Ops Coin CoinProps CoinToy CoinFields.
Open Scope Z_scope.

(* ---------------------------------------------------------------------------------------------- determinism *)

(* equal histories give equal states and equal outputs *)
Theorem C19_coin_deterministic : forall D (hash_elements : list Z -> D) merge merge_with_int dbytes e1 e2 ops1 ops2,
  e1 = e2 -> ops1 = ops2 ->
  run D merge merge_with_int dbytes (coin_new D hash_elements e1) ops1 =
  run D merge merge_with_int dbytes (coin_new D hash_elements e2) ops2.
Proof. exact coin_deterministic. Qed.
Print Assumptions C19_coin_deterministic.

(* the coin depends on the hash functions only through their values: pointwise equal oracles, equal runs *)
Theorem C19_run_oracle_ext : forall D (m1 m2 : D -> D -> D) (i1 i2 : D -> Z -> D) (b1 b2 : D -> list Z),
  (forall a b, m1 a b = m2 a b) -> (forall a n, i1 a n = i2 a n) -> (forall a, b1 a = b2 a) ->
  forall c ops, run D m1 i1 b1 c ops = run D m2 i2 b2 c ops.
Proof. exact run_oracle_ext. Qed.
Print Assumptions C19_run_oracle_ext.

(* outputs of a prefix of a history do not depend on later operations *)
Theorem C19_outputs_causal : forall D merge merge_with_int dbytes (c : coin D) a b,
  firstn (length a) (snd (run D merge merge_with_int dbytes c (a ++ b))) = snd (run D merge merge_with_int dbytes c a).
Proof. exact outputs_causal. Qed.
Print Assumptions C19_outputs_causal.

(* ---------------------------------------------------------------------------------------------- draw *)

(* every element returned by draw, for every element type (modulus, coefficient width, degree), every state and
   every hash: the right number of coefficients, each below the modulus *)
Theorem C19_draw_valid : forall D merge_with_int dbytes k (c c' : coin D) e,
  coin_draw D merge_with_int dbytes k c = (c', Ok e) ->
  length e = fk_deg k /\ Forall (fun v => v < fk_M k) e.
Proof. exact draw_valid. Qed.
Print Assumptions C19_draw_valid.

(* with as_bytes returning bytes: coefficients are canonical residues 0 <= v < M *)
Theorem C19_draw_valid_canonical : forall D merge_with_int dbytes k (c c' : coin D) e,
  (forall d, Forall (fun b => 0 <= b < 256) (dbytes d)) ->
  coin_draw D merge_with_int dbytes k c = (c', Ok e) ->
  length e = fk_deg k /\ Forall (fun v => 0 <= v < fk_M k) e.
Proof. exact draw_valid_nonneg. Qed.
Print Assumptions C19_draw_valid_canonical.

(* the same at the level of whole histories: the i-th output of any run, if it is a drawn element *)
Theorem C19_run_draws_valid : forall D merge merge_with_int dbytes (c : coin D) ops i k e,
  nth_error ops i = Some (OpDraw k) ->
  nth_error (snd (run D merge merge_with_int dbytes c ops)) i = Some (OutElem (Ok e)) ->
  length e = fk_deg k /\ Forall (fun v => v < fk_M k) e.
Proof. exact run_draws_valid. Qed.
Print Assumptions C19_run_draws_valid.

(* f64: the stored Montgomery word BaseElement::new(v) (generated model of math/src/field/f64) is canonical and denotes v *)
Theorem C19_draw_f64_internal_canonical : forall D merge_with_int dbytes deg (c c' : coin D) e,
  (forall d, Forall (fun b => 0 <= b < 256) (dbytes d)) ->
  coin_draw D merge_with_int dbytes (fk_f64 deg) c = (c', Ok e) ->
  Forall (fun v => repr (f64_new v) /\ val (f64_new v) = v) e.
Proof. exact draw_f64_internal_canonical. Qed.
Print Assumptions C19_draw_f64_internal_canonical.

(* f62: the stored word BaseElement::new(v) (generated model of math/src/field/f62) lies in the representation range
   [0, 2M) and its as_int is the drawn value v *)
Theorem C19_draw_f62_internal_word : forall D merge_with_int dbytes,
  (forall d, Forall (fun b => 0 <= b < 256) (dbytes d)) ->
  forall deg (c c' : coin D) e, coin_draw D merge_with_int dbytes (fk_f62 deg) c = (c', Ok e) ->
  Forall (fun v => F62Ops.repr62 (F62.f62_new v) /\ F62.f62_as_int (F62.f62_new v) = v /\
                   F62Ops.val62 (F62.f62_new v) = v) e.
Proof. exact draw_f62_internal. Qed.
Print Assumptions C19_draw_f62_internal_word.

(* f128: the stored word is the drawn value itself (identity representation), canonical: v < M; new / try_from fix it *)
Theorem C19_draw_f128_internal_word : forall D merge_with_int dbytes,
  (forall d, Forall (fun b => 0 <= b < 256) (dbytes d)) ->
  forall deg (c c' : coin D) e, coin_draw D merge_with_int dbytes (fk_f128 deg) c = (c', Ok e) ->
  Forall (fun v => F128Ops.repr128 v /\ F128.f128_as_int v = v /\ F128.f128_new v = v /\
                   F128.f128_try_from_u128 v = Some v) e.
Proof. exact draw_f128_internal. Qed.
Print Assumptions C19_draw_f128_internal_word.

(* exact behaviour: draw returns the FIRST admissible counter-mode output hash(seed || counter+j), j <= 1000, and
   Err exactly when the next 1000 outputs are all inadmissible; it never panics for elements of at most 32 bytes *)
Theorem C19_draw_first_valid : forall D merge_with_int dbytes k (c c' : coin D) r,
  coin_draw D merge_with_int dbytes k c = (c', r) ->
  0 <= counter c -> counter c + 1000 < 2 ^ 64 -> (elem_bytes k <= 32)%nat ->
  seed c' = seed c /\
  match r with
  | Ok e => exists j, 1 <= j <= 1000 /\ counter c' = counter c + j /\
              from_random_bytes k (draw_bytes D merge_with_int dbytes k (seed c) (counter c) j) = Some e /\
              forall i, 1 <= i < j -> from_random_bytes k (draw_bytes D merge_with_int dbytes k (seed c) (counter c) i) = None
  | Err => counter c' = counter c + 1000 /\
           forall i, 1 <= i <= 1000 -> from_random_bytes k (draw_bytes D merge_with_int dbytes k (seed c) (counter c) i) = None
  | Panic => False
  end.
Proof. exact draw_first_valid. Qed.
Print Assumptions C19_draw_first_valid.

(* the rejection test is exactly "some coefficient >= modulus" *)
Theorem C19_from_random_bytes_accepts : forall k bytes, length bytes = elem_bytes k ->
  Forall (fun v => v < fk_M k) (map of_le_bytes (chunks (fk_eb k) (fk_deg k) bytes)) ->
  from_random_bytes k bytes = Some (map of_le_bytes (chunks (fk_eb k) (fk_deg k) bytes)).
Proof. exact from_random_bytes_accepts. Qed.
Print Assumptions C19_from_random_bytes_accepts.

Theorem C19_from_random_bytes_rejects : forall k bytes v,
  In v (map of_le_bytes (chunks (fk_eb k) (fk_deg k) bytes)) -> fk_M k <= v -> from_random_bytes k bytes = None.
Proof. exact from_random_bytes_rejects. Qed.
Print Assumptions C19_from_random_bytes_rejects.

(* the only panic of draw below counter overflow: an element type wider than as_bytes() (CubeExtension<f128>) *)
Theorem C19_draw_panic_oversize : forall D merge_with_int dbytes k (c : coin D),
  (32 < elem_bytes k)%nat -> counter c + 1 < 2 ^ 64 ->
  coin_draw D merge_with_int dbytes k c = (mkCoin (seed c) (counter c + 1), Panic).
Proof. exact draw_panic_oversize. Qed.
Print Assumptions C19_draw_panic_oversize.

(* ---------------------------------------------------------------------------------------------- draw_integers *)

(* the complete case table, for all arguments *)
Theorem C19_draw_integers_spec : forall D merge_with_int dbytes (c : coin D) n dom nonce, 0 <= n ->
  let s' := nonce_seed D merge_with_int c nonce in
  coin_draw_integers D merge_with_int dbytes c n dom nonce =
    if negb (is_pow2 dom) then (c, Panic)
    else if dom <=? n then (c, Err)
    else if n =? 0 then (mkCoin s' 1000, Ok (ints_vals D merge_with_int dbytes s' 0 (dom - 1) 1000))
    else if n <=? 1000 then (mkCoin s' n, Ok (ints_vals D merge_with_int dbytes s' 0 (dom - 1) (Z.to_nat n)))
    else (mkCoin s' 1000, Err).
Proof. exact draw_integers_spec. Qed.
Print Assumptions C19_draw_integers_spec.

(* the contract: power-of-two domain, 1 <= n <= 1000, n < domain: exactly n values, each the PRNG word mod domain *)
Theorem C19_draw_integers_ok : forall D merge_with_int dbytes (c : coin D) n dom nonce,
  is_pow2 dom = true -> 1 <= n <= 1000 -> n < dom ->
  exists vals, coin_draw_integers D merge_with_int dbytes c n dom nonce = (mkCoin (nonce_seed D merge_with_int c nonce) n, Ok vals) /\
               Z.of_nat (length vals) = n /\ Forall (fun v => 0 <= v < dom) vals /\
               vals = map (fun j => le64 D dbytes (prng D merge_with_int (nonce_seed D merge_with_int c nonce) 0 (Z.of_nat j)) mod dom)
                          (seq 1 (Z.to_nat n)).
Proof. exact draw_integers_ok. Qed.
Print Assumptions C19_draw_integers_ok.

(* converse, at the level of whole histories: whenever a run outputs integers for a request of n >= 1 values *)
Theorem C19_run_ints_valid : forall D merge merge_with_int dbytes (c : coin D) ops i n dom nonce vals, 1 <= n ->
  nth_error ops i = Some (OpInts n dom nonce) ->
  nth_error (snd (run D merge merge_with_int dbytes c ops)) i = Some (OutInts (Ok vals)) ->
  Z.of_nat (length vals) = n /\ Forall (fun v => 0 <= v < dom) vals.
Proof. exact run_ints_valid. Qed.
Print Assumptions C19_run_ints_valid.

Theorem C19_is_pow2_spec : forall x, is_pow2 x = true <-> exists k, 0 <= k /\ x = 2 ^ k.
Proof. exact is_pow2_spec. Qed.
Print Assumptions C19_is_pow2_spec.

(* Panic domain (the documented assert: domain not a power of two) and Err domain (count >= domain size, or more
   than 1000 values) exactly *)
Theorem C19_draw_integers_panic_iff : forall D merge_with_int dbytes (c : coin D) n dom nonce, 0 <= n ->
  (snd (coin_draw_integers D merge_with_int dbytes c n dom nonce) = Panic <-> ~ exists k, 0 <= k /\ dom = 2 ^ k).
Proof. exact draw_integers_panic_iff. Qed.
Print Assumptions C19_draw_integers_panic_iff.

Theorem C19_draw_integers_err_iff : forall D merge_with_int dbytes (c : coin D) n dom nonce, 0 <= n ->
  (snd (coin_draw_integers D merge_with_int dbytes c n dom nonce) = Err <->
   (is_pow2 dom = true /\ (dom <= n \/ 1000 < n))).
Proof. exact draw_integers_err_iff. Qed.
Print Assumptions C19_draw_integers_err_iff.

(* outside the property's quantifier (counts 1..255): a request for zero values returns 1000 values *)
Theorem C19_draw_integers_zero_count : forall D merge_with_int dbytes (c : coin D) dom nonce, is_pow2 dom = true ->
  exists vals, coin_draw_integers D merge_with_int dbytes c 0 dom nonce = (mkCoin (nonce_seed D merge_with_int c nonce) 1000, Ok vals) /\
               length vals = 1000%nat.
Proof. exact draw_integers_zero_count. Qed.
Print Assumptions C19_draw_integers_zero_count.

(* ---------------------------------------------------------------------------------------------- check_leading_zeros, PoW *)

Theorem C19_check_lz_pure : forall D merge merge_with_int dbytes (c : coin D) v,
  fst (step D merge merge_with_int dbytes c (OpLz v)) = c.
Proof. exact check_lz_pure. Qed.
Print Assumptions C19_check_lz_pure.

(* deleting every check_leading_zeros call from a history changes neither the final state nor any other output *)
Theorem C19_check_lz_transparent : forall D merge merge_with_int dbytes (c : coin D) ops,
  run D merge merge_with_int dbytes c (filter (not_lz D) ops) =
  (fst (run D merge merge_with_int dbytes c ops), filter not_lz_out (snd (run D merge merge_with_int dbytes c ops))).
Proof. exact lz_transparent. Qed.
Print Assumptions C19_check_lz_transparent.

Theorem C19_check_lz_range : forall D merge_with_int dbytes (c : coin D) v,
  0 <= coin_check_lz D merge_with_int dbytes c v <= 64.
Proof. exact check_lz_range. Qed.
Print Assumptions C19_check_lz_range.

(* meaning of the measure: t <= measure  iff  2^t divides the little-endian u64 head of hash(seed || nonce) *)
Theorem C19_check_lz_ge_iff : forall D merge_with_int dbytes (c : coin D) v t,
  (forall d, Forall (fun b => 0 <= b < 256) (dbytes d)) -> 0 <= t <= 64 ->
  (t <= coin_check_lz D merge_with_int dbytes c v <-> le64 D dbytes (merge_with_int (seed c) v) mod 2 ^ t = 0).
Proof. exact check_lz_ge_iff. Qed.
Print Assumptions C19_check_lz_ge_iff.

(* the predicate searched by ProverChannel::grind_query_seed is the predicate tested by the verifier *)
Theorem C19_pow_pred_agree : forall D merge_with_int dbytes (c : coin D) gf nonce,
  pow_search_pred D merge_with_int dbytes c gf nonce = pow_verifier_accepts D merge_with_int dbytes c gf nonce.
Proof. exact pow_pred_agree. Qed.
Print Assumptions C19_pow_pred_agree.

(* the nonce found by the prover's search: accepted by the verifier on a coin in the same state, least such nonce
   >= 1, and its measure is the trailing-zero count of the head of the seed installed by draw_integers(.., nonce) *)
Theorem C19_pow_measure_agree : forall D merge_with_int dbytes fuel (c : coin D) gf nonce,
  grind D merge_with_int dbytes fuel c gf = Some nonce ->
  1 <= nonce < 2 ^ 64 - 1 /\
  pow_verifier_accepts D merge_with_int dbytes c gf nonce = true /\
  (forall m, 1 <= m < nonce -> pow_verifier_accepts D merge_with_int dbytes c gf m = false) /\
  (forall n dom, 0 <= n -> is_pow2 dom && (n <? dom) = true ->
     coin_check_lz D merge_with_int dbytes c nonce =
     ctz 64 (le64 D dbytes (seed (fst (coin_draw_integers D merge_with_int dbytes c n dom nonce))))).
Proof. exact pow_measure_agree. Qed.
Print Assumptions C19_pow_measure_agree.

Theorem C19_grind_complete : forall D merge_with_int dbytes fuel (c : coin D) gf nonce,
  1 <= nonce <= Z.of_nat fuel -> nonce < 2 ^ 64 - 1 ->
  pow_verifier_accepts D merge_with_int dbytes c gf nonce = true ->
  exists n', grind D merge_with_int dbytes fuel c gf = Some n' /\ n' <= nonce.
Proof. exact grind_complete. Qed.
Print Assumptions C19_grind_complete.

(* ---------------------------------------------------------------------------------------------- what a history feeds to the hash *)

(* the seed after a history is the hash chain over (seed elements; reseed data and nonces in order), nothing else *)
Theorem C19_seed_of_history : forall D hash_elements merge merge_with_int dbytes e ops, Forall (wf_op D) ops ->
  seed (fst (run D merge merge_with_int dbytes (coin_new D hash_elements e) ops)) =
  chain_seed D hash_elements merge merge_with_int e (absorbs D ops).
Proof. exact seed_of_history. Qed.
Print Assumptions C19_seed_of_history.

(* Two histories that differ in the seed elements, in a reseed datum or a nonce (or in the sequence of absorbs), or
   in the number of PRNG calls since the last absorb, pass different (seed, counter) arguments to merge_with_int
   at the next draw, or find_collision returns an explicit collision / cross-oracle coincidence.  No collision
   resistance is assumed; deqb is any decision procedure for equality of digests. *)
Theorem C19_history_inputs_injective : forall D hash_elements merge merge_with_int dbytes (deqb : D -> D -> bool),
  (forall a b, deqb a b = true <-> a = b) ->
  forall e1 ops1 e2 ops2, Forall (wf_op D) ops1 -> Forall (wf_op D) ops2 ->
  let c1 := fst (run D merge merge_with_int dbytes (coin_new D hash_elements e1) ops1) in
  let c2 := fst (run D merge merge_with_int dbytes (coin_new D hash_elements e2) ops2) in
  (e1, absorbs D ops1) <> (e2, absorbs D ops2) \/ counter c1 <> counter c2 ->
  next_input D c1 <> next_input D c2 \/
  valid_collision D hash_elements merge merge_with_int
    (find_collision D hash_elements merge merge_with_int deqb e1 (absorbs D ops1) e2 (absorbs D ops2)).
Proof. exact history_inputs_injective. Qed.
Print Assumptions C19_history_inputs_injective.

(* for histories of the same shape the exhibited collision is a collision of a single oracle *)
Theorem C19_same_shape_collision_is_proper : forall D hash_elements merge merge_with_int (deqb : D -> D -> bool) e1 a1 e2 a2,
  map (absorb_kind D) a1 = map (absorb_kind D) a2 ->
  is_cross D (find_collision D hash_elements merge merge_with_int deqb e1 a1 e2 a2) = false.
Proof. exact same_shape_collision_is_proper. Qed.
Print Assumptions C19_same_shape_collision_is_proper.

(* "number of earlier draws" is relative to the last reseed: the counter restarts at every reseed (by design, see
   the anchor's state description), so draws made before a reseed leave no trace *)
Theorem C19_draws_before_reseed_forgotten : forall D merge merge_with_int dbytes (c : coin D) pre d,
  Forall (is_reader D) pre -> 0 <= counter c ->
  fst (run D merge merge_with_int dbytes c (pre ++ [OpReseed d])) = coin_reseed D merge c d.
Proof. exact draws_before_reseed_forgotten. Qed.
Print Assumptions C19_draws_before_reseed_forgotten.

Theorem C19_outputs_after_reseed_independent : forall D merge merge_with_int dbytes (c : coin D) pre1 pre2 d rest,
  Forall (is_reader D) pre1 -> Forall (is_reader D) pre2 -> 0 <= counter c ->
  run D merge merge_with_int dbytes (fst (run D merge merge_with_int dbytes c (pre1 ++ [OpReseed d]))) rest =
  run D merge merge_with_int dbytes (fst (run D merge merge_with_int dbytes c (pre2 ++ [OpReseed d]))) rest.
Proof. exact outputs_after_reseed_independent. Qed.
Print Assumptions C19_outputs_after_reseed_independent.

(* since the last reseed, every additional draw changes the input of the next hash call *)
Theorem C19_extra_draw_changes_input : forall D merge merge_with_int dbytes (c : coin D) k,
  0 <= counter c -> counter c + 1 < 2 ^ 64 ->
  next_input D (fst (step D merge merge_with_int dbytes c (OpDraw k))) <> next_input D c.
Proof. exact extra_draw_changes_input. Qed.
Print Assumptions C19_extra_draw_changes_input.

Theorem C19_more_draws_larger_counter : forall D merge merge_with_int dbytes (c : coin D) ks,
  0 <= counter c -> counter c + 1000 * Z.of_nat (length ks) < 2 ^ 64 ->
  counter c + Z.of_nat (length ks) <= counter (fst (run D merge merge_with_int dbytes c (map (@OpDraw D) ks))).
Proof. exact more_draws_larger_counter. Qed.
Print Assumptions C19_more_draws_larger_counter.

(* u64 counter: at most 1000 per operation, so `self.counter += 1` cannot overflow (debug panic / release wrap)
   in fewer than 2^64 / 1000 operations *)
Theorem C19_counter_bound : forall D merge merge_with_int dbytes (c : coin D) ops, Forall (wf_op D) ops -> 0 <= counter c ->
  0 <= counter (fst (run D merge merge_with_int dbytes c ops)) <= counter c + 1000 * Z.of_nat (length ops).
Proof. exact counter_bound. Qed.
Print Assumptions C19_counter_bound.

(* ---------------------------------------------------------------------------------------------- non-vacuity *)
(* the byte-view hypotheses hold for the two instantiations used by the correspondence *)
Theorem C19_toy_dbytes_wf : forall d, Forall (fun b => 0 <= b < 256) (toy_dbytes d) /\ length (toy_dbytes d) = 32%nat.
Proof. exact toy_dbytes_wf. Qed.
Print Assumptions C19_toy_dbytes_wf.

Theorem C19_wide_dbytes_wf : forall d, Forall (fun b => 0 <= b < 256) (wide_dbytes d).
Proof. exact wide_dbytes_wf. Qed.
Print Assumptions C19_wide_dbytes_wf.

(* every outcome class is inhabited on the ToyHasher instance (vm_compute): Ok after a rejection, Err after 1000
   tries, Panic for an oversize element; integers Ok / Panic / Err / zero count; a successful nonce search *)
Theorem C19_ex_draw_ok_after_rejection :
  coin_draw Z toy_merge_int toy_dbytes (fk_f62 1) c0 = (mkCoin 5323811113220503390 2, Ok [910144776332636229]) /\
  from_random_bytes (fk_f62 1) (firstn 8 (toy_dbytes (toy_merge_int (seed c0) 1))) = None.
Proof. exact draw_ok_after_rejection. Qed.
Print Assumptions C19_ex_draw_ok_after_rejection.

Theorem C19_ex_draw_err : exists s,
  coin_draw (list Z) (wide_merge_int 3) wide_dbytes (fk_f64 3) (wide_coin_new 3 8 [1; 2; 3]) = (mkCoin s 1000, Err).
Proof. exact draw_err_after_1000. Qed.
Print Assumptions C19_ex_draw_err.

Theorem C19_ex_draw_integers :
  coin_draw_integers Z toy_merge_int toy_dbytes c0 5 8 7 = (mkCoin 12659942608561989065 5, Ok [0; 3; 1; 3; 5]) /\
  coin_draw_integers Z toy_merge_int toy_dbytes c0 8 8 7 = (c0, Err) /\
  coin_draw_integers Z toy_merge_int toy_dbytes c0 3 6 7 = (c0, Panic) /\
  coin_draw_integers Z toy_merge_int toy_dbytes c0 1001 2048 7 = (mkCoin 12659942608561989065 1000, Err).
Proof. exact (conj draw_integers_ok_ex (conj draw_integers_err_count (conj draw_integers_panic_pow2 draw_integers_err_ex))). Qed.
Print Assumptions C19_ex_draw_integers.

Theorem C19_ex_grind : toy_grind 200 c0 4 = Some 6 /\ coin_check_lz Z toy_merge_int toy_dbytes c0 1 = 1 /\
  4 <= coin_check_lz Z toy_merge_int toy_dbytes c0 6.
Proof. exact grind_ex. Qed.
Print Assumptions C19_ex_grind.

(* both disjuncts of C19_history_inputs_injective are inhabited: different inputs; and a cross-oracle coincidence that
   needs no collision of the underlying hash (new([H(e); d]) is the same coin as new(e).reseed(d) for hashers that
   hash plain concatenations) *)
Theorem C19_ex_injective :
  let c1 := fst (toy_coin_run (toy_coin_new 8 [1; 2; 3]) [OpReseed 77]) in
  let c2 := fst (toy_coin_run (toy_coin_new 8 [1; 2; 3]) [OpReseed 78]) in
  ([1; 2; 3], absorbs Z [OpReseed 77]) <> ([1; 2; 3], absorbs Z [OpReseed 78]) /\ next_input Z c1 <> next_input Z c2.
Proof. exact injective_ex. Qed.
Print Assumptions C19_ex_injective.

Theorem C19_ex_shape_ambiguity :
  toy_coin_new 8 amb_e1 = fst (toy_coin_run (toy_coin_new 8 amb_e2) [OpReseed amb_d]) /\
  find_collision Z (toy_hash_elems 8) toy_merge toy_merge_int Z.eqb amb_e1 [] amb_e2 [AData amb_d] =
    CrossElemsMerge Z amb_e1 (toy_hash_elems 8 amb_e2) amb_d /\
  valid_collision Z (toy_hash_elems 8) toy_merge toy_merge_int
    (find_collision Z (toy_hash_elems 8) toy_merge toy_merge_int Z.eqb amb_e1 [] amb_e2 [AData amb_d]).
Proof. exact shape_ambiguity_toy. Qed.
Print Assumptions C19_ex_shape_ambiguity.
