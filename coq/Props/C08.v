(* C08 — extension fields: arithmetic equals polynomial arithmetic modulo the irreducible polynomial.
   Only statements, `exact` of lemmas proved in Proofs/Ext*.v, Print Assumptions, non-vacuity examples.

   The objects of the theorems are the GENERATED translations (coq/Gen/F64.v, F62.v, F128.v, regenerated from
   /repo/math/src/field/{f64,f62,f128}/mod.rs on every run) of the `impl ExtensibleField<2|3> for BaseElement`
   bodies: f64_ext2_mul, f64_ext2_square, ..., f128_ext2_frobenius, and the hand model (Model/ExtField.v) of the
   generic wrappers QuadExtension<B> / CubeExtension<B> on top of them (vtables f64_x2, f62_x2, f128_x2, f64_x3, f62_x3).

   Part A is for an ARBITRARY field (F, O : FOps F, FLaws O).  Part B instantiates the three concrete prime fields
   (F64_ops, F62_ops, F128_ops of Proofs/ZpLaws.v: canonical residues with the operations of `zp_ops p`, which is what
   the correspondence executes) and discharges every side condition of Part A (irreducibility, Frobenius constants).

   Irreducible polynomials (documented in the Rust sources):  f64: x^2 - x + 2, x^3 - x - 1;
   f62: x^2 - x - 1, x^3 + 2x + 2;  f128: x^2 - x - 1.
   `qs_mul O c` is the schoolbook product reduced by x^2 = x + c, `cs_mul O u v` by x^3 = u x + v (ExtTheory.v);
   the five `*_mul_spec` theorems below also spell the reduced product out coefficient by coefficient. *)
From Coq Require Import ZArith List Bool Ring_theory.
From VBase Require Import MachInt FieldOps ZpOps.
From VGen Require Import F64 F62 F128.
From VModel Require Import ExtField.
From VProofs Require Import NumTheoryPrime ZpLaws ExtTheory ExtModel ExtConcrete ExtSlice.
Import ListNotations.

Section C08.
Context {F : Type} (O : FOps F) (L : FLaws O).
Local Notation zero := (fzero O).
Local Notation one := (fone O).
Local Notation two := (fadd O (fone O) (fone O)).
Local Notation "a +f b" := (fadd O a b) (at level 50, left associativity).
Local Notation "a -f b" := (fsub O a b) (at level 50, left associativity).
Local Notation "a *f b" := (fmul O a b) (at level 40, left associativity).

(* ================================================================ A.1 multiplication = reduced schoolbook product *)
(* f64 quadratic, x^2 = x - 2 *)
Theorem C08_f64_ext2_mul_spec : forall a0 a1 b0 b1,
  f64_ext2_mul O (a0, a1) (b0, b1) = (a0 *f b0 -f two *f (a1 *f b1), a0 *f b1 +f a1 *f b0 +f a1 *f b1).
Proof. exact (f64_ext2_mul_spec O L). Qed.
(* f62 / f128 quadratic, x^2 = x + 1 *)
Theorem C08_f62_ext2_mul_spec : forall a0 a1 b0 b1,
  f62_ext2_mul O (a0, a1) (b0, b1) = (a0 *f b0 +f a1 *f b1, a0 *f b1 +f a1 *f b0 +f a1 *f b1).
Proof. exact (f62_ext2_mul_spec O L). Qed.
Theorem C08_f128_ext2_mul_spec : forall a0 a1 b0 b1,
  f128_ext2_mul O (a0, a1) (b0, b1) = (a0 *f b0 +f a1 *f b1, a0 *f b1 +f a1 *f b0 +f a1 *f b1).
Proof. exact (f128_ext2_mul_spec O L). Qed.
(* f64 cubic, x^3 = x + 1, x^4 = x^2 + x *)
Theorem C08_f64_ext3_mul_spec : forall a0 a1 a2 b0 b1 b2,
  f64_ext3_mul O (a0, a1, a2) (b0, b1, b2) =
  (a0 *f b0 +f (a1 *f b2 +f a2 *f b1),
   a0 *f b1 +f a1 *f b0 +f (a1 *f b2 +f a2 *f b1) +f a2 *f b2,
   a0 *f b2 +f a1 *f b1 +f a2 *f b0 +f a2 *f b2).
Proof. exact (f64_ext3_mul_spec O L). Qed.
(* f62 cubic, x^3 = -2x - 2, x^4 = -2x^2 - 2x *)
Theorem C08_f62_ext3_mul_spec : forall a0 a1 a2 b0 b1 b2,
  f62_ext3_mul O (a0, a1, a2) (b0, b1, b2) =
  (a0 *f b0 -f two *f (a1 *f b2 +f a2 *f b1),
   a0 *f b1 +f a1 *f b0 -f two *f (a1 *f b2 +f a2 *f b1) -f two *f (a2 *f b2),
   a0 *f b2 +f a1 *f b1 +f a2 *f b0 -f two *f (a2 *f b2)).
Proof. exact (f62_ext3_mul_spec O L). Qed.

(* the dedicated squaring routines of f64 and mul_base *)
Theorem C08_f64_ext2_square_spec : forall a, f64_ext2_square O a = f64_ext2_mul O a a.
Proof. exact (f64_ext2_square_eq O L). Qed.
Theorem C08_f64_ext3_square_spec : forall a, f64_ext3_square O a = f64_ext3_mul O a a.
Proof. exact (f64_ext3_square_eq O L). Qed.
Theorem C08_ext_mul_base_spec :
  (forall a b, f64_ext2_mul_base O a b = f64_ext2_mul O a (b, zero)) /\
  (forall a b, f62_ext2_mul_base O a b = f62_ext2_mul O a (b, zero)) /\
  (forall a b, f128_ext2_mul_base O a b = f128_ext2_mul O a (b, zero)) /\
  (forall a b, f64_ext3_mul_base O a b = f64_ext3_mul O a (b, zero, zero)) /\
  (forall a b, f62_ext3_mul_base O a b = f62_ext3_mul O a (b, zero, zero)).
Proof.
  exact (conj (f64_ext2_mul_base_eq O L) (conj (f62_ext2_mul_base_eq O L) (conj (f128_ext2_mul_base_eq O L)
        (conj (f64_ext3_mul_base_eq O L) (f62_ext3_mul_base_eq O L))))).
Qed.

(* the five vtables implement F[x]/(x^2 - x - c) resp. F[x]/(x^3 - u x - v) with the Frobenius matrix built from
   the constants of the source (f64_k.. / f62_k.. are `fofz O <the integer literal of the source>`) *)
Theorem C08_f64_x2_correct : Ext2Correct O (f64_x2 O) (fneg2 O).
Proof. exact (f64_x2_correct O L). Qed.
Theorem C08_f62_x2_correct : Ext2Correct O (f62_x2 O) one.
Proof. exact (f62_x2_correct O L). Qed.
Theorem C08_f128_x2_correct : Ext2Correct O (f128_x2 O) one.
Proof. exact (f128_x2_correct O L). Qed.
Theorem C08_f64_x3_correct :
  Ext3Correct O (f64_x3 O) one one (f64_k01 O) (f64_k02 O) (f64_k11 O) (f64_k12 O) (f64_k21 O) (f64_k22 O).
Proof. exact (f64_x3_correct O L). Qed.
Theorem C08_f62_x3_correct :
  Ext3Correct O (f62_x3 O) (fneg2 O) (fneg2 O) (f62_k01 O) (f62_k02 O) (f62_k11 O) (f62_k12 O) (f62_k21 O) (f62_k22 O).
Proof. exact (f62_x3_correct O L). Qed.

(* ================================================================ A.2 QuadExtension<B>, any correct vtable *)
Section Quad.
Variable I : Ext2Impl F.
Variable c : F.
Hypothesis IC : Ext2Correct O I c.

(* commutative ring: + and - coefficient-wise, ONE = (1, 0), mul = ExtensibleField::mul *)
Theorem C08_quad_ring :
  @ring_theory (F * F)%type (q_zero O) (q_one O) (q_add O) (q_mul I) (q_sub O) (q_neg O) (@eq (F * F)).
Proof. exact (q_ring O L I c IC). Qed.
Theorem C08_quad_square_spec : forall a, q_square I a = q_mul I a a.
Proof. exact (q_square_spec O I c IC). Qed.
Theorem C08_quad_mul_base_spec : forall a b,
  q_mul_base I a b = q_mul I a (q_from_base O b) /\ q_mul_base I a b = (fst a *f b, snd a *f b).
Proof. intros; split. apply (q_mul_base_spec O I c IC). apply (q_mul_base_coeff O L I c IC). Qed.
Theorem C08_quad_double_spec : forall a, q_double O a = q_add O a a.
Proof. exact (q_double_spec O L). Qed.
(* embedding the base field is an injective ring homomorphism *)
Theorem C08_quad_embed_hom :
  q_from_base O zero = q_zero O /\ q_from_base O one = q_one O /\
  (forall x y, q_from_base O (x +f y) = q_add O (q_from_base O x) (q_from_base O y)) /\
  (forall x y, q_from_base O (x -f y) = q_sub O (q_from_base O x) (q_from_base O y)) /\
  (forall x, q_from_base O (fneg O x) = q_neg O (q_from_base O x)) /\
  (forall x y, q_from_base O (x *f y) = q_mul I (q_from_base O x) (q_from_base O y)) /\
  (forall x y, q_from_base O x = q_from_base O y -> x = y).
Proof. exact (q_embed_hom O L I c IC). Qed.
(* conjugation: ring automorphism, involutive, fixes exactly the base field *)
Theorem C08_quad_conj_automorphism :
  (forall a b, q_conjugate I (q_add O a b) = q_add O (q_conjugate I a) (q_conjugate I b)) /\
  (forall a b, q_conjugate I (q_mul I a b) = q_mul I (q_conjugate I a) (q_conjugate I b)) /\
  q_conjugate I (q_one O) = q_one O /\
  (forall a, q_conjugate I (q_conjugate I a) = a) /\
  (forall a, q_conjugate I a = a <-> snd a = zero).
Proof. exact (q_conj_automorphism O L I c IC). Qed.
(* a . conj(a) lies in the base field: the debug_assert of inv never fires; debug and release agree *)
Theorem C08_quad_norm_in_base : forall a, snd (q_norm I a) = zero.
Proof. exact (q_norm_in_base O L I c IC). Qed.
Theorem C08_quad_inv_no_panic : forall dbg a, q_inv O I dbg a = q_inv O I false a /\ q_inv O I dbg a <> None.
Proof. exact (q_inv_no_panic O L I c IC). Qed.
Theorem C08_quad_inv_zero : forall dbg, q_inv O I dbg (q_zero O) = Some (q_zero O).
Proof. exact (q_inv_zero O L I). Qed.
(* (a == b) iff the coefficients are equal *)
Theorem C08_quad_eqb_spec : forall a b, q_eqb O a b = true <-> a = b.
Proof. exact (q_eqb_spec O L). Qed.
(* every non-zero element has an inverse, provided the discriminant 1 + 4c is not a square (irreducibility) *)
Theorem C08_quad_inv_spec : (forall s, s *f s <> qs_disc O c) ->
  forall dbg a, a <> q_zero O -> exists ia, q_inv O I dbg a = Some ia /\ q_mul I a ia = q_one O.
Proof. exact (q_inv_spec O L I c IC). Qed.
Theorem C08_quad_div_spec : (forall s, s *f s <> qs_disc O c) ->
  forall dbg a b, b <> q_zero O -> exists d, q_div O I dbg a b = Some d /\ q_mul I d b = a.
Proof. exact (q_div_spec O L I c IC). Qed.
Theorem C08_quad_no_zero_div : (forall s, s *f s <> qs_disc O c) ->
  forall a b, q_mul I a b = q_zero O -> a = q_zero O \/ b = q_zero O.
Proof. exact (q_no_zero_div O L I c IC). Qed.
(* exp / exp_vartime = repeated multiplication (q_pow a n = a . a ... a, n factors) *)
Theorem C08_quad_exp_spec : forall a e, (0 <= e)%Z -> q_exp O I a e = q_pow O I a (Z.to_nat e).
Proof. exact (q_exp_spec O L I c IC). Qed.
(* packaged: the quadratic extension is itself a field in the sense of FieldOps.v (inv totalised by inv 0 = 0), so
   every theorem stated "for every FOps with FLaws" (C20 polynomials, ...) applies to it *)
Theorem C08_quad_is_field : (forall s, s *f s <> qs_disc O c) -> FLaws (q_ops O I).
Proof. exact (q_laws O L I c IC). Qed.
End Quad.

(* ================================================================ A.3 CubeExtension<B>, any correct vtable *)
Section Cube.
Variable I : Ext3Impl F.
Variables u v k01 k02 k11 k12 k21 k22 : F.
Hypothesis IC : Ext3Correct O I u v k01 k02 k11 k12 k21 k22.
(* the finitely many constant equations: psi := frob(phi) = (k01,k11,k21), chi := frob(phi^2) = (k02,k12,k22);
   chi = psi^2, psi^3 = u psi + v, frob(frob(psi)) = phi *)
Local Notation Consts := (Frob3Consts O u v k01 k02 k11 k12 k21 k22).
(* (k11 - 1)(k22 - 1) - k12 k21 *)
Local Notation det := (cs_fix_det O k11 k12 k21 k22).

Theorem C08_cube_ring :
  @ring_theory (F * F * F)%type (c_zero O) (c_one O) (c_add O) (c_mul I) (c_sub O) (c_neg O) (@eq (F * F * F)).
Proof. exact (c_ring O L I _ _ _ _ _ _ _ _ IC). Qed.
Theorem C08_cube_square_spec : forall a, c_square I a = c_mul I a a.
Proof. exact (c_square_spec O I _ _ _ _ _ _ _ _ IC). Qed.
Theorem C08_cube_mul_base_spec : forall a b,
  c_mul_base I a b = c_mul I a (c_from_base O b) /\ c_mul_base I a b = (c0 a *f b, c1 a *f b, c2 a *f b).
Proof. intros; split. apply (c_mul_base_spec O I _ _ _ _ _ _ _ _ IC). apply (c_mul_base_coeff O L I _ _ _ _ _ _ _ _ IC). Qed.
Theorem C08_cube_double_spec : forall a, c_double O a = c_add O a a.
Proof. exact (c_double_spec O L). Qed.
Theorem C08_cube_embed_hom :
  c_from_base O zero = c_zero O /\ c_from_base O one = c_one O /\
  (forall x y, c_from_base O (x +f y) = c_add O (c_from_base O x) (c_from_base O y)) /\
  (forall x y, c_from_base O (x -f y) = c_sub O (c_from_base O x) (c_from_base O y)) /\
  (forall x, c_from_base O (fneg O x) = c_neg O (c_from_base O x)) /\
  (forall x y, c_from_base O (x *f y) = c_mul I (c_from_base O x) (c_from_base O y)) /\
  (forall x y, c_from_base O x = c_from_base O y -> x = y).
Proof. exact (c_embed_hom O L I _ _ _ _ _ _ _ _ IC). Qed.
Theorem C08_cube_conj_linear :
  (forall a b, c_conjugate I (c_add O a b) = c_add O (c_conjugate I a) (c_conjugate I b)) /\
  (forall x, c_conjugate I (c_from_base O x) = c_from_base O x) /\
  c_conjugate I (c_one O) = c_one O.
Proof. exact (c_conj_linear O L I _ _ _ _ _ _ _ _ IC). Qed.
Theorem C08_cube_conj_automorphism : Consts -> det <> zero ->
  (forall a b, c_conjugate I (c_mul I a b) = c_mul I (c_conjugate I a) (c_conjugate I b)) /\
  (forall a, c_conjugate I (c_conjugate I (c_conjugate I a)) = a) /\
  (forall a, c_conjugate I a = a <-> (c1 a = zero /\ c2 a = zero)).
Proof. exact (c_conj_automorphism O L I _ _ _ _ _ _ _ _ IC). Qed.
Theorem C08_cube_norm_in_base : Consts -> det <> zero ->
  forall a, c1 (c_norm I a) = zero /\ c2 (c_norm I a) = zero.
Proof. exact (c_norm_in_base O L I _ _ _ _ _ _ _ _ IC). Qed.
Theorem C08_cube_inv_no_panic : Consts -> det <> zero ->
  forall dbg a, c_inv O I dbg a = c_inv O I false a /\ c_inv O I dbg a <> None.
Proof. exact (c_inv_no_panic O L I _ _ _ _ _ _ _ _ IC). Qed.
Theorem C08_cube_inv_zero : forall dbg, c_inv O I dbg (c_zero O) = Some (c_zero O).
Proof. exact (c_inv_zero O L I). Qed.
Theorem C08_cube_eqb_spec : forall a b, c_eqb O a b = true <-> a = b.
Proof. exact (c_eqb_spec O L). Qed.
(* every non-zero element has an inverse, provided x^3 - u x - v has no root in F (irreducibility of a cubic) *)
Theorem C08_cube_inv_spec : Consts -> det <> zero -> cs_no_root O u v ->
  forall dbg a, a <> c_zero O -> exists ia, c_inv O I dbg a = Some ia /\ c_mul I a ia = c_one O.
Proof. exact (c_inv_spec O L I _ _ _ _ _ _ _ _ IC). Qed.
Theorem C08_cube_div_spec : Consts -> det <> zero -> cs_no_root O u v ->
  forall dbg a b, b <> c_zero O -> exists d, c_div O I dbg a b = Some d /\ c_mul I d b = a.
Proof. exact (c_div_spec O L I _ _ _ _ _ _ _ _ IC). Qed.
Theorem C08_cube_no_zero_div : cs_no_root O u v ->
  forall a b, c_mul I a b = c_zero O -> a = c_zero O \/ b = c_zero O.
Proof. exact (c_no_zero_div O L I _ _ _ _ _ _ _ _ IC). Qed.
Theorem C08_cube_exp_spec : forall a e, (0 <= e)%Z -> c_exp O I a e = c_pow O I a (Z.to_nat e).
Proof. exact (c_exp_spec O L I _ _ _ _ _ _ _ _ IC). Qed.
Theorem C08_cube_is_field : Consts -> det <> zero -> cs_no_root O u v -> FLaws (c_ops O I).
Proof. exact (c_laws O L I _ _ _ _ _ _ _ _ IC). Qed.
End Cube.

(* ================================================================ A.4 slices (list model of the zero-copy casts) *)
Theorem C08_quad_slice_roundtrip :
  (forall l : list (F * F), q_slice_from_base (q_slice_as_base l) = Some l) /\
  (forall (l : list F) g, q_slice_from_base l = Some g -> q_slice_as_base g = l) /\
  (forall l : list F, q_slice_from_base l = None <-> (length l mod 2 <> 0)%nat) /\
  (forall l : list (F * F), length (q_slice_as_base l) = (2 * length l)%nat).
Proof.
  exact (conj q_slice_roundtrip_ext (conj q_slice_roundtrip_base (conj q_slice_from_base_panics_iff q_slice_as_base_length))).
Qed.
Theorem C08_cube_slice_roundtrip :
  (forall l : list (F * F * F), c_slice_from_base (c_slice_as_base l) = Some l) /\
  (forall (l : list F) g, c_slice_from_base l = Some g -> c_slice_as_base g = l) /\
  (forall l : list F, c_slice_from_base l = None <-> (length l mod 3 <> 0)%nat) /\
  (forall l : list (F * F * F), length (c_slice_as_base l) = (3 * length l)%nat).
Proof.
  exact (conj c_slice_roundtrip_ext (conj c_slice_roundtrip_base (conj c_slice_from_base_panics_iff c_slice_as_base_length))).
Qed.
End C08.

Print Assumptions C08_f64_ext2_mul_spec.
Print Assumptions C08_f62_ext2_mul_spec.
Print Assumptions C08_f128_ext2_mul_spec.
Print Assumptions C08_f64_ext3_mul_spec.
Print Assumptions C08_f62_ext3_mul_spec.
Print Assumptions C08_f64_ext2_square_spec.
Print Assumptions C08_f64_ext3_square_spec.
Print Assumptions C08_ext_mul_base_spec.
Print Assumptions C08_f64_x2_correct.
Print Assumptions C08_f62_x2_correct.
Print Assumptions C08_f128_x2_correct.
Print Assumptions C08_f64_x3_correct.
Print Assumptions C08_f62_x3_correct.
Print Assumptions C08_quad_ring.
Print Assumptions C08_quad_square_spec.
Print Assumptions C08_quad_mul_base_spec.
Print Assumptions C08_quad_double_spec.
Print Assumptions C08_quad_embed_hom.
Print Assumptions C08_quad_conj_automorphism.
Print Assumptions C08_quad_norm_in_base.
Print Assumptions C08_quad_inv_no_panic.
Print Assumptions C08_quad_inv_zero.
Print Assumptions C08_quad_eqb_spec.
Print Assumptions C08_quad_inv_spec.
Print Assumptions C08_quad_div_spec.
Print Assumptions C08_quad_no_zero_div.
Print Assumptions C08_quad_exp_spec.
Print Assumptions C08_quad_is_field.
Print Assumptions C08_cube_ring.
Print Assumptions C08_cube_square_spec.
Print Assumptions C08_cube_mul_base_spec.
Print Assumptions C08_cube_double_spec.
Print Assumptions C08_cube_embed_hom.
Print Assumptions C08_cube_conj_linear.
Print Assumptions C08_cube_conj_automorphism.
Print Assumptions C08_cube_norm_in_base.
Print Assumptions C08_cube_inv_no_panic.
Print Assumptions C08_cube_inv_zero.
Print Assumptions C08_cube_eqb_spec.
Print Assumptions C08_cube_inv_spec.
Print Assumptions C08_cube_div_spec.
Print Assumptions C08_cube_no_zero_div.
Print Assumptions C08_cube_exp_spec.
Print Assumptions C08_cube_is_field.
Print Assumptions C08_quad_slice_roundtrip.
Print Assumptions C08_cube_slice_roundtrip.

(* ================================================================ B. the concrete fields: every hypothesis discharged *)
(* B.0 the hypothesis FLaws is satisfiable by the three base fields (ZpLaws.v; primality in NumTheoryPrime.v) *)
Theorem C08_base_fields_are_fields : FLaws F64_ops /\ FLaws F62_ops /\ FLaws F128_ops.
Proof. exact (conj F64_laws (conj F62_laws F128_laws)). Qed.
Print Assumptions C08_base_fields_are_fields.

(* B.1 irreducibility, quadratic: the discriminants -7 (x^2 - x + 2) and 5 (x^2 - x - 1) are non-residues:
   d^((p-1)/2) = p - 1 (kernel computation) and no element squares to d (Euler criterion via Fermat) *)
Theorem C08_quad_irreducible :
  (zp_val (qs_disc F64_ops (fneg2 F64_ops)) = P64 - 7 /\ zpow_mod P64 (P64 - 7) ((P64 - 1) / 2) = P64 - 1)%Z /\
  (zp_val (qs_disc F62_ops (fone F62_ops)) = 5 /\ zpow_mod P62 5 ((P62 - 1) / 2) = P62 - 1)%Z /\
  (zp_val (qs_disc F128_ops (fone F128_ops)) = 5 /\ zpow_mod P128 5 ((P128 - 1) / 2) = P128 - 1)%Z /\
  (forall s, fmul F64_ops s s <> qs_disc F64_ops (fneg2 F64_ops)) /\
  (forall s, fmul F62_ops s s <> qs_disc F62_ops (fone F62_ops)) /\
  (forall s, fmul F128_ops s s <> qs_disc F128_ops (fone F128_ops)).
Proof.
  exact (conj f64_disc_val (conj f62_disc_val (conj f128_disc_val
        (conj f64_disc_nonsquare (conj f62_disc_nonsquare f128_disc_nonsquare))))).
Qed.
Print Assumptions C08_quad_irreducible.

(* B.2 the SageMath Frobenius constants of the cubic extensions satisfy the constant equations, the fixed-point
   determinant is a unit, and the constants ARE phi^p and (phi^2)^p (square-and-multiply with the generated
   mul/square through the model's exp): Frobenius is x |-> x^p.  Quadratic: phi^p = 1 - phi. *)
Theorem C08_f64_frob3_consts :
  Frob3Consts F64_ops (fone F64_ops) (fone F64_ops)
    (f64_k01 F64_ops) (f64_k02 F64_ops) (f64_k11 F64_ops) (f64_k12 F64_ops) (f64_k21 F64_ops) (f64_k22 F64_ops) /\
  cs_fix_det F64_ops (f64_k11 F64_ops) (f64_k12 F64_ops) (f64_k21 F64_ops) (f64_k22 F64_ops) <> fzero F64_ops.
Proof. exact (conj f64_frob3_consts f64_fix_det). Qed.
Print Assumptions C08_f64_frob3_consts.
Theorem C08_f62_frob3_consts :
  Frob3Consts F62_ops (fneg2 F62_ops) (fneg2 F62_ops)
    (f62_k01 F62_ops) (f62_k02 F62_ops) (f62_k11 F62_ops) (f62_k12 F62_ops) (f62_k21 F62_ops) (f62_k22 F62_ops) /\
  cs_fix_det F62_ops (f62_k11 F62_ops) (f62_k12 F62_ops) (f62_k21 F62_ops) (f62_k22 F62_ops) <> fzero F62_ops.
Proof. exact (conj f62_frob3_consts f62_fix_det). Qed.
Print Assumptions C08_f62_frob3_consts.

Theorem C08_frob_consts_spec :
  (c_exp F64_ops (f64_x3 F64_ops) (phi F64_ops) P64 = f64_ext3_frobenius F64_ops (phi F64_ops) /\
   c_exp F64_ops (f64_x3 F64_ops) (phi2 F64_ops) P64 = f64_ext3_frobenius F64_ops (phi2 F64_ops)) /\
  (c_exp F62_ops (f62_x3 F62_ops) (phi F62_ops) P62 = f62_ext3_frobenius F62_ops (phi F62_ops) /\
   c_exp F62_ops (f62_x3 F62_ops) (phi2 F62_ops) P62 = f62_ext3_frobenius F62_ops (phi2 F62_ops)) /\
  q_exp F64_ops (f64_x2 F64_ops) (fzero F64_ops, fone F64_ops) P64 = f64_ext2_frobenius F64_ops (fzero F64_ops, fone F64_ops) /\
  q_exp F62_ops (f62_x2 F62_ops) (fzero F62_ops, fone F62_ops) P62 = f62_ext2_frobenius F62_ops (fzero F62_ops, fone F62_ops) /\
  q_exp F128_ops (f128_x2 F128_ops) (fzero F128_ops, fone F128_ops) P128 = f128_ext2_frobenius F128_ops (fzero F128_ops, fone F128_ops).
Proof. exact frob_consts_all. Qed.
Print Assumptions C08_frob_consts_spec.

(* B.3 irreducibility, cubic: x^3 - x - 1 has no root mod P64, x^3 + 2x + 2 has no root mod P62 *)
Theorem C08_cubic_irreducible :
  cs_no_root F64_ops (fone F64_ops) (fone F64_ops) /\ cs_no_root F62_ops (fneg2 F62_ops) (fneg2 F62_ops).
Proof. exact (conj f64_cubic_no_root f62_cubic_no_root). Qed.
Print Assumptions C08_cubic_irreducible.

(* B.4 every non-zero element has an inverse, inv never panics, for the five extension fields *)
Theorem C08_f64_quad_inv_spec : forall dbg a, a <> q_zero F64_ops ->
  exists ia, q_inv F64_ops (f64_x2 F64_ops) dbg a = Some ia /\ f64_ext2_mul F64_ops a ia = q_one F64_ops.
Proof. exact f64_quad_inv_spec. Qed.
Print Assumptions C08_f64_quad_inv_spec.
Theorem C08_f62_quad_inv_spec : forall dbg a, a <> q_zero F62_ops ->
  exists ia, q_inv F62_ops (f62_x2 F62_ops) dbg a = Some ia /\ f62_ext2_mul F62_ops a ia = q_one F62_ops.
Proof. exact f62_quad_inv_spec. Qed.
Print Assumptions C08_f62_quad_inv_spec.
Theorem C08_f128_quad_inv_spec : forall dbg a, a <> q_zero F128_ops ->
  exists ia, q_inv F128_ops (f128_x2 F128_ops) dbg a = Some ia /\ f128_ext2_mul F128_ops a ia = q_one F128_ops.
Proof. exact f128_quad_inv_spec. Qed.
Print Assumptions C08_f128_quad_inv_spec.
Theorem C08_f64_cube_inv_spec : forall dbg a, a <> c_zero F64_ops ->
  exists ia, c_inv F64_ops (f64_x3 F64_ops) dbg a = Some ia /\ f64_ext3_mul F64_ops a ia = c_one F64_ops.
Proof. exact f64_cube_inv_spec. Qed.
Print Assumptions C08_f64_cube_inv_spec.
Theorem C08_f62_cube_inv_spec : forall dbg a, a <> c_zero F62_ops ->
  exists ia, c_inv F62_ops (f62_x3 F62_ops) dbg a = Some ia /\ f62_ext3_mul F62_ops a ia = c_one F62_ops.
Proof. exact f62_cube_inv_spec. Qed.
Print Assumptions C08_f62_cube_inv_spec.

(* B.4' hence the five extension fields are fields (FLaws instances usable by every generic theorem of /verif) *)
Theorem C08_extension_fields_are_fields :
  FLaws (q_ops F64_ops (f64_x2 F64_ops)) /\ FLaws (q_ops F62_ops (f62_x2 F62_ops)) /\
  FLaws (q_ops F128_ops (f128_x2 F128_ops)) /\
  FLaws (c_ops F64_ops (f64_x3 F64_ops)) /\ FLaws (c_ops F62_ops (f62_x3 F62_ops)).
Proof. exact (conj f64_quad_laws (conj f62_quad_laws (conj f128_quad_laws (conj f64_cube_laws f62_cube_laws)))). Qed.
Print Assumptions C08_extension_fields_are_fields.

(* B.5 cubic conjugation is a field automorphism of order 3 fixing exactly the base field; the norm is in the base
   field (the debug_asserts of CubeExtension::inv never fire); no zero divisors *)
Theorem C08_f64_cube_conj_automorphism :
  (forall a b, f64_ext3_frobenius F64_ops (f64_ext3_mul F64_ops a b) =
               f64_ext3_mul F64_ops (f64_ext3_frobenius F64_ops a) (f64_ext3_frobenius F64_ops b)) /\
  (forall a, f64_ext3_frobenius F64_ops (f64_ext3_frobenius F64_ops (f64_ext3_frobenius F64_ops a)) = a) /\
  (forall a, f64_ext3_frobenius F64_ops a = a <-> (c1 a = fzero F64_ops /\ c2 a = fzero F64_ops)).
Proof. exact f64_cube_conj_automorphism. Qed.
Print Assumptions C08_f64_cube_conj_automorphism.
Theorem C08_f62_cube_conj_automorphism :
  (forall a b, f62_ext3_frobenius F62_ops (f62_ext3_mul F62_ops a b) =
               f62_ext3_mul F62_ops (f62_ext3_frobenius F62_ops a) (f62_ext3_frobenius F62_ops b)) /\
  (forall a, f62_ext3_frobenius F62_ops (f62_ext3_frobenius F62_ops (f62_ext3_frobenius F62_ops a)) = a) /\
  (forall a, f62_ext3_frobenius F62_ops a = a <-> (c1 a = fzero F62_ops /\ c2 a = fzero F62_ops)).
Proof. exact f62_cube_conj_automorphism. Qed.
Print Assumptions C08_f62_cube_conj_automorphism.
Theorem C08_cube_norm_in_base_concrete :
  (forall a, c1 (c_norm (f64_x3 F64_ops) a) = fzero F64_ops /\ c2 (c_norm (f64_x3 F64_ops) a) = fzero F64_ops) /\
  (forall a, c1 (c_norm (f62_x3 F62_ops) a) = fzero F62_ops /\ c2 (c_norm (f62_x3 F62_ops) a) = fzero F62_ops).
Proof. exact (conj f64_cube_norm_in_base f62_cube_norm_in_base). Qed.
Print Assumptions C08_cube_norm_in_base_concrete.
Theorem C08_cube_no_zero_div_concrete :
  (forall a b, f64_ext3_mul F64_ops a b = c_zero F64_ops -> a = c_zero F64_ops \/ b = c_zero F64_ops) /\
  (forall a b, f62_ext3_mul F62_ops a b = c_zero F62_ops -> a = c_zero F62_ops \/ b = c_zero F62_ops).
Proof. exact (conj f64_cube_no_zero_div f62_cube_no_zero_div). Qed.
Print Assumptions C08_cube_no_zero_div_concrete.

(* B.6 what is proved is what is run: the sigma-type instance and the executable `zp_ops p` instance of the generated
   terms agree coefficient-wise on values (val2 / val3 = the canonical residues) *)
Theorem C08_executable_instance_agrees :
  (forall a b, val2 (f64_ext2_mul F64_ops a b) = f64_ext2_mul (zp_ops P64) (val2 a) (val2 b)) /\
  (forall a, val2 (f64_ext2_square F64_ops a) = f64_ext2_square (zp_ops P64) (val2 a)) /\
  (forall a, val2 (f64_ext2_frobenius F64_ops a) = f64_ext2_frobenius (zp_ops P64) (val2 a)) /\
  (forall a b, val3 (f64_ext3_mul F64_ops a b) = f64_ext3_mul (zp_ops P64) (val3 a) (val3 b)) /\
  (forall a, val3 (f64_ext3_square F64_ops a) = f64_ext3_square (zp_ops P64) (val3 a)) /\
  (forall a, val3 (f64_ext3_frobenius F64_ops a) = f64_ext3_frobenius (zp_ops P64) (val3 a)) /\
  (forall a b, val2 (f62_ext2_mul F62_ops a b) = f62_ext2_mul (zp_ops P62) (val2 a) (val2 b)) /\
  (forall a, val2 (f62_ext2_frobenius F62_ops a) = f62_ext2_frobenius (zp_ops P62) (val2 a)) /\
  (forall a b, val3 (f62_ext3_mul F62_ops a b) = f62_ext3_mul (zp_ops P62) (val3 a) (val3 b)) /\
  (forall a, val3 (f62_ext3_frobenius F62_ops a) = f62_ext3_frobenius (zp_ops P62) (val3 a)) /\
  (forall a b, val2 (f128_ext2_mul F128_ops a b) = f128_ext2_mul (zp_ops P128) (val2 a) (val2 b)) /\
  (forall a, val2 (f128_ext2_frobenius F128_ops a) = f128_ext2_frobenius (zp_ops P128) (val2 a)) /\
  (forall dbg a, oval2 (q_inv F64_ops (f64_x2 F64_ops) dbg a) = q_inv (zp_ops P64) (f64_x2 (zp_ops P64)) dbg (val2 a)) /\
  (forall dbg a, oval3 (c_inv F64_ops (f64_x3 F64_ops) dbg a) = c_inv (zp_ops P64) (f64_x3 (zp_ops P64)) dbg (val3 a)).
Proof. exact executable_instance_agrees. Qed.
Print Assumptions C08_executable_instance_agrees.

(* B.6' the inverse theorems restated on the executable instance itself (plain Z, canonical residues) *)
Theorem C08_inv_spec_executable :
  (forall dbg a0 a1, 0 <= a0 < P64 -> 0 <= a1 < P64 -> (a0, a1) <> (0, 0) ->
     exists ia, q_inv (zp_ops P64) (f64_x2 (zp_ops P64)) dbg (a0, a1) = Some ia /\
                f64_ext2_mul (zp_ops P64) (a0, a1) ia = (1, 0))%Z /\
  (forall dbg a0 a1, 0 <= a0 < P62 -> 0 <= a1 < P62 -> (a0, a1) <> (0, 0) ->
     exists ia, q_inv (zp_ops P62) (f62_x2 (zp_ops P62)) dbg (a0, a1) = Some ia /\
                f62_ext2_mul (zp_ops P62) (a0, a1) ia = (1, 0))%Z /\
  (forall dbg a0 a1, 0 <= a0 < P128 -> 0 <= a1 < P128 -> (a0, a1) <> (0, 0) ->
     exists ia, q_inv (zp_ops P128) (f128_x2 (zp_ops P128)) dbg (a0, a1) = Some ia /\
                f128_ext2_mul (zp_ops P128) (a0, a1) ia = (1, 0))%Z /\
  (forall dbg a0 a1 a2, 0 <= a0 < P64 -> 0 <= a1 < P64 -> 0 <= a2 < P64 -> (a0, a1, a2) <> (0, 0, 0) ->
     exists ia, c_inv (zp_ops P64) (f64_x3 (zp_ops P64)) dbg (a0, a1, a2) = Some ia /\
                f64_ext3_mul (zp_ops P64) (a0, a1, a2) ia = (1, 0, 0))%Z /\
  (forall dbg a0 a1 a2, 0 <= a0 < P62 -> 0 <= a1 < P62 -> 0 <= a2 < P62 -> (a0, a1, a2) <> (0, 0, 0) ->
     exists ia, c_inv (zp_ops P62) (f62_x3 (zp_ops P62)) dbg (a0, a1, a2) = Some ia /\
                f62_ext3_mul (zp_ops P62) (a0, a1, a2) ia = (1, 0, 0))%Z.
Proof.
  exact (conj f64_quad_inv_exec (conj f62_quad_inv_exec (conj f128_quad_inv_exec (conj f64_cube_inv_exec f62_cube_inv_exec)))).
Qed.
Print Assumptions C08_inv_spec_executable.

(* B.7 serialization round trips (canonical residues; p <= 256^nb) *)
Theorem C08_serde_roundtrip : forall p nb, (0 < p <= 256 ^ Z.of_nat nb)%Z ->
  (forall a rest, (0 <= fst a < p)%Z -> (0 <= snd a < p)%Z -> q_read p nb (q_write nb a ++ rest) = Some (a, rest)) /\
  (forall a, (0 <= fst a < p)%Z -> (0 <= snd a < p)%Z -> q_try_from_bytes p nb (q_write nb a) = Some a) /\
  (forall a rest, (0 <= c0 a < p)%Z -> (0 <= c1 a < p)%Z -> (0 <= c2 a < p)%Z ->
     c_read p nb (c_write nb a ++ rest) = Some (a, rest)) /\
  (forall a, (0 <= c0 a < p)%Z -> (0 <= c1 a < p)%Z -> (0 <= c2 a < p)%Z -> c_try_from_bytes p nb (c_write nb a) = Some a) /\
  (forall bs v rest, (forall b, In b bs -> (0 <= b)%Z) -> base_read p nb bs = Some (v, rest) -> (0 <= v < p)%Z).
Proof.
  intros p nb H.
  exact (conj (q_read_write p nb H) (conj (q_try_from_bytes_write p nb H) (conj (c_read_write p nb H)
        (conj (c_try_from_bytes_write p nb H) (base_read_canonical p nb))))).
Qed.
Print Assumptions C08_serde_roundtrip.

(* converse: a successful read consumed exactly the canonical encoding of the element it returns *)
Theorem C08_serde_read_inv : forall p nb,
  (forall bs a rest, (forall b, In b bs -> 0 <= b < 256)%Z -> q_read p nb bs = Some (a, rest) ->
     bs = q_write nb a ++ rest /\ (0 <= fst a < p)%Z /\ (0 <= snd a < p)%Z) /\
  (forall bs a rest, (forall b, In b bs -> 0 <= b < 256)%Z -> c_read p nb bs = Some (a, rest) ->
     bs = c_write nb a ++ rest /\ (0 <= c0 a < p)%Z /\ (0 <= c1 a < p)%Z /\ (0 <= c2 a < p)%Z).
Proof. intros p nb. exact (conj (q_read_inv p nb) (c_read_inv p nb)). Qed.
Print Assumptions C08_serde_read_inv.

(* ================================================================ non-vacuity: instances computed by the kernel on
   the executable instance `zp_ops P64` / `zp_ops P62` / `zp_ops P128` (canonical residues) *)
Local Open Scope Z_scope.
Example ex_f64_quad_boundary :   (* (p-1, p-1) * (p-1, p-1), its inverse, conjugate; x^2 = x - 2 *)
  let O := zp_ops P64 in let I := f64_x2 O in let a := (P64 - 1, P64 - 1) in
  q_mul I a a = (P64 - 1, 3) /\ q_square I a = q_mul I a a /\
  option_map (q_mul I a) (q_inv O I true a) = Some (1, 0) /\
  q_conjugate I a = (P64 - 2, 1) /\ q_norm I a = (4, 0) /\
  q_mul I (0, 1) (0, 1) = (P64 - 2, 1) /\ q_inv O I true (0, 0) = Some (0, 0).
Proof. cbv zeta. vm_compute. repeat split. Qed.

Example ex_f64_cube_boundary :   (* x * x^2 = x + 1; inverse of (p-1, 0, p-1); norm in base; frobenius of order 3 *)
  let O := zp_ops P64 in let I := f64_x3 O in let a := (P64 - 1, 0, P64 - 1) in
  c_mul I (0, 1, 0) (0, 0, 1) = (1, 1, 0) /\ c_square I a = c_mul I a a /\
  option_map (c_mul I a) (c_inv O I true a) = Some (1, 0, 0) /\
  c1 (c_norm I a) = 0 /\ c2 (c_norm I a) = 0 /\ c0 (c_norm I a) <> 0 /\
  c_conjugate I (c_conjugate I (c_conjugate I a)) = a /\ c_conjugate I a <> a /\
  c_conjugate I (7, 0, 0) = (7, 0, 0).
Proof. cbv zeta. vm_compute. repeat split; discriminate. Qed.

Example ex_f62_f128 :            (* x^2 = x + 1 (f62, f128), x^3 = -2x - 2 (f62) *)
  q_mul (f62_x2 (zp_ops P62)) (0, 1) (0, 1) = (1, 1) /\
  q_mul (f128_x2 (zp_ops P128)) (0, 1) (0, 1) = (1, 1) /\
  c_mul (f62_x3 (zp_ops P62)) (0, 1, 0) (0, 0, 1) = (P62 - 2, P62 - 2, 0) /\
  option_map (c_mul (f62_x3 (zp_ops P62)) (0, P62 - 1, 1)) (c_inv (zp_ops P62) (f62_x3 (zp_ops P62)) true (0, P62 - 1, 1))
    = Some (1, 0, 0) /\
  option_map (q_mul (f128_x2 (zp_ops P128)) (P128 - 1, 2)) (q_inv (zp_ops P128) (f128_x2 (zp_ops P128)) true (P128 - 1, 2))
    = Some (1, 0).
Proof. vm_compute. repeat split. Qed.

Example ex_slices_serde :
  q_slice_as_base [(1, 2); (3, 4)] = [1; 2; 3; 4] /\ q_slice_from_base [1; 2; 3; 4] = Some [(1, 2); (3, 4)] /\
  q_slice_from_base [1; 2; 3] = None /\ c_slice_from_base [1; 2; 3; 4; 5; 6] = Some [(1, 2, 3); (4, 5, 6)] /\
  c_slice_from_base [1; 2; 3; 4] = None /\
  q_try_from_bytes P64 8 (q_write 8 (P64 - 1, 1)) = Some (P64 - 1, 1) /\
  q_try_from_bytes P64 8 (to_le_bytes 8 P64 ++ to_le_bytes 8 1) = None /\        (* non-canonical coefficient *)
  q_try_from_bytes P64 8 (q_write 8 (1, 2) ++ [0]) = None.                      (* wrong length *)
Proof. vm_compute. repeat split. Qed.
