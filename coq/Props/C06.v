(* Props/C06.v — Untrusted input: parsing and verifying arbitrary bytes never panics or aborts.
   Model: coq/Model/Untrusted.v (stage 2 and 3) over coq/Model/Codec.v (stage 1, property C12). *)
From VBase Require Import MachInt.
From VModel Require Import Codec Untrusted.
From VProofs Require Import CodecTypes CodecTotal UntrustedParse.
Open Scope Z_scope.

(* ------------------------------------------------------------------------------------------ stage 1 *)
Theorem C06_parse_total : forall bs, is_bytes bs -> parse bs <> Panic.
Proof. exact parse_total. Qed.
Print Assumptions C06_parse_total.
