(* Props/C06.v — Untrusted input: parsing and verifying arbitrary bytes never panics or aborts.
   Model: coq/Model/Untrusted.v (stage 2: typed parsers, stage 3: verifier control flow on shapes, allocation accounting)
   over coq/Model/Codec.v (stage 1: the byte readers, property C12).  The model is the REPAIRED code (fixes/c06-*.diff);
   the section "refuted" states by computation that each repaired check is necessary.
   One panic remains reachable and is an open finding: Air::new cannot return an error, so a proof whose context is not the
   one the AIR was written for (predicate [Known]) panics in the AIR's constructor. *)
From VBase Require Import MachInt.
From VModel Require Import Codec Untrusted.
From VProofs Require Import CodecTypes CodecTotal UntrustedParse UntrustedTyped UntrustedVerify UntrustedAlloc UntrustedRefuted UntrustedBulk UntrustedCanon.
Open Scope Z_scope.

(* ================================================================================== stage 1: Proof::from_bytes *)
(* every byte string is answered with Ok or Err *)
Theorem C06_parse_total : forall bs, is_bytes bs -> parse bs <> Panic.
Proof. exact parse_total. Qed.
Print Assumptions C06_parse_total.

(* what every parsed proof satisfies (the facts the later stages rely on: validated context, counts in range, exactly one
   set of trace queries per segment, partition exponent < 64, blobs of bytes) *)
Theorem C06_parse_inv : forall bs p, is_bytes bs -> parse bs = Ok p -> proof_inv p.
Proof. exact parse_inv. Qed.
Print Assumptions C06_parse_inv.

(* SliceReader::check_eor adds position and length WITHOUT an overflow check.  read_Proof_chk = read_Proof with that
   addition explicit (Panic on overflow) at every bulk read (read_vec / read_slice with a length taken from the input):
   it is read_Proof on every input a slice can hold, i.e. no bulk read with an untrusted unbounded length is reachable
   (every such length comes from a field of at most 4 bytes; the vint64 length of the GKR proof is consumed element-wise) *)
Theorem C06_no_untrusted_bulk_read : forall bs, is_bytes bs -> len bs < 2 ^ 63 -> read_Proof_chk (len bs) bs = read_Proof bs.
Proof. exact read_Proof_chk_eq. Qed.
Print Assumptions C06_no_untrusted_bulk_read.

(* ... and the bulk read of a vint64 length is not harmless: tag, 9-byte length 2^64 - 10 at the end of a 10-byte source *)
Theorem C06_gkr_bulk_read_refuted :
  read_gkr_bulk 10 [1; 0; 246; 255; 255; 255; 255; 255; 255; 255] = Panic /\
  read_option (read_vec_of read_u8) [1; 0; 246; 255; 255; 255; 255; 255; 255; 255] = Err Eof.
Proof. exact gkr_bulk_read_refuted. Qed.
Print Assumptions C06_gkr_bulk_read_refuted.

(* total capacity requested while parsing <= c * |bytes| + k with c = 25, k = 131680, whatever lengths the bytes claim *)
Theorem C06_parse_alloc_bounded : forall bs, 0 <= parse_alloc bs <= 25 * len bs + 131680.
Proof. intros bs. rewrite <- alloc_bound_constants. apply parse_alloc_bounded. Qed.
Print Assumptions C06_parse_alloc_bounded.
(* the accounting is an annotation of the reader: it returns exactly the result of Proof::from_bytes on every input *)
Theorem C06_parse_alloc_follows_parse : forall bs, parse_alloc_result bs = parse bs.
Proof. exact parse_alloc_follows_parse. Qed.
Print Assumptions C06_parse_alloc_follows_parse.
Example C06_parse_alloc_hostile_length :   (* a gkr length of 2^60: the bounded pre-allocation, not 2^60 bytes *)
  parse_alloc ([1; 0; 0; 3; 0; 0] ++ [8] ++ to_le_bytes 8 M64 ++ [1; 2; 0; 1; 2; 0] ++ [0] ++ [0; 0] ++
               [0; 0; 0; 0; 0; 0; 0; 0] ++ [0; 0; 0; 0; 0; 0; 0; 0] ++ [0; 0; 0; 0; 0; 0] ++ [0; 0; 0; 0] ++
               [0; 0; 0; 0; 0; 0; 0; 0] ++ [1; 0; 0; 0; 0; 0; 0; 0; 0; 16]) = 21 + 96 + 65536 + 512.
Proof. exact parse_alloc_hostile_length. Qed.

(* ======================================================================== stage 2: the typed parsers (typed_parse_total) *)
(* For ANY blob (of bytes) and ANY AIR-side parameters in the stated ranges the parser answers Ok or Err; the ranges are
   the `# Panics` sections of the functions (outside them the panic is real: C06_typed_ranges_exact). *)
Theorem C06_Commitments_parse_total : forall dl c nseg nlayers,
  is_bytes c -> 0 <= nlayers -> nlayers + 1 <= usize_max ->
  match Commitments_parse dl c nseg nlayers with
  | Ok (trace_roots, fri_roots) => trace_roots = Z.max 0 nseg /\ fri_roots = nlayers + 1
  | Err _ => True | Panic => False end.
Proof.
  intros dl c nseg nl Hc H0 H1. pose proof (Commitments_parse_safe dl c nseg nl Hc H0 H1) as H.
  destruct (Commitments_parse dl c nseg nl) as [[a b]| |]; auto.
Qed.
Print Assumptions C06_Commitments_parse_total.

Theorem C06_Queries_parse_total : forall F deg dl q domain_size num_queries values_per_query,
  queries_ok q -> is_pow2 domain_size = true -> 0 < values_per_query <= 255 -> 0 <= num_queries <= 255 ->
  0 <= elem_bytes F deg <= 2 ^ 32 ->
  match Queries_parse F deg dl q domain_size num_queries values_per_query with
  | Ok s => qs_rows s = num_queries /\ qs_cols s = values_per_query /\ 0 < num_queries
  | Err _ => True | Panic => False end.
Proof. exact Queries_parse_safe. Qed.
Print Assumptions C06_Queries_parse_total.

Theorem C06_OodFrame_parse_total : forall F deg f main_w aux_w num_evals,
  ood_ok f -> 0 < main_w -> 0 <= aux_w -> main_w + aux_w <= 2 ^ 32 -> 0 < num_evals ->
  match OodFrame_parse F deg f main_w aux_w num_evals with
  | Ok s => os_evals s = num_evals /\
            match os_lagrange s with
            | Some n => 0 < n /\ 1 <= aux_w /\ os_cur s = main_w + aux_w - 1
            | None => os_cur s = main_w + aux_w
            end
  | Err _ => True | Panic => False end.
Proof. exact OodFrame_parse_safe. Qed.
Print Assumptions C06_OodFrame_parse_total.

Theorem C06_FriProof_parse_total : forall F deg dl p domain_size folding_factor,
  fri_ok p -> is_pow2 domain_size = true -> is_pow2 folding_factor = true -> 1 < folding_factor <= 2 ^ 16 ->
  0 < elem_bytes F deg <= 2 ^ 32 ->
  (exists n, Fri_num_partitions p = Ok n /\ 1 <= n) /\
  Fri_parse_remainder F deg p <> Panic /\
  match Fri_parse_layers F deg dl p domain_size folding_factor with
  | Ok ls => length ls = length (fri_layers p) /\ Forall (fun s => 0 < ls_queries s) ls /\
             fold_chain (length (fri_layers p)) domain_size folding_factor
  | Err _ => True | Panic => False end.
Proof.
  intros F deg dl p d ff Hp Hd Hf Hff Heb. split; [|split].
  - apply Fri_num_partitions_ok. apply Hp.
  - apply (rsafe_not_panic (fun n => 1 <= n)). apply Fri_parse_remainder_safe; [exact Hp | lia].
  - exact (Fri_parse_layers_safe F deg dl p d ff Hp Hd Hf Hff Heb).
Qed.
Print Assumptions C06_FriProof_parse_total.

Theorem C06_draw_integers_total : forall num_values domain_size, is_pow2 domain_size = true ->
  draw_integers_shape num_values domain_size <> Panic.
Proof. intros nq d Hd. apply (rsafe_not_panic _ _ (draw_integers_safe nq d Hd)). Qed.
Print Assumptions C06_draw_integers_total.

(* the ranges are satisfiable, errors are errors, and outside the ranges the documented panics are real *)
Example C06_typed_ranges_exact :
  Queries_parse F64P 1 32 (mkQ [0] (to_le_bytes 8 5)) 16 1 1 = Ok (mkQS 1 1 4 []) /\
  Queries_parse F64P 1 32 (mkQ [0] (to_le_bytes 8 5)) 16 0 1 = Err Invalid /\
  Queries_parse F64P 1 32 (mkQ [0] (to_le_bytes 8 5)) 12 1 1 = Panic /\
  OodFrame_parse F64P 1 (mkOod (2 :: to_le_bytes 8 1 ++ to_le_bytes 8 2) [0] (to_le_bytes 8 3)) 1 0 1 = Ok (mkOS 1 None 1) /\
  OodFrame_parse F64P 1 (mkOod [1] [0] (to_le_bytes 8 3)) 1 0 1 = Err Invalid /\
  OodFrame_parse F64P 1 (mkOod [2] (1 :: to_le_bytes 8 1) (to_le_bytes 8 3)) 1 0 1 = Err Invalid /\
  OodFrame_parse F64P 1 (mkOod [2] [0] []) 0 0 1 = Panic /\
  Fri_parse_layers F64P 1 32 (mkFri [mkFL (to_le_bytes 8 1 ++ to_le_bytes 8 2) [0]] [] 0) 4 2 = Ok [mkLS 1 1 []] /\
  Fri_parse_layers F64P 1 32 (mkFri [mkFL [0] [0]; mkFL [0] [0]] [] 0) 2 4 = Err Invalid /\
  Fri_parse_layers F64P 1 32 (mkFri [] [] 0) 6 2 = Panic /\
  draw_integers_shape 15 16 = Ok 15 /\ draw_integers_shape 16 16 = Err Invalid /\ draw_integers_shape 3 12 = Panic /\
  Commitments_parse 2 [1; 2; 3; 4; 5; 6] 1 0 = Ok (1, 1) /\ Commitments_parse 2 [] 1 usize_max = Panic.
Proof. exact typed_ranges_nonvacuous. Qed.

(* the model's num_fri_layers loop never runs out of fuel: it is the while loop of FriOptions::num_fri_layers *)
Theorem C06_num_fri_layers_fuel : forall extra lde ff rmd bf, 0 <= lde < 2 ^ 64 -> 2 <= ff -> 0 <= (rmd + 1) * bf ->
  nfl_loop (64 + extra) lde ff ((rmd + 1) * bf) = num_fri_layers lde ff rmd bf.
Proof. exact num_fri_layers_fuel. Qed.
Print Assumptions C06_num_fri_layers_fuel.

(* ---------------------------------------------------------- canonical field elements (coverage round, 2026-09-26) *)
(* The element reader of every typed parser rejects EXACTLY the non-canonical words.  [word_ok k w]: w is a k-byte
   word; [elem_ok F deg ws]: deg words of the base field's width; [canonical M w := w <? M].  Whatever bytes follow. *)
Theorem C06_read_elem_rejects_exactly_noncanonical : forall F deg ws rest, elem_ok F deg ws ->
  read_elem F deg (write_elem F ws ++ rest) = if forallb (canonical (fp_mod F)) ws then Ok (ws, rest) else Err Invalid.
Proof. exact read_elem_exact. Qed.
Print Assumptions C06_read_elem_rejects_exactly_noncanonical.

(* ... hence a component of n elements (OOD trace states / evaluations / Lagrange kernel states, opened trace and
   constraint rows, FRI remainder) is read exactly when every base-field word of every element is canonical *)
Theorem C06_read_elems_rejects_exactly_noncanonical : forall F deg es rest, Forall (elem_ok F deg) es ->
  read_many (read_elem F deg) (Z.of_nat (length es)) (write_elems F es ++ rest) =
  if elems_canonical F es then Ok (es, rest) else Err Invalid.
Proof. exact read_elems_exact. Qed.
Print Assumptions C06_read_elems_rejects_exactly_noncanonical.

(* ... and so are the rows of a FRI layer (folding_factor elements per row) *)
Theorem C06_read_rows_rejects_exactly_noncanonical : forall F deg ff rows rest, Forall (row_ok F deg ff) rows ->
  read_many (read_many (read_elem F deg) (Z.of_nat ff)) (Z.of_nat (length rows)) (write_rows F rows ++ rest) =
  if rows_canonical F rows then Ok (rows, rest) else Err Invalid.
Proof. exact read_rows_exact. Qed.
Print Assumptions C06_read_rows_rejects_exactly_noncanonical.

(* at the level of a typed parser: FriProof::parse_remainder on a remainder of 2^k elements *)
Theorem C06_Fri_parse_remainder_canonical_exact : forall F deg ls np es,
  0 < elem_bytes F deg -> Forall (elem_ok F deg) es -> is_pow2 (Z.of_nat (length es)) = true ->
  Fri_parse_remainder F deg (mkFri ls (write_elems F es) np) =
  if elems_canonical F es then Ok (Z.of_nat (length es)) else Err Invalid.
Proof. exact Fri_parse_remainder_exact. Qed.
Print Assumptions C06_Fri_parse_remainder_canonical_exact.

(* both branches are inhabited; the four value kinds of the generators (modulus, modulus + 1, all ones, modulus + v) *)
Example C06_noncanonical_value_kinds :
  (Fri_parse_remainder F64P 1 (mkFri [] (write_elems F64P [[5]; [7]]) 0) = Ok 2) /\
  (Fri_parse_remainder F64P 1 (mkFri [] (write_elems F64P [[5]; [M64 - 1]]) 0) = Ok 2) /\
  (Fri_parse_remainder F64P 1 (mkFri [] (write_elems F64P [[5]; [M64]]) 0) = Err Invalid) /\
  (Fri_parse_remainder F64P 1 (mkFri [] (write_elems F64P [[5]; [M64 + 1]]) 0) = Err Invalid) /\
  (Fri_parse_remainder F64P 1 (mkFri [] (write_elems F64P [[5]; [2 ^ 64 - 1]]) 0) = Err Invalid) /\
  (Fri_parse_remainder F64P 1 (mkFri [] (write_elems F64P [[5]; [M64 + 7]]) 0) = Err Invalid) /\
  (Fri_parse_remainder F128P 2 (mkFri [] (write_elems F128P [[1; M128]]) 0) = Err Invalid) /\
  (Fri_parse_remainder F62P 3 (mkFri [] (write_elems F62P [[1; 2; M62 + 2]]) 0) = Err Invalid) /\
  (Fri_parse_remainder F62P 3 (mkFri [] (write_elems F62P [[1; 2; M62 - 1]]) 0) = Ok 1).
Proof. exact remainder_value_kinds. Qed.

(* ============================================================================================ stage 3: verify() *)
(* [wfAir]: a supported base field (element size >= 2, modulus halves convertible, 256^(ELEMENT_BYTES-1) <= modulus,
   two-adicity >= 31: f64, f128, f62 qualify), 1..255
   constraint composition columns, no Lagrange kernel column.  [Known A p]: the trace layout or blowup factor claimed by
   the proof is not what the AIR was written for. *)
Example C06_wfField_supported : wfField F64P /\ wfField F128P /\ wfField F62P.
Proof. exact wfField_supported. Qed.

(* Context::to_elements (the coin seed, built from the untrusted context before anything else): with metadata chunks of
   ELEMENT_BYTES - 1 bytes every chunk is a canonical element, for ANY metadata bytes; with full-width chunks it is not *)
Theorem C06_to_elements_total : forall F c, wfField F -> is_bytes (ti_meta (ctx_trace_info c)) ->
  ctx_modulus c = fp_modbytes F -> to_elements_ok (META_CHUNK F) F c = true.
Proof. exact to_elements_total. Qed.
Print Assumptions C06_to_elements_total.

Theorem C06_to_elements_full_chunk_refuted :
  to_elements_ok 8 F64P (mkCtx (mkTI 1 0 0 8 [1; 0; 0; 0; 255; 255; 255; 255]) (fp_modbytes F64P) (mkPO 1 2 0 FE_None 2 0)) = false /\
  of_le_bytes [1; 0; 0; 0; 255; 255; 255; 255] = M64 /\
  to_elements_ok (META_CHUNK F64P) F64P (mkCtx (mkTI 1 0 0 8 [1; 0; 0; 0; 255; 255; 255; 255]) (fp_modbytes F64P) (mkPO 1 2 0 FE_None 2 0)) = true.
Proof. exact to_elements_full_chunk_refuted. Qed.
Print Assumptions C06_to_elements_full_chunk_refuted.

(* verifying any parsed proof against any public inputs (AIR parameters), under any acceptance policy, whatever the
   value-dependent checks answer (orc) and however many distinct positions are drawn (k) or left after folding (kf),
   never panics — unless the proof's context is not the AIR's *)
Theorem C06_verify_total : forall A pol p orc k kf,
  proof_inv p -> wfAir A -> ~ Known A p -> forall w, verify A pol p orc k kf <> VPanic w.
Proof. exact verify_total. Qed.
Print Assumptions C06_verify_total.

(* bytes in, outcome out *)
Theorem C06_parse_and_verify_total : forall A pol bs orc k kf,
  is_bytes bs -> wfAir A -> (forall p, parse bs = Ok p -> ~ Known A p) ->
  forall w, parse_and_verify A pol bs orc k kf <> O_Panic w.
Proof. exact parse_and_verify_total. Qed.
Print Assumptions C06_parse_and_verify_total.

(* the only panics of verify() are the two assertions reached through Air::new, exactly on the Known inputs *)
Theorem C06_verify_panics_only_in_air_new : forall A pol p orc k kf w,
  proof_inv p -> wfAir A -> verify A pol p orc k kf = VPanic w -> Known A p /\ (w = W_air_new_layout \/ w = W_air_new_blowup).
Proof. exact verify_panics_only_in_air_new. Qed.
Print Assumptions C06_verify_panics_only_in_air_new.

(* witness (open finding F-C06-air-new-cannot-fail): a 48-byte proof which parses; verified against an AIR with two
   columns, or against an AIR of the right layout whose constraints need blowup 4, verify() panics *)
Theorem C06_air_new_refuted :
  exists p, parse tiny_proof_bytes = Ok p /\ proof_inv p /\
    Known air_other_width p /\ verify air_other_width Pol_All p (fun _ => true) 1 (fun _ => 1) = VPanic W_air_new_layout /\
    Known air_needs_blowup4 p /\ verify air_needs_blowup4 Pol_All p (fun _ => true) 1 (fun _ => 1) = VPanic W_air_new_blowup.
Proof. exact air_new_refuted. Qed.
Print Assumptions C06_air_new_refuted.

(* non-vacuity of C06_verify_total: the same proof against the AIR it claims to be for is not Known and ends with an error *)
Example C06_verify_total_nonvacuous :
  exists p, parse tiny_proof_bytes = Ok p /\ proof_inv p /\ wfAir air_matching /\ ~ Known air_matching p /\
            verify air_matching Pol_All p (fun _ => true) 1 (fun _ => 1) = VErr E_ProofDeserializationError.
Proof. exact verify_total_nonvacuous. Qed.

(* ===================================================================== refuted: the code before the repairs panics *)
Theorem C06_Queries_parse_refuted : exists q, Queries_parse_unrepaired F64P 1 32 q 16 0 1 = Panic.
Proof. exact Queries_parse_refuted. Qed.
Print Assumptions C06_Queries_parse_refuted.

Theorem C06_OodFrame_lagrange_refuted : exists f, OodFrame_parse_unrepaired F64P 1 f 1 0 1 = Panic.
Proof. exact OodFrame_lagrange_refuted. Qed.
Print Assumptions C06_OodFrame_lagrange_refuted.

Theorem C06_OodFrame_frame_size_refuted :
  exists f s, OodFrame_parse_unrepaired F64P 1 f 1 0 1 = Ok s /\ os_cur s < 1 /\
              vassert (1 <=? os_cur s) W_main_frame_slice = VPanic W_main_frame_slice.
Proof. exact OodFrame_frame_size_refuted. Qed.
Print Assumptions C06_OodFrame_frame_size_refuted.

Theorem C06_Fri_layers_refuted :
  num_fri_layers 64 16 0 2 = 2 /\
  exists ls, length ls = 2%nat /\ Fri_layers_loop_unrepaired F64P 1 32 ls 64 16 = Panic.
Proof. exact Fri_layers_refuted. Qed.
Print Assumptions C06_Fri_layers_refuted.

Theorem C06_draw_integers_refuted : draw_integers_unrepaired 16 16 = Panic /\ draw_integers_shape 16 16 = Err Invalid.
Proof. exact draw_integers_refuted. Qed.
Print Assumptions C06_draw_integers_refuted.

Theorem C06_num_partitions_refuted : Fri_num_partitions (mkFri [] [] 64) = Panic.
Proof. exact num_partitions_refuted. Qed.
Print Assumptions C06_num_partitions_refuted.

Theorem C06_context_limits_refuted :
  TraceInfo_new 1 (2 ^ 32) = Ok (mkTI 1 0 0 (2 ^ 32) []) /\
  ProofOptions_new 1 2 0 FE_None 2 0 = Ok (mkPO 1 2 0 FE_None 2 0) /\
  air_new (mkAP F64P 32 1 0 0 (2 ^ 32) 2 1 false) (mkTI 1 0 0 (2 ^ 32) []) (mkPO 1 2 0 FE_None 2 0) = VPanic W_root_of_unity /\
  Context_new (to_le_bytes 8 M64) (mkTI 1 0 0 (2 ^ 32) []) (mkPO 1 2 0 FE_None 2 0) = Panic.
Proof. exact context_limits_refuted. Qed.
Print Assumptions C06_context_limits_refuted.
