(* C07 — base field f62 (M = 2^62 - 111*2^39 + 1, Montgomery R = 2^64, lazy range [0, 2M)):
   every operation of math/src/field/f62/mod.rs (generated terms of Gen/F62.v) agrees with integer
   arithmetic modulo M for ALL operands of the lazy range; the checked add, sub, mul operations never
   overflow (the *_ok side conditions); equality and serialization identify exactly equal residues.
   Only statements, `exact` of lemmas proved in Proofs/F62*.v, and Print Assumptions.
     repr62 x := 0 <= x < 2*M62        val62 x := (x * 2^-64) mod M62 *)
From Coq Require Import ZArith Znumtheory.
From VBase Require Import MachInt.
From VGen Require Import F62.
From VProofs Require Import F62Ops F62Exp F62Inv.
Open Scope Z_scope.

(* ---- 1. Montgomery multiplication ---- *)
Theorem C07_f62_mul : forall a b, repr62 a -> repr62 b ->
  repr62 (f62_mul a b) /\ val62 (f62_mul a b) = (val62 a * val62 b) mod M62.
Proof. exact f62_mul_spec. Qed.
Print Assumptions C07_f62_mul.

Theorem C07_f62_mul_ok : forall a b, repr62 a -> repr62 b -> f62_mul_ok a b = true.
Proof. exact f62_mul_ok_spec. Qed.
Print Assumptions C07_f62_mul_ok.

(* the exact bound the reduction needs: a*b < 2^64 * M (used by new with a < 2^64, b = R2 < M) *)
Theorem C07_f62_fn_mul_general : forall a b, 0 <= a -> 0 <= b -> a * b < 2^64 * M62 ->
  repr62 (f62_fn_mul a b) /\ (f62_fn_mul a b * 2^64) mod M62 = (a * b) mod M62 /\
  val62 (f62_fn_mul a b) = (val62 a * val62 b) mod M62 /\ f62_fn_mul_ok a b = true.
Proof. exact fn_mul_spec_mod. Qed.
Print Assumptions C07_f62_fn_mul_general.

Theorem C07_f62_fn_mul_exact : forall a b, 0 <= a -> 0 <= b -> a * b < 2^64 * M62 ->
  exists q, 0 <= q < 2^64 /\ f62_fn_mul a b * 2^64 = a * b + q * M62.
Proof. exact fn_mul_core. Qed.
Print Assumptions C07_f62_fn_mul_exact.

(* ---- 2. add / sub / neg / double ---- *)
Theorem C07_f62_add : forall a b, repr62 a -> repr62 b ->
  repr62 (f62_add a b) /\ val62 (f62_add a b) = (val62 a + val62 b) mod M62.
Proof. exact f62_add_spec. Qed.
Print Assumptions C07_f62_add.
Theorem C07_f62_add_ok : forall a b, repr62 a -> repr62 b -> f62_add_ok a b = true.
Proof. exact f62_add_ok_spec. Qed.
Print Assumptions C07_f62_add_ok.

Theorem C07_f62_sub : forall a b, repr62 a -> repr62 b ->
  repr62 (f62_sub a b) /\ val62 (f62_sub a b) = (val62 a - val62 b) mod M62.
Proof. exact f62_sub_spec. Qed.
Print Assumptions C07_f62_sub.
Theorem C07_f62_sub_ok : forall a b, repr62 a -> repr62 b -> f62_sub_ok a b = true.
Proof. exact f62_sub_ok_spec. Qed.
Print Assumptions C07_f62_sub_ok.

Theorem C07_f62_neg : forall a, repr62 a ->
  repr62 (f62_neg a) /\ val62 (f62_neg a) = (- val62 a) mod M62.
Proof. exact f62_neg_spec. Qed.
Print Assumptions C07_f62_neg.
Theorem C07_f62_neg_ok : forall a, repr62 a -> f62_neg_ok a = true.
Proof. exact f62_neg_ok_spec. Qed.
Print Assumptions C07_f62_neg_ok.

Theorem C07_f62_double : forall a, repr62 a ->
  repr62 (f62_double a) /\ val62 (f62_double a) = (2 * val62 a) mod M62.
Proof. exact f62_double_spec. Qed.
Print Assumptions C07_f62_double.
Theorem C07_f62_double_ok : forall a, repr62 a -> f62_double_ok a = true.
Proof. exact f62_double_ok_spec. Qed.
Print Assumptions C07_f62_double_ok.

(* ---- 3. new / as_int / normalize / eq ---- *)
Theorem C07_f62_new : forall v, 0 <= v < 2^64 ->
  repr62 (f62_new v) /\ val62 (f62_new v) = v mod M62.
Proof. exact f62_new_spec. Qed.
Print Assumptions C07_f62_new.
Theorem C07_f62_new_ok : forall v, 0 <= v < 2^64 -> f62_new_ok v = true.
Proof. exact f62_new_ok_spec. Qed.
Print Assumptions C07_f62_new_ok.

Theorem C07_f62_as_int : forall x, repr62 x -> f62_as_int x = val62 x.
Proof. exact f62_as_int_spec. Qed.
Print Assumptions C07_f62_as_int.
Theorem C07_f62_as_int_canonical : forall x, repr62 x -> 0 <= f62_as_int x < M62.
Proof. exact f62_as_int_canonical. Qed.
Print Assumptions C07_f62_as_int_canonical.
Theorem C07_f62_as_int_ok : forall x, repr62 x -> f62_as_int_ok x = true.
Proof. exact f62_as_int_ok_spec. Qed.
Print Assumptions C07_f62_as_int_ok.
Theorem C07_f62_as_int_new : forall v, 0 <= v < 2^64 -> f62_as_int (f62_new v) = v mod M62.
Proof. exact f62_as_int_new. Qed.
Print Assumptions C07_f62_as_int_new.
Theorem C07_f62_as_int_inj : forall a b, repr62 a -> repr62 b ->
  (f62_as_int a = f62_as_int b <-> val62 a = val62 b).
Proof. exact f62_as_int_inj. Qed.
Print Assumptions C07_f62_as_int_inj.

Theorem C07_f62_normalize : forall x, repr62 x ->
  f62_normalize x = x mod M62 /\ 0 <= f62_normalize x < M62 /\ val62 (f62_normalize x) = val62 x
  /\ f62_normalize_ok x = true.
Proof. exact f62_normalize_spec. Qed.
Print Assumptions C07_f62_normalize.

Theorem C07_f62_eq : forall a b, repr62 a -> repr62 b -> f62_eq a b = (val62 a =? val62 b).
Proof. exact f62_eq_spec. Qed.
Print Assumptions C07_f62_eq.
Theorem C07_f62_eq_ok : forall a b, repr62 a -> repr62 b -> f62_eq_ok a b = true.
Proof. exact f62_eq_ok_spec. Qed.
Print Assumptions C07_f62_eq_ok.

Theorem C07_f62_val_inj_lazy : forall a b, repr62 a -> repr62 b ->
  (val62 a = val62 b <-> (a = b \/ a = b + M62 \/ b = a + M62)).
Proof. exact val62_inj_lazy. Qed.
Print Assumptions C07_f62_val_inj_lazy.

Theorem C07_f62_try_from_u64 : forall v, 0 <= v < 2^64 ->
  match f62_try_from_u64 v with
  | None => M62 <= v
  | Some e => v < M62 /\ repr62 e /\ val62 e = v
  end /\ f62_try_from_u64_ok v = true.
Proof. exact f62_try_from_u64_spec. Qed.
Print Assumptions C07_f62_try_from_u64.

Theorem C07_f62_repr_nonempty : repr62 0 /\ repr62 M62 /\ repr62 (2 * M62 - 1) /\ ~ repr62 (2 * M62).
Proof. exact repr62_nonempty. Qed.
Print Assumptions C07_f62_repr_nonempty.
Theorem C07_f62_two_words_one_residue :
  val62 1 = val62 (M62 + 1) /\ 1 <> M62 + 1 /\ f62_eq 1 (M62 + 1) = true.
Proof. exact val62_two_words. Qed.
Print Assumptions C07_f62_two_words_one_residue.

(* ---- 4. exponentiation ---- *)
Theorem C07_f62_exp : forall a p, repr62 a -> 0 <= p < 2^64 ->
  repr62 (f62_exp a p) /\ val62 (f62_exp a p) = (val62 a ^ p) mod M62.
Proof. exact f62_exp_spec. Qed.
Print Assumptions C07_f62_exp.

(* ---- 5. inversion ---- *)
(* the generated term has exactly the loop structure the proofs are about *)
Theorem C07_f62_inv_structure : forall fuel x, f62_fn_inv fuel x = inv_struct fuel x.
Proof. exact fn_inv_struct. Qed.
Print Assumptions C07_f62_inv_structure.

Theorem C07_f62_inv_zero : forall fuel, f62_fn_inv fuel 0 = Some 0 /\ f62_fn_inv fuel M62 = Some 0.
Proof. exact f62_fn_inv_zero. Qed.
Print Assumptions C07_f62_inv_zero.

(* Full statement wanted: forall x, repr62 x -> exists r, f62_fn_inv 400 x = Some r /\ repr62 r /\
     (val62 r * val62 x) mod M62 = (if val62 x =? 0 then 0 else 1).
   Proved: partial correctness for every fuel (below), termination for units modulo M (below),
   hence the full statement under `prime M62` (C07_f62_inv_total_if_prime; primality of
   P62 = M62 is proved in Proofs/NumTheoryPrime.v and is plugged in by the coordinator). *)
Theorem C07_f62_inv_sound_partial : forall fuel x r, repr62 x -> f62_fn_inv fuel x = Some r ->
  repr62 r /\ (val62 r * val62 x) mod M62 = (if val62 x =? 0 then 0 else 1).
Proof. exact f62_inv_sound_partial. Qed.
Print Assumptions C07_f62_inv_sound_partial.

Theorem C07_f62_inv_terminates_unit : forall fuel x, repr62 x ->
  (x mod M62 <> 0 -> rel_prime x M62) -> (66 <= fuel)%nat -> exists r, f62_fn_inv fuel x = Some r.
Proof. exact f62_inv_terminates_unit. Qed.
Print Assumptions C07_f62_inv_terminates_unit.

Theorem C07_f62_inv_terminates_if_prime : forall x, prime M62 -> repr62 x ->
  exists r, f62_fn_inv 400 x = Some r.
Proof. exact f62_inv_terminates. Qed.
Print Assumptions C07_f62_inv_terminates_if_prime.

Theorem C07_f62_inv_total_if_prime : forall x, prime M62 -> repr62 x ->
  exists r, f62_fn_inv 400 x = Some r /\ repr62 r /\
            (val62 r * val62 x) mod M62 = (if val62 x =? 0 then 0 else 1).
Proof. exact f62_inv_total. Qed.
Print Assumptions C07_f62_inv_total_if_prime.

Theorem C07_f62_inv_pub_sound_partial : forall fuel x r, repr62 x -> f62_inv fuel x = Some r ->
  repr62 r /\ (val62 r * val62 x) mod M62 = (if val62 x =? 0 then 0 else 1).
Proof. exact f62_inv_pub_sound_partial. Qed.
Print Assumptions C07_f62_inv_pub_sound_partial.

Theorem C07_f62_div_sound_partial : forall fuel a b q, repr62 a -> repr62 b ->
  f62_div fuel a b = Some q ->
  repr62 q /\ (val62 q * val62 b) mod M62 = (if val62 b =? 0 then 0 else val62 a).
Proof. exact f62_div_sound_partial. Qed.
Print Assumptions C07_f62_div_sound_partial.

Theorem C07_f62_inv_example :
  f62_fn_inv 66 (f62_new 3) = Some 3074498027548486314 /\
  (f62_as_int 3074498027548486314 * 3) mod M62 = 1.
Proof. exact f62_inv_example. Qed.
Print Assumptions C07_f62_inv_example.
Theorem C07_f62_inv_example_lazy :
  f62_fn_inv 66 (f62_new 3 + M62) = Some 3074498027548486314 /\
  f62_fn_inv 66 2 = Some 315222280642146850 /\
  (val62 315222280642146850 * val62 2) mod M62 = 1.
Proof. exact f62_inv_example_lazy. Qed.
Print Assumptions C07_f62_inv_example_lazy.
Theorem C07_f62_unit_hyp_nonempty : rel_prime 2 M62.
Proof. exact rel_prime_hyp_nonempty. Qed.
Print Assumptions C07_f62_unit_hyp_nonempty.

(* ---- 6. constants ---- *)
Theorem C07_f62_modulus : f62_MODULUS = 2^62 - 111 * 2^39 + 1 /\ f62_MODULUS = M62 /\
  f62_MODULUS_BITS = 62 /\ 2^61 <= M62 < 2^62.
Proof. exact f62_modulus_def. Qed.
Print Assumptions C07_f62_modulus.
Theorem C07_f62_Rinv : (2^64 * Rinv62) mod M62 = 1.
Proof. exact Rinv62_ok. Qed.
Print Assumptions C07_f62_Rinv.
Theorem C07_f62_R2 : f62_R2 = 2^128 mod M62.
Proof. exact f62_R2_def. Qed.
Print Assumptions C07_f62_R2.
Theorem C07_f62_R3 : f62_R3 = 2^192 mod M62.
Proof. exact f62_R3_def. Qed.
Print Assumptions C07_f62_R3.
Theorem C07_f62_U : (f62_U * M62 + 1) mod 2^64 = 0 /\ 0 <= f62_U < 2^64.
Proof. exact f62_U_def. Qed.
Print Assumptions C07_f62_U.
Theorem C07_f62_ZERO : val62 f62_ZERO = 0 /\ repr62 f62_ZERO.
Proof. exact (conj val62_ZERO repr62_ZERO). Qed.
Print Assumptions C07_f62_ZERO.
Theorem C07_f62_ONE : val62 f62_ONE = 1 /\ repr62 f62_ONE.
Proof. exact (conj val62_ONE repr62_ONE). Qed.
Print Assumptions C07_f62_ONE.
Theorem C07_f62_generator : val62 f62_GENERATOR = 3 /\ repr62 f62_GENERATOR.
Proof. exact f62_generator_val. Qed.
Print Assumptions C07_f62_generator.
Theorem C07_f62_Mm1_factored : M62 - 1 = 2^39 * 13 * 17 * 37957.
Proof. exact f62_Mm1_factored. Qed.
Print Assumptions C07_f62_Mm1_factored.
Theorem C07_f62_generator_order :
  3 ^ (M62 - 1) mod M62 = 1 /\
  3 ^ ((M62 - 1) / 2) mod M62 <> 1 /\ 3 ^ ((M62 - 1) / 13) mod M62 <> 1 /\
  3 ^ ((M62 - 1) / 17) mod M62 <> 1 /\ 3 ^ ((M62 - 1) / 37957) mod M62 <> 1.
Proof. exact f62_generator_order. Qed.
Print Assumptions C07_f62_generator_order.
Theorem C07_f62_two_adicity :
  f62_TWO_ADICITY = 39 /\ (M62 - 1) mod 2^39 = 0 /\ Z.odd ((M62 - 1) / 2^39) = true.
Proof. exact f62_two_adicity. Qed.
Print Assumptions C07_f62_two_adicity.
Theorem C07_f62_root :
  repr62 f62_TWO_ADIC_ROOT_OF_UNITY /\
  val62 f62_TWO_ADIC_ROOT_OF_UNITY = f62_G /\
  val62 f62_TWO_ADIC_ROOT_OF_UNITY = 3 ^ ((M62 - 1) / 2^39) mod M62.
Proof. exact f62_root_def. Qed.
Print Assumptions C07_f62_root.
Theorem C07_f62_root_order :
  f62_G ^ (2^39) mod M62 = 1 /\ f62_G ^ (2^38) mod M62 = M62 - 1.
Proof. exact f62_root_order. Qed.
Print Assumptions C07_f62_root_order.

(* unconditional total correctness of inversion, with primality of the modulus (Proofs/NumTheoryPrime.v) *)
From VProofs Require Import NumTheoryPrime.
Theorem C07_f62_inv_total_unconditional : forall x, repr62 x ->
  exists r, f62_fn_inv 400 x = Some r /\ repr62 r /\
            (val62 r * val62 x) mod M62 = (if val62 x =? 0 then 0 else 1).
Proof. exact (fun x => f62_inv_total x P62_prime). Qed.
Print Assumptions C07_f62_inv_total_unconditional.

(* ---- round 2: trait defaults of math/src/field/traits.rs instantiated for f62 ---- *)
From VProofs Require FieldRoots FieldBytesSpec.
From VModel Require Import FieldBytes.

(* exp_vartime: the generic variable-time loop (f62 overrides only `exp`) *)
Theorem C07_f62_exp_vartime_sound : forall fuel a p r, repr62 a -> 0 <= p < 2^64 ->
  f62_exp_vartime fuel a p = Some r -> repr62 r /\ val62 r = (val62 a ^ p) mod M62.
Proof. exact FieldRoots.R62.f62_exp_vartime_sound. Qed.
Print Assumptions C07_f62_exp_vartime_sound.

Theorem C07_f62_exp_vartime_terminates : forall a p, 0 <= p < 2^64 ->
  exists r, f62_exp_vartime 66 a p = Some r.
Proof. exact FieldRoots.R62.f62_exp_vartime_terminates. Qed.
Print Assumptions C07_f62_exp_vartime_terminates.

Theorem C07_f62_exp_vartime_agrees : forall fuel a p r, repr62 a -> 0 <= p < 2^64 ->
  f62_exp_vartime fuel a p = Some r -> val62 r = val62 (f62_exp a p).
Proof. exact FieldRoots.R62.f62_exp_vartime_agrees. Qed.
Print Assumptions C07_f62_exp_vartime_agrees.

(* get_root_of_unity(n): order exactly 2^n for 1 <= n <= TWO_ADICITY = 39 *)
Theorem C07_f62_get_root_of_unity : forall n, 1 <= n <= 39 ->
  let w := f62_get_root_of_unity n in
  repr62 w /\ val62 w = f62_G ^ 2 ^ (39 - n) mod M62 /\
  val62 w ^ 2 ^ n mod M62 = 1 /\ val62 w ^ 2 ^ (n - 1) mod M62 = M62 - 1 /\
  forall k, 0 < k < 2 ^ n -> val62 w ^ k mod M62 <> 1.
Proof. exact FieldRoots.R62.f62_get_root_of_unity_spec. Qed.
Print Assumptions C07_f62_get_root_of_unity.

Theorem C07_f62_get_root_of_unity_ok : forall n, 0 <= n < 2^32 ->
  f62_get_root_of_unity_ok n = andb (1 <=? n) (n <=? 39).
Proof. exact FieldRoots.R62.f62_get_root_of_unity_ok_spec. Qed.
Print Assumptions C07_f62_get_root_of_unity_ok.

(* from_bytes_with_padding (Model/FieldBytes.v), ELEMENT_BYTES = 8 *)
Theorem C07_f62_from_bytes_with_padding : forall bs, (length bs < 8)%nat -> Forall FieldBytesSpec.byte bs ->
  f62_from_bytes_with_padding bs = FbOk (f62_new (of_le_bytes bs)) /\
  0 <= of_le_bytes bs < 256 ^ (8 - 1) /\
  repr62 (f62_new (of_le_bytes bs)) /\ val62 (f62_new (of_le_bytes bs)) = of_le_bytes bs.
Proof. exact FieldBytesSpec.f62_from_bytes_with_padding_spec. Qed.
Print Assumptions C07_f62_from_bytes_with_padding.

Theorem C07_f62_from_bytes_with_padding_long : forall bs, (8 <= length bs)%nat ->
  f62_from_bytes_with_padding bs = FbAssertLen.
Proof. exact FieldBytesSpec.f62_from_bytes_with_padding_long. Qed.
Print Assumptions C07_f62_from_bytes_with_padding_long.

(* ---- coverage round: conversions, conjugate, compound assignments, base_element, raw byte view (f62) ---- *)
From VProofs Require FieldConvSpec.

Theorem C07_f62_from_u8 : forall x, 0 <= x < 2^8 ->
  repr62 (f62_from_u8 x) /\ val62 (f62_from_u8 x) = x /\ f62_from_u8_ok x = true.
Proof. exact FieldConvSpec.C62.f62_from_u8_spec. Qed.
Print Assumptions C07_f62_from_u8.

Theorem C07_f62_from_u16 : forall x, 0 <= x < 2^16 ->
  repr62 (f62_from_u16 x) /\ val62 (f62_from_u16 x) = x /\ f62_from_u16_ok x = true.
Proof. exact FieldConvSpec.C62.f62_from_u16_spec. Qed.
Print Assumptions C07_f62_from_u16.

Theorem C07_f62_from_u32 : forall x, 0 <= x < 2^32 ->
  repr62 (f62_from_u32 x) /\ val62 (f62_from_u32 x) = x /\ f62_from_u32_ok x = true.
Proof. exact FieldConvSpec.C62.f62_from_u32_spec. Qed.
Print Assumptions C07_f62_from_u32.

(* u64::from(e) / u128::from(e): the canonical residue, whichever of the two words represents it *)
Theorem C07_f62_to_u64_u128 : forall e, repr62 e ->
  f62_to_u64 e = val62 e /\ f62_to_u128 e = val62 e /\ 0 <= val62 e < M62 /\
  f62_to_u64_ok e = true /\ f62_to_u128_ok e = true.
Proof. exact FieldConvSpec.C62.f62_to_u64_spec. Qed.
Print Assumptions C07_f62_to_u64_u128.

Theorem C07_f62_try_from_bytes : forall bs, length bs = 8%nat -> Forall FieldBytesSpec.byte bs ->
  match f62_try_from_bytes bs with
  | None => M62 <= of_le_bytes bs
  | Some e => of_le_bytes bs < M62 /\ repr62 e /\ val62 e = of_le_bytes bs
  end /\ f62_try_from_bytes_ok bs = true.
Proof. exact FieldConvSpec.C62.f62_try_from_bytes_spec. Qed.
Print Assumptions C07_f62_try_from_bytes.

Theorem C07_f62_conjugate : forall e, f62_conjugate e = e.
Proof. exact FieldConvSpec.C62.f62_conjugate_spec. Qed.
Print Assumptions C07_f62_conjugate.

Theorem C07_f62_assign : forall fuel a b,
  f62_add_assign a b = f62_add a b /\ f62_sub_assign a b = f62_sub a b /\
  f62_mul_assign a b = f62_mul a b /\ f62_div_assign fuel a b = f62_div fuel a b.
Proof. exact FieldConvSpec.C62.f62_assign_spec. Qed.
Print Assumptions C07_f62_assign.

Theorem C07_f62_base_element : forall e i, f62_base_element e i = if i =? 0 then Some e else None.
Proof. exact FieldConvSpec.C62.f62_base_element_spec. Qed.
Print Assumptions C07_f62_base_element.

(* as_bytes / elements_as_bytes expose the LAZY internal word (zero-copy; IS_CANONICAL = false): injective on
   words, so the two words of one residue have different raw bytes.  Serializable and the hashers use as_int. *)
Theorem C07_f62_as_bytes_word_inj : forall a b, repr62 a -> repr62 b ->
  f62_as_bytes a = f62_as_bytes b -> a = b.
Proof. exact FieldConvSpec.C62.f62_as_bytes_word_inj. Qed.
Print Assumptions C07_f62_as_bytes_word_inj.

Theorem C07_f62_as_bytes_not_canonical :
  exists a b, repr62 a /\ repr62 b /\ val62 a = val62 b /\ f62_as_bytes a <> f62_as_bytes b.
Proof. exact FieldConvSpec.C62.f62_as_bytes_not_canonical. Qed.
Print Assumptions C07_f62_as_bytes_not_canonical.
