(* C12 — serialization round trip for every serializable value.
   Only statements, `exact` of lemmas proved in Proofs/Codec*.v, and Print Assumptions.
   Shape of every round-trip theorem: for every well-formed value v (= every value the Rust constructors
   accept) and every continuation [rest] of the byte stream,
       read_T (write_T v ++ rest) = Ok (v, rest)
   i.e. decoding returns an equal value AND consumes exactly the bytes that were written.  The readers are
   the SliceReader/Cursor semantics of the ByteReader interface (ReadAdapter == SliceReader is C13). *)
From VBase Require Import MachInt.
From VModel Require Import Codec.
From VGen Require Serde Limits.
From VProofs Require Import CodecPrim CodecTypes CodecTotal CodecGen CodecExamples.
Open Scope Z_scope.

(* ------------------------------------------------------------------------------- integers and vint64 *)
Theorem C12_rt_u8 : forall v rest, read_u8 (write_u8 v ++ rest) = Ok (v, rest).
Proof. intros v rest. exact (rt_u8 v rest I). Qed.
Print Assumptions C12_rt_u8.

Theorem C12_rt_u16 : forall v rest, 0 <= v < 2 ^ 16 -> read_u16 (write_u16 v ++ rest) = Ok (v, rest).
Proof. exact rt_u16. Qed.
Print Assumptions C12_rt_u16.

Theorem C12_rt_u32 : forall v rest, 0 <= v < 2 ^ 32 -> read_u32 (write_u32 v ++ rest) = Ok (v, rest).
Proof. exact rt_u32. Qed.
Print Assumptions C12_rt_u32.

Theorem C12_rt_u64 : forall v rest, 0 <= v < 2 ^ 64 -> read_u64 (write_u64 v ++ rest) = Ok (v, rest).
Proof. exact rt_u64. Qed.
Print Assumptions C12_rt_u64.

Theorem C12_rt_u128 : forall v rest, 0 <= v < 2 ^ 128 -> read_u128 (write_u128 v ++ rest) = Ok (v, rest).
Proof. exact rt_u128. Qed.
Print Assumptions C12_rt_u128.

Theorem C12_rt_bool : forall (b : bool) rest, read_bool (write_bool b ++ rest) = Ok (b, rest).
Proof. intros b rest. exact (rt_bool b rest I). Qed.
Print Assumptions C12_rt_bool.

(* the whole of u64 (usize on a 64-bit target), including the 9-byte form *)
Theorem C12_vint64_rt : forall v rest, 0 <= v < 2 ^ 64 -> read_usize (write_usize v ++ rest) = Ok (v, rest).
Proof. exact vint64_rt. Qed.
Print Assumptions C12_vint64_rt.
Example C12_vint64_rt_nonvacuous : 0 <= 2 ^ 64 - 1 < 2 ^ 64.
Proof. split; [discriminate | reflexivity]. Qed.

Theorem C12_vint64_len : forall v, 0 <= v < 2 ^ 64 -> len (write_usize v) = encoded_len v.
Proof. exact vint64_len. Qed.
Print Assumptions C12_vint64_len.

Theorem C12_vint64_len_closed_form : forall v, 0 <= v < 2 ^ 64 -> encoded_len v = vlen_spec v.
Proof. exact encoded_len_spec. Qed.
Print Assumptions C12_vint64_len_closed_form.

Theorem C12_vint64_prefix_free : forall a b ra rb, 0 <= a < 2 ^ 64 -> 0 <= b < 2 ^ 64 ->
  write_usize a ++ ra = write_usize b ++ rb -> a = b /\ ra = rb.
Proof. exact vint64_prefix_free. Qed.
Print Assumptions C12_vint64_prefix_free.

(* ---------------------------------------------------------------------------------------- combinators *)
Theorem C12_read_many_is_n_reads : forall A (r : Rd A) n bs, read_many r (Z.of_nat n) bs = read_many_nat r n bs.
Proof. exact @read_many_spec. Qed.
Print Assumptions C12_read_many_is_n_reads.

Theorem C12_rt_option : forall A (w : A -> bytes) (r : Rd A) (wf : A -> Prop),
  (forall v rest, wf v -> r (w v ++ rest) = Ok (v, rest)) ->
  forall o rest, match o with Some v => wf v | None => True end ->
  read_option r (write_option w o ++ rest) = Ok (o, rest).
Proof. exact @rt_option. Qed.
Print Assumptions C12_rt_option.

Theorem C12_rt_vec : forall A (w : A -> bytes) (r : Rd A) (wf : A -> Prop),
  (forall v rest, wf v -> r (w v ++ rest) = Ok (v, rest)) ->
  forall l rest, Z.of_nat (length l) < 2 ^ 64 /\ Forall wf l ->
  read_vec_of r (write_vec w l ++ rest) = Ok (l, rest).
Proof. exact @rt_vec. Qed.
Print Assumptions C12_rt_vec.

Theorem C12_rt_array : forall A (w : A -> bytes) (r : Rd A) (wf : A -> Prop) (c : nat),
  (forall v rest, wf v -> r (w v ++ rest) = Ok (v, rest)) ->
  forall l rest, length l = c /\ Forall wf l ->
  read_arr r (Z.of_nat c) (write_arr w l ++ rest) = Ok (l, rest).
Proof. exact @rt_arr. Qed.
Print Assumptions C12_rt_array.

Theorem C12_rt_pair : forall A B wa (ra : Rd A) (wfa : A -> Prop) wb (rb : Rd B) (wfb : B -> Prop),
  (forall v rest, wfa v -> ra (wa v ++ rest) = Ok (v, rest)) ->
  (forall v rest, wfb v -> rb (wb v ++ rest) = Ok (v, rest)) ->
  forall p rest, wfa (fst p) /\ wfb (snd p) -> read_pair ra rb (write_pair wa wb p ++ rest) = Ok (p, rest).
Proof. exact @rt_pair. Qed.
Print Assumptions C12_rt_pair.

Theorem C12_rt_triple : forall A B C wa (ra : Rd A) (wfa : A -> Prop) wb (rb : Rd B) (wfb : B -> Prop)
    wc (rc : Rd C) (wfc : C -> Prop),
  (forall v rest, wfa v -> ra (wa v ++ rest) = Ok (v, rest)) ->
  (forall v rest, wfb v -> rb (wb v ++ rest) = Ok (v, rest)) ->
  (forall v rest, wfc v -> rc (wc v ++ rest) = Ok (v, rest)) ->
  forall t rest, wfa (fst (fst t)) /\ wfb (snd (fst t)) /\ wfc (snd t) ->
  read_triple ra rb rc (write_triple wa wb wc t ++ rest) = Ok (t, rest).
Proof. exact @rt_triple. Qed.
Print Assumptions C12_rt_triple.

(* coverage round: every remaining Serializable/Deserializable impl of serde/mod.rs — (), the tuples of arity 1, 4, 5 and
   6, the write-only impls for [T] (read back as Vec<T>) and str (read back as String) *)
Theorem C12_rt_unit : forall (v : unit) rest, read_unit (write_unit v ++ rest) = Ok (v, rest).
Proof. intros v rest. exact (rt_unit v rest I). Qed.
Print Assumptions C12_rt_unit.

Theorem C12_rt_tuple1 : forall A wa (ra : Rd A) (wfa : A -> Prop),
  (forall v rest, wfa v -> ra (wa v ++ rest) = Ok (v, rest)) ->
  forall t rest, wfa t -> read_tup1 ra (write_tup1 wa t ++ rest) = Ok (t, rest).
Proof. exact @rt_tup1. Qed.
Print Assumptions C12_rt_tuple1.

Theorem C12_rt_tuple4 : forall A B C D wa (ra : Rd A) (wfa : A -> Prop) wb (rb : Rd B) (wfb : B -> Prop)
    wc (rc : Rd C) (wfc : C -> Prop) wd (rd : Rd D) (wfd : D -> Prop),
  (forall v rest, wfa v -> ra (wa v ++ rest) = Ok (v, rest)) ->
  (forall v rest, wfb v -> rb (wb v ++ rest) = Ok (v, rest)) ->
  (forall v rest, wfc v -> rc (wc v ++ rest) = Ok (v, rest)) ->
  (forall v rest, wfd v -> rd (wd v ++ rest) = Ok (v, rest)) ->
  forall t rest, (let '(a, b, c, d) := t in wfa a /\ wfb b /\ wfc c /\ wfd d) ->
  read_tup4 ra rb rc rd (write_tup4 wa wb wc wd t ++ rest) = Ok (t, rest).
Proof. exact @rt_tup4. Qed.
Print Assumptions C12_rt_tuple4.

Theorem C12_rt_tuple5 : forall A B C D E wa (ra : Rd A) (wfa : A -> Prop) wb (rb : Rd B) (wfb : B -> Prop)
    wc (rc : Rd C) (wfc : C -> Prop) wd (rd : Rd D) (wfd : D -> Prop) we (re : Rd E) (wfe : E -> Prop),
  (forall v rest, wfa v -> ra (wa v ++ rest) = Ok (v, rest)) ->
  (forall v rest, wfb v -> rb (wb v ++ rest) = Ok (v, rest)) ->
  (forall v rest, wfc v -> rc (wc v ++ rest) = Ok (v, rest)) ->
  (forall v rest, wfd v -> rd (wd v ++ rest) = Ok (v, rest)) ->
  (forall v rest, wfe v -> re (we v ++ rest) = Ok (v, rest)) ->
  forall t rest, (let '(a, b, c, d, e) := t in wfa a /\ wfb b /\ wfc c /\ wfd d /\ wfe e) ->
  read_tup5 ra rb rc rd re (write_tup5 wa wb wc wd we t ++ rest) = Ok (t, rest).
Proof. exact @rt_tup5. Qed.
Print Assumptions C12_rt_tuple5.

Theorem C12_rt_tuple6 : forall A B C D E F wa (ra : Rd A) (wfa : A -> Prop) wb (rb : Rd B) (wfb : B -> Prop)
    wc (rc : Rd C) (wfc : C -> Prop) wd (rd : Rd D) (wfd : D -> Prop) we (re : Rd E) (wfe : E -> Prop)
    wf_ (rf : Rd F) (wff : F -> Prop),
  (forall v rest, wfa v -> ra (wa v ++ rest) = Ok (v, rest)) ->
  (forall v rest, wfb v -> rb (wb v ++ rest) = Ok (v, rest)) ->
  (forall v rest, wfc v -> rc (wc v ++ rest) = Ok (v, rest)) ->
  (forall v rest, wfd v -> rd (wd v ++ rest) = Ok (v, rest)) ->
  (forall v rest, wfe v -> re (we v ++ rest) = Ok (v, rest)) ->
  (forall v rest, wff v -> rf (wf_ v ++ rest) = Ok (v, rest)) ->
  forall t rest, (let '(a, b, c, d, e, f) := t in wfa a /\ wfb b /\ wfc c /\ wfd d /\ wfe e /\ wff f) ->
  read_tup6 ra rb rc rd re rf (write_tup6 wa wb wc wd we wf_ t ++ rest) = Ok (t, rest).
Proof. exact @rt_tup6. Qed.
Print Assumptions C12_rt_tuple6.

(* the instance the harness drives: (u8, u16, u32, u64, u128, usize) — also shows that the hypotheses are satisfiable *)
Theorem C12_rt_tuple6_ints : forall a b c d e f rest,
  0 <= b < 2 ^ 16 -> 0 <= c < 2 ^ 32 -> 0 <= d < 2 ^ 64 -> 0 <= e < 2 ^ 128 -> 0 <= f < 2 ^ 64 ->
  read_tup6 read_u8 read_u16 read_u32 read_u64 read_u128 read_usize
    (write_tup6 write_u8 write_u16 write_u32 write_u64 write_u128 write_usize (a, b, c, d, e, f) ++ rest)
  = Ok ((a, b, c, d, e, f), rest).
Proof. exact rt_tup6_ints. Qed.
Print Assumptions C12_rt_tuple6_ints.

(* [T]: the element-by-element loop writes exactly the bytes of Vec<T>, and they decode as the Vec *)
Theorem C12_slice_writes_vec_bytes : forall A (w : A -> bytes) l, write_slice w l = write_vec w l.
Proof. exact @write_slice_is_write_vec. Qed.
Print Assumptions C12_slice_writes_vec_bytes.

Theorem C12_rt_slice : forall A (w : A -> bytes) (r : Rd A) (wf : A -> Prop),
  (forall v rest, wf v -> r (w v ++ rest) = Ok (v, rest)) ->
  forall l rest, Z.of_nat (length l) < 2 ^ 64 /\ Forall wf l ->
  read_vec_of r (write_slice w l ++ rest) = Ok (l, rest).
Proof. exact @rt_slice. Qed.
Print Assumptions C12_rt_slice.

(* str: read back as String *)
Theorem C12_rt_str : forall (utf8_valid : bytes -> bool) s rest,
  len s < 2 ^ 64 /\ utf8_valid s = true -> read_string utf8_valid (write_str s ++ rest) = Ok (s, rest).
Proof. exact rt_str. Qed.
Print Assumptions C12_rt_str.

(* String: UTF-8 validity is an oracle; a Rust String always satisfies it *)
Theorem C12_rt_string : forall (utf8_valid : bytes -> bool) s rest,
  len s < 2 ^ 64 /\ utf8_valid s = true -> read_string utf8_valid (write_string s ++ rest) = Ok (s, rest).
Proof. exact rt_string. Qed.
Print Assumptions C12_rt_string.

(* BTreeMap / BTreeSet: values are key-sorted association lists (strictly increasing keys) *)
Theorem C12_rt_map : forall K V (ltb : K -> K -> bool),
  (forall a b, ltb a b = true -> ltb b a = false) ->
  forall wk (rk : Rd K) (wfk : K -> Prop) wv (rv : Rd V) (wfv : V -> Prop),
  (forall v rest, wfk v -> rk (wk v ++ rest) = Ok (v, rest)) ->
  (forall v rest, wfv v -> rv (wv v ++ rest) = Ok (v, rest)) ->
  forall m rest, Z.of_nat (length m) < 2 ^ 64 /\ sorted_map ltb m /\ Forall (fun kv => wfk (fst kv) /\ wfv (snd kv)) m ->
  read_map ltb rk rv (write_map wk wv m ++ rest) = Ok (m, rest).
Proof. exact @rt_map. Qed.
Print Assumptions C12_rt_map.

Theorem C12_rt_set : forall K (ltb : K -> K -> bool),
  (forall a b, ltb a b = true -> ltb b a = false) ->
  forall wk (rk : Rd K) (wfk : K -> Prop),
  (forall v rest, wfk v -> rk (wk v ++ rest) = Ok (v, rest)) ->
  forall m rest, Z.of_nat (length m) < 2 ^ 64 /\ sorted_set ltb m /\ Forall wfk m ->
  read_set ltb rk (write_set wk m ++ rest) = Ok (m, rest).
Proof. exact @rt_set. Qed.
Print Assumptions C12_rt_set.

(* ----------------------------------------------------------------- field / extension elements, digests *)
Theorem C12_rt_f64 : forall v rest, 0 <= v < M64 -> read_f64 (write_f64 v ++ rest) = Ok (v, rest).
Proof. exact rt_f64. Qed.
Print Assumptions C12_rt_f64.
Theorem C12_rt_f62 : forall v rest, 0 <= v < M62 -> read_f62 (write_f62 v ++ rest) = Ok (v, rest).
Proof. exact rt_f62. Qed.
Print Assumptions C12_rt_f62.
Theorem C12_rt_f128 : forall v rest, 0 <= v < M128 -> read_f128 (write_f128 v ++ rest) = Ok (v, rest).
Proof. exact rt_f128. Qed.
Print Assumptions C12_rt_f128.

Theorem C12_felt_noncanonical_rejected : forall k M v rest, 0 <= v < 256 ^ Z.of_nat k -> M <= v ->
  read_felt k M (write_uint k v ++ rest) = Err Invalid.
Proof. exact read_felt_rejects. Qed.
Print Assumptions C12_felt_noncanonical_rejected.

Theorem C12_rt_quad : forall w r M, (forall v rest, wf_felt M v -> r (w v ++ rest) = Ok (v, rest)) ->
  forall p rest, wf_felt M (fst p) /\ wf_felt M (snd p) -> read_quad r (write_quad w p ++ rest) = Ok (p, rest).
Proof. exact rt_quad. Qed.
Print Assumptions C12_rt_quad.
Theorem C12_rt_cube : forall w r M, (forall v rest, wf_felt M v -> r (w v ++ rest) = Ok (v, rest)) ->
  forall t rest, wf_felt M (fst (fst t)) /\ wf_felt M (snd (fst t)) /\ wf_felt M (snd t) ->
  read_cube r (write_cube w t ++ rest) = Ok (t, rest).
Proof. exact rt_cube. Qed.
Print Assumptions C12_rt_cube.

Theorem C12_rt_digest : forall n d rest, length d = n -> read_digest n (write_digest d ++ rest) = Ok (d, rest).
Proof. exact rt_digest. Qed.
Print Assumptions C12_rt_digest.
Theorem C12_rt_element_digest : forall d rest, wf_edigest d -> read_edigest (write_edigest d ++ rest) = Ok (d, rest).
Proof. exact rt_edigest. Qed.
Print Assumptions C12_rt_element_digest.

(* --------------------------------------------------------------------------- ProofOptions, TraceInfo *)
Theorem C12_rt_FieldExtension : forall fe rest, read_FieldExtension (write_FieldExtension fe ++ rest) = Ok (fe, rest).
Proof. intros fe rest. exact (rt_FieldExtension fe rest I). Qed.
Print Assumptions C12_rt_FieldExtension.

(* wf_ProofOptions o := o is returned by ProofOptions::new for some arguments of the parameter types *)
Theorem C12_rt_ProofOptions : forall o rest, wf_ProofOptions o -> read_ProofOptions (write_ProofOptions o ++ rest) = Ok (o, rest).
Proof. exact rt_ProofOptions. Qed.
Print Assumptions C12_rt_ProofOptions.
Example C12_rt_ProofOptions_nonvacuous : wf_ProofOptions po_max /\ wf_ProofOptions po_min.
Proof. exact (conj wf_po_max wf_po_min). Qed.

Theorem C12_wf_ProofOptions_explicit : forall o, wf_ProofOptions o <->
  1 <= po_num_queries o <= 255 /\ In (po_blowup_factor o) [2; 4; 8; 16; 32; 64; 128] /\
  0 <= po_grinding_factor o <= 32 /\ In (po_fri_folding_factor o) [2; 4; 8; 16] /\
  In (po_fri_remainder_max_degree o) [0; 1; 3; 7; 15; 31; 63; 127; 255].
Proof. exact wf_ProofOptions_explicit. Qed.
Print Assumptions C12_wf_ProofOptions_explicit.

Theorem C12_narrow_ProofOptions : forall nq bf gf fe ff rd o, 0 <= gf -> 0 <= rd ->
  ProofOptions_new nq bf gf fe ff rd = Ok o -> o = mkPO nq bf gf fe ff rd.
Proof. exact narrow_ProofOptions. Qed.
Print Assumptions C12_narrow_ProofOptions.

(* the reader validates before calling the asserting constructor: no byte string makes it panic, and whatever
   it returns is a value the constructor accepts *)
Theorem C12_read_ProofOptions_total : forall bs, is_bytes bs ->
  match read_ProofOptions bs with Ok (o, rest) => wf_ProofOptions o /\ is_bytes rest | Err _ => True | Panic => False end.
Proof. exact read_ProofOptions_no_panic. Qed.
Print Assumptions C12_read_ProofOptions_total.

(* wf_TraceInfo t := t is returned by TraceInfo::new_multi_segment (hence also by new / with_meta) *)
Theorem C12_rt_TraceInfo : forall t rest, wf_TraceInfo t -> read_TraceInfo (write_TraceInfo t ++ rest) = Ok (t, rest).
Proof. exact rt_TraceInfo. Qed.
Print Assumptions C12_rt_TraceInfo.
Example C12_rt_TraceInfo_nonvacuous :
  wf_TraceInfo (mkTI 255 0 0 8 []) /\ wf_TraceInfo (mkTI 3 2 0 8 []) /\ wf_TraceInfo (mkTI 1 254 255 (2 ^ 63) []) /\
  wf_TraceInfo ti_meta_max.
Proof. exact (conj wf_TraceInfo_255_columns (conj wf_TraceInfo_aux_without_rands (conj wf_TraceInfo_max_length wf_ti_meta_max))). Qed.

Theorem C12_narrow_TraceInfo : forall t, wf_TraceInfo t ->
  wrap 8 (ti_main t) = ti_main t /\ wrap 8 (ti_aux t) = ti_aux t /\ wrap 8 (ti_rands t) = ti_rands t /\
  wrap 8 (Z.log2 (ti_length t)) = Z.log2 (ti_length t) /\ wrap 16 (len (ti_meta t)) = len (ti_meta t) /\
  write_TraceInfo_ok t = true.
Proof. exact narrow_TraceInfo. Qed.
Print Assumptions C12_narrow_TraceInfo.

Theorem C12_read_TraceInfo_total : forall bs, is_bytes bs ->
  match read_TraceInfo bs with Ok (t, rest) => wf_TraceInfo t /\ is_bytes rest | Err _ => True | Panic => False end.
Proof. exact read_TraceInfo_no_panic. Qed.
Print Assumptions C12_read_TraceInfo_total.

(* ------------------------------------------------------------------------------ Context ... whole Proof *)
Theorem C12_rt_Context : forall c rest, wf_Context c -> read_Context (write_Context c ++ rest) = Ok (c, rest).
Proof. exact rt_Context. Qed.
Print Assumptions C12_rt_Context.
Example C12_rt_Context_nonvacuous : wf_Context ctx_small /\ wf_Context ctx_big.
Proof. exact (conj wf_ctx_small wf_ctx_big). Qed.

Theorem C12_narrow_Context : forall c, wf_Context c ->
  wrap 8 (len (ctx_modulus c)) = len (ctx_modulus c) /\ write_Context_ok c = true.
Proof. exact narrow_Context. Qed.
Print Assumptions C12_narrow_Context.

Theorem C12_rt_Commitments : forall c rest, len c < 65535 -> read_Commitments (write_Commitments c ++ rest) = Ok (c, rest).
Proof. exact rt_Commitments. Qed.
Print Assumptions C12_rt_Commitments.

Theorem C12_rt_Queries : forall q rest, len (q_values q) < 2 ^ 32 /\ len (q_paths q) < 2 ^ 32 ->
  read_Queries (write_Queries q ++ rest) = Ok (q, rest).
Proof. exact rt_Queries. Qed.
Print Assumptions C12_rt_Queries.

Theorem C12_rt_OodFrame : forall f rest,
  len (ood_trace_states f) < 2 ^ 16 /\ len (ood_lagrange f) < 2 ^ 16 /\ len (ood_evaluations f) < 2 ^ 16 ->
  read_OodFrame (write_OodFrame f ++ rest) = Ok (f, rest).
Proof. exact rt_OodFrame. Qed.
Print Assumptions C12_rt_OodFrame.

Theorem C12_narrow_OodFrame : forall width elem_bytes lagrange_elems num_evaluations,
  0 <= width <= 255 -> 0 <= elem_bytes <= 48 -> 0 <= lagrange_elems <= 64 -> 0 <= num_evaluations <= 1024 ->
  1 + 2 * width * elem_bytes < 2 ^ 16 /\ 1 + lagrange_elems * elem_bytes < 2 ^ 16 /\ num_evaluations * elem_bytes < 2 ^ 16.
Proof. exact narrow_OodFrame. Qed.
Print Assumptions C12_narrow_OodFrame.

(* the unrestricted claim "every OodFrame the setters can build round-trips" is false: the setters are unbounded
   and the u16 length prefix wraps (open finding C12-narrowing-unchecked) *)
Theorem C12_narrow_OodFrame_refuted :
  exists f, len (ood_evaluations f) = 2 ^ 16 /\ read_OodFrame (write_OodFrame f) <> Ok (f, []).
Proof. exact narrow_OodFrame_refuted. Qed.
Print Assumptions C12_narrow_OodFrame_refuted.

Theorem C12_rt_FriProofLayer : forall l rest, 0 < len (fl_values l) < 2 ^ 32 /\ len (fl_paths l) < 2 ^ 32 ->
  read_FriProofLayer (write_FriProofLayer l ++ rest) = Ok (l, rest).
Proof. exact rt_FriProofLayer. Qed.
Print Assumptions C12_rt_FriProofLayer.

Theorem C12_rt_FriProof : forall p rest, wf_FriProof p -> read_FriProof (write_FriProof p ++ rest) = Ok (p, rest).
Proof. exact rt_FriProof. Qed.
Print Assumptions C12_rt_FriProof.
Example C12_rt_FriProof_nonvacuous : wf_FriProof fri_ex.
Proof. exact wf_fri_ex. Qed.

Theorem C12_narrow_FriProof : forall num_layers rem_elems elem_bytes,
  0 <= num_layers <= 32 -> 0 <= rem_elems <= 256 -> 0 <= elem_bytes <= 48 ->
  wrap 8 num_layers = num_layers /\ wrap 16 (rem_elems * elem_bytes) = rem_elems * elem_bytes.
Proof. exact narrow_FriProof. Qed.
Print Assumptions C12_narrow_FriProof.

Theorem C12_narrow_FriProof_refuted :
  exists p, length (fri_layers p) = 256%nat /\ Forall wf_FriProofLayer (fri_layers p) /\
            read_FriProof (write_FriProof p) <> Ok (p, []).
Proof. exact narrow_FriProof_refuted. Qed.
Print Assumptions C12_narrow_FriProof_refuted.

(* whole proof *)
Theorem C12_rt_Proof : forall p rest, wf_Proof p -> read_Proof (write_Proof p ++ rest) = Ok (p, rest).
Proof. exact rt_Proof. Qed.
Print Assumptions C12_rt_Proof.
Example C12_rt_Proof_nonvacuous : wf_Proof proof_ex.
Proof. exact wf_proof_ex. Qed.

Theorem C12_write_Proof_no_assert : forall p, wf_Proof p -> write_Proof_ok p = true.
Proof. exact wf_Proof_ok. Qed.
Print Assumptions C12_write_Proof_no_assert.

(* ------------------------------------------------------------------------------------------ totality *)
(* no byte string makes any reader of the model panic (every Panic of the model is a constructor assert, and
   the readers validate before constructing); successful reads leave well-formed bytes *)
Theorem C12_read_Proof_never_panics : forall bs, is_bytes bs ->
  match read_Proof bs with Ok (_, rest) => True /\ is_bytes rest | Err _ => True | Panic => False end.
Proof. exact read_Proof_no_panic. Qed.
Print Assumptions C12_read_Proof_never_panics.

Theorem C12_read_Context_never_panics : forall bs, is_bytes bs ->
  match read_Context bs with Ok (_, rest) => True /\ is_bytes rest | Err _ => True | Panic => False end.
Proof. exact read_Context_no_panic. Qed.
Print Assumptions C12_read_Context_never_panics.

Theorem C12_read_FriProof_never_panics : forall bs, is_bytes bs ->
  match read_FriProof bs with Ok (_, rest) => True /\ is_bytes rest | Err _ => True | Panic => False end.
Proof. exact read_FriProof_no_panic. Qed.
Print Assumptions C12_read_FriProof_never_panics.

Theorem C12_read_vec_never_panics : forall A (P : A -> Prop) (r : Rd A),
  (forall bs, is_bytes bs -> match r bs with Ok (a, rest) => P a /\ is_bytes rest | Err _ => True | Panic => False end) ->
  forall bs, is_bytes bs ->
  match read_vec_of r bs with Ok (l, rest) => Forall P l /\ is_bytes rest | Err _ => True | Panic => False end.
Proof. exact @safe_read_vec_of. Qed.
Print Assumptions C12_read_vec_never_panics.

(* Context::read_from accepts exactly what Context::new accepts for the trace info / options it has read *)
Theorem C12_read_Context_total : forall bs, is_bytes bs ->
  match read_Context bs with
  | Ok (c, rest) => (wf_TraceInfo (ctx_trace_info c) /\ wf_ProofOptions (ctx_options c) /\ 1 <= len (ctx_modulus c) <= 255 /\
                     Context_new (ctx_modulus c) (ctx_trace_info c) (ctx_options c) = Ok c) /\ is_bytes rest
  | Err _ => True
  | Panic => False
  end.
Proof. exact read_Context_total. Qed.
Print Assumptions C12_read_Context_total.

(* ------------------------------------------------- the hand model equals the code regenerated by rs2v *)
(* coq/Gen/Serde.v and coq/Gen/Limits.v are regenerated from utils/core/src/serde/byte_{writer,reader}.rs,
   air/src/options.rs, air/src/air/trace_info.rs, air/src/proof/context.rs, fri/src/proof.rs on every run.
   The byte I/O skeleton (peek/read/write calls, the 9-byte test, slicing) stays in the hand model and is pinned
   by source guards of the units; everything arithmetic below is the translated source. *)
Theorem C12_gen_encoded_len : forall v, encoded_len v = Serde.serde_encoded_len v.
Proof. exact encoded_len_gen. Qed.
Print Assumptions C12_gen_encoded_len.

Theorem C12_gen_encoded_len_no_overflow : forall v, Serde.serde_encoded_len_ok v = true.
Proof. exact encoded_len_gen_no_overflow. Qed.
Print Assumptions C12_gen_encoded_len_no_overflow.

Theorem C12_gen_write_usize : forall v, write_usize v = write_usize_g v.
Proof. exact write_usize_gen. Qed.
Print Assumptions C12_gen_write_usize.

Theorem C12_gen_write_usize_no_overflow : forall v, Serde.serde_write_usize_enc_ok v (Serde.serde_encoded_len v) = true.
Proof. exact write_usize_gen_no_overflow. Qed.
Print Assumptions C12_gen_write_usize_no_overflow.

Theorem C12_gen_read_usize : forall bs, read_usize bs = read_usize_g bs.
Proof. exact read_usize_gen. Qed.
Print Assumptions C12_gen_read_usize.

(* the vint64 round trip stated on the regenerated arithmetic *)
Theorem C12_vint64_rt_gen : forall v rest, 0 <= v < 2 ^ 64 -> read_usize_g (write_usize_g v ++ rest) = Ok (v, rest).
Proof. exact vint64_rt_gen. Qed.
Print Assumptions C12_vint64_rt_gen.

(* the constructors accept exactly when the conjunction of their translated asserts holds, hence wf_ProofOptions /
   wf_TraceInfo / wf_Context are statements about the regenerated asserts and constants *)
Theorem C12_gen_ProofOptions_new : forall nq bf gf fe ff rd, 0 <= rd < 2 ^ 64 ->
  ProofOptions_new nq bf gf fe ff rd =
  if Limits.lim_po_new_checks_ok nq bf gf ff rd
  then Ok (mkPO (wrap 8 nq) (wrap 8 bf) (wrap 8 gf) fe (wrap 8 ff) (wrap 8 rd)) else Panic.
Proof. exact ProofOptions_new_gen. Qed.
Print Assumptions C12_gen_ProofOptions_new.

Theorem C12_gen_TraceInfo_new : forall main aux rands length_ meta,
  TraceInfo_new_multi_segment main aux rands length_ meta =
  if Limits.lim_ti_new_checks_ok main aux rands length_ (len meta) then Ok (mkTI main aux rands length_ meta) else Panic.
Proof. exact TraceInfo_new_gen. Qed.
Print Assumptions C12_gen_TraceInfo_new.

Theorem C12_gen_Context_new : forall modulus t o, 0 <= ti_length t -> 0 <= po_blowup_factor o ->
  Context_new modulus t o =
  if Limits.lim_ctx_new_checks_ok (ti_length t) (po_blowup_factor o) then Ok (mkCtx t modulus o) else Panic.
Proof. exact Context_new_gen. Qed.
Print Assumptions C12_gen_Context_new.

Theorem C12_gen_limits :
  Limits.lim_MAX_NUM_QUERIES = 255 /\ Limits.lim_MIN_BLOWUP_FACTOR = 2 /\ Limits.lim_MAX_BLOWUP_FACTOR = 128 /\
  Limits.lim_MAX_GRINDING_FACTOR = 32 /\ Limits.lim_FRI_MIN_FOLDING_FACTOR = 2 /\ Limits.lim_FRI_MAX_FOLDING_FACTOR = 16 /\
  Limits.lim_FRI_MAX_REMAINDER_DEGREE = 255 /\ Limits.lim_MIN_TRACE_LENGTH = 8 /\ Limits.lim_MAX_TRACE_WIDTH = 255 /\
  Limits.lim_MAX_META_LENGTH = 65535 /\ Limits.lim_MAX_RAND_SEGMENT_ELEMENTS = 255.
Proof. exact limits_gen. Qed.
Print Assumptions C12_gen_limits.

(* the readers: byte reads (hand) around the translated validation code *)
Theorem C12_gen_read_ProofOptions : forall bs, is_bytes bs -> read_ProofOptions bs = read_ProofOptions_g bs.
Proof. exact read_ProofOptions_gen. Qed.
Print Assumptions C12_gen_read_ProofOptions.

Theorem C12_gen_read_TraceInfo : forall bs, is_bytes bs -> read_TraceInfo bs = read_TraceInfo_g bs.
Proof. exact read_TraceInfo_gen. Qed.
Print Assumptions C12_gen_read_TraceInfo.

Theorem C12_gen_read_Context : forall bs, read_Context bs = read_Context_g bs.
Proof. exact read_Context_gen. Qed.
Print Assumptions C12_gen_read_Context.

Theorem C12_gen_read_FriProof : forall bs, read_FriProof bs = read_FriProof_g bs.
Proof. exact read_FriProof_gen. Qed.
Print Assumptions C12_gen_read_FriProof.
