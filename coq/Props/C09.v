(* C09 — FFT, interpolation and LDE equal direct polynomial evaluation.
   Only statements, `exact` of lemmas proved in Proofs/FFT*.v, and Print Assumptions.

   Model: coq/Model/FFT.v (faithful, index-level: fft_in_place with count/stride/offset and both recursion
   strategies, butterflies, permute, twiddles, evaluate/interpolate (with offset, blowup), infer_degree, segments).
   Everything is stated for EVERY field `O` with `FLaws O` and EVERY size 2^k — no bound.
   `root_cond O k w` : w^(2^(k-1)) = -1 (k >= 1), i.e. w is a primitive 2^k-th root of unity.
   `tw_ok O tw k w`  : tw[i] = w^(bitrev_{k-1} i) for i < 2^(k-1)  (what get_twiddles returns, C09_get_twiddles).
   Non-vacuity: Proofs/FFTExamples.v instantiates every hypothesis set in Z/17 (w = 3, sizes 8 and 16) and
   compares the computed outputs with independently computed direct evaluations. *)
From Coq Require Import List Arith Bool ZArith.
From VBase Require Import FieldOps.
From VModel Require Import FFT FFTSplit.
From VGen Require Import FftIndex.
From VProofs Require Import FFTSpec FFTRefine FFTEval FFTOffset FFTSegments FFTPermU64 FFTNoPanic FFTGen FFTSplit FFTTranspose FFTConcurrent FFTSplitRows FFTF17 FFTExamples.
Import ListNotations.
Open Scope nat_scope.

(* ------------------------------------------------------------------ stage (a): spec level, every k *)
(* radix-2 decimation: P(x) = Pe(x^2) + x * Po(x^2) *)
Theorem C09_decimation : forall (F : Type) (O : FOps F), FLaws O -> forall (l : list F) (x : F),
  peval O l x = fadd O (peval O (fst (split_eo l)) (fmul O x x)) (fmul O x (peval O (snd (split_eo l)) (fmul O x x))).
Proof. exact @peval_split. Qed.
Print Assumptions C09_decimation.

(* the recursive list-splitting FFT is the DFT by direct evaluation *)
Theorem C09_fft_rec_spec : forall (F : Type) (O : FOps F), FLaws O -> forall (k : nat) (w : F) (l : list F),
  length l = 2 ^ k -> root_cond O k w ->
  fft_rec O k w l = map (fun i => peval O l (fpow O w i)) (seq 0 (2 ^ k)).
Proof. exact @fft_rec_correct. Qed.
Print Assumptions C09_fft_rec_spec.

Theorem C09_spec_eval_offset : forall (F : Type) (O : FOps F), FLaws O -> forall (K : nat) (g : F) (p : list F) (offset : F),
  length p <= 2 ^ K -> root_cond O K g ->
  spec_eval_offset O K g p offset = map (fun i => peval O p (fmul O offset (fpow O g i))) (seq 0 (2 ^ K)).
Proof. exact @spec_eval_offset_correct. Qed.
Print Assumptions C09_spec_eval_offset.

Theorem C09_spec_interpolate_inverse : forall (F : Type) (O : FOps F), FLaws O ->
  forall (k : nat) (w winv ninv : F) (l : list F),
  length l = 2 ^ k -> root_cond O k w -> fmul O w winv = fone O -> fmul O (two_pow_f O k) ninv = fone O ->
  spec_interpolate O k winv ninv (fft_rec O k w l) = l.
Proof. exact @spec_interpolate_inverse. Qed.
Print Assumptions C09_spec_interpolate_inverse.

(* ------------------------------------------------------------------ stage (c): the faithful index-level model, every K *)
(* fft_in_place(values, twiddles, count, stride, offset): for every j in [offset, offset+count) the stride-`stride`
   subsequence starting at j is replaced by its bit-reversed FFT (`brfft`: the list-level recursion with the code's
   butterfly formulas), every other position is untouched; both recursion strategies; ANY FOps (no law used). *)
Theorem C09_fft_in_place_spec : forall (F : Type) (O : FOps F) (tw : list F) (K fuel : nat) (v : list F) (count s offset : nat),
  K <= fuel -> 0 < s -> length v = 2 ^ S K * s -> offset + count <= s ->
  let v' := fft_in_place O fuel v tw count s offset in
  length v' = length v /\
  forall j q, j < s -> q < 2 ^ S K ->
    nth (j + s * q) v' (fzero O) =
      if in_rng offset count j then nth q (brfft O tw (S K) (sub O v j s (2 ^ S K))) (fzero O)
      else nth (j + s * q) v (fzero O).
Proof. exact @fft_in_place_spec. Qed.
Print Assumptions C09_fft_in_place_spec.

(* ... and brfft is the DFT in bit-reversed order *)
Theorem C09_brfft_spec : forall (F : Type) (O : FOps F), FLaws O -> forall (tw : list F) (k : nat) (w : F) (l : list F) (i : nat),
  length l = 2 ^ k -> root_cond O k w -> tw_ok O tw k w -> i < 2 ^ k ->
  nth i (brfft O tw k l) (fzero O) = peval O l (fpow O w (rev_bits k i)).
Proof. exact @brfft_dft. Qed.
Print Assumptions C09_brfft_spec.

Theorem C09_permute_spec : forall (F : Type) (O : FOps F) (k : nat) (v : list F), length v = 2 ^ k ->
  length (permute O v) = 2 ^ k /\
  forall i, i < 2 ^ k -> nth i (permute O v) (fzero O) = nth (rev_bits k i) v (fzero O).
Proof. exact @permute_spec. Qed.
Print Assumptions C09_permute_spec.

Theorem C09_permute_involutive : forall (F : Type) (O : FOps F) (k : nat) (v : list F), length v = 2 ^ k ->
  permute O (permute O v) = v.
Proof. exact @permute_involutive. Qed.
Print Assumptions C09_permute_involutive.

Theorem C09_permute_index_spec : forall k i, permute_index (2 ^ k) i = rev_bits k i.
Proof. exact permute_index_spec. Qed.
Print Assumptions C09_permute_index_spec.

Theorem C09_permute_index_involutive : forall k i, i < 2 ^ k ->
  permute_index (2 ^ k) i < 2 ^ k /\ permute_index (2 ^ k) (permute_index (2 ^ k) i) = i.
Proof. exact permute_index_involutive. Qed.
Print Assumptions C09_permute_index_involutive.

(* the 64-bit formula index.reverse_bits() >> (64 - size.trailing_zeros()) is the bit reversal, every size 2^k <= 2^63 *)
Theorem C09_permute_index_u64_spec : forall k i, k <= 63 -> i < 2 ^ k ->
  permute_index_u64 (N.of_nat (2 ^ k)) (N.of_nat i) = Some (N.of_nat (rev_bits k i)).
Proof. exact permute_index_u64_spec. Qed.
Print Assumptions C09_permute_index_u64_spec.

Theorem C09_get_twiddles : forall (F : Type) (O : FOps F), FLaws O -> forall (two_adicity : nat) (root_of_unity : nat -> F) (K : nat),
  S K <= two_adicity ->
  exists tw, get_twiddles O two_adicity root_of_unity (2 ^ S K) = Some tw /\
             length tw = 2 ^ K /\ tw_ok O tw (S K) (root_of_unity (S K)).
Proof. exact @get_twiddles_correct. Qed.
Print Assumptions C09_get_twiddles.

Theorem C09_get_inv_twiddles : forall (F : Type) (O : FOps F), FLaws O ->
  forall (two_adicity : nat) (root_of_unity : nat -> F) (K : nat) (w : F),
  S K <= two_adicity -> root_of_unity (S K) = w -> root_cond O (S K) w ->
  exists itw, get_inv_twiddles O two_adicity root_of_unity (2 ^ S K) = Some itw /\
              length itw = 2 ^ K /\ tw_ok O itw (S K) (fpow O w (2 ^ S K - 1)) /\
              fmul O w (fpow O w (2 ^ S K - 1)) = fone O.
Proof. exact @get_inv_twiddles_correct. Qed.
Print Assumptions C09_get_inv_twiddles.

(* evaluate_poly(p, twiddles) = [p(w^i)]_{i < n} in natural order *)
Theorem C09_evaluate_poly_spec : forall (F : Type) (O : FOps F), FLaws O ->
  forall (two_adicity : nat) (tw : list F) (K : nat) (w : F) (p : list F),
  length p = 2 ^ S K -> length tw = 2 ^ K -> S K <= two_adicity -> root_cond O (S K) w -> tw_ok O tw (S K) w ->
  evaluate_poly O two_adicity p tw = Some (map (fun i => peval O p (fpow O w i)) (seq 0 (2 ^ S K))).
Proof. exact @evaluate_poly_correct. Qed.
Print Assumptions C09_evaluate_poly_spec.

(* evaluate_poly_with_offset(p, twiddles, offset, 2^b)[i] = p(offset * g^i), g of order n * 2^b, every blowup 2^b *)
Theorem C09_evaluate_with_offset_spec : forall (F : Type) (O : FOps F), FLaws O ->
  forall (two_adicity : nat) (root_of_unity : nat -> F) (tw : list F) (K b : nat) (g offset : F) (p : list F),
  length p = 2 ^ S K -> length tw = 2 ^ K -> S K + b <= two_adicity ->
  root_of_unity (S K + b) = g -> root_cond O (S K + b) g -> tw_ok O tw (S K) (fpow O g (2 ^ b)) ->
  offset <> fzero O ->
  evaluate_poly_with_offset O two_adicity root_of_unity p tw offset (2 ^ b)
    = Some (map (fun i => peval O p (fmul O offset (fpow O g i))) (seq 0 (2 ^ (S K + b)))).
Proof. exact @evaluate_poly_with_offset_correct. Qed.
Print Assumptions C09_evaluate_with_offset_spec.

(* interpolate_poly(evaluate_poly(p)) = p.  `n_inv O k` = inv(Self::from(2^k as u32)); the hypothesis on it says that
   the image of 2^k is 2^k (fofz is a ring morphism there) and is invertible (odd characteristic). *)
Theorem C09_interpolate_spec : forall (F : Type) (O : FOps F), FLaws O ->
  forall (two_adicity : nat) (itw : list F) (K : nat) (w winv : F) (p : list F),
  length p = 2 ^ S K -> length itw = 2 ^ K -> S K <= two_adicity ->
  root_cond O (S K) w -> fmul O w winv = fone O -> tw_ok O itw (S K) winv ->
  fmul O (two_pow_f O (S K)) (n_inv O (S K)) = fone O ->
  interpolate_poly O two_adicity (map (fun i => peval O p (fpow O w i)) (seq 0 (2 ^ S K))) itw = Some p.
Proof. exact @interpolate_evaluate. Qed.
Print Assumptions C09_interpolate_spec.

Theorem C09_interpolate_with_offset_spec : forall (F : Type) (O : FOps F), FLaws O ->
  forall (two_adicity : nat) (itw : list F) (K : nat) (w winv offset : F) (p : list F),
  length p = 2 ^ S K -> length itw = 2 ^ K -> S K <= two_adicity ->
  root_cond O (S K) w -> fmul O w winv = fone O -> tw_ok O itw (S K) winv -> offset <> fzero O ->
  fmul O (two_pow_f O (S K)) (n_inv O (S K)) = fone O ->
  interpolate_poly_with_offset O two_adicity
    (map (fun i => peval O p (fmul O offset (fpow O w i))) (seq 0 (2 ^ S K))) itw offset = Some p.
Proof. exact @interpolate_evaluate_with_offset. Qed.
Print Assumptions C09_interpolate_with_offset_spec.

(* interpolation of ARBITRARY values: the inverse DFT scaled by 1/n (and by offset^-j) *)
Theorem C09_interpolate_poly_values : forall (F : Type) (O : FOps F), FLaws O ->
  forall (two_adicity : nat) (itw : list F) (K : nat) (winv : F) (v : list F),
  length v = 2 ^ S K -> length itw = 2 ^ K -> S K <= two_adicity -> root_cond O (S K) winv -> tw_ok O itw (S K) winv ->
  interpolate_poly O two_adicity v itw = Some (spec_interpolate O (S K) winv (n_inv O (S K)) v).
Proof. exact @interpolate_poly_correct. Qed.
Print Assumptions C09_interpolate_poly_values.

(* ... and for ARBITRARY values v the interpolant evaluates back to v: with C09_interpolate_spec, interpolate_poly
   returns THE polynomial with < n coefficients through the given values (existence and uniqueness) *)
Theorem C09_interpolate_unique : forall (F : Type) (O : FOps F), FLaws O ->
  forall (two_adicity : nat) (tw itw : list F) (K : nat) (w winv : F) (v : list F),
  length v = 2 ^ S K -> length tw = 2 ^ K -> length itw = 2 ^ K -> S K <= two_adicity ->
  root_cond O (S K) w -> fmul O w winv = fone O -> tw_ok O tw (S K) w -> tw_ok O itw (S K) winv ->
  fmul O (two_pow_f O (S K)) (n_inv O (S K)) = fone O ->
  exists c, interpolate_poly O two_adicity v itw = Some c /\ length c = 2 ^ S K /\
            evaluate_poly O two_adicity c tw = Some v.
Proof. exact @evaluate_interpolate. Qed.
Print Assumptions C09_interpolate_unique.

(* degree inference: degree_of is the index of the last non-zero coefficient (0 for the zero polynomial), and
   infer_degree of the evaluations of p over offset*<w> is degree_of p *)
Theorem C09_degree_of_spec : forall (F : Type) (O : FOps F), FLaws O -> forall (p : list F) (d : nat),
  nth d p (fzero O) <> fzero O -> (forall j, d < j -> nth j p (fzero O) = fzero O) -> degree_of O p = d.
Proof. exact @degree_of_spec. Qed.
Print Assumptions C09_degree_of_spec.

Theorem C09_degree_of_zero : forall (F : Type) (O : FOps F), FLaws O -> forall p : list F,
  (forall j, nth j p (fzero O) = fzero O) -> degree_of O p = 0.
Proof. exact @degree_of_zero. Qed.
Print Assumptions C09_degree_of_zero.

Theorem C09_infer_degree_spec : forall (F : Type) (O : FOps F), FLaws O ->
  forall (two_adicity : nat) (root_of_unity : nat -> F) (K : nat) (w offset : F) (p : list F),
  length p = 2 ^ S K -> S K <= two_adicity -> root_of_unity (S K) = w -> root_cond O (S K) w -> offset <> fzero O ->
  fmul O (two_pow_f O (S K)) (n_inv O (S K)) = fone O ->
  infer_degree O two_adicity root_of_unity
    (map (fun i => peval O p (fmul O offset (fpow O w i))) (seq 0 (2 ^ S K))) offset = Some (degree_of O p).
Proof. exact @infer_degree_correct. Qed.
Print Assumptions C09_infer_degree_spec.

(* ------------------------------------------------------------------ batched, segmented LDE (RowMatrix::evaluate_polys_over::<N>) *)
(* every column count m >= 1 and segment width N >= 1 (full and partial last segment), every blowup 2^b >= 2:
   get(c, r) = polys[c](offset * g^r); num_rows = n * 2^b; the padding of the last segment is zero. *)
Theorem C09_segments_spec : forall (F : Type) (O : FOps F), FLaws O ->
  forall (root_of_unity : nat -> F) (N : nat) (polys : list (list F)) (tw : list F) (K b : nat) (g offset : F),
  0 < N -> polys <> [] -> (forall p, In p polys -> length p = 2 ^ S K) -> length tw = 2 ^ K -> 0 < b ->
  root_of_unity (S K + b) = g -> root_cond O (S K + b) g -> tw_ok O tw (S K) (fpow O g (2 ^ b)) ->
  exists M, evaluate_polys_over O root_of_unity N polys tw offset (2 ^ b) = Some M /\
    rm_num_rows M = 2 ^ (S K + b) /\ rm_elements_per_row M = length polys /\
    forall c r, c < length polys -> r < 2 ^ (S K + b) ->
      rm_get O M c r = Some (peval O (nth c polys []) (fmul O offset (fpow O g r))).
Proof. exact @segments_correct. Qed.
Print Assumptions C09_segments_spec.

(* ColMatrix::evaluate_columns_over(domain): every column evaluated over the coset, every column count *)
Theorem C09_evaluate_columns_spec : forall (F : Type) (O : FOps F), FLaws O ->
  forall (root_of_unity : nat -> F) (two_adicity : nat) (polys : list (list F)) (tw : list F) (K b : nat) (g offset : F),
  polys <> [] -> (forall p, In p polys -> length p = 2 ^ S K) -> length tw = 2 ^ K -> S K + b <= two_adicity ->
  root_of_unity (S K + b) = g -> root_cond O (S K + b) g -> tw_ok O tw (S K) (fpow O g (2 ^ b)) -> offset <> fzero O ->
  evaluate_columns_over O two_adicity root_of_unity polys tw offset (2 ^ b)
    = Some (map (fun p => map (fun i => peval O p (fmul O offset (fpow O g i))) (seq 0 (2 ^ (S K + b)))) polys).
Proof. exact @evaluate_columns_over_correct. Qed.
Print Assumptions C09_evaluate_columns_spec.

(* ------------------------------------------------------------------ no slice access out of range; panic domains *)
(* The CHECKED model (Model/FFT.v, Section Checked): every values[i], twiddles[i], swap(i,j), the division
   values.len()/stride and — for dbg = true, the debug profile — the debug_asserts of fft_in_place and permute_index
   are explicit guards (None = panic).  For EVERY size, any count/stride/offset as passed by the entry points and by
   the recursion (offset < stride, offset + count <= stride), twiddles of at least n/2 elements: no guard fails and the
   result is the total model's.  No field law used. *)
Theorem C09_fft_in_place_no_panic : forall (F : Type) (O : FOps F) (dbg : bool) (tw : list F) (K fuel : nat) (v : list F)
    (count s offset : nat),
  K <= fuel -> 0 < s -> length v = 2 ^ S K * s -> offset < s -> offset + count <= s -> 2 ^ K <= length tw ->
  fft_in_place_c O dbg fuel v tw count s offset = Some (fft_in_place O fuel v tw count s offset).
Proof. exact @fft_in_place_no_panic. Qed.
Print Assumptions C09_fft_in_place_no_panic.

Theorem C09_permute_no_panic : forall (F : Type) (O : FOps F) (dbg : bool) (k : nat) (v : list F),
  length v = 2 ^ k -> permute_c O dbg v = Some (permute O v).
Proof. exact @permute_no_panic. Qed.
Print Assumptions C09_permute_no_panic.

(* the checked entry points EQUAL the option-valued entry points used by every theorem above, on ALL inputs
   (well-formed or not, both profiles): inside the asserts nothing else can panic *)
Theorem C09_entry_points_no_panic : forall (F : Type) (O : FOps F) (dbg : bool) (two_adicity : nat) (root_of_unity : nat -> F),
  (forall p tw, evaluate_poly_c O dbg two_adicity p tw = evaluate_poly O two_adicity p tw) /\
  (forall p tw offset blowup, evaluate_poly_with_offset_c O dbg two_adicity root_of_unity p tw offset blowup
                              = evaluate_poly_with_offset O two_adicity root_of_unity p tw offset blowup) /\
  (forall v itw, interpolate_poly_c O dbg two_adicity v itw = interpolate_poly O two_adicity v itw) /\
  (forall v itw offset, interpolate_poly_with_offset_c O dbg two_adicity v itw offset
                        = interpolate_poly_with_offset O two_adicity v itw offset) /\
  (forall n, get_twiddles_c O dbg two_adicity root_of_unity n = get_twiddles O two_adicity root_of_unity n) /\
  (forall n, get_inv_twiddles_c O dbg two_adicity root_of_unity n = get_inv_twiddles O two_adicity root_of_unity n) /\
  (forall v offset, infer_degree_c O dbg two_adicity root_of_unity v offset = infer_degree O two_adicity root_of_unity v offset).
Proof.
  exact (fun F O dbg ad r =>
    conj (evaluate_poly_checked O dbg ad)
   (conj (evaluate_poly_with_offset_checked O dbg ad r)
   (conj (interpolate_poly_checked O dbg ad)
   (conj (interpolate_poly_with_offset_checked O dbg ad)
   (conj (get_twiddles_checked O dbg ad r)
   (conj (get_inv_twiddles_checked O dbg ad r) (infer_degree_checked O dbg ad r))))))).
Qed.
Print Assumptions C09_entry_points_no_panic.

(* exact panic domains: an entry point returns (does not panic) IFF its asserts hold *)
Theorem C09_evaluate_poly_total_iff : forall (F : Type) (O : FOps F) (two_adicity : nat) (p tw : list F),
  evaluate_poly O two_adicity p tw <> None <->
  is_pow2 (length p) = true /\ length p = length tw * 2 /\ Nat.log2 (length p) <= two_adicity.
Proof. exact @evaluate_poly_total_iff. Qed.
Print Assumptions C09_evaluate_poly_total_iff.

Theorem C09_evaluate_with_offset_total_iff : forall (F : Type) (O : FOps F) (two_adicity : nat) (root_of_unity : nat -> F)
    (p tw : list F) (offset : F) (blowup : nat),
  evaluate_poly_with_offset O two_adicity root_of_unity p tw offset blowup <> None <->
  is_pow2 (length p) = true /\ is_pow2 blowup = true /\ length p = length tw * 2 /\
  Nat.log2 (length p * blowup) <= two_adicity /\ feqb O offset (fzero O) = false.
Proof. exact @evaluate_poly_with_offset_total_iff. Qed.
Print Assumptions C09_evaluate_with_offset_total_iff.

Theorem C09_interpolate_poly_total_iff : forall (F : Type) (O : FOps F) (two_adicity : nat) (v itw : list F),
  interpolate_poly O two_adicity v itw <> None <->
  is_pow2 (length v) = true /\ length v = length itw * 2 /\ Nat.log2 (length v) <= two_adicity.
Proof. exact @interpolate_poly_total_iff. Qed.
Print Assumptions C09_interpolate_poly_total_iff.

Theorem C09_interpolate_with_offset_total_iff : forall (F : Type) (O : FOps F) (two_adicity : nat) (v itw : list F) (offset : F),
  interpolate_poly_with_offset O two_adicity v itw offset <> None <->
  is_pow2 (length v) = true /\ length v = length itw * 2 /\ Nat.log2 (length v) <= two_adicity /\
  feqb O offset (fzero O) = false.
Proof. exact @interpolate_poly_with_offset_total_iff. Qed.
Print Assumptions C09_interpolate_with_offset_total_iff.

(* get_twiddles(1) panics in get_root_of_unity(0) *)
Theorem C09_get_twiddles_total_iff : forall (F : Type) (O : FOps F) (two_adicity : nat) (root_of_unity : nat -> F) (n : nat),
  get_twiddles O two_adicity root_of_unity n <> None <->
  is_pow2 n = true /\ Nat.log2 n <= two_adicity /\ Nat.log2 n <> 0.
Proof. exact @get_twiddles_total_iff. Qed.
Print Assumptions C09_get_twiddles_total_iff.

Theorem C09_infer_degree_total_iff : forall (F : Type) (O : FOps F) (two_adicity : nat) (root_of_unity : nat -> F)
    (v : list F) (offset : F),
  infer_degree O two_adicity root_of_unity v offset <> None <->
  is_pow2 (length v) = true /\ Nat.log2 (length v) <= two_adicity /\ Nat.log2 (length v) <> 0 /\
  feqb O offset (fzero O) = false.
Proof. exact @infer_degree_total_iff. Qed.
Print Assumptions C09_infer_degree_total_iff.

(* ------------------------------------------------------------------ tie to the TRANSLATED source (rs2v) *)
(* VGen.FftIndex.fftidx_permute_index is regenerated from math/src/fft/mod.rs on every run (reverse_bits,
   trailing_zeros, wrapping_shr on 64-bit words; its checked subtraction never wraps: `_ok`).  The hand model's
   permute_index_u64 and permute_index compute exactly this term, every size 2^k <= 2^63, every index < size. *)
Theorem C09_permute_index_generated : forall k i : nat, k <= 63 -> i < 2 ^ k ->
  permute_index_u64 (N.of_nat (2 ^ k)) (N.of_nat i)
    = Some (Z.to_N (fftidx_permute_index (Z.of_nat (2 ^ k)) (Z.of_nat i))) /\
  Z.of_nat (permute_index (2 ^ k) i) = fftidx_permute_index (Z.of_nat (2 ^ k)) (Z.of_nat i) /\
  fftidx_permute_index_ok (Z.of_nat (2 ^ k)) (Z.of_nat i) = true.
Proof. exact permute_index_model_is_generated. Qed.
Print Assumptions C09_permute_index_generated.

(* ------------------------------------------------------------------ the four-step FFT of the concurrent build *)
(* math/src/fft/concurrent.rs split_radix_fft (duplicated in prover/src/matrix/segments.rs), sequentialised over the
   disjoint rows (C14_disjoint_commute / C14_phase_schedule_independent justify the sequentialisation): transpose,
   row FFTs fft_in_place_raw(stretch, stretch, 0), transpose, outer twiddles g^(bitrev(i) * m), row FFTs — returns
   EXACTLY the vector fft_in_place returns (same bit-reversed order; concurrent::evaluate_poly permutes afterwards),
   for n = 4^(K+1) (s = 0, stretch 1) and n = 2 * 4^(K+1) (s = 1, stretch 2), every K, every field with FLaws.
   Model/FFTSplit.v: `split_radix_fft_with tr`; here with the transposition given by its index specification
   `transpose_spec` (cell (r,c) <- cell (c,r)) — the algebraic and index core; C09_split_radix_is_fft below is the
   statement for the faithful swap-loop transpositions. *)
Theorem C09_split_radix_core : forall (F : Type) (O : FOps F), FLaws O ->
  forall (tw : list F) (K s : nat) (w : F) (x : list F),
  s <= 1 -> length x = 2 ^ (S K + S K + s) -> length tw = 2 ^ (S K + K + s) ->
  tw_ok O tw (S K + S K + s) w -> root_cond O (S K + S K + s) w ->
  split_radix_fft_spec_tr O x tw = Some (fft_in_place_top O x tw).
Proof. exact @split_radix_spec_tr_is_fft. Qed.
Print Assumptions C09_split_radix_core.

(* the in-place transpositions (swap loops over the upper triangle: 2x2 blocks for stretch 1, 1x2 blocks for
   stretch 2) are the transposition of the size x size matrix of `stretch`-element cells, every size *)
Theorem C09_transpose_square_stretch_spec : forall (F : Type) (O : FOps F) (m : list F) (size st : nat),
  length m = size * size * st -> (st = 1 /\ size mod 2 = 0) \/ st = 2 ->
  transpose_square_stretch O m size st = Some (transpose_spec O size st m).
Proof. exact @transpose_square_stretch_spec. Qed.
Print Assumptions C09_transpose_square_stretch_spec.

(* split_radix_fft (faithful: swap-loop transpositions, fft_in_place_raw rows, running-product outer twiddles)
   returns exactly the vector of fft_in_place, n = 4^(K+1) and n = 2*4^(K+1), every K.  C14-facing: every
   `concurrent` build evaluates the same function as the serial build wherever it calls split_radix_fft. *)
Theorem C09_split_radix_is_fft : forall (F : Type) (O : FOps F), FLaws O ->
  forall (tw : list F) (K s : nat) (w : F) (x : list F),
  s <= 1 -> length x = 2 ^ (S K + S K + s) -> length tw = 2 ^ (S K + K + s) ->
  tw_ok O tw (S K + S K + s) w -> root_cond O (S K + S K + s) w ->
  split_radix_fft O x tw = Some (fft_in_place_top O x tw).
Proof. exact @split_radix_is_fft. Qed.
Print Assumptions C09_split_radix_is_fft.

(* concurrent::evaluate_poly = split_radix_fft then permute = [p(w^i)]_i in natural order *)
Theorem C09_evaluate_poly_concurrent_spec : forall (F : Type) (O : FOps F), FLaws O ->
  forall (tw : list F) (K s : nat) (w : F) (p : list F),
  s <= 1 -> length p = 2 ^ (S K + S K + s) -> length tw = 2 ^ (S K + K + s) ->
  tw_ok O tw (S K + S K + s) w -> root_cond O (S K + S K + s) w ->
  evaluate_poly_concurrent O p tw = Some (map (fun i => peval O p (fpow O w i)) (seq 0 (2 ^ (S K + S K + s)))).
Proof. exact @evaluate_poly_concurrent_correct. Qed.
Print Assumptions C09_evaluate_poly_concurrent_spec.

(* the row ([[B; N]]) instance — prover/src/matrix/segments.rs mod concurrent: split_radix_fft at the pointwise row
   operations equals the serial row FFT (every column undergoes the scalar split radix = scalar fft_in_place) *)
Theorem C09_split_radix_rows_is_fft : forall (F : Type) (O : FOps F), FLaws O ->
  forall (N : nat) (tw : list F) (K s : nat) (w : F) (rows : list (list F)),
  0 < N -> s <= 1 -> wf_rows N rows -> length rows = 2 ^ (S K + S K + s) -> length tw = 2 ^ (S K + K + s) ->
  tw_ok O tw (S K + S K + s) w -> root_cond O (S K + S K + s) w ->
  split_radix_fft (rows_ops O N) rows (map (fun t => repeat t N) tw)
    = Some (fft_in_place_top (rows_ops O N) rows (map (fun t => repeat t N) tw)).
Proof. exact @split_radix_rows_is_fft. Qed.
Print Assumptions C09_split_radix_rows_is_fft.

(* Segment::new_with_buffer: the concurrent branch (copy_polys / copy_polys_partial, split_radix_fft on rows,
   concurrent::permute) computes the same segment as the serial branch — also the same panic outcome of the asserts —
   for every segment width N >= 1, column offset, offsets vector (any domain size), trace length 4^(K+1) or
   2*4^(K+1).  (A trace of length 2 with a domain >= 1024 makes the concurrent branch panic inside split_radix_fft:
   outside the hypotheses, see notes.) *)
Theorem C09_segment_concurrent_eq_serial : forall (F : Type) (O : FOps F), FLaws O ->
  forall (N : nat) (polys : list (list F)) (poly_offset : nat) (offsets tw : list F) (K s : nat) (w : F),
  0 < N -> s <= 1 -> length (hd [] polys) = 2 ^ (S K + S K + s) -> length tw = 2 ^ (S K + K + s) ->
  tw_ok O tw (S K + S K + s) w -> root_cond O (S K + S K + s) w ->
  segment_new_concurrent O N polys poly_offset offsets tw = segment_new O N polys poly_offset offsets tw.
Proof. exact @segment_concurrent_eq_serial. Qed.
Print Assumptions C09_segment_concurrent_eq_serial.

Theorem C09_rowmatrix_concurrent_eq_serial : forall (F : Type) (O : FOps F), FLaws O ->
  forall (root_of_unity : nat -> F) (N : nat) (polys : list (list F)) (tw : list F) (offset : F) (blowup K s : nat) (w : F),
  s <= 1 -> length (hd [] polys) = 2 ^ (S K + S K + s) -> length tw = 2 ^ (S K + K + s) ->
  tw_ok O tw (S K + S K + s) w -> root_cond O (S K + S K + s) w ->
  evaluate_polys_over_concurrent O root_of_unity N polys tw offset blowup
    = evaluate_polys_over O root_of_unity N polys tw offset blowup.
Proof. exact @evaluate_polys_over_concurrent_eq. Qed.
Print Assumptions C09_rowmatrix_concurrent_eq_serial.

(* the wrappers of math/src/fft/concurrent.rs (batched scalings as sequential maps: C14_scale_par_spec,
   C14_get_power_series_with_offset_any_T) satisfy the specifications of their serial counterparts *)
Theorem C09_concurrent_wrappers_spec : forall (F : Type) (O : FOps F), FLaws O ->
  forall (K s : nat), s <= 1 ->
  (* evaluate_poly_with_offset: result[i] = p(offset * g^i) *)
  (forall (root_of_unity : nat -> F) (tw : list F) (b : nat) (g offset : F) (p : list F),
     length p = 2 ^ (S K + S K + s) -> length tw = 2 ^ (S K + K + s) ->
     root_of_unity (S K + S K + s + b) = g -> root_cond O (S K + S K + s + b) g ->
     tw_ok O tw (S K + S K + s) (fpow O g (2 ^ b)) -> offset <> fzero O ->
     evaluate_poly_with_offset_concurrent O root_of_unity p tw offset (2 ^ b)
       = Some (map (fun i => peval O p (fmul O offset (fpow O g i))) (seq 0 (2 ^ (S K + S K + s + b))))) /\
  (* interpolate_poly inverts evaluation *)
  (forall (itw : list F) (w winv : F) (p : list F),
     length p = 2 ^ (S K + S K + s) -> length itw = 2 ^ (S K + K + s) ->
     root_cond O (S K + S K + s) w -> fmul O w winv = fone O -> tw_ok O itw (S K + S K + s) winv ->
     fmul O (two_pow_f O (S K + S K + s)) (n_inv O (S K + S K + s)) = fone O ->
     interpolate_poly_concurrent O (map (fun i => peval O p (fpow O w i)) (seq 0 (2 ^ (S K + S K + s)))) itw = Some p) /\
  (* interpolate_poly_with_offset inverts evaluation over the coset *)
  (forall (itw : list F) (w winv offset : F) (p : list F),
     length p = 2 ^ (S K + S K + s) -> length itw = 2 ^ (S K + K + s) ->
     root_cond O (S K + S K + s) w -> fmul O w winv = fone O -> tw_ok O itw (S K + S K + s) winv -> offset <> fzero O ->
     fmul O (two_pow_f O (S K + S K + s)) (n_inv O (S K + S K + s)) = fone O ->
     interpolate_poly_with_offset_concurrent O
       (map (fun i => peval O p (fmul O offset (fpow O w i))) (seq 0 (2 ^ (S K + S K + s)))) itw offset = Some p).
Proof.
  exact (fun F O L K s Hs =>
    conj (fun r tw b g off p Hl Hlt => evaluate_poly_with_offset_concurrent_correct O L r tw K s b g off p Hs Hl Hlt)
   (conj (fun itw w winv p Hl Hlt => interpolate_poly_concurrent_correct O L itw K s w winv p Hs Hl Hlt)
         (fun itw w winv off p Hl Hlt => interpolate_poly_with_offset_concurrent_correct O L itw K s w winv off p Hs Hl Hlt))).
Qed.
Print Assumptions C09_concurrent_wrappers_spec.

(* ------------------------------------------------------------------ non-vacuity (Z/17, w = 3 of order 16) *)
Theorem C09_nonvacuous_field : FLaws f17_ops.
Proof. exact f17_laws. Qed.
Print Assumptions C09_nonvacuous_field.

Theorem C09_nonvacuous_evaluate : exists tw,
  get_twiddles O17 4 r17 (2 ^ 4) = Some tw /\ length p16 = 2 ^ 4 /\ length tw = 2 ^ 3 /\ 4 <= 4 /\
  root_cond O17 4 (r17 4) /\ tw_ok O17 tw 4 (r17 4) /\
  evaluate_poly O17 4 p16 tw = Some (map (fun i => peval O17 p16 (fpow O17 (r17 4) i)) (seq 0 (2 ^ 4))).
Proof. exact ex_evaluate_poly_hyps. Qed.
Print Assumptions C09_nonvacuous_evaluate.
