(* C10 — Merkle openings verify for committed leaves and only for them.
   Only statements, `exact` of lemmas proved in Proofs/Merkle*.v, and Print Assumptions.
   Model: Model/Merkle.v (hand-written from crypto/src/merkle/{mod,proofs}.rs, tied to the source
   by the correspondence run of checks/c10.py).  All theorems are for an ARBITRARY digest type D
   with a decidable equality and an ARBITRARY merge function: no collision resistance is assumed;
   where binding could fail, an explicit collision is computed instead. *)
From Coq Require Import ZArith List Bool.
From VBase Require Import MachInt.
From VModel Require Import Merkle.
From VProofs Require Import MerkleBase MerkleSingle.
Import ListNotations.
Open Scope Z_scope.

Section C10.
Variable D : Type.
Variable D_eqb : D -> D -> bool.
Hypothesis D_eqb_spec : forall a b, D_eqb a b = true <-> a = b.
Variable d0 : D.
Variable merge : D -> D -> D.

(* MerkleTree::new: the node vector satisfies nodes[k] = merge(child 2k, child 2k+1) for every
   internal heap index k (children of the last row are the leaves), for every depth. *)
Theorem C10_build_nodes_spec : forall leaves t,
  mt_new D d0 merge leaves = Ok t ->
  mt_leaves t = leaves /\ exists d, wf_tree D d0 merge d t.
Proof. exact (build_nodes_spec D d0 merge). Qed.

Theorem C10_new_ok : forall leaves (d : nat), (1 <= d)%nat -> zlen leaves = 2 ^ Z.of_nat d ->
  exists t, mt_new D d0 merge leaves = Ok t.
Proof. exact (mt_new_ok D d0 merge). Qed.

Theorem C10_new_too_few : forall leaves, zlen leaves < 2 ->
  mt_new D d0 merge leaves = Err (TooFewLeaves 2 (zlen leaves)).
Proof. exact (mt_new_too_few D d0 merge). Qed.

Theorem C10_new_not_pow2 : forall leaves, 2 <= zlen leaves -> is_pow2 (zlen leaves) = false ->
  mt_new D d0 merge leaves = Err (NumberOfLeavesNotPowerOfTwo (zlen leaves)).
Proof. exact (mt_new_not_pow2 D d0 merge). Qed.

(* single_complete: for every depth 1..62 (a Vec holds at most isize::MAX elements), every tree,
   every in-range position: prove succeeds, the path has depth+1 elements, starts with the
   committed leaf, and verifies against the root. *)
Theorem C10_single_complete : forall leaves t (d : nat) i root,
  mt_new D d0 merge leaves = Ok t -> zlen leaves = 2 ^ Z.of_nat d -> (d <= 62)%nat ->
  mt_root D t = Ok root -> 0 <= i < zlen leaves ->
  exists p, mt_prove D t i = Ok p /\ length p = S d /\
            nth_error p 0 = nth_error leaves (Z.to_nat i) /\
            verify D D_eqb merge root i p = Ok tt.
Proof. exact (single_complete D D_eqb D_eqb_spec d0 merge). Qed.

(* single_binding: two openings of the same length for the same position which both verify
   against the same root are identical (in particular claim the same leaf), or [find_collision]
   returns two different input pairs of merge with the same output.  No hypothesis on merge. *)
Theorem C10_single_binding : forall root index p p',
  verify D D_eqb merge root index p = Ok tt -> verify D D_eqb merge root index p' = Ok tt ->
  length p = length p' ->
  p = p' \/ exists c, find_collision D D_eqb d0 merge index p p' = Some c /\ is_collision D merge c.
Proof. exact (single_binding_paths D D_eqb D_eqb_spec d0 merge). Qed.

(* ... and against a tree: an opening of the tree's depth that verifies against the tree's root is
   the honest path (so it claims the committed leaf) unless a collision is exhibited. *)
Theorem C10_single_binding_tree : forall t (d : nat) i p,
  wf_tree D d0 merge d t -> (d <= 62)%nat ->
  verify D D_eqb merge (hval D d0 t 1) i p = Ok tt -> length p = S d -> 0 <= i ->
  exists hp, mt_prove D t i = Ok hp /\
    (p = hp \/ exists c, find_collision D D_eqb d0 merge i p hp = Some c /\ is_collision D merge c).
Proof. exact (single_binding_tree D D_eqb D_eqb_spec d0 merge). Qed.

(* verify_total: MerkleTree::verify (repaired) never panics, for ANY root, index and path. *)
Theorem C10_verify_total : forall root index p, verify D D_eqb merge root index p <> Panic.
Proof. exact (verify_total D D_eqb merge). Qed.

(* exact outcome of verify on every input *)
Theorem C10_verify_Ok_iff : forall root index p,
  verify D D_eqb merge root index p = Ok tt <->
  2 <= zlen p <= 64 /\ index < 2 ^ (zlen p - 1) /\
  verify_fold D merge (skipn 2 p) (Z.shiftr (index + 2 ^ (zlen p - 1)) 1)
    (merge (nth (Z.to_nat (Z.land index 1)) p d0) (nth (Z.to_nat (1 - Z.land index 1)) p d0)) = root.
Proof. exact (verify_Ok_iff D D_eqb D_eqb_spec d0 merge). Qed.

Theorem C10_verify_short : forall root index p, zlen p < 2 -> verify D D_eqb merge root index p = Err InvalidProof.
Proof. exact (verify_short D D_eqb merge). Qed.

Theorem C10_verify_long : forall root index p, 65 <= zlen p -> verify D D_eqb merge root index p = Err InvalidProof.
Proof. exact (verify_long D D_eqb merge). Qed.

Theorem C10_verify_out_of_range : forall root index p, 2 <= zlen p <= 64 -> 2 ^ (zlen p - 1) <= index ->
  verify D D_eqb merge root index p = Err (LeafIndexOutOfBounds (2 ^ (zlen p - 1)) index).
Proof. exact (verify_out_of_range D D_eqb merge). Qed.

End C10.

Print Assumptions C10_build_nodes_spec.
Print Assumptions C10_new_ok.
Print Assumptions C10_new_too_few.
Print Assumptions C10_new_not_pow2.
Print Assumptions C10_single_complete.
Print Assumptions C10_single_binding.
Print Assumptions C10_single_binding_tree.
Print Assumptions C10_verify_total.
Print Assumptions C10_verify_Ok_iff.
Print Assumptions C10_verify_short.
Print Assumptions C10_verify_long.
Print Assumptions C10_verify_out_of_range.
