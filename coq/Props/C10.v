(* C10 — Merkle openings verify for committed leaves and only for them.
   Only statements, `exact` of lemmas proved in Proofs/Merkle*.v, and Print Assumptions.
   Model: Model/Merkle.v (hand-written from crypto/src/merkle/{mod,proofs}.rs, tied to the source
   by the correspondence run of checks/c10.py).  All theorems are for an ARBITRARY digest type D
   with a decidable equality and an ARBITRARY merge function: no collision resistance is assumed;
   where binding could fail, an explicit collision is computed instead. *)
From Coq Require Import ZArith List Bool.
From VBase Require Import MachInt.
From VModel Require Import Merkle MerkleStrict.
From VProofs Require Import MerkleBase MerkleSingle MerkleIdx MerkleBatch MerkleTotal MerkleBind MerkleRound MerkleFrom MerkleDead MerkleExamples.
Import ListNotations.
Open Scope Z_scope.

Section C10.
Variable D : Type.
Variable D_eqb : D -> D -> bool.
Hypothesis D_eqb_spec : forall a b, D_eqb a b = true <-> a = b.
Variable d0 : D.
Variable merge : D -> D -> D.

(* MerkleTree::new: the node vector satisfies nodes[k] = merge(child 2k, child 2k+1) for every
   internal heap index k (children of the last row are the leaves), for every depth. *)
Theorem C10_build_nodes_spec : forall leaves t,
  mt_new D d0 merge leaves = Ok t ->
  mt_leaves t = leaves /\ exists d, wf_tree D d0 merge d t.
Proof. exact (build_nodes_spec D d0 merge). Qed.

Theorem C10_new_ok : forall leaves (d : nat), (1 <= d)%nat -> zlen leaves = 2 ^ Z.of_nat d ->
  exists t, mt_new D d0 merge leaves = Ok t.
Proof. exact (mt_new_ok D d0 merge). Qed.

Theorem C10_new_too_few : forall leaves, zlen leaves < 2 ->
  mt_new D d0 merge leaves = Err (TooFewLeaves 2 (zlen leaves)).
Proof. exact (mt_new_too_few D d0 merge). Qed.

Theorem C10_new_not_pow2 : forall leaves, 2 <= zlen leaves -> is_pow2 (zlen leaves) = false ->
  mt_new D d0 merge leaves = Err (NumberOfLeavesNotPowerOfTwo (zlen leaves)).
Proof. exact (mt_new_not_pow2 D d0 merge). Qed.

(* single_complete: for every depth 1..62 (a Vec holds at most isize::MAX elements), every tree,
   every in-range position: prove succeeds, the path has depth+1 elements, starts with the
   committed leaf, and verifies against the root. *)
Theorem C10_single_complete : forall leaves t (d : nat) i root,
  mt_new D d0 merge leaves = Ok t -> zlen leaves = 2 ^ Z.of_nat d -> (d <= 62)%nat ->
  mt_root D t = Ok root -> 0 <= i < zlen leaves ->
  exists p, mt_prove D t i = Ok p /\ length p = S d /\
            nth_error p 0 = nth_error leaves (Z.to_nat i) /\
            verify D D_eqb merge root i p = Ok tt.
Proof. exact (single_complete D D_eqb D_eqb_spec d0 merge). Qed.

(* single_binding: two openings of the same length for the same position which both verify
   against the same root are identical (in particular claim the same leaf), or [find_collision]
   returns two different input pairs of merge with the same output.  No hypothesis on merge. *)
Theorem C10_single_binding : forall root index p p',
  verify D D_eqb merge root index p = Ok tt -> verify D D_eqb merge root index p' = Ok tt ->
  length p = length p' ->
  p = p' \/ exists c, find_collision D D_eqb d0 merge index p p' = Some c /\ is_collision D merge c.
Proof. exact (single_binding_paths D D_eqb D_eqb_spec d0 merge). Qed.

(* ... and against a tree: an opening of the tree's depth that verifies against the tree's root is
   the honest path (so it claims the committed leaf) unless a collision is exhibited. *)
Theorem C10_single_binding_tree : forall t (d : nat) i p,
  wf_tree D d0 merge d t -> (d <= 62)%nat ->
  verify D D_eqb merge (hval D d0 t 1) i p = Ok tt -> length p = S d -> 0 <= i ->
  exists hp, mt_prove D t i = Ok hp /\
    (p = hp \/ exists c, find_collision D D_eqb d0 merge i p hp = Some c /\ is_collision D merge c).
Proof. exact (single_binding_tree D D_eqb D_eqb_spec d0 merge). Qed.

(* verify_total: MerkleTree::verify (repaired) never panics, for ANY root, index and path. *)
Theorem C10_verify_total : forall root index p, verify D D_eqb merge root index p <> Panic.
Proof. exact (verify_total D D_eqb merge). Qed.

(* exact outcome of verify on every input *)
Theorem C10_verify_Ok_iff : forall root index p,
  verify D D_eqb merge root index p = Ok tt <->
  2 <= zlen p <= 64 /\ index < 2 ^ (zlen p - 1) /\
  verify_fold D merge (skipn 2 p) (Z.shiftr (index + 2 ^ (zlen p - 1)) 1)
    (merge (nth (Z.to_nat (Z.land index 1)) p d0) (nth (Z.to_nat (1 - Z.land index 1)) p d0)) = root.
Proof. exact (verify_Ok_iff D D_eqb D_eqb_spec d0 merge). Qed.

Theorem C10_verify_short : forall root index p, zlen p < 2 -> verify D D_eqb merge root index p = Err InvalidProof.
Proof. exact (verify_short D D_eqb merge). Qed.

Theorem C10_verify_long : forall root index p, 65 <= zlen p -> verify D D_eqb merge root index p = Err InvalidProof.
Proof. exact (verify_long D D_eqb merge). Qed.

Theorem C10_verify_out_of_range : forall root index p, 2 <= zlen p <= 64 -> 2 ^ (zlen p - 1) <= index ->
  verify D D_eqb merge root index p = Err (LeafIndexOutOfBounds (2 ^ (zlen p - 1)) index).
Proof. exact (verify_out_of_range D D_eqb merge). Qed.

(* batch_complete: for every tree of depth 1..62 and every non-empty list of at most 255 distinct
   in-range positions IN ANY ORDER, prove_batch succeeds, the proof lists the committed leaves in the
   order of the positions, get_root recomputes the root (all structural checks pass, including the
   repaired leaf-count and all-nodes-consumed checks) and verify_batch accepts. *)
Theorem C10_batch_complete : forall leaves t (d : nat) root indexes,
  mt_new D d0 merge leaves = Ok t -> zlen leaves = 2 ^ Z.of_nat d -> (d <= 62)%nat -> mt_root D t = Ok root ->
  indexes <> [] -> zlen indexes <= 255 -> NoDup indexes -> (forall i, In i indexes -> 0 <= i < zlen leaves) ->
  exists p, mt_prove_batch D d0 t indexes = Ok p /\ bp_depth p = Z.of_nat d /\
    length (bp_leaves p) = length indexes /\
    (forall j i, nth_error indexes j = Some i -> nth_error (bp_leaves p) j = nth_error leaves (Z.to_nat i)) /\
    get_root D merge p indexes = Ok root /\
    verify_batch D D_eqb merge root indexes p = Ok tt.
Proof. exact (batch_complete D D_eqb D_eqb_spec d0 merge). Qed.

(* index validation: map_indexes succeeds exactly on duplicate-free in-range lists with depth < 64 *)
Theorem C10_map_indexes_complete : forall indexes depth,
  0 <= depth < 64 -> NoDup indexes -> (forall x, In x indexes -> x < 2 ^ depth) ->
  exists imap, map_indexes indexes depth = Ok imap /\ imap_ok indexes imap /\ length imap = length indexes.
Proof. exact map_indexes_complete. Qed.

Theorem C10_map_indexes_inv : forall indexes depth imap,
  map_indexes indexes depth = Ok imap ->
  depth < 64 /\ NoDup indexes /\ (forall x, In x indexes -> x < 2 ^ depth) /\ imap_ok indexes imap /\
  length imap = length indexes.
Proof. exact map_indexes_inv. Qed.

Theorem C10_map_indexes_total : forall indexes depth, map_indexes indexes depth <> Panic.
Proof. exact map_indexes_not_Panic. Qed.

(* totality: BatchMerkleProof::get_root, MerkleTree::verify_batch and into_paths (repaired) never
   panic, for EVERY proof value (any leaves, any node vectors, any depth byte) and EVERY index list
   of usize values.  Before the repair the Panic domain was: depth >= 64 (debug profile) for all
   three, and additionally i + 2^depth >= 2^64 for some supplied index i for into_paths (replayed,
   notes/C10.findings.json F10c); the repaired code has an empty Panic domain. *)
Theorem C10_get_root_total : forall p indexes, 0 <= bp_depth p -> usize_list indexes ->
  get_root D merge p indexes <> Panic.
Proof. exact (get_root_total D merge). Qed.

Theorem C10_verify_batch_total : forall root p indexes, 0 <= bp_depth p -> usize_list indexes ->
  verify_batch D D_eqb merge root indexes p <> Panic.
Proof. exact (fun root p indexes => verify_batch_total D merge D_eqb root p indexes). Qed.

Theorem C10_into_paths_total : forall p indexes, 0 <= bp_depth p -> usize_list indexes ->
  into_paths D merge p indexes <> Panic.
Proof. exact (into_paths_total D merge). Qed.

(* acceptance implies every structural guard ("duplicated or out-of-range positions, wrong shape yield an
   error"): with C10_get_root_total the outcome on any violation of a guard is an Err *)
Theorem C10_get_root_Ok_guards : forall p indexes r, get_root D merge p indexes = Ok r ->
  indexes <> [] /\ zlen indexes <= 255 /\ zlen indexes = zlen (bp_leaves p) /\ NoDup indexes /\
  (forall i, In i indexes -> i < 2 ^ bp_depth p) /\ bp_depth p < 64 /\
  zlen (normalize_indexes indexes) = zlen (bp_nodes p).
Proof. exact (get_root_Ok_guards D merge). Qed.

(* into_paths_sound: for ANY batch proof value accepted by get_root (depth d >= 1, usize positions),
   into_paths succeeds and returns one path per position, of length d+1, starting with the leaf the
   proof claims for that position, and each path verifies individually (MerkleTree::verify) against
   the root get_root computed. *)
Theorem C10_into_paths_sound : forall (p : bproof D) idx r (d : nat),
  (1 <= d)%nat -> bp_depth p = Z.of_nat d -> usize_list idx ->
  get_root D merge p idx = Ok r ->
  exists paths, into_paths D merge p idx = Ok paths /\ length paths = length idx /\
    forall j i path, nth_error idx j = Some i -> nth_error paths j = Some path ->
      nth_error path 0 = nth_error (bp_leaves p) j /\ length path = S d /\
      verify D D_eqb merge r i path = Ok tt.
Proof. exact (into_paths_sound D D_eqb D_eqb_spec d0 merge). Qed.

(* batch_binding: a batch opening of the tree's depth accepted against the tree's root claims the
   committed leaf at every queried position, or [find_batch_collision] (decompress with into_paths,
   compare each path with the honest path) returns two different merge inputs with equal output.
   No collision resistance assumed. *)
Theorem C10_batch_binding : forall (t : mtree D) (d : nat) idx (p : bproof D),
  wf_tree D d0 merge d t -> (d <= 62)%nat -> usize_list idx ->
  get_root D merge p idx = Ok (hval D d0 t 1) -> bp_depth p = Z.of_nat d ->
  (forall j i, nth_error idx j = Some i -> nth_error (bp_leaves p) j = nth_error (mt_leaves t) (Z.to_nat i))
  \/ exists c, find_batch_collision D D_eqb d0 merge t p idx = Some c /\ is_collision D merge c.
Proof. exact (batch_binding_tree D D_eqb D_eqb_spec d0 merge). Qed.

(* the same for verify_batch, in the shape of Proofs/IntegrityBinding.v merkle_batch_binding_statement
   (which lacks the guard [usize_list idx]: positions are usize values) *)
Theorem C10_batch_binding_verify_batch : forall (t : mtree D) (d : nat) (idx : list Z) (p : bproof D),
  wf_tree D d0 merge d t -> (d <= 62)%nat -> usize_list idx ->
  verify_batch D D_eqb merge (hval D d0 t 1) idx p = Ok tt -> bp_depth p = Z.of_nat d ->
  (forall j i, nth_error idx j = Some i -> nth_error (bp_leaves p) j = nth_error (mt_leaves t) (Z.to_nat i))
  \/ exists c, is_collision D merge c.
Proof. exact (batch_binding_verify_batch D D_eqb D_eqb_spec d0 merge). Qed.

(* two batch openings of the same positions and the SAME depth accepted against the same root claim
   the same leaves, or a collision is computed (the shape of Proofs/FriBinding.v merkle_binding; for
   different depths the statement is false: an internal node can be presented as a leaf) *)
Theorem C10_batch_binding_two : forall (p1 p2 : bproof D) idx r (d : nat),
  (1 <= d)%nat -> bp_depth p1 = Z.of_nat d -> bp_depth p2 = Z.of_nat d -> usize_list idx ->
  get_root D merge p1 idx = Ok r -> get_root D merge p2 idx = Ok r ->
  bp_leaves p1 = bp_leaves p2 \/
  exists c, find_batch_collision2 D D_eqb d0 merge p1 p2 idx = Some c /\ is_collision D merge c.
Proof. exact (batch_binding_two D D_eqb D_eqb_spec d0 merge). Qed.

(* into_paths_spec: for every tree (depth 1..62) and every non-empty list of <= 255 distinct in-range
   positions in any order, into_paths (prove_batch t idx) idx is exactly the list of the individual
   prove t i (both equal the explicit honest paths [hpath]) *)
Theorem C10_into_paths_spec : forall (t : mtree D) (d : nat) indexes,
  wf_tree D d0 merge d t -> (d <= 62)%nat ->
  indexes <> [] -> zlen indexes <= 255 -> NoDup indexes -> (forall i, In i indexes -> 0 <= i < 2 ^ Z.of_nat d) ->
  exists p, mt_prove_batch D d0 t indexes = Ok p /\
            into_paths D merge p indexes = Ok (map (hpath D d0 t d) indexes) /\
            mapM (mt_prove D t) indexes = Ok (map (hpath D d0 t d) indexes).
Proof. exact (fun t d indexes WF Hd => into_paths_spec_tree D D_eqb D_eqb_spec d0 merge t d WF Hd indexes). Qed.

(* from_paths_of_proves: for every well-formed tree of depth 1..62 and every non-empty duplicate-free
   in-range list of <= 255 positions IN ANY ORDER, re-compressing the individual paths prove t i (given in
   the order of the position list) with the repaired from_paths yields exactly prove_batch t idx: same
   leaves (in the caller's order), same node vectors, same depth. *)
Theorem C10_from_paths_of_proves : forall (t : mtree D) (d : nat) indexes,
  wf_tree D d0 merge d t -> (d <= 62)%nat ->
  indexes <> [] -> zlen indexes <= 255 -> NoDup indexes -> (forall i, In i indexes -> 0 <= i < 2 ^ Z.of_nat d) ->
  exists p paths, mapM (mt_prove D t) indexes = Ok paths /\ mt_prove_batch D d0 t indexes = Ok p /\
                  from_paths D d0 paths indexes = Ok p.
Proof. exact (fun t d indexes WF Hd => from_paths_of_proves D d0 merge t d WF Hd indexes). Qed.

(* from_into_roundtrip: an honest batch opening decompresses (into_paths) and re-compresses (from_paths)
   to itself, for all depths and all orders of the position list. *)
Theorem C10_from_into_roundtrip : forall (t : mtree D) (d : nat) indexes,
  wf_tree D d0 merge d t -> (d <= 62)%nat ->
  indexes <> [] -> zlen indexes <= 255 -> NoDup indexes -> (forall i, In i indexes -> 0 <= i < 2 ^ Z.of_nat d) ->
  exists p paths, mt_prove_batch D d0 t indexes = Ok p /\ into_paths D merge p indexes = Ok paths /\
                  from_paths D d0 paths indexes = Ok p.
Proof. exact (fun t d indexes WF Hd => from_into_roundtrip D D_eqb D_eqb_spec d0 merge t d WF Hd indexes). Qed.

(* ---------------------------------------------------------------- coverage round: error branches
   ill_shaped: an opening that violates ANY guard on the position list or on the counts (no positions, more than
   255, a number of leaves different from the number of positions, a duplicated position, a position >= 2^depth,
   depth >= 64, a number of node vectors different from the number of distinct sibling pairs) is an ERROR of
   get_root / verify_batch / into_paths: it is not accepted and it does not panic.  Every proof value, every list
   of usize positions. *)
Theorem C10_get_root_ill_shaped : forall (p : bproof D) indexes, 0 <= bp_depth p -> usize_list indexes ->
  ~ shape_guards D p indexes -> exists e, get_root D merge p indexes = Err e.
Proof. exact (get_root_ill_shaped D merge). Qed.

Theorem C10_verify_batch_ill_shaped : forall root (p : bproof D) indexes, 0 <= bp_depth p -> usize_list indexes ->
  ~ shape_guards D p indexes -> exists e, verify_batch D D_eqb merge root indexes p = Err e.
Proof. exact (verify_batch_ill_shaped D merge D_eqb). Qed.

Theorem C10_into_paths_ill_shaped : forall (p : bproof D) indexes, 0 <= bp_depth p -> usize_list indexes ->
  ~ shape_guards D p indexes -> exists e, into_paths D merge p indexes = Err e.
Proof. exact (into_paths_ill_shaped D merge). Qed.

(* shape_unique: the node vectors too.  Two openings of the same positions and depth that get_root (into_paths)
   lets through have the same number of leaves and node vectors of the same lengths, whatever the digests ... *)
Theorem C10_get_root_shape_unique : forall (p1 p2 : bproof D) indexes r1 r2, bp_depth p1 = bp_depth p2 ->
  get_root D merge p1 indexes = Ok r1 -> get_root D merge p2 indexes = Ok r2 ->
  length (bp_leaves p1) = length (bp_leaves p2) /\ map (@zlen D) (bp_nodes p1) = map (@zlen D) (bp_nodes p2).
Proof. exact (get_root_shape_unique D merge). Qed.

Theorem C10_into_paths_shape_unique : forall (p1 p2 : bproof D) indexes r1 r2, bp_depth p1 = bp_depth p2 ->
  into_paths D merge p1 indexes = Ok r1 -> into_paths D merge p2 indexes = Ok r2 ->
  length (bp_leaves p1) = length (bp_leaves p2) /\ map (@zlen D) (bp_nodes p1) = map (@zlen D) (bp_nodes p2).
Proof. exact (into_paths_shape_unique D merge). Qed.

(* ... hence an opening of the tree's depth accepted by get_root (against ANY root) has exactly the shape of the
   honest opening prove_batch builds for that position list: a missing or surplus leaf, node vector or node at any
   level, a node where the sibling is a queried position, an empty vector where a sibling is needed - all errors
   (by C10_get_root_total never panics). *)
Theorem C10_accepted_has_honest_shape : forall leaves t (d : nat) root indexes (p : bproof D) r,
  mt_new D d0 merge leaves = Ok t -> zlen leaves = 2 ^ Z.of_nat d -> (d <= 62)%nat -> mt_root D t = Ok root ->
  (forall i, In i indexes -> 0 <= i) -> bp_depth p = Z.of_nat d -> get_root D merge p indexes = Ok r ->
  exists hp, mt_prove_batch D d0 t indexes = Ok hp /\
    length (bp_leaves p) = length (bp_leaves hp) /\ map (@zlen D) (bp_nodes p) = map (@zlen D) (bp_nodes hp).
Proof. exact (accepted_has_honest_shape D D_eqb D_eqb_spec d0 merge). Qed.

(* dead_branches: the fourteen `return Err(MerkleTreeError::InvalidProof)` of proofs.rs at lines 154 160 182 186 215
   230 (get_root), 310 316 338 342 373 387 (into_paths), 520 528 (get_path) cannot be reached by any input.  The
   twin model Model/MerkleStrict.v returns an ARBITRARY outcome [dead] at exactly those branches and computes the
   same function; with dead := Panic and the totality theorems: the branches are never executed. *)
Theorem C10_dead_branches_get_root : forall (dead : forall A : Type, res A) (p : bproof D) indexes,
  get_root_s D merge dead p indexes = get_root D merge p indexes.
Proof. exact (get_root_dead D merge). Qed.

Theorem C10_dead_branches_verify_batch : forall (dead : forall A : Type, res A) root (p : bproof D) indexes,
  verify_batch_s D D_eqb merge dead root indexes p = verify_batch D D_eqb merge root indexes p.
Proof. exact (fun dead => verify_batch_dead D merge dead D_eqb). Qed.

Theorem C10_dead_branches_into_paths : forall (dead : forall A : Type, res A) (p : bproof D) indexes,
  0 <= bp_depth p -> usize_list indexes ->
  into_paths_s D merge dead p indexes = into_paths D merge p indexes.
Proof. exact (into_paths_dead D merge). Qed.

(* the last error of get_root (`v.remove(&1).ok_or(InvalidProof)`, line 257) is live only for a depth byte of 0:
   for depth >= 1 a run that passes all_nodes_consumed has computed node 1 *)
Theorem C10_root_present : forall (p : bproof D) idx v ptm, 1 <= bp_depth p -> usize_list idx -> idx <> [] ->
  zlen idx = zlen (bp_leaves p) -> gcore D merge p idx [] = Ok (v, ptm) -> bt_get 1 v <> None.
Proof. exact (gcore_root D merge). Qed.

End C10.

(* regression: the round trip evaluated in the kernel VM on the free merge (digests = binary terms), trees with
   2/4/8 symbolic leaves, 978 duplicate-free position lists incl. every order for <= 4 leaves *)
Example C10_from_into_roundtrip_free_le8 : forall n idx, In (n, idx) roundtrip_cases ->
  exists t p paths, free_tree n = Ok t /\ mt_prove_batch FT (FL (-1)) t idx = Ok p /\
    into_paths FT FN p idx = Ok paths /\ from_paths FT (FL (-1)) paths idx = Ok p.
Proof. exact from_into_roundtrip_free_le8. Qed.

Print Assumptions C10_build_nodes_spec.
Print Assumptions C10_new_ok.
Print Assumptions C10_new_too_few.
Print Assumptions C10_new_not_pow2.
Print Assumptions C10_single_complete.
Print Assumptions C10_single_binding.
Print Assumptions C10_single_binding_tree.
Print Assumptions C10_verify_total.
Print Assumptions C10_verify_Ok_iff.
Print Assumptions C10_verify_short.
Print Assumptions C10_verify_long.
Print Assumptions C10_verify_out_of_range.
Print Assumptions C10_batch_complete.
Print Assumptions C10_map_indexes_complete.
Print Assumptions C10_map_indexes_inv.
Print Assumptions C10_map_indexes_total.
Print Assumptions C10_get_root_total.
Print Assumptions C10_verify_batch_total.
Print Assumptions C10_into_paths_total.
Print Assumptions C10_get_root_Ok_guards.
Print Assumptions C10_into_paths_sound.
Print Assumptions C10_batch_binding.
Print Assumptions C10_batch_binding_verify_batch.
Print Assumptions C10_batch_binding_two.
Print Assumptions C10_into_paths_spec.
Print Assumptions C10_from_paths_of_proves.
Print Assumptions C10_from_into_roundtrip.
Print Assumptions C10_get_root_ill_shaped.
Print Assumptions C10_verify_batch_ill_shaped.
Print Assumptions C10_into_paths_ill_shaped.
Print Assumptions C10_get_root_shape_unique.
Print Assumptions C10_into_paths_shape_unique.
Print Assumptions C10_accepted_has_honest_shape.
Print Assumptions C10_dead_branches_get_root.
Print Assumptions C10_dead_branches_verify_batch.
Print Assumptions C10_dead_branches_into_paths.
Print Assumptions C10_root_present.

(* Non-vacuity: concrete instances satisfying the hypotheses of the theorems above (Proofs/MerkleExamples.v):
   ex_new/ex_single_hyps/ex_single_run (single_complete), ex_binding_hyps/ex_binding_deep (single_binding with
   p <> p': the collision branch is inhabited), ex_batch_hyps/ex_batch_run (batch_complete, unsorted positions),
   ex_surplus_node/ex_surplus_leaf/ex_depth_64/ex_short_path (totality: hostile shapes give Err);
   Proofs/MerkleDead.v: ex_ill_shaped_hyps (each guard violated alone), ex_shape_unique_hyps, ex_strict_runs (the strict twin with
   dead := Panic on openings aimed at the dead branches), ex_depth0. *)
Check ex_single_hyps.
Check ex_binding_hyps.
Check ex_binding_deep.
Check ex_batch_hyps.
Check ex_batch_run.
Check ex_depth_64.
Check ex_batch_binding_hyps.
Check ex_batch_binding_two_hyps.
Check ex_into_paths_spec.
Check ex_ill_shaped_hyps.
Check ex_shape_unique_hyps.
Check ex_strict_runs.
Check ex_depth0.
