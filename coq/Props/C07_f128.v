(* C07 — f128 (modulus M = 2^128 - 45*2^40 + 1, canonical u128 representation, value map = identity):
   every arithmetic operation generated from math/src/field/f128/mod.rs (Gen/F128.v) agrees with
   integer arithmetic modulo M for ALL operands, and none of its checked + - * overflows (`_ok`).
   Only statements, `exact` of lemmas proved in Proofs/F128*.v, and Print Assumptions. *)
From Coq Require Import Znumtheory.
From VBase Require Import MachInt.
From VGen Require Import F128.
From VProofs Require Import F128Limbs F128Ops F128Inv.
Open Scope Z_scope.

(* ---- limb helpers (a triple (z0,z1,z2) denotes z0 + z1*2^64 + z2*2^128) ---- *)
Theorem C07_f128_add64_with_carry : forall a b c,
  0 <= a < 2^64 -> 0 <= b < 2^64 -> 0 <= c < 2^64 ->
  let '(r, k) := f128_add64_with_carry a b c in
  0 <= r < 2^64 /\ 0 <= k <= 2 /\ r + k * 2^64 = a + b + c.
Proof. exact add64_with_carry_spec. Qed.
Print Assumptions C07_f128_add64_with_carry.

Theorem C07_f128_add64_with_carry_ok : forall a b c,
  0 <= a < 2^64 -> 0 <= b < 2^64 -> 0 <= c < 2^64 -> f128_add64_with_carry_ok a b c = true.
Proof. exact add64_with_carry_ok_spec. Qed.
Print Assumptions C07_f128_add64_with_carry_ok.

Theorem C07_f128_add_192x192 : forall a0 a1 a2 b0 b1 b2,
  0 <= a0 < 2^64 -> 0 <= a1 < 2^64 -> 0 <= a2 < 2^64 ->
  0 <= b0 < 2^64 -> 0 <= b1 < 2^64 -> 0 <= b2 < 2^64 ->
  let '(r0, r1, r2) := f128_add_192x192 a0 a1 a2 b0 b1 b2 in
  0 <= r0 < 2^64 /\ 0 <= r1 < 2^64 /\ 0 <= r2 < 2^64 /\
  r0 + r1 * 2^64 + r2 * 2^128 =
    ((a0 + a1 * 2^64 + a2 * 2^128) + (b0 + b1 * 2^64 + b2 * 2^128)) mod 2^192.
Proof. exact add_192x192_spec. Qed.
Print Assumptions C07_f128_add_192x192.

Theorem C07_f128_add_192x192_ok : forall a0 a1 a2 b0 b1 b2,
  0 <= a0 < 2^64 -> 0 <= a1 < 2^64 -> 0 <= a2 < 2^64 ->
  0 <= b0 < 2^64 -> 0 <= b1 < 2^64 -> 0 <= b2 < 2^64 ->
  f128_add_192x192_ok a0 a1 a2 b0 b1 b2 = true.
Proof. exact add_192x192_ok_spec. Qed.
Print Assumptions C07_f128_add_192x192_ok.

Theorem C07_f128_sub_192x192 : forall a0 a1 a2 b0 b1 b2,
  0 <= a0 < 2^64 -> 0 <= a1 < 2^64 -> 0 <= a2 < 2^64 ->
  0 <= b0 < 2^64 -> 0 <= b1 < 2^64 -> 0 <= b2 < 2^64 ->
  let '(r0, r1, r2) := f128_sub_192x192 a0 a1 a2 b0 b1 b2 in
  0 <= r0 < 2^64 /\ 0 <= r1 < 2^64 /\ 0 <= r2 < 2^64 /\
  r0 + r1 * 2^64 + r2 * 2^128 =
    ((a0 + a1 * 2^64 + a2 * 2^128) - (b0 + b1 * 2^64 + b2 * 2^128)) mod 2^192.
Proof. exact sub_192x192_spec. Qed.
Print Assumptions C07_f128_sub_192x192.

Theorem C07_f128_sub_192x192_ok : forall a0 a1 a2 b0 b1 b2,
  0 <= a0 < 2^64 -> 0 <= a1 < 2^64 -> 0 <= a2 < 2^64 ->
  0 <= b0 < 2^64 -> 0 <= b1 < 2^64 -> 0 <= b2 < 2^64 ->
  f128_sub_192x192_ok a0 a1 a2 b0 b1 b2 = true.
Proof. exact sub_192x192_ok_spec. Qed.
Print Assumptions C07_f128_sub_192x192_ok.

Theorem C07_f128_add_192x192_exact : forall a0 a1 a2 b0 b1 b2,
  0 <= a0 < 2^64 -> 0 <= a1 < 2^64 -> 0 <= a2 < 2^64 ->
  0 <= b0 < 2^64 -> 0 <= b1 < 2^64 -> 0 <= b2 < 2^64 ->
  (a0 + a1 * 2^64 + a2 * 2^128) + (b0 + b1 * 2^64 + b2 * 2^128) < 2^192 ->
  let '(r0, r1, r2) := f128_add_192x192 a0 a1 a2 b0 b1 b2 in
  0 <= r0 < 2^64 /\ 0 <= r1 < 2^64 /\ 0 <= r2 < 2^64 /\
  r0 + r1 * 2^64 + r2 * 2^128 = (a0 + a1 * 2^64 + a2 * 2^128) + (b0 + b1 * 2^64 + b2 * 2^128).
Proof. exact add_192x192_exact. Qed.
Print Assumptions C07_f128_add_192x192_exact.

Theorem C07_f128_sub_192x192_exact : forall a0 a1 a2 b0 b1 b2,
  0 <= a0 < 2^64 -> 0 <= a1 < 2^64 -> 0 <= a2 < 2^64 ->
  0 <= b0 < 2^64 -> 0 <= b1 < 2^64 -> 0 <= b2 < 2^64 ->
  b0 + b1 * 2^64 + b2 * 2^128 <= a0 + a1 * 2^64 + a2 * 2^128 ->
  let '(r0, r1, r2) := f128_sub_192x192 a0 a1 a2 b0 b1 b2 in
  0 <= r0 < 2^64 /\ 0 <= r1 < 2^64 /\ 0 <= r2 < 2^64 /\
  r0 + r1 * 2^64 + r2 * 2^128 = (a0 + a1 * 2^64 + a2 * 2^128) - (b0 + b1 * 2^64 + b2 * 2^128).
Proof. exact sub_192x192_exact. Qed.
Print Assumptions C07_f128_sub_192x192_exact.

Theorem C07_f128_sub_modulus : forall lo hi, 0 <= lo < 2^64 -> 0 <= hi < 2^64 ->
  let '(r0, r1) := f128_sub_modulus lo hi in
  0 <= r0 < 2^64 /\ 0 <= r1 < 2^64 /\ r0 + r1 * 2^64 = (lo + hi * 2^64 - M) mod 2^128.
Proof. exact sub_modulus_spec. Qed.
Print Assumptions C07_f128_sub_modulus.

Theorem C07_f128_mul_by_modulus : forall a, 0 <= a < 2^64 ->
  let '(q0, q1, q2) := f128_mul_by_modulus a in
  0 <= q0 < 2^64 /\ 0 <= q1 < 2^64 /\ 0 <= q2 < 2^64 /\ q0 + q1 * 2^64 + q2 * 2^128 = a * M.
Proof. exact mul_by_modulus_spec. Qed.
Print Assumptions C07_f128_mul_by_modulus.

Theorem C07_f128_mul_by_modulus_ok : forall a, 0 <= a < 2^64 -> f128_mul_by_modulus_ok a = true.
Proof. exact mul_by_modulus_ok_spec. Qed.
Print Assumptions C07_f128_mul_by_modulus_ok.

Theorem C07_f128_mul_128x64 : forall a b, 0 <= a < 2^128 -> 0 <= b < 2^64 ->
  let '(z0, z1, z2) := f128_mul_128x64 a b in
  0 <= z0 < 2^64 /\ 0 <= z1 < 2^64 /\ 0 <= z2 < 2^64 /\ z0 + z1 * 2^64 + z2 * 2^128 = a * b.
Proof. exact mul_128x64_spec. Qed.
Print Assumptions C07_f128_mul_128x64.

Theorem C07_f128_mul_128x64_ok : forall a b, 0 <= a < 2^128 -> 0 <= b < 2^64 -> f128_mul_128x64_ok a b = true.
Proof. exact mul_128x64_ok_spec. Qed.
Print Assumptions C07_f128_mul_128x64_ok.

Theorem C07_f128_mul_reduce : forall z0 z1 z2, 0 <= z0 < 2^64 -> 0 <= z1 < 2^64 -> 0 <= z2 < 2^64 ->
  let '(r0, r1, r2) := f128_mul_reduce z0 z1 z2 in
  0 <= r0 < 2^64 /\ 0 <= r1 < 2^64 /\ 0 <= r2 <= 1 /\
  r0 + r1 * 2^64 + r2 * 2^128 = (z0 + z1 * 2^64 + z2 * 2^128) - z2 * M /\
  (r2 = 1 -> r0 + r1 * 2^64 < 2^110).
Proof. exact mul_reduce_spec. Qed.
Print Assumptions C07_f128_mul_reduce.

Theorem C07_f128_mul_reduce_ok : forall z0 z1 z2, 0 <= z0 < 2^64 -> 0 <= z1 < 2^64 -> 0 <= z2 < 2^64 ->
  f128_mul_reduce_ok z0 z1 z2 = true.
Proof. exact mul_reduce_ok_spec. Qed.
Print Assumptions C07_f128_mul_reduce_ok.

(* ---- public operations ---- *)
Theorem C07_f128_mul : forall a b, repr128 a -> repr128 b -> f128_mul a b = (a * b) mod M.
Proof. exact f128_mul_spec. Qed.
Print Assumptions C07_f128_mul.

Theorem C07_f128_mul_ok : forall a b, repr128 a -> repr128 b -> f128_mul_ok a b = true.
Proof. exact f128_mul_ok_spec. Qed.
Print Assumptions C07_f128_mul_ok.

Theorem C07_f128_mul_repr : forall a b, repr128 a -> repr128 b -> repr128 (f128_mul a b).
Proof. exact f128_mul_repr. Qed.
Print Assumptions C07_f128_mul_repr.

Theorem C07_f128_add : forall a b, repr128 a -> repr128 b -> f128_add a b = (a + b) mod M.
Proof. exact f128_add_spec. Qed.
Print Assumptions C07_f128_add.

Theorem C07_f128_add_ok : forall a b, repr128 a -> repr128 b -> f128_add_ok a b = true.
Proof. exact f128_add_ok_spec. Qed.
Print Assumptions C07_f128_add_ok.

Theorem C07_f128_sub : forall a b, repr128 a -> repr128 b -> f128_sub a b = (a - b) mod M.
Proof. exact f128_sub_spec. Qed.
Print Assumptions C07_f128_sub.

Theorem C07_f128_sub_ok : forall a b, repr128 a -> repr128 b -> f128_sub_ok a b = true.
Proof. exact f128_sub_ok_spec. Qed.
Print Assumptions C07_f128_sub_ok.

Theorem C07_f128_neg : forall a, repr128 a -> f128_neg a = (- a) mod M.
Proof. exact f128_neg_spec. Qed.
Print Assumptions C07_f128_neg.

Theorem C07_f128_neg_ok : forall a, repr128 a -> f128_neg_ok a = true.
Proof. exact f128_neg_ok_spec. Qed.
Print Assumptions C07_f128_neg_ok.

Theorem C07_f128_new : forall v, 0 <= v < 2^128 -> f128_new v = v mod M.
Proof. exact f128_new_spec. Qed.
Print Assumptions C07_f128_new.

Theorem C07_f128_new_ok : forall v, 0 <= v < 2^128 -> f128_new_ok v = true.
Proof. exact f128_new_ok_spec. Qed.
Print Assumptions C07_f128_new_ok.

Theorem C07_f128_as_int : forall x, f128_as_int x = x.
Proof. exact f128_as_int_spec. Qed.
Print Assumptions C07_f128_as_int.

Theorem C07_f128_try_from_u128 : forall v, 0 <= v < 2^128 ->
  f128_try_from_u128 v = if v <? M then Some v else None.
Proof. exact f128_try_from_u128_spec. Qed.
Print Assumptions C07_f128_try_from_u128.

Theorem C07_f128_try_from_u128_ok : forall v, 0 <= v < 2^128 -> f128_try_from_u128_ok v = true.
Proof. exact f128_try_from_u128_ok_spec. Qed.
Print Assumptions C07_f128_try_from_u128_ok.

(* non-vacuity of the guards *)
Example C07_f128_repr_inhabited : repr128 (M - 1) /\ repr128 0.
Proof. exact repr128_inhabited. Qed.

(* ---- exponentiation (exp_vartime loop, fuelled) ---- *)
Theorem C07_f128_exp_sound : forall fuel a p r, repr128 a -> 0 <= p < 2^128 ->
  f128_exp fuel a p = Some r -> r = (a ^ p) mod M.
Proof. exact f128_exp_sound. Qed.
Print Assumptions C07_f128_exp_sound.

Theorem C07_f128_exp_terminates : forall a p, 0 <= p < 2^128 -> exists r, f128_exp 130 a p = Some r.
Proof. exact f128_exp_terminates. Qed.
Print Assumptions C07_f128_exp_terminates.

(* ---- constants ---- *)
Theorem C07_f128_consts :
  f128_ZERO = 0 /\ f128_ONE = 1 /\ f128_GENERATOR = 3 /\ repr128 f128_TWO_ADIC_ROOT_OF_UNITY.
Proof. exact f128_consts_repr. Qed.
Print Assumptions C07_f128_consts.

Theorem C07_f128_modulus :
  f128_MODULUS = 2^128 - 45 * 2^40 + 1 /\ f128_MODULUS = M /\ f128_MODULUS_BITS = 128 /\ 2^127 <= M < 2^128.
Proof. exact f128_modulus_def. Qed.
Print Assumptions C07_f128_modulus.

Theorem C07_f128_Mm1_factored : M - 1 = 2^40 * 29 * 181 * 286619 * 11394379 * 18053749339.
Proof. exact f128_Mm1_factored. Qed.
Print Assumptions C07_f128_Mm1_factored.

Theorem C07_f128_generator_order :
  3 ^ (M - 1) mod M = 1 /\
  3 ^ ((M - 1) / 2) mod M <> 1 /\ 3 ^ ((M - 1) / 29) mod M <> 1 /\
  3 ^ ((M - 1) / 181) mod M <> 1 /\ 3 ^ ((M - 1) / 286619) mod M <> 1 /\
  3 ^ ((M - 1) / 11394379) mod M <> 1 /\ 3 ^ ((M - 1) / 18053749339) mod M <> 1.
Proof. exact f128_generator_order. Qed.
Print Assumptions C07_f128_generator_order.

Theorem C07_f128_two_adicity :
  f128_TWO_ADICITY = 40 /\ (M - 1) mod 2^40 = 0 /\ Z.odd ((M - 1) / 2^40) = true.
Proof. exact f128_two_adicity. Qed.
Print Assumptions C07_f128_two_adicity.

Theorem C07_f128_root_def :
  f128_TWO_ADIC_ROOT_OF_UNITY = f128_G /\ f128_G = 3 ^ ((M - 1) / 2^40) mod M.
Proof. exact f128_root_def. Qed.
Print Assumptions C07_f128_root_def.

Theorem C07_f128_root_order_exact :
  f128_G ^ (2^40) mod M = 1 /\ forall k, 0 < k < 2^40 -> f128_G ^ k mod M <> 1.
Proof. exact f128_root_order_exact. Qed.
Print Assumptions C07_f128_root_order_exact.

(* ---- inversion (binary extended GCD on 192-bit limb triples) and division.
   Partial correctness holds for every fuel without any hypothesis.  Termination (fuel >= 192 for every
   nested loop) is proved under gcd(x, M) = 1, which is what primality of M (proved separately, not
   imported here) gives for every 0 < x < M: if gcd(x, M) > 1 the Rust loop `while v & 1 == 0` would
   spin on v = 0. ---- *)
Theorem C07_f128_inv_sound_partial : forall fuel x r, repr128 x -> f128_fn_inv fuel x = Some r ->
  repr128 r /\ (r * x) mod M = (if x =? 0 then 0 else 1).
Proof. exact f128_inv_sound_partial. Qed.
Print Assumptions C07_f128_inv_sound_partial.

Theorem C07_f128_inv_method_sound_partial : forall fuel x r, repr128 x -> f128_inv fuel x = Some r ->
  repr128 r /\ (r * x) mod M = (if x =? 0 then 0 else 1).
Proof. exact f128_inv_sound_partial'. Qed.
Print Assumptions C07_f128_inv_method_sound_partial.

Theorem C07_f128_inv_zero : forall fuel, f128_inv fuel 0 = Some 0.
Proof. exact f128_inv_zero. Qed.
Print Assumptions C07_f128_inv_zero.

Theorem C07_f128_div_sound_partial : forall fuel a b r, repr128 a -> repr128 b -> f128_div fuel a b = Some r ->
  repr128 r /\ (b <> 0 -> (r * b) mod M = a) /\ (b = 0 -> r = 0).
Proof. exact f128_div_sound_partial. Qed.
Print Assumptions C07_f128_div_sound_partial.

Theorem C07_f128_inv_total : forall fuel x, repr128 x -> (x <> 0 -> Z.gcd x M = 1) -> (192 <= fuel)%nat ->
  exists r, f128_fn_inv fuel x = Some r /\ repr128 r /\ (r * x) mod M = (if x =? 0 then 0 else 1).
Proof. exact f128_inv_total. Qed.
Print Assumptions C07_f128_inv_total.

Theorem C07_f128_div_total : forall fuel a b, repr128 a -> repr128 b -> (b <> 0 -> Z.gcd b M = 1) ->
  (192 <= fuel)%nat ->
  exists r, f128_div fuel a b = Some r /\ repr128 r /\ (b <> 0 -> (r * b) mod M = a) /\ (b = 0 -> r = 0).
Proof. exact f128_div_total. Qed.
Print Assumptions C07_f128_div_total.

(* the same with primality of M as the only hypothesis (to be discharged by the primality proof of M) *)
Theorem C07_f128_inv_total_prime : prime M -> forall fuel x, repr128 x -> (192 <= fuel)%nat ->
  exists r, f128_fn_inv fuel x = Some r /\ repr128 r /\ (r * x) mod M = (if x =? 0 then 0 else 1).
Proof. exact f128_inv_total_prime. Qed.
Print Assumptions C07_f128_inv_total_prime.

Theorem C07_f128_div_total_prime : prime M -> forall fuel a b, repr128 a -> repr128 b -> (192 <= fuel)%nat ->
  exists r, f128_div fuel a b = Some r /\ repr128 r /\ (b <> 0 -> (r * b) mod M = a) /\ (b = 0 -> r = 0).
Proof. exact f128_div_total_prime. Qed.
Print Assumptions C07_f128_div_total_prime.

(* non-vacuity: the hypotheses are satisfiable and the generated term runs *)
Example C07_f128_inv_example : repr128 2 /\ Z.gcd 2 M = 1 /\ f128_fn_inv 192 2 = Some ((M + 1) / 2).
Proof. exact f128_inv_example. Qed.

(* unconditional total correctness of inversion / division, with primality of the modulus (Proofs/NumTheoryPrime.v) *)
From VProofs Require Import NumTheoryPrime.
From VBase Require Import ZpOps.
Theorem C07_f128_inv_total_unconditional : forall fuel x, repr128 x -> (192 <= fuel)%nat ->
  exists r, f128_fn_inv fuel x = Some r /\ repr128 r /\ (r * x) mod M = (if x =? 0 then 0 else 1).
Proof. apply f128_inv_total_prime. change M with P128. exact P128_prime. Qed.
Print Assumptions C07_f128_inv_total_unconditional.
Theorem C07_f128_div_total_unconditional : forall fuel a b, repr128 a -> repr128 b -> (192 <= fuel)%nat ->
  exists r, f128_div fuel a b = Some r /\ repr128 r /\ (b <> 0 -> (r * b) mod M = a) /\ (b = 0 -> r = 0).
Proof. apply f128_div_total_prime. change M with P128. exact P128_prime. Qed.
Print Assumptions C07_f128_div_total_unconditional.

(* ---- round 2: trait defaults of math/src/field/traits.rs instantiated for f128 ---- *)
From VProofs Require FieldRoots FieldBytesSpec.
From VModel Require Import FieldBytes.

(* get_root_of_unity(n): order exactly 2^n for 1 <= n <= TWO_ADICITY = 40 (`exp` = `exp_vartime`, fuelled) *)
Theorem C07_f128_get_root_of_unity_sound : forall fuel n w, 1 <= n <= 40 ->
  f128_get_root_of_unity fuel n = Some w ->
  repr128 w /\ w = f128_G ^ 2 ^ (40 - n) mod M /\
  w ^ 2 ^ n mod M = 1 /\ w ^ 2 ^ (n - 1) mod M = M - 1 /\
  forall k, 0 < k < 2 ^ n -> w ^ k mod M <> 1.
Proof. exact FieldRoots.R128.f128_get_root_of_unity_sound. Qed.
Print Assumptions C07_f128_get_root_of_unity_sound.

Theorem C07_f128_get_root_of_unity_terminates : forall n, 1 <= n <= 40 ->
  exists w, f128_get_root_of_unity 130 n = Some w.
Proof. exact FieldRoots.R128.f128_get_root_of_unity_terminates. Qed.
Print Assumptions C07_f128_get_root_of_unity_terminates.

Theorem C07_f128_get_root_of_unity_ok : forall fuel n, 0 <= n < 2^32 ->
  f128_get_root_of_unity_ok fuel n = andb (1 <=? n) (n <=? 40).
Proof. exact FieldRoots.R128.f128_get_root_of_unity_ok_spec. Qed.
Print Assumptions C07_f128_get_root_of_unity_ok.

(* from_bytes_with_padding (Model/FieldBytes.v), ELEMENT_BYTES = 16 *)
Theorem C07_f128_from_bytes_with_padding : forall bs, (length bs < 16)%nat -> Forall FieldBytesSpec.byte bs ->
  f128_from_bytes_with_padding bs = FbOk (f128_new (of_le_bytes bs)) /\
  0 <= of_le_bytes bs < 256 ^ (16 - 1) /\
  repr128 (f128_new (of_le_bytes bs)) /\ f128_new (of_le_bytes bs) = of_le_bytes bs.
Proof. exact FieldBytesSpec.f128_from_bytes_with_padding_spec. Qed.
Print Assumptions C07_f128_from_bytes_with_padding.

Theorem C07_f128_from_bytes_with_padding_long : forall bs, (16 <= length bs)%nat ->
  f128_from_bytes_with_padding bs = FbAssertLen.
Proof. exact FieldBytesSpec.f128_from_bytes_with_padding_long. Qed.
Print Assumptions C07_f128_from_bytes_with_padding_long.

(* ---- coverage round: conversions, conjugate, compound assignments, base_element, raw byte view (f128) ---- *)
From VProofs Require FieldConvSpec.

Theorem C07_f128_from_uN : forall x, 0 <= x < 2^64 ->
  f128_from_u8 x = x /\ f128_from_u16 x = x /\ f128_from_u32 x = x /\ f128_from_u64 x = x /\
  repr128 x /\ x mod M = x.
Proof. exact FieldConvSpec.C128.f128_from_uN_spec. Qed.
Print Assumptions C07_f128_from_uN.

Theorem C07_f128_conjugate : forall e, f128_conjugate e = e.
Proof. exact FieldConvSpec.C128.f128_conjugate_spec. Qed.
Print Assumptions C07_f128_conjugate.

Theorem C07_f128_assign : forall fuel a b,
  f128_add_assign a b = f128_add a b /\ f128_sub_assign a b = f128_sub a b /\
  f128_mul_assign a b = f128_mul a b /\ f128_div_assign fuel a b = f128_div fuel a b.
Proof. exact FieldConvSpec.C128.f128_assign_spec. Qed.
Print Assumptions C07_f128_assign.

Theorem C07_f128_base_element : forall e i, f128_base_element e i = if i =? 0 then Some e else None.
Proof. exact FieldConvSpec.C128.f128_base_element_spec. Qed.
Print Assumptions C07_f128_base_element.

Theorem C07_f128_as_bytes_same_residue : forall a b, repr128 a -> repr128 b ->
  (f128_as_bytes a = f128_as_bytes b <-> a = b).
Proof. exact FieldConvSpec.C128.f128_as_bytes_same_residue. Qed.
Print Assumptions C07_f128_as_bytes_same_residue.
