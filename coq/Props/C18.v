(* C18 — security estimate and acceptance policy.
   Only statements, `exact` of lemmas proved in Proofs/, Print Assumptions, and non-vacuity Examples.
   sec_get_conjectured_security / sec_get_conjectured_security_ok are GENERATED from /repo/air/src/proof/mod.rs on
   every run (VGen.Security); the policy / proven-estimate model is VModel.SecurityModel. *)
From VBase Require Import MachInt.
From VGen Require Import Security.
From VModel Require Import SecurityModel.
From VProofs Require Import Security SecurityProven.
Open Scope Z_scope.

(* Parameter space (Proofs/Security.v `in_space o bits tl cr`): queries 1..255, blowup in {2,4,...,128}, grinding
   0..32, any of the three extension degrees, modulus bits in {62,64,128}, trace length 2^k with 3 <= k <= 32 (so the
   LDE domain is at most 2^39), collision resistance 96..128. *)
Example C18_space_inhabited :
  in_space (mkProofOptions 27 8 16 FeQuadratic 8 127) 64 (2 ^ 18) 128 /\
  in_space (mkProofOptions 255 128 32 FeNone 16 255) 62 (2 ^ 32) 96 /\
  in_space (mkProofOptions 1 2 0 FeCubic 2 0) 128 (2 ^ 3) 128.
Proof.
  repeat split; cbn; try lia; try (unfold valid_bits; lia);
    try (unfold valid_blowup; cbn; tauto).
  - exists 18; split; [lia | reflexivity].
  - exists 32; split; [lia | reflexivity].
  - exists 3; split; [lia | reflexivity].
Qed.

(* ---------------------------------------------------------------------------------------- conjectured estimate *)
(* No checked operation of get_conjectured_security overflows / underflows / takes ilog2(0) in the space. *)
Theorem C18_conj_no_wrap : forall o bits tl cr, in_space o bits tl cr ->
  sec_get_conjectured_security_ok o bits tl cr = true.
Proof. exact conj_no_wrap. Qed.
Print Assumptions C18_conj_no_wrap.

(* The documented formula over Z. *)
Theorem C18_conj_formula : forall o bits tl cr, in_space o bits tl cr ->
  sec_get_conjectured_security o bits tl cr =
  Z.min (Z.min (bits * fe_degree (po_field_extension o) - Z.log2 (tl * po_blowup_factor o))
               (let qs := po_num_queries o * Z.log2 (po_blowup_factor o) in
                if 80 <=? qs then qs + po_grinding_factor o else qs) - 1) cr.
Proof. exact conj_formula. Qed.
Print Assumptions C18_conj_formula.

Example C18_conj_formula_values :
  sec_get_conjectured_security (mkProofOptions 27 8 16 FeQuadratic 8 127) 64 (2 ^ 18) 128 = 96 /\
  sec_get_conjectured_security (mkProofOptions 26 8 16 FeQuadratic 8 127) 64 (2 ^ 18) 128 = 77 /\
  sec_get_conjectured_security (mkProofOptions 255 128 32 FeNone 16 255) 62 (2 ^ 32) 96 = 22.
Proof. vm_compute. repeat split. Qed.

Theorem C18_conj_range : forall o bits tl cr, in_space o bits tl cr ->
  0 <= sec_get_conjectured_security o bits tl cr <= cr.
Proof. exact conj_range. Qed.
Print Assumptions C18_conj_range.

(* grinding counts exactly from the 80-bit floor on *)
Theorem C18_conj_grinding_threshold : forall o bits tl cr, in_space o bits tl cr ->
  let qs := po_num_queries o * Z.log2 (po_blowup_factor o) in
  (qs < 80 -> sec_get_conjectured_security o bits tl cr =
              Z.min (Z.min (bits * fe_degree (po_field_extension o) - Z.log2 (tl * po_blowup_factor o)) qs - 1) cr) /\
  (80 <= qs -> sec_get_conjectured_security o bits tl cr =
              Z.min (Z.min (bits * fe_degree (po_field_extension o) - Z.log2 (tl * po_blowup_factor o))
                           (qs + po_grinding_factor o) - 1) cr).
Proof. exact conj_grinding_threshold. Qed.
Print Assumptions C18_conj_grinding_threshold.

(* Monotone in each of the four arguments, the others fixed, over the whole space. *)
Theorem C18_conj_monotone_queries : forall o o' bits tl cr,
  in_space o bits tl cr -> in_space o' bits tl cr ->
  po_blowup_factor o' = po_blowup_factor o -> po_grinding_factor o' = po_grinding_factor o ->
  po_field_extension o' = po_field_extension o ->
  po_num_queries o <= po_num_queries o' ->
  sec_get_conjectured_security o bits tl cr <= sec_get_conjectured_security o' bits tl cr.
Proof. exact conj_monotone_queries. Qed.
Print Assumptions C18_conj_monotone_queries.

Theorem C18_conj_monotone_grinding : forall o o' bits tl cr,
  in_space o bits tl cr -> in_space o' bits tl cr ->
  po_blowup_factor o' = po_blowup_factor o -> po_num_queries o' = po_num_queries o ->
  po_field_extension o' = po_field_extension o ->
  po_grinding_factor o <= po_grinding_factor o' ->
  sec_get_conjectured_security o bits tl cr <= sec_get_conjectured_security o' bits tl cr.
Proof. exact conj_monotone_grinding. Qed.
Print Assumptions C18_conj_monotone_grinding.

Theorem C18_conj_monotone_degree : forall o o' bits tl cr,
  in_space o bits tl cr -> in_space o' bits tl cr ->
  po_blowup_factor o' = po_blowup_factor o -> po_num_queries o' = po_num_queries o ->
  po_grinding_factor o' = po_grinding_factor o ->
  fe_degree (po_field_extension o) <= fe_degree (po_field_extension o') ->
  sec_get_conjectured_security o bits tl cr <= sec_get_conjectured_security o' bits tl cr.
Proof. exact conj_monotone_degree. Qed.
Print Assumptions C18_conj_monotone_degree.

Theorem C18_conj_monotone_cr : forall o bits tl cr cr',
  in_space o bits tl cr -> in_space o bits tl cr' -> cr <= cr' ->
  sec_get_conjectured_security o bits tl cr <= sec_get_conjectured_security o bits tl cr'.
Proof. exact conj_monotone_cr. Qed.
Print Assumptions C18_conj_monotone_cr.

Example C18_conj_monotone_strict_somewhere :
  sec_get_conjectured_security (mkProofOptions 26 8 16 FeQuadratic 8 127) 64 (2 ^ 10) 128 <
  sec_get_conjectured_security (mkProofOptions 27 8 16 FeQuadratic 8 127) 64 (2 ^ 10) 128.
Proof. vm_compute. reflexivity. Qed.

(* Outside the space: contexts read from untrusted bytes (any claimed modulus up to 255 bytes, trace lengths up to
   2^63).  The repaired code (fixes/c18-security-estimate-saturating.diff) neither panics nor wraps: it returns the
   formula with negative intermediate values clamped to 0.  Before the repair this was false: e.g. f62, trace 2^55,
   blowup 128 underflowed (panic in debug builds; 128 bits reported in release builds). *)
Theorem C18_conj_hostile_no_panic : forall o bits tl cr,
  0 <= bits <= 2040 -> (exists k, 0 <= k <= 63 /\ tl = 2 ^ k) -> valid_blowup (po_blowup_factor o) ->
  1 <= po_num_queries o <= 255 -> 0 <= po_grinding_factor o <= 32 ->
  sec_get_conjectured_security_ok o bits tl cr = true /\
  sec_get_conjectured_security o bits tl cr =
  Z.min (Z.max 0 (Z.min (Z.max 0 (bits * fe_degree (po_field_extension o) - Z.log2 (tl * po_blowup_factor o)))
                        (let qs := po_num_queries o * Z.log2 (po_blowup_factor o) in
                         if 80 <=? qs then qs + po_grinding_factor o else qs) - 1)) cr.
Proof. exact conj_hostile_no_panic. Qed.
Print Assumptions C18_conj_hostile_no_panic.

Example C18_conj_hostile_value :
  sec_get_conjectured_security (mkProofOptions 255 128 32 FeNone 8 127) 62 (2 ^ 55) 128 = 0.
Proof. vm_compute. reflexivity. Qed.

(* ... and it is monotone there too: over every context that can be deserialised, the level does not decrease when
   queries, grinding, degree or collision resistance grow (one or several at once). *)
Theorem C18_conj_monotone_deserialisable : forall o o' bits tl cr cr',
  (0 <= bits <= 2040 /\ (exists k, 0 <= k <= 63 /\ tl = 2 ^ k) /\ valid_blowup (po_blowup_factor o) /\
   1 <= po_num_queries o <= 255 /\ 0 <= po_grinding_factor o <= 32) ->
  (0 <= bits <= 2040 /\ (exists k, 0 <= k <= 63 /\ tl = 2 ^ k) /\ valid_blowup (po_blowup_factor o') /\
   1 <= po_num_queries o' <= 255 /\ 0 <= po_grinding_factor o' <= 32) ->
  po_blowup_factor o' = po_blowup_factor o ->
  po_num_queries o <= po_num_queries o' ->
  po_grinding_factor o <= po_grinding_factor o' ->
  fe_degree (po_field_extension o) <= fe_degree (po_field_extension o') ->
  cr <= cr' ->
  sec_get_conjectured_security o bits tl cr <= sec_get_conjectured_security o' bits tl cr'.
Proof. exact conj_monotone_deserialisable. Qed.
Print Assumptions C18_conj_monotone_deserialisable.

(* Context::num_modulus_bits is the bit length of the little-endian modulus. *)
Theorem C18_num_modulus_bits : forall bytes, Forall (fun b => 0 <= b < 256) bytes ->
  Z.of_nat (length bytes) * 8 < 2 ^ 32 ->
  num_modulus_bits bytes = (let v := of_le_bytes bytes in if v <=? 0 then 0 else Z.log2 v + 1).
Proof.
  intros bytes H L. apply num_modulus_bits_spec; [exact H | ]. unfold num_modulus_bits_ok. apply Z.ltb_lt. exact L.
Qed.
Print Assumptions C18_num_modulus_bits.

Example C18_num_modulus_bits_fields :
  num_modulus_bits (fd_modulus f62_desc) = 62 /\ num_modulus_bits (fd_modulus f64_desc) = 64 /\
  num_modulus_bits (fd_modulus f128_desc) = 128.
Proof. exact (conj num_modulus_bits_f62 (conj num_modulus_bits_f64 num_modulus_bits_f128)). Qed.

(* ---------------------------------------------------------------------------------------- acceptance policy *)
(* AcceptableOptions::validate, the three modes (lc / lp = Proof::security_level(true / false), None = panic). *)
Theorem C18_validate_spec_conjectured : forall lc lp l c s, lc c = Some s ->
  (l <= s -> validate lc lp (MinConjecturedSecurity l) c = Accept) /\
  (s < l -> validate lc lp (MinConjecturedSecurity l) c = Reject (InsufficientConjecturedSecurity l s)).
Proof. exact validate_spec_conj. Qed.
Print Assumptions C18_validate_spec_conjectured.

Theorem C18_validate_spec_proven : forall lc lp l c s, lp c = Some s ->
  (l <= s -> validate lc lp (MinProvenSecurity l) c = Accept) /\
  (s < l -> validate lc lp (MinProvenSecurity l) c = Reject (InsufficientProvenSecurity l s)).
Proof. exact validate_spec_proven. Qed.
Print Assumptions C18_validate_spec_proven.

Theorem C18_validate_spec_option_set : forall lc lp set c,
  (In (cx_options c) set -> validate lc lp (OptionSet set) c = Accept) /\
  (~ In (cx_options c) set -> validate lc lp (OptionSet set) c = Reject UnacceptableProofOptions).
Proof. exact validate_spec_set. Qed.
Print Assumptions C18_validate_spec_option_set.

(* verify() accepts only if the claimed modulus is the AIR's, the policy holds for the level computed from that
   context (hence from the AIR's field), the extension is supported, and the rest of the verification accepts. *)
Theorem C18_accepted_implies_level : forall air lc lp acc c rest,
  verify_decision air lc lp acc c rest = Accept ->
  cx_modulus c = fd_modulus air /\
  match acc with
  | MinConjecturedSecurity l => exists s, lc c = Some s /\ l <= s
  | MinProvenSecurity l => exists s, lp c = Some s /\ l <= s
  | OptionSet set => In (cx_options c) set
  end /\
  ext_supported air (po_field_extension (cx_options c)) = None /\ rest = Accept.
Proof. exact accepted_implies_level. Qed.
Print Assumptions C18_accepted_implies_level.

(* ... instantiated with the generated estimate: the level that was compared is the conjectured estimate for the
   number of bits of the AIR's own modulus. *)
Theorem C18_accepted_level_from_air_field : forall air lp cr l c rest,
  verify_decision air (conjectured_level cr) lp (MinConjecturedSecurity l) c rest = Accept ->
  l <= sec_get_conjectured_security (cx_options c) (num_modulus_bits (fd_modulus air)) (cx_trace_length c) cr.
Proof.
  intros air lp cr l c rest H. apply accepted_implies_level in H. destruct H as [E [[s [L Hs]] _]].
  unfold conjectured_level in L. destruct (conjectured_level_ok cr c); [ | discriminate].
  inversion L. subst s. unfold conjectured_level_raw in Hs. rewrite E in Hs. exact Hs.
Qed.
Print Assumptions C18_accepted_level_from_air_field.

(* Converse (the model does not over-reject): these conditions suffice. *)
Theorem C18_accept_complete : forall air lc lp acc c,
  cx_modulus c = fd_modulus air ->
  to_elements_panics (fd_elem_bytes air) (fd_modulus air) = false ->
  match acc with
  | MinConjecturedSecurity l => exists s, lc c = Some s /\ l <= s
  | MinProvenSecurity l => exists s, lp c = Some s /\ l <= s
  | OptionSet set => In (cx_options c) set
  end ->
  ext_supported air (po_field_extension (cx_options c)) = None ->
  verify_decision air lc lp acc c Accept = Accept.
Proof.
  intros air lc lp acc c E W P X. apply accept_complete; try assumption.
  unfold field_wf_b. rewrite W. reflexivity.
Qed.
Print Assumptions C18_accept_complete.

Example C18_accept_reachable :
  let c := mkContext (2 ^ 10) (fd_modulus f64_desc) (mkProofOptions 27 8 16 FeQuadratic 8 127) in
  verify_decision f64_desc (conjectured_level 128) (fun _ => Some 0) (MinConjecturedSecurity 96) c Accept = Accept /\
  verify_decision f64_desc (conjectured_level 128) (fun _ => Some 0) (MinConjecturedSecurity 97) c Accept =
    Reject (InsufficientConjecturedSecurity 97 96) /\
  verify_decision f64_desc (conjectured_level 128) (fun _ => Some 0) (OptionSet [cx_options c]) c Accept = Accept /\
  verify_decision f64_desc (conjectured_level 128) (fun _ => Some 0) (OptionSet []) c Accept = Reject UnacceptableProofOptions.
Proof. vm_compute. repeat split. Qed.

(* When the policy refuses, the outcome is that refusal (or the earlier field refusal) whatever the remainder of the
   verification would do: the policy is checked before the context is used for the seed or anything else. *)
Theorem C18_policy_checked_before_use : forall air lc lp acc c e,
  validate lc lp acc c = Reject e ->
  forall rest, verify_decision air lc lp acc c rest = Reject InconsistentBaseField \/
               verify_decision air lc lp acc c rest = Reject e.
Proof. exact policy_checked_before_use. Qed.
Print Assumptions C18_policy_checked_before_use.

Theorem C18_policy_refusal_independent_of_rest : forall air lc lp acc c,
  validate lc lp acc c <> Accept ->
  forall rest rest', verify_decision air lc lp acc c rest = verify_decision air lc lp acc c rest' /\
                     verify_decision air lc lp acc c rest <> Accept.
Proof. exact policy_refusal_independent_of_rest. Qed.
Print Assumptions C18_policy_refusal_independent_of_rest.

(* A proof whose claimed modulus differs from the AIR's is refused with InconsistentBaseField, for every policy,
   whatever the level functions would do on the foreign modulus (even panic), and never reaches the seed. *)
Theorem C18_foreign_field_refused : forall air lc lp acc c rest,
  cx_modulus c <> fd_modulus air -> verify_decision air lc lp acc c rest = Reject InconsistentBaseField.
Proof. exact foreign_field_refused. Qed.
Print Assumptions C18_foreign_field_refused.

(* No panic before the remainder: for the three base fields the seed construction cannot assert once the field
   check passed. *)
Theorem C18_verify_no_panic : forall air lc lp acc c rest,
  to_elements_panics (fd_elem_bytes air) (fd_modulus air) = false ->
  (forall c', lc c' <> None) -> (forall c', lp c' <> None) -> rest <> Panic ->
  verify_decision air lc lp acc c rest <> Panic.
Proof. exact verify_no_panic. Qed.
Print Assumptions C18_verify_no_panic.

Example C18_fields_wf :
  to_elements_panics (fd_elem_bytes f62_desc) (fd_modulus f62_desc) = false /\
  to_elements_panics (fd_elem_bytes f64_desc) (fd_modulus f64_desc) = false /\
  to_elements_panics (fd_elem_bytes f128_desc) (fd_modulus f128_desc) = false.
Proof. repeat split. Qed.

(* The order of checks before the repair (fixes/c18-field-check-before-context-use.diff) violated
   C18_foreign_field_refused: witness kept for the record. *)
Theorem C18_foreign_field_refused_refuted_before_fix :
  exists c rest, cx_modulus c <> fd_modulus f64_desc /\
    verify_decision_before_fix f64_desc (fun _ => Some 0) (fun _ => Some 0) (MinConjecturedSecurity 0) c rest = Panic /\
    verify_decision f64_desc (fun _ => Some 0) (fun _ => Some 0) (MinConjecturedSecurity 0) c rest = Reject InconsistentBaseField.
Proof. exact foreign_field_panicked_before_fix. Qed.
Print Assumptions C18_foreign_field_refused_refuted_before_fix.

(* ---------------------------------------------------------------------------------------- proven estimate *)
(* For ANY float type F with operations that are monotone as named in the premises, the proven estimate is
   non-decreasing in each of the four arguments.  IEEE-754 a-c (in a, and antitone in c), c+a, the integer->float and
   the saturating float->u64 casts are monotone; the only premise about libm (log2, pow) is `query_chain_anti`:
   q |-> log2 (b ^ q) is antitone over the integer exponents 1..255 for bases b in `unit_base` ("0 < b <= 1"), and the
   queries theorem needs the FRI query base 1 - theta_plus(m) to be such a base for every proximity parameter m that
   is tried.  Both facts are checked on binary64 for EVERY reachable base (7 blowups x trace 2^3..2^32 x all m) and
   every exponent by checks/c18.py (the two proven-premise obligations), so for the floats of this machine the queries theorem
   rests on IEEE subtraction/cast monotonicity only. *)
Section ProvenStatements.
  Variable F : Type.
  Variables fadd fsub fmul fdiv fpow : F -> F -> F.
  Variables fneg fsqrt fceil flog2 : F -> F.
  Variable of_Z : Z -> F.
  Variable to_u64 : F -> Z.
  Variables c_half c_quarter c_1_5 : F.
  Variable fle : F -> F -> Prop.
  Variable unit_base : F -> Prop.
  Hypothesis fle_refl : forall x, fle x x.
  Hypothesis of_Z_mono : forall a b, a <= b -> fle (of_Z a) (of_Z b).
  Hypothesis to_u64_mono : forall x y, fle x y -> to_u64 x <= to_u64 y.
  Hypothesis fsub_mono_l : forall a a' c, fle a a' -> fle (fsub a c) (fsub a' c).
  Hypothesis fsub_anti_r : forall a c c', fle c c' -> fle (fsub a c') (fsub a c).
  Hypothesis fadd_mono_r : forall a c c', fle c c' -> fle (fadd a c) (fadd a c').
  Hypothesis query_chain_anti : forall b q q', unit_base b -> 1 <= q -> q <= q' -> q' <= 255 ->
    fle (flog2 (fpow b (of_Z q'))) (flog2 (fpow b (of_Z q))).

  Local Notation gps := (get_proven_security F fadd fsub fmul fdiv fpow fneg fsqrt fceil flog2 of_Z to_u64 c_half c_quarter c_1_5).

  Theorem C18_proven_monotone_queries : forall o o' bits tl cr v v',
    0 <= cr < 2 ^ 32 ->
    po_blowup_factor o' = po_blowup_factor o -> po_grinding_factor o' = po_grinding_factor o ->
    po_field_extension o' = po_field_extension o ->
    1 <= po_num_queries o -> po_num_queries o <= po_num_queries o' -> po_num_queries o' <= 255 ->
    (forall m, In m (zrange 3 (compute_upper_m F fadd fmul fdiv fsqrt fceil of_Z to_u64 c_quarter tl)) ->
               unit_base (psm_query_base F fadd fsub fmul fdiv fsqrt fceil of_Z c_half (po_blowup_factor o) tl m)) ->
    gps o bits tl cr = Some v -> gps o' bits tl cr = Some v' -> v <= v'.
  Proof.
    exact (proven_monotone_queries F fadd fsub fmul fdiv fpow fneg fsqrt fceil flog2 of_Z to_u64 c_half c_quarter c_1_5
             fle unit_base fle_refl to_u64_mono fsub_mono_l fsub_anti_r fadd_mono_r query_chain_anti).
  Qed.

  Theorem C18_proven_monotone_grinding : forall o o' bits tl cr v v',
    0 <= cr < 2 ^ 32 ->
    po_blowup_factor o' = po_blowup_factor o -> po_num_queries o' = po_num_queries o ->
    po_field_extension o' = po_field_extension o ->
    po_grinding_factor o <= po_grinding_factor o' ->
    gps o bits tl cr = Some v -> gps o' bits tl cr = Some v' -> v <= v'.
  Proof.
    exact (proven_monotone_grinding F fadd fsub fmul fdiv fpow fneg fsqrt fceil flog2 of_Z to_u64 c_half c_quarter c_1_5
             fle fle_refl of_Z_mono to_u64_mono fsub_mono_l fsub_anti_r fadd_mono_r).
  Qed.

  Theorem C18_proven_monotone_degree : forall o o' bits tl cr v v',
    0 <= cr < 2 ^ 32 -> 0 <= bits /\ bits * 3 < 2 ^ 32 ->
    po_blowup_factor o' = po_blowup_factor o -> po_num_queries o' = po_num_queries o ->
    po_grinding_factor o' = po_grinding_factor o ->
    fe_degree (po_field_extension o) <= fe_degree (po_field_extension o') ->
    gps o bits tl cr = Some v -> gps o' bits tl cr = Some v' -> v <= v'.
  Proof.
    exact (proven_monotone_degree F fadd fsub fmul fdiv fpow fneg fsqrt fceil flog2 of_Z to_u64 c_half c_quarter c_1_5
             fle fle_refl of_Z_mono to_u64_mono fsub_mono_l fsub_anti_r fadd_mono_r).
  Qed.

  Theorem C18_proven_monotone_cr : forall o bits tl cr cr' v v',
    0 <= cr <= cr' -> cr' < 2 ^ 32 ->
    gps o bits tl cr = Some v -> gps o bits tl cr' = Some v' -> v <= v'.
  Proof.
    exact (proven_monotone_cr F fadd fsub fmul fdiv fpow fneg fsqrt fceil flog2 of_Z to_u64 c_half c_quarter c_1_5).
  Qed.

  Theorem C18_proven_le_cr : forall o bits tl cr v, 0 <= cr < 2 ^ 32 -> gps o bits tl cr = Some v -> 0 <= v <= cr.
  Proof.
    exact (proven_le_cr F fadd fsub fmul fdiv fpow fneg fsqrt fceil flog2 of_Z to_u64 c_half c_quarter c_1_5).
  Qed.

  (* the estimate is defined (the `expect` does not panic) for one option set iff for every other: the range of m
     depends on the trace length only *)
  Theorem C18_proven_defined_same : forall o o' bits bits' tl cr cr',
    gps o bits tl cr = None <-> gps o' bits' tl cr' = None.
  Proof.
    exact (gps_defined_same F fadd fsub fmul fdiv fpow fneg fsqrt fceil flog2 of_Z to_u64 c_half c_quarter c_1_5).
  Qed.
End ProvenStatements.
Print Assumptions C18_proven_monotone_queries.
Print Assumptions C18_proven_monotone_grinding.
Print Assumptions C18_proven_monotone_degree.
Print Assumptions C18_proven_monotone_cr.
Print Assumptions C18_proven_le_cr.
Print Assumptions C18_proven_defined_same.

(* non-vacuity of the premises: they hold simultaneously for an (integer) instance on which the estimate is defined
   and takes different values *)
Example C18_proven_premises_satisfiable :
  (forall x : Z, x <= x) /\
  (forall a b : Z, a <= b -> (fun x => x) a <= (fun x => x) b) /\
  (forall x y : Z, x <= y -> Z.max 0 (Z.min x (2 ^ 64 - 1)) <= Z.max 0 (Z.min y (2 ^ 64 - 1))) /\
  (forall x : Z, 0 <= Z.max 0 (Z.min x (2 ^ 64 - 1)) < 2 ^ 64) /\
  (forall a a' c : Z, a <= a' -> a - c <= a' - c) /\
  (forall a c c' : Z, c <= c' -> a - c' <= a - c) /\
  (forall a c c' : Z, c <= c' -> a + c <= a + c') /\
  (forall b q q' : Z, ZInst.unit_base b -> 1 <= q -> q <= q' -> q' <= 255 ->
     Z.log2 (ZInst.zpow b ((fun x => x) q')) <= Z.log2 (ZInst.zpow b ((fun x => x) q))).
Proof. exact ZInst.hyps_satisfiable. Qed.

Example C18_proven_instance_moves :
  ZInst.zgps (mkProofOptions 30 8 0 FeCubic 8 127) 64 1024 100 = Some 0 /\
  ZInst.zgps (mkProofOptions 30 8 20 FeCubic 8 127) 64 1024 100 = Some 18 /\
  ZInst.zgps (mkProofOptions 30 8 20 FeCubic 8 127) 64 1024 10 = Some 10.
Proof. exact ZInst.zgps_defined_and_moves. Qed.
