(* C20 — polynomial arithmetic and batch utilities satisfy their algebraic identities.
   Only statements, `exact` of lemmas proved in Proofs/, Print Assumptions, non-vacuity examples.
   Every theorem is for an ARBITRARY carrier F with operations O : FOps F satisfying the field laws FLaws O
   (base fields and their extensions alike) and for lists of ANY length.
   `peval O p x` = Σ p_i x^i is the specification of a coefficient list (PolyBase.peval). *)
From Coq Require Import List Arith ZArith Bool.
From VBase Require Import FieldOps ZpOps.
From VGen Require Import F64 F62 F128.
From VModel Require Import Polynom ExtField PolynomExt.
From VProofs Require Import PolyBase PolyArith PolyCoeff PolyUtils PolyDiv PolyExact PolyMixed PolyRoots PolyInterp PolyBatch PolyUnique PolyInst.
From VProofs Require Import ZpLaws ExtTheory ExtModel ExtConcrete.
Import ListNotations.
Local Open Scope nat_scope.

Section C20.
Context {F : Type} (O : FOps F) (L : FLaws O).
Local Notation zero := (fzero O).
Local Notation one := (fone O).

(* ---------------------------------------------------------------- evaluation *)
Theorem C20_eval_horner : forall p x, eval O p x = peval O p x.
Proof. exact (eval_horner O L). Qed.

Theorem C20_eval_many : forall p xs, eval_many O p xs = map (peval O p) xs.
Proof. exact (eval_many_spec O L). Qed.

(* ---------------------------------------------------------------- add / sub / mul_by_scalar / mul *)
Theorem C20_add_spec : forall a b x,
  peval O (add O a b) x = fadd O (peval O a x) (peval O b x) /\ length (add O a b) = Nat.max (length a) (length b).
Proof. intros; split. apply (add_spec O L). apply add_length. Qed.

Theorem C20_add_coeff : forall a b i, nth i (add O a b) zero = fadd O (nth i a zero) (nth i b zero).
Proof. exact (add_nth O L). Qed.

Theorem C20_sub_spec : forall a b x,
  peval O (sub O a b) x = fsub O (peval O a x) (peval O b x) /\ length (sub O a b) = Nat.max (length a) (length b).
Proof. intros; split. apply (sub_spec O L). apply sub_length. Qed.

Theorem C20_sub_coeff : forall a b i, nth i (sub O a b) zero = fsub O (nth i a zero) (nth i b zero).
Proof. exact (sub_nth O L). Qed.

Theorem C20_mul_by_scalar_spec : forall p k x,
  peval O (mul_by_scalar O p k) x = fmul O k (peval O p x) /\ length (mul_by_scalar O p k) = length p.
Proof. intros; split. apply (mul_by_scalar_spec O L). apply mul_by_scalar_length. Qed.

(* mul (repaired code) never panics, has length la+lb-1 (0 when both are empty) and is the product *)
Theorem C20_mul_spec : forall a b,
  exists r, mul O a b = Ok r /\ length r = length a + length b - 1 /\
            forall x, peval O r x = fmul O (peval O a x) (peval O b x).
Proof. exact (mul_ok O L). Qed.

(* the code before the repair panicked exactly on two empty slices (usize underflow) *)
Theorem C20_mul_unrepaired_total_iff : forall a b, mul_unrepaired O a b <> Panic <-> (a <> [] \/ b <> []).
Proof. exact (mul_unrepaired_total_iff O L). Qed.

(* ---------------------------------------------------------------- degree_of / remove_leading_zeros *)
Theorem C20_degree_of_spec : forall poly,
  (forall k, degree_of O poly < k -> nth k poly zero = zero) /\
  ((exists k, nth k poly zero <> zero) ->
     degree_of O poly < length poly /\ nth (degree_of O poly) poly zero <> zero) /\
  ((forall k, nth k poly zero = zero) -> degree_of O poly = 0).
Proof. exact (degree_of_spec O L). Qed.

Theorem C20_remove_leading_zeros_spec : forall values,
  let r := remove_leading_zeros O values in
  values = r ++ repeat zero (length values - length r) /\
  (r = [] \/ last r zero <> zero) /\
  (forall x, peval O r x = peval O values x).
Proof. exact (remove_leading_zeros_spec O L). Qed.

(* ---------------------------------------------------------------- batch inversion *)
Theorem C20_batch_inversion_spec : forall vs,
  length (batch_inversion O vs) = length vs /\
  forall i, i < length vs ->
    nth i (batch_inversion O vs) zero = if feqb O (nth i vs zero) zero then zero else finv O (nth i vs zero).
Proof. intros; split. apply (batch_inversion_length O L). intros; now apply (batch_inversion_nth O L). Qed.

Theorem C20_batch_inversion_mul : forall vs i, i < length vs -> nth i vs zero <> zero ->
  fmul O (nth i vs zero) (nth i (batch_inversion O vs) zero) = one.
Proof. exact (batch_inversion_mul O L). Qed.

(* ---------------------------------------------------------------- power series *)
Theorem C20_power_series_spec : forall b n,
  exists l, get_power_series O b n = Ok l /\ length l = n /\ forall i, i < n -> nth i l zero = fpow O b i.
Proof. exact (get_power_series_spec O L). Qed.

Theorem C20_power_series_with_offset_spec : forall b s n,
  exists l, get_power_series_with_offset O b s n = Ok l /\ length l = n /\
            forall i, i < n -> nth i l zero = fmul O s (fpow O b i).
Proof. exact (get_power_series_with_offset_spec O L). Qed.

(* ---------------------------------------------------------------- add_in_place / mul_acc *)
Theorem C20_add_in_place_spec : forall a b,
  (length a = length b ->
     exists r, add_in_place O a b = Ok r /\ length r = length a /\
               forall i, i < length a -> nth i r zero = fadd O (nth i a zero) (nth i b zero)) /\
  (add_in_place O a b <> Panic <-> length a = length b).
Proof. exact (add_in_place_spec O). Qed.

Theorem C20_mul_acc_spec : forall a b c,
  (length a = length b ->
     exists r, mul_acc O a b c = Ok r /\ length r = length a /\
               forall i, i < length a -> nth i r zero = fadd O (nth i a zero) (fmul O (nth i b zero) c)) /\
  (mul_acc O a b c <> Panic <-> length a = length b).
Proof. exact (mul_acc_spec O L). Qed.

(* ---------------------------------------------------------------- synthetic division by x^a - b *)
(* in-place layout: `q` is the slice after the call (quotient in the low len-a entries, the top a entries zero),
   `r` the discarded remainder: for a = 1 the final carry `c`, for a >= 2 the low a entries before the shift *)
Theorem C20_syn_div_in_place_spec : forall p a b q r, syn_div_in_place_full O p a b = Ok (q, r) ->
  (forall x, peval O p x = fadd O (fmul O (peval O q x) (fsub O (fpow O x a) b)) (peval O r x)) /\
  length q = length p /\ length r = a /\ skipn (length p - a) q = repeat zero a.
Proof. exact (syn_div_full_spec O L). Qed.

Theorem C20_syn_div_spec : forall p a b q, syn_div O p a b = Ok q ->
  length q = length p /\ skipn (length p - a) q = repeat zero a /\
  exists r, length r = a /\
    forall x, peval O p x = fadd O (fmul O (peval O q x) (fsub O (fpow O x a) b)) (peval O r x).
Proof. exact (syn_div_spec O L). Qed.

(* exact Panic domain = the three documented conditions *)
Theorem C20_syn_div_total_iff : forall p a b, syn_div O p a b <> Panic <-> (a <> 0 /\ b <> zero /\ a < length p).
Proof. exact (syn_div_public_total_iff O L). Qed.

(* ---------------------------------------------------------------- synthetic division by a list of roots *)
Theorem C20_syn_div_roots_spec : forall p roots q, syn_div_roots_in_place O p roots = Ok q ->
  length q = length p /\
  exists rem, length rem = length roots /\
    forall x, peval O p x = fadd O (fmul O (peval O q x) (pprod O roots x)) (peval O rem x).
Proof. exact (syn_div_roots_spec O L). Qed.

Theorem C20_syn_div_roots_total_iff : forall p roots,
  syn_div_roots_in_place O p roots <> Panic <-> (roots <> [] /\ length roots < length p).
Proof. exact (syn_div_roots_total_iff O). Qed.

(* ---------------------------------------------------------------- long division *)
(* `aw` is the working copy of the dividend after the loop; the remainder is its first `degree_of b` entries *)
Theorem C20_div_spec : forall a b q aw, div_full O a b = Ok (q, aw) ->
  (forall x, peval O a x = fadd O (fmul O (peval O q x) (peval O b x)) (peval O (firstn (degree_of O b) aw) x)) /\
  degree_of O b < length b /\ nth (degree_of O b) b zero <> zero /\ degree_of O b <= degree_of O a /\
  (a <> [] -> length q = degree_of O a - degree_of O b + 1) /\ (a = [] -> q = []).
Proof. exact (div_full_spec O L). Qed.

Theorem C20_div_quot_rem : forall a b q, div O a b = Ok q ->
  exists r, length r < length b /\ length r <= degree_of O b /\
            forall x, peval O a x = fadd O (fmul O (peval O q x) (peval O b x)) (peval O r x).
Proof. exact (div_spec O L). Qed.

(* exact Panic domain (repaired code): the divisor is a non-zero polynomial of degree <= degree of the dividend *)
Theorem C20_div_total_iff : forall a b,
  div O a b <> Panic <-> (degree_of O b <= degree_of O a /\ nth (degree_of O b) b zero <> zero).
Proof. exact (div_total_iff O L). Qed.

(* ---------------------------------------------------------------- expansion from roots *)
(* never panics; the uninitialised vector's content (`init`) is irrelevant; monic, length n+1, = prod (x - xs_i) *)
Theorem C20_poly_from_roots_spec : forall xs,
  exists p, poly_from_roots O xs = Ok p /\ length p = S (length xs) /\ last p zero = one /\
            (forall x, peval O p x = pprod O xs x) /\
            (forall init, length init = S (length xs) -> poly_from_roots_init O init xs = Ok p).
Proof.
  intros xs. exists (roots_poly O xs). split. apply (poly_from_roots_spec O).
  split. apply roots_poly_length. split. apply (roots_poly_monic O).
  split. apply (roots_poly_peval O L). intros init H. now apply (fill_zero_roots_spec O).
Qed.

Theorem C20_poly_from_roots_vanishes : forall xs p r, poly_from_roots O xs = Ok p -> In r xs -> peval O p r = zero.
Proof.
  intros xs p r H Hin. rewrite (poly_from_roots_spec O) in H. inversion H; subst.
  rewrite (roots_poly_peval O L). now apply (pprod_root O L).
Qed.

(* ---------------------------------------------------------------- interpolation (repaired code) *)
(* distinct X coordinates, ZERO INCLUDED: the result has length n and passes through every point;
   with remove_leading_zeros = true the result is remove_leading_zeros of it (same polynomial, length <= n) *)
Theorem C20_interpolate_spec : forall dbg xs ys, NoDup xs -> length ys = length xs ->
  exists p, interpolate O dbg xs ys false = Ok p /\ length p = length xs /\
            interpolate O dbg xs ys true = Ok (remove_leading_zeros O p) /\
            forall m, m < length xs -> peval O p (nth m xs zero) = nth m ys zero.
Proof. exact (interpolate_spec O L). Qed.

(* eval_many o interpolate = id on distinct points *)
Theorem C20_eval_many_interpolate : forall dbg xs ys p, NoDup xs -> length ys = length xs ->
  interpolate O dbg xs ys false = Ok p -> eval_many O p xs = ys.
Proof.
  intros dbg xs ys p Hnd Hl Hp. destruct (interpolate_spec O L dbg xs ys Hnd Hl) as (p' & H1 & _ & _ & H4).
  rewrite Hp in H1. inversion H1; subst p'. rewrite (eval_many_spec O L).
  apply (list_ext _ _ zero). now rewrite map_length.
  rewrite map_length. intros i Hi. rewrite (nth_indep _ zero (peval O p zero)) by now rewrite map_length.
  rewrite map_nth. now apply H4.
Qed.

(* exact Panic domain in the debug profile (duplicates in xs do not panic); release profile: next theorem *)
Theorem C20_interpolate_total_iff : forall xs ys rlz,
  interpolate O true xs ys rlz <> Panic <-> length xs = length ys.
Proof. exact (interpolate_total_iff O L). Qed.

(* release profile: no debug_assert; panics exactly when ys is shorter than xs (index `ys[i]`) *)
Theorem C20_interpolate_release_total_iff : forall xs ys rlz,
  interpolate O false xs ys rlz <> Panic <-> length xs <= length ys.
Proof. exact (interpolate_release_total_iff O L). Qed.

(* DEFECT (repaired, fixes/c20-polynom-zero-x-and-empty-inputs.diff): before the repair the numerators were
   computed with syn_div(&roots, 1, x), which asserts x != 0: every point set containing X = 0 panicked *)
Theorem C20_interpolate_unrepaired_refuted : forall dbg xs ys rlz,
  In zero xs -> interpolate_unrepaired O dbg xs ys rlz = Panic.
Proof. exact (interpolate_unrepaired_zero O L). Qed.

(* ---------------------------------------------------------------- interpolate_batch *)
(* any N >= 1, any number of batches, rows of length N (the array type): never panics and row i of the result is
   exactly what `interpolate` returns on batch i (duplicates and X = 0 allowed; the `roots` vector reused between
   batches and the single batch inversion over all n*N denominators make no difference) *)
Theorem C20_interpolate_batch_spec : forall dbg N xs ys, 1 <= N -> length xs = length ys ->
  (forall r, In r xs -> length r = N) -> (forall r, In r ys -> length r = N) ->
  exists ps, interpolate_batch O dbg N xs ys = Ok ps /\ length ps = length xs /\
    forall i, i < length xs -> interpolate O dbg (nth i xs []) (nth i ys []) false = Ok (nth i ps []).
Proof. exact (interpolate_batch_spec O L). Qed.

(* hence, for rows of N distinct X coordinates, polynomial i passes through the points of batch i *)
Theorem C20_interpolate_batch_evaluates : forall dbg N xs ys ps, 1 <= N -> length xs = length ys ->
  (forall r, In r xs -> length r = N /\ NoDup r) -> (forall r, In r ys -> length r = N) ->
  interpolate_batch O dbg N xs ys = Ok ps ->
  forall i j, i < length xs -> j < N ->
    length (nth i ps []) = N /\ peval O (nth i ps []) (nth j (nth i xs []) zero) = nth j (nth i ys []) zero.
Proof. exact (interpolate_batch_evaluates O L). Qed.

(* ---------------------------------------------------------------- uniqueness: interpolate o eval_many = id *)
Theorem C20_interpolate_eval_many : forall dbg xs p, NoDup xs -> length p <= length xs ->
  interpolate O dbg xs (eval_many O p xs) false = Ok (p ++ repeat zero (length xs - length p)).
Proof. exact (interpolate_eval_many O L). Qed.

Theorem C20_interpolate_eval_many_rlz : forall dbg xs p, NoDup xs -> length p <= length xs ->
  interpolate O dbg xs (eval_many O p xs) true = Ok (remove_leading_zeros O p).
Proof. exact (interpolate_eval_many_rlz O L). Qed.

Theorem C20_interpolate_unique : forall dbg xs ys q, NoDup xs -> length ys = length xs -> length q = length xs ->
  (forall m, m < length xs -> peval O q (nth m xs zero) = nth m ys zero) ->
  interpolate O dbg xs ys false = Ok q.
Proof. exact (interpolate_unique O L). Qed.

(* ---------------------------------------------------------------- exact division (synthetic divisions) *)
(* (x - b) q divided by x - b returns q (padded with one zero) and remainder 0 *)
Theorem C20_syn_div_exact_linear : forall q b, q <> [] -> b <> zero ->
  syn_div_in_place_full O (linmul O q b) 1 b = Ok (q ++ [zero], [zero]).
Proof. exact (syn_div_exact_linear O L). Qed.

(* q * prod (x - r_i), built by multiplying by the linear factors in order, divided by the list of roots returns q
   padded with m zeros (repeated roots and the root 0 allowed) *)
Theorem C20_syn_div_roots_exact : forall roots q, roots <> [] -> q <> [] ->
  syn_div_roots_in_place O (fold_left (linmul O) roots q) roots = Ok (q ++ repeat zero (length roots)).
Proof. exact (syn_div_roots_exact O L). Qed.

(* ---------------------------------------------------------------- coefficient-level statements (normal forms) *)
(* `coeff O p k` = nth k p 0;  `conv O p q k` = gsum_{i<=k} p_i q_{k-i} is the k-th coefficient of the product.
   Identities of coefficient lists are stronger than identities of polynomial functions over a finite field. *)
Theorem C20_conv_def : forall p q k,
  conv O p q k = gsum O (fun i => fmul O (coeff O p i) (coeff O q (k - i))) (S k).
Proof. reflexivity. Qed.

(* the crate's mul computes exactly the convolution *)
Theorem C20_mul_coeff : forall a b r, mul O a b = Ok r -> forall k, coeff O r k = conv O a b k.
Proof. exact (mul_coeff O L). Qed.

(* long division, coefficient by coefficient: a_k = (q*b)_k + r_k for every k, r = first deg(b) entries of the copy *)
Theorem C20_div_coeff_spec : forall a b q aw, div_full O a b = Ok (q, aw) ->
  forall k, coeff O a k = fadd O (conv O q b k) (coeff O (firstn (degree_of O b) aw) k).
Proof. exact (div_coeff_spec O L). Qed.

(* quotient and remainder are unique as coefficient lists (leading coefficient of b non-zero, deg r < deg b) *)
Theorem C20_divmod_unique : forall b n q1 q2 r1 r2,
  coeff O b n <> zero -> (forall j, n < j -> coeff O b j = zero) ->
  (forall k, n <= k -> coeff O r1 k = zero) -> (forall k, n <= k -> coeff O r2 k = zero) ->
  (forall k, fadd O (conv O q1 b k) (coeff O r1 k) = fadd O (conv O q2 b k) (coeff O r2 k)) ->
  (forall k, coeff O q1 k = coeff O q2 k) /\ (forall k, coeff O r1 k = coeff O r2 k).
Proof. exact (divmod_unique O L). Qed.

(* EXACT LONG DIVISION: if a = q0 * b coefficient-wise, b a non-zero polynomial, q0 non-zero, then div does not
   panic, returns q0 (same coefficients; length deg(q0)+1, i.e. q0 without its leading zeros) and the remainder part
   of the working copy is zero.  (q0 = 0 with deg b > 0 is the documented panic "divisor of higher degree".) *)
Theorem C20_div_exact : forall a b q0,
  coeff O b (degree_of O b) <> zero -> (exists j, coeff O q0 j <> zero) ->
  (forall k, coeff O a k = conv O q0 b k) ->
  exists q aw, div_full O a b = Ok (q, aw) /\
    (forall k, coeff O q k = coeff O q0 k) /\
    (forall k, coeff O (firstn (degree_of O b) aw) k = zero) /\
    degree_of O a = degree_of O q0 + degree_of O b /\
    length q = degree_of O q0 + 1.
Proof. exact (div_exact O L). Qed.

(* the same with the crate's own product: div (mul q0 b) b = q0 *)
Theorem C20_div_mul_exact : forall q0 b a,
  coeff O b (degree_of O b) <> zero -> (exists j, coeff O q0 j <> zero) -> mul O q0 b = Ok a ->
  exists q aw, div_full O a b = Ok (q, aw) /\
    (forall k, coeff O q k = coeff O q0 k) /\ (forall k, coeff O (firstn (degree_of O b) aw) k = zero) /\
    length q = degree_of O q0 + 1.
Proof. exact (div_mul_exact O L). Qed.

(* EXACT DIVISION BY x^a - b, a >= 2 (both loop variants, b = 1 included): if p_k = q_{k-a} - b q_k for all k
   (p = q * (x^a - b)), the slice becomes q padded with zeros and the discarded remainder is zero *)
Theorem C20_syn_div_exact : forall p a b q, 2 <= a -> b <> zero -> length q + a <= length p -> q <> [] ->
  (forall k, coeff O p k = fsub O (if a <=? k then coeff O q (k - a) else zero) (fmul O b (coeff O q k))) ->
  syn_div_in_place_full O p a b
  = Ok ((q ++ repeat zero (length p - a - length q)) ++ repeat zero a, repeat zero a).
Proof. exact (syn_div_exact_gen O L). Qed.

(* the same with the crate's own product and the divisor as a list: syn_div (mul q [-b,0,..,0,1]) a b = q *)
Theorem C20_syn_div_mul_exact : forall q a b p, 2 <= a -> b <> zero -> q <> [] ->
  mul O q (xa_minus_b O a b) = Ok p ->
  syn_div_in_place_full O p a b = Ok (q ++ repeat zero a, repeat zero a).
Proof. exact (syn_div_mul_exact O L). Qed.

End C20.

Print Assumptions C20_eval_horner.
Print Assumptions C20_eval_many.
Print Assumptions C20_add_spec.
Print Assumptions C20_add_coeff.
Print Assumptions C20_sub_spec.
Print Assumptions C20_sub_coeff.
Print Assumptions C20_mul_by_scalar_spec.
Print Assumptions C20_mul_spec.
Print Assumptions C20_mul_unrepaired_total_iff.
Print Assumptions C20_degree_of_spec.
Print Assumptions C20_remove_leading_zeros_spec.
Print Assumptions C20_batch_inversion_spec.
Print Assumptions C20_batch_inversion_mul.
Print Assumptions C20_power_series_spec.
Print Assumptions C20_power_series_with_offset_spec.
Print Assumptions C20_add_in_place_spec.
Print Assumptions C20_mul_acc_spec.
Print Assumptions C20_syn_div_in_place_spec.
Print Assumptions C20_syn_div_spec.
Print Assumptions C20_syn_div_total_iff.
Print Assumptions C20_syn_div_roots_spec.
Print Assumptions C20_syn_div_roots_total_iff.
Print Assumptions C20_div_spec.
Print Assumptions C20_div_quot_rem.
Print Assumptions C20_div_total_iff.
Print Assumptions C20_poly_from_roots_spec.
Print Assumptions C20_poly_from_roots_vanishes.
Print Assumptions C20_interpolate_spec.
Print Assumptions C20_eval_many_interpolate.
Print Assumptions C20_interpolate_total_iff.
Print Assumptions C20_interpolate_release_total_iff.
Print Assumptions C20_interpolate_unrepaired_refuted.
Print Assumptions C20_interpolate_batch_spec.
Print Assumptions C20_interpolate_batch_evaluates.
Print Assumptions C20_interpolate_eval_many.
Print Assumptions C20_interpolate_eval_many_rlz.
Print Assumptions C20_interpolate_unique.
Print Assumptions C20_syn_div_exact_linear.
Print Assumptions C20_syn_div_roots_exact.
Print Assumptions C20_conv_def.
Print Assumptions C20_mul_coeff.
Print Assumptions C20_div_coeff_spec.
Print Assumptions C20_divmod_unique.
Print Assumptions C20_div_exact.
Print Assumptions C20_div_mul_exact.
Print Assumptions C20_syn_div_exact.
Print Assumptions C20_syn_div_mul_exact.

(* ---------------------------------------------------------------- non-vacuity *)
(* the hypothesis `FLaws O` is satisfiable: GF(7) *)
Theorem C20_laws_inhabited : FLaws f7_ops.
Proof. exact f7_laws. Qed.
Print Assumptions C20_laws_inhabited.

(* the extension fields over which the correspondence also runs the models (Model/PolynomExt.v) are the q_ops / c_ops
   of C08, for which C08 proves the field laws over the typed prime fields: every theorem above applies to them *)
Theorem C20_extension_ops_are_C08 : forall F (O : FOps F) (I2 : Ext2Impl F) (I3 : Ext3Impl F),
  quad_ops O I2 = q_ops O I2 /\ cube_ops O I3 = c_ops O I3.
Proof. intros; split; reflexivity. Qed.
Print Assumptions C20_extension_ops_are_C08.

Theorem C20_extension_fields_satisfy_laws :
  FLaws (quad_ops F64_ops (f64_x2 F64_ops)) /\ FLaws (quad_ops F62_ops (f62_x2 F62_ops)) /\
  FLaws (quad_ops F128_ops (f128_x2 F128_ops)) /\
  FLaws (cube_ops F64_ops (f64_x3 F64_ops)) /\ FLaws (cube_ops F62_ops (f62_x3 F62_ops)).
Proof. exact (conj f64_quad_laws (conj f62_quad_laws (conj f128_quad_laws (conj f64_cube_laws f62_cube_laws)))). Qed.
Print Assumptions C20_extension_fields_satisfy_laws.

(* ---------------------------------------------------------------- mixed instantiations eval<B,E>, mul_acc<F,E> *)
(* for every extension carrier E with field laws and ANY map `from : B -> E` (E::from): *)
Theorem C20_eval_mixed_spec : forall (B E : Type) (OE : FOps E), FLaws OE -> forall (from : B -> E) p x,
  eval_mixed OE from p x = peval OE (map from p) x /\ eval_mixed OE from p x = eval OE (map from p) x.
Proof. intros B E OE LE from p x. split. apply (eval_mixed_spec OE LE). apply (eval_mixed_eq_eval OE LE). Qed.
Print Assumptions C20_eval_mixed_spec.

Theorem C20_mul_acc_mixed_spec : forall (B E : Type) (OE : FOps E) (mul_base : E -> B -> E) (zb : B) a b c,
  (length a = length b ->
     exists r, mul_acc_mixed OE mul_base a b c = Ok r /\ length r = length a /\
               forall i, i < length a -> nth i r (fzero OE) = fadd OE (nth i a (fzero OE)) (mul_base c (nth i b zb))) /\
  (mul_acc_mixed OE mul_base a b c <> Panic <-> length a = length b).
Proof. intros B E OE. exact (mul_acc_mixed_spec OE). Qed.
Print Assumptions C20_mul_acc_mixed_spec.

(* with C08's mul_base = multiplication by the embedded base element, mul_acc<F,E> is mul_acc<E,E> on the embedded
   vector: stated for the f64 quadratic and cubic extensions over any base field with FLaws (the other three alike) *)
Theorem C20_mul_acc_mixed_is_embedded : forall F (O : FOps F), FLaws O ->
  (forall a b c, mul_acc_mixed_quad O (f64_x2 O) a b c
                 = mul_acc (quad_ops O (f64_x2 O)) a (map (q_from_base O) b) c) /\
  (forall a b c, mul_acc_mixed_cube O (f64_x3 O) a b c
                 = mul_acc (cube_ops O (f64_x3 O)) a (map (c_from_base O) b) c).
Proof.
  intros F O L. split; intros a b c.
  - apply mul_acc_mixed_embed. intros e y. apply (f64_ext2_mul_base_eq O L).
  - apply mul_acc_mixed_embed. intros e y. apply (f64_ext3_mul_base_eq O L).
Qed.
Print Assumptions C20_mul_acc_mixed_is_embedded.

(* instances of the theorems' hypotheses and conclusions, computed by the kernel *)
Example ex_interpolate_zero_x :           (* distinct xs containing 0, equal lengths: Ok, and evaluates back to ys *)
  NoDup [e0; e1; e3] /\ interpolate f7_ops true [e0; e1; e3] [e5; e0; e2] false = Ok [e5; e0; e2] /\
  eval_many f7_ops [e5; e0; e2] [e0; e1; e3] = [e5; e0; e2] /\
  interpolate_unrepaired f7_ops true [e0; e1; e3] [e5; e0; e2] false = Panic.
Proof.
  split. { repeat constructor; simpl; intuition discriminate. } vm_compute. repeat split.
Qed.

Example ex_interpolate_batch :            (* two batches, N = 2, X = 0 present: equals interpolate on each batch *)
  interpolate_batch f7_ops true 2 [[e0; e1]; [e3; e4]] [[e5; e0]; [e1; e1]] = Ok [[e5; e2]; [e1; e0]] /\
  interpolate f7_ops true [e0; e1] [e5; e0] false = Ok [e5; e2] /\
  interpolate f7_ops true [e3; e4] [e1; e1] false = Ok [e1; e0] /\
  interpolate_batch f7_ops true 0 [[]] [[]] = Panic /\
  interpolate f7_ops true [e0; e1; e3] (eval_many f7_ops [e2; e6] [e0; e1; e3]) false = Ok [e2; e6; e0].
Proof. vm_compute. repeat split. Qed.

Example ex_exact :                        (* div (mul q0 b) b = q0 with zero remainder; syn_div (q (x^2 - 3)) 2 3 = q *)
  mul f7_ops [e3; e0; e5] [e2; e6; e1; e0] = Ok [e6; e4; e6; e2; e5; e0] /\
  div_full f7_ops [e6; e4; e6; e2; e5; e0] [e2; e6; e1; e0] = Ok ([e3; e0; e5], [e0; e0; e3; e0; e5; e0]) /\
  syn_div_in_place_full f7_ops [e5; e1; e3; e2] 2 e3 = Ok ([e3; e2; e0; e0], [e0; e0]).
Proof. vm_compute. repeat split. Qed.

Example ex_div :                          (* (x^3+x^2+2x+2) / (x^2+2) = x+1, remainder in the working copy *)
  div_full f7_ops [e2; e2; e1; e1] [e2; e0; e1; e0] = Ok ([e1; e1], [e0; e0; e1; e1]) /\
  div f7_ops [e1] [e0; e0] = Panic /\ div f7_ops [e1] [e1; e1] = Panic /\ div f7_ops [] [e3] = Ok [].
Proof. vm_compute. repeat split. Qed.

Example ex_syn_div :                      (* a = 1, a = 2 with b = 1 (fast path) and b <> 1; panic classes *)
  syn_div f7_ops [e2; e2; e1; e1] 1 e6 = Ok [e2; e0; e1; e0] /\
  syn_div_in_place_full f7_ops [e1; e2; e3; e4; e5] 2 e1 = Ok ([e1; e4; e5; e0; e0], [e2; e6]) /\
  syn_div_in_place_full f7_ops [e1; e2; e3; e4; e5] 2 e3 = Ok ([e4; e4; e5; e0; e0], [e6; e0]) /\
  syn_div f7_ops [e1; e2] 0 e1 = Panic /\ syn_div f7_ops [e1; e2] 1 e0 = Panic /\ syn_div f7_ops [e1; e2] 2 e1 = Panic.
Proof. vm_compute. repeat split. Qed.

Example ex_batch_inversion :              (* zeros at the first, a middle and the last position *)
  batch_inversion f7_ops [e0; e2; e0; e3; e0] = [e0; e4; e0; e5; e0] /\ batch_inversion f7_ops [] = [] /\
  batch_inversion f7_ops [e0] = [e0].
Proof. vm_compute. repeat split. Qed.

Example ex_power_series_mul :
  get_power_series f7_ops e3 5 = Ok [e1; e3; e2; e6; e4] /\ get_power_series f7_ops e3 0 = Ok [] /\
  get_power_series_with_offset f7_ops e3 e2 3 = Ok [e2; e6; e4] /\
  mul f7_ops [e1; e1] [e2; e0; e1] = Ok [e2; e2; e1; e1] /\ mul f7_ops [] [] = Ok [] /\
  mul_unrepaired f7_ops [] [] = Panic /\ poly_from_roots f7_ops [e1; e2] = Ok [e2; e4; e1].
Proof. vm_compute. repeat split. Qed.

(* the same models run on canonical residues of a 64-bit prime field (what the correspondence executes) *)
Example ex_zp :
  interpolate (zp_ops P64) true [0; 1; 5]%Z [7; 9; 3]%Z false
    = Ok [7; 5534023220824375299; 12912720848590209024]%Z /\
  interpolate_batch (zp_ops 97) true 2 [[0; 1]; [3; 4]]%Z [[5; 7]; [1; 1]]%Z = Ok [[5; 2]; [1; 0]]%Z.
Proof. vm_compute. repeat split. Qed.
