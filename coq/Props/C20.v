(* C20 — polynomial arithmetic and batch utilities satisfy their algebraic identities.
   Only statements, `exact` of lemmas proved in Proofs/, Print Assumptions, non-vacuity examples.
   Every theorem is for an ARBITRARY carrier F with operations O : FOps F satisfying the field laws FLaws O
   (base fields and their extensions alike) and for lists of ANY length.
   `peval O p x` = Σ p_i x^i is the specification of a coefficient list (PolyBase.peval). *)
From Coq Require Import List Arith ZArith Bool.
From VBase Require Import FieldOps ZpOps.
From VModel Require Import Polynom.
From VProofs Require Import PolyBase PolyArith PolyUtils.
Import ListNotations.
Local Open Scope nat_scope.

Section C20.
Context {F : Type} (O : FOps F) (L : FLaws O).
Local Notation zero := (fzero O).
Local Notation one := (fone O).

(* ---------------------------------------------------------------- evaluation *)
Theorem C20_eval_horner : forall p x, eval O p x = peval O p x.
Proof. exact (eval_horner O L). Qed.

Theorem C20_eval_many : forall p xs, eval_many O p xs = map (peval O p) xs.
Proof. exact (eval_many_spec O L). Qed.

(* ---------------------------------------------------------------- add / sub / mul_by_scalar / mul *)
Theorem C20_add_spec : forall a b x,
  peval O (add O a b) x = fadd O (peval O a x) (peval O b x) /\ length (add O a b) = Nat.max (length a) (length b).
Proof. intros; split. apply (add_spec O L). apply add_length. Qed.

Theorem C20_add_coeff : forall a b i, nth i (add O a b) zero = fadd O (nth i a zero) (nth i b zero).
Proof. exact (add_nth O L). Qed.

Theorem C20_sub_spec : forall a b x,
  peval O (sub O a b) x = fsub O (peval O a x) (peval O b x) /\ length (sub O a b) = Nat.max (length a) (length b).
Proof. intros; split. apply (sub_spec O L). apply sub_length. Qed.

Theorem C20_sub_coeff : forall a b i, nth i (sub O a b) zero = fsub O (nth i a zero) (nth i b zero).
Proof. exact (sub_nth O L). Qed.

Theorem C20_mul_by_scalar_spec : forall p k x,
  peval O (mul_by_scalar O p k) x = fmul O k (peval O p x) /\ length (mul_by_scalar O p k) = length p.
Proof. intros; split. apply (mul_by_scalar_spec O L). apply mul_by_scalar_length. Qed.

(* mul (repaired code) never panics, has length la+lb-1 (0 when both are empty) and is the product *)
Theorem C20_mul_spec : forall a b,
  exists r, mul O a b = Ok r /\ length r = length a + length b - 1 /\
            forall x, peval O r x = fmul O (peval O a x) (peval O b x).
Proof. exact (mul_ok O L). Qed.

(* the code before the repair panicked exactly on two empty slices (usize underflow) *)
Theorem C20_mul_unrepaired_total_iff : forall a b, mul_unrepaired O a b <> Panic <-> (a <> [] \/ b <> []).
Proof. exact (mul_unrepaired_total_iff O L). Qed.

(* ---------------------------------------------------------------- degree_of / remove_leading_zeros *)
Theorem C20_degree_of_spec : forall poly,
  (forall k, degree_of O poly < k -> nth k poly zero = zero) /\
  ((exists k, nth k poly zero <> zero) ->
     degree_of O poly < length poly /\ nth (degree_of O poly) poly zero <> zero) /\
  ((forall k, nth k poly zero = zero) -> degree_of O poly = 0).
Proof. exact (degree_of_spec O L). Qed.

Theorem C20_remove_leading_zeros_spec : forall values,
  let r := remove_leading_zeros O values in
  values = r ++ repeat zero (length values - length r) /\
  (r = [] \/ last r zero <> zero) /\
  (forall x, peval O r x = peval O values x).
Proof. exact (remove_leading_zeros_spec O L). Qed.

(* ---------------------------------------------------------------- batch inversion *)
Theorem C20_batch_inversion_spec : forall vs,
  length (batch_inversion O vs) = length vs /\
  forall i, i < length vs ->
    nth i (batch_inversion O vs) zero = if feqb O (nth i vs zero) zero then zero else finv O (nth i vs zero).
Proof. intros; split. apply (batch_inversion_length O L). intros; now apply (batch_inversion_nth O L). Qed.

Theorem C20_batch_inversion_mul : forall vs i, i < length vs -> nth i vs zero <> zero ->
  fmul O (nth i vs zero) (nth i (batch_inversion O vs) zero) = one.
Proof. exact (batch_inversion_mul O L). Qed.

(* ---------------------------------------------------------------- power series *)
Theorem C20_power_series_spec : forall b n,
  exists l, get_power_series O b n = Ok l /\ length l = n /\ forall i, i < n -> nth i l zero = fpow O b i.
Proof. exact (get_power_series_spec O L). Qed.

Theorem C20_power_series_with_offset_spec : forall b s n,
  exists l, get_power_series_with_offset O b s n = Ok l /\ length l = n /\
            forall i, i < n -> nth i l zero = fmul O s (fpow O b i).
Proof. exact (get_power_series_with_offset_spec O L). Qed.

(* ---------------------------------------------------------------- add_in_place / mul_acc *)
Theorem C20_add_in_place_spec : forall a b,
  (length a = length b ->
     exists r, add_in_place O a b = Ok r /\ length r = length a /\
               forall i, i < length a -> nth i r zero = fadd O (nth i a zero) (nth i b zero)) /\
  (add_in_place O a b <> Panic <-> length a = length b).
Proof. exact (add_in_place_spec O). Qed.

Theorem C20_mul_acc_spec : forall a b c,
  (length a = length b ->
     exists r, mul_acc O a b c = Ok r /\ length r = length a /\
               forall i, i < length a -> nth i r zero = fadd O (nth i a zero) (fmul O (nth i b zero) c)) /\
  (mul_acc O a b c <> Panic <-> length a = length b).
Proof. exact (mul_acc_spec O L). Qed.

End C20.

Print Assumptions C20_eval_horner.
Print Assumptions C20_eval_many.
Print Assumptions C20_add_spec.
Print Assumptions C20_add_coeff.
Print Assumptions C20_sub_spec.
Print Assumptions C20_sub_coeff.
Print Assumptions C20_mul_by_scalar_spec.
Print Assumptions C20_mul_spec.
Print Assumptions C20_mul_unrepaired_total_iff.
Print Assumptions C20_degree_of_spec.
Print Assumptions C20_remove_leading_zeros_spec.
Print Assumptions C20_batch_inversion_spec.
Print Assumptions C20_batch_inversion_mul.
Print Assumptions C20_power_series_spec.
Print Assumptions C20_power_series_with_offset_spec.
Print Assumptions C20_add_in_place_spec.
Print Assumptions C20_mul_acc_spec.
