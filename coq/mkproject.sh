#!/bin/sh
# Regenerates _CoqProject (all .v files under Base Gen Model Proofs Props) and Makefile.coq.
# Extract/*.v are compiled separately by the checks (extraction writes into ocaml/gen/<id>).
cd "$(dirname "$0")"
{
  echo "-Q Base VBase"; echo "-Q Gen VGen"; echo "-Q Model VModel"
  echo "-Q Proofs VProofs"; echo "-Q Props VProps"
  echo "-arg -w -arg -notation-overridden,-deprecated-hint-without-locality,-deprecated-instance-without-locality,-ambiguous-paths,-redundant-canonical-projection,-deprecated-since-8.16"
  find Base Gen Model Proofs Props -name '*.v' | LC_ALL=C sort
} > _CoqProject.new
if ! cmp -s _CoqProject.new _CoqProject; then mv _CoqProject.new _CoqProject; coq_makefile -f _CoqProject -o Makefile.coq >/dev/null 2>&1; else rm _CoqProject.new; fi
[ -f Makefile.coq ] || coq_makefile -f _CoqProject -o Makefile.coq >/dev/null 2>&1
