(* C15 / C05 driver: evaluates the extracted FRI model (Model/Fri.v + Model/FriInst.v).
   Line protocol (tokens separated by one space; see notes/C15.design.md):
     fold <positions> <domain> <N>                          -> natlist | panic
     mapidx <positions> <domain> <N> <partitions>           -> natlist | panic
     opts <blowup> <N> <remmax>                             -> ok | panic
     nlayers <blowup> <N> <remmax> <domain>                 -> hex | none | panic
     drp <field> <N> <offset> <alpha> <evaluations>         -> elemlist | panic
     prove <field> <dbg> <blowup> <N> <remmax> <maxdeg> <positions> <evaluations>
                                                            -> ok C=.. L=.. N=.. R=.. V=<verdict> | panic
     verify <field> <dbg> <blowup> <N> <remmax> <maxdeg> <domain> <positions> <evals> <commitments>
            <layervalues> <layernodes> <remainder> <partitions> -> <verdict>
     verify0 ... (same arguments)                           -> verdict of the UNREPAIRED verifier (no remainder commitment check)
     twice <field> <blowup> <N> <remmax> <pos1> <evals1> <pos2> <evals2> -> ok C=.. L=.. N=.. R=.. / C=.. L=.. N=.. R=.. | panic
   integers: lower-case hex; lists: items joined by ';', empty list '-'; extension elements 'c0,c1';
   layers joined by '|', zero layers '~'; Merkle nodes of a layer: vectors joined by ';' (none: '-'),
   digests of a vector joined by ',' (empty vector '_'). *)
open Zio
open Fri

let rec int_of_nat (n : Datatypes.nat) : int = match n with Datatypes.O -> 0 | Datatypes.S m -> 1 + int_of_nat m
let nat s = nat_of_int (int_of_string ("0x" ^ s))
let hexn n = Stdlib.Printf.sprintf "%x" (int_of_nat n)
let split c s = if s = "-" then [] else Stdlib.String.split_on_char c s
let join c enc l = if l = [] then "-" else Stdlib.String.concat c (Stdlib.List.map enc l)
let natlist s = Stdlib.List.map nat (split ';' s)
let enc_natlist l = join ";" hexn l

(* element codecs *)
let dec1 s = z_of_hex s
let enc1 z = hex_of_z z
let dec2 s = match Stdlib.String.split_on_char ',' s with [ a; b ] -> (z_of_hex a, z_of_hex b) | _ -> failwith "bad ext element"
let enc2 (a, b) = hex_of_z a ^ "," ^ hex_of_z b
let declist dec s = Stdlib.List.map dec (split ';' s)
let enclist enc l = join ";" enc l

let layers_of s = if s = "~" then [] else Stdlib.String.split_on_char '|' s
let dec_nodes s : BinNums.coq_Z list list =
  Stdlib.List.map (fun v -> if v = "_" then [] else Stdlib.List.map z_of_hex (Stdlib.String.split_on_char ',' v)) (split ';' s)
let enc_nodes (n : BinNums.coq_Z list list) =
  join ";" (fun v -> if v = [] then "_" else Stdlib.String.concat "," (Stdlib.List.map hex_of_z v)) n

let verr_str = function
  | RandomCoinError -> "RandomCoinError"
  | UnsupportedFoldingFactor n -> Stdlib.Printf.sprintf "UnsupportedFoldingFactor(%d)" (int_of_nat n)
  | NumPositionEvaluationMismatch (a, b) -> Stdlib.Printf.sprintf "NumPositionEvaluationMismatch(%d,%d)" (int_of_nat a) (int_of_nat b)
  | LayerCommitmentMismatch -> "LayerCommitmentMismatch"
  | InvalidLayerFolding d -> Stdlib.Printf.sprintf "InvalidLayerFolding(%d)" (int_of_nat d)
  | RemainderCommitmentMismatch -> "RemainderCommitmentMismatch"
  | InvalidRemainderFolding -> "InvalidRemainderFolding"
  | RemainderDegreeNotValid -> "RemainderDegreeNotValid"
  | RemainderDegreeMismatch d -> Stdlib.Printf.sprintf "RemainderDegreeMismatch(%d)" (int_of_nat d)
  | DegreeTruncation (a, b, c) -> Stdlib.Printf.sprintf "DegreeTruncation(%d,%d,%d)" (int_of_nat a) (int_of_nat b) (int_of_nat c)

let res_str pre = function Ok _ -> pre ^ "ok" | Err e -> pre ^ "err:" ^ verr_str e | Panic -> pre ^ "panic"
let verdict = function
  | RunVerdict r -> res_str "" r
  | RunChannelErr -> "chan-err"
  | RunChannelPanic -> "chan-panic"
  | RunNew r -> res_str "new-" r

let opts blowup n remmax = { fo_blowup = nat blowup; fo_folding = nat n; fo_remmax = nat remmax }
let ebytes = function "f64" | "f64x2" -> 8 | _ -> 16
let coin f = FriInst.coin0 (nat_of_int (ebytes f))

let enc_proof enc (cs : BinNums.coq_Z list) (p : ('e, BinNums.coq_Z list list) fri_proof) =
  let ls = p.fp_layers in
  let lv = if ls = [] then "~" else Stdlib.String.concat "|" (Stdlib.List.map (fun l -> enclist enc l.pl_values) ls) in
  let ln = if ls = [] then "~" else Stdlib.String.concat "|" (Stdlib.List.map (fun l -> enc_nodes l.pl_nodes) ls) in
  Stdlib.Printf.sprintf "C=%s L=%s N=%s R=%s" (enclist hex_of_z cs) lv ln (enclist enc p.fp_remainder)

let mk_proof dec lvals lnodes rem parts =
  let vs = layers_of lvals and ns = layers_of lnodes in
  if Stdlib.List.length vs <> Stdlib.List.length ns then failwith "layer count mismatch";
  { fp_layers = Stdlib.List.map2 (fun v n -> { pl_values = declist dec v; pl_nodes = dec_nodes n }) vs ns;
    fp_remainder = declist dec rem; fp_partitions = nat parts }

let run_drp enc dec drp n offset alpha evals =
  match drp (nat n) (declist dec evals) (dec offset) (dec alpha) with Ok l -> enclist enc l | Err _ -> "err" | Panic -> "panic"

let run_prove enc dec prove verif f dbg blowup n remmax maxdeg positions evals =
  let o = opts blowup n remmax in
  let ev = declist dec evals and pos = natlist positions in
  match prove o (coin f) ev pos with
  | Ok ((cs, proof), _) ->
    let arr = Stdlib.Array.of_list ev in
    let at = Stdlib.List.map (fun p -> arr.(int_of_nat p)) pos in
    let v = verif (dbg = "1") true o (coin f) proof cs (nat maxdeg) (nat_of_int (Stdlib.Array.length arr)) at pos in
    "ok " ^ enc_proof enc cs proof ^ " V=" ^ verdict v
  | _ -> "panic"

let run_verify dec verif check f dbg blowup n remmax maxdeg domain positions evals cs lvals lnodes rem parts =
  let o = opts blowup n remmax in
  let proof = mk_proof dec lvals lnodes rem parts in
  verdict (verif (dbg = "1") check o (coin f) proof (declist z_of_hex cs) (nat maxdeg) (nat domain) (declist dec evals) (natlist positions))

let run_twice enc dec twice f blowup n remmax p1 e1 p2 e2 =
  match twice (opts blowup n remmax) (coin f) (declist dec e1) (natlist p1) (declist dec e2) (natlist p2) with
  | Ok (((c1, pr1), c2), pr2) -> "ok " ^ enc_proof enc c1 pr1 ^ " / " ^ enc_proof enc c2 pr2
  | _ -> "panic"

let eval = function
  | [ "fold"; ps; d; n ] -> (match fold_positions (natlist ps) (nat d) (nat n) with Ok l -> enc_natlist l | _ -> "panic")
  | [ "mapidx"; ps; d; n; np ] -> (match map_positions_to_indexes (natlist ps) (nat d) (nat n) (nat np) with Ok l -> enc_natlist l | _ -> "panic")
  | [ "opts"; b; n; r ] -> (match options_new (nat b) (nat n) (nat r) with Ok _ -> "ok" | _ -> "panic")
  | [ "nlayers"; b; n; r; d ] ->
    (match options_new (nat b) (nat n) (nat r) with
     | Ok o -> (match num_fri_layers o (nat d) with Some k -> hexn k | None -> "none")
     | _ -> "panic")
  | [ "drp"; "f64"; n; off; a; ev ] -> run_drp enc1 dec1 FriInst.drp64 n off a ev
  | [ "drp"; "f128"; n; off; a; ev ] -> run_drp enc1 dec1 FriInst.drp128 n off a ev
  | [ "drp"; "f64x2"; n; off; a; ev ] -> run_drp enc2 dec2 FriInst.drp64x2 n off a ev
  | [ "drp"; "f128x2"; n; off; a; ev ] -> run_drp enc2 dec2 FriInst.drp128x2 n off a ev
  | [ "prove"; ("f64" as f); dbg; b; n; r; md; ps; ev ] -> run_prove enc1 dec1 FriInst.prove64 FriInst.verif64 f dbg b n r md ps ev
  | [ "prove"; ("f128" as f); dbg; b; n; r; md; ps; ev ] -> run_prove enc1 dec1 FriInst.prove128 FriInst.verif128 f dbg b n r md ps ev
  | [ "prove"; ("f64x2" as f); dbg; b; n; r; md; ps; ev ] -> run_prove enc2 dec2 FriInst.prove64x2 FriInst.verif64x2 f dbg b n r md ps ev
  | [ "prove"; ("f128x2" as f); dbg; b; n; r; md; ps; ev ] -> run_prove enc2 dec2 FriInst.prove128x2 FriInst.verif128x2 f dbg b n r md ps ev
  | [ ("verify" | "verify0") as op; f; dbg; b; n; r; md; d; ps; ev; cs; lv; ln; rem; parts ] ->
    let check = op = "verify" in
    (match f with
     | "f64" -> run_verify dec1 FriInst.verif64 check f dbg b n r md d ps ev cs lv ln rem parts
     | "f128" -> run_verify dec1 FriInst.verif128 check f dbg b n r md d ps ev cs lv ln rem parts
     | "f64x2" -> run_verify dec2 FriInst.verif64x2 check f dbg b n r md d ps ev cs lv ln rem parts
     | "f128x2" -> run_verify dec2 FriInst.verif128x2 check f dbg b n r md d ps ev cs lv ln rem parts
     | _ -> "driver-error:unknown-field")
  | [ "twice"; ("f64" as f); b; n; r; p1; e1; p2; e2 ] -> run_twice enc1 dec1 FriInst.twice64 f b n r p1 e1 p2 e2
  | [ "twice"; ("f128" as f); b; n; r; p1; e1; p2; e2 ] -> run_twice enc1 dec1 FriInst.twice128 f b n r p1 e1 p2 e2
  | op :: _ -> "driver-error:unknown-op:" ^ op
  | [] -> "driver-error:empty"

let () = run eval
