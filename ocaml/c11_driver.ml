(* C11 driver: evaluates the extracted hash models.  One case per line:
     <h>.perm r0 .. r(w-1)            -> residues of the permuted state          (h = rp64 | jive)
     <h>.permraw w0 .. w(w-1)         -> internal words of the permuted state (raw model: generated f64 ops + mds_multiply)
     <h>.hash <hexbytes>              -> 4 residues | panic                      (h = rp64 | rp62 | jive)
     <h>.he <deg> <flat residues|->   -> 4 residues   (elements of extension degree deg, coefficient-flattened)
     <h>.heraw <residues|->          -> 4 INTERNAL words of hash_elements(new(r0), ..) (raw model: generated field ops on internal words)
     <h>.merge a0..a3 b0..b3          -> 4 residues
     <h>.mwi s0..s3 <u64>             -> 4 residues
     mds12.freq / mds8.freq <u64 limbs>   -> output limbs [!ok]   (generated code; !ok = a checked op is out of range)
     mds12.raw / mds8.raw <internal words> -> internal words [!ok] (hand model of mds_multiply over the generated code)
     <b>.hash|merge|mwi|he ...        -> "prim <blake3|sha3> <outlen> <hexbytes>": the byte string the wrapper feeds to the
                                         primitive (b = b3_256 | b3_192 | sha3); `c11 prim` applies the primitive. *)
open Zio

let z = z_of_hex
let h = hex_of_z
let zs l = Stdlib.List.map z l
let hs l = Stdlib.String.concat " " (Stdlib.List.map h l)
let okflag s ok = if ok then s else s ^ " !ok"
let rec group n l =
  if l = [] then [] else
  let rec take k l = if k = 0 then ([], l) else match l with [] -> ([], []) | x :: r -> let (a, b) = take (k - 1) r in (x :: a, b) in
  let (a, b) = take n l in a :: group n b
let elems deg flat = if flat = [ "-" ] then [] else group deg (zs flat)
let split4 l = match l with a :: b :: c :: d :: r -> ([ a; b; c; d ], r) | _ -> failwith "need 4 words"
let opt = function None -> "panic" | Some d -> hs d
let prim_of b = match b with "b3_256" -> ("blake3", 32) | "b3_192" -> ("blake3", 24) | "sha3" -> ("sha3", 32) | _ -> failwith "hasher"
let pr b bytes = let (k, n) = prim_of b in Stdlib.Printf.sprintf "prim %s %d %s" k n (hex_of_bytes bytes)

let eval toks =
  match toks with
  | [] -> "driver-error:empty"
  | op :: args -> (
      match (Stdlib.String.split_on_char '.' op, args) with
      | [ "rp64"; "perm" ], _ -> hs (Rescue.rp64_permutation (zs args))
      | [ "jive"; "perm" ], _ -> hs (Rescue.jive_permutation (zs args))
      | [ "rp64"; "permraw" ], _ -> hs (Rescue.rp64_raw_permutation (zs args))
      | [ "jive"; "permraw" ], _ -> hs (Rescue.jive_raw_permutation (zs args))
      | [ "rp62"; "perm" ], _ -> hs (Rescue.rp62_permutation (zs args))
      | [ "rp64"; "hash" ], [ b ] -> opt (Rescue.rp64_hash (bytes_of_hex b))
      | [ "rp62"; "hash" ], [ b ] -> opt (Rescue.rp62_hash (bytes_of_hex b))
      | [ "jive"; "hash" ], [ b ] -> opt (Rescue.jive_hash (bytes_of_hex b))
      | [ "rp64"; "he" ], d :: flat -> hs (Rescue.rp64_hash_elements (elems (int_of_string d) flat))
      | [ "rp62"; "he" ], d :: flat -> hs (Rescue.rp62_hash_elements (elems (int_of_string d) flat))
      | [ "jive"; "he" ], d :: flat -> hs (Rescue.jive_hash_elements (elems (int_of_string d) flat))
      | [ "rp64"; "heraw" ], _ -> hs (Rescue.rp64_raw_hash_elements (Stdlib.List.map (fun v -> [ F64.f64_new v ]) (if args = [ "-" ] then [] else zs args)))
      | [ "jive"; "heraw" ], _ -> hs (Rescue.jive_raw_hash_elements (Stdlib.List.map (fun v -> [ F64.f64_new v ]) (if args = [ "-" ] then [] else zs args)))
      | [ "rp62"; "heraw" ], _ -> hs (Rescue.rp62_raw_hash_elements (Stdlib.List.map (fun v -> [ F62.f62_new v ]) (if args = [ "-" ] then [] else zs args)))
      | [ "rp64"; "merge" ], _ -> let (a, b) = split4 (zs args) in hs (Rescue.rp64_merge a b)
      | [ "rp62"; "merge" ], _ -> let (a, b) = split4 (zs args) in hs (Rescue.rp62_merge a b)
      | [ "jive"; "merge" ], _ -> let (a, b) = split4 (zs args) in hs (Rescue.jive_merge a b)
      | [ "rp64"; "mwi" ], _ -> (match split4 (zs args) with (s, [ v ]) -> hs (Rescue.rp64_merge_with_int s v) | _ -> failwith "mwi")
      | [ "rp62"; "mwi" ], _ -> (match split4 (zs args) with (s, [ v ]) -> hs (Rescue.rp62_merge_with_int s v) | _ -> failwith "mwi")
      | [ "jive"; "mwi" ], _ -> (match split4 (zs args) with (s, [ v ]) -> hs (Rescue.jive_merge_with_int s v) | _ -> failwith "mwi")
      | [ "mds12"; "freq" ], _ -> okflag (hs (Rescue.mds12_freq_list (zs args))) (Rescue.mds12_freq_list_ok (zs args))
      | [ "mds8"; "freq" ], _ -> okflag (hs (Rescue.mds8_freq_list (zs args))) (Rescue.mds8_freq_list_ok (zs args))
      | [ "mds12"; "raw" ], _ -> okflag (hs (Rescue.mds12_multiply (zs args))) (Rescue.mds12_multiply_ok (zs args))
      | [ "mds8"; "raw" ], _ -> okflag (hs (Rescue.mds8_multiply (zs args))) (Rescue.mds8_multiply_ok (zs args))
      | [ b; "hash" ], [ x ] -> pr b (ByteHash.msg_hash (bytes_of_hex x))
      | [ b; "merge" ], [ x; y ] -> pr b (ByteHash.msg_merge (bytes_of_hex x) (bytes_of_hex y))
      | [ b; "mwi" ], [ s; v ] -> pr b (ByteHash.msg_merge_with_int (bytes_of_hex s) (z v))
      | [ b; "he" ], fld :: d :: flat ->
          let xs = elems (int_of_string d) flat in
          pr b (if fld = "f128" then ByteHash.msg_elements_f128 xs else ByteHash.msg_elements_f64 xs)
      | _ -> "driver-error:unknown-op:" ^ op)

let () = run eval
