(* C07 driver: evaluates the extracted generated field arithmetic on raw words.
   Output: "<value>" or "<value> !ok" when the generated side condition (checked arithmetic) is false. *)
open Zio

let z = z_of_hex
let h = hex_of_z
let okflag v ok = if ok then h v else h v ^ " !ok"
let opt = function None -> "none" | Some v -> h v

let eval = function
  | [ "f64.new"; a ] -> okflag (F64.f64_new (z a)) (F64.f64_new_ok (z a))
  | [ "f64.as_int"; a ] -> h (F64.f64_as_int (z a))
  | [ "f64.add"; a; b ] -> okflag (F64.f64_add (z a) (z b)) (F64.f64_add_ok (z a) (z b))
  | [ "f64.sub"; a; b ] -> h (F64.f64_sub (z a) (z b))
  | [ "f64.mul"; a; b ] -> okflag (F64.f64_mul (z a) (z b)) (F64.f64_mul_ok (z a) (z b))
  | [ "f64.neg"; a ] -> h (F64.f64_neg (z a))
  | [ "f64.double"; a ] -> okflag (F64.f64_double (z a)) (F64.f64_double_ok (z a))
  | [ "f64.mul_small"; a; b ] -> okflag (F64.f64_mul_small (z a) (z b)) (F64.f64_mul_small_ok (z a) (z b))
  | [ "f64.exp"; a; b ] -> h (F64.f64_exp (z a) (z b))
  | [ "f64.inv"; a ] -> h (F64.f64_inv (z a))
  | [ "f64.div"; a; b ] -> h (F64.f64_div (z a) (z b))
  | [ "f64.exp7"; a ] -> h (F64.f64_exp7 (z a))
  | [ "f64.eq"; a; b ] -> if F64.f64_eq (z a) (z b) then "1" else "0"
  | [ "f64.try_from_u64"; a ] -> opt (F64.f64_try_from_u64 (z a))
  | [ "f64.try_from_u128"; a ] -> opt (F64.f64_try_from_u128 (z a))
  | [ "f64.try_from_bytes"; a ] -> opt (F64.f64_try_from_bytes (bytes_of_hex a))
  | op :: _ -> "driver-error:unknown-op:" ^ op
  | [] -> "driver-error:empty"

let () = run eval
