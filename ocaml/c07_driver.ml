(* C07 driver: evaluates the extracted generated field arithmetic on raw words.
   Output: "<value>" or "<value> !ok" when the generated side condition (checked arithmetic) is false. *)
open Zio

let z = z_of_hex
let h = hex_of_z
let okflag v ok = if ok then h v else h v ^ " !ok"
let opt = function None -> "none" | Some v -> h v
let fuel = nat_of_int 1000
let fopt = function None -> "out-of-fuel" | Some v -> h v

(* round 2: get_root_of_unity (asserts panic in every profile) and from_bytes_with_padding (hand model) *)
(* the side condition is tested first: for a wild n the shift amount of the generated term is astronomically large *)
let grou f ok n = if ok n then h (f n) else "panic"
let fb = function FieldBytes.FbOk v -> h v | FieldBytes.FbAssertLen | FieldBytes.FbDeserFailed -> "panic"

(* coverage round: conversions, compound assignments, raw byte views *)
let optb = function None -> "none" | Some true -> "1" | Some false -> "0"
let popt = function None -> "panic" | Some v -> h v
let wlist s = if s = "-" then [] else Stdlib.List.map z (Stdlib.String.split_on_char ',' s)
let wshow = function [] -> "-" | l -> Stdlib.String.concat "," (Stdlib.List.map h l)
let wopt = function None -> "none" | Some l -> wshow l
let zbool s = s <> "0"

let eval = function
  | [ "f64.from_bool"; a ] -> okflag (F64.f64_from_bool (zbool a)) (F64.f64_from_bool_ok (zbool a))
  | [ "f64.from_u8"; a ] -> okflag (F64.f64_from_u8 (z a)) (F64.f64_from_u8_ok (z a))
  | [ "f64.from_u16"; a ] -> okflag (F64.f64_from_u16 (z a)) (F64.f64_from_u16_ok (z a))
  | [ "f64.from_u32"; a ] -> okflag (F64.f64_from_u32 (z a)) (F64.f64_from_u32_ok (z a))
  | [ "f64.try_from_usize"; a ] -> opt (F64.f64_try_from_usize (z a))
  | [ "f64.to_bool"; a ] -> optb (F64.f64_to_bool (z a))
  | [ "f64.to_u8"; a ] -> opt (F64.f64_to_u8 (z a))
  | [ "f64.to_u16"; a ] -> opt (F64.f64_to_u16 (z a))
  | [ "f64.to_u32"; a ] -> opt (F64.f64_to_u32 (z a))
  | [ "f64.to_u64"; a ] -> h (F64.f64_to_u64 (z a))
  | [ "f64.to_u128"; a ] -> h (F64.f64_to_u128 (z a))
  | [ "f64.sf_as_int"; a ] -> h (F64.f64_sf_as_int (z a))
  | [ "f64.conjugate"; a ] -> h (F64.f64_conjugate (z a))
  | [ "f64.add_assign"; a; b ] -> okflag (F64.f64_add_assign (z a) (z b)) (F64.f64_add_ok (z a) (z b))
  | [ "f64.sub_assign"; a; b ] -> h (F64.f64_sub_assign (z a) (z b))
  | [ "f64.mul_assign"; a; b ] -> okflag (F64.f64_mul_assign (z a) (z b)) (F64.f64_mul_ok (z a) (z b))
  | [ "f64.div_assign"; a; b ] -> h (F64.f64_div_assign (z a) (z b))
  | [ "f64.base_element"; a; i ] -> popt (F64.f64_base_element (z a) (z i))
  | [ "f64.try_from_slice"; a ] -> opt (FieldBytes.f64_try_from_slice (bytes_of_hex a))
  | [ "f64.as_bytes"; a ] -> hex_of_bytes (FieldBytes.f64_as_bytes (z a))
  | [ "f64.eab"; a ] -> hex_of_bytes (FieldBytes.f64_elements_as_bytes (wlist a))
  | [ "f64.bae"; o; a ] -> wopt (FieldBytes.f64_bytes_as_elements (z o) (bytes_of_hex a))
  | [ "f62.from_u8"; a ] -> okflag (F62.f62_from_u8 (z a)) (F62.f62_from_u8_ok (z a))
  | [ "f62.from_u16"; a ] -> okflag (F62.f62_from_u16 (z a)) (F62.f62_from_u16_ok (z a))
  | [ "f62.from_u32"; a ] -> okflag (F62.f62_from_u32 (z a)) (F62.f62_from_u32_ok (z a))
  | [ "f62.to_u64"; a ] -> okflag (F62.f62_to_u64 (z a)) (F62.f62_to_u64_ok (z a))
  | [ "f62.to_u128"; a ] -> okflag (F62.f62_to_u128 (z a)) (F62.f62_to_u128_ok (z a))
  | [ "f62.try_from_bytes"; a ] -> opt (F62.f62_try_from_bytes (bytes_of_hex a))
  | [ "f62.conjugate"; a ] -> h (F62.f62_conjugate (z a))
  | [ "f62.add_assign"; a; b ] -> okflag (F62.f62_add_assign (z a) (z b)) (F62.f62_add_ok (z a) (z b))
  | [ "f62.sub_assign"; a; b ] -> okflag (F62.f62_sub_assign (z a) (z b)) (F62.f62_sub_ok (z a) (z b))
  | [ "f62.mul_assign"; a; b ] -> okflag (F62.f62_mul_assign (z a) (z b)) (F62.f62_mul_ok (z a) (z b))
  | [ "f62.div_assign"; a; b ] -> fopt (F62.f62_div_assign fuel (z a) (z b))
  | [ "f62.base_element"; a; i ] -> popt (F62.f62_base_element (z a) (z i))
  | [ "f62.try_from_slice"; a ] -> opt (FieldBytes.f62_try_from_slice (bytes_of_hex a))
  | [ "f62.as_bytes"; a ] -> hex_of_bytes (FieldBytes.f62_as_bytes (z a))
  | [ "f62.eab"; a ] -> hex_of_bytes (FieldBytes.f62_elements_as_bytes (wlist a))
  | [ "f62.bae"; o; a ] -> wopt (FieldBytes.f62_bytes_as_elements (z o) (bytes_of_hex a))
  | [ "f128.from_u8"; a ] -> h (F128.f128_from_u8 (z a))
  | [ "f128.from_u16"; a ] -> h (F128.f128_from_u16 (z a))
  | [ "f128.from_u32"; a ] -> h (F128.f128_from_u32 (z a))
  | [ "f128.from_u64"; a ] -> h (F128.f128_from_u64 (z a))
  | [ "f128.conjugate"; a ] -> h (F128.f128_conjugate (z a))
  | [ "f128.add_assign"; a; b ] -> okflag (F128.f128_add_assign (z a) (z b)) (F128.f128_add_ok (z a) (z b))
  | [ "f128.sub_assign"; a; b ] -> okflag (F128.f128_sub_assign (z a) (z b)) (F128.f128_sub_ok (z a) (z b))
  | [ "f128.mul_assign"; a; b ] -> okflag (F128.f128_mul_assign (z a) (z b)) (F128.f128_mul_ok (z a) (z b))
  | [ "f128.div_assign"; a; b ] -> fopt (F128.f128_div_assign fuel (z a) (z b))
  | [ "f128.base_element"; a; i ] -> popt (F128.f128_base_element (z a) (z i))
  | [ "f128.try_from_slice"; a ] -> opt (FieldBytes.f128_try_from_slice (bytes_of_hex a))
  | [ "f128.as_bytes"; a ] -> hex_of_bytes (FieldBytes.f128_as_bytes (z a))
  | [ "f128.eab"; a ] -> hex_of_bytes (FieldBytes.f128_elements_as_bytes (wlist a))
  | [ "f128.bae"; o; a ] -> wopt (FieldBytes.f128_bytes_as_elements (z o) (bytes_of_hex a))
  | [ "f64.grou"; n ] -> grou F64.f64_get_root_of_unity F64.f64_get_root_of_unity_ok (z n)
  | [ "f62.grou"; n ] -> grou F62.f62_get_root_of_unity F62.f62_get_root_of_unity_ok (z n)
  | [ "f128.grou"; n ] ->
      if F128.f128_get_root_of_unity_ok fuel (z n) then fopt (F128.f128_get_root_of_unity fuel (z n)) else "panic"
  | [ "f62.exp_vartime"; a; b ] -> fopt (F62.f62_exp_vartime fuel (z a) (z b))
  | [ "f64.fbwp"; a ] -> fb (FieldBytes.f64_from_bytes_with_padding (bytes_of_hex a))
  | [ "f62.fbwp"; a ] -> fb (FieldBytes.f62_from_bytes_with_padding (bytes_of_hex a))
  | [ "f128.fbwp"; a ] -> fb (FieldBytes.f128_from_bytes_with_padding (bytes_of_hex a))
  | [ "f64.new"; a ] -> okflag (F64.f64_new (z a)) (F64.f64_new_ok (z a))
  | [ "f64.as_int"; a ] -> h (F64.f64_as_int (z a))
  | [ "f64.add"; a; b ] -> okflag (F64.f64_add (z a) (z b)) (F64.f64_add_ok (z a) (z b))
  | [ "f64.sub"; a; b ] -> h (F64.f64_sub (z a) (z b))
  | [ "f64.mul"; a; b ] -> okflag (F64.f64_mul (z a) (z b)) (F64.f64_mul_ok (z a) (z b))
  | [ "f64.neg"; a ] -> h (F64.f64_neg (z a))
  | [ "f64.double"; a ] -> okflag (F64.f64_double (z a)) (F64.f64_double_ok (z a))
  | [ "f64.mul_small"; a; b ] -> okflag (F64.f64_mul_small (z a) (z b)) (F64.f64_mul_small_ok (z a) (z b))
  | [ "f64.exp"; a; b ] -> h (F64.f64_exp (z a) (z b))
  | [ "f64.inv"; a ] -> h (F64.f64_inv (z a))
  | [ "f64.div"; a; b ] -> h (F64.f64_div (z a) (z b))
  | [ "f64.exp7"; a ] -> h (F64.f64_exp7 (z a))
  | [ "f64.eq"; a; b ] -> if F64.f64_eq (z a) (z b) then "1" else "0"
  | [ "f64.try_from_u64"; a ] -> opt (F64.f64_try_from_u64 (z a))
  | [ "f64.try_from_u128"; a ] -> opt (F64.f64_try_from_u128 (z a))
  | [ "f64.try_from_bytes"; a ] -> opt (F64.f64_try_from_bytes (bytes_of_hex a))
  | [ "f64.exp_vartime"; a; b ] -> fopt (F64.f64_exp_vartime fuel (z a) (z b))
  | [ "f62.new"; a ] -> okflag (F62.f62_new (z a)) (F62.f62_new_ok (z a))
  | [ "f62.as_int"; a ] -> okflag (F62.f62_as_int (z a)) (F62.f62_as_int_ok (z a))
  | [ "f62.add"; a; b ] -> okflag (F62.f62_add (z a) (z b)) (F62.f62_add_ok (z a) (z b))
  | [ "f62.sub"; a; b ] -> okflag (F62.f62_sub (z a) (z b)) (F62.f62_sub_ok (z a) (z b))
  | [ "f62.mul"; a; b ] -> okflag (F62.f62_mul (z a) (z b)) (F62.f62_mul_ok (z a) (z b))
  | [ "f62.neg"; a ] -> okflag (F62.f62_neg (z a)) (F62.f62_neg_ok (z a))
  | [ "f62.double"; a ] -> okflag (F62.f62_double (z a)) (F62.f62_double_ok (z a))
  | [ "f62.exp"; a; b ] -> h (F62.f62_exp (z a) (z b))
  | [ "f62.inv"; a ] -> fopt (F62.f62_inv fuel (z a))
  | [ "f62.div"; a; b ] -> fopt (F62.f62_div fuel (z a) (z b))
  | [ "f62.eq"; a; b ] -> if F62.f62_eq (z a) (z b) then "1" else "0"
  | [ "f62.try_from_u64"; a ] -> opt (F62.f62_try_from_u64 (z a))
  | [ "f62.try_from_u128"; a ] -> opt (F62.f62_try_from_u128 (z a))
  | [ "f128.new"; a ] -> h (F128.f128_new (z a))
  | [ "f128.add"; a; b ] -> okflag (F128.f128_add (z a) (z b)) (F128.f128_add_ok (z a) (z b))
  | [ "f128.sub"; a; b ] -> okflag (F128.f128_sub (z a) (z b)) (F128.f128_sub_ok (z a) (z b))
  | [ "f128.mul"; a; b ] -> okflag (F128.f128_mul (z a) (z b)) (F128.f128_mul_ok (z a) (z b))
  | [ "f128.neg"; a ] -> okflag (F128.f128_neg (z a)) (F128.f128_neg_ok (z a))
  | [ "f128.exp"; a; b ] -> fopt (F128.f128_exp fuel (z a) (z b))
  | [ "f128.inv"; a ] -> fopt (F128.f128_inv fuel (z a))
  | [ "f128.div"; a; b ] -> fopt (F128.f128_div fuel (z a) (z b))
  | [ "f128.try_from_u128"; a ] -> opt (F128.f128_try_from_u128 (z a))
  | op :: _ -> "driver-error:unknown-op:" ^ op
  | [] -> "driver-error:empty"

let () = run eval
