(* Hex <-> extracted Z (BinNums) conversion and line-protocol helpers shared by all drivers. *)
open BinNums

let rec pos_of_bits (bits : bool list) : positive =
  (* bits: little-endian, last element is the leading 1 *)
  match bits with
  | [] -> Coq_xH
  | [ _ ] -> Coq_xH
  | b :: rest -> if b then Coq_xI (pos_of_bits rest) else Coq_xO (pos_of_bits rest)

let z_of_hex (s : string) : coq_Z =
  let neg = Stdlib.String.length s > 0 && s.[0] = '-' in
  let s = if neg then Stdlib.String.sub s 1 (Stdlib.String.length s - 1) else s in
  (* little-endian bit list *)
  let bits = ref [] in
  Stdlib.String.iter
    (fun c ->
      let d =
        match c with
        | '0' .. '9' -> Stdlib.Char.code c - 48
        | 'a' .. 'f' -> Stdlib.Char.code c - 87
        | 'A' .. 'F' -> Stdlib.Char.code c - 55
        | _ -> failwith ("bad hex digit in " ^ s)
      in
      (* prepend 4 bits, most significant first, so that the final list is big-endian reversed *)
      bits := (d land 1 = 1) :: (d land 2 = 2) :: (d land 4 = 4) :: (d land 8 = 8) :: !bits)
    s;
  (* !bits is little-endian now (last hex digit's lsb first) *)
  let rec strip = function [] -> [] | l -> (match Stdlib.List.rev l with false :: r -> strip (Stdlib.List.rev r) | _ -> l) in
  let le = strip !bits in
  match le with
  | [] -> Z0
  | _ -> if neg then Zneg (pos_of_bits le) else Zpos (pos_of_bits le)

let hex_of_pos (p : positive) : string =
  let rec bits p acc = match p with Coq_xH -> true :: acc | Coq_xO q -> bits q (false :: acc) | Coq_xI q -> bits q (true :: acc) in
  (* bits returns big-endian? build little-endian list first *)
  let rec le p = match p with Coq_xH -> [ true ] | Coq_xO q -> false :: le q | Coq_xI q -> true :: le q in
  ignore bits;
  let l = le p in
  let n = Stdlib.List.length l in
  let arr = Stdlib.Array.of_list l in
  let nd = (n + 3) / 4 in
  let b = Stdlib.Buffer.create nd in
  for i = nd - 1 downto 0 do
    let d = ref 0 in
    for k = 3 downto 0 do
      let idx = (4 * i) + k in
      d := (!d * 2) + if idx < n && arr.(idx) then 1 else 0
    done;
    Stdlib.Buffer.add_char b "0123456789abcdef".[!d]
  done;
  Stdlib.Buffer.contents b

let hex_of_z (z : coq_Z) : string =
  match z with Z0 -> "0" | Zpos p -> hex_of_pos p | Zneg p -> "-" ^ hex_of_pos p

let z_of_int (n : int) : coq_Z = z_of_hex (Stdlib.Printf.sprintf "%x" n)
let int_of_z (z : coq_Z) : int = int_of_string ("0x" ^ hex_of_z z)

(* bytes: hex string "-" = empty *)
let bytes_of_hex (s : string) : coq_Z list =
  if s = "-" then []
  else Stdlib.List.init (Stdlib.String.length s / 2) (fun i -> z_of_hex (Stdlib.String.sub s (2 * i) 2))

let hex_of_bytes (l : coq_Z list) : string =
  if l = [] then "-" else Stdlib.String.concat "" (Stdlib.List.map (fun z -> Stdlib.Printf.sprintf "%02x" (int_of_z z)) l)

let rec nat_of_int (n : int) : Datatypes.nat = if n <= 0 then Datatypes.O else Datatypes.S (nat_of_int (n - 1))

let split_ws (s : string) : string list = Stdlib.List.filter (fun x -> x <> "") (Stdlib.String.split_on_char ' ' s)

(* main loop: one case per line on stdin, one result per line on stdout *)
let run (eval : string list -> string) : unit =
  try
    while true do
      let line = input_line stdin in
      let out = try eval (split_ws line) with
        | Failure m -> "driver-error:" ^ m
        | Not_found -> "driver-error:not_found"
        | Invalid_argument m -> "driver-error:" ^ m
        | Stack_overflow -> "driver-error:stack_overflow" in
      print_string out; print_newline ()
    done
  with End_of_file -> ()
