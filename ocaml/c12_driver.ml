(* C12 driver: evaluates the extracted codec model (coq/Model/Codec.v) on the cases produced by
   harness/src/bin/c12.rs.
     enc <ty> <args..>  -> hex of the model writer applied to the value built by the model constructor | panic
     dec <ty> <hex>     -> ok <show> rem=<unread> | err eof | err invalid | panic
   The <show> syntax is the one of the harness: hex scalars / lists for the generic types, and the derived
   Debug output (blanks removed, decimal numbers) for the air / fri structures. *)
open Zio
open BinNums
open Codec

(* ---------------------------------------------------------------------------------------- numbers *)
let rec int_of_pos = function Coq_xH -> 1 | Coq_xO p -> 2 * int_of_pos p | Coq_xI p -> (2 * int_of_pos p) + 1
let small_int_of_z = function Z0 -> 0 | Zpos p -> int_of_pos p | Zneg p -> -int_of_pos p
let byte_tab = Stdlib.Array.init 256 (fun i -> z_of_int i)
let z = z_of_hex
let h = hex_of_z

(* decimal rendering of a non-negative Z of any size (via its hex digits) *)
let dec_of_z (v : coq_Z) : string =
  let hx = hex_of_z v in
  if Stdlib.String.length hx <= 14 then string_of_int (small_int_of_z v)
  else begin
    (* little-endian base-10^4 limbs *)
    let limbs = ref [| 0 |] in
    let mul_add m a =
      let l = !limbs in
      let n = Stdlib.Array.length l in
      let carry = ref a in
      let out = Stdlib.Array.make (n + 2) 0 in
      for i = 0 to n - 1 do
        let t = (l.(i) * m) + !carry in
        out.(i) <- t mod 10000;
        carry := t / 10000
      done;
      out.(n) <- !carry mod 10000;
      out.(n + 1) <- !carry / 10000;
      let k = ref (n + 2) in
      while !k > 1 && out.(!k - 1) = 0 do decr k done;
      limbs := Stdlib.Array.sub out 0 !k
    in
    Stdlib.String.iter (fun c -> mul_add 16 (int_of_string ("0x" ^ Stdlib.String.make 1 c))) hx;
    let l = !limbs in
    let n = Stdlib.Array.length l in
    let b = Stdlib.Buffer.create 40 in
    Stdlib.Buffer.add_string b (string_of_int l.(n - 1));
    for i = n - 2 downto 0 do Stdlib.Buffer.add_string b (Stdlib.Printf.sprintf "%04d" l.(i)) done;
    Stdlib.Buffer.contents b
  end

let hexval c = match c with '0' .. '9' -> Stdlib.Char.code c - 48 | 'a' .. 'f' -> Stdlib.Char.code c - 87 | 'A' .. 'F' -> Stdlib.Char.code c - 55 | _ -> failwith "bad hex"
let bytes_of_hex_fast (s : string) : coq_Z list =
  if s = "-" then []
  else begin
    let n = Stdlib.String.length s / 2 in
    let r = ref [] in
    for i = n - 1 downto 0 do r := byte_tab.((16 * hexval s.[2 * i]) + hexval s.[(2 * i) + 1]) :: !r done;
    !r
  end
let hex_of_bytes_fast (l : coq_Z list) : string =
  if l = [] then "-"
  else begin
    let b = Stdlib.Buffer.create 64 in
    Stdlib.List.iter (fun x -> Stdlib.Buffer.add_string b (Stdlib.Printf.sprintf "%02x" (small_int_of_z x))) l;
    Stdlib.Buffer.contents b
  end
let rec length_int l acc = match l with [] -> acc | _ :: r -> length_int r (acc + 1)

(* --------------------------------------------------------------------------------------------- show *)
let join sep f l = Stdlib.String.concat sep (Stdlib.List.map f l)
let sh_bool b = if b then "1" else "0"
let sh_opt f = function None -> "N" | Some v -> "S" ^ f v
let sh_list f l = "[" ^ join "," f l ^ "]"
let sh_pair f g (a, b) = "(" ^ f a ^ "," ^ g b ^ ")"
let sh_triple f g k ((a, b), c) = "(" ^ f a ^ "," ^ g b ^ "," ^ k c ^ ")"
let sh_tup1 f a = "(" ^ f a ^ ",)"
let sh_tup4 f1 f2 f3 f4 (((a, b), c), d) = "(" ^ f1 a ^ "," ^ f2 b ^ "," ^ f3 c ^ "," ^ f4 d ^ ")"
let sh_tup5 f1 f2 f3 f4 f5 ((((a, b), c), d), e) = "(" ^ f1 a ^ "," ^ f2 b ^ "," ^ f3 c ^ "," ^ f4 d ^ "," ^ f5 e ^ ")"
let sh_tup6 f1 f2 f3 f4 f5 f6 (((((a, b), c), d), e), g) = "(" ^ f1 a ^ "," ^ f2 b ^ "," ^ f3 c ^ "," ^ f4 d ^ "," ^ f5 e ^ "," ^ f6 g ^ ")"
let sh_map f g m = "{" ^ join "," (fun (k, v) -> f k ^ ":" ^ g v) m ^ "}"
let sh_set f m = "{" ^ join "," f m ^ "}"

(* derived-Debug rendering of the structures *)
let dbytes (l : coq_Z list) : string =
  let b = Stdlib.Buffer.create 64 in
  Stdlib.Buffer.add_char b '[';
  let first = ref true in
  Stdlib.List.iter (fun x -> if not !first then Stdlib.Buffer.add_char b ','; first := false; Stdlib.Buffer.add_string b (string_of_int (small_int_of_z x))) l;
  Stdlib.Buffer.add_char b ']';
  Stdlib.Buffer.contents b
let d = dec_of_z
let sh_fe = function FE_None -> "None" | FE_Quadratic -> "Quadratic" | FE_Cubic -> "Cubic"
let sh_po o =
  Stdlib.Printf.sprintf "ProofOptions{num_queries:%s,blowup_factor:%s,grinding_factor:%s,field_extension:%s,fri_folding_factor:%s,fri_remainder_max_degree:%s}"
    (d o.po_num_queries) (d o.po_blowup_factor) (d o.po_grinding_factor) (sh_fe o.po_field_extension) (d o.po_fri_folding_factor) (d o.po_fri_remainder_max_degree)
let sh_ti t =
  Stdlib.Printf.sprintf "TraceInfo{main_segment_width:%s,aux_segment_width:%s,num_aux_segment_rands:%s,trace_length:%s,trace_meta:%s}"
    (d t.ti_main) (d t.ti_aux) (d t.ti_rands) (d t.ti_length) (dbytes t.ti_meta)
let sh_ctx c = Stdlib.Printf.sprintf "Context{trace_info:%s,field_modulus_bytes:%s,options:%s}" (sh_ti c.ctx_trace_info) (dbytes c.ctx_modulus) (sh_po c.ctx_options)
let sh_com c = "Commitments(" ^ dbytes c ^ ")"
let sh_qry q = Stdlib.Printf.sprintf "Queries{paths:%s,values:%s}" (dbytes q.q_paths) (dbytes q.q_values)
let sh_ood f = Stdlib.Printf.sprintf "OodFrame{trace_states:%s,lagrange_kernel_trace_states:%s,evaluations:%s}" (dbytes f.ood_trace_states) (dbytes f.ood_lagrange) (dbytes f.ood_evaluations)
let sh_frl l = Stdlib.Printf.sprintf "FriProofLayer{values:%s,paths:%s}" (dbytes l.fl_values) (dbytes l.fl_paths)
let sh_fri p = Stdlib.Printf.sprintf "FriProof{layers:%s,remainder:%s,num_partitions:%s}" (sh_list sh_frl p.fri_layers) (dbytes p.fri_remainder) (d p.fri_num_partitions)
let sh_proof p =
  Stdlib.Printf.sprintf "Proof{context:%s,num_unique_queries:%s,commitments:%s,trace_queries:%s,constraint_queries:%s,ood_frame:%s,fri_proof:%s,pow_nonce:%s,gkr_proof:%s}"
    (sh_ctx p.pr_context) (d p.pr_num_unique_queries) (sh_com p.pr_commitments) (sh_list sh_qry p.pr_trace_queries) (sh_qry p.pr_constraint_queries)
    (sh_ood p.pr_ood_frame) (sh_fri p.pr_fri_proof) (d p.pr_pow_nonce)
    (match p.pr_gkr_proof with None -> "None" | Some b -> "Some(" ^ dbytes b ^ ")")

(* ------------------------------------------------------------------------------ UTF-8 validity oracle *)
(* exactly the well-formed byte sequences of Unicode Table 3-7 (what core::str::from_utf8 accepts) *)
let utf8_valid (l : coq_Z list) : bool =
  let a = Stdlib.Array.of_list (Stdlib.List.map small_int_of_z l) in
  let n = Stdlib.Array.length a in
  let cont i lo hi = i < n && a.(i) >= lo && a.(i) <= hi in
  let rec go i =
    if i >= n then true
    else
      let b = a.(i) in
      if b < 0x80 then go (i + 1)
      else if b >= 0xC2 && b <= 0xDF then cont (i + 1) 0x80 0xBF && go (i + 2)
      else if b = 0xE0 then cont (i + 1) 0xA0 0xBF && cont (i + 2) 0x80 0xBF && go (i + 3)
      else if (b >= 0xE1 && b <= 0xEC) || b = 0xEE || b = 0xEF then cont (i + 1) 0x80 0xBF && cont (i + 2) 0x80 0xBF && go (i + 3)
      else if b = 0xED then cont (i + 1) 0x80 0x9F && cont (i + 2) 0x80 0xBF && go (i + 3)
      else if b = 0xF0 then cont (i + 1) 0x90 0xBF && cont (i + 2) 0x80 0xBF && cont (i + 3) 0x80 0xBF && go (i + 4)
      else if b >= 0xF1 && b <= 0xF3 then cont (i + 1) 0x80 0xBF && cont (i + 2) 0x80 0xBF && cont (i + 3) 0x80 0xBF && go (i + 4)
      else if b = 0xF4 then cont (i + 1) 0x80 0x8F && cont (i + 2) 0x80 0xBF && cont (i + 3) 0x80 0xBF && go (i + 4)
      else false
  in
  go 0

(* ------------------------------------------------------------------------------------------ decoding *)
let res (show : 'a -> string) (r : ('a * bytes) coq_Result) : string =
  match r with
  | Ok (v, rest) -> "ok " ^ show v ^ " rem=" ^ string_of_int (length_int rest 0)
  | Err Eof -> "err eof"
  | Err Invalid -> "err invalid"
  | Panic -> "panic"

let zltb = BinInt.Z.ltb
let n8 = nat_of_int 8
let z4 = z_of_int 4
let r_vec_u8 = read_vec_of read_u8

let dec ty (bs : coq_Z list) : string =
  match ty with
  | "u8" -> res h (read_u8 bs)
  | "u16" -> res h (read_u16 bs)
  | "u32" -> res h (read_u32 bs)
  | "u64" -> res h (read_u64 bs)
  | "u128" -> res h (read_u128 bs)
  | "usize" -> res h (read_usize bs)
  | "bool" -> res sh_bool (read_bool bs)
  | "opt_u32" -> res (sh_opt h) (read_option read_u32 bs)
  | "vec_u16" -> res (sh_list h) (read_vec_of read_u16 bs)
  | "vec_vec_u8" -> res (sh_list (sh_list h)) (read_vec_of r_vec_u8 bs)
  | "vec_opt_u64" -> res (sh_list (sh_opt h)) (read_vec_of (read_option read_u64) bs)
  | "opt_vec_u8" -> res (sh_opt (sh_list h)) (read_option r_vec_u8 bs)
  | "string" -> res hex_of_bytes_fast (read_string utf8_valid bs)
  | "arr4_u16" -> res (sh_list h) (read_arr read_u16 z4 bs)
  | "tup" -> res (sh_triple h h sh_bool) (read_triple read_u8 read_u32 read_bool bs)
  | "unit" -> res (fun () -> "()") (read_unit bs)
  | "tup1" -> res (sh_tup1 h) (read_tup1 read_u16 bs)
  | "tup2" -> res (sh_pair h h) (read_pair read_u16 read_u8 bs)
  | "tup4" -> res (sh_tup4 h h h h) (read_tup4 read_u8 read_u16 read_u32 read_u64 bs)
  | "tup5" -> res (sh_tup5 h h h h h) (read_tup5 read_u8 read_u16 read_u32 read_u64 read_u128 bs)
  | "tup6" -> res (sh_tup6 h h h h h h) (read_tup6 read_u8 read_u16 read_u32 read_u64 read_u128 read_usize bs)
  | "map_u32_bytes" -> res (sh_map h (sh_list h)) (read_map zltb read_u32 r_vec_u8 bs)
  | "set_u64" -> res (sh_set h) (read_set zltb read_u64 bs)
  | "f64" -> res h (read_f64 bs)
  | "f62" -> res h (read_f62 bs)
  | "f128" -> res h (read_f128 bs)
  | "q64" -> res (sh_pair h h) (read_quad read_f64 bs)
  | "q62" -> res (sh_pair h h) (read_quad read_f62 bs)
  | "q128" -> res (sh_pair h h) (read_quad read_f128 bs)
  | "c64" -> res (sh_triple h h h) (read_cube read_f64 bs)
  | "c62" -> res (sh_triple h h h) (read_cube read_f62 bs)
  | "dig32" -> res hex_of_bytes_fast (read_digest (nat_of_int 32) bs)
  | "dig24" -> res hex_of_bytes_fast (read_digest (nat_of_int 24) bs)
  | "edig" -> res (sh_list h) (read_edigest bs)
  | "fe" -> res sh_fe (read_FieldExtension bs)
  | "po" -> res sh_po (read_ProofOptions bs)
  | "ti" -> res sh_ti (read_TraceInfo bs)
  | "ctx" -> res sh_ctx (read_Context bs)
  | "com" -> res sh_com (read_Commitments bs)
  | "qry" -> res sh_qry (read_Queries bs)
  | "ood" -> res sh_ood (read_OodFrame bs)
  | "fri" -> res sh_fri (read_FriProof bs)
  | "proof" -> res sh_proof (read_Proof bs)
  | _ -> "driver-error:unknown-type:" ^ ty

(* ------------------------------------------------------------------------------------------ encoding *)
let hx = hex_of_bytes_fast
let bl = bytes_of_hex_fast
let list_of_commas f s = if s = "-" then [] else Stdlib.List.map f (Stdlib.String.split_on_char ',' s)
let opt_tok f s = if s = "N" then None else Some (f (Stdlib.String.sub s 1 (Stdlib.String.length s - 1)))
let fe_of = function "1" -> FE_None | "2" -> FE_Quadratic | "3" -> FE_Cubic | s -> failwith ("fe " ^ s)

(* token cursor *)
let next (c : string list ref) : string = match !c with [] -> failwith "missing token" | x :: r -> c := r; x

let modulus_of = function
  | "f64" -> MachInt.to_le_bytes n8 coq_M64
  | "f62" -> MachInt.to_le_bytes n8 coq_M62
  | "f128" -> MachInt.to_le_bytes (nat_of_int 16) coq_M128
  | s -> failwith ("field " ^ s)

exception Panicked
let unwrap = function Ok v -> v | _ -> raise Panicked
let p_po c = let nq = z (next c) in let bf = z (next c) in let gf = z (next c) in let fe = fe_of (next c) in let ff = z (next c) in let rd = z (next c) in
  unwrap (coq_ProofOptions_new nq bf gf fe ff rd)
let p_ti c = let m = z (next c) in let a = z (next c) in let r = z (next c) in let l = z (next c) in let meta = bl (next c) in
  unwrap (coq_TraceInfo_new_multi_segment m a r l meta)
let p_ctx c = let f = next c in let t = p_ti c in let o = p_po c in unwrap (coq_Context_new (modulus_of f) t o)
let p_qry c = let v = bl (next c) in let p = bl (next c) in { q_paths = p; q_values = v }
let p_ood c = let t = bl (next c) in let l = bl (next c) in let e = bl (next c) in { ood_trace_states = t; ood_lagrange = l; ood_evaluations = e }
let p_fri c =
  let np = z (next c) in
  let rem = bl (next c) in
  let n = small_int_of_z (z (next c)) in
  let layers = Stdlib.List.init n (fun _ -> let v = bl (next c) in let p = bl (next c) in { fl_values = v; fl_paths = p }) in
  { fri_layers = layers; fri_remainder = rem; fri_num_partitions = np }
let p_proof c =
  let ctx = p_ctx c in
  let nuq = z (next c) in
  let com = bl (next c) in
  let ntq = small_int_of_z (z (next c)) in
  let tq = Stdlib.List.init ntq (fun _ -> p_qry c) in
  let cq = p_qry c in
  let ood = p_ood c in
  let fri = p_fri c in
  let nonce = z (next c) in
  let gkr = (match next c with "N" -> None | _ -> Some (bl (next c))) in
  { pr_context = ctx; pr_num_unique_queries = nuq; pr_commitments = com; pr_trace_queries = tq; pr_constraint_queries = cq;
    pr_ood_frame = ood; pr_fri_proof = fri; pr_pow_nonce = nonce; pr_gkr_proof = gkr }

let guard ok bytes = if ok then hx bytes else "panic"

let enc ty (args : string list) : string =
  let c = ref args in
  try
    match ty with
    | "u8" -> hx (write_u8 (z (next c)))
    | "u16" -> hx (write_u16 (z (next c)))
    | "u32" -> hx (write_u32 (z (next c)))
    | "u64" -> hx (write_u64 (z (next c)))
    | "u128" -> hx (write_u128 (z (next c)))
    | "usize" -> hx (write_usize (z (next c)))
    | "bool" -> hx (write_bool (next c = "1"))
    | "opt_u32" -> hx (write_option write_u32 (opt_tok z (next c)))
    | "vec_u16" -> hx (write_vec write_u16 (list_of_commas z (next c)))
    | "vec_vec_u8" -> hx (write_vec (write_vec write_u8) (Stdlib.List.map bl args))
    | "vec_opt_u64" -> hx (write_vec (write_option write_u64) (Stdlib.List.map (opt_tok z) args))
    | "opt_vec_u8" -> hx (write_option (write_vec write_u8) (match next c with "N" -> None | _ -> Some (bl (next c))))
    | "string" -> hx (write_string (bl (next c)))
    | "arr4_u16" -> hx (write_arr write_u16 (list_of_commas z (next c)))
    | "tup" -> let a = z (next c) in let b = z (next c) in let t = next c = "1" in hx (write_triple write_u8 write_u32 write_bool ((a, b), t))
    | "unit" -> hx (write_unit ())
    | "tup1" -> hx (write_tup1 write_u16 (z (next c)))
    | "tup2" -> let a = z (next c) in let b = z (next c) in hx (write_pair write_u16 write_u8 (a, b))
    | "tup4" -> let a = z (next c) in let b = z (next c) in let d = z (next c) in let e = z (next c) in
      hx (write_tup4 write_u8 write_u16 write_u32 write_u64 (((a, b), d), e))
    | "tup5" -> let a = z (next c) in let b = z (next c) in let d = z (next c) in let e = z (next c) in let f = z (next c) in
      hx (write_tup5 write_u8 write_u16 write_u32 write_u64 write_u128 ((((a, b), d), e), f))
    | "tup6" -> let a = z (next c) in let b = z (next c) in let d = z (next c) in let e = z (next c) in let f = z (next c) in let g = z (next c) in
      hx (write_tup6 write_u8 write_u16 write_u32 write_u64 write_u128 write_usize (((((a, b), d), e), f), g))
    | "slice_u16" -> hx (write_slice write_u16 (list_of_commas z (next c)))
    | "str" -> hx (write_str (bl (next c)))
    | "map_u32_bytes" ->
      let kv s = (match Stdlib.String.split_on_char ':' s with [ k; v ] -> (z k, bl v) | _ -> failwith "kv") in
      hx (write_map write_u32 (write_vec write_u8) (Stdlib.List.map kv args))
    | "set_u64" -> hx (write_set write_u64 (list_of_commas z (next c)))
    | "f64" -> hx (write_f64 (z (next c)))
    | "f62" -> hx (write_f62 (z (next c)))
    | "f128" -> hx (write_f128 (z (next c)))
    | "q64" -> let a = z (next c) in let b = z (next c) in hx (write_quad write_f64 (a, b))
    | "q62" -> let a = z (next c) in let b = z (next c) in hx (write_quad write_f62 (a, b))
    | "q128" -> let a = z (next c) in let b = z (next c) in hx (write_quad write_f128 (a, b))
    | "c64" -> let a = z (next c) in let b = z (next c) in let e = z (next c) in hx (write_cube write_f64 ((a, b), e))
    | "c62" -> let a = z (next c) in let b = z (next c) in let e = z (next c) in hx (write_cube write_f62 ((a, b), e))
    | "dig32" | "dig24" -> hx (write_digest (bl (next c)))
    | "edig" -> hx (write_edigest (Stdlib.List.map z args))
    | "fe" -> hx (write_FieldExtension (fe_of (next c)))
    | "po" -> hx (write_ProofOptions (p_po c))
    | "ti" -> let t = p_ti c in guard (write_TraceInfo_ok t) (write_TraceInfo t)
    | "ti_new" -> let w = z (next c) in let l = z (next c) in let t = unwrap (coq_TraceInfo_new w l) in guard (write_TraceInfo_ok t) (write_TraceInfo t)
    | "ti_meta" -> let w = z (next c) in let l = z (next c) in let m = bl (next c) in
      let t = unwrap (coq_TraceInfo_with_meta w l m) in guard (write_TraceInfo_ok t) (write_TraceInfo t)
    | "ctx" -> let x = p_ctx c in guard (write_Context_ok x) (write_Context x)
    | "com" -> let x = bl (next c) in guard (write_Commitments_ok x) (write_Commitments x)
    | "qry" -> hx (write_Queries (p_qry c))
    | "ood" -> hx (write_OodFrame (p_ood c))
    | "fri" -> hx (write_FriProof (p_fri c))
    | "proof" -> let p = p_proof c in guard (write_Proof_ok p) (write_Proof p)
    | _ -> "driver-error:unknown-type:" ^ ty
  with Panicked -> "panic"

let eval = function
  | "enc" :: ty :: args -> enc ty args
  | [ "dec"; ty; hex ] -> dec ty (bl hex)
  | op :: _ -> "driver-error:unknown-op:" ^ op
  | [] -> "driver-error:empty"

let () = run eval
