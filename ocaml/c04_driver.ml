(* C04 driver: evaluates the extracted transcript model.
   Cases (one per line):
     tr  <p|v> <tag> <main> <aux> <rands> <tm> <ta> <am> <aa> <cc> <ext> <layers> <grind> <q>
           -> the model's coin operations for that side, as tokens
     chk <p|v> <tag> <12 shape numbers> | <tokens...>
           -> "ok" iff Transcript.log_ok accepts the observed (abstracted) log for that shape
     ctx <eb> <main> <aux> <rands> <len> <metahex> <modulushex> <queries> <blowup> <grinding> <ext> <fold> <rem>
           -> Context::to_elements as comma separated hex integers
     trp <p|v> <tag> <shape> | <tokens...>
           -> "prefix-ok" iff the tokens are a prefix of the model's token list (a verifier that stopped early)
   Shape: 12 numbers + <lagrange 0|1> <gkr draws> <log2 n>.
   Tokens: N:CTX+PUB  R:T<i> R:CC R:OT R:OE R:F<i> R:REM  D<k>.<deg>[@G|@A]  P:NONCE  I:NONCE:<num>
   (@G / @A: the drawn value was observed in use as GKR randomness / as ordinary auxiliary randomness; the model prints
   them for the draws it labels GkrRand / AuxRand when the shape has a Lagrange kernel column) *)
open Zio
open Transcript

let nat s = nat_of_int (int_of_string s)
let rec int_of_nat = function Datatypes.O -> 0 | Datatypes.S n -> 1 + int_of_nat n

let shape_of = function
  | [ a; b; c; d; e; f; g; h; i; j; k; l; lag; gk; ln ] ->
      { sh_main_width = nat a; sh_aux_width = nat b; sh_aux_rands = nat c; sh_trans_main = nat d; sh_trans_aux = nat e;
        sh_assert_main = nat f; sh_assert_aux = nat g; sh_comp_cols = nat h; sh_ext_deg = nat i; sh_fri_layers = nat j;
        sh_grinding = nat k; sh_queries = nat l;
        sh_lagrange = (if lag = "1" then Some (nat gk, nat ln) else None) }
  | _ -> failwith "shape"

let sym_tok = function
  | CtxElems -> "CTX" | PubInputs -> "PUB"
  | TraceCommitment i -> "T" ^ string_of_int (int_of_nat i)
  | ConstraintCommitment -> "CC" | HashOodTraceFrame -> "OT" | HashOodConstraintEvals -> "OE"
  | FriLayerCommitment i -> "F" ^ string_of_int (int_of_nat i)
  | RemainderCommitment -> "REM" | PowNonce -> "NONCE"

let ev_tok = function
  | EvNew l -> "N:" ^ Stdlib.String.concat "+" (Stdlib.List.map sym_tok l)
  | EvReseed d -> "R:" ^ sym_tok d
  | EvDraw (k, d) -> Stdlib.Printf.sprintf "D%d.%d" (int_of_nat k) (int_of_nat d)
  | EvCheckPow n -> "P:" ^ sym_tok n
  | EvDrawInts (n, num) -> Stdlib.Printf.sprintf "I:%s:%d" (sym_tok n) (int_of_nat num)

let tail s k = Stdlib.String.sub s k (Stdlib.String.length s - k)

(* model side: tokens of a labelled list; use tags only for Lagrange shapes *)
let step_tok lag (e, lab) =
  match (e, lab) with
  | EvDraw _, Some (GkrRand _) when lag -> ev_tok e ^ "@G"
  | EvDraw _, Some (AuxRand _) when lag -> ev_tok e ^ "@A"
  | _ -> ev_tok e

(* observed side: split a token into the event token and the observed use *)
let split_use t =
  match Stdlib.String.index_opt t '@' with
  | None -> (t, UseUnobserved)
  | Some i -> (
      let u = tail t (i + 1) in
      (Stdlib.String.sub t 0 i, match u with "G" -> UseGkr | "A" -> UseAux | _ -> failwith ("token:" ^ t)))

let sym_of s =
  match s with
  | "CTX" -> CtxElems | "PUB" -> PubInputs | "CC" -> ConstraintCommitment | "OT" -> HashOodTraceFrame
  | "OE" -> HashOodConstraintEvals | "REM" -> RemainderCommitment | "NONCE" -> PowNonce
  | _ when Stdlib.String.length s >= 2 && s.[0] = 'T' -> TraceCommitment (nat (tail s 1))
  | _ when Stdlib.String.length s >= 2 && s.[0] = 'F' -> FriLayerCommitment (nat (tail s 1))
  | _ -> failwith ("token:" ^ s)

let ev_of t =
  let n = Stdlib.String.length t in
  if n >= 2 && Stdlib.String.sub t 0 2 = "N:" then
    EvNew (Stdlib.List.map sym_of (Stdlib.String.split_on_char '+' (tail t 2)))
  else if n >= 2 && Stdlib.String.sub t 0 2 = "R:" then EvReseed (sym_of (tail t 2))
  else if n >= 2 && Stdlib.String.sub t 0 2 = "P:" then EvCheckPow (sym_of (tail t 2))
  else if n >= 2 && Stdlib.String.sub t 0 2 = "I:" then (
    match Stdlib.String.split_on_char ':' t with
    | [ _; s; num ] -> EvDrawInts (sym_of s, nat num)
    | _ -> failwith ("token:" ^ t))
  else if n >= 1 && t.[0] = 'D' then (
    match Stdlib.String.split_on_char '.' (tail t 1) with
    | [ k; d ] -> EvDraw (nat k, nat d)
    | _ -> failwith ("token:" ^ t))
  else failwith ("token:" ^ t)

let side_of = function "p" -> false | "v" -> true | s -> failwith ("side:" ^ s)

let rec split_bar acc = function
  | [] -> (Stdlib.List.rev acc, [])
  | "|" :: r -> (Stdlib.List.rev acc, r)
  | x :: r -> split_bar (x :: acc) r

let eval = function
  | "tr" :: side :: _tag :: sh ->
      let s = shape_of sh in
      let l = if side_of side then verifier s else prover s in
      Stdlib.String.concat " " (Stdlib.List.map (step_tok (s.sh_lagrange <> None)) l)
  | "trp" :: side :: _tag :: rest ->
      let sh, toks = split_bar [] rest in
      let s = shape_of sh in
      let l = if side_of side then verifier s else prover s in
      let m = Stdlib.List.map (step_tok (s.sh_lagrange <> None)) l in
      let rec pre a b = match (a, b) with [], _ -> true | x :: a', y :: b' -> x = y && pre a' b' | _ :: _, [] -> false in
      if pre toks m then "prefix-ok" else "prefix-bad"
  | "chk" :: side :: _tag :: rest -> (
      let sh, toks = split_bar [] rest in
      let s = shape_of sh in
      match (try Some (Stdlib.List.map (fun t -> let e, u = split_use t in (ev_of e, u)) toks) with Failure _ -> None) with
      | None -> "bad:unidentified-token"
      | Some eus ->
          let evs = Stdlib.List.map fst eus and us = Stdlib.List.map snd eus in
          if log_ok_uses (side_of side) s evs us then "ok" else "bad")
  | [ "ctx"; eb; main; aux; rands; len; meta; modulus; q; blowup; grind; ext; fold; rem ] ->
      let z = z_of_hex in
      let ti = { ti_main = z main; ti_aux = z aux; ti_rands = z rands; ti_len = z len; ti_meta = bytes_of_hex meta } in
      let o = { o_queries = z q; o_blowup = z blowup; o_grinding = z grind; o_ext = z ext; o_fold = z fold; o_rem = z rem } in
      let c = { c_ti = ti; c_modulus = bytes_of_hex modulus; c_opts = o } in
      Stdlib.String.concat "," (Stdlib.List.map hex_of_z (context_elems (nat eb) c))
  | op :: _ -> "driver-error:unknown-op:" ^ op
  | [] -> "driver-error:empty"

let () = Zio.run eval
