(* C18 driver: evaluates the extracted security-estimate / policy models on the harness's case lines.
   The proven estimate's float operations are passed as arguments (OCaml floats = IEEE binary64, libm log2/pow).
   Output per line:
     conj   -> "<level>" | "<level> !ok"   (!ok: a checked operation of the generated term fails: debug build panics)
     proven -> "<level>" | "panic"
     bits   -> "<n>" | "<n> !ok"
     verify -> "ok" | "err:<Variant>(args)" | "panic" | "rest" (the outcome is whatever the unmodelled remainder returns) *)
open Zio
open BinNums

(* ---- fast conversions ---- *)
let rec pos_of_int (n : int) : positive =
  if n = 1 then Coq_xH else if n land 1 = 1 then Coq_xI (pos_of_int (n lsr 1)) else Coq_xO (pos_of_int (n lsr 1))

let z_of_int (n : int) : coq_Z = if n = 0 then Z0 else if n > 0 then Zpos (pos_of_int n) else Zneg (pos_of_int (-n))

let rec int_of_pos (p : positive) : int =
  match p with Coq_xH -> 1 | Coq_xO q -> 2 * int_of_pos q | Coq_xI q -> (2 * int_of_pos q) + 1

let rec pos_bits (p : positive) : int = match p with Coq_xH -> 1 | Coq_xO q | Coq_xI q -> 1 + pos_bits q

let int_of_z (z : coq_Z) : int = match z with Z0 -> 0 | Zpos p -> int_of_pos p | Zneg p -> -int_of_pos p

let dec_of_z (z : coq_Z) : string =
  match z with
  | Z0 -> "0"
  | Zpos p when pos_bits p <= 62 -> string_of_int (int_of_pos p)
  | Zneg p when pos_bits p <= 62 -> string_of_int (-int_of_pos p)
  | _ -> "0x" ^ hex_of_z z

(* `x as f64` for an unsigned integer: exact below 2^53, correctly rounded above (float_of_string on a hex literal) *)
let float_of_z (z : coq_Z) : float =
  match z with
  | Z0 -> 0.0
  | Zpos p when pos_bits p <= 53 -> float_of_int (int_of_pos p)
  | Zneg p when pos_bits p <= 53 -> -.float_of_int (int_of_pos p)
  | Zpos _ -> Stdlib.float_of_string ("0x" ^ hex_of_z z)
  | Zneg _ -> -.Stdlib.float_of_string ("0x" ^ hex_of_z (BinInt.Z.opp z))

(* `x as u64` for an f64: saturating, NaN -> 0 *)
let u64_max = z_of_hex "ffffffffffffffff"

let u64_of_float (f : float) : coq_Z =
  if f <> f || f <= 0.0 then Z0
  else if f >= 18446744073709551616.0 then u64_max
  else if f < 4611686018427387904.0 then z_of_int (int_of_float f)
  else (* 2^62 <= f < 2^64: f is a multiple of 2^10 *)
    BinInt.Z.mul (z_of_int (int_of_float (f /. 1024.0))) (z_of_int 1024)

let proven_level cr c =
  SecurityModel.proven_level ( +. ) ( -. ) ( *. ) ( /. ) ( ** ) ( ~-. ) Stdlib.sqrt Stdlib.ceil Stdlib.Float.log2 float_of_z
    u64_of_float 0.5 0.25 1.5 cr c

let zi s = z_of_int (int_of_string s)

let ext_of = function "1" -> Security.FeNone | "2" -> Security.FeQuadratic | "3" -> Security.FeCubic | s -> failwith ("degree " ^ s)

let options q b g deg fold rem : Security.coq_ProofOptions =
  { Security.po_num_queries = zi q; po_blowup_factor = zi b; po_grinding_factor = zi g; po_field_extension = ext_of deg;
    po_fri_folding_factor = zi fold; po_fri_remainder_max_degree = zi rem }

let context modhex tracelog o : SecurityModel.coq_Context =
  { SecurityModel.cx_trace_length = BinInt.Z.pow (z_of_int 2) (zi tracelog); cx_modulus = bytes_of_hex modhex; cx_options = o }

let air_of = function
  | "f62" -> SecurityModel.f62_desc
  | "f64" -> SecurityModel.f64_desc
  | "f128" -> SecurityModel.f128_desc
  | s -> failwith ("air " ^ s)

let show_err (e : SecurityModel.coq_VerifierError) =
  match e with
  | SecurityModel.InconsistentBaseField -> "err:InconsistentBaseField"
  | SecurityModel.UnsupportedFieldExtension d -> Stdlib.Printf.sprintf "err:UnsupportedFieldExtension(%s)" (dec_of_z d)
  | SecurityModel.InsufficientConjecturedSecurity (a, b) ->
      Stdlib.Printf.sprintf "err:InsufficientConjecturedSecurity(%s,%s)" (dec_of_z a) (dec_of_z b)
  | SecurityModel.InsufficientProvenSecurity (a, b) ->
      Stdlib.Printf.sprintf "err:InsufficientProvenSecurity(%s,%s)" (dec_of_z a) (dec_of_z b)
  | SecurityModel.UnacceptableProofOptions -> "err:UnacceptableProofOptions"

let show_outcome = function SecurityModel.Accept -> "ok" | SecurityModel.Reject e -> show_err e | SecurityModel.Panic -> "panic"

let rec parse_set k l =
  if k = 0 then []
  else
    match l with
    | q :: b :: g :: d :: f :: r :: tl -> options q b g d f r :: parse_set (k - 1) tl
    | _ -> failwith "option set"

let eval = function
  | [ "conj"; m; tl; q; b; g; deg; cr ] ->
      let c = context m tl (options q b g deg "8" "127") in
      (match SecurityModel.conjectured_level (zi cr) c with
      | Some v -> dec_of_z v
      | None -> dec_of_z (SecurityModel.conjectured_level_raw (zi cr) c) ^ " !ok")
  | [ "proven"; m; tl; q; b; g; deg; cr ] ->
      let c = context m tl (options q b g deg "8" "127") in
      (match proven_level (zi cr) c with Some v -> dec_of_z v | None -> "panic")
  | [ "bits"; m ] ->
      let l = bytes_of_hex m in
      dec_of_z (SecurityModel.num_modulus_bits l) ^ if SecurityModel.num_modulus_bits_ok l then "" else " !ok"
  | "verify" :: air :: cr :: m :: tl :: q :: b :: g :: deg :: fold :: rem :: rest :: mode ->
      let c = context m tl (options q b g deg fold rem) in
      let acc =
        match mode with
        | [ "conj"; l ] -> SecurityModel.MinConjecturedSecurity (zi l)
        | [ "proven"; l ] -> SecurityModel.MinProvenSecurity (zi l)
        | "set" :: k :: l -> SecurityModel.OptionSet (parse_set (int_of_string k) l)
        | _ -> failwith "mode"
      in
      let run r = SecurityModel.verify_decision (air_of air) (SecurityModel.conjectured_level (zi cr)) (proven_level (zi cr)) acc c r in
      let a = run SecurityModel.Accept and p = run SecurityModel.Panic in
      if a = p then show_outcome a else if rest = "ok" then "ok" else "rest"
  | [ "qbase"; b; tl; full ] ->
      (* premises of C18_proven_monotone_queries on binary64, exactly where the code uses them: for every m tried,
         0 < base = 1 - theta_plus(m) <= 1, and (full = 1) q |-> base ** q is non-increasing and q |-> log2 (base ** q) is
         non-increasing over the integer exponents q = 1..255 *)
      let tlz = BinInt.Z.pow (z_of_int 2) (zi tl) in
      let m_max = int_of_z (SecurityModel.compute_upper_m ( +. ) ( *. ) ( /. ) Stdlib.sqrt Stdlib.ceil float_of_z u64_of_float 0.25 tlz) in
      let lo = ref infinity and hi = ref neg_infinity and bad = ref 0 and chain = ref 0 and nchain = ref 0 in
      for m = 3 to m_max - 1 do
        let x = SecurityModel.psm_query_base ( +. ) ( -. ) ( *. ) ( /. ) Stdlib.sqrt Stdlib.ceil float_of_z 0.5 (zi b) tlz (z_of_int m) in
        if not (x > 0.0 && x <= 1.0) then incr bad;
        if x < !lo then lo := x;
        if x > !hi then hi := x;
        if full = "1" then begin
          let prev = ref (x ** 1.0) in
          for q = 2 to 255 do
            let cur = x ** float_of_int q in
            incr nchain;
            if not (cur <= !prev && Stdlib.Float.log2 cur <= Stdlib.Float.log2 !prev) then incr chain;
            prev := cur
          done
        end
      done;
      Stdlib.Printf.sprintf "n=%d bad=%d min=%.6f max=%.6f chain_n=%d chain_bad=%d" (max 0 (m_max - 3)) !bad !lo !hi !nchain !chain
  | op :: _ -> "driver-error:unknown-op:" ^ op
  | [] -> "driver-error:empty"

let () = run eval
