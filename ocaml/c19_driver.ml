(* C19 driver: runs a coin history on the extracted Gallina model (coq/Model/Coin.v).
   Case:   <hasher> <field> <seed elems|-> <op>*        (all numbers hex; see harness/src/bin/c19.rs)
   Output: one token per op:  u | Dok:<c,..> | Derr | Dpanic | Iok:<v,..> | Ierr | Ipanic | z<dec> | g:<nonce|none> *)
open Zio

let z = z_of_hex
let h = hex_of_z
let split c s = Stdlib.String.split_on_char c s
let zlist s = if s = "-" then [] else Stdlib.List.map z (split ',' s)
let hexlist l = if l = [] then "-" else Stdlib.String.concat "," (Stdlib.List.map h l)

let fkind field deg =
  let d = nat_of_int deg in
  match field with
  | "f64" -> Coin.fk_f64 d
  | "f62" -> Coin.fk_f62 d
  | "f128" -> Coin.fk_f128 d
  | _ -> failwith "field"

let ebytes field = nat_of_int (match field with "f128" -> 16 | _ -> 8)

type 'd pop = Model of 'd Coin.op | Grind of BinNums.coq_Z * int

let parse_op (mkd : BinNums.coq_Z list -> 'd) field (tok : string) : 'd pop =
  match split ':' tok with
  | [ "R"; ws ] -> Model (Coin.OpReseed (mkd (zlist ws)))
  | [ "D"; d ] -> Model (Coin.OpDraw (fkind field (int_of_string ("0x" ^ d))))
  | [ "I"; n; dom; nonce ] -> Model (Coin.OpInts (z n, z dom, z nonce))
  | [ "Z"; v ] -> Model (Coin.OpLz (z v))
  | [ "G"; gf; fuel ] -> Grind (z gf, int_of_string ("0x" ^ fuel))
  | _ -> failwith ("bad op " ^ tok)

let show_out (o : Coin.out) : string =
  match o with
  | Coin.OutUnit -> "u"
  | Coin.OutElem (Coin.Ok e) -> "Dok:" ^ hexlist e
  | Coin.OutElem Coin.Err -> "Derr"
  | Coin.OutElem Coin.Panic -> "Dpanic"
  | Coin.OutInts (Coin.Ok v) -> "Iok:" ^ hexlist v
  | Coin.OutInts Coin.Err -> "Ierr"
  | Coin.OutInts Coin.Panic -> "Ipanic"
  | Coin.OutLz k -> "z" ^ string_of_int (int_of_z k)

(* generic history runner over a step function and a grind function of the instantiation *)
let run_hist step grind coin0 ops =
  let coin = ref coin0 in
  let outs =
    Stdlib.List.map
      (fun o ->
        match o with
        | Model m ->
            let c', out = step !coin m in
            coin := c';
            show_out out
        | Grind (gf, fuel) -> (
            match grind (nat_of_int fuel) !coin gf with Some n -> "g:" ^ h n | None -> "g:none"))
      ops
  in
  Stdlib.String.concat " " outs

let eval = function
  | hasher :: field :: seed :: ops -> (
      let elems = zlist seed in
      match hasher with
      | "toy" ->
          let mkd = function w :: _ -> w | [] -> failwith "toy digest" in
          run_hist Coin.toy_coin_step Coin.toy_grind
            (Coin.toy_coin_new (ebytes field) elems)
            (Stdlib.List.map (parse_op mkd field) ops)
      | "w0" | "w1" | "w2" | "w3" | "w4" | "w5" ->
          (* w5: gap-candidate mode, the Gallina mode number encodes the base field (5 f64, 6 f62, 7 f128) *)
          let mode = if hasher = "w5" then z (match field with "f64" -> "5" | "f62" -> "6" | _ -> "7")
                     else z (Stdlib.String.sub hasher 1 1) in
          run_hist (Coin.wide_step mode) (Coin.wide_grind mode)
            (Coin.wide_coin_new mode (ebytes field) elems)
            (Stdlib.List.map (parse_op (fun l -> l) field) ops)
      | _ -> "driver-error:unknown-hasher")
  | _ -> "driver-error:short"

let () = run eval
