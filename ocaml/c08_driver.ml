(* C08 driver: evaluates the extracted model of QuadExtension / CubeExtension (Model/ExtField.v over the generated
   ExtensibleField bodies, base field = zp_ops P64/P62/P128 on canonical residues).
   Case:   "<fld>.<op> <hex args...>"   fld in q64 q62 q128 c64 c62
   Output: coefficients in hex separated by blanks | "panic" | "err" | "1"/"0" | hex bytes. *)
open Zio

let z = z_of_hex
let h = hex_of_z

type fld =
  | Quad of BinNums.coq_Z FieldOps.coq_FOps * BinNums.coq_Z ExtField.coq_Ext2Impl * BinNums.coq_Z * int
  | Cube of BinNums.coq_Z FieldOps.coq_FOps * BinNums.coq_Z ExtField.coq_Ext3Impl * BinNums.coq_Z * int

let fld_of = function
  | "q64" -> Quad (C08.o64, C08.q64, C08.p64, 8)
  | "q62" -> Quad (C08.o62, C08.q62, C08.p62, 8)
  | "q128" -> Quad (C08.o128, C08.q128, C08.p128, 16)
  | "c64" -> Cube (C08.o64, C08.c64, C08.p64, 8)
  | "c62" -> Cube (C08.o62, C08.c62, C08.p62, 8)
  | s -> failwith ("unknown-field:" ^ s)

let q2 = function [ a; b ] -> (z a, z b) | _ -> failwith "arity2"
let q3 = function [ a; b; c ] -> ((z a, z b), z c) | _ -> failwith "arity3"
let s2 (a, b) = h a ^ " " ^ h b
let s3 ((a, b), c) = h a ^ " " ^ h b ^ " " ^ h c
let o2 = function Some v -> s2 v | None -> "panic"
let o3 = function Some v -> s3 v | None -> "panic"
let rec take n l = if n = 0 then [] else match l with x :: t -> x :: take (n - 1) t | [] -> failwith "arity"
let rec drop n l = if n = 0 then l else match l with _ :: t -> drop (n - 1) t | [] -> failwith "arity"
let bool01 b = if b then "1" else "0"
let comma s = Stdlib.String.split_on_char ',' s
let lst f l = if l = [] then "-" else Stdlib.String.concat " " (Stdlib.List.map f l)
let dash = function [ "-" ] -> [] | l -> l

let eval_quad o i p nb op args =
  let open ExtField in
  match (op, args) with
  | "add", _ -> s2 (q_add o (q2 (take 2 args)) (q2 (drop 2 args)))
  | "sub", _ -> s2 (q_sub o (q2 (take 2 args)) (q2 (drop 2 args)))
  | "mul", _ -> s2 (q_mul i (q2 (take 2 args)) (q2 (drop 2 args)))
  | "div", _ -> o2 (q_div o i true (q2 (take 2 args)) (q2 (drop 2 args)))
  | "eq", _ -> bool01 (q_eqb o (q2 (take 2 args)) (q2 (drop 2 args)))
  | "neg", _ -> s2 (q_neg o (q2 args))
  | "double", _ -> s2 (q_double o (q2 args))
  | "square", _ -> s2 (q_square i (q2 args))
  | "inv", _ -> o2 (q_inv o i true (q2 args))
  | "conj", _ -> s2 (q_conjugate i (q2 args))
  | "mul_base", [ a; b; c ] -> s2 (q_mul_base i (z a, z b) (z c))
  | "from_base", [ a ] -> s2 (q_from_base o (z a))
  | "exp", [ a; b; e ] -> s2 (q_exp o i (z a, z b) (z e))
  | "base_element", [ a; b; k ] -> (match q_base_element (z a, z b) (nat_of_int (int_of_string k)) with Some v -> h v | None -> "panic")
  | "as_base", l -> lst h (q_slice_as_base (Stdlib.List.map (fun t -> q2 (comma t)) (dash l)))
  | "from_base_slice", l ->
    (match q_slice_from_base (Stdlib.List.map z (dash l)) with
     | Some g -> lst (fun (a, b) -> h a ^ "," ^ h b) g
     | None -> "panic")
  | "to_bytes", _ -> hex_of_bytes (q_write (nat_of_int nb) (q2 args))
  | "read", [ b ] -> (match q_read p (nat_of_int nb) (bytes_of_hex b) with Some (v, _) -> s2 v | None -> "err")
  | "try_from", [ b ] -> (match q_try_from_bytes p (nat_of_int nb) (bytes_of_hex b) with Some v -> s2 v | None -> "err")
  | _ -> "driver-error:unknown-op:" ^ op

let eval_cube o i p nb op args =
  let open ExtField in
  match (op, args) with
  | "add", _ -> s3 (c_add o (q3 (take 3 args)) (q3 (drop 3 args)))
  | "sub", _ -> s3 (c_sub o (q3 (take 3 args)) (q3 (drop 3 args)))
  | "mul", _ -> s3 (c_mul i (q3 (take 3 args)) (q3 (drop 3 args)))
  | "div", _ -> o3 (c_div o i true (q3 (take 3 args)) (q3 (drop 3 args)))
  | "eq", _ -> bool01 (c_eqb o (q3 (take 3 args)) (q3 (drop 3 args)))
  | "neg", _ -> s3 (c_neg o (q3 args))
  | "double", _ -> s3 (c_double o (q3 args))
  | "square", _ -> s3 (c_square i (q3 args))
  | "inv", _ -> o3 (c_inv o i true (q3 args))
  | "conj", _ -> s3 (c_conjugate i (q3 args))
  | "mul_base", [ a; b; c; d ] -> s3 (c_mul_base i ((z a, z b), z c) (z d))
  | "from_base", [ a ] -> s3 (c_from_base o (z a))
  | "exp", [ a; b; c; e ] -> s3 (c_exp o i ((z a, z b), z c) (z e))
  | "base_element", [ a; b; c; k ] ->
    (match c_base_element ((z a, z b), z c) (nat_of_int (int_of_string k)) with Some v -> h v | None -> "panic")
  | "as_base", l -> lst h (c_slice_as_base (Stdlib.List.map (fun t -> q3 (comma t)) (dash l)))
  | "from_base_slice", l ->
    (match c_slice_from_base (Stdlib.List.map z (dash l)) with
     | Some g -> lst (fun ((a, b), c) -> h a ^ "," ^ h b ^ "," ^ h c) g
     | None -> "panic")
  | "to_bytes", _ -> hex_of_bytes (c_write (nat_of_int nb) (q3 args))
  | "read", [ b ] -> (match c_read p (nat_of_int nb) (bytes_of_hex b) with Some (v, _) -> s3 v | None -> "err")
  | "try_from", [ b ] -> (match c_try_from_bytes p (nat_of_int nb) (bytes_of_hex b) with Some v -> s3 v | None -> "err")
  | _ -> "driver-error:unknown-op:" ^ op

let eval = function
  | [] -> "driver-error:empty"
  | head :: args -> (
    match Stdlib.String.split_on_char '.' head with
    | [ f; op ] -> (
      match fld_of f with
      | Quad (o, i, p, nb) -> eval_quad o i p nb op args
      | Cube (o, i, p, nb) -> eval_cube o i p nb op args)
    | _ -> "driver-error:bad-head:" ^ head)

let () = run eval
