(* C01 driver: evaluates the extracted shape-level admissibility model (coq/Model/Stark.v, module Shape) on the
   constructor-argument cases printed by `c01 corr`.  Numbers in the cases are decimal (< 2^62). *)
open Zio

let z s = z_of_int (int_of_string s)
let d v = string_of_int (int_of_z v)

(* degree token "b" or "b:c1,c2" *)
let degree tok =
  match Stdlib.String.split_on_char ':' tok with
  | [ b ] -> (z b, [])
  | [ b; cs ] -> (z b, Stdlib.List.map z (Stdlib.String.split_on_char ',' cs))
  | _ -> failwith ("bad degree " ^ tok)

let rec split_at_a acc = function
  | "A" :: rest -> (Stdlib.List.rev acc, rest)
  | x :: rest -> split_at_a (x :: acc) rest
  | [] -> (Stdlib.List.rev acc, [])


(* ---- algebraic model over Z/p: "deep <field> <n> <cols> z=<hex> g=<hex> G <gammas> D <deltas> T <poly;poly..> H <poly> X <xs>" *)
let hexlist s = if s = "-" then [] else Stdlib.List.map z_of_hex (Stdlib.String.split_on_char ',' s)
let showlist l = if l = [] then "-" else Stdlib.String.concat "," (Stdlib.List.map hex_of_z l)
let strip_prefix pre s = let k = Stdlib.String.length pre in Stdlib.String.sub s k (Stdlib.String.length s - k)

let deep field n cols zs gs gam del ts h xs =
  let p = match field with "f64" -> ZpOps.coq_P64 | "f62" -> ZpOps.coq_P62 | "f128" -> ZpOps.coq_P128 | f -> failwith ("field " ^ f) in
  let o = ZpOps.zp_ops p in
  let ni = int_of_string n and ci = int_of_string cols in
  let z = z_of_hex (strip_prefix "z=" zs) and g = z_of_hex (strip_prefix "g=" gs) in
  let tpolys = Stdlib.List.map hexlist (Stdlib.String.split_on_char ';' ts) in
  let hp = hexlist h in
  (* the real CompositionPoly is cut out of the interpolated polynomial padded with zero coefficients (Model: prove) *)
  let hp = hp @ Stdlib.List.init (Stdlib.max 0 ((ni * ci) - Stdlib.List.length hp)) (fun _ -> BinNums.Z0) in
  let hs = Stark.segment hp (nat_of_int ni) (nat_of_int ci) in
  let coin = { Stark.c_z = z; c_gamma = hexlist gam; c_delta = hexlist del; c_xs = hexlist xs } in
  let zg = FieldOps.fmul o z g in
  let cur = Stark.evals o tpolys z and nxt = Stark.evals o tpolys zg and hz = Stark.evals o hs z in
  let d = Stark.deep_poly o (nat_of_int ni) g coin tpolys hs cur nxt hz in
  let rec int_of_nat = function Datatypes.O -> 0 | Datatypes.S k -> 1 + int_of_nat k in
  let pts = hexlist xs in
  Stdlib.Printf.sprintf "deg=%d hz=%s evals=%s vdeep=%s" (int_of_nat (Stark.degree_of o d)) (showlist hz)
    (showlist (Stdlib.List.map (fun x -> Stark.peval o d x) pts))
    (showlist (Stdlib.List.map (fun x -> Stark.v_deep o g coin x (Stark.evals o tpolys x) (Stark.evals o hs x) cur nxt hz) pts))

(* ---- the Lagrange-kernel DEEP term (Model/StarkLagrange.v) over Z/p or its quadratic extension:
   "deeplag <field> <ext> <n> <v> z=<e> g=<hex> cc=<e> G <gammas e,..> T <main polys (base) ;..> A <aux polys (e) ;..> L <kernel poly e,..> X <xs (base)>"
   an extension element is "a.b" (a + b*phi); main polynomials, g and the query points are base-field values *)
let deeplag_gen o pe se emb n v zs gs ccs gam ts auxs lp xs =
  let split c s = Stdlib.String.split_on_char c s in
  let plist s = if s = "-" then [] else Stdlib.List.map pe (split ',' s) in
  let show l = if l = [] then "-" else Stdlib.String.concat "," (Stdlib.List.map se l) in
  let z = pe (strip_prefix "z=" zs) and g = emb (z_of_hex (strip_prefix "g=" gs)) and lcc = pe (strip_prefix "cc=" ccs) in
  let mains = if ts = "-" then [] else Stdlib.List.map (fun p -> Stdlib.List.map emb (hexlist p)) (split ';' ts) in
  let auxp = if auxs = "-" then [] else Stdlib.List.map plist (split ';' auxs) in
  let tsall = mains @ auxp in
  let lpp = plist lp and gamma = plist gam in
  let pts = Stdlib.List.map emb (hexlist xs) in
  let nn = nat_of_int (int_of_string n) and vv = nat_of_int (int_of_string v) in
  let ip = StarkLagrange.interp_pts_c20 o false in
  let zg = FieldOps.fmul o z g in
  let cur = Stark.evals o tsall z and nxt = Stark.evals o tsall zg in
  let d0 = Stark.deep_trace o nn g z gamma tsall cur nxt in
  let xl = StarkLagrange.lag_pts o g z vv in
  let lf = StarkLagrange.lag_frame o g vv lpp z in
  let d = Stark.padd o (StarkLagrange.deep_lag o ip lcc lpp xl lf) d0 in
  let rec int_of_nat = function Datatypes.O -> 0 | Datatypes.S k -> 1 + int_of_nat k in
  Stdlib.Printf.sprintf "deg=%d lf=%s evals=%s vtrace=%s" (int_of_nat (Stark.degree_of o d)) (show lf)
    (show (Stdlib.List.map (fun x -> Stark.peval o d x) pts))
    (show (Stdlib.List.map (fun x -> StarkLagrange.v_trace_lag o ip g vv z x gamma lcc (Stark.evals o (tsall @ [lpp]) x) cur nxt lf) pts))

let deeplag field ext n v zs gs ccs gam ts auxs lp xs =
  match field, ext with
  | _, "1" ->
      let p = match field with "f64" -> ZpOps.coq_P64 | "f62" -> ZpOps.coq_P62 | "f128" -> ZpOps.coq_P128 | f -> failwith ("field " ^ f) in
      deeplag_gen (ZpOps.zp_ops p) z_of_hex hex_of_z (fun x -> x) n v zs gs ccs gam ts auxs lp xs
  | ("f64" | "f62"), "2" ->
      let o = if field = "f64" then PolynomExt.quad64_ops else PolynomExt.quad62_ops in
      let pe s = match Stdlib.String.split_on_char '.' s with [ a; b ] -> (z_of_hex a, z_of_hex b) | _ -> failwith ("bad extension element " ^ s) in
      let se (a, b) = hex_of_z a ^ "." ^ hex_of_z b in
      deeplag_gen o pe se (fun x -> (x, BinNums.Z0)) n v zs gs ccs gam ts auxs lp xs
  | _ -> "driver-error:unsupported-field-extension"

(* ---- shape predicates of the Lagrange model on a Lagrange member:
   "lagshape <log_n> <mw> <aux total (kernel column included)> <rands> <blowup> <na> <naa> <e> M <main degs> A <aux degs>" *)
let lagshape log_n mw aw rands blowup na naa e md ad =
  match Stark.Shape.ctx_model (z mw) (z aw) (z rands) (z log_n) (z blowup) (z na) (z naa) false (Some (z e)) md ad with
  | None -> "panic run=inadmissible"
  | Some (((ce, cols), lde), ex) ->
      let v = int_of_string log_n in
      let n = 1 lsl v in
      let o = ZpOps.zp_ops ZpOps.coq_P64 in
      let one = z_of_int 1 in
      let pts = StarkLagrange.lag_pts o (z_of_int 7) (z_of_int 12345) (nat_of_int v) in
      let frame_len = Stdlib.List.length pts in
      (* the guards of prove_lag / verify_lag: the Lagrange constraints exist (lag_new on log2 n coefficients), they are defined on a
         frame of that many entries, syn_div_roots_in_place's assertion v + 1 < n *)
      let ones k = Stdlib.List.init k (fun _ -> one) in
      let lag_ok =
        match EnforceLagrange.lag_new o (ones v) with
        | None -> false
        | Some t ->
            (match StarkLagrange.lag_eval o { StarkLagrange.lc_t = t; lc_rr = ones v; lc_lb = one } (ones frame_len) (z_of_int 12345) with
             | None -> false | Some _ -> true) in
      let run = if lag_ok && frame_len < n && int_of_string aw >= 1 then "ok" else "panic" in
      Stdlib.Printf.sprintf "ok ce=%s cols=%s lde=%s ex=%s lagidx=%d frame=%d run=%s" (d ce) (d cols) (d lde) (d ex) (int_of_string aw - 1) frame_len run

let eval = function
  | "lagshape" :: log_n :: mw :: aw :: rands :: blowup :: na :: naa :: e :: "M" :: rest ->
      let md, ad = split_at_a [] rest in
      lagshape log_n mw aw rands blowup na naa e (Stdlib.List.map degree md) (Stdlib.List.map degree ad)
  | [ "deeplag"; field; ext; n; v; zs; gs; ccs; "G"; gam; "T"; ts; "A"; auxs; "L"; lp; "X"; xs ] -> deeplag field ext n v zs gs ccs gam ts auxs lp xs
  | [ "deep"; field; n; cols; zs; gs; "G"; gam; "D"; del; "T"; ts; "H"; h; "X"; xs ] -> deep field n cols zs gs gam del ts h xs
  | [ "opts"; q; b; g; _e; f; m ] ->
      if Stark.Shape.options_ok (z q) (z b) (z g) (z f) (z m) then
        "ok " ^ (if Stark.Shape.fri_options_ok (z b) (z f) then "fri-ok" else "fri-panic")
      else "panic"
  | [ "tinfo"; main; aux; rands; len ] ->
      let a =
        if Stark.Shape.trace_info_ok (z main) (z aux) (z rands) (z len) then
          Stdlib.Printf.sprintf "ok:%d:%d" (int_of_string main + int_of_string aux) (if int_of_string aux > 0 then 1 else 0)
        else "panic"
      in
      let b = if Stark.Shape.trace_info_ok (z main) (z "0") (z "0") (z len) then "ok" else "panic" in
      a ^ " " ^ b
  | "ctx" :: mw :: aw :: rands :: log_n :: blowup :: na :: naa :: use_new :: ex :: "M" :: rest ->
      let md, ad = split_at_a [] rest in
      let md = Stdlib.List.map degree md and ad = Stdlib.List.map degree ad in
      let ex = if ex = "-" then None else Some (z ex) in
      (match Stark.Shape.ctx_model (z mw) (z aw) (z rands) (z log_n) (z blowup) (z na) (z naa) (use_new = "1") ex md ad with
       | None -> "panic"
       | Some (((ce, cols), lde), e) -> Stdlib.Printf.sprintf "ok ce=%s cols=%s lde=%s ex=%s" (d ce) (d cols) (d lde) (d e))
  | [ "fri"; lde; blowup; fold; rem ] ->
      let l = match Stark.Shape.num_fri_layers (z lde) (z blowup) (z fold) (z rem) with None -> "out-of-fuel" | Some k -> "layers=" ^ d k in
      l ^ " wf=" ^ (if Stark.Shape.fri_wellformed (z lde) (z blowup) (z fold) (z rem) then "1" else "0")
  | op :: _ -> "driver-error:unknown-op:" ^ op
  | [] -> "driver-error:empty"

let () = run eval
