(* C01 driver: evaluates the extracted shape-level admissibility model (coq/Model/Stark.v, module Shape) on the
   constructor-argument cases printed by `c01 corr`.  Numbers in the cases are decimal (< 2^62). *)
open Zio

let z s = z_of_int (int_of_string s)
let d v = string_of_int (int_of_z v)

(* degree token "b" or "b:c1,c2" *)
let degree tok =
  match Stdlib.String.split_on_char ':' tok with
  | [ b ] -> (z b, [])
  | [ b; cs ] -> (z b, Stdlib.List.map z (Stdlib.String.split_on_char ',' cs))
  | _ -> failwith ("bad degree " ^ tok)

let rec split_at_a acc = function
  | "A" :: rest -> (Stdlib.List.rev acc, rest)
  | x :: rest -> split_at_a (x :: acc) rest
  | [] -> (Stdlib.List.rev acc, [])


(* ---- algebraic model over Z/p: "deep <field> <n> <cols> z=<hex> g=<hex> G <gammas> D <deltas> T <poly;poly..> H <poly> X <xs>" *)
let hexlist s = if s = "-" then [] else Stdlib.List.map z_of_hex (Stdlib.String.split_on_char ',' s)
let showlist l = if l = [] then "-" else Stdlib.String.concat "," (Stdlib.List.map hex_of_z l)
let strip_prefix pre s = let k = Stdlib.String.length pre in Stdlib.String.sub s k (Stdlib.String.length s - k)

let deep field n cols zs gs gam del ts h xs =
  let p = match field with "f64" -> ZpOps.coq_P64 | "f62" -> ZpOps.coq_P62 | "f128" -> ZpOps.coq_P128 | f -> failwith ("field " ^ f) in
  let o = ZpOps.zp_ops p in
  let ni = int_of_string n and ci = int_of_string cols in
  let z = z_of_hex (strip_prefix "z=" zs) and g = z_of_hex (strip_prefix "g=" gs) in
  let tpolys = Stdlib.List.map hexlist (Stdlib.String.split_on_char ';' ts) in
  let hp = hexlist h in
  (* the real CompositionPoly is cut out of the interpolated polynomial padded with zero coefficients (Model: prove) *)
  let hp = hp @ Stdlib.List.init (Stdlib.max 0 ((ni * ci) - Stdlib.List.length hp)) (fun _ -> BinNums.Z0) in
  let hs = Stark.segment hp (nat_of_int ni) (nat_of_int ci) in
  let coin = { Stark.c_z = z; c_gamma = hexlist gam; c_delta = hexlist del; c_xs = hexlist xs } in
  let zg = FieldOps.fmul o z g in
  let cur = Stark.evals o tpolys z and nxt = Stark.evals o tpolys zg and hz = Stark.evals o hs z in
  let d = Stark.deep_poly o (nat_of_int ni) g coin tpolys hs cur nxt hz in
  let rec int_of_nat = function Datatypes.O -> 0 | Datatypes.S k -> 1 + int_of_nat k in
  let pts = hexlist xs in
  Stdlib.Printf.sprintf "deg=%d hz=%s evals=%s vdeep=%s" (int_of_nat (Stark.degree_of o d)) (showlist hz)
    (showlist (Stdlib.List.map (fun x -> Stark.peval o d x) pts))
    (showlist (Stdlib.List.map (fun x -> Stark.v_deep o g coin x (Stark.evals o tpolys x) (Stark.evals o hs x) cur nxt hz) pts))

let eval = function
  | [ "deep"; field; n; cols; zs; gs; "G"; gam; "D"; del; "T"; ts; "H"; h; "X"; xs ] -> deep field n cols zs gs gam del ts h xs
  | [ "opts"; q; b; g; _e; f; m ] ->
      if Stark.Shape.options_ok (z q) (z b) (z g) (z f) (z m) then
        "ok " ^ (if Stark.Shape.fri_options_ok (z b) (z f) then "fri-ok" else "fri-panic")
      else "panic"
  | [ "tinfo"; main; aux; rands; len ] ->
      let a =
        if Stark.Shape.trace_info_ok (z main) (z aux) (z rands) (z len) then
          Stdlib.Printf.sprintf "ok:%d:%d" (int_of_string main + int_of_string aux) (if int_of_string aux > 0 then 1 else 0)
        else "panic"
      in
      let b = if Stark.Shape.trace_info_ok (z main) (z "0") (z "0") (z len) then "ok" else "panic" in
      a ^ " " ^ b
  | "ctx" :: mw :: aw :: rands :: log_n :: blowup :: na :: naa :: use_new :: ex :: "M" :: rest ->
      let md, ad = split_at_a [] rest in
      let md = Stdlib.List.map degree md and ad = Stdlib.List.map degree ad in
      let ex = if ex = "-" then None else Some (z ex) in
      (match Stark.Shape.ctx_model (z mw) (z aw) (z rands) (z log_n) (z blowup) (z na) (z naa) (use_new = "1") ex md ad with
       | None -> "panic"
       | Some (((ce, cols), lde), e) -> Stdlib.Printf.sprintf "ok ce=%s cols=%s lde=%s ex=%s" (d ce) (d cols) (d lde) (d e))
  | [ "fri"; lde; blowup; fold; rem ] ->
      let l = match Stark.Shape.num_fri_layers (z lde) (z blowup) (z fold) (z rem) with None -> "out-of-fuel" | Some k -> "layers=" ^ d k in
      l ^ " wf=" ^ (if Stark.Shape.fri_wellformed (z lde) (z blowup) (z fold) (z rem) then "1" else "0")
  | op :: _ -> "driver-error:unknown-op:" ^ op
  | [] -> "driver-error:empty"

let () = run eval
