(* C10 driver: evaluates the extracted Merkle model (Model/Merkle.v instantiated with ToyHasher's twin).
   Line protocol (tokens separated by blanks):
     digest / index / depth : hex
     L  (list)          : "-" when empty, else comma-separated
     LL (list of lists) : "~" when empty, else groups (each an L) separated by ';'
   Results: "ok ...", "err:<Variant>(<hex>,..)", "panic", "notree" (tree construction failed). *)
open Zio

let z = z_of_hex
let h = hex_of_z
let split c s = Stdlib.String.split_on_char c s
let l_of s = if s = "-" then [] else Stdlib.List.map z (split ',' s)
let ll_of s = if s = "~" then [] else Stdlib.List.map l_of (split ';' s)
let l_to l = if l = [] then "-" else Stdlib.String.concat "," (Stdlib.List.map h l)
let ll_to ll = if ll = [] then "~" else Stdlib.String.concat ";" (Stdlib.List.map l_to ll)

let err_to (e : Merkle.merr) =
  match e with
  | Merkle.TooFewLeaves (a, b) -> "TooFewLeaves(" ^ h a ^ "," ^ h b ^ ")"
  | Merkle.NumberOfLeavesNotPowerOfTwo n -> "NumberOfLeavesNotPowerOfTwo(" ^ h n ^ ")"
  | Merkle.LeafIndexOutOfBounds (n, i) -> "LeafIndexOutOfBounds(" ^ h n ^ "," ^ h i ^ ")"
  | Merkle.DuplicateLeafIndex -> "DuplicateLeafIndex"
  | Merkle.TooFewLeafIndexes -> "TooFewLeafIndexes"
  | Merkle.TooManyLeafIndexes (m, n) -> "TooManyLeafIndexes(" ^ h m ^ "," ^ h n ^ ")"
  | Merkle.InvalidProof -> "InvalidProof"

let show (f : 'a -> string) (r : 'a Merkle.res) =
  match r with Merkle.Ok a -> f a | Merkle.Err e -> "err:" ^ err_to e | Merkle.Panic -> "panic"

let bp l n d = { Merkle.bp_leaves = l_of l; Merkle.bp_nodes = ll_of n; Merkle.bp_depth = z d }

(* the same tree is used by many consecutive cases: memoise MerkleTree::new on the leaves token *)
let tree_cache : (string, BinNums.coq_Z Merkle.mtree Merkle.res) Stdlib.Hashtbl.t = Stdlib.Hashtbl.create 64

let t_new_cached leaves =
  match Stdlib.Hashtbl.find_opt tree_cache leaves with
  | Some r -> r
  | None ->
    let r = C10.t_new (l_of leaves) in
    if Stdlib.Hashtbl.length tree_cache > 4096 then Stdlib.Hashtbl.reset tree_cache;
    Stdlib.Hashtbl.add tree_cache leaves r;
    r

let with_tree leaves k = match t_new_cached leaves with Merkle.Ok t -> k t | _ -> "notree"

let eval = function
  | [ "new"; leaves ] ->
    show (fun t -> "ok " ^ show h (C10.t_root t) ^ " " ^ l_to t.Merkle.mt_nodes) (t_new_cached leaves)
  | [ "build_nodes"; leaves ] -> show (fun n -> "ok " ^ l_to n) (C10.t_build_nodes (l_of leaves))
  | [ "prove"; leaves; i ] -> with_tree leaves (fun t -> show (fun p -> "ok " ^ l_to p) (C10.t_prove t (z i)))
  | [ "verify"; root; i; path ] -> show (fun () -> "ok") (C10.t_verify (z root) (z i) (l_of path))
  | [ "prove_batch"; leaves; idx ] ->
    with_tree leaves (fun t ->
        show
          (fun p ->
            "ok " ^ l_to p.Merkle.bp_leaves ^ " " ^ ll_to p.Merkle.bp_nodes ^ " " ^ h p.Merkle.bp_depth ^ " "
            ^ show hex_of_bytes (C10.t_serialize p))
          (C10.t_prove_batch t (l_of idx)))
  | [ "get_root"; l; n; d; idx ] -> show (fun r -> "ok " ^ h r) (C10.t_get_root (bp l n d) (l_of idx))
  | [ "verify_batch"; root; l; n; d; idx ] -> show (fun () -> "ok") (C10.t_verify_batch (z root) (l_of idx) (bp l n d))
  | [ "into_paths"; l; n; d; idx ] -> show (fun ps -> "ok " ^ ll_to ps) (C10.t_into_paths (bp l n d) (l_of idx))
  | [ "from_paths"; paths; idx ] ->
    show
      (fun p -> "ok " ^ l_to p.Merkle.bp_leaves ^ " " ^ ll_to p.Merkle.bp_nodes ^ " " ^ h p.Merkle.bp_depth)
      (C10.t_from_paths (ll_of paths) (l_of idx))
  | [ "ser"; n ] -> show (fun b -> "ok " ^ hex_of_bytes b) (C10.t_serialize (bp "-" n "1"))
  | [ "deser"; bytes; l; d ] -> (
    match C10.t_deserialize (bytes_of_hex bytes) (l_of l) (z d) with
    | None -> "err"
    | Some (p, rest) -> "ok " ^ ll_to p.Merkle.bp_nodes ^ " " ^ string_of_int (Stdlib.List.length rest))
  | op :: _ -> "driver-error:unknown-op:" ^ op
  | [] -> "driver-error:empty"

let () = run eval
