(* C03 driver.  One case per line:
     shape  aux=<0|1> auxrands=<n> ncomp=<n> ndeep=<n> layers=<n> q=<n> frirows=<a,b,..|-> grind=<n>
       -> the OBSERVABLE projection of Integrity.events current <shape> (events that a logging hasher and a
          recording coin can see: seed, leaf hashing, absorptions, draws, pow check, positions, Merkle
          authentications, whole-component hashes), ';'-separated, followed by verdict=ok|inadmissible
     policy <blob> <shape fields>
       -> rejects | ignores | unparsed : the trailing-bytes flag of the Parse event of that blob in
          decode_events ++ events current <shape>
   With C03_VARIANT=unrepaired the unrepaired variant is printed instead (used by hand, not by the check). *)
open Zio
open Integrity

let rec int_of_nat (n : Datatypes.nat) : int = match n with Datatypes.O -> 0 | Datatypes.S m -> 1 + int_of_nat m
let nat = nat_of_int
let variant = if (try Sys.getenv "C03_VARIANT" with Not_found -> "") = "unrepaired" then unrepaired else current

let field (toks : string list) (k : string) : string =
  let p = k ^ "=" in
  let n = Stdlib.String.length p in
  match Stdlib.List.find_opt (fun t -> Stdlib.String.length t >= n && Stdlib.String.sub t 0 n = p) toks with
  | Some t -> Stdlib.String.sub t n (Stdlib.String.length t - n)
  | None -> failwith ("missing field " ^ k)

let shape_of (toks : string list) : shape =
  let i k = int_of_string (field toks k) in
  let rows = match field toks "frirows" with "-" -> [] | s -> Stdlib.List.map (fun x -> nat (int_of_string x)) (Stdlib.String.split_on_char ',' s) in
  { sh_aux = (i "aux" = 1); sh_aux_rands = nat (i "auxrands"); sh_n_comp = nat (i "ncomp"); sh_n_deep = nat (i "ndeep");
    sh_layers = nat (i "layers"); sh_fri_rows = rows; sh_queries = nat (i "q"); sh_grinding = nat (i "grind") }

let comp_name (c : comp) : string = match c with
  | TraceRoot i -> "traceroot" ^ string_of_int (int_of_nat i)
  | ConstraintRoot -> "constraintroot"
  | FriRoot i -> "friroot" ^ string_of_int (int_of_nat i)
  | RemainderRoot -> "remroot"
  | TraceRows i -> "trace" ^ string_of_int (int_of_nat i)
  | ConstraintRows -> "constraint"
  | FriRows i -> "fri" ^ string_of_int (int_of_nat i)
  | OodTrace -> "oodtrace" | OodEvals -> "oodevals" | Remainder -> "remainder"
  | _ -> "?"

(* hash_elements over several components is named after the first one *)
let whole_name (cs : comp list) : string = match cs with c :: _ -> comp_name c | [] -> "?"

let obs (e : event) : string option = match e with
  | Absorb (SeedOf _) -> Some "AbsorbSeed"
  | Absorb (Raw c) -> Some ("Absorb " ^ comp_name c)
  | Absorb (HashOf cs) -> Some ("Absorb H(" ^ whole_name cs ^ ")")
  | Draw (_, n) -> let k = int_of_nat n in if k = 0 then None else Some ("Draw " ^ string_of_int k)
  | CheckPow -> Some "CheckPow"
  | DrawPositions -> Some "DrawPositions"
  | HashLeaves (c, n) -> let k = int_of_nat n in if k = 0 then None else Some ("HashLeaves " ^ comp_name c ^ " " ^ string_of_int k)
  | HashWhole cs -> Some ("HashWhole " ^ whole_name cs)
  | AuthCheck (r, _, root) -> Some ("AuthCheck " ^ comp_name r ^ " " ^ comp_name root)
  | Parse _ | Compare _ | Use _ -> None

let blob_of (s : string) : blob =
  let num pre = nat (int_of_string (Stdlib.String.sub s (Stdlib.String.length pre) (Stdlib.String.length s - Stdlib.String.length pre))) in
  let starts pre = Stdlib.String.length s >= Stdlib.String.length pre && Stdlib.String.sub s 0 (Stdlib.String.length pre) = pre in
  match s with
  | "proof" -> BProof | "commitments" -> BCommitments | "constraintvalues" -> BConstraintValues | "constraintpaths" -> BConstraintPaths
  | "oodtrace" -> BOodTrace | "oodlagrange" -> BOodLagrange | "oodevals" -> BOodEvals | "remainder" -> BRemainder
  | _ when starts "tracevalues" -> BTraceValues (num "tracevalues")
  | _ when starts "tracepaths" -> BTracePaths (num "tracepaths")
  | _ when starts "frivalues" -> BFriValues (num "frivalues")
  | _ when starts "fripaths" -> BFriPaths (num "fripaths")
  | _ -> failwith ("unknown blob " ^ s)

let eval = function
  | "shape" :: toks ->
      let s = shape_of toks in
      let evs = events variant s in
      let parts = Stdlib.List.filter_map obs evs in
      let ok = admissible variant s && check st0 evs in
      Stdlib.String.concat ";" (parts @ [ (if ok then "verdict=ok" else "verdict=inadmissible") ])
  | "policy" :: b :: toks ->
      let s = shape_of toks in
      let target = blob_of b in
      let evs = Stdlib.List.append decode_events (events variant s) in
      (match Stdlib.List.find_opt (fun e -> match e with Parse (b', _) -> b' = target | _ -> false) evs with
       | Some (Parse (_, true)) -> "rejects"
       | Some (Parse (_, false)) -> "ignores"
       | _ -> "unparsed")
  | op :: _ -> "driver-error:unknown-op:" ^ op
  | [] -> "driver-error:empty"

let () = run eval
