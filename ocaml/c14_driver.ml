(* C14 driver: evaluates the extracted task-decomposition model (coq/Model/Par.v) on the cases printed by
   `c14 corr`.  One case per line, one result per line.
     bim <n> <min> <conc> <T>       batch_iter_mut! chunks: "each-cell-once off:len,off:len,..." | "panic"
     permute <n> <conc> <T>         the permutation realised on [0..n) — computed under the canonical schedule, a
                                    reversed one, a pseudo-random task schedule and a pseudo-random complete
                                    interleaving of the swaps; printed only if all four agree
     merkle <L> <conc> <T>          task structure: "sub:k,k,..|k,..;top:k,.. indep:ok sched:ok"
     merkle-direct <L> <T>          the concurrent builder called directly: "ok" | "panic"
     merkle-nodes <L> <conc> <T>    node vector of the builder called directly, ToyHasher digests *)
open Zio
open Datatypes

let nat_of_int (n : int) : nat = let rec go acc n = if n <= 0 then acc else go (S acc) (n - 1) in go O n
let int_of_nat (n : nat) : int = let rec go acc = function O -> acc | S m -> go (acc + 1) m in go 0 n
let ints (l : nat list) : string = Stdlib.String.concat "," (Stdlib.List.map (fun x -> string_of_int (int_of_nat x)) l)
let nats (l : int list) : nat list = Stdlib.List.map nat_of_int l
let range n = Stdlib.List.init n (fun i -> i)

(* deterministic pseudo-random permutation of [0..n) *)
let shuffled (seed : int) (n : int) : int list =
  let a = Stdlib.Array.init n (fun i -> i) in
  let st = ref (seed * 2654435761 + 12345) in
  for i = n - 1 downto 1 do
    st := (!st * 2862933555777941757 + 3037000493) land max_int;
    let j = (!st lsr 17) mod (i + 1) in
    let t = a.(i) in a.(i) <- a.(j); a.(j) <- t
  done;
  Stdlib.Array.to_list a

(* a complete interleaving: choices drawn pseudo-randomly among the tasks, followed by enough rounds of every task
   to empty them all *)
let interleaving (seed : int) (ntasks : int) (total : int) : nat list =
  let st = ref (seed * 40503 + 7) in
  let rnd = Stdlib.List.init (2 * total) (fun _ ->
    st := (!st * 2862933555777941757 + 3037000493) land max_int; (!st lsr 20) mod (max ntasks 1)) in
  let tail = Stdlib.List.concat (Stdlib.List.init (max total 1) (fun _ -> range ntasks)) in
  nats (rnd @ tail)

let bim n mn conc t =
  match Par.batch_iter_chunks conc (nat_of_int n) (nat_of_int mn) (nat_of_int t) with
  | Par.Panic -> "panic"
  | Par.Done cs ->
      let cs = Stdlib.List.map (fun (o, l) -> (int_of_nat o, int_of_nat l)) cs in
      (* consecutive from 0 and summing to n <=> every cell visited exactly once *)
      let rec ok off = function [] -> off = n | (o, l) :: r -> o = off && ok (off + l) r in
      (if ok 0 cs then "each-cell-once " else "cells-missed-or-repeated ")
      ^ Stdlib.String.concat "," (Stdlib.List.map (fun (o, l) -> Stdlib.Printf.sprintf "%d:%d" o l) cs)

let permute n conc t =
  let v = range n in
  let nb = int_of_nat (Par.permute_num_batches (nat_of_int t) (S O)) in
  let tn = nat_of_int t in
  let run sched = Par.permute_dispatch 0 conc tn (nats sched) v in
  let r0 = run (range nb) in
  let r1 = run (Stdlib.List.rev (range nb)) in
  let r2 = run (shuffled (n + t) nb) in
  let concurrent_path = conc && n >= 1024 in
  let r3, complete =
    if concurrent_path then Par.permute_par_interleaved 0 tn (S O) (interleaving (n + 3 * t) nb n) v else (r0, true) in
  if r0 = r1 && r0 = r2 && r0 = r3 && complete then Stdlib.String.concat "," (Stdlib.List.map string_of_int r0)
  else "SCHEDULE-DEPENDENT"

(* digests are OCaml ints; merge is an arbitrary non-commutative mixing function *)
let mg (a : int) (b : int) : int = ((a * 1000003) lxor (b * 8191 + 12345) lxor (a lsr 7)) land 0x3fffffffffffffff

let merkle l conc t =
  let leaves = Stdlib.List.init l (fun i -> i * 7 + 1) in
  let junk = Stdlib.List.init l (fun i -> -1 - i) in
  let n = l / 2 in
  let tn = nat_of_int t in
  let serial = Par.merkle_serial 0 mg leaves junk in
  if conc && l > 1024 then
    match Par.merkle_par_plan 0 mg leaves tn with
    | Par.Panic -> "panic"
    | Par.Done p ->
        let ws steps = Stdlib.List.concat (Stdlib.List.map (fun s -> Par.t_writes s) steps) in
        let sub = Stdlib.String.concat "|" (Stdlib.List.map (fun task -> ints (ws task)) p.Par.mp_sub) in
        let top = ints (ws p.Par.mp_top) in
        (* pairwise footprint disjointness of the subtree tasks, re-checked here on machine integers
           (write/write and write/read); proved for every n and T in Proofs/ParMerkle.v *)
        let fp task = let c = Par.compose task in
          (Stdlib.List.map int_of_nat (Par.t_writes c), Stdlib.List.map int_of_nat (Par.t_reads c)) in
        let fps = Stdlib.List.map fp p.Par.mp_sub in
        let owner = Stdlib.Hashtbl.create 4096 in
        let indep = ref true in
        Stdlib.List.iteri (fun i (w, _) -> Stdlib.List.iter (fun c ->
          (match Stdlib.Hashtbl.find_opt owner c with Some j when j <> i -> indep := false | _ -> ());
          Stdlib.Hashtbl.replace owner c i) w) fps;
        Stdlib.List.iteri (fun i (_, r) -> Stdlib.List.iter (fun c ->
          match Stdlib.Hashtbl.find_opt owner c with Some j when j <> i -> indep := false | _ -> ()) r) fps;
        let indep = !indep in
        let ns = Stdlib.List.length p.Par.mp_sub in
        let s1 = nats (shuffled (l + t) n) and s2 = nats (shuffled (l + 5 * t) ns) in
        let r1 = Par.merkle_par 0 mg leaves junk tn (nats (range n)) (nats (range ns)) in
        let r2 = Par.merkle_par 0 mg leaves junk tn s1 s2 in
        let r3 = Par.merkle_par_interleaved 0 mg leaves junk tn (interleaving (l + t) n 1) (interleaving (l + 2 * t) ns n) in
        let sched_ok = (r1 = Par.Done serial) && (r2 = Par.Done serial) && (r3 = Par.Done (serial, true)) in
        Stdlib.Printf.sprintf "sub:%s;top:%s indep:%s sched:%s" sub top (if indep then "ok" else "bad") (if sched_ok then "ok" else "bad")
  else
    (* serial builder: the leaf row in increasing order, then n-1 .. 1 *)
    let steps = Par.merkle_serial_steps 0 mg leaves in
    let ws = Stdlib.List.concat (Stdlib.List.map (fun s -> Par.t_writes s) steps) in
    let internal = Stdlib.List.filter (fun k -> int_of_nat k < n) ws in
    Stdlib.Printf.sprintf "sub:;top:%s indep:ok sched:ok" (ints internal)

let merkle_direct l t =
  let leaves = Stdlib.List.init l (fun i -> i * 7 + 1) in
  let junk = Stdlib.List.init l (fun i -> -1 - i) in
  match Par.merkle_par 0 mg leaves junk (nat_of_int t) (nats (range (l / 2))) (nats (range (int_of_nat (Par.npo2 (nat_of_int t))))) with
  | Par.Panic -> "panic"
  | Par.Done r -> if r = Par.merkle_serial 0 mg leaves junk then "ok" else "differs-from-serial"

(* node vector of the (concurrent / sequential) builder over ToyHasher digests (Gallina twin Model/ToyHash.v), leaves =
   toy_hash(le_bytes8(i)); printed as root / xor / position-weighted sum (mod 2^64) of the 64-bit nodes.
   merkle_par_plan depends on T only through npo2 T (see its definition): results are memoised on (L, conc, npo2 T). *)
let nodes_cache : (int * bool * int, string) Stdlib.Hashtbl.t = Stdlib.Hashtbl.create 64
let merkle_nodes l conc t =
  let tn = nat_of_int t in
  let ns = int_of_nat (Par.npo2 tn) in
  let key = (l, conc, if conc then ns else 0) in
  match Stdlib.Hashtbl.find_opt nodes_cache key with
  | Some r -> r
  | None ->
    let leaves = Stdlib.List.init l (fun i -> ToyHash.toy_hash (MachInt.to_le_bytes (nat_of_int 8) (z_of_int i))) in
    let junk = Stdlib.List.init l (fun i -> z_of_int (i + 77)) in
    let res =
      if conc then Par.merkle_par BinNums.Z0 ToyHash.toy_merge leaves junk tn (nats (range (l / 2))) (nats (range ns))
      else Par.Done (Par.merkle_serial BinNums.Z0 ToyHash.toy_merge leaves junk) in
    let r = match res with
      | Par.Panic -> "panic"
      | Par.Done nodes ->
          let w = Stdlib.List.map (fun z -> Stdlib.Int64.of_string ("0x" ^ hex_of_z z)) nodes in
          let x = Stdlib.List.fold_left Stdlib.Int64.logxor 0L w in
          let (_, ws) = Stdlib.List.fold_left (fun (i, acc) v -> (Stdlib.Int64.add i 1L, Stdlib.Int64.add acc (Stdlib.Int64.mul v i))) (1L, 0L) w in
          Stdlib.Printf.sprintf "root:%Lx xor:%Lx wsum:%Lx len:%d" (Stdlib.List.nth w 1) x ws (Stdlib.List.length w) in
    Stdlib.Hashtbl.replace nodes_cache key r; r

let eval = function
  | [ "merkle-nodes"; l; c; t ] -> merkle_nodes (int_of_string l) (c = "1") (int_of_string t)
  | [ "bim"; n; mn; c; t ] -> bim (int_of_string n) (int_of_string mn) (c = "1") (int_of_string t)
  | [ "permute"; n; c; t ] -> permute (int_of_string n) (c = "1") (int_of_string t)
  | [ "merkle"; l; c; t ] -> merkle (int_of_string l) (c = "1") (int_of_string t)
  | [ "merkle-direct"; l; t ] -> merkle_direct (int_of_string l) (int_of_string t)
  | op :: _ -> "driver-error:unknown-op:" ^ op
  | [] -> "driver-error:empty"

let () = run eval
