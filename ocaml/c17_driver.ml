(* C17 driver: runs the extracted Composition model (coq/Model/Composition.v) over zp_ops P64.
   One case per line, all tokens lowercase hex (see harness/src/bin/c17.rs `corr`):
     eval   n ceb ldeb offset | w {deg hold pidx k}*w | np {len coef*}*np | auxw nr rand* | nex | nt tcoef* |
            groups(main) groups(aux) | rows {main-row aux-row}*rows
            groups = ng {a b nc {col first xoff cc plen poly*}*nc}*ng
            -> combined evaluations over the ce domain, comma separated ("panic" when the model returns None)
     split  n ncols offset N evals*N z        -> H_0(z),..|sum_i z^(i n) H_i(z)
     vgroup 1 {group} w state*w x             -> BoundaryConstraintGroup::evaluate_at
     tcomb  n nex nmain naux coef* mainev* auxev* x  -> TransitionConstraints::combine_evaluations
     lag    n ceb ldeb offset v coef*v r*v lb rows ldecol*rows  -> the Lagrange-kernel part of evaluate() over the ce domain *)
open Zio

let z = z_of_hex
let h = hex_of_z
let o = ZpOps.zp_ops ZpOps.coq_P64

let nat_of (k : int) : Datatypes.nat =
  let rec go k acc = if k <= 0 then acc else go (k - 1) (Datatypes.S acc) in
  go k Datatypes.O

let int_of_nat (n : Datatypes.nat) : int =
  let rec go n acc = match n with Datatypes.O -> acc | Datatypes.S m -> go m (acc + 1) in
  go n 0

(* B::get_root_of_unity(log2 m) for f64: G^(2^(32-k)), G = TWO_ADIC_ROOT_OF_UNITY *)
let g32 = z "64fdd1a46201e246" (* f64 TWO_ADIC_ROOT_OF_UNITY = 7277203076849721926 (math/src/field/f64/mod.rs) *)
let rou_tbl : (int, BinNums.coq_Z) Stdlib.Hashtbl.t = Stdlib.Hashtbl.create 16
let rou (m : Datatypes.nat) : BinNums.coq_Z =
  let m = int_of_nat m in
  match Stdlib.Hashtbl.find_opt rou_tbl m with
  | Some v -> v
  | None ->
    let k = ref 0 in
    while (1 lsl !k) < m do incr k done;
    let r = ref g32 in
    for _ = 1 to 32 - !k do r := o.FieldOps.fmul !r !r done;
    Stdlib.Hashtbl.add rou_tbl m !r;
    !r

(* token cursor *)
type cur = { mutable toks : string list }
let next c = match c.toks with [] -> failwith "short line" | t :: r -> c.toks <- r; t
let int c = int_of_string ("0x" ^ next c)
let el c = z (next c)
let many c k f = Stdlib.List.init k (fun _ -> f c)
let els c k = many c k el

let groups c =
  let ng = int c in
  many c ng (fun c ->
      let a = int c in
      let b = el c in
      let nc = int c in
      let cs = many c nc (fun c ->
          let col = int c in
          let first = int c in
          let xoff = el c in
          let cc = el c in
          let plen = int c in
          let poly = els c plen in
          { Composition.bc_col = nat_of col; bc_poly = poly; bc_first = nat_of first; bc_xoff = xoff; bc_cc = cc }) in
      { Composition.bg_div = { Composition.dv_a = nat_of a; dv_b = b; dv_ex = [] }; bg_cs = cs })

let join l = Stdlib.String.concat "," (Stdlib.List.map h l)

let eval_case c =
  let n = int c in let ceb = int c in let ldeb = int c in let offset = el c in
  let w = int c in
  let cols = many c w (fun c ->
      let d = int c in let hold = int c in let pidx = int c in let k = el c in
      (((nat_of d, hold = 1), nat_of pidx), k)) in
  let np = int c in
  let ppolys = many c np (fun c -> let len = int c in els c len) in
  let auxw = int c in let nr = int c in let rands = els c nr in
  let nex = int c in
  let nt = int c in let tcoef = els c nt in
  let mg = groups c in
  let ag = groups c in
  let rows = int c in
  let lde = many c rows (fun c -> let m = els c w in let a = els c auxw in (m, a)) in
  if c.toks <> [] then failwith "trailing tokens";
  let lde_main = Stdlib.List.map fst lde and lde_aux = Stdlib.List.map snd lde in
  let tmain = Composition.fam_tmain o cols in
  let taux = Composition.fam_taux o (nat_of w) (nat_of auxw) in
  match Composition.evaluate o (nat_of n) (nat_of ceb) (nat_of ldeb) offset rou (nat_of w) tmain taux ppolys
          (nat_of nex) tcoef mg ag rands (auxw > 0) lde_main lde_aux (fun _ v -> v) with
  | Some l -> join l
  | None -> "panic"

let split_case c =
  let n = int c in let ncols = int c in let offset = el c in let big = int c in
  let evals = els c big in let zz = el c in
  match Composition.composition_poly_new (nat_of n) (Composition.interpolate_with_offset o offset rou) evals (nat_of ncols) with
  | None -> "panic"
  | Some cols ->
    let hs = Composition.cp_evaluate_at o cols zz in
    join hs ^ "|" ^ h (Composition.recombine o (nat_of n) hs zz)

let vgroup_case c =
  match groups c with
  | [ g ] ->
    let w = int c in let state = els c w in let x = el c in
    (match Composition.bg_evaluate_at o g state x with Some v -> h v | None -> "panic")
  | _ -> failwith "vgroup expects one group"

let tcomb_case c =
  let n = int c in let nex = int c in let nmain = int c in let naux = int c in
  let coef = els c (nmain + naux) in
  let me = els c nmain in let ae = els c naux in let x = el c in
  h (Composition.combine_evaluations o (nat_of n) rou (nat_of nmain) (nat_of nex) coef me ae x)

let lag_case c =
  let n = int c in let ceb = int c in let ldeb = int c in let offset = el c in
  let v = int c in
  let coefs = els c v in let r = els c v in let lb = el c in
  let rows = int c in let col = els c rows in
  if c.toks <> [] then failwith "trailing tokens";
  let divs = Stdlib.List.init v (fun idx -> { Enforce.d_num = [ (z_of_int (1 lsl idx), o.FieldOps.fone) ]; d_ex = [] }) in
  let t = { EnforceLagrange.l_coef = coefs; l_div = divs } in
  match CompositionLagrange.lagrange_evaluate o (nat_of n) (nat_of ceb) (nat_of ldeb) offset rou (nat_of v) col t r lb with
  | Some l -> join l
  | None -> "panic"

let eval = function
  | "eval" :: rest -> eval_case { toks = rest }
  | "lag" :: rest -> lag_case { toks = rest }
  | "split" :: rest -> split_case { toks = rest }
  | "vgroup" :: rest -> vgroup_case { toks = rest }
  | "tcomb" :: rest -> tcomb_case { toks = rest }
  | op :: _ -> "driver-error:unknown-op:" ^ op
  | [] -> "driver-error:empty"

let () = run eval
