(* C02 driver: runs the extracted model of the verifier's decision (Model/Soundness.v) on the cases printed by
   harness/src/bin/c02.rs.  One case per line, tokens "key=value"; field elements are canonical residues in hex.
     verify <fld> ext=<1|2|3> aw=<aux width> ...   -> "<verdict class>" and, on acceptance, the DEEP evaluations at the query
                        positions; elements of the extension carrier are written c0_c1(_c2)
     valid  <fld> ...   -> "1"/"0": the reference validity predicate valid_b of the model
     seed   <fld> ...   -> the coin seed elements of the statement *)
open Zio
open Soundness

let z = z_of_hex
let h = hex_of_z
let split c s = if s = "-" || s = "" then [] else Stdlib.String.split_on_char c s
let zl s = Stdlib.List.map z (split ',' s)
let rows s = Stdlib.List.map zl (split '|' s)
let int_hex s = int_of_string ("0x" ^ s)
let nat_hex s = nat_of_int (int_hex s)
let show_l l = if l = [] then "-" else Stdlib.String.concat "," (Stdlib.List.map h l)

let ops_of = function
  | "f64" -> ZpOps.zp_ops ZpOps.coq_P64
  | "f128" -> ZpOps.zp_ops ZpOps.coq_P128
  | "f62" -> ZpOps.zp_ops ZpOps.coq_P62
  | f -> failwith ("field " ^ f)

let kv toks =
  let t = Stdlib.Hashtbl.create 40 in
  Stdlib.List.iter
    (fun tok ->
      match Stdlib.String.index_opt tok '=' with
      | Some i -> Stdlib.Hashtbl.replace t (Stdlib.String.sub tok 0 i) (Stdlib.String.sub tok (i + 1) (Stdlib.String.length tok - i - 1))
      | None -> ())
    toks;
  fun k -> try Stdlib.Hashtbl.find t k with Not_found -> failwith ("missing key " ^ k)

(* the carrier E of a verify case: the base field or its quadratic / cubic extension.  Elements of E are written
   c0_c1(_c2) (canonical residues in hex); values the Rust code holds in the base field are embedded with E::from *)
type 'f carrier = { ops : 'f FieldOps.coq_FOps; emb : BinNums.coq_Z -> 'f; pe : string -> 'f; sh : 'f -> string }

let z0 = BinNums.Z0
let base_carrier fld = { ops = ops_of fld; emb = (fun v -> v); pe = z; sh = h }
let quad_carrier o =
  { ops = o; emb = (fun v -> (v, z0));
    pe = (fun s -> match split '_' s with [ a; b ] -> (z a, z b) | _ -> failwith ("quad element " ^ s));
    sh = (fun (a, b) -> h a ^ "_" ^ h b) }
let cube_carrier o =
  { ops = o; emb = (fun v -> ((v, z0), z0));
    pe = (fun s -> match split '_' s with [ a; b; c ] -> ((z a, z b), z c) | _ -> failwith ("cube element " ^ s));
    sh = (fun ((a, b), c) -> h a ^ "_" ^ h b ^ "_" ^ h c) }

let verdict_name = function
  | Accept -> "accept" | RejField -> "field" | RejOptions -> "options" | RejGkr -> "gkr" | RejOod -> "ood" | RejFriCommit -> "fri"
  | RejPow -> "pow" | RejTraceQuery -> "trace-query" | RejConsQuery -> "cons-query" | RejFri -> "fri"

let rec list_eq eq a b = match a, b with [], [] -> true | x :: a', y :: b' -> eq x y && list_eq eq a' b' | _ -> false

let verify_in (c : 'f carrier) fld g =
  let o = c.ops in
  let el s = Stdlib.List.map c.pe (split ',' s) in                      (* list of E elements *)
  let erows s = Stdlib.List.map el (split '|' s) in
  let bl s = Stdlib.List.map (fun x -> c.emb (z x)) (split ',' s) in     (* list of base elements, embedded *)
  let brows s = Stdlib.List.map bl (split '|' s) in
  (* fam=hold/deg/per/k;... *)
  let lagfam = (try g "famk" with _ -> "fam") = "lag" in
  let fam =
    if lagfam then [] else
    Stdlib.List.map
      (fun col ->
        match Stdlib.String.split_on_char '/' col with
        | [ hold; deg; per; k ] ->
            { fc_hold = hold = "1"; fc_deg = nat_hex deg; fc_per = (if per = "-" then None else Some (nat_hex per)); fc_k = c.emb (z k) }
        | _ -> failwith "fam")
      (split ';' (g "fam")) in
  (* groups=first:steps:col/xoff/c0+c1+..;col/xoff/..!first:steps:...   [pv] parses one polynomial coefficient *)
  let groups_of pv s =
    Stdlib.List.map
      (fun gr ->
        match Stdlib.String.split_on_char ':' gr with
        | [ first; steps; cons ] ->
            let cs =
              Stdlib.List.map
                (fun cn ->
                  match Stdlib.String.split_on_char '/' cn with
                  | [ col; xoff; poly ] -> { bc_col = nat_hex col; bc_xoff = c.emb (z xoff); bc_vpoly = Stdlib.List.map pv (split '+' poly) }
                  | _ -> failwith "cons")
                (split ';' cons)
            in
            { bg_first = nat_hex first; bg_steps = nat_hex steps; bg_cons = cs }
        | _ -> failwith "group")
      (split '!' s) in
  let aw = int_hex (g "aw") in
  let air = { air_n = nat_hex (g "n"); air_k = nat_hex (g "k"); air_g = c.emb (z (g "g")); air_periodic = brows (g "per");
              air_groups = groups_of (fun x -> c.emb (z x)) (g "groups"); air_nt_main = nat_hex (g "ntm");
              air_aux_groups = groups_of c.pe (g "agroups");
              air_lagrange = (let l = (try g "lag" with _ -> "-") in if l = "-" then None else Some (nat_hex l)) } in
  let n_of_z = function BinNums.Z0 -> BinNums.N0 | BinNums.Zpos p -> BinNums.Npos p | BinNums.Zneg _ -> failwith "negative position" in
  let positions = Stdlib.List.map (fun s -> n_of_z (z s)) (split ',' (g "pos")) in
  (* DeepComposer::new: x = E::from(g_lde^p * offset), computed in the base field *)
  let xs = Stdlib.List.map c.emb (query_xs (ops_of fld) (z (g "off")) (z (g "glde")) positions) in
  let coins = { c_aux_rands = el (g "ar"); cc_trans = el (g "tc"); cc_bnd = el (g "bc"); c_z = c.pe (g "z");
                cc_deep_trace = el (g "dt"); cc_deep_cons = el (g "dc"); c_xs = xs;
                c_lagrange = (if air.air_lagrange = None then None else
                                Some { lg_rands = el (g "lr"); lg_cc_trans = el (g "ltc"); lg_cc_bnd = c.pe (g "lbc"); lg_cc_deep = c.pe (g "ldc") }) } in
  let aux = if aw = 0 then None else Some { ax_cur = el (g "acur"); ax_next = el (g "anext"); ax_rows = erows (g "qa") } in
  let proof = { p_modulus = z (g "pmod"); p_options = zl (g "popts"); p_ood_cur = el (g "cur"); p_ood_next = el (g "next");
                p_ood_evals = el (g "evals"); p_q_trace = brows (g "qt"); p_q_cons = erows (g "qc"); p_aux = aux;
                p_lagrange = (if air.air_lagrange = None then None else Some (el (g "lfr"))) } in
  let fri0 = el (g "fri0") in
  (* FRI verdict parameter: the first check of FriVerifier::verify (evaluations = layer-0 openings at the query positions);
     the remaining FRI checks are those of an honest proof *)
  let seen = ref [] in
  let env = { e_modulus = z (g "emod"); e_acceptable = Stdlib.List.map zl (split '|' (g "acc"));
              e_gkr_ok = (try g "gkr" with _ -> "1") = "1"; e_fri_commit_ok = g "fric" = "1";
              e_pow_ok = g "pow" = "1"; e_trace_auth = g "tauth" = "1"; e_cons_auth = g "cauth" = "1";
              e_fri = (fun evals -> seen := evals; list_eq (fun a b -> o.FieldOps.feqb a b) evals fri0) } in
  let w = Stdlib.List.length fam in
  let v =
    if lagfam then verify_model o (lagfam_trans o) (lagfam_aux_trans o) env air coins proof
    else verify_model o (fam_trans o fam) (fam_aux_trans o (nat_of_int w) (nat_of_int aw)) env air coins proof in
  match v with
  | Accept -> "accept " ^ (if !seen = [] then "-" else Stdlib.String.concat "," (Stdlib.List.map c.sh !seen))   (* the DEEP evaluations the model handed to the FRI verdict *)
  | v -> verdict_name v

let verify fld g =
  match fld, g "ext" with
  | _, "1" -> verify_in (base_carrier fld) fld g
  | "f64", "2" -> verify_in (quad_carrier PolynomExt.quad64_ops) fld g
  | "f62", "2" -> verify_in (quad_carrier PolynomExt.quad62_ops) fld g
  | "f128", "2" -> verify_in (quad_carrier PolynomExt.quad128_ops) fld g
  | "f64", "3" -> verify_in (cube_carrier PolynomExt.cube64_ops) fld g
  | "f62", "3" -> verify_in (cube_carrier PolynomExt.cube62_ops) fld g
  | _, e -> failwith ("extension " ^ e ^ " of " ^ fld)

(* fam=hold/deg/per/k;... (base field: the reference validity predicate) *)
let fam_of s =
  Stdlib.List.map
    (fun c ->
      match Stdlib.String.split_on_char '/' c with
      | [ hold; deg; per; k ] ->
          { fc_hold = hold = "1"; fc_deg = nat_hex deg; fc_per = (if per = "-" then None else Some (nat_hex per)); fc_k = z k }
      | _ -> failwith "fam")
    (split ';' s)

(* asr=kind/col/first/stride/v0+v1;... *)
let asserts_of s =
  Stdlib.List.map
    (fun a ->
      match Stdlib.String.split_on_char '/' a with
      | [ kind; col; first; stride; vals ] ->
          { as_kind = (match kind with "s" -> ASingle | "p" -> APeriodic | _ -> ASequence); as_col = nat_hex col; as_first = nat_hex first;
            as_stride = nat_hex stride; as_vals = Stdlib.List.map z (split '+' vals) }
      | _ -> failwith "assertion")
    (split ';' s)

let valid fld g =
  let o = ops_of fld in
  let fam = fam_of (g "fam") in
  let cycles = rows (g "cyc") in
  let t = rows (g "trace") in
  if valid_b o (fam_step_trans o fam cycles) t (nat_hex (g "n")) (nat_hex (g "k")) (asserts_of (g "asr")) then "1" else "0"

let seed fld g =
  let o = ops_of fld in
  let aux = if g "aux" = "-" then None else (match zl (g "aux") with [ a; b ] -> Some (a, b) | _ -> failwith "aux") in
  let sh = { sh_width = z (g "w"); sh_aux = aux; sh_len = z (g "len") } in
  let op = match zl (g "opts") with
    | [ q; b; gr; e; f; r ] -> { o_queries = q; o_blowup = b; o_grinding = gr; o_ext = e; o_fold = f; o_rem = r }
    | _ -> failwith "opts" in
  show_l (seed_of o sh (z (g "m1")) (z (g "m2")) op (zl (g "pub")))

let eval = function
  | "verify" :: fld :: rest -> verify fld (kv rest)
  | "valid" :: fld :: rest -> valid fld (kv rest)
  | "seed" :: fld :: rest -> seed fld (kv rest)
  | op :: _ -> "driver-error:unknown-op:" ^ op
  | [] -> "driver-error:empty"

let () = run eval
